(* C03, encoder side: Element.to_er7 emits every leaf that the tree holds, in order.

   Part A (this file): for element trees satisfying a placement invariant (children are either all
   emitted because the element is base-typed / untyped, or they are placed under the names of the
   element's structure in order, followed by the unnamed ones), the non-blank leaves of the
   encoded text - split all the way down as in Proofs/NoDrop.v - are exactly the encoded leaves of
   the tree, in order.  Part B (second half of this file) shows that parse_segment establishes
   the invariant for every line of a well-formed table segment or Z-segment. *)
From Coq Require Import List Bool Arith ZArith NArith Lia Init.Byte.
From HL7 Require Import Lib.Str Model.Ec Model.Result Model.Ref Model.Tree Model.Parser Model.Encode Model.Wf.
From HL7 Require Import Proofs.SplitJoin Proofs.LevelCodec Proofs.RoundTripStr Proofs.RoundTripCore
  Proofs.RoundTripZ Proofs.RoundTripSeg Proofs.NoDrop.
Import ListNotations.
Open Scope bs_scope.

(* ------------------------------------------------------------------ *)
(* generic: slots and the pieces they encode to                         *)

Definition slot_members {A} (slots : list (slot A)) : list A :=
  flat_map (fun s => match s with Some l => l | None => [] end) slots.
Definition slot_texts {A} (enc : A -> str) (slots : list (slot A)) : list str :=
  flat_map (fun s => match s with Some (x :: r) => map enc (x :: r) | _ => [[]] end) slots.

Definition slot_text1 {A} (enc : A -> str) (s : slot A) : list str :=
  match s with Some (x :: r) => map enc (x :: r) | _ => [[]] end.
Definition slot_mem1 {A} (s : slot A) : list A := match s with Some l => l | None => [] end.
Lemma slot_texts_cons {A} (enc : A -> str) s slots : slot_texts enc (s :: slots) = slot_text1 enc s ++ slot_texts enc slots.
Proof. reflexivity. Qed.
Lemma slot_members_cons {A} (s : slot A) slots : slot_members (s :: slots) = slot_mem1 s ++ slot_members slots.
Proof. reflexivity. Qed.

Lemma enc_slots_texts {A} (enc : A -> str) sep slots : enc_slots enc sep slots = bjoin sep (slot_texts enc slots).
Proof. reflexivity. Qed.

Lemma slot_members_app {A} (a b : list (slot A)) : slot_members (a ++ b) = slot_members a ++ slot_members b.
Proof. apply flat_map_app. Qed.

Lemma slot_members_empty {A} (m : list (slot A)) : forallb slot_empty m = true -> slot_members m = [].
Proof.
  induction m as [|s m IH]; [reflexivity|]. cbn [forallb]. intros H. apply andb_prop in H. destruct H as [Hs Hm].
  rewrite slot_members_cons, (IH Hm). destruct s as [[|x l]|]; try discriminate; reflexivity.
Qed.

Lemma slot_members_trim {A} (l : list (slot A)) : slot_members (remove_trailing slot_empty l) = slot_members l.
Proof.
  destruct (remove_trailing_prefix slot_empty l) as [m [E Hm]]. rewrite E at 2.
  now rewrite slot_members_app, (slot_members_empty m Hm), app_nil_r.
Qed.

Lemma slot_members_slot_of {A} (gs : list (list A)) : slot_members (map slot_of gs) = concat gs.
Proof.
  induction gs as [|g gs IH]; [reflexivity|]. cbn [map concat]. rewrite slot_members_cons, IH. now destruct g.
Qed.

Lemma slot_members_repeat_none {A} n : slot_members (repeat (@None (list A)) n) = [].
Proof. induction n as [|n IH]; [reflexivity|]. exact IH. Qed.

Lemma slot_members_singletons {A} (l : list A) : slot_members (map (fun c => Some [c]) l) = l.
Proof.
  induction l as [|x l IH]; [reflexivity|]. cbn [map].
  change (x :: slot_members (map (fun c => Some [c]) l) = x :: l). now rewrite IH.
Qed.

Lemma keep_nb_app a b : keep_nb (a ++ b) = keep_nb a ++ keep_nb b.
Proof. apply filter_app. Qed.

Lemma keep_nb_slot_texts {A} (enc : A -> str) slots :
  keep_nb (slot_texts enc slots) = keep_nb (map enc (slot_members slots)).
Proof.
  induction slots as [|s slots IH]; [reflexivity|]. rewrite slot_texts_cons, slot_members_cons.
  rewrite keep_nb_app, map_app, keep_nb_app, IH. f_equal. destruct s as [[|x l]|]; reflexivity.
Qed.

Lemma flat_slot_texts {A X} (enc : A -> str) (F : str -> list X) slots : F [] = [] ->
  flat_map F (slot_texts enc slots) = flat_map (fun x => F (enc x)) (slot_members slots).
Proof.
  intros H0. induction slots as [|s slots IH]; [reflexivity|]. rewrite slot_texts_cons, slot_members_cons.
  rewrite !flat_map_app, IH. f_equal. destruct s as [[|x l]|]; cbn [slot_text1 slot_mem1 flat_map]; rewrite ?H0, ?app_nil_r; try reflexivity.
  change (F (enc x) ++ flat_map F (map enc l)) with (flat_map F (map enc (x :: l))).
  rewrite flat_map_concat_map, map_map, <- flat_map_concat_map. reflexivity.
Qed.

Lemma slot_texts_free {A} (enc : A -> str) c slots :
  (forall x, In x (slot_members slots) -> bmem c (enc x) = false) ->
  Forall (fun p => bmem c p = false) (slot_texts enc slots).
Proof.
  induction slots as [|s slots IH]; intros H; [constructor|]. rewrite slot_texts_cons. rewrite slot_members_cons in H.
  apply Forall_app. split.
  - destruct s as [[|x l]|]; try (constructor; [reflexivity|constructor]).
    cbn [slot_text1]. rewrite Forall_map, Forall_forall. intros y Hy. apply H. apply in_or_app. now left.
  - apply IH. intros y Hy. apply H. apply in_or_app. now right.
Qed.

Lemma flat_map_ext_in' {A B} (f g : A -> list B) l : (forall x, In x l -> f x = g x) -> flat_map f l = flat_map g l.
Proof.
  induction l as [|x l IH]; intros H; [reflexivity|]. cbn [flat_map]. rewrite (H x (or_introl eq_refl)), IH; [reflexivity|].
  intros y Hy. apply H. now right.
Qed.

Lemma flat_map_flat_map' {A B C} (g : A -> list B) (f : B -> list C) l :
  flat_map f (flat_map g l) = flat_map (fun x => flat_map f (g x)) l.
Proof. induction l as [|x l IH]; [reflexivity|]. cbn [flat_map]. now rewrite flat_map_app, IH. Qed.

Lemma flat_map_map' {A B C} (h : A -> B) (F : B -> list C) l : flat_map F (map h l) = flat_map (fun x => F (h x)) l.
Proof. induction l as [|x l IH]; [reflexivity|]. cbn [map flat_map]. now rewrite IH. Qed.

Lemma split_join_flat {X} (F : str -> list X) c pieces : F [] = [] ->
  Forall (fun p => bmem c p = false) pieces ->
  flat_map F (bsplit c (bjoin c pieces)) = flat_map F pieces.
Proof.
  intros H0 H. rewrite bsplit_bjoin'.
  - destruct pieces; [cbn; now rewrite H0|reflexivity].
  - rewrite forallb_forall. rewrite Forall_forall in H. intros p Hp. apply nosep_of_bmem. now apply H.
Qed.

Lemma split_join_keep c pieces : Forall (fun p => bmem c p = false) pieces ->
  keep_nb (bsplit c (bjoin c pieces)) = keep_nb pieces.
Proof.
  intros H. rewrite bsplit_bjoin'.
  - destruct pieces; reflexivity.
  - rewrite forallb_forall. rewrite Forall_forall in H. intros p Hp. apply nosep_of_bmem. now apply H.
Qed.

Lemma bjoin_free c sep pieces : c <> sep -> Forall (fun p => bmem c p = false) pieces -> bmem c (bjoin sep pieces) = false.
Proof. apply bmem_bjoin. Qed.

(* ------------------------------------------------------------------ *)
(* placement: children under the structure's names in order, then the unnamed ones *)

Definition placed {A} (nm : A -> option str) (ks : list str) (l : list A) : Prop :=
  exists gs u, l = concat gs ++ u /\ groups_ok nm ks gs /\ forall x, In x u -> name_none_or_st (nm x) = true.

Lemma named_suffix {A} (nm : A -> option str) k l u : k <> unbs "ST" ->
  (forall x, In x u -> name_none_or_st (nm x) = true) -> named nm k (l ++ u) = named nm k l.
Proof.
  intros Hk Hu. rewrite !named_pick, pick_app, (pick_none nm k u); [now rewrite app_nil_r|].
  intros x Hx E. specialize (Hu x Hx). rewrite E in Hu. unfold name_none_or_st, opt_is_none, opt_eqb in Hu. cbn [orb] in Hu.
  apply streqb_eq in Hu. contradiction.
Qed.

Lemma filter_unnamed_placed {A} (nm : A -> option str) ks gs u :
  ~ In (unbs "ST") ks -> groups_ok nm ks gs -> (forall x, In x u -> name_none_or_st (nm x) = true) ->
  filter (fun c => name_none_or_st (nm c)) (concat gs ++ u) = u.
Proof.
  intros Hst Hg Hu. rewrite filter_app. rewrite filter_nothing.
  - cbn [app]. induction u as [|x u IH]; [reflexivity|]. cbn [filter]. rewrite (Hu x (or_introl eq_refl)). f_equal.
    apply IH. intros y Hy. apply Hu. now right.
  - intros x Hx. destruct (groups_ok_in nm _ _ x Hg Hx) as [k [Hk E]]. rewrite E.
    unfold name_none_or_st, opt_is_none, opt_eqb. cbn [orb].
    destruct (streqb_spec k (unbs "ST")) as [->|]; [contradiction|reflexivity].
Qed.

Lemma named_keys_placed {A} (nm : A -> option str) ks gs u :
  NoDup ks -> ~ In (unbs "ST") ks -> groups_ok nm ks gs -> (forall x, In x u -> name_none_or_st (nm x) = true) ->
  map (fun k => named nm k (concat gs ++ u)) ks = map slot_of gs ++ repeat None (length ks - length gs).
Proof.
  intros Hnd Hst Hg Hu.
  pose proof (fill_by_name nm ks gs [] Hnd Hg) as F. cbn [app] in F.
  transitivity (map (fun k => named nm k (concat gs)) ks); [|apply F; intros x []].
  apply map_ext_in. intros k Hk. apply named_suffix; [|exact Hu]. intros ->. contradiction.
Qed.

Lemma generic_slots_members {A} (nm : A -> option str) st l :
  NoDup (ordered_of st) -> ~ In (unbs "ST") (ordered_of st) -> placed nm (ordered_of st) l ->
  slot_members (generic_slots nm st l) = l.
Proof.
  intros Hnd Hst [gs [u [-> [Hg Hu]]]]. unfold generic_slots. fold (ordered_of st).
  rewrite slot_members_trim, slot_members_app.
  rewrite (named_keys_placed nm _ gs u Hnd Hst Hg Hu), slot_members_app, slot_members_slot_of, slot_members_repeat_none.
  rewrite (filter_unnamed_placed nm _ gs u Hst Hg Hu), slot_members_singletons. now rewrite app_nil_r.
Qed.

Section EncLeaves.
Variable t : tables.
Variable e : ec.
Hypothesis Hec : ec_ok e.

Notation base := (base t).

(* ------------------------------------------------------------------ *)
(* components                                                           *)

Definition comp_enc_leaves (c : comp) : list str := keep_nb (map sc_enc (c_children c)).
(* an encoded leaf contains none of the four separators *)
Definition sep_free (x : str) : Prop :=
  bmem (fsep e) x = false /\ bmem (csep e) x = false /\ bmem (rsep e) x = false /\ bmem (ssep e) x = false.
Definition sub_clean (x : sub) : Prop := sep_free (sc_enc x).

Definition comp_shape (c : comp) : Prop :=
  base (c_dt c) || opt_is_none (c_dt c) = true \/
  (NoDup (ordered_of (c_st c)) /\ ~ In (unbs "ST") (ordered_of (c_st c)) /\
   placed sc_name (ordered_of (c_st c)) (c_children c)).
Definition comp_ok (c : comp) : Prop := Forall sub_clean (c_children c) /\ comp_shape c.

Lemma enc_comp_slots c : comp_ok c ->
  exists slots, enc_comp t e c = enc_slots enc_sub (ssep e) slots /\ slot_members slots = c_children c.
Proof.
  intros [_ [H|[Hnd [Hst Hp]]]]; unfold enc_comp.
  - rewrite H. exists [Some (c_children c)]. split; [reflexivity|]. unfold slot_members. cbn. apply app_nil_r.
  - destruct (base (c_dt c) || opt_is_none (c_dt c)).
    + exists [Some (c_children c)]. split; [reflexivity|]. unfold slot_members. cbn. apply app_nil_r.
    + exists (generic_slots sc_name (c_st c) (c_children c)). split; [reflexivity|]. now apply generic_slots_members.
Qed.

Definition clean3 (s : str) : Prop :=
  bmem (fsep e) s = false /\ bmem (csep e) s = false /\ bmem (rsep e) s = false.

Lemma seps : fsep e <> csep e /\ fsep e <> rsep e /\ fsep e <> ssep e /\
             csep e <> rsep e /\ csep e <> ssep e /\ rsep e <> ssep e.
Proof. apply (RoundTripVT.seps_distinct e Hec). Qed.
Lemma cr_ne c : In c [fsep e; csep e; rsep e; ssep e; esc e] -> CR <> c.
Proof. apply (RoundTripVT.sep_not_cr e Hec). Qed.

Lemma enc_comp_leaves c : comp_ok c ->
  comp_text_leaves e (enc_comp t e c) = comp_enc_leaves c /\ clean3 (enc_comp t e c).
Proof.
  intros Hok. destruct (enc_comp_slots c Hok) as [slots [E M]]. destruct Hok as [Hcl _].
  rewrite E, enc_slots_texts. destruct seps as [A [B [C [D [F G]]]]].
  assert (Hfree : forall d, (forall x, In x (c_children c) -> bmem d (sc_enc x) = false) ->
                            Forall (fun p => bmem d p = false) (slot_texts enc_sub slots)).
  { intros d Hd. apply slot_texts_free. rewrite M. exact Hd. }
  rewrite Forall_forall in Hcl.
  split.
  - unfold comp_text_leaves. rewrite split_join_keep.
    + rewrite keep_nb_slot_texts, M. reflexivity.
    + apply Hfree. intros x Hx. now destruct (Hcl x Hx) as [_ [_ [_ H]]].
  - repeat split; apply bjoin_free; auto; try (apply cr_ne; cbn; tauto); apply Hfree; intros x Hx;
      destruct (Hcl x Hx) as [H1 [H2 [H3 H4]]]; assumption.
Qed.

(* ------------------------------------------------------------------ *)
(* fields                                                               *)

Definition field_enc_leaves (f : field) : list str := flat_map comp_enc_leaves (f_children f).

Definition not_msh12o (n : option str) : Prop :=
  opt_eqb n (Some (unbs "MSH_1")) || opt_eqb n (Some (unbs "MSH_2")) = false.

Definition varies_shape (l : list comp) : Prop :=
  map c_name l = map (fun i => Some (name_idx VARIES i)) (seq 1 (length l)) /\
  Forall (fun c => comp_unknown c = false) l.

Definition field_kind (f : field) : Prop :=
  (is_varies (f_dt f) = true /\ varies_shape (f_children f)) \/
  (is_varies (f_dt f) = false /\ base (f_dt f) || opt_is_none (f_dt f) = true) \/
  (is_varies (f_dt f) = false /\
   NoDup (ordered_of (f_st f)) /\ ~ In (unbs "ST") (ordered_of (f_st f)) /\
   placed c_name (ordered_of (f_st f)) (f_children f)).
Definition field_ok (f : field) : Prop :=
  not_msh12o (f_name f) /\ Forall comp_ok (f_children f) /\ field_kind f.
(* the same without the conditions on the encoded leaf texts *)
Definition field_shape (f : field) : Prop :=
  not_msh12o (f_name f) /\ Forall comp_shape (f_children f) /\ field_kind f.
Definition field_clean (f : field) : Prop :=
  forall c, In c (f_children f) -> Forall sub_clean (c_children c).
Lemma field_ok_of_shape f : field_shape f -> field_clean f -> field_ok f.
Proof.
  intros [Hm [Hc Hk]] Hcl. split; [exact Hm|]. split; [|exact Hk].
  rewrite Forall_forall in *. intros c Hin. split; [now apply Hcl|now apply Hc].
Qed.

(* Field._get_children for varies: children named VARIES_1 .. VARIES_m *)
Lemma varies_last_named : forall l a,
  map c_name l = map (fun i => Some (name_idx VARIES i)) (seq (S a) (length l)) ->
  fold_left (fun m c => N.max m (varies_index (c_name c))) l (N.of_nat a) = N.of_nat (a + length l).
Proof.
  induction l as [|c l IH]; intros a H.
  - cbn. f_equal. lia.
  - cbn [length seq map] in H. injection H as Hc Hl. cbn [fold_left length]. rewrite Hc.
    rewrite varies_index_idx. replace (N.max (N.of_nat a) (N.of_nat (S a))) with (N.of_nat (S a)) by lia.
    rewrite (IH (S a) Hl). f_equal. lia.
Qed.

Lemma varies_groups_named : forall l a,
  map c_name l = map (fun i => Some (name_idx VARIES i)) (seq a (length l)) ->
  groups_ok c_name (map (name_idx VARIES) (seq a (length l))) (map (fun c => [c]) l).
Proof.
  induction l as [|c l IH]; intros a H; [exact I|].
  cbn [length seq map] in H. injection H as Hc Hl. cbn [length seq map groups_ok]. split.
  - intros x [<-|[]]. exact Hc.
  - now apply IH.
Qed.

Lemma varies_slots_named l : varies_shape l -> varies_slots l = map (fun c => Some [c]) l.
Proof.
  intros [Hn Hu]. unfold varies_slots.
  pose proof (varies_last_named l 0 Hn) as L. cbn [N.of_nat Nat.add] in L. rewrite L, Nat2N.id.
  rewrite (filter_nothing comp_unknown) by (rewrite Forall_forall in Hu; exact Hu).
  cbn [map]. rewrite app_nil_r.
  rewrite <- (map_map (name_idx VARIES) (fun k => named c_name k l)).
  pose proof (fill_by_name c_name (map (name_idx VARIES) (seq 1 (length l))) (map (fun c => [c]) l) []
                (name_idx_NoDup _ _ _) (varies_groups_named l 1 Hn)) as F.
  cbn [app] in F. rewrite concat_singletons in F.
  change (name_idx (unbs "VARIES")) with (name_idx VARIES).
  rewrite F by (intros x []). rewrite !map_length, seq_length, Nat.sub_diag. cbn [repeat]. rewrite app_nil_r.
  change (map slot_of (map (fun c => [c]) l)) with (map slot_of (map (fun c : comp => [c]) l)).
  pose proof (trim_slots_canon (map (fun c : comp => [c]) l) 0 (singletons_no_trail l)) as T.
  cbn [repeat] in T. rewrite app_nil_r in T. rewrite T.
  rewrite map_map. apply map_ext. reflexivity.
Qed.

Lemma enc_field_slots f : field_ok f ->
  exists slots, enc_field t e f = Ok (enc_slots (enc_comp t e) (csep e) slots) /\ slot_members slots = f_children f.
Proof.
  intros [Hm [_ H]]. unfold enc_field. unfold not_msh12o in Hm. rewrite Hm.
  destruct H as [[Hv Hs]|[[Hv Hb]|[Hv [Hnd [Hst Hp]]]]]; rewrite Hv.
  - exists (varies_slots (f_children f)). split; [reflexivity|]. rewrite (varies_slots_named _ Hs). apply slot_members_singletons.
  - rewrite Hb. exists [Some (f_children f)]. split; [reflexivity|]. unfold slot_members. cbn. apply app_nil_r.
  - destruct (base (f_dt f) || opt_is_none (f_dt f)).
    + exists [Some (f_children f)]. split; [reflexivity|]. unfold slot_members. cbn. apply app_nil_r.
    + exists (generic_slots c_name (f_st f) (f_children f)). split; [reflexivity|]. now apply generic_slots_members.
Qed.

Definition clean2 (s : str) : Prop := bmem (fsep e) s = false /\ bmem (rsep e) s = false.

Lemma comp_text_leaves_nil : comp_text_leaves e [] = [].
Proof. reflexivity. Qed.

Lemma enc_field_leaves f : field_ok f ->
  exists out, enc_field t e f = Ok out /\ field_text_leaves e out = field_enc_leaves f /\ clean2 out.
Proof.
  intros Hok. destruct (enc_field_slots f Hok) as [slots [E M]]. destruct Hok as [_ [Hc _]].
  exists (enc_slots (enc_comp t e) (csep e) slots). split; [exact E|]. rewrite enc_slots_texts.
  rewrite Forall_forall in Hc. destruct seps as [A [B [C [D [F G]]]]].
  assert (Hfree : forall d, (forall c, In c (f_children f) -> bmem d (enc_comp t e c) = false) ->
                            Forall (fun p => bmem d p = false) (slot_texts (enc_comp t e) slots)).
  { intros d Hd. apply slot_texts_free. rewrite M. exact Hd. }
  split.
  - unfold field_text_leaves. rewrite (split_join_flat (comp_text_leaves e)); [|reflexivity|].
    + rewrite (flat_slot_texts (enc_comp t e) (comp_text_leaves e)) by reflexivity. rewrite M.
      unfold field_enc_leaves. apply flat_map_ext_in'.
      intros c Hcin. exact (proj1 (enc_comp_leaves c (Hc c Hcin))).
    + apply Hfree. intros c Hcin. now destruct (proj2 (enc_comp_leaves c (Hc c Hcin))) as [_ [H _]].
  - repeat split; apply bjoin_free; auto; try (apply cr_ne; cbn; tauto); apply Hfree; intros c Hcin;
      destruct (proj2 (enc_comp_leaves c (Hc c Hcin))) as [H1 [H2 H3]]; assumption.
Qed.

(* ------------------------------------------------------------------ *)
(* segments                                                             *)

Definition seg_enc_leaves (s : seg) : list str := flat_map field_enc_leaves (s_children s).
Definition fenc (f : field) : str := match enc_field t e f with Ok x => x | Err _ => [] end.

Lemma fenc_ok f : field_ok f -> enc_field t e f = Ok (fenc f) /\
  field_text_leaves e (fenc f) = field_enc_leaves f /\ clean2 (fenc f).
Proof. intros H. destruct (enc_field_leaves f H) as [out [E [L C]]]. unfold fenc. rewrite E. auto. Qed.

Lemma enc_reps_ok l : Forall field_ok l -> enc_reps t e l = Ok (map fenc l).
Proof.
  induction 1 as [|f l Hf _ IH]; [reflexivity|]. cbn [enc_reps map]. now rewrite (proj1 (fenc_ok f Hf)), IH.
Qed.

Definition slot_line_text (sl : slot field) : str :=
  match sl with Some reps => bjoin (rsep e) (map fenc reps) | None => [] end.

Lemma enc_seg_slots_ok slots : Forall field_ok (slot_members slots) ->
  enc_seg_slots t e slots = Ok (map slot_line_text slots).
Proof.
  induction slots as [|sl slots IH]; intros H; [reflexivity|]. rewrite slot_members_cons in H.
  apply Forall_app in H. destruct H as [H1 H2]. cbn [enc_seg_slots map]. rewrite (IH H2).
  destruct sl as [reps|]; [|reflexivity]. cbn [slot_mem1] in H1. now rewrite (enc_reps_ok reps H1).
Qed.

Definition seg_inv (P : field -> Prop) (s : seg) : Prop := exists n gs u,
  length (s_name s) = 3 /\ upper (s_name s) = s_name s /\ streqb (s_name s) (unbs "MSH") = false /\
  st_ordered (s_st s) = Some (map (name_idx (s_name s)) (seq 1 n)) /\
  s_last_allowed s = N.of_nat n /\ (N.of_nat n <= s_last s)%N /\
  s_children s = concat gs ++ u /\ groups_named (s_name s) 1 gs /\
  length gs <= (if s_inf s then N.to_nat (s_last s) else n) /\
  (forall x, In x u -> f_name x = None) /\ Forall P (s_children s).
Definition seg_shape := seg_inv field_shape.
Definition seg_clean (s : seg) : Prop := forall f, In f (s_children s) -> field_clean f.

Definition seg_ok (s : seg) : Prop := exists n gs u,
  length (s_name s) = 3 /\ upper (s_name s) = s_name s /\ streqb (s_name s) (unbs "MSH") = false /\
  st_ordered (s_st s) = Some (map (name_idx (s_name s)) (seq 1 n)) /\
  s_last_allowed s = N.of_nat n /\ (N.of_nat n <= s_last s)%N /\
  s_children s = concat gs ++ u /\ groups_named (s_name s) 1 gs /\
  length gs <= (if s_inf s then N.to_nat (s_last s) else n) /\
  (forall x, In x u -> f_name x = None) /\ Forall field_ok (s_children s).

Lemma seg_ok_of_shape s : seg_shape s -> seg_clean s -> seg_ok s.
Proof.
  intros [n [gs [u [H3 [Hup [Hmsh [Ho [Hla [Hl [Hch [Hn [HK [Hu Hok]]]]]]]]]]]]] Hcl.
  exists n, gs, u. do 10 (split; [assumption|]).
  rewrite Forall_forall in *. intros f Hf. apply field_ok_of_shape; [now apply Hok|now apply Hcl].
Qed.

Lemma seg_slots_members s : seg_ok s -> slot_members (seg_slots s false) = s_children s.
Proof.
  intros [n [gs [u [H3 [Hup [Hmsh [Ho [Hla [Hl [Hch [Hn [HK [Hu Hok]]]]]]]]]]]]].
  unfold seg_slots. rewrite Ho, Hla, Nat2N.id. rewrite slot_members_trim.
  set (sn := s_name s) in *. set (ch := s_children s) in *.
  set (K := if s_inf s then N.to_nat (s_last s) else n) in *.
  assert (E : map (fun k => named f_name k ch) (map (name_idx sn) (seq 1 n)) ++
              (if s_inf s then map (fun i => named f_name (name_idx sn i) ch) (seq (S n) (N.to_nat (s_last s) - n)) else [])
              = map (fun k => named f_name k ch) (map (name_idx sn) (seq 1 K))).
  { subst K. destruct (s_inf s).
    - rewrite <- (map_map (name_idx sn) (fun k => named f_name k ch) (seq (S n) _)).
      rewrite <- map_app, <- map_app. do 2 f_equal.
      replace (N.to_nat (s_last s)) with (n + (N.to_nat (s_last s) - n)) at 2 by lia.
      now rewrite seq_app.
    - now rewrite app_nil_r. }
  rewrite app_assoc, E. rewrite slot_members_app. subst ch. rewrite Hch.
  assert (Hu' : forall x, In x u -> name_none_or_st (f_name x) = true) by (intros x Hx; now rewrite (Hu x Hx)).
  rewrite (named_keys_placed f_name (map (name_idx sn) (seq 1 K)) gs u (name_idx_NoDup _ _ _) (names_no_ST _ _ _)
             (groups_named_ok sn gs 1 K Hn HK) Hu').
  rewrite slot_members_app, slot_members_slot_of, slot_members_repeat_none, app_nil_r.
  rewrite (filter_unnamed_placed f_name (map (name_idx sn) (seq 1 K)) gs u (names_no_ST _ _ _)
             (groups_named_ok sn gs 1 K Hn HK) Hu').
  now rewrite slot_members_singletons.
Qed.

Lemma pieces_blank c s : is_blank s = true -> Forall (fun p => is_blank p = true) (bsplit c s).
Proof.
  intros H. apply is_blank_all_space in H. unfold bsplit, split.
  pose proof (split_aux_all is_space c s [] H eq_refl) as G. rewrite forallb_forall in G.
  rewrite Forall_forall. intros p Hp. apply is_blank_all_space. now apply G.
Qed.

Lemma blank_slot_leaves txt : is_blank txt = true -> flat_map (field_text_leaves e) (bsplit (rsep e) txt) = [].
Proof.
  intros H. pose proof (pieces_blank (rsep e) txt H) as P. induction P as [|p l Hp _ IH]; [reflexivity|].
  cbn [flat_map]. now rewrite (blank_field_text_leaves e p Hp), IH.
Qed.

Lemma fieldpos_nonmsh sn i txt : no_msh sn ->
  fieldpos_text_leaves e sn (i, txt) = flat_map (field_text_leaves e) (bsplit (rsep e) txt).
Proof.
  intros Hm. destruct (Hm i) as [M2 M1]. unfold fieldpos_text_leaves. cbn [fst snd]. rewrite M2, M1.
  rewrite is_msh12_name, M1, M2. cbn [orb].
  destruct (is_blank txt) eqn:B; cbn [negb]; [now rewrite blank_slot_leaves|reflexivity].
Qed.

Lemma flat_map_indexed {A B} (G : A -> list B) (l : list A) : flat_map (fun p => G (snd p)) (indexed l) = flat_map G l.
Proof.
  rewrite <- (indexed_snd l) at 2. rewrite (flat_map_concat_map G), map_map, <- flat_map_concat_map. reflexivity.
Qed.

Theorem enc_segment_leaves s : seg_ok s ->
  exists out, enc_segment t e s false = Ok out /\
              (bmem CR out = false -> line_text_leaves e out = seg_enc_leaves s).
Proof.
  intros Hok. pose proof (seg_slots_members s Hok) as M.
  destruct Hok as [n [gs [u [H3 [Hup [Hmsh [Ho [Hla [Hl [Hch [Hn [HK [Hu Hfo]]]]]]]]]]]]].
  set (slots := seg_slots s false) in *.
  assert (Hfo' : Forall field_ok (slot_members slots)) by now rewrite M.
  exists (bjoin (fsep e) (s_name s :: map slot_line_text slots)). split.
  { unfold enc_segment. fold slots. rewrite (enc_seg_slots_ok slots Hfo'). now rewrite Hmsh. }
  destruct seps as [A [B [C [D [F G]]]]].
  (* the slot texts are free of the field separator and of CR *)
  assert (Hclean : forall d, d <> rsep e -> (forall f, In f (slot_members slots) -> bmem d (fenc f) = false) ->
                   Forall (fun p => bmem d p = false) (map slot_line_text slots)).
  { intros d Hd Hf. rewrite Forall_map, Forall_forall. intros sl Hsl. destruct sl as [reps|]; [|reflexivity].
    cbn [slot_line_text]. apply bjoin_free; [exact Hd|]. rewrite Forall_map, Forall_forall. intros f Hf'. apply Hf.
    unfold slot_members. apply in_flat_map. exists (Some reps). split; [exact Hsl|exact Hf']. }
  rewrite Forall_forall in Hfo'.
  assert (Hfs : Forall (fun p => bmem (fsep e) p = false) (map slot_line_text slots)).
  { apply Hclean; [exact B|]. intros f Hf. now destruct (proj2 (proj2 (fenc_ok f (Hfo' f Hf)))) as [H _]. }
  intros HCR.
  assert (Hcr : bmem CR (bjoin (fsep e) (map slot_line_text slots)) = false).
  { rewrite (bjoin_sn e (s_name s)) in HCR. unfold bmem, mem in *. rewrite existsb_app in HCR.
    apply orb_false_elim in HCR. destruct HCR as [_ HCR].
    destruct (map slot_line_text slots) eqn:Em; [reflexivity|]. cbn [existsb] in HCR.
    apply orb_false_elim in HCR. exact (proj2 HCR). }
  unfold line_text_leaves.
  rewrite (seg_name_sn e (s_name s) H3), (seg_rest_sn e (s_name s) H3 Hup Hmsh).
  rewrite strip_cr_none by exact Hcr.
  pose proof (sn_no_msh (s_name s) H3 Hup Hmsh) as Hnm.
  rewrite (flat_map_ext_in' _ (fun p => flat_map (field_text_leaves e) (bsplit (rsep e) (snd p)))).
  2:{ intros [i txt] _. now apply fieldpos_nonmsh. }
  rewrite (flat_map_indexed (fun txt => flat_map (field_text_leaves e) (bsplit (rsep e) txt))).
  rewrite (split_join_flat (fun txt => flat_map (field_text_leaves e) (bsplit (rsep e) txt))); [|reflexivity|exact Hfs].
  unfold seg_enc_leaves. rewrite <- M. rewrite flat_map_map'. unfold slot_members at 1. rewrite flat_map_flat_map'.
  apply flat_map_ext_in'. intros sl Hsl. destruct sl as [reps|]; [|reflexivity]. cbn [slot_line_text].
  assert (Hreps : forall f, In f reps -> In f (slot_members slots)).
  { intros f Hf. unfold slot_members. apply in_flat_map. exists (Some reps). now split. }
  rewrite (split_join_flat (field_text_leaves e)); [|reflexivity|].
  - rewrite flat_map_map'.
    apply flat_map_ext_in'. intros f Hf. exact (proj1 (proj2 (fenc_ok f (Hfo' f (Hreps f Hf))))).
  - rewrite Forall_map, Forall_forall. intros f Hf.
    now destruct (proj2 (proj2 (fenc_ok f (Hfo' f (Hreps f Hf))))) as [_ H].
Qed.

End EncLeaves.

(* ================================================================================== *)
(* Part B: what parse_segment builds satisfies the placement invariant                  *)

Section Acceptance.
Variable t : tables.

(* acceptance appends and changes nothing else *)
Lemma add_subs_full kids : forall c c',
  add_subs t TOLERANT c kids = Ok c' -> c' = mk_comp (c_name c) (c_dt c) (c_st c) (c_children c ++ kids).
Proof.
  induction kids as [|k rest IH]; intros c c' H; cbn [add_subs] in H.
  - injection H as <-. rewrite app_nil_r. now destruct c.
  - repeat match type of H with
           | (if ?b then _ else _) = _ => destruct b; try discriminate
           | bind ?r _ = _ => destruct r as [v|]; cbn [bind] in H; try discriminate
           end.
    apply IH in H. cbn [c_name c_dt c_st c_children] in H. now rewrite <- app_assoc in H.
Qed.

Lemma add_comps_full kids : forall f f',
  add_comps t TOLERANT f kids = Ok f' -> f' = mk_field_rec (f_name f) (f_dt f) (f_st f) (f_children f ++ kids).
Proof.
  induction kids as [|k rest IH]; intros f f' H; cbn [add_comps] in H.
  - injection H as <-. rewrite app_nil_r. now destruct f.
  - repeat match type of H with
           | (if ?b then _ else _) = _ => destruct b; try discriminate
           | bind ?r _ = _ => destruct r as [v|]; cbn [bind] in H; try discriminate
           end.
    apply IH in H. cbn [f_name f_dt f_st f_children] in H. now rewrite <- app_assoc in H.
Qed.

(* Segment.add: everything but the children and the last index is unchanged; the last index
   only grows and, for an open-ended segment, reaches the index of every added <SEG>_i *)
Lemma add_fields_full kids : forall s s',
  add_fields t TOLERANT s kids = Ok s' ->
  s_name s' = s_name s /\ s_st s' = s_st s /\ s_inf s' = s_inf s /\ s_last_allowed s' = s_last_allowed s /\
  s_children s' = s_children s ++ kids /\ (s_last s <= s_last s')%N /\
  (s_inf s = true -> length (s_name s) = 3 ->
   forall x i, In x kids -> f_name x = Some (name_idx (s_name s) i) -> (N.of_nat i <= s_last s')%N).
Proof.
  induction kids as [|k rest IH]; intros s s' H; cbn [add_fields] in H.
  - injection H as <-. rewrite app_nil_r. repeat split; try reflexivity; try lia. intros _ _ x i [].
  - destruct (f_name k) as [kn|] eqn:Ek.
    + repeat match type of H with
             | (if ?b then _ else _) = _ => let E := fresh "E" in destruct b eqn:E; try discriminate
             end;
      apply IH in H; cbn [s_name s_st s_inf s_last_allowed s_last s_children] in H;
      destruct H as [H1 [H2 [H3 [H4 [H5 [H6 H7]]]]]]; rewrite <- app_assoc in H5;
      (repeat split; [assumption|assumption|assumption|assumption|assumption| |]).
      * destruct (N.ltb_spec (s_last s) (py_int_val (drop 4 kn))); lia.
      * intros Hinf H3' x i [<-|Hx] Hn.
        -- rewrite Ek in Hn. injection Hn as ->. rewrite (name_idx3_drop4 _ i H3'), nat_to_str_py_val in H6.
           destruct (N.ltb_spec (s_last s) (N.of_nat i)); lia.
        -- now apply (H7 Hinf H3' x i).
      * exact H6.
      * intros Hinf. apply andb_false_iff in E2. destruct E2 as [E2|E2]; [congruence|].
        intros H3' x i [<-|Hx] Hn.
        -- rewrite Ek in Hn. injection Hn as ->. rewrite (name_idx3_nonempty _ i H3') in E2. discriminate.
        -- now apply (H7 Hinf H3' x i).
    + cbn [is_strict] in H. apply IH in H. cbn [s_name s_st s_inf s_last_allowed s_last s_children] in H.
      destruct H as [H1 [H2 [H3 [H4 [H5 [H6 H7]]]]]]. rewrite <- app_assoc in H5.
      repeat split; try assumption. intros Hinf H3' x i [<-|Hx] Hn; [congruence|now apply (H7 Hinf H3' x i)].
Qed.

End Acceptance.

Section Shapes.
Variable t : tables.
Variable e : ec.
Variable leaf : option str -> str -> result str.

Notation base := (base t).
Hypothesis Hst : base (Some (unbs "ST")) = true.
Hypothesis Hvar : base (Some (unbs "varies")) = false.

Notation ST := (unbs "ST").

(* ---------- subcomponent constructors, with the leaf encoder left abstract ---------- *)

Lemma mk_subcomponent_unnamed_eq d s : base (Some d) = true -> is_varies (Some d) = false ->
  mk_subcomponent t TOLERANT leaf None (Some d) s None =
  match s with
  | [] => Ok (mk_sub (Some d) (Some d) [] [])
  | _ :: _ => bind (leaf (Some d) s) (fun x => Ok (mk_sub (Some d) (Some d) s x))
  end.
Proof.
  intros Hb Hv. unfold mk_subcomponent, canbevaries.
  rewrite Hv. cbn [andb negb is_strict]. rewrite Hb. cbn [andb negb bind valid_child_name st_dt].
  unfold set_datatype_ctor. rewrite Hb. cbn [andb negb is_strict bind]. now destruct s.
Qed.

Lemma mk_subcomponent_unnamed_name d s x : base (Some d) = true -> is_varies (Some d) = false ->
  mk_subcomponent t TOLERANT leaf None (Some d) s None = Ok x -> sc_name x = Some d.
Proof.
  intros Hb Hv. rewrite (mk_subcomponent_unnamed_eq d s Hb Hv). destruct s; [intros E; now injection E as <-|].
  destruct (leaf (Some d) (b :: s)); cbn [bind]; [intros E; now injection E as <-|discriminate].
Qed.

Lemma mk_subcomponent_named_name D rows st k p x :
  dt_name_ok t D -> flat_rows t D rows -> rows_structure t D CMP rows st -> 1 <= k <= length rows ->
  mk_subcomponent t TOLERANT leaf (Some (name_idx D k)) None p (ref_in (Some st) (name_idx D k)) = Ok x ->
  sc_name x = Some (name_idx D k).
Proof.
  intros HD Hf Hs Hk.
  destruct k as [|k]; [lia|].
  destruct (nth_error rows k) as [row|] eqn:En; [|apply nth_error_None in En; lia].
  destruct Hf as [_ Hrows]. destruct (Hrows row (nth_error_In _ _ En)) as [i [b [Er [Ei Hbase]]]].
  destruct (rows_structure_ref_in t D CMP rows st k row _ Hs En Er) as [_ Hr]. rewrite Hr.
  unfold mk_subcomponent.
  destruct (name_idx_cons D (S k)) as [c [r Ec]]. rewrite Ec at 1. cbn [andb].
  rewrite (canbevaries_named t true D (S k) (SLeaf i) _ i b HD (leaf_structure t i) eq_refl Ei (fun _ => Hbase)).
  cbn [bind]. rewrite (dn_var_name t D (S k) HD). cbn [andb].
  destruct p; [intros E; now injection E as <-|].
  destruct (leaf (Some b) (b0 :: p)); cbn [bind]; [intros E; now injection E as <-|discriminate].
Qed.

(* ---------- named subcomponents: arbitrary pieces, surplus ones become unnamed ST ---------- *)

Lemma parse_subs_beyond D rows st : dt_name_ok t D -> rows_structure t D CMP rows st ->
  forall ps a kids, length rows <= a ->
  parse_subcomponents_aux t TOLERANT leaf (Some D) (Some st) (combine (seq (S a) (length ps)) ps) = Ok kids ->
  forall x, In x kids -> sc_name x = Some ST.
Proof.
  intros HD Hs. induction ps as [|p ps IH]; intros a kids Ha H x Hx.
  - cbn in H. injection H as <-. destruct Hx.
  - cbn [length seq combine parse_subcomponents_aux] in H.
    rewrite (dn_not_base t D HD) in H. cbn [opt_is_none orb str_of_opt] in H.
    assert (Hm : has_map (Some st) = true) by (unfold has_map; now rewrite (rs_ordered _ _ _ _ _ Hs)).
    rewrite Hm in H. unfold ref_in in H. rewrite (rs_ordered _ _ _ _ _ Hs) in H.
    rewrite (rs_beyond _ _ _ _ _ Hs (S a)) in H by lia. cbn [option_map] in H.
    unfold materialise in H. cbn [opt_is_none] in H. rewrite orb_true_r in H.
    destruct (mk_subcomponent t TOLERANT leaf None (Some ST) p None) as [y|] eqn:Ey; cbn [bind] in H; [|discriminate].
    destruct (parse_subcomponents_aux t TOLERANT leaf (Some D) (Some st) (combine (seq (S (S a)) (length ps)) ps)) as [ys|] eqn:Eys;
      cbn [bind] in H; [|discriminate].
    injection H as <-. destruct Hx as [<-|Hx].
    + apply (mk_subcomponent_unnamed_name ST p y Hst eq_refl Ey).
    + apply (IH (S a) ys); auto.
Qed.

Lemma parse_subs_shape D rows st : dt_name_ok t D -> flat_rows t D rows -> rows_structure t D CMP rows st ->
  forall ps a kids,
  parse_subcomponents_aux t TOLERANT leaf (Some D) (Some st) (combine (seq (S a) (length ps)) ps) = Ok kids ->
  exists gs u, kids = concat gs ++ u /\
               groups_ok sc_name (map (name_idx D) (seq (S a) (length rows - a))) gs /\
               forall x, In x u -> name_none_or_st (sc_name x) = true.
Proof.
  intros HD Hf Hs. induction ps as [|p ps IH]; intros a kids H.
  - cbn in H. injection H as <-. exists [], []. repeat split. intros x [].
  - destruct (le_lt_dec (length rows) a) as [Ha|Ha].
    + exists [], kids. split; [reflexivity|]. split; [exact I|].
      intros x Hx. now rewrite (parse_subs_beyond D rows st HD Hs (p :: ps) a kids Ha H x Hx).
    + cbn [length seq combine parse_subcomponents_aux] in H.
      rewrite (dn_not_base t D HD) in H. cbn [opt_is_none orb str_of_opt] in H.
      assert (Hm : has_map (Some st) = true) by (unfold has_map; now rewrite (rs_ordered _ _ _ _ _ Hs)).
      rewrite Hm in H.
      destruct (nth_error rows a) as [row|] eqn:En; [|apply nth_error_None in En; lia].
      destruct (proj2 Hf row (nth_error_In _ _ En)) as [i [b [Er _]]].
      destruct (rows_structure_ref_in t D CMP rows st a row _ Hs En Er) as [_ Hr].
      pose proof Hr as Hr'. rewrite Hr in H.
      unfold materialise in H. cbn [opt_is_none] in H. rewrite orb_false_r in H.
      replace (length rows - a) with (S (length rows - S a)) by lia. cbn [seq map].
      destruct (negb (is_blank p)).
      * rewrite <- Hr' in H.
        destruct (mk_subcomponent t TOLERANT leaf (Some (name_idx D (S a))) None p (ref_in (Some st) (name_idx D (S a)))) as [y|] eqn:Ey;
          cbn [bind] in H; [|discriminate].
        destruct (parse_subcomponents_aux t TOLERANT leaf (Some D) (Some st) (combine (seq (S (S a)) (length ps)) ps)) as [ys|] eqn:Eys;
          cbn [bind] in H; [|discriminate].
        injection H as <-. destruct (IH (S a) ys Eys) as [gs [u [-> [Hg Hu]]]].
        exists ([y] :: gs), u. split; [reflexivity|]. split; [|exact Hu]. cbn [groups_ok]. split; [|exact Hg].
        intros x [<-|[]]. apply (mk_subcomponent_named_name D rows st (S a) p y HD Hf Hs); [lia|exact Ey].
      * destruct (IH (S a) kids H) as [gs [u [-> [Hg Hu]]]].
        exists ([] :: gs), u. split; [reflexivity|]. split; [|exact Hu]. cbn [groups_ok]. split; [intros x []|exact Hg].
Qed.

(* ---------- components, by calling context ---------- *)

Lemma comp_shape_untyped c : c_dt c = None -> comp_shape t c.
Proof. intros H. left. now rewrite H. Qed.
Lemma comp_shape_base c b : base (Some b) = true -> c_dt c = None \/ c_dt c = Some b -> comp_shape t c.
Proof. intros Hb [H|H]; left; rewrite H; [reflexivity|now rewrite Hb]. Qed.

(* (i) an unnamed component of base datatype b *)
Lemma parse_component_base_shape b text c : base (Some b) = true -> is_varies (Some b) = false ->
  parse_component t TOLERANT e leaf text None (Some b) None = Ok c ->
  c_name c = Some b /\ comp_shape t c.
Proof.
  intros Hb Hv. unfold parse_component. rewrite (mk_component_unnamed t b Hb Hv). cbn [bind c_dt c_st].
  destruct (parse_subcomponents t TOLERANT e leaf text (Some b) None) as [kids|]; cbn [bind]; [|discriminate].
  intros H. apply add_subs_full in H. subst c.
  destruct (negb (is_strict TOLERANT) && base (Some b) && Nat.ltb 1 (length kids)); cbn [c_name c_dt];
    (split; [reflexivity|]); apply (comp_shape_base _ b Hb); cbn [c_dt]; auto.
Qed.

(* (ii) a VARIES_i component *)
Lemma parse_component_varies_shape i text c : i <> 0 ->
  parse_component t TOLERANT e leaf text (Some (name_idx VARIES i)) None None = Ok c ->
  c_name c = Some (name_idx VARIES i) /\ c_dt c = None.
Proof.
  intros Hi. unfold parse_component. rewrite (mk_component_varies t) by exact Hi. cbn [bind c_dt c_st].
  destruct (parse_subcomponents t TOLERANT e leaf text None None) as [kids|]; cbn [bind]; [|discriminate].
  rewrite base_none. cbn [andb]. intros H. apply add_subs_full in H. subst c. split; reflexivity.
Qed.

(* (iii) a component named P_j whose table reference is a base-typed leaf *)
Lemma parse_component_leaf_shape P j i b text c : dt_name_ok t P -> i_dt i = Some b -> base (Some b) = true ->
  parse_component t TOLERANT e leaf text (Some (name_idx P j)) None (Some (SLeaf i)) = Ok c ->
  c_name c = Some (name_idx P j) /\ comp_shape t c.
Proof.
  intros HP Hi Hb. unfold parse_component.
  rewrite (mk_component_named t P j (SLeaf i) _ i b HP (leaf_structure t i) eq_refl Hi). cbn [bind c_dt c_st].
  destruct (parse_subcomponents t TOLERANT e leaf text (Some b) _) as [kids|]; cbn [bind]; [|discriminate].
  intros H. apply add_subs_full in H. subst c.
  destruct (negb (is_strict TOLERANT) && base (Some b) && Nat.ltb 1 (length kids)); cbn [c_name c_dt];
    (split; [reflexivity|]); apply (comp_shape_base _ b Hb); cbn [c_dt]; auto.
Qed.

(* (iv) a component named P_j whose table reference is the flat struct D *)
Lemma parse_component_complex_shape P j inf D rows text c :
  dt_name_ok t P -> dt_name_ok t D -> i_dt inf = Some D -> slookup D (t_structs t) = Some rows -> flat_rows t D rows ->
  parse_component t TOLERANT e leaf text (Some (name_idx P j)) None (Some (SSeqDt inf)) = Ok c ->
  c_name c = Some (name_idx P j) /\ comp_shape t c.
Proof.
  intros HP HD Hi Hl Hf.
  destruct (parse_structure_dt t inf D rows Hi Hl (proj1 Hf) (flat_rows_resolved t D rows Hf)) as [st [Hp [Hinfo Hs]]].
  unfold parse_component.
  rewrite (mk_component_named t P j (SSeqDt inf) st inf D HP Hp Hinfo Hi). cbn [bind c_dt c_st].
  unfold parse_subcomponents.
  destruct (parse_subcomponents_aux t TOLERANT leaf (Some D) (Some st) (indexed (bsplit (ssep e) text))) as [kids|] eqn:Ek;
    cbn [bind]; [|discriminate].
  rewrite (dn_not_base t D HD). rewrite andb_false_r. cbn [andb].
  intros H. apply add_subs_full in H. subst c. cbn [c_name c_dt c_st c_children app].
  split; [reflexivity|]. right. cbn [c_st c_children]. rewrite (ordered_of_rows t D CMP rows st Hs).
  split; [apply name_idx_NoDup|]. split; [apply names_no_ST|].
  destruct (parse_subs_shape D rows st HD Hf Hs (bsplit (ssep e) text) 0 kids Ek) as [gs [u [-> [Hg Hu]]]].
  exists gs, u. rewrite Nat.sub_0_r in Hg. auto.
Qed.

(* (v) a surplus component: P_j is not a component of the tables, the element becomes unnamed *)
Lemma parse_component_surplus_shape P j text c : dt_name_ok t P ->
  slookup (name_idx P j) (t_components t) = None ->
  parse_component t TOLERANT e leaf text (Some (name_idx P j)) None None = Ok c ->
  c_name c = None /\ c_dt c = None.
Proof.
  intros HP Hno. unfold parse_component.
  assert (E1 : mk_component t TOLERANT (Some (name_idx P j)) None None = Err (HL7 EInvalidName)).
  { unfold mk_component, canbevaries. rewrite is_varies_none. cbn [andb negb is_strict bind].
    rewrite (dn_var_name t P j HP). unfold structure_for, load_reference. cbn [table_of].
    rewrite name_idx_upper, (dn_upper t P HP), Hno. reflexivity. }
  rewrite E1. cbn [is_strict].
  assert (E2 : mk_component t TOLERANT None None None = Ok (mk_comp None None None [])) by reflexivity.
  rewrite E2. cbn [bind c_dt c_st].
  destruct (parse_subcomponents t TOLERANT e leaf text None None) as [kids|]; cbn [bind]; [|discriminate].
  rewrite base_none. cbn [andb]. intros H. apply add_subs_full in H. subst c. split; reflexivity.
Qed.

(* ---------- fields, by calling context ---------- *)

(* (a) a field of base datatype b *)
Lemma parse_components_aux_base_shape b st l : base (Some b) = true -> is_varies (Some b) = false ->
  forall kids, parse_components_aux t TOLERANT e leaf (Some b) st l = Ok kids -> Forall (comp_shape t) kids.
Proof.
  intros Hb Hv. induction l as [|[i s0] l IH]; intros kids H.
  - cbn in H. injection H as <-. constructor.
  - cbn [parse_components_aux] in H. rewrite Hb in H. cbn [opt_is_none] in H. rewrite orb_true_r in H. cbn [orb] in H.
    destruct (parse_component t TOLERANT e leaf s0 None (Some b) None) as [x|] eqn:Ex; cbn [bind] in H; [|discriminate].
    destruct (parse_components_aux t TOLERANT e leaf (Some b) st l) as [xs|]; cbn [bind] in H; [|discriminate].
    injection H as <-. constructor; [exact (proj2 (parse_component_base_shape b s0 x Hb Hv Ex))|now apply IH].
Qed.

Lemma parse_field_base_shape text name ref fv n b sto f :
  field_ctor t name ref fv = Ok (mk_field_rec n (Some b) sto []) -> is_msh12 name = false -> not_msh12o n ->
  base (Some b) = true -> is_varies (Some b) = false ->
  parse_field t TOLERANT e leaf text name ref fv = Ok f -> f_name f = n /\ field_shape t f.
Proof.
  intros Hc Hm Hn Hb Hv. rewrite parse_field_unfold, Hc, Hm. cbn [bind f_dt f_st].
  destruct (parse_components t TOLERANT e leaf text (Some b) sto) as [kids|] eqn:Ek; cbn [bind]; [|discriminate].
  unfold parse_components in Ek. pose proof (parse_components_aux_base_shape b sto _ Hb Hv kids Ek) as Hk.
  intros H. apply add_comps_full in H. subst f.
  assert (K : forall dt, dt = None \/ dt = Some b -> is_varies dt = false /\ base dt || opt_is_none dt = true).
  { intros dt [->| ->]; [split; reflexivity|]. split; [exact Hv|now rewrite Hb]. }
  destruct (negb (is_strict TOLERANT) && base (Some b) && Nat.ltb 1 (length kids));
    cbn [f_name f_dt f_st f_children app]; (split; [reflexivity|]); (split; [exact Hn|]); (split; [exact Hk|]);
    right; left; apply K; auto.
Qed.

(* (b) a field whose datatype is varies or absent: all pieces become VARIES_i components *)
Lemma parse_components_aux_varies_shape fdt st l :
  base fdt = false -> opt_is_none fdt || is_varies fdt = true -> has_map st = false -> pos_idx l ->
  forall kids, parse_components_aux t TOLERANT e leaf fdt st l = Ok kids ->
  map c_name kids = map (fun p => Some (name_idx VARIES (fst p))) l /\ Forall (fun c => c_dt c = None) kids.
Proof.
  intros Hb Hv Hm. induction l as [|[i s0] l IH]; intros Hp kids H.
  - cbn in H. injection H as <-. split; constructor.
  - apply Forall_cons_iff in Hp. destruct Hp as [Hi Hp]. cbn [fst] in Hi. specialize (IH Hp).
    cbn [parse_components_aux] in H. rewrite Hb, Hv, Hm in H.
    change (name_idx (unbs "VARIES") i) with (name_idx VARIES i) in H.
    rewrite (name_idx_varies_starts i), !orb_true_r in H.
    destruct (parse_component t TOLERANT e leaf s0 (Some (name_idx VARIES i)) None None) as [x|] eqn:Ex; cbn [bind] in H; [|discriminate].
    destruct (parse_components_aux t TOLERANT e leaf fdt st l) as [xs|]; cbn [bind] in H; [|discriminate].
    injection H as <-. destruct (parse_component_varies_shape i s0 x Hi Ex) as [Hn Hd].
    destruct (IH xs eq_refl) as [I1 I2]. split; [cbn [map fst]; now rewrite Hn, I1|now constructor].
Qed.

Lemma indexed_fst_names {A} (l : list A) :
  map (fun p : nat * A => Some (name_idx VARIES (fst p))) (indexed l) =
  map (fun i => Some (name_idx VARIES i)) (seq 1 (length l)).
Proof. rewrite <- (map_map fst (fun i => Some (name_idx VARIES i))). now rewrite indexed_fst. Qed.

Lemma parse_field_varies_shape text name ref fv n fdt sto f :
  field_ctor t name ref fv = Ok (mk_field_rec n fdt sto []) -> is_msh12 name = false -> not_msh12o n ->
  fdt = None \/ fdt = Some (unbs "varies") -> has_map sto = false ->
  parse_field t TOLERANT e leaf text name ref fv = Ok f -> f_name f = n /\ field_shape t f.
Proof.
  intros Hc Hm Hn Hd Hh. rewrite parse_field_unfold, Hc, Hm. cbn [bind f_dt f_st].
  assert (Hb : base fdt = false) by (destruct Hd as [->| ->]; [reflexivity|exact Hvar]).
  assert (Hv : opt_is_none fdt || is_varies fdt = true) by (destruct Hd as [->| ->]; reflexivity).
  destruct (parse_components t TOLERANT e leaf text fdt sto) as [kids|] eqn:Ek; cbn [bind]; [|discriminate].
  unfold parse_components in Ek. destruct (parse_components_aux_varies_shape fdt sto _ Hb Hv Hh (indexed_pos _) kids Ek) as [Hnames Hdts].
  rewrite Hb. rewrite andb_false_r. cbn [andb].
  intros H. apply add_comps_full in H. subst f. cbn [f_name f_dt f_st f_children app].
  split; [reflexivity|]. split; [exact Hn|]. split.
  { eapply Forall_impl; [|exact Hdts]. intros c. apply comp_shape_untyped. }
  destruct Hd as [->| ->].
  - right. left. split; reflexivity.
  - left. split; [reflexivity|]. unfold varies_shape. cbn [f_children app]. split.
    + rewrite Hnames, indexed_fst_names. f_equal. f_equal.
      apply (f_equal (@length _)) in Hnames. rewrite !map_length in Hnames. rewrite Hnames.
      unfold indexed. rewrite combine_length, seq_length. now rewrite Nat.min_id.
    + assert (Hall : forall c, In c kids -> exists i, c_name c = Some (name_idx VARIES i)).
      { intros c Hin. apply (in_map c_name) in Hin. rewrite Hnames in Hin. apply in_map_iff in Hin.
        destruct Hin as [[i s0] [E _]]. exists i. now rewrite <- E. }
      rewrite Forall_forall in *. intros c Hin. destruct (Hall c Hin) as [i Hi].
      unfold comp_unknown. now rewrite Hi, (Hdts c Hin).
Qed.

(* (c) a field whose datatype is the struct D: named components, surplus ones unnamed *)
Section ComplexField.
Variable D : str.
Variable rows : list srow.
Variable st : structure.
Hypothesis Hg : good_struct t D rows.
Hypothesis Hs : rows_structure t D CMP rows st.
(* no component of the tables is called D_j beyond the components D defines *)
Hypothesis Hno : forall j, length rows < j -> slookup (name_idx D j) (t_components t) = None.

Lemma Dok : dt_name_ok t D. Proof. exact (proj1 Hg). Qed.

Lemma comps_step_unfold j s0 rest :
  parse_components_aux t TOLERANT e leaf (Some D) (Some st) ((j, s0) :: rest) =
  (if negb (is_blank s0) then
     bind (parse_component t TOLERANT e leaf s0 (Some (name_idx D j)) None (ref_in (Some st) (name_idx D j)))
          (fun x => bind (parse_components_aux t TOLERANT e leaf (Some D) (Some st) rest) (fun xs => Ok (x :: xs)))
   else parse_components_aux t TOLERANT e leaf (Some D) (Some st) rest).
Proof.
  cbn [parse_components_aux]. rewrite (dn_not_base t D Dok), (dn_is_varies t D Dok). cbn [opt_is_none orb str_of_opt].
  assert (Hm : has_map (Some st) = true) by (unfold has_map; now rewrite (rs_ordered _ _ _ _ _ Hs)).
  rewrite Hm, (name_idx_not_varies_us D j (dn_not_varies t D Dok)), !orb_false_r. reflexivity.
Qed.

Lemma parse_comps_beyond : forall cs a kids, length rows <= a ->
  parse_components_aux t TOLERANT e leaf (Some D) (Some st) (combine (seq (S a) (length cs)) cs) = Ok kids ->
  forall x, In x kids -> c_name x = None /\ comp_shape t x.
Proof.
  induction cs as [|s0 cs IH]; intros a kids Ha H x Hx.
  - cbn in H. injection H as <-. destruct Hx.
  - cbn [length seq combine] in H. rewrite comps_step_unfold in H.
    unfold ref_in in H. rewrite (rs_ordered _ _ _ _ _ Hs) in H. rewrite (rs_beyond _ _ _ _ _ Hs (S a)) in H by lia.
    cbn [option_map] in H.
    destruct (negb (is_blank s0)).
    + destruct (parse_component t TOLERANT e leaf s0 (Some (name_idx D (S a))) None None) as [y|] eqn:Ey; cbn [bind] in H; [|discriminate].
      destruct (parse_components_aux t TOLERANT e leaf (Some D) (Some st) (combine (seq (S (S a)) (length cs)) cs)) as [ys|] eqn:Eys;
        cbn [bind] in H; [|discriminate].
      injection H as <-. destruct Hx as [<-|Hx]; [|apply (IH (S a) ys); [lia|exact Eys|exact Hx]].
      destruct (parse_component_surplus_shape D (S a) s0 y Dok (Hno (S a) ltac:(lia)) Ey) as [Hn Hd].
      split; [exact Hn|now apply comp_shape_untyped].
    + apply (IH (S a) kids); [lia|exact H|exact Hx].
Qed.

Lemma parse_comps_shape : forall cs a kids,
  parse_components_aux t TOLERANT e leaf (Some D) (Some st) (combine (seq (S a) (length cs)) cs) = Ok kids ->
  Forall (comp_shape t) kids /\
  exists gs u, kids = concat gs ++ u /\
               groups_ok c_name (map (name_idx D) (seq (S a) (length rows - a))) gs /\
               forall x, In x u -> name_none_or_st (c_name x) = true.
Proof.
  induction cs as [|s0 cs IH]; intros a kids H.
  - cbn in H. injection H as <-. split; [constructor|]. exists [], []. repeat split. intros x [].
  - destruct (le_lt_dec (length rows) a) as [Ha|Ha].
    + pose proof (parse_comps_beyond (s0 :: cs) a kids Ha H) as B. split.
      * rewrite Forall_forall. intros x Hx. exact (proj2 (B x Hx)).
      * exists [], kids. split; [reflexivity|]. split; [exact I|]. intros x Hx. now rewrite (proj1 (B x Hx)).
    + cbn [length seq combine] in H. rewrite comps_step_unfold in H.
      destruct (nth_error rows a) as [row|] eqn:En; [|apply nth_error_None in En; lia].
      replace (length rows - a) with (S (length rows - S a)) by lia. cbn [seq map].
      destruct (negb (is_blank s0)).
      * destruct (parse_component t TOLERANT e leaf s0 (Some (name_idx D (S a))) None (ref_in (Some st) (name_idx D (S a)))) as [y|] eqn:Ey;
          cbn [bind] in H; [|discriminate].
        destruct (parse_components_aux t TOLERANT e leaf (Some D) (Some st) (combine (seq (S (S a)) (length cs)) cs)) as [ys|] eqn:Eys;
          cbn [bind] in H; [|discriminate].
        injection H as <-. destruct (IH (S a) ys Eys) as [Hall [gs [u [-> [Hgs Hu]]]]].
        assert (Y : c_name y = Some (name_idx D (S a)) /\ comp_shape t y).
        { destruct (proj2 (proj2 Hg) row (nth_error_In _ _ En)) as [[i [b [Er [Ei Hb]]]]|[i [D2 [rows2 [Er [Ei [Hl [HD2 Hf]]]]]]]];
            destruct (rows_structure_ref_in t D CMP rows st a row _ Hs En Er) as [_ Href]; rewrite Href in Ey.
          - exact (parse_component_leaf_shape D (S a) i b s0 y Dok Ei Hb Ey).
          - exact (parse_component_complex_shape D (S a) i D2 rows2 s0 y Dok HD2 Ei Hl Hf Ey). }
        split; [constructor; [exact (proj2 Y)|exact Hall]|].
        exists ([y] :: gs), u. split; [reflexivity|]. split; [|exact Hu]. cbn [groups_ok]. split; [|exact Hgs].
        intros x [<-|[]]. exact (proj1 Y).
      * destruct (IH (S a) kids H) as [Hall [gs [u [-> [Hgs Hu]]]]]. split; [exact Hall|].
        exists ([] :: gs), u. split; [reflexivity|]. split; [|exact Hu]. cbn [groups_ok]. split; [intros x []|exact Hgs].
Qed.

Lemma parse_field_complex_shape text name ref fv n f :
  field_ctor t name ref fv = Ok (mk_field_rec n (Some D) (Some st) []) -> is_msh12 name = false -> not_msh12o n ->
  parse_field t TOLERANT e leaf text name ref fv = Ok f -> f_name f = n /\ field_shape t f.
Proof.
  intros Hc Hm Hn. rewrite parse_field_unfold, Hc, Hm. cbn [bind f_dt f_st].
  unfold parse_components.
  destruct (parse_components_aux t TOLERANT e leaf (Some D) (Some st) (indexed (bsplit (csep e) text))) as [kids|] eqn:Ek;
    cbn [bind]; [|discriminate].
  rewrite (dn_not_base t D Dok). rewrite andb_false_r. cbn [andb].
  intros H. apply add_comps_full in H. subst f. cbn [f_name f_dt f_st f_children app].
  destruct (parse_comps_shape (bsplit (csep e) text) 0 kids Ek) as [Hall [gs [u [-> [Hgs Hu]]]]].
  split; [reflexivity|]. split; [exact Hn|]. split; [exact Hall|].
  right. right. cbn [f_dt f_st f_children]. split; [apply (dn_is_varies t D Dok)|].
  rewrite (ordered_of_rows t D CMP rows st Hs). split; [apply name_idx_NoDup|]. split; [apply names_no_ST|].
  exists gs, u. rewrite Nat.sub_0_r in Hgs. auto.
Qed.

End ComplexField.

(* ---------- the field loop of a segment that is not MSH ---------- *)

Lemma parse_reps_forall (P : field -> Prop) name ref fv :
  (forall r x, parse_field t TOLERANT e leaf r name ref fv = Ok x -> P x) ->
  forall reps g, parse_reps t TOLERANT e leaf reps name ref fv = Ok g -> forall x, In x g -> P x.
Proof.
  intros HP. induction reps as [|r reps IH]; intros g H x Hx; cbn [parse_reps] in H.
  - injection H as <-. destruct Hx.
  - destruct (parse_field t TOLERANT e leaf r name ref fv) as [y|] eqn:Ey; cbn [bind] in H; [|discriminate].
    destruct (parse_reps t TOLERANT e leaf reps name ref fv) as [ys|] eqn:Eys; cbn [bind] in H; [|discriminate].
    injection H as <-. destruct Hx as [<-|Hx]; [now apply (HP r)|now apply (IH ys)].
Qed.

Section FieldLoop.
Variable sn : str.
Variable st : structure.
Variable inf : bool.
Variable n : nat.
Hypothesis Hnm : no_msh sn.
Hypothesis Hm : has_map (Some st) = true.
(* positions the segment defines *)
Hypothesis Hin : forall i, 1 <= i <= n -> forall r x,
  parse_field t TOLERANT e leaf r (Some (name_idx sn i)) (ref_in (Some st) (name_idx sn i)) inf = Ok x ->
  f_name x = Some (name_idx sn i) /\ field_shape t x.
(* positions beyond: named <SEG>_i when the segment is open-ended, unnamed otherwise *)
Hypothesis Hout : forall i, n < i -> ref_in (Some st) (name_idx sn i) = None /\ forall r x,
  parse_field t TOLERANT e leaf r (Some (name_idx sn i)) None inf = Ok x ->
  f_name x = (if inf then Some (name_idx sn i) else None) /\ field_shape t x.

Lemma fields_step_unfold i f rest :
  parse_fields_aux t TOLERANT e leaf sn (Some st) inf ((i, f) :: rest) =
  bind (if negb (is_blank f)
        then parse_reps t TOLERANT e leaf (bsplit (rsep e) f) (Some (name_idx sn i)) (ref_in (Some st) (name_idx sn i)) inf
        else Ok [])
       (fun here => bind (parse_fields_aux t TOLERANT e leaf sn (Some st) inf rest) (fun xs => Ok (here ++ xs))).
Proof. cbn [parse_fields_aux]. destruct (Hnm i) as [M2 M1]. now rewrite Hm, M2, M1. Qed.

Lemma parse_fields_beyond_closed : inf = false -> forall fs a kids, n <= a ->
  parse_fields_aux t TOLERANT e leaf sn (Some st) inf (combine (seq (S a) (length fs)) fs) = Ok kids ->
  forall x, In x kids -> f_name x = None /\ field_shape t x.
Proof.
  intros Hi. induction fs as [|f fs IH]; intros a kids Ha H x Hx.
  - cbn in H. injection H as <-. destruct Hx.
  - cbn [length seq combine] in H. rewrite fields_step_unfold in H.
    destruct (Hout (S a) ltac:(lia)) as [Hr Hp]. rewrite Hr in H.
    match type of H with bind ?r _ = _ => destruct r as [here|] eqn:Eh; cbn [bind] in H; [|discriminate] end.
    destruct (parse_fields_aux t TOLERANT e leaf sn (Some st) inf (combine (seq (S (S a)) (length fs)) fs)) as [xs|] eqn:Exs;
      cbn [bind] in H; [|discriminate].
    injection H as <-. apply in_app_or in Hx. destruct Hx as [Hx|Hx]; [|apply (IH (S a) xs); [lia|exact Exs|exact Hx]].
    destruct (negb (is_blank f)); [|injection Eh as <-; destruct Hx].
    pose proof (parse_reps_forall (fun x => f_name x = None /\ field_shape t x) _ _ _
                  (fun r y Hy => match Hp r y Hy with conj A B => conj (eq_trans A (f_equal (fun b : bool => if b then Some (name_idx sn (S a)) else None) Hi)) B end)
                  _ _ Eh x Hx) as R.
    exact R.
Qed.

Lemma parse_fields_shape : forall fs a kids,
  parse_fields_aux t TOLERANT e leaf sn (Some st) inf (combine (seq (S a) (length fs)) fs) = Ok kids ->
  Forall (field_shape t) kids /\
  exists gs u, kids = concat gs ++ u /\ groups_named sn (S a) gs /\ (forall x, In x u -> f_name x = None) /\
               (inf = false -> length gs <= n - a).
Proof.
  induction fs as [|f fs IH]; intros a kids H.
  - cbn in H. injection H as <-. split; [constructor|]. exists [], []. repeat split; try (intros x []). cbn. lia.
  - destruct (le_lt_dec n a) as [Ha|Ha]; [destruct (Bool.bool_dec inf true) as [Ei|Ei]; [|apply Bool.not_true_is_false in Ei]|].
    + (* beyond, open-ended: still named *)
      cbn [length seq combine] in H. rewrite fields_step_unfold in H.
      destruct (Hout (S a) ltac:(lia)) as [Hr Hp]. rewrite Hr in H.
      match type of H with bind ?r _ = _ => destruct r as [here|] eqn:Eh; cbn [bind] in H; [|discriminate] end.
      destruct (parse_fields_aux t TOLERANT e leaf sn (Some st) inf (combine (seq (S (S a)) (length fs)) fs)) as [xs|] eqn:Exs;
        cbn [bind] in H; [|discriminate].
      injection H as <-. destruct (IH (S a) xs Exs) as [Hall [gs [u [-> [Hgs [Hu _]]]]]].
      assert (Hhere : forall x, In x here -> f_name x = Some (name_idx sn (S a)) /\ field_shape t x).
      { destruct (negb (is_blank f)); [|injection Eh as <-; intros x []].
        apply (parse_reps_forall (fun x => f_name x = Some (name_idx sn (S a)) /\ field_shape t x) _ _ _) with (2 := Eh).
        intros r y Hy. destruct (Hp r y Hy) as [A B]. rewrite Ei in A. now split. }
      split.
      * apply Forall_app. split; [|exact Hall]. rewrite Forall_forall. intros x Hx. exact (proj2 (Hhere x Hx)).
      * exists (here :: gs), u. rewrite app_assoc. split; [reflexivity|]. split; [|split; [exact Hu|congruence]].
        cbn [groups_named]. split; [|exact Hgs]. intros x Hx. exact (proj1 (Hhere x Hx)).
    + (* beyond, closed: everything that follows is unnamed *)
      pose proof (parse_fields_beyond_closed Ei (f :: fs) a kids Ha H) as B. split.
      * rewrite Forall_forall. intros x Hx. exact (proj2 (B x Hx)).
      * exists [], kids. split; [reflexivity|]. split; [exact I|]. split; [intros x Hx; exact (proj1 (B x Hx))|]. intros _. cbn. lia.
    + (* a defined position *)
      cbn [length seq combine] in H. rewrite fields_step_unfold in H.
      match type of H with bind ?r _ = _ => destruct r as [here|] eqn:Eh; cbn [bind] in H; [|discriminate] end.
      destruct (parse_fields_aux t TOLERANT e leaf sn (Some st) inf (combine (seq (S (S a)) (length fs)) fs)) as [xs|] eqn:Exs;
        cbn [bind] in H; [|discriminate].
      injection H as <-. destruct (IH (S a) xs Exs) as [Hall [gs [u [-> [Hgs [Hu Hlen]]]]]].
      assert (Hhere : forall x, In x here -> f_name x = Some (name_idx sn (S a)) /\ field_shape t x).
      { destruct (negb (is_blank f)); [|injection Eh as <-; intros x []].
        exact (parse_reps_forall (fun x => f_name x = Some (name_idx sn (S a)) /\ field_shape t x) _ _ _
                 (Hin (S a) ltac:(lia)) _ _ Eh). }
      split.
      * apply Forall_app. split; [|exact Hall]. rewrite Forall_forall. intros x Hx. exact (proj2 (Hhere x Hx)).
      * exists (here :: gs), u. rewrite app_assoc. split; [reflexivity|]. split; [|split; [exact Hu|]].
        -- cbn [groups_named]. split; [|exact Hgs]. intros x Hx. exact (proj1 (Hhere x Hx)).
        -- intros Hi. specialize (Hlen Hi). cbn [length]. lia.
Qed.

(* ---------- the whole segment ---------- *)

Lemma concat_remove_trailing {A} (gs : list (list A)) : concat (remove_trailing nilb gs) = concat gs.
Proof.
  destruct (remove_trailing_prefix nilb gs) as [m [E Hm']]. rewrite E at 2. rewrite concat_app.
  assert (concat m = []) as ->; [|now rewrite app_nil_r].
  clear E. induction m as [|g m IH]; [reflexivity|]. cbn [forallb] in Hm'. apply andb_prop in Hm'. destruct Hm' as [Hg Hm'].
  destruct g; [|discriminate]. cbn [concat app]. now apply IH.
Qed.

Lemma groups_named_prefix s0 : forall l1 l2 a, groups_named s0 a (l1 ++ l2) -> groups_named s0 a l1.
Proof.
  induction l1 as [|g l1 IH]; intros l2 a H; [exact I|]. cbn [app groups_named] in *. destruct H as [Hg H].
  split; [exact Hg|now apply (IH l2)].
Qed.

Lemma groups_named_last s0 : forall l1 g a, groups_named s0 a (l1 ++ [g]) ->
  forall x, In x g -> f_name x = Some (name_idx s0 (a + length l1)).
Proof.
  induction l1 as [|g0 l1 IH]; intros g a H x Hx.
  - cbn [app groups_named length] in *. rewrite Nat.add_0_r. now apply (proj1 H).
  - cbn [app groups_named length] in *. destruct H as [_ H]. replace (a + S (length l1)) with (S a + length l1) by lia.
    now apply (IH g (S a)).
Qed.

Hypothesis H3 : length sn = 3.
Hypothesis Hup : upper sn = sn.
Hypothesis Hmsh : streqb sn (unbs "MSH") = false.
Hypothesis Ho : st_ordered st = Some (map (name_idx sn) (seq 1 n)).

Lemma parse_segment_in_shape text s : seg_name_of text = sn ->
  parse_segment_in t TOLERANT e leaf (mk_seg sn st inf (N.of_nat n) (N.of_nat n) []) text = Ok s -> seg_shape t s.
Proof.
  intros Hname. unfold parse_segment_in. rewrite Hname. cbn [s_st s_inf]. unfold parse_fields, indexed.
  match goal with |- bind ?r _ = _ -> _ => destruct r as [kids|] eqn:Ek; cbn [bind]; [|discriminate] end.
  intros H. destruct (parse_fields_shape _ 0 kids Ek) as [Hall [gs [u [-> [Hgs [Hu Hlen]]]]]].
  apply add_fields_full in H. cbn [s_name s_st s_inf s_last_allowed s_last s_children app] in H.
  destruct H as [Hn [Hst' [Hinf [Hla [Hch [Hlast Hidx]]]]]].
  exists n, (remove_trailing nilb gs), u.
  rewrite Hn, Hst', Hinf, Hla, Hch, concat_remove_trailing.
  do 4 (split; [assumption|]). split; [reflexivity|]. split; [exact Hlast|]. split; [reflexivity|].
  destruct (remove_trailing_prefix nilb gs) as [m [E Hm']].
  split; [rewrite E in Hgs; now apply (groups_named_prefix sn _ m)|].
  split; [|split; [exact Hu|exact Hall]].
  destruct inf eqn:Ei.
  - pose proof (remove_trailing_last_kept nilb gs) as Hk.
    destruct (remove_trailing nilb gs) as [|g0 l0 _] eqn:Er using rev_ind; [cbn; lia|].
    rewrite rev_app_distr in Hk. cbn [rev app] in Hk. destruct g0 as [|x0 g0]; [discriminate|].
    rewrite E in Hgs. apply (groups_named_prefix sn _ m) in Hgs.
    pose proof (groups_named_last sn l0 (x0 :: g0) 1 Hgs x0 (or_introl eq_refl)) as Hx0.
    assert (Hin0 : In x0 (concat gs ++ u)).
    { apply in_or_app. left. rewrite E, concat_app. apply in_or_app. left. rewrite concat_app. apply in_or_app. right.
      cbn [concat]. apply in_or_app. left. now left. }
    specialize (Hidx eq_refl H3 x0 (1 + length l0) Hin0 Hx0).
    rewrite app_length. cbn [length]. lia.
  - assert (L : length (remove_trailing nilb gs) <= length gs).
    { rewrite E at 2. rewrite app_length. lia. }
    specialize (Hlen eq_refl). lia.
Qed.

End FieldLoop.

(* ---------- table segments (not MSH) ---------- *)

Lemma field_ctor_beyond sn i fv : length sn = 3 -> upper sn = sn -> valid_z_segment_name sn = false ->
  slookup (name_idx sn i) (t_fields t) = None ->
  field_ctor t (Some (name_idx sn i)) None fv =
  Ok (if fv then mk_field_rec (Some (name_idx sn i)) (Some (unbs "varies")) (Some st_var) []
      else mk_field_rec None None None []).
Proof.
  intros H3 Hup Hz Hno.
  assert (Hun : upper (name_idx sn i) = name_idx sn i) by now rewrite name_idx_upper, Hup.
  unfold field_ctor. unfold mk_field at 1. cbn [is_strict andb]. rewrite is_varies_none. cbn [andb].
  unfold structure_for at 1, load_reference. cbn [table_of]. rewrite Hun, Hno.
  rewrite (not_z_field_name sn i H3 Hup Hz). cbn [bind]. destruct fv; [|reflexivity].
  unfold mk_field. cbn [is_strict andb]. rewrite is_varies_none. cbn [andb]. rewrite Hun. reflexivity.
Qed.

Section TableShape.
Variable sn : str.
Variable srows : list srow.
Hypothesis H3 : length sn = 3.
Hypothesis Hup : upper sn = sn.
Hypothesis Hmsh : streqb sn (unbs "MSH") = false.
Hypothesis Hz : valid_z_segment_name sn = false.
Hypothesis Hl : slookup sn (t_segments t) = Some (SSeqIn false srows None).
Hypothesis Hc : rows_contiguous sn FIE 1 srows = true.
Hypothesis Hrows : forall row, In row srows -> field_row_ok t row.
Hypothesis Hnof : forall i, length srows < i -> slookup (name_idx sn i) (t_fields t) = None.
Hypothesis HnoC : forall row inf D rows, In row srows -> row_ref t row = Some (SSeqDt inf) -> i_dt inf = Some D ->
  slookup D (t_structs t) = Some rows -> forall j, length rows < j -> slookup (name_idx D j) (t_components t) = None.

Theorem parse_table_segment_shape text s : seg_name_of text = sn ->
  parse_segment t TOLERANT e leaf text None = Ok s -> seg_shape t s.
Proof.
  intros Hname.
  assert (Hres : rows_resolved t srows).
  { intros y Hy Ey. destruct (Hrows y Hy) as [fr [E' _]]. congruence. }
  assert (Hinfo : forall row, In row srows -> exists r, row_ref t row = Some r /\ ref_info r <> None).
  { intros row Hy. destruct (Hrows row Hy) as [fr [E' K]]. exists fr. split; [exact E'|].
    destruct fr; try contradiction; discriminate. }
  destruct (mk_segment_table t sn srows H3 Hup Hz Hl Hc Hres Hinfo) as [st [inf [Hmk [Hs _]]]].
  unfold parse_segment. rewrite Hname, Hmk. cbn [bind].
  assert (Hm : has_map (Some st) = true) by (unfold has_map; now rewrite (rs_ordered _ _ _ _ _ Hs)).
  apply (parse_segment_in_shape sn st inf (length srows) (sn_no_msh sn H3 Hup Hmsh) Hm); auto.
  - (* defined positions *)
    intros i Hi r x Hp. destruct i as [|i0]; [lia|].
    destruct (nth_error srows i0) as [row|] eqn:En; [|apply nth_error_None in En; lia].
    destruct (Hrows row (nth_error_In _ _ En)) as [fr [Hr K]].
    destruct (rows_structure_ref_in t sn FIE srows st i0 row fr Hs En Hr) as [_ Href]. rewrite Href in Hp.
    assert (Hun : upper (name_idx sn (S i0)) = name_idx sn (S i0)) by now rewrite name_idx_upper, Hup.
    pose proof (sn_is_msh12 sn H3 Hup Hmsh (S i0)) as M12. pose proof (sn_not_msh12 sn H3 Hup Hmsh (S i0)) as N12.
    destruct fr as [inf0|inf0| |]; try contradiction.
    + pose proof (field_ctor_ref t (name_idx sn (S i0)) (SLeaf inf0) _ inf Hun (leaf_structure t inf0)) as Hct.
      cbn [st_dt st_info] in Hct.
      destruct (i_dt inf0) as [b|] eqn:Ei.
      * destruct K as [Hb| ->].
        -- apply (parse_field_base_shape r _ _ inf (Some (name_idx sn (S i0))) b _ x Hct M12 N12 Hb); auto.
           unfold is_varies, opt_eqb. destruct (streqb_spec b (unbs "varies")) as [->|]; [|reflexivity].
           assert (X : base (Some (unbs "varies")) = true) by exact Hb. rewrite Hvar in X. discriminate.
        -- apply (parse_field_varies_shape r _ _ inf (Some (name_idx sn (S i0))) _ _ x Hct M12 N12); auto.
      * apply (parse_field_varies_shape r _ _ inf (Some (name_idx sn (S i0))) _ _ x Hct M12 N12); auto.
    + destruct K as [D [rows [Hdt [HlD Hg]]]].
      destruct (parse_structure_dt t inf0 D rows Hdt HlD (proj1 (proj2 Hg)) (good_struct_resolved t D rows Hg)) as [st' [Hps [Hinfo' Hs']]].
      pose proof (field_ctor_ref t (name_idx sn (S i0)) (SSeqDt inf0) st' inf Hun Hps) as Hct.
      cbn [st_dt] in Hct. rewrite Hinfo', Hdt in Hct.
      apply (parse_field_complex_shape D rows st' Hg Hs' (HnoC row inf0 D rows (nth_error_In _ _ En) Hr Hdt HlD)
               r _ _ inf (Some (name_idx sn (S i0))) x Hct M12 N12 Hp).
  - (* beyond the defined positions *)
    intros i Hi. split.
    + unfold ref_in. now rewrite (rs_ordered _ _ _ _ _ Hs), (rs_beyond _ _ _ _ _ Hs i Hi).
    + intros r x Hp. pose proof (field_ctor_beyond sn i inf H3 Hup Hz (Hnof i Hi)) as Hct.
      pose proof (sn_is_msh12 sn H3 Hup Hmsh i) as M12.
      destruct inf.
      * apply (parse_field_varies_shape r _ _ true (Some (name_idx sn i)) _ _ x Hct M12 (sn_not_msh12 sn H3 Hup Hmsh i)); auto.
      * apply (parse_field_varies_shape r _ _ false None _ _ x Hct M12 eq_refl); auto.
  - exact (rs_ordered _ _ _ _ _ Hs).
Qed.

End TableShape.

(* ---------- Z-segments ---------- *)
Section ZShape.
Variables a b : byte.
Hypothesis Hup : upper (zname a b) = zname a b.
Hypothesis Hnf : forall i, slookup (name_idx (zname a b) i) (t_fields t) = None.

Theorem parse_z_segment_shape text s : seg_name_of text = zname a b ->
  parse_segment t TOLERANT e leaf text None = Ok s -> seg_shape t s.
Proof.
  intros Hname. unfold parse_segment. rewrite Hname, (mk_segment_z t a b Hup). cbn [bind]. unfold zseg0.
  change 0%N with (N.of_nat 0).
  apply (parse_segment_in_shape (zname a b) zst true 0 (z_no_msh a b Hup) eq_refl); auto.
  - intros i Hi. lia.
  - intros i Hi. split; [reflexivity|]. intros r x Hp.
    destruct (st_path a b) eqn:Ep.
    + pose proof (field_ctor_z_st t Hst a b Hup Hnf i Ep) as Hct.
      apply (parse_field_base_shape r _ _ true (Some (zfn a b i)) (unbs "ST") _ x Hct (zfn_is_msh12 a b Hup i) (zfn_not_msh12 a b i) Hst eq_refl Hp).
    + pose proof (field_ctor_z_var t a b Hup Hnf i Ep) as Hct.
      apply (parse_field_varies_shape r _ _ true (Some (zfn a b i)) _ _ x Hct (zfn_is_msh12 a b Hup i) (zfn_not_msh12 a b i)); auto.
Qed.

End ZShape.

End Shapes.

(* ================================================================================== *)
(* every subcomponent of a parsed tree comes from the subcomponent constructor, so its encoded
   text is empty or an output of the leaf encoder                                       *)

Section AllSubs.
Variable t : tables.
Variable lvl : level.
Variable e : ec.
Variable leaf : option str -> str -> result str.
Variable Q : sub -> Prop.
Hypothesis HQ : forall nm dt v ref x, mk_subcomponent t lvl leaf nm dt v ref = Ok x -> Q x.

Definition comp_all (c : comp) : Prop := Forall Q (c_children c).
Definition field_all (f : field) : Prop := Forall comp_all (f_children f).

Lemma psa_all cdt st l : forall subs, parse_subcomponents_aux t lvl leaf cdt st l = Ok subs -> Forall Q subs.
Proof.
  induction l as [|[i s] rest IH]; intros subs H; cbn [parse_subcomponents_aux] in H.
  - injection H as <-. constructor.
  - destruct (base t cdt || opt_is_none cdt); cbn beta iota in H;
      [ | destruct (has_map st); cbn beta iota in H;
          [ destruct (ref_in st (name_idx (str_of_opt cdt) i)); cbn beta iota in H | ] ].
    all: match type of H with (if materialise ?a ?b then _ else _) = _ => destruct (materialise a b) end;
      [ match type of H with bind ?r _ = _ => destruct r as [x|] eqn:Hx; cbn [bind] in H; try discriminate end;
        destruct (parse_subcomponents_aux t lvl leaf cdt st rest) as [xs|]; cbn [bind] in H; try discriminate;
        injection H as <-; constructor; [eapply HQ; eauto|now apply IH]
      | now apply IH ].
Qed.

Lemma pc_all text nm dt ref c : parse_component t lvl e leaf text nm dt ref = Ok c -> comp_all c.
Proof.
  unfold parse_component. intros H.
  match type of H with bind ?r _ = _ => destruct r as [c0|] eqn:H0; cbn [bind] in H; try discriminate end.
  assert (c_children c0 = []) as Hc0.
  { destruct (mk_component t lvl nm dt ref) as [c1|[]] eqn:E; try discriminate;
      try (injection H0 as <-; eapply mk_component_no_children; eauto).
    destruct c1; try discriminate.
    destruct (is_strict lvl); try discriminate. eapply mk_component_no_children; eauto. }
  match type of H with bind ?r _ = _ => destruct r as [kids|] eqn:Hk; cbn [bind] in H; try discriminate end.
  apply add_subs_appends in H. destruct H as [H _]. unfold comp_all. rewrite H.
  assert (c_children (if negb (is_strict lvl) && base t (c_dt c0) && Nat.ltb 1 (length kids)
                      then mk_comp (c_name c0) None (c_st c0) (c_children c0) else c0) = []) as ->.
  { destruct (_ && _); auto. }
  cbn [app]. unfold parse_subcomponents in Hk. now apply psa_all in Hk.
Qed.

Lemma pca_all fdt st l : forall comps, parse_components_aux t lvl e leaf fdt st l = Ok comps -> Forall comp_all comps.
Proof.
  induction l as [|[i s] rest IH]; intros comps H; cbn [parse_components_aux] in H.
  - injection H as <-. constructor.
  - destruct (base t fdt); cbn beta iota in H;
      [ | destruct (opt_is_none fdt || is_varies fdt); cbn beta iota in H ].
    all: match type of H with (if ?b then _ else _) = _ => destruct b end;
      [ match type of H with bind ?r _ = _ => destruct r as [x|] eqn:Hx; cbn [bind] in H; try discriminate end;
        destruct (parse_components_aux t lvl e leaf fdt st rest) as [xs|]; cbn [bind] in H; try discriminate;
        injection H as <-; constructor; [eapply pc_all; eauto|now apply IH]
      | now apply IH ].
Qed.

Lemma pf_all text name ref fv f : parse_field t lvl e leaf text name ref fv = Ok f -> field_all f.
Proof.
  unfold parse_field. intros H.
  match type of H with bind ?r _ = _ => destruct r as [f0|] eqn:H0; cbn [bind] in H; try discriminate end.
  assert (f_children f0 = []) as Hf0.
  { destruct (mk_field t lvl name None ref) as [f1|[]] eqn:E; try discriminate;
      try (injection H0 as <-; eapply mk_field_no_children; eauto).
    destruct c; try discriminate.
    destruct fv; eapply mk_field_no_children; eauto. }
  destruct (is_msh12 name).
  - match type of H with bind ?r _ = _ => destruct r as [s|] eqn:Hs; cbn [bind] in H; try discriminate end.
    match type of H with bind ?r _ = _ => destruct r as [c0|] eqn:Hc0; cbn [bind] in H; try discriminate end.
    match type of H with bind ?r _ = _ => destruct r as [c|] eqn:Hc; cbn [bind] in H; try discriminate end.
    apply add_comps_appends in H. destruct H as [H _].
    apply add_subs_appends in Hc. destruct Hc as [Hc _].
    apply mk_component_no_children in Hc0. unfold field_all. rewrite H, Hf0. cbn [app].
    constructor; [|constructor]. unfold comp_all. rewrite Hc, Hc0. cbn [app]. constructor; [eapply HQ; eauto|constructor].
  - match type of H with bind ?r _ = _ => destruct r as [kids|] eqn:Hk; cbn [bind] in H; try discriminate end.
    apply add_comps_appends in H. destruct H as [H _]. unfold field_all. rewrite H.
    assert (f_children (if negb (is_strict lvl) && base t (f_dt f0) && Nat.ltb 1 (length kids)
                        then mk_field_rec (f_name f0) None (f_st f0) (f_children f0) else f0) = []) as ->.
    { destruct (_ && _); auto. }
    cbn [app]. unfold parse_components in Hk. now apply pca_all in Hk.
Qed.

Lemma pr_all reps name ref fv : forall fs, parse_reps t lvl e leaf reps name ref fv = Ok fs -> Forall field_all fs.
Proof.
  induction reps as [|r rest IH]; intros fs H; cbn [parse_reps] in H.
  - injection H as <-. constructor.
  - destruct (parse_field t lvl e leaf r name ref fv) as [x|] eqn:Hx; cbn [bind] in H; try discriminate.
    destruct (parse_reps t lvl e leaf rest name ref fv) as [xs|]; cbn [bind] in H; try discriminate.
    injection H as <-. constructor; [eapply pf_all; eauto|now apply IH].
Qed.

Lemma pfa_all prefix st fv l : forall fs, parse_fields_aux t lvl e leaf prefix st fv l = Ok fs -> Forall field_all fs.
Proof.
  induction l as [|[i f] rest IH]; intros fs H; cbn [parse_fields_aux] in H.
  - injection H as <-. constructor.
  - match type of H with bind ?r _ = _ => destruct r as [here|] eqn:Hh; cbn [bind] in H; try discriminate end.
    destruct (parse_fields_aux t lvl e leaf prefix st fv rest) as [xs|]; cbn [bind] in H; try discriminate.
    injection H as <-. apply Forall_app. split; [|now apply IH].
    destruct (negb (is_blank f)).
    + destruct (streqb (upper (name_idx prefix i)) (unbs "MSH_2")); eapply pr_all; exact Hh.
    + destruct (streqb (upper (name_idx prefix i)) (unbs "MSH_1")); [eapply pr_all; exact Hh|].
      injection Hh as <-. constructor.
Qed.

Theorem parse_segment_all text reference s :
  parse_segment t lvl e leaf text reference = Ok s -> Forall field_all (s_children s).
Proof.
  unfold parse_segment, parse_segment_in, parse_fields. intros H.
  destruct (mk_segment t (seg_name_of text) reference) as [s0|] eqn:H0; cbn [bind] in H; try discriminate.
  match type of H with bind ?r _ = _ => destruct r as [kids|] eqn:Hk; cbn [bind] in H; try discriminate end.
  apply add_fields_appends in H. destruct H as [H _]. apply mk_segment_no_children in H0. rewrite H, H0. cbn [app].
  eapply pfa_all. exact Hk.
Qed.

End AllSubs.

(* the encoded text of a constructed subcomponent is empty or an output of the leaf encoder *)
Lemma mk_subcomponent_enc t lvl leaf nm dt v ref x :
  mk_subcomponent t lvl leaf nm dt v ref = Ok x -> sc_enc x = [] \/ exists d, leaf d v = Ok (sc_enc x).
Proof.
  unfold mk_subcomponent. intros H.
  destruct (_ && _) in H; try discriminate.
  match type of H with bind ?r _ = _ => destruct r as [[[? ?] ?]|]; cbn [bind] in H; try discriminate end.
  destruct v as [|b v']; [injection H as <-; now left|].
  match type of H with bind ?r _ = _ => destruct r eqn:El; cbn [bind] in H; try discriminate end.
  injection H as <-. right. cbn [sc_enc]. eauto.
Qed.

(* if the leaf encoder never emits a separator, every parsed tree is clean *)
Lemma parse_segment_clean t lvl e leaf text reference s :
  (forall d v x, leaf d v = Ok x -> sep_free e x) ->
  parse_segment t lvl e leaf text reference = Ok s -> seg_clean e s.
Proof.
  intros HL H.
  pose proof (parse_segment_all t lvl e leaf (sub_clean e)) as A.
  assert (HQ : forall nm dt v ref x, mk_subcomponent t lvl leaf nm dt v ref = Ok x -> sub_clean e x).
  { intros nm dt v ref x Hx. destruct (mk_subcomponent_enc t lvl leaf nm dt v ref x Hx) as [E|[d E]].
    - unfold sub_clean. rewrite E. repeat split.
    - exact (HL d v _ E). }
  specialize (A HQ text reference s H). rewrite Forall_forall in A.
  intros f Hf c Hc. specialize (A f Hf). unfold field_all in A. rewrite Forall_forall in A. exact (A c Hc).
Qed.

(* the real leaf encoder never emits a separator: every output is an `escape` output (C06) *)
From HL7 Require Import Model.Escape Model.Leaf Gen.Params Proofs.EscapeFacts Proofs.EscapeCover.

Lemma family_in f : In (family f) esc_families.
Proof.
  unfold family. destruct (nth_in_or_default f esc_families esc_family_0) as [H|H]; [exact H|].
  rewrite H. now left.
Qed.

Lemma escape_sep_free p e s : In p esc_families -> ec_valid p e = true -> sep_free e (escape p e s).
Proof.
  intros Hp He.
  assert (L : forallb letters_ok esc_families = true) by (vm_compute; reflexivity).
  assert (C : forallb covers esc_families = true) by (vm_compute; reflexivity).
  pose proof (forallb_In _ _ _ L Hp) as Lp. pose proof (forallb_In _ _ _ C Hp) as Cp.
  repeat split; apply escape_no_delims; auto.
  - apply covers_four with (s := FIELD); simpl; auto.
  - apply covers_four with (s := COMPONENT); simpl; auto.
  - apply covers_four with (s := REPETITION); simpl; auto 6.
  - apply covers_four with (s := SUBCOMPONENT); simpl; auto 6.
Qed.

Lemma leaf_enc_sep_free v e d s x : ec_valid esc_family_0 e = true ->
  leaf_enc v TOLERANT e d s = Ok x -> sep_free e x.
Proof.
  intros He. unfold leaf_enc. destruct d as [d|]; [|discriminate].
  destruct (dt_row v d) as [[k mx]|]; [|discriminate].
  assert (St : In (st_family v) esc_families).
  { unfold st_family. destruct (dt_row v (unbs "ST")) as [[[f| | | | | | |] ?]|]; try (now left). apply family_in. }
  destruct k as [f|f| | | | | |]; cbn [is_strict andb]; intros H; injection H as <-;
    apply escape_sep_free; auto using family_in.
Qed.
