(* Characterising lemmas for the parser / encoder pair, TOLERANT level, shared by the Z-segment
   slice (RoundTripZ.v) and the table-driven proofs (RoundTripSeg.v):
   - valid delimiter sets, leaves that the leaf encoder leaves alone;
   - the "unnamed" levels (children of a base-typed or untyped element): parse then encode is the
     identity on EVERY text whose leaves are fixed points (join . split = id);
   - VARIES_i components;
   - the generic field loop of a segment. *)
From Coq Require Import List Bool Arith ZArith NArith Lia Init.Byte FinFun.
From HL7 Require Import Lib.Str Model.Ec Model.Result Model.Ref Model.Tree Model.Parser Model.Encode.
From HL7 Require Import Proofs.SplitJoin Proofs.LevelCodec Proofs.RoundTripStr.
Import ListNotations.
Open Scope bs_scope.
Open Scope res_scope.

(* ------------------------------------------------------------------ *)
(* delimiter sets                                                       *)

(* the five delimiters are pairwise distinct, none is white space (CR is white space) *)
Definition ec_ok (e : ec) : Prop :=
  NoDup [fsep e; csep e; rsep e; ssep e; esc e] /\
  forall c, In c [fsep e; csep e; rsep e; ssep e; esc e] -> is_space c = false.

(* a text free of the four separators and of CR *)
Definition delim_free (e : ec) (s : str) : Prop :=
  bmem (fsep e) s = false /\ bmem (csep e) s = false /\ bmem (rsep e) s = false /\
  bmem (ssep e) s = false /\ bmem CR s = false.

Lemma indexed_snd {A} (l : list A) : map snd (indexed l) = l.
Proof.
  unfold indexed. generalize 1. induction l as [|x l IH]; intros n; [reflexivity|].
  cbn [length seq combine map snd]. now rewrite IH.
Qed.

Lemma indexed_fst {A} (l : list A) : map fst (indexed l) = seq 1 (length l).
Proof.
  unfold indexed. generalize 1. induction l as [|x l IH]; intros n; [reflexivity|].
  cbn [length seq combine map fst]. now rewrite IH.
Qed.

(* positions are numbered from 1 *)
Definition pos_idx {A} (l : list (nat * A)) : Prop := Forall (fun p => fst p <> 0) l.

Lemma combine_seq_pos {A} : forall (l : list A) a, a <> 0 -> pos_idx (combine (seq a (length l)) l).
Proof.
  induction l as [|x l IH]; intros a Ha; [constructor|].
  cbn [length seq combine]. constructor; [exact Ha|]. apply IH. discriminate.
Qed.

Lemma indexed_pos {A} (l : list A) : pos_idx (indexed l).
Proof. apply combine_seq_pos. discriminate. Qed.

Section Core.
Variable t : tables.
Variable e : ec.
Variable leaf : option str -> str -> result str.

Notation base := (base t).

(* the leaf encoder (to_er7 of the datatype object built from s) gives back s *)
Definition leaf_fix (d : str) (s : str) : Prop := s = [] \/ leaf (Some d) s = Ok s.

(* ------------------------------------------------------------------ *)
(* subcomponents of a base-typed / untyped component: unnamed, datatype d *)

Definition st_sub (d : str) (s : str) : sub := mk_sub (Some d) (Some d) s s.

Lemma base_none : base None = false.
Proof. reflexivity. Qed.

Lemma mk_subcomponent_unnamed d s :
  base (Some d) = true -> is_varies (Some d) = false -> leaf_fix d s ->
  mk_subcomponent t TOLERANT leaf None (Some d) s None = Ok (st_sub d s).
Proof.
  intros Hb Hv Hs. unfold mk_subcomponent, canbevaries.
  rewrite Hv. cbn [andb negb is_strict]. rewrite Hb. cbn [andb negb bind valid_child_name st_dt].
  unfold set_datatype_ctor. rewrite Hb. cbn [andb negb is_strict bind].
  destruct Hs as [->|Hs]; [reflexivity|].
  destruct s; [reflexivity|]. rewrite Hs. reflexivity.
Qed.

Definition dflt_dt (cdt : option str) : str := match cdt with Some d => d | None => unbs "ST" end.

Lemma parse_subcomponents_aux_unnamed cdt st l :
  base cdt || opt_is_none cdt = true ->
  base (Some (dflt_dt cdt)) = true -> is_varies (Some (dflt_dt cdt)) = false ->
  Forall (fun p => leaf_fix (dflt_dt cdt) (snd p)) l ->
  parse_subcomponents_aux t TOLERANT leaf cdt st l = Ok (map (fun p => st_sub (dflt_dt cdt) (snd p)) l).
Proof.
  intros Hc Hb Hv. induction 1 as [|[i s] l Hs _ IH]; [reflexivity|].
  cbn [parse_subcomponents_aux]. rewrite Hc.
  assert (E : match cdt with Some d => Some d | None => Some (unbs "ST") end = Some (dflt_dt cdt))
    by (destruct cdt; reflexivity).
  rewrite E. unfold materialise. cbn [opt_is_none]. rewrite orb_true_r.
  cbn [snd] in Hs. rewrite (mk_subcomponent_unnamed _ _ Hb Hv Hs), IH. reflexivity.
Qed.

Definition subs_fix (d : str) (text : str) : Prop := Forall (leaf_fix d) (bsplit (ssep e) text).

Lemma parse_subcomponents_unnamed cdt st text :
  base cdt || opt_is_none cdt = true ->
  base (Some (dflt_dt cdt)) = true -> is_varies (Some (dflt_dt cdt)) = false ->
  subs_fix (dflt_dt cdt) text ->
  parse_subcomponents t TOLERANT e leaf text cdt st = Ok (map (st_sub (dflt_dt cdt)) (bsplit (ssep e) text)).
Proof.
  intros Hc Hb Hv Hs. unfold parse_subcomponents.
  rewrite parse_subcomponents_aux_unnamed; auto.
  - now rewrite <- map_map, indexed_snd.
  - unfold subs_fix in Hs. rewrite <- (indexed_snd (bsplit (ssep e) text)) in Hs.
    now rewrite Forall_map in Hs.
Qed.

(* acceptance of a base-typed child under a parent whose datatype is None or the same type *)
Lemma vcc_base_child pn pdt pst d kdt :
  base (Some d) = true -> (pdt = None \/ pdt = Some d) -> (kdt = None \/ kdt = Some d) ->
  valid_child_complex t TOLERANT pn pdt pst (Some d) kdt = Ok true.
Proof.
  intros Hb Hp Hk. unfold valid_child_complex. cbn [is_strict andb].
  rewrite !andb_false_r. rewrite Hb.
  destruct Hp as [->| ->].
  - rewrite base_none. cbn [negb andb opt_is_none orb nonempty_name].
    rewrite !andb_false_r.
    destruct (valid_child_name (Some d) (Some (unbs "varies"))); [reflexivity|].
    destruct (valid_child_name pn (Some (unbs "varies")) && opt_eqb (Some d) kdt); reflexivity.
  - rewrite Hb. cbn [negb andb].
    destruct Hk as [->| ->]; cbn [nonempty_name andb]; [reflexivity|].
    rewrite opt_eqb_some_refl. rewrite andb_false_r. reflexivity.
Qed.

Lemma card_ok_tolerant {A} (nm : A -> option str) st k have : card_ok TOLERANT nm st k have = true.
Proof. reflexivity. Qed.

Lemma add_subs_step d s ps c : base (Some d) = true ->
  (c_dt c = None \/ (c_dt c = Some d /\ c_children c = [])) ->
  add_subs t TOLERANT c (st_sub d s :: ps) =
  add_subs t TOLERANT (mk_comp (c_name c) (c_dt c) (c_st c) (c_children c ++ [st_sub d s])) ps.
Proof.
  intros Hb Hc. cbn [add_subs].
  assert (G : nonempty_name (c_name c) && base (c_dt c) && Nat.leb 1 (length (c_children c)) = false).
  { destruct Hc as [->|[_ ->]]; [rewrite base_none|]; cbn; now rewrite ?andb_false_r. }
  rewrite G. cbn [st_sub sc_name sc_dt]. rewrite opt_eqb_some_refl. cbn [negb andb].
  rewrite andb_false_r.
  rewrite (vcc_base_child _ (c_dt c) _ d (Some d) Hb); [reflexivity| |now right].
  destruct Hc as [->|[-> _]]; auto.
Qed.

Lemma add_subs_unnamed_none d : forall ps c, base (Some d) = true -> c_dt c = None ->
  add_subs t TOLERANT c (map (st_sub d) ps) =
  Ok (mk_comp (c_name c) (c_dt c) (c_st c) (c_children c ++ map (st_sub d) ps)).
Proof.
  induction ps as [|s ps IH]; intros c Hb Hc.
  - cbn [map add_subs]. rewrite app_nil_r. now destruct c.
  - cbn [map]. rewrite add_subs_step by auto. rewrite IH by auto.
    cbn [c_name c_dt c_st c_children]. now rewrite <- app_assoc.
Qed.

Lemma add_subs_unnamed_one d s c : base (Some d) = true -> c_dt c = Some d -> c_children c = [] ->
  add_subs t TOLERANT c [st_sub d s] = Ok (mk_comp (c_name c) (c_dt c) (c_st c) [st_sub d s]).
Proof.
  intros Hb Hc Hk. rewrite add_subs_step by auto. cbn [add_subs]. now rewrite Hk.
Qed.

(* ------------------------------------------------------------------ *)
(* components                                                           *)

Lemma mk_component_unnamed d : base (Some d) = true -> is_varies (Some d) = false ->
  mk_component t TOLERANT None (Some d) None = Ok (mk_comp (Some d) (Some d) None []).
Proof.
  intros Hb Hv. unfold mk_component, canbevaries.
  rewrite Hv. cbn [andb negb is_strict]. rewrite Hb. cbn [andb negb bind valid_child_name st_dt].
  unfold set_datatype_ctor. rewrite Hb. cbn [andb negb is_strict bind].
  rewrite andb_false_r. reflexivity.
Qed.

Lemma is_varies_none : is_varies None = false.
Proof. reflexivity. Qed.

Definition VARIES : str := unbs "VARIES".

Lemma mk_component_varies i : i <> 0 ->
  mk_component t TOLERANT (Some (name_idx VARIES i)) None None =
  Ok (mk_comp (Some (name_idx VARIES i)) None None []).
Proof.
  intros Hi. unfold mk_component, canbevaries. rewrite is_varies_none.
  cbn [andb negb is_strict bind].
  change (Some (unbs "VARIES")) with (Some VARIES).
  rewrite valid_child_name_idx, streqb_refl by exact Hi. cbn [bind option_map st_dt andb].
  rewrite name_idx_upper. change (upper VARIES) with VARIES.
  unfold name_idx at 1 2. cbn [VARIES unbs app bstarts starts_with beqb Byte.eqb].
  cbn [negb andb bind]. reflexivity.
Qed.

(* a base-typed component (name None, datatype d): every piece becomes an unnamed subcomponent *)
Definition unnamed_comp (d : str) (text : str) : comp :=
  let ps := bsplit (ssep e) text in
  mk_comp (Some d) (if Nat.ltb 1 (length ps) then None else Some d) None (map (st_sub d) ps).

Lemma parse_component_unnamed d text :
  base (Some d) = true -> is_varies (Some d) = false -> subs_fix d text ->
  parse_component t TOLERANT e leaf text None (Some d) None = Ok (unnamed_comp d text).
Proof.
  intros Hb Hv Hs. unfold parse_component. rewrite (mk_component_unnamed d Hb Hv). cbn [bind c_dt c_st].
  rewrite (parse_subcomponents_unnamed (Some d) None text); cbn [dflt_dt]; auto.
  2:{ now rewrite Hb. }
  cbn [bind is_strict negb andb]. rewrite Hb. cbn [andb]. rewrite map_length.
  unfold unnamed_comp. cbv zeta. unfold str.
  destruct (Nat.ltb 1 (length (bsplit (ssep e) text))) eqn:L.
  - rewrite add_subs_unnamed_none by auto. reflexivity.
  - destruct (bsplit (ssep e) text) as [|s [|s' r]] eqn:E.
    + exfalso. exact (bsplit_ne _ _ E).
    + cbn [map]. rewrite add_subs_unnamed_one by auto. reflexivity.
    + discriminate.
Qed.

Lemma enc_sub_st_sub d s : enc_sub (st_sub d s) = s.
Proof. reflexivity. Qed.

Lemma map_enc_st_sub d ps : map enc_sub (map (st_sub d) ps) = ps.
Proof. rewrite map_map. cbn [enc_sub st_sub sc_enc]. apply map_id. Qed.

Lemma enc_comp_unnamed d text : base (Some d) = true -> enc_comp t e (unnamed_comp d text) = text.
Proof.
  intros Hb. unfold enc_comp, unnamed_comp. cbv zeta. cbn [c_dt c_children].
  assert (base (if Nat.ltb 1 (length (bsplit (ssep e) text)) then None else Some d)
          || opt_is_none (if Nat.ltb 1 (length (bsplit (ssep e) text)) then None else Some d) = true) as ->.
  { destruct (Nat.ltb 1 _); [reflexivity|now rewrite Hb]. }
  rewrite enc_slots_all.
  - rewrite map_enc_st_sub. apply bjoin_bsplit.
  - intros H. apply map_eq_nil in H. exact (bsplit_ne _ _ H).
Qed.

(* a VARIES_i component *)
Definition varies_comp (i : nat) (text : str) : comp :=
  mk_comp (Some (name_idx VARIES i)) None None (map (st_sub (unbs "ST")) (bsplit (ssep e) text)).

Hypothesis Hst : base (Some (unbs "ST")) = true.

Lemma parse_component_varies i text : i <> 0 ->
  subs_fix (unbs "ST") text ->
  parse_component t TOLERANT e leaf text (Some (name_idx VARIES i)) None None = Ok (varies_comp i text).
Proof.
  intros Hi Hs. unfold parse_component. rewrite mk_component_varies by exact Hi. cbn [bind c_dt c_st].
  rewrite (parse_subcomponents_unnamed None None text); cbn [dflt_dt]; auto.
  cbn [bind is_strict negb andb]. rewrite base_none. cbn [andb].
  rewrite add_subs_unnamed_none by auto. reflexivity.
Qed.

Lemma enc_comp_varies i text : enc_comp t e (varies_comp i text) = text.
Proof.
  unfold enc_comp, varies_comp. cbn [c_dt c_children opt_is_none]. rewrite orb_true_r.
  rewrite enc_slots_all.
  - rewrite map_enc_st_sub. apply bjoin_bsplit.
  - intros H. apply map_eq_nil in H. exact (bsplit_ne _ _ H).
Qed.

(* ------------------------------------------------------------------ *)
(* fields                                                               *)

(* the Field object parse_field starts from *)
Definition field_ctor (name : option str) (ref : option sref) (fv : bool) : result field :=
  match mk_field t TOLERANT name None ref with
  | Err (HL7 EInvalidName) =>
      if fv then mk_field t TOLERANT name None (Some varies_leaf) else mk_field t TOLERANT None None ref
  | r => r
  end.

Lemma parse_field_unfold text name ref fv :
  parse_field t TOLERANT e leaf text name ref fv =
  (do f <- field_ctor name ref fv;
   if is_msh12 name then
     do s <- mk_subcomponent t TOLERANT leaf None (Some (unbs "ST")) text None;
     do c0 <- mk_component t TOLERANT None (Some (unbs "ST")) None;
     do c <- add_subs t TOLERANT c0 [s];
     add_comps t TOLERANT f [c]
   else
     do kids <- parse_components t TOLERANT e leaf text (f_dt f) (f_st f);
     let f := if negb (is_strict TOLERANT) && base (f_dt f) && Nat.ltb 1 (length kids)
              then mk_field_rec (f_name f) None (f_st f) (f_children f) else f in
     add_comps t TOLERANT f kids).
Proof. reflexivity. Qed.

Definition not_msh12 (n : str) : Prop :=
  opt_eqb (Some n) (Some (unbs "MSH_1")) || opt_eqb (Some n) (Some (unbs "MSH_2")) = false.

(* --- a field of base datatype d: unnamed components --- *)

Definition comps_fix (d : str) (text : str) : Prop := Forall (subs_fix d) (bsplit (csep e) text).

Definition base_field (n d : str) (sto : option structure) (text : str) : field :=
  let cs := bsplit (csep e) text in
  mk_field_rec (Some n) (if Nat.ltb 1 (length cs) then None else Some d) sto (map (unnamed_comp d) cs).

Lemma parse_components_aux_base d st l :
  base (Some d) = true -> is_varies (Some d) = false ->
  Forall (fun p => subs_fix d (snd p)) l ->
  parse_components_aux t TOLERANT e leaf (Some d) st l = Ok (map (fun p => unnamed_comp d (snd p)) l).
Proof.
  intros Hb Hv. induction 1 as [|[i s] l Hs _ IH]; [reflexivity|].
  cbn [parse_components_aux]. rewrite Hb. cbn [opt_is_none]. rewrite orb_true_r. cbn [orb].
  cbn [snd] in Hs. rewrite (parse_component_unnamed d s Hb Hv Hs), IH. reflexivity.
Qed.

Lemma parse_components_base d st text :
  base (Some d) = true -> is_varies (Some d) = false -> comps_fix d text ->
  parse_components t TOLERANT e leaf text (Some d) st = Ok (map (unnamed_comp d) (bsplit (csep e) text)).
Proof.
  intros Hb Hv Hs. unfold parse_components. rewrite parse_components_aux_base; auto.
  - now rewrite <- map_map, indexed_snd.
  - unfold comps_fix in Hs. rewrite <- (indexed_snd (bsplit (csep e) text)) in Hs.
    now rewrite Forall_map in Hs.
Qed.

Lemma add_comps_step_base d f k ks : base (Some d) = true ->
  c_name k = Some d -> (c_dt k = None \/ c_dt k = Some d) ->
  (f_dt f = None \/ (f_dt f = Some d /\ f_children f = [])) ->
  add_comps t TOLERANT f (k :: ks) =
  add_comps t TOLERANT (mk_field_rec (f_name f) (f_dt f) (f_st f) (f_children f ++ [k])) ks.
Proof.
  intros Hb Hn Hk Hf. cbn [add_comps].
  assert (G : nonempty_name (f_name f) && base (f_dt f) && Nat.leb 1 (length (f_children f)) = false).
  { destruct Hf as [->|[_ ->]]; [rewrite base_none|]; cbn; now rewrite ?andb_false_r. }
  rewrite G, Hn.
  rewrite (vcc_base_child _ (f_dt f) _ d (c_dt k) Hb); [reflexivity| |exact Hk].
  destruct Hf as [->|[-> _]]; auto.
Qed.

Lemma unnamed_comp_name d s : c_name (unnamed_comp d s) = Some d.
Proof. reflexivity. Qed.
Lemma unnamed_comp_dt d s : c_dt (unnamed_comp d s) = None \/ c_dt (unnamed_comp d s) = Some d.
Proof. unfold unnamed_comp. cbv zeta. cbn [c_dt]. destruct (Nat.ltb 1 _); auto. Qed.

Lemma add_comps_base_none d : forall cs f, base (Some d) = true -> f_dt f = None ->
  add_comps t TOLERANT f (map (unnamed_comp d) cs) =
  Ok (mk_field_rec (f_name f) (f_dt f) (f_st f) (f_children f ++ map (unnamed_comp d) cs)).
Proof.
  induction cs as [|s cs IH]; intros f Hb Hf.
  - cbn [map add_comps]. rewrite app_nil_r. now destruct f.
  - cbn [map]. rewrite (add_comps_step_base d) by (auto using unnamed_comp_name, unnamed_comp_dt).
    rewrite IH by auto. cbn [f_name f_dt f_st f_children]. now rewrite <- app_assoc.
Qed.

Lemma add_comps_base_one d s f : base (Some d) = true -> f_dt f = Some d -> f_children f = [] ->
  add_comps t TOLERANT f [unnamed_comp d s] = Ok (mk_field_rec (f_name f) (f_dt f) (f_st f) [unnamed_comp d s]).
Proof.
  intros Hb Hf Hk. rewrite (add_comps_step_base d) by (auto using unnamed_comp_name, unnamed_comp_dt).
  cbn [add_comps]. now rewrite Hk.
Qed.

Lemma parse_field_base text name ref fv n d sto :
  field_ctor name ref fv = Ok (mk_field_rec (Some n) (Some d) sto []) -> is_msh12 name = false ->
  base (Some d) = true -> is_varies (Some d) = false -> comps_fix d text ->
  parse_field t TOLERANT e leaf text name ref fv = Ok (base_field n d sto text).
Proof.
  intros Hc Hm Hb Hv Hs. rewrite parse_field_unfold, Hc, Hm. cbn [bind f_dt f_st].
  rewrite (parse_components_base d sto text Hb Hv Hs). cbn [bind is_strict negb andb].
  rewrite Hb. cbn [andb]. rewrite map_length. unfold base_field. cbv zeta. unfold str.
  destruct (Nat.ltb 1 (length (bsplit (csep e) text))) eqn:L.
  - rewrite add_comps_base_none by auto. reflexivity.
  - destruct (bsplit (csep e) text) as [|s [|s' r]] eqn:E.
    + exfalso. exact (bsplit_ne _ _ E).
    + cbn [map]. rewrite add_comps_base_one by auto. reflexivity.
    + discriminate.
Qed.

Lemma enc_field_base n d sto text :
  not_msh12 n -> base (Some d) = true -> is_varies (Some d) = false ->
  enc_field t e (base_field n d sto text) = Ok text.
Proof.
  intros Hm Hb Hv. unfold enc_field, base_field. cbv zeta. cbn [f_name f_dt f_children].
  unfold not_msh12 in Hm. rewrite Hm.
  set (dt := if Nat.ltb 1 (length (bsplit (csep e) text)) then None else Some d).
  assert (is_varies dt = false) as -> by (subst dt; destruct (Nat.ltb 1 _); auto).
  assert (base dt || opt_is_none dt = true) as ->.
  { subst dt; destruct (Nat.ltb 1 _); [reflexivity|now rewrite Hb]. }
  rewrite enc_slots_all.
  - rewrite map_map. rewrite (map_ext _ (fun s => s)) by (intros s; now apply enc_comp_unnamed).
    rewrite map_id. now rewrite bjoin_bsplit.
  - intros H. apply map_eq_nil in H. exact (bsplit_ne _ _ H).
Qed.

(* --- a field of datatype varies: components VARIES_1 .. VARIES_m, all materialised --- *)

Hypothesis Hvar : base (Some (unbs "varies")) = false.

Definition vkids (l : list (nat * str)) : list comp := map (fun p => varies_comp (fst p) (snd p)) l.

Definition var_field (n : str) (sto : option structure) (text : str) : field :=
  mk_field_rec (Some n) (Some (unbs "varies")) sto (vkids (indexed (bsplit (csep e) text))).

Definition vcomps_fix (text : str) : Prop := Forall (subs_fix (unbs "ST")) (bsplit (csep e) text).

Lemma name_idx_varies_starts i : bstarts (unbs "VARIES_") (name_idx VARIES i) = true.
Proof. unfold name_idx. rewrite app_assoc. apply starts_with_app. Qed.

Lemma parse_components_aux_varies st l :
  has_map st = false -> pos_idx l -> Forall (fun p => subs_fix (unbs "ST") (snd p)) l ->
  parse_components_aux t TOLERANT e leaf (Some (unbs "varies")) st l = Ok (vkids l).
Proof.
  intros Hm Hp. induction 1 as [|[i s] l Hs _ IH]; [reflexivity|].
  apply Forall_cons_iff in Hp. destruct Hp as [Hi Hp]. cbn [fst] in Hi. specialize (IH Hp).
  cbn [parse_components_aux]. rewrite Hvar. cbn [opt_is_none orb].
  change (is_varies (Some (unbs "varies"))) with true. cbv iota. rewrite Hm.
  change (name_idx (unbs "VARIES") i) with (name_idx VARIES i).
  rewrite name_idx_varies_starts, !orb_true_r.
  cbn [snd] in Hs. rewrite (parse_component_varies i s Hi Hs), IH. reflexivity.
Qed.

Lemma vcc_varies_child pn pst i : i <> 0 ->
  valid_child_complex t TOLERANT pn (Some (unbs "varies")) pst (Some (name_idx VARIES i)) None = Ok true.
Proof.
  intros Hi. unfold valid_child_complex. rewrite Hvar.
  change (is_varies (Some (unbs "varies"))) with true.
  rewrite valid_child_name_idx by exact Hi. reflexivity.
Qed.

Lemma add_comps_varies : forall l f, pos_idx l -> f_dt f = Some (unbs "varies") ->
  add_comps t TOLERANT f (vkids l) =
  Ok (mk_field_rec (f_name f) (f_dt f) (f_st f) (f_children f ++ vkids l)).
Proof.
  induction l as [|[i s] l IH]; intros f Hp Hf.
  - cbn [vkids map add_comps]. rewrite app_nil_r. now destruct f.
  - apply Forall_cons_iff in Hp. destruct Hp as [Hi Hp]. cbn [fst] in Hi.
    cbn [vkids map add_comps fst snd]. rewrite Hf, Hvar. rewrite andb_false_r. cbn [andb].
    cbn [varies_comp c_name c_dt]. rewrite vcc_varies_child by exact Hi. cbn [bind negb].
    rewrite card_ok_tolerant. cbn [negb].
    fold (varies_comp i s). fold (vkids l). rewrite IH by (exact Hp || reflexivity).
    cbn [f_name f_dt f_st f_children]. now rewrite <- app_assoc.
Qed.

Lemma parse_field_varies text name ref fv n sto :
  field_ctor name ref fv = Ok (mk_field_rec (Some n) (Some (unbs "varies")) sto []) ->
  is_msh12 name = false -> has_map sto = false -> vcomps_fix text ->
  parse_field t TOLERANT e leaf text name ref fv = Ok (var_field n sto text).
Proof.
  intros Hc Hm Hh Hs. rewrite parse_field_unfold, Hc, Hm. cbn [bind f_dt f_st].
  unfold parse_components. rewrite (parse_components_aux_varies sto _ Hh (indexed_pos _)).
  2:{ unfold vcomps_fix in Hs. rewrite <- (indexed_snd (bsplit (csep e) text)) in Hs.
      now rewrite Forall_map in Hs. }
  cbn [bind is_strict negb andb]. rewrite Hvar. cbn [andb].
  rewrite add_comps_varies by (apply indexed_pos || reflexivity). reflexivity.
Qed.

(* encoding: Field._get_children for varies finds VARIES_1 .. VARIES_m by name *)
Lemma varies_index_idx i : varies_index (Some (name_idx VARIES i)) = N.of_nat i.
Proof.
  unfold varies_index. change (Some (unbs "VARIES")) with (Some VARIES).
  destruct (Nat.eq_dec i 0) as [->|Hi]; [now rewrite valid_child_name_idx_0|].
  rewrite valid_child_name_idx, streqb_refl by exact Hi.
  change 7 with (S (length VARIES)). rewrite name_idx_drop. apply nat_to_str_py_val.
Qed.

Lemma vkids_last : forall cs a,
  fold_left (fun m c => N.max m (varies_index (c_name c))) (vkids (combine (seq (S a) (length cs)) cs)) (N.of_nat a)
  = N.of_nat (a + length cs).
Proof.
  induction cs as [|s cs IH]; intros a.
  - cbn. f_equal. lia.
  - cbn [length seq combine vkids map fold_left fst snd varies_comp c_name].
    rewrite varies_index_idx. replace (N.max (N.of_nat a) (N.of_nat (S a))) with (N.of_nat (S a)) by lia.
    fold (vkids (combine (seq (S (S a)) (length cs)) cs)). rewrite IH. f_equal. lia.
Qed.

Lemma vkids_groups_ok : forall cs a,
  groups_ok c_name (map (name_idx VARIES) (seq a (length cs)))
            (map (fun c => [c]) (vkids (combine (seq a (length cs)) cs))).
Proof.
  induction cs as [|s cs IH]; intros a; [exact I|].
  cbn [length seq combine vkids map groups_ok fst snd]. split.
  - intros x [<-|[]]. reflexivity.
  - apply IH.
Qed.

Lemma concat_singletons {A} (l : list A) : concat (map (fun c => [c]) l) = l.
Proof. induction l as [|x l IH]; [reflexivity|]. cbn. now rewrite IH. Qed.

Lemma singletons_no_trail {A} (l : list A) : no_trail (map (fun c => [c]) l).
Proof.
  intros l' H. destruct l as [|x l] using rev_ind.
  - destruct l'; discriminate.
  - rewrite map_app in H. cbn [map] in H. apply app_inj_tail in H. destruct H; discriminate.
Qed.

Lemma name_idx_NoDup p a n : NoDup (map (name_idx p) (seq a n)).
Proof.
  apply Injective_map_NoDup; [|apply seq_NoDup].
  intros i j. apply name_idx_inj.
Qed.

Lemma varies_slots_vkids cs :
  varies_slots (vkids (indexed cs)) = map (fun c => Some [c]) (vkids (indexed cs)).
Proof.
  unfold varies_slots, indexed.
  pose proof (vkids_last cs 0) as L. cbn [N.of_nat Nat.add] in L. rewrite L. rewrite Nat2N.id.
  set (kids := vkids (combine (seq 1 (length cs)) cs)).
  rewrite (filter_nothing comp_unknown).
  2:{ intros x Hx. subst kids. unfold vkids in Hx. apply in_map_iff in Hx.
      destruct Hx as [[i s] [<- _]]. reflexivity. }
  cbn [map]. rewrite app_nil_r.
  rewrite <- (map_map (name_idx VARIES) (fun k => named c_name k kids)).
  pose proof (fill_by_name c_name (map (name_idx VARIES) (seq 1 (length cs)))
                (map (fun c => [c]) kids) [] (name_idx_NoDup _ _ _) (vkids_groups_ok cs 1)) as F.
  cbn [app] in F. rewrite concat_singletons in F.
  change (name_idx (unbs "VARIES")) with (name_idx VARIES).
  rewrite F by (intros x []).
  rewrite trim_slots_canon by apply singletons_no_trail.
  rewrite map_map. apply map_ext. reflexivity.
Qed.

Lemma flat_map_map {A B C} (g : A -> B) (f : B -> list C) l :
  flat_map f (map g l) = concat (map (fun x => f (g x)) l).
Proof. induction l as [|x l IH]; [reflexivity|]. cbn [map flat_map concat]. now rewrite IH. Qed.

Lemma enc_slots_singletons {A} (enc : A -> str) sep (l : list A) :
  enc_slots enc sep (map (fun c => Some [c]) l) = bjoin sep (map enc l).
Proof.
  unfold enc_slots. f_equal. rewrite flat_map_map. cbn [map].
  induction l as [|x l IH]; [reflexivity|]. cbn [map concat app]. now rewrite IH.
Qed.

Lemma enc_vkids l : map (enc_comp t e) (vkids l) = map snd l.
Proof.
  unfold vkids. rewrite map_map. apply map_ext. intros [i s]. apply enc_comp_varies.
Qed.

Lemma enc_field_varies n sto text : not_msh12 n -> enc_field t e (var_field n sto text) = Ok text.
Proof.
  intros Hm. unfold enc_field, var_field. cbn [f_name f_dt f_children].
  unfold not_msh12 in Hm. rewrite Hm.
  change (is_varies (Some (unbs "varies"))) with true. cbv iota.
  rewrite varies_slots_vkids. f_equal.
  now rewrite enc_slots_singletons, enc_vkids, indexed_snd, bjoin_bsplit.
Qed.

(* --- a field whose table reference has no datatype (reserved positions of v2.5.1): parsed like a
       varies field (components VARIES_i), encoded by joining all the children --- *)

Definition untyped_field (n : str) (sto : option structure) (text : str) : field :=
  mk_field_rec (Some n) None sto (vkids (indexed (bsplit (csep e) text))).

Lemma parse_components_aux_untyped st l :
  has_map st = false -> pos_idx l -> Forall (fun p => subs_fix (unbs "ST") (snd p)) l ->
  parse_components_aux t TOLERANT e leaf None st l = Ok (vkids l).
Proof.
  intros Hm Hp. induction 1 as [|[i s] l Hs _ IH]; [reflexivity|].
  apply Forall_cons_iff in Hp. destruct Hp as [Hi Hp]. cbn [fst] in Hi. specialize (IH Hp).
  cbn [parse_components_aux]. rewrite base_none. cbn [opt_is_none orb]. rewrite Hm.
  change (name_idx (unbs "VARIES") i) with (name_idx VARIES i).
  rewrite name_idx_varies_starts, !orb_true_r.
  cbn [snd] in Hs. rewrite (parse_component_varies i s Hi Hs), IH. reflexivity.
Qed.

Lemma vcc_untyped_child pn pst i : i <> 0 ->
  valid_child_complex t TOLERANT pn None pst (Some (name_idx VARIES i)) None = Ok true.
Proof.
  intros Hi. unfold valid_child_complex. rewrite base_none. cbn [negb opt_is_none orb andb].
  rewrite valid_child_name_idx by exact Hi. reflexivity.
Qed.

Lemma add_comps_untyped : forall l f, pos_idx l -> f_dt f = None ->
  add_comps t TOLERANT f (vkids l) =
  Ok (mk_field_rec (f_name f) (f_dt f) (f_st f) (f_children f ++ vkids l)).
Proof.
  induction l as [|[i s] l IH]; intros f Hp Hf.
  - cbn [vkids map add_comps]. rewrite app_nil_r. now destruct f.
  - apply Forall_cons_iff in Hp. destruct Hp as [Hi Hp]. cbn [fst] in Hi.
    cbn [vkids map add_comps fst snd]. rewrite Hf, base_none. rewrite andb_false_r. cbn [andb].
    cbn [varies_comp c_name c_dt]. rewrite vcc_untyped_child by exact Hi. cbn [bind negb].
    rewrite card_ok_tolerant. cbn [negb].
    fold (varies_comp i s). fold (vkids l). rewrite IH by (exact Hp || reflexivity).
    cbn [f_name f_dt f_st f_children]. now rewrite <- app_assoc.
Qed.

Lemma parse_field_untyped text name ref fv n sto :
  field_ctor name ref fv = Ok (mk_field_rec (Some n) None sto []) ->
  is_msh12 name = false -> has_map sto = false -> vcomps_fix text ->
  parse_field t TOLERANT e leaf text name ref fv = Ok (untyped_field n sto text).
Proof.
  intros Hc Hm Hh Hs. rewrite parse_field_unfold, Hc, Hm. cbn [bind f_dt f_st].
  unfold parse_components. rewrite (parse_components_aux_untyped sto _ Hh (indexed_pos _)).
  2:{ unfold vcomps_fix in Hs. rewrite <- (indexed_snd (bsplit (csep e) text)) in Hs.
      now rewrite Forall_map in Hs. }
  cbn [bind is_strict negb andb]. rewrite base_none. cbn [andb].
  rewrite add_comps_untyped by (apply indexed_pos || reflexivity). reflexivity.
Qed.

Lemma enc_field_untyped n sto text : not_msh12 n -> enc_field t e (untyped_field n sto text) = Ok text.
Proof.
  intros Hm. unfold enc_field, untyped_field. cbn [f_name f_dt f_children].
  unfold not_msh12 in Hm. rewrite Hm. rewrite is_varies_none, base_none. cbn [opt_is_none orb]. f_equal.
  rewrite enc_slots_all.
  - now rewrite enc_vkids, indexed_snd, bjoin_bsplit.
  - intros H. unfold vkids in H. apply map_eq_nil in H.
    assert (L : length (indexed (bsplit (csep e) text)) = 0) by now rewrite H.
    unfold indexed in L. rewrite combine_length, seq_length, Nat.min_id in L.
    destruct (bsplit (csep e) text) eqn:E; [exact (bsplit_ne _ _ E)|discriminate].
Qed.

(* ------------------------------------------------------------------ *)
(* the field loop of a segment                                          *)

Lemma parse_reps_all name ref fv : forall reps xs,
  Forall2 (fun r x => parse_field t TOLERANT e leaf r name ref fv = Ok x) reps xs ->
  parse_reps t TOLERANT e leaf reps name ref fv = Ok xs.
Proof.
  induction 1 as [|r x reps xs H _ IH]; [reflexivity|].
  cbn [parse_reps]. rewrite H, IH. reflexivity.
Qed.

(* the segment name is not MSH: no MSH_1 / MSH_2 special cases *)
Definition no_msh (prefix : str) : Prop :=
  forall i, streqb (upper (name_idx prefix i)) (unbs "MSH_2") = false /\
            streqb (upper (name_idx prefix i)) (unbs "MSH_1") = false.

Lemma no_msh_of a b c : upper [a; b; c] <> unbs "MSH" -> no_msh [a; b; c].
Proof.
  intros H i. rewrite name_idx_upper. unfold name_idx.
  split; destruct (streqb_spec (upper [a; b; c] ++ unbs "_" ++ nat_to_str i) (unbs "MSH_2")) as [E|E];
    destruct (streqb_spec (upper [a; b; c] ++ unbs "_" ++ nat_to_str i) (unbs "MSH_1")) as [E1|E1];
    try reflexivity; exfalso; apply H;
    cbn [upper map app unbs] in *; congruence.
Qed.

(* what one field text contributes: nothing when blank, else its repetitions *)
Definition field_group (prefix : str) (st : option structure) (fv : bool) (i : nat) (f : str) (g : list field) : Prop :=
  (is_blank f = true /\ g = []) \/
  (is_blank f = false /\
   parse_reps t TOLERANT e leaf (bsplit (rsep e) f) (Some (name_idx prefix i))
              (if has_map st then ref_in st (name_idx prefix i) else None) fv = Ok g).

Lemma parse_fields_aux_groups prefix st fv : no_msh prefix -> forall l gs,
  Forall2 (fun p g => field_group prefix st fv (fst p) (snd p) g) l gs ->
  parse_fields_aux t TOLERANT e leaf prefix st fv l = Ok (concat gs).
Proof.
  intros Hm. induction 1 as [|[i f] g l gs H _ IH]; [reflexivity|].
  cbn [parse_fields_aux fst snd] in *. destruct (Hm i) as [M2 M1]. rewrite M2, M1.
  destruct H as [[Hb ->]|[Hb Hp]]; rewrite Hb; cbn [negb].
  - cbn [bind]. rewrite IH. reflexivity.
  - rewrite Hp. cbn [bind]. rewrite IH. reflexivity.
Qed.

(* --- Segment.add for children named <SEG>_i --- *)

Definition upd (inf : bool) (cur : N) (i : nat) : N := if inf then N.max cur (N.of_nat i) else cur.

Lemma upd_idem inf cur i : upd inf (upd inf cur i) i = upd inf cur i.
Proof. unfold upd. destruct inf; [lia|reflexivity]. Qed.

Lemma name_idx3_nonempty sn i : length sn = 3 -> nonempty_name (Some (name_idx sn i)) = true.
Proof. destruct sn as [|a [|b [|c [|]]]]; try discriminate. reflexivity. Qed.

Lemma name_idx3_drop4 sn i : length sn = 3 -> drop 4 (name_idx sn i) = nat_to_str i.
Proof. intros H. replace 4 with (S (length sn)) by lia. apply name_idx_drop. Qed.

Lemma add_fields_step sn st inf la last ch x rest i : i <> 0 ->
  length sn = 3 -> f_name x = Some (name_idx sn i) ->
  (inf = true \/ opt_is_some (by_name st (name_idx sn i)) = true) ->
  add_fields t TOLERANT (mk_seg sn st inf la last ch) (x :: rest) =
  add_fields t TOLERANT (mk_seg sn st inf la (upd inf last i) (ch ++ [x])) rest.
Proof.
  intros Hi H3 Hx Hadm. cbn [add_fields]. rewrite Hx. cbn [s_st s_inf s_name s_last s_last_allowed s_children].
  rewrite valid_child_name_idx, streqb_refl, andb_true_r by exact Hi.
  assert (A : negb (opt_is_some (by_name st (name_idx sn i)) || opt_is_some (by_long st (name_idx sn i))) && negb inf = false).
  { destruct Hadm as [->| ->]; [now rewrite andb_false_r|reflexivity]. }
  rewrite A. rewrite name_idx_starts. cbn [negb]. rewrite card_ok_tolerant. cbn [negb].
  rewrite (name_idx3_nonempty sn i H3), (name_idx3_drop4 sn i H3).
  rewrite nat_to_str_py_int, nat_to_str_py_val. unfold upd.
  destruct inf; cbn [andb]; [|reflexivity].
  replace (if N.ltb last (N.of_nat i) then N.of_nat i else last) with (N.max last (N.of_nat i)); [reflexivity|].
  destruct (N.ltb_spec last (N.of_nat i)); lia.
Qed.

Lemma add_fields_group sn st inf la i : i <> 0 -> forall g last ch rest,
  length sn = 3 -> (forall x, In x g -> f_name x = Some (name_idx sn i)) ->
  (inf = true \/ opt_is_some (by_name st (name_idx sn i)) = true) ->
  add_fields t TOLERANT (mk_seg sn st inf la last ch) (g ++ rest) =
  add_fields t TOLERANT (mk_seg sn st inf la (if nilb g then last else upd inf last i) (ch ++ g)) rest.
Proof.
  intros Hi. induction g as [|x g IH]; intros last ch rest H3 Hg Hadm.
  - cbn [app nilb]. now rewrite app_nil_r.
  - cbn [app nilb]. rewrite (add_fields_step sn st inf la last ch x (g ++ rest) i Hi H3); auto.
    2:{ apply Hg. now left. }
    rewrite IH; auto. 2:{ intros y Hy. apply Hg. now right. }
    rewrite <- app_assoc. cbn [app]. rewrite upd_idem. now destruct g.
Qed.

(* the last index reached after adding groups numbered a, a+1, ... *)
Fixpoint last_idx (inf : bool) (a : nat) (gs : list (list field)) (cur : N) : N :=
  match gs with
  | [] => cur
  | g :: gs' => last_idx inf (S a) gs' (if nilb g then cur else upd inf cur a)
  end.

Fixpoint groups_named (sn : str) (a : nat) (gs : list (list field)) : Prop :=
  match gs with
  | [] => True
  | g :: gs' => (forall x, In x g -> f_name x = Some (name_idx sn a)) /\ groups_named sn (S a) gs'
  end.

Lemma add_fields_groups sn st inf la : forall gs a last ch, a <> 0 ->
  length sn = 3 -> groups_named sn a gs ->
  (inf = true \/ forall i, a <= i < a + length gs -> opt_is_some (by_name st (name_idx sn i)) = true) ->
  add_fields t TOLERANT (mk_seg sn st inf la last ch) (concat gs) =
  Ok (mk_seg sn st inf la (last_idx inf a gs last) (ch ++ concat gs)).
Proof.
  induction gs as [|g gs IH]; intros a last ch Ha H3 Hn Hadm.
  - cbn [concat add_fields last_idx]. now rewrite app_nil_r.
  - destruct Hn as [Hg Hn]. cbn [concat last_idx].
    rewrite (add_fields_group sn st inf la a Ha g last ch (concat gs) H3 Hg).
    2:{ destruct Hadm as [->|H]; [now left|right]. apply H. cbn [length]. lia. }
    rewrite (IH (S a)); auto.
    + now rewrite <- app_assoc.
    + destruct Hadm as [->|H]; [now left|right]. intros i Hi. apply H. cbn [length]. lia.
Qed.

Lemma last_idx_ge inf : forall gs a cur, (cur <= last_idx inf a gs cur)%N.
Proof.
  induction gs as [|g gs IH]; intros a cur; cbn [last_idx]; [lia|].
  specialize (IH (S a) (if nilb g then cur else upd inf cur a)).
  destruct (nilb g); [exact IH|]. unfold upd in *. destruct inf; lia.
Qed.

Lemma last_idx_not_inf : forall gs a cur, last_idx false a gs cur = cur.
Proof.
  induction gs as [|g gs IH]; intros a cur; cbn [last_idx]; [reflexivity|].
  rewrite IH. now destruct (nilb g).
Qed.

Lemma last_idx_reaches : forall gs a cur g, g <> [] ->
  (N.of_nat (a + length gs) <= last_idx true a (gs ++ [g]) cur)%N.
Proof.
  induction gs as [|g0 gs IH]; intros a cur g Hg.
  - cbn [app last_idx length]. destruct g; [congruence|]. cbn [nilb upd]. lia.
  - cbn [app last_idx length]. specialize (IH (S a) (if nilb g0 then cur else upd true cur a) g Hg). lia.
Qed.

(* --- Segment._get_children + to_er7 --- *)

Lemma enc_reps_all : forall g rs,
  Forall2 (fun x r => enc_field t e x = Ok r) g rs -> enc_reps t e g = Ok rs.
Proof.
  induction 1 as [|x r g rs H _ IH]; [reflexivity|]. cbn [enc_reps]. now rewrite H, IH.
Qed.

(* a field text and the group of repetitions it was parsed into *)
Definition group_enc (f : str) (g : list field) : Prop :=
  (f = [] /\ g = []) \/ (g <> [] /\ exists rs, enc_reps t e g = Ok rs /\ bjoin (rsep e) rs = f).

Lemma enc_seg_slots_groups : forall fs gs, Forall2 group_enc fs gs ->
  enc_seg_slots t e (map slot_of gs) = Ok fs.
Proof.
  induction 1 as [|f g fs gs H _ IH]; [reflexivity|].
  cbn [map enc_seg_slots]. rewrite IH.
  destruct H as [[-> ->]|[Hg [rs [Hr <-]]]]; [reflexivity|].
  destruct g; [congruence|]. cbn [slot_of]. now rewrite Hr.
Qed.

Lemma group_enc_no_trail fs gs : Forall2 group_enc fs gs -> no_trail fs -> no_trail gs.
Proof.
  intros H Hp l' E. subst gs. apply Forall2_app_inv_r in H.
  destruct H as [p1 [p2 [_ [H2 ->]]]]. inversion H2 as [|s g ps' gs' Hs Hn]; subst.
  inversion Hn; subst. destruct Hs as [[-> _]|[E _]]; [|congruence]. now apply (Hp p1).
Qed.

Lemma groups_named_ok sn : forall gs a K, groups_named sn a gs -> length gs <= K ->
  groups_ok f_name (map (name_idx sn) (seq a K)) gs.
Proof.
  induction gs as [|g gs IH]; intros a K Hn HK; [exact I|].
  destruct K as [|K]; [cbn in HK; lia|]. destruct Hn as [Hg Hn].
  cbn [seq map groups_ok]. split; [exact Hg|]. apply IH; [exact Hn|cbn in HK; lia].
Qed.

Lemma groups_named_in sn : forall gs a x, groups_named sn a gs -> In x (concat gs) ->
  exists i, f_name x = Some (name_idx sn i).
Proof.
  induction gs as [|g gs IH]; intros a x Hn Hx; [destruct Hx|].
  destruct Hn as [Hg Hn]. cbn [concat] in Hx. apply in_app_or in Hx. destruct Hx as [Hx|Hx].
  - exists a. now apply Hg.
  - now apply (IH (S a)).
Qed.

Lemma name_idx3_not_st sn i : length sn = 3 -> name_none_or_st (Some (name_idx sn i)) = false.
Proof.
  destruct sn as [|a [|b [|c [|]]]]; try discriminate. intros _.
  unfold name_none_or_st, opt_is_none, opt_eqb, name_idx. cbn [orb unbs app streqb leqb].
  now rewrite !andb_false_r.
Qed.

Lemma seg_slots_groups sn st (inf : bool) n last (gs : list (list field)) :
  length sn = 3 -> st_ordered st = Some (map (name_idx sn) (seq 1 n)) ->
  (N.of_nat n <= last)%N ->
  length gs <= (if inf then N.to_nat last else n) ->
  groups_named sn 1 gs -> no_trail gs ->
  seg_slots (mk_seg sn st inf (N.of_nat n) last (concat gs)) false = map slot_of gs.
Proof.
  intros H3 Ho Hl HK Hn Ht. unfold seg_slots.
  cbn [s_st s_inf s_name s_children s_last s_last_allowed]. rewrite Ho, Nat2N.id.
  rewrite (filter_nothing (fun c => name_none_or_st (f_name c))).
  2:{ intros x Hx. destruct (groups_named_in sn gs 1 x Hn Hx) as [i ->]. now apply name_idx3_not_st. }
  cbn [map]. rewrite app_nil_r.
  set (ch := concat gs).
  set (K := if inf then N.to_nat last else n) in *.
  assert (E : map (fun k => named f_name k ch) (map (name_idx sn) (seq 1 n)) ++
              (if inf then map (fun i => named f_name (name_idx sn i) ch) (seq (S n) (N.to_nat last - n)) else [])
              = map (fun k => named f_name k ch) (map (name_idx sn) (seq 1 K))).
  { subst K. destruct inf.
    - rewrite <- (map_map (name_idx sn) (fun k => named f_name k ch) (seq (S n) _)).
      rewrite <- map_app, <- map_app. do 2 f_equal.
      replace (N.to_nat last) with (n + (N.to_nat last - n)) at 2 by lia.
      now rewrite seq_app.
    - now rewrite app_nil_r. }
  rewrite E.
  pose proof (fill_by_name f_name (map (name_idx sn) (seq 1 K)) gs [] (name_idx_NoDup _ _ _)
                (groups_named_ok sn gs 1 K Hn HK)) as F. cbn [app] in F.
  subst ch. rewrite F by (intros x []).
  now apply trim_slots_canon.
Qed.

Lemma enc_segment_groups sn st (inf : bool) n last (gs : list (list field)) fs :
  length sn = 3 -> streqb sn (unbs "MSH") = false ->
  st_ordered st = Some (map (name_idx sn) (seq 1 n)) ->
  (N.of_nat n <= last)%N ->
  length gs <= (if inf then N.to_nat last else n) ->
  groups_named sn 1 gs -> Forall2 group_enc fs gs -> no_trail fs ->
  enc_segment t e (mk_seg sn st inf (N.of_nat n) last (concat gs)) false = Ok (bjoin (fsep e) (sn :: fs)).
Proof.
  intros H3 Hm Ho Hl HK Hn Hg Ht. unfold enc_segment.
  rewrite (seg_slots_groups sn st inf n last gs H3 Ho Hl HK Hn (group_enc_no_trail fs gs Hg Ht)).
  rewrite (enc_seg_slots_groups fs gs Hg). cbn [s_name]. rewrite Hm. reflexivity.
Qed.

End Core.
