(* Characterising lemmas for the parser / encoder pair, TOLERANT level, shared by the Z-segment
   slice (RoundTripZ.v) and the table-driven proofs (RoundTripSeg.v):
   - valid delimiter sets, leaves that the leaf encoder leaves alone;
   - the "unnamed" levels (children of a base-typed or untyped element): parse then encode is the
     identity on EVERY text whose leaves are fixed points (join . split = id);
   - VARIES_i components;
   - the generic field loop of a segment. *)
From Coq Require Import List Bool Arith ZArith NArith Lia Init.Byte.
From HL7 Require Import Lib.Str Model.Ec Model.Result Model.Ref Model.Tree Model.Parser Model.Encode.
From HL7 Require Import Proofs.SplitJoin Proofs.LevelCodec Proofs.RoundTripStr.
Import ListNotations.
Open Scope bs_scope.
Open Scope res_scope.

(* ------------------------------------------------------------------ *)
(* delimiter sets                                                       *)

(* the five delimiters are pairwise distinct, none is white space (CR is white space) *)
Definition ec_ok (e : ec) : Prop :=
  NoDup [fsep e; csep e; rsep e; ssep e; esc e] /\
  forall c, In c [fsep e; csep e; rsep e; ssep e; esc e] -> is_space c = false.

(* a text free of the four separators and of CR *)
Definition delim_free (e : ec) (s : str) : Prop :=
  bmem (fsep e) s = false /\ bmem (csep e) s = false /\ bmem (rsep e) s = false /\
  bmem (ssep e) s = false /\ bmem CR s = false.

Lemma indexed_snd {A} (l : list A) : map snd (indexed l) = l.
Proof.
  unfold indexed. generalize 1. induction l as [|x l IH]; intros n; [reflexivity|].
  cbn [length seq combine map snd]. now rewrite IH.
Qed.

Lemma indexed_fst {A} (l : list A) : map fst (indexed l) = seq 1 (length l).
Proof.
  unfold indexed. generalize 1. induction l as [|x l IH]; intros n; [reflexivity|].
  cbn [length seq combine map fst]. now rewrite IH.
Qed.

Section Core.
Variable t : tables.
Variable e : ec.
Variable leaf : option str -> str -> result str.

Notation base := (base t).

(* the leaf encoder (to_er7 of the datatype object built from s) gives back s *)
Definition leaf_fix (d : str) (s : str) : Prop := s = [] \/ leaf (Some d) s = Ok s.

(* ------------------------------------------------------------------ *)
(* subcomponents of a base-typed / untyped component: unnamed, datatype d *)

Definition st_sub (d : str) (s : str) : sub := mk_sub (Some d) (Some d) s s.

Lemma base_none : base None = false.
Proof. reflexivity. Qed.

Lemma mk_subcomponent_unnamed d s :
  base (Some d) = true -> is_varies (Some d) = false -> leaf_fix d s ->
  mk_subcomponent t TOLERANT leaf None (Some d) s None = Ok (st_sub d s).
Proof.
  intros Hb Hv Hs. unfold mk_subcomponent, canbevaries.
  rewrite Hv. cbn [andb negb is_strict]. rewrite Hb. cbn [andb negb bind valid_child_name st_dt].
  unfold set_datatype_ctor. rewrite Hb. cbn [andb negb is_strict bind].
  destruct Hs as [->|Hs]; [reflexivity|].
  destruct s; [reflexivity|]. rewrite Hs. reflexivity.
Qed.

Definition dflt_dt (cdt : option str) : str := match cdt with Some d => d | None => unbs "ST" end.

Lemma parse_subcomponents_aux_unnamed cdt st l :
  base cdt || opt_is_none cdt = true ->
  base (Some (dflt_dt cdt)) = true -> is_varies (Some (dflt_dt cdt)) = false ->
  Forall (fun p => leaf_fix (dflt_dt cdt) (snd p)) l ->
  parse_subcomponents_aux t TOLERANT leaf cdt st l = Ok (map (fun p => st_sub (dflt_dt cdt) (snd p)) l).
Proof.
  intros Hc Hb Hv. induction 1 as [|[i s] l Hs _ IH]; [reflexivity|].
  cbn [parse_subcomponents_aux]. rewrite Hc.
  assert (E : match cdt with Some d => Some d | None => Some (unbs "ST") end = Some (dflt_dt cdt))
    by (destruct cdt; reflexivity).
  rewrite E. unfold materialise. cbn [opt_is_none]. rewrite orb_true_r.
  cbn [snd] in Hs. rewrite (mk_subcomponent_unnamed _ _ Hb Hv Hs), IH. reflexivity.
Qed.

Definition subs_fix (d : str) (text : str) : Prop := Forall (leaf_fix d) (bsplit (ssep e) text).

Lemma parse_subcomponents_unnamed cdt st text :
  base cdt || opt_is_none cdt = true ->
  base (Some (dflt_dt cdt)) = true -> is_varies (Some (dflt_dt cdt)) = false ->
  subs_fix (dflt_dt cdt) text ->
  parse_subcomponents t TOLERANT e leaf text cdt st = Ok (map (st_sub (dflt_dt cdt)) (bsplit (ssep e) text)).
Proof.
  intros Hc Hb Hv Hs. unfold parse_subcomponents.
  rewrite parse_subcomponents_aux_unnamed; auto.
  - now rewrite <- map_map, indexed_snd.
  - unfold subs_fix in Hs. rewrite <- (indexed_snd (bsplit (ssep e) text)) in Hs.
    now rewrite Forall_map in Hs.
Qed.

(* admission of a base-typed child under a parent whose datatype is None or the same type *)
Lemma vcc_base_child pn pdt pst d kdt :
  base (Some d) = true -> (pdt = None \/ pdt = Some d) -> (kdt = None \/ kdt = Some d) ->
  valid_child_complex t TOLERANT pn pdt pst (Some d) kdt = Ok true.
Proof.
  intros Hb Hp Hk. unfold valid_child_complex. cbn [is_strict andb].
  rewrite !andb_false_r. rewrite Hb.
  destruct Hp as [->| ->].
  - rewrite base_none. cbn [negb andb opt_is_none orb nonempty_name].
    rewrite !andb_false_r.
    destruct (valid_child_name (Some d) (Some (unbs "varies"))); [reflexivity|].
    destruct (valid_child_name pn (Some (unbs "varies")) && opt_eqb (Some d) kdt); reflexivity.
  - rewrite Hb. cbn [negb andb].
    destruct Hk as [->| ->]; cbn [nonempty_name andb]; [reflexivity|].
    rewrite opt_eqb_some_refl. rewrite andb_false_r. reflexivity.
Qed.

Lemma card_ok_tolerant {A} (nm : A -> option str) st k have : card_ok TOLERANT nm st k have = true.
Proof. reflexivity. Qed.

Lemma add_subs_step d s ps c : base (Some d) = true ->
  (c_dt c = None \/ (c_dt c = Some d /\ c_children c = [])) ->
  add_subs t TOLERANT c (st_sub d s :: ps) =
  add_subs t TOLERANT (mk_comp (c_name c) (c_dt c) (c_st c) (c_children c ++ [st_sub d s])) ps.
Proof.
  intros Hb Hc. cbn [add_subs].
  assert (G : nonempty_name (c_name c) && base (c_dt c) && Nat.leb 1 (length (c_children c)) = false).
  { destruct Hc as [->|[_ ->]]; [rewrite base_none|]; cbn; now rewrite ?andb_false_r. }
  rewrite G. cbn [st_sub sc_name sc_dt]. rewrite opt_eqb_some_refl. cbn [negb andb].
  rewrite andb_false_r.
  rewrite (vcc_base_child _ (c_dt c) _ d (Some d) Hb); [reflexivity| |now right].
  destruct Hc as [->|[-> _]]; auto.
Qed.

Lemma add_subs_unnamed_none d : forall ps c, base (Some d) = true -> c_dt c = None ->
  add_subs t TOLERANT c (map (st_sub d) ps) =
  Ok (mk_comp (c_name c) (c_dt c) (c_st c) (c_children c ++ map (st_sub d) ps)).
Proof.
  induction ps as [|s ps IH]; intros c Hb Hc.
  - cbn [map add_subs]. rewrite app_nil_r. now destruct c.
  - cbn [map]. rewrite add_subs_step by auto. rewrite IH by auto.
    cbn [c_name c_dt c_st c_children]. now rewrite <- app_assoc.
Qed.

Lemma add_subs_unnamed_one d s c : base (Some d) = true -> c_dt c = Some d -> c_children c = [] ->
  add_subs t TOLERANT c [st_sub d s] = Ok (mk_comp (c_name c) (c_dt c) (c_st c) [st_sub d s]).
Proof.
  intros Hb Hc Hk. rewrite add_subs_step by auto. cbn [add_subs]. now rewrite Hk.
Qed.

(* ------------------------------------------------------------------ *)
(* components                                                           *)

Lemma mk_component_unnamed d : base (Some d) = true -> is_varies (Some d) = false ->
  mk_component t TOLERANT None (Some d) None = Ok (mk_comp (Some d) (Some d) None []).
Proof.
  intros Hb Hv. unfold mk_component, canbevaries.
  rewrite Hv. cbn [andb negb is_strict]. rewrite Hb. cbn [andb negb bind valid_child_name st_dt].
  unfold set_datatype_ctor. rewrite Hb. cbn [andb negb is_strict bind].
  rewrite andb_false_r. reflexivity.
Qed.

Lemma is_varies_none : is_varies None = false.
Proof. reflexivity. Qed.

Definition VARIES : str := unbs "VARIES".

Lemma mk_component_varies i :
  mk_component t TOLERANT (Some (name_idx VARIES i)) None None =
  Ok (mk_comp (Some (name_idx VARIES i)) None None []).
Proof.
  unfold mk_component, canbevaries. rewrite is_varies_none.
  cbn [andb negb is_strict bind].
  change (Some (unbs "VARIES")) with (Some VARIES).
  rewrite valid_child_name_idx, streqb_refl. cbn [bind option_map st_dt andb].
  rewrite name_idx_upper. change (upper VARIES) with VARIES.
  unfold name_idx at 1 2. cbn [VARIES unbs app bstarts starts_with beqb Byte.eqb].
  cbn [negb andb bind]. reflexivity.
Qed.

(* a base-typed component (name None, datatype d): every piece becomes an unnamed subcomponent *)
Definition unnamed_comp (d : str) (text : str) : comp :=
  let ps := bsplit (ssep e) text in
  mk_comp (Some d) (if Nat.ltb 1 (length ps) then None else Some d) None (map (st_sub d) ps).

Lemma parse_component_unnamed d text :
  base (Some d) = true -> is_varies (Some d) = false -> subs_fix d text ->
  parse_component t TOLERANT e leaf text None (Some d) None = Ok (unnamed_comp d text).
Proof.
  intros Hb Hv Hs. unfold parse_component. rewrite (mk_component_unnamed d Hb Hv). cbn [bind c_dt c_st].
  rewrite (parse_subcomponents_unnamed (Some d) None text); cbn [dflt_dt]; auto.
  2:{ now rewrite Hb. }
  cbn [bind is_strict negb andb]. rewrite Hb. cbn [andb]. rewrite map_length.
  unfold unnamed_comp. cbv zeta. unfold str.
  destruct (Nat.ltb 1 (length (bsplit (ssep e) text))) eqn:L.
  - rewrite add_subs_unnamed_none by auto. reflexivity.
  - destruct (bsplit (ssep e) text) as [|s [|s' r]] eqn:E.
    + exfalso. exact (bsplit_ne _ _ E).
    + cbn [map]. rewrite add_subs_unnamed_one by auto. reflexivity.
    + discriminate.
Qed.

Lemma enc_sub_st_sub d s : enc_sub (st_sub d s) = s.
Proof. reflexivity. Qed.

Lemma map_enc_st_sub d ps : map enc_sub (map (st_sub d) ps) = ps.
Proof. rewrite map_map. cbn [enc_sub st_sub sc_enc]. apply map_id. Qed.

Lemma enc_comp_unnamed d text : base (Some d) = true -> enc_comp t e (unnamed_comp d text) = text.
Proof.
  intros Hb. unfold enc_comp, unnamed_comp. cbv zeta. cbn [c_dt c_children].
  assert (base (if Nat.ltb 1 (length (bsplit (ssep e) text)) then None else Some d)
          || opt_is_none (if Nat.ltb 1 (length (bsplit (ssep e) text)) then None else Some d) = true) as ->.
  { destruct (Nat.ltb 1 _); [reflexivity|now rewrite Hb]. }
  rewrite enc_slots_all.
  - rewrite map_enc_st_sub. apply bjoin_bsplit.
  - intros H. apply map_eq_nil in H. exact (bsplit_ne _ _ H).
Qed.

(* a VARIES_i component *)
Definition varies_comp (i : nat) (text : str) : comp :=
  mk_comp (Some (name_idx VARIES i)) None None (map (st_sub (unbs "ST")) (bsplit (ssep e) text)).

Hypothesis Hst : base (Some (unbs "ST")) = true.

Lemma parse_component_varies i text :
  subs_fix (unbs "ST") text ->
  parse_component t TOLERANT e leaf text (Some (name_idx VARIES i)) None None = Ok (varies_comp i text).
Proof.
  intros Hs. unfold parse_component. rewrite mk_component_varies. cbn [bind c_dt c_st].
  rewrite (parse_subcomponents_unnamed None None text); cbn [dflt_dt]; auto.
  cbn [bind is_strict negb andb]. rewrite base_none. cbn [andb].
  rewrite add_subs_unnamed_none by auto. reflexivity.
Qed.

Lemma enc_comp_varies i text : enc_comp t e (varies_comp i text) = text.
Proof.
  unfold enc_comp, varies_comp. cbn [c_dt c_children opt_is_none]. rewrite orb_true_r.
  rewrite enc_slots_all.
  - rewrite map_enc_st_sub. apply bjoin_bsplit.
  - intros H. apply map_eq_nil in H. exact (bsplit_ne _ _ H).
Qed.

End Core.
