(* C11, second sentence: the first write through a chain of attribute reads materialises exactly the
   elements of the chain.  Part 1: what one promotion step (Element.set_parent_to_traversal) does. *)
From Coq Require Import List Bool Arith Lia ZArith NArith Init.Byte.
From HL7 Require Import Lib.Str Model.Ec Model.Result Model.Ref Model.Tree Model.Parser Model.Encode Model.Heap Model.HeapSpec.
From HL7 Require Import Proofs.HeapFacts Proofs.HeapInv Proofs.HeapOps Proofs.HeapAlloc Proofs.HeapSteps Proofs.HeapAtomic
                        Proofs.HeapRefine Proofs.HeapRead.
Import ListNotations.

(* ---------- frames: which nodes a computation may touch ---------- *)

(* every node except p is untouched, nothing is allocated *)
Definition only1 (s s' : store) (p : nat) : Prop :=
  s_next s' = s_next s /\ forall y, y <> p -> getn s' y = getn s y.
Lemma only1_refl s p : only1 s s p.
Proof. split; auto. Qed.
Lemma only1_setn s p N : only1 s (setn s p N) p.
Proof. split; [reflexivity|]. intros y Hy. now rewrite getn_setn_other. Qed.
Lemma only1_trans s1 s2 s3 p : only1 s1 s2 p -> only1 s2 s3 p -> only1 s1 s3 p.
Proof. intros [A B] [C D]. split; [congruence|]. intros y Hy. now rewrite D, B. Qed.

(* the back-pointers and the class-independent identity of p itself are kept by container updates *)
Definition keeps_ptrs (s s' : store) (p : nat) : Prop :=
  n_parent (getn s' p) = n_parent (getn s p) /\ n_tparent (getn s' p) = n_tparent (getn s p) /\
  n_name (getn s' p) = n_name (getn s p).

Section Promote.
Variable t : tables.

Lemma append_attached_frame p c s :
  only1 s (fst (append_attached p c s)) p /\ keeps_ptrs s (fst (append_attached p c s)) p.
Proof.
  unfold append_attached. cbn [mbind node_of lift].
  destruct (acceptance_checks _ _) as [[]|y]; [|split; [apply only1_refl|repeat split]].
  destruct (oid_eqb _ _).
  - unfold do_append, modify. cbn [fst]. split; [apply only1_setn|]. unfold keeps_ptrs. now rewrite getn_setn_same.
  - destruct (oid_eqb _ _).
    + unfold do_tappend, modify. cbn [fst]. split; [apply only1_setn|]. unfold keeps_ptrs. now rewrite getn_setn_same.
    + split; [apply only1_refl|repeat split].
Qed.

Lemma seg_counter_frame p c s :
  only1 s (fst (seg_counter p c s)) p /\ keeps_ptrs s (fst (seg_counter p c s)) p.
Proof.
  unfold seg_counter. cbn [mbind node_of].
  assert (R : only1 s s p /\ keeps_ptrs s s p) by (split; [apply only1_refl|repeat split]).
  destruct (n_cls (getn s p)); try exact R. destruct (n_name (getn s c)); try exact R.
  destruct (_ && _ && _); try exact R. destruct (py_int_ok _); try exact R.
  destruct (N.ltb _ _); try exact R.
  unfold set_last, modify. cbn [fst]. split; [apply only1_setn|]. unfold keeps_ptrs. now rewrite getn_setn_same.
Qed.

Lemma keeps_trans s1 s2 s3 p : keeps_ptrs s1 s2 p -> keeps_ptrs s2 s3 p -> keeps_ptrs s1 s3 p.
Proof. intros (A & B & C) (D & E & F). repeat split; congruence. Qed.

(* parent.add(child) for a child whose parent pointer already is the parent: only the parent's
   containers (and counter) change, whatever the outcome *)
Lemma add_pointed_frame p c s :
  n_parent (getn s c) = Some p ->
  only1 s (fst (add t p c s)) p /\ keeps_ptrs s (fst (add t p c s)) p.
Proof.
  intros Hp. assert (R : only1 s s p /\ keeps_ptrs s s p) by (split; [apply only1_refl|repeat split]).
  unfold add. cbn [mbind node_of lift].
  destruct (class_checks t _ _) as [[]|y]; [|exact R].
  rewrite mbind_run. unfold append. cbn [mbind node_of lift].
  destruct (is_valid_child t _ _) as [[]|y]; cbn [negb mbind node_of lift]; try exact R.
  unfold pointing. rewrite Hp. cbn [oid_eqb]. rewrite Nat.eqb_refl. cbn [orb negb].
  pose proof (append_attached_frame p c s) as [A1 A2].
  destruct (append_attached p c s) as [s1 [[]|y]]; cbn [fst] in *; [|split; auto].
  pose proof (seg_counter_frame p c s1) as [B1 B2].
  destruct (seg_counter p c s1) as [s2 [[]|y]]; cbn [fst] in *; split;
    try (eapply only1_trans; eauto); try (eapply keeps_trans; eauto).
Qed.

(* ... and when it succeeds the child is appended to the parent's list *)
Lemma add_pointed_ok p c s s' :
  n_parent (getn s c) = Some p -> add t p c s = (s', Ok tt) ->
  n_list (getn s' p) = n_list (getn s p) ++ [c].
Proof.
  intros Hp H. pose proof (add_ok t p c s s' H) as (E & _).
  unfold listing_add in E. rewrite Hp in E. cbn [oid_eqb] in E. rewrite Nat.eqb_refl in E. exact E.
Qed.

End Promote.

(* ---------- chains ---------- *)

Definition link (s : store) (p c : nat) : Prop := In c (n_list (getn s p)).
(* c is a traversal child of p, waiting to be promoted *)
Definition travc (s : store) (p c : nat) : Prop :=
  In c (members (n_tidx (getn s p))) /\ n_tparent (getn s c) = Some p /\ n_parent (getn s c) = None.

(* a chain written from the leaf upwards: l = [e_k; ...; e_1], the chain starts at x.  Its shape is
   always: traversal children below, listed children above *)
Fixpoint uplinks (s : store) (l : list nat) (x : nat) : Prop :=
  match l with [] => True | c :: r => link s (hd x r) c /\ uplinks s r x end.
Fixpoint upchain (s : store) (l : list nat) (x : nat) : Prop :=
  match l with
  | [] => True
  | c :: r => (travc s (hd x r) c /\ upchain s r x) \/ uplinks s l x
  end.

Lemma uplinks_upchain s l x : uplinks s l x -> upchain s l x.
Proof. destruct l; cbn; auto. Qed.

Lemma tidx_removed_cons_other k c k1 v1 m :
  opt_eqb k k1 = false -> tidx_removed k c ((k1, v1) :: m) = (k1, v1) :: tidx_removed k c m.
Proof.
  intros E. unfold tidx_removed. cbn [ihas iget]. rewrite E. cbn [orb].
  destruct (ihas k m && memb c (iget k m)); auto.
  destruct (remove1 c (iget k m)); cbn [idel iset]; now rewrite E.
Qed.

Lemma In_tidx_removed_other k c m d : In d (members m) -> d <> c -> In d (members (tidx_removed k c m)).
Proof.
  intros Hd Hc. induction m as [|[k1 v1] m IH]; [exact Hd|].
  unfold members in Hd. cbn [flat_map snd] in Hd. apply in_app_or in Hd.
  destruct (opt_eqb k k1) eqn:E.
  - unfold tidx_removed. cbn [ihas iget]. rewrite E. cbn [orb andb].
    destruct (memb c v1); [|unfold members; cbn [flat_map snd]; apply in_or_app; exact Hd].
    destruct (remove1 c v1) as [|a r] eqn:Er.
    + cbn [idel]. rewrite E. destruct Hd as [Hd|Hd]; [|exact Hd].
      exfalso. pose proof (In_remove1_other d c v1 Hc Hd) as H. rewrite Er in H. destruct H.
    + cbn [iset]. rewrite E. unfold members. cbn [flat_map snd]. apply in_or_app.
      destruct Hd as [Hd|Hd]; [left|right; exact Hd]. rewrite <- Er. now apply In_remove1_other.
  - rewrite tidx_removed_cons_other by exact E. unfold members. cbn [flat_map snd]. apply in_or_app.
    destruct Hd as [Hd|Hd]; [left; exact Hd|right; now apply IH].
Qed.

Section Promote2.
Variable t : tables.

Lemma add_pointed_tidx p c s s' :
  n_parent (getn s c) = Some p -> add t p c s = (s', Ok tt) ->
  n_tidx (getn s' p) = tidx_removed (n_name (getn s c)) c (n_tidx (getn s p)).
Proof.
  intros Hp. unfold add. cbn [mbind node_of lift].
  destruct (class_checks t _ _) as [[]|y]; [|discriminate].
  rewrite mbind_run. unfold append. cbn [mbind node_of lift].
  destruct (is_valid_child t _ _) as [[]|y]; cbn [negb mbind node_of lift]; try discriminate.
  unfold pointing. rewrite Hp. cbn [oid_eqb]. rewrite Nat.eqb_refl. cbn [orb negb].
  unfold append_attached. cbn [mbind node_of lift].
  destruct (acceptance_checks _ _) as [[]|y]; [|discriminate].
  rewrite Hp. cbn [oid_eqb]. rewrite Nat.eqb_refl. unfold do_append, modify.
  set (s1 := setn s p _).
  assert (E1 : n_tidx (getn s1 p) = tidx_removed (n_name (getn s c)) c (n_tidx (getn s p)))
    by (unfold s1; now rewrite getn_setn_same).
  clearbody s1. unfold seg_counter. cbn [mbind node_of].
  destruct (n_cls (getn s1 p)); try (intros [= <-]; exact E1).
  destruct (n_name (getn s1 c)); try (intros [= <-]; exact E1).
  destruct (_ && _ && _); try (intros [= <-]; exact E1).
  destruct (py_int_ok _); [|discriminate].
  destruct (N.ltb _ _); [|intros [= <-]; exact E1].
  unfold set_last, modify. intros [= <-]. rewrite getn_setn_same. exact E1.
Qed.

(* frame facts used to carry a chain across one promotion *)
Lemma hd_In_app (r : list nat) x : In (hd x r) (r ++ [x]).
Proof. destruct r; cbn; auto. Qed.

Lemma uplinks_mono s s' l x :
  (forall q d, In q (l ++ [x]) -> link s q d -> link s' q d) -> uplinks s l x -> uplinks s' l x.
Proof.
  induction l as [|c r IH]; intros M; cbn [uplinks]; auto. intros [A B]. split.
  - apply M; auto. right. apply hd_In_app.
  - apply IH; auto. intros q d Hq. apply M. now right.
Qed.

Lemma upchain_transport s s' l x :
  (forall q d, In q (l ++ [x]) -> link s q d -> link s' q d) ->
  (forall q d, In d l -> In q (l ++ [x]) -> travc s q d -> travc s' q d) ->
  upchain s l x -> upchain s' l x.
Proof.
  induction l as [|c r IH]; intros ML MT; cbn [upchain]; auto.
  intros [[A B]|B].
  - left. split.
    + apply MT; auto; [now left|right; apply hd_In_app].
    + apply IH; auto; [intros q d Hq; apply ML; now right|]. intros q d Hd Hq. apply MT; now right.
  - right. revert B. apply uplinks_mono. exact ML.
Qed.

(* what `promote` establishes *)
Record promoted (s s' : store) (l : list nat) (x : nat) : Prop := {
  pr_links : uplinks s' l x;
  pr_inv : Inv s';
  pr_next : s_next s' = s_next s;
  pr_frame : forall y, ~ In y (l ++ [x]) -> getn s' y = getn s y;
  pr_grow : forall q d, In d (n_list (getn s q)) -> In d (n_list (getn s' q));
  pr_only : forall q d, In d (n_list (getn s' q)) -> In d (n_list (getn s q)) \/ (In d l /\ In q (l ++ [x]));
  pr_names : forall y, n_name (getn s' y) = n_name (getn s y)
}.

Lemma K00 s : Inv s -> K Unone Unone s.
Proof. apply K_none. Qed.

(* Element.set_parent_to_traversal on the leaf of a chain whose lower part is waiting under traversal
   parents: every waiting element is appended to its predecessor, bottom-up, and nothing else changes *)
Lemma promote : forall fuel l x s s' c r,
  l = c :: r ->
  Inv s -> NoDup (l ++ [x]) -> (forall d, In d (l ++ [x]) -> d < s_next s) ->
  n_tparent (getn s x) = None ->
  upchain s l x ->
  to_traversal t fuel c s = (s', Ok tt) ->
  promoted s s' l x /\ n_tparent (getn s' c) = None.
Proof.
  induction fuel as [|f IH]; intros l x s s' c r El I ND Hb Hx Hc H; [discriminate|].
  subst l. cbn [to_traversal] in H. cbn [mbind node_of] in H. cbn [upchain] in Hc.
  assert (Hcb : c < s_next s) by (apply Hb; now left).
  destruct Hc as [[(Tm & Tt & Tp) Hr]|Hl].
  - (* c waits under p: it is promoted, then p's turn *)
    set (p := hd x r) in *. rewrite Tt, Tp in H. rewrite mbind_run in H.
    assert (Hu : unlisted s c) by (apply parent_none_unlisted; auto).
    pose proof (point_to_spec Unone Unone c p s (conj (K00 s I) (conj Hu Hcb))) as P1.
    unfold point_to, modify in H, P1. cbv beta iota in P1.
    set (s1 := setn s c (with_tparent (with_parent (getn s c) (Some p)) None)) in *.
    destruct P1 as (K1 & (Hu1 & Hb1 & Hp1) & Ht1). rewrite mbind_run in H.
    pose proof (add_spec t Unone Unone p c s1
                  (conj K1 (conj (fun F : Unone c => F) (conj Hu1 (conj Hb1 (or_introl Hp1)))))) as P2.
    pose proof (add_pointed_frame t p c s1 Hp1) as [F2 Kp2].
    destruct (add t p c s1) as [s2 [[]|y]] eqn:E2; [|discriminate]. cbn [fst] in F2, Kp2.
    pose proof (add_pointed_ok t p c s1 s2 Hp1 E2) as L2.
    pose proof (add_pointed_tidx p c s1 s2 Hp1 E2) as T2.
    pose proof (K_Inv _ _ _ P2) as I2.
    assert (Npc : p <> c).
    { intros E. apply NoDup_remove_2 with (l := []) in ND. cbn in ND. apply ND.
      destruct r as [|p' r']; cbn in p; subst p; rewrite E; [apply in_or_app; right; now left|now left]. }
    (* the two states: s1 differs from s at c only, s2 from s1 at p only *)
    assert (G1 : forall y, y <> c -> getn s1 y = getn s y) by (intros y Hy; unfold s1; now rewrite getn_setn_other).
    assert (Lp : n_list (getn s2 p) = n_list (getn s p) ++ [c]) by (rewrite L2, G1; auto).
    assert (Gy : forall y, y <> c -> y <> p -> getn s2 y = getn s y).
    { intros y Hy1 Hy2. destruct F2 as [_ F2]. rewrite F2 by auto. now apply G1. }
    assert (Gc : getn s2 c = getn s1 c) by (destruct F2 as [_ F2]; apply F2; auto).
    assert (Nx2 : s_next s2 = s_next s) by (destruct F2 as [-> _]; reflexivity).
    assert (Lmono : forall q d, In d (n_list (getn s q)) -> In d (n_list (getn s2 q))).
    { intros q d Hd. destruct (Nat.eq_dec q p) as [->|Nq]; [rewrite Lp; apply in_or_app; now left|].
      destruct (Nat.eq_dec q c) as [->|Nc]; [rewrite Gc; unfold s1; rewrite getn_setn_same; exact Hd|].
      now rewrite Gy. }
    assert (Lonly : forall q d, In d (n_list (getn s2 q)) -> In d (n_list (getn s q)) \/ (d = c /\ q = p)).
    { intros q d Hd. destruct (Nat.eq_dec q p) as [->|Nq].
      - rewrite Lp in Hd. apply in_app_or in Hd. destruct Hd as [Hd|[<-|[]]]; auto.
      - destruct (Nat.eq_dec q c) as [->|Nc]; [rewrite Gc in Hd; unfold s1 in Hd; rewrite getn_setn_same in Hd; now left|].
        rewrite Gy in Hd by auto. now left. }
    assert (Names : forall y, n_name (getn s2 y) = n_name (getn s y)).
    { intros y. destruct (Nat.eq_dec y p) as [->|Ny]; [destruct Kp2 as (_ & _ & ->); rewrite G1; auto|].
      destruct (Nat.eq_dec y c) as [->|Nyc]; [rewrite Gc; unfold s1; now rewrite getn_setn_same|now rewrite Gy]. }
    destruct r as [|p' r'].
    + (* p is the element the chain starts from: it is not waiting *)
      cbn in p. subst p. destruct f as [|f]; [discriminate|]. cbn [to_traversal mbind node_of] in H.
      assert (Hx2 : n_tparent (getn s2 x) = None).
      { destruct Kp2 as (_ & -> & _). rewrite G1; auto. }
      rewrite Hx2 in H. unfold set_tparent_raw, modify in H. injection H as <-.
      pose proof (set_tparent_none_spec Unone Unone x s2 P2) as P3. unfold set_tparent_raw, modify in P3. cbv beta iota in P3.
      set (s3 := setn s2 x (with_tparent (getn s2 x) None)) in *.
      assert (L3 : forall q, n_list (getn s3 q) = n_list (getn s2 q)) by (intros q; unfold s3; now apply list_setn_same).
      split; [constructor|].
      * cbn. split; auto. unfold link. rewrite L3, Lp. apply in_or_app. right. now left.
      * apply (K_Inv _ _ _ P3).
      * exact Nx2.
      * intros y Hy. cbn in Hy. unfold s3. rewrite getn_setn_other by (intros ->; tauto). apply Gy; intros ->; tauto.
      * intros q d Hd. rewrite L3. now apply Lmono.
      * intros q d Hd. rewrite L3 in Hd. destruct (Lonly q d Hd) as [?|[-> ->]]; auto. right. cbn. auto.
      * intros y. unfold s3. rewrite getn_setn. destruct (Nat.eqb_spec y x) as [->|]; [cbn; apply Names|apply Names].
      * unfold s3. rewrite getn_setn_other by auto. rewrite Gc. exact Ht1.
    + (* p is itself an element of the chain *)
      cbn in p. subst p. rename p' into p.
      assert (ND' : NoDup ((p :: r') ++ [x])) by (cbn in ND; now inversion ND).
      assert (Hb' : forall d, In d ((p :: r') ++ [x]) -> d < s_next s2) by (intros d Hd; rewrite Nx2; apply Hb; now right).
      assert (Ncr : ~ In c ((p :: r') ++ [x])) by (cbn in ND; now inversion ND).
      assert (Hx2 : n_tparent (getn s2 x) = None).
      { rewrite Gy; auto; intros E; apply Ncr; rewrite <- E; cbn.
        - right. apply in_or_app. right. now left.
        - cbn in ND'. inversion ND' as [|? ? Hn _]. exfalso. apply Hn. rewrite E. apply in_or_app. right. now left. }
      (* the rest of the chain is as it was *)
      assert (Hr2 : upchain s2 (p :: r') x).
      { revert Hr. apply upchain_transport; [intros q d _; apply Lmono|].
        intros q d Hd Hq (A & B & C).
        assert (Hdc : d <> c) by (intros ->; apply Ncr; apply in_or_app; now left).
        assert (Hqc : q <> c) by (intros ->; now apply Ncr).
        assert (Ptr : n_tparent (getn s2 d) = n_tparent (getn s d) /\ n_parent (getn s2 d) = n_parent (getn s d)).
        { destruct (Nat.eq_dec d p) as [->|Nd]; [|rewrite Gy by auto; auto].
          destruct Kp2 as (K1' & K2' & _). rewrite K1', K2'. rewrite G1 by auto. auto. }
        destruct Ptr as [P1 P2']. unfold travc. rewrite P1, P2'. refine (conj _ (conj B C)).
        destruct (Nat.eq_dec q p) as [->|Nq]; [|rewrite Gy by auto; exact A].
        rewrite T2. apply In_tidx_removed_other; auto. rewrite G1 by auto. exact A. }
      destruct (IH (p :: r') x s2 s' p r' eq_refl I2 ND' Hb' Hx2 Hr2 H) as [[Q1 Q2 Q3 Q4 Q5 Q6 Q7] Q8].
      assert (Gc' : getn s' c = getn s1 c) by (rewrite Q4 by exact Ncr; exact Gc).
      split; [constructor|].
      * cbn [uplinks hd]. split; [|exact Q1]. apply Q5. rewrite Lp. apply in_or_app. right. now left.
      * exact Q2.
      * now rewrite Q3.
      * intros y Hy. rewrite Q4 by (intros F; apply Hy; now right).
        apply Gy; intros ->; apply Hy; [now left|right; now left].
      * intros q d Hd. apply Q5. now apply Lmono.
      * intros q d Hd. destruct (Q6 q d Hd) as [Hd'|[A B]].
        -- destruct (Lonly q d Hd') as [?|[-> ->]]; auto. right. split; [now left|right; now left].
        -- right. split; now right.
      * intros y. now rewrite Q7.
      * rewrite Gc'. exact Ht1.
  - (* c is already listed: only its traversal parent is cleared *)
    assert (Pc : n_parent (getn s c) = Some (hd x r)) by (destruct Hl as [Hl _]; apply (I_parent s I); exact Hl).
    rewrite Pc in H.
    assert (H' : set_tparent_raw c None s = (s', Ok tt)) by (destruct (n_tparent (getn s c)); exact H).
    clear H. unfold set_tparent_raw, modify in H'. injection H' as <-.
    pose proof (set_tparent_none_spec Unone Unone c s (K00 s I)) as P3. unfold set_tparent_raw, modify in P3. cbv beta iota in P3.
    set (s3 := setn s c (with_tparent (getn s c) None)) in *.
    assert (L3 : forall q, n_list (getn s3 q) = n_list (getn s q)) by (intros q; unfold s3; now apply list_setn_same).
    split; [constructor|].
    * revert Hl. apply uplinks_mono. intros q d _. unfold link. now rewrite L3.
    * apply (K_Inv _ _ _ P3).
    * reflexivity.
    * intros y Hy. unfold s3. rewrite getn_setn_other; auto. intros ->. apply Hy. now left.
    * intros q d. now rewrite L3.
    * intros q d. rewrite L3. auto.
    * intros y. unfold s3. rewrite getn_setn. destruct (Nat.eqb_spec y c) as [->|]; reflexivity.
    * unfold s3. now rewrite getn_setn_same.
Qed.

End Promote2.
