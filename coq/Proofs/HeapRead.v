(* C11: navigation (attribute reads, lazy creation under a traversal parent, .value reads) changes no
   visible part of any allocated element, whether it ends normally or raises. *)
From Coq Require Import List Bool Arith Lia ZArith NArith Init.Byte.
From HL7 Require Import Lib.Str Model.Ec Model.Result Model.Ref Model.Tree Model.Parser Model.Encode Model.Heap Model.HeapSpec.
From HL7 Require Import Proofs.HeapFacts Proofs.HeapInv Proofs.HeapAtomic.
Import ListNotations.

(* the visible part of every element allocated in s is the same in s'; nothing is deallocated *)
Definition vis_below (s s' : store) : Prop :=
  s_next s <= s_next s' /\ forall q, q < s_next s -> vis (getn s' q) = vis (getn s q).

Lemma vis_below_refl s : vis_below s s.
Proof. split; auto. Qed.
Lemma vis_below_trans s1 s2 s3 : vis_below s1 s2 -> vis_below s2 s3 -> vis_below s1 s3.
Proof. intros [A B] [C D]. split; [lia|]. intros q Hq. rewrite D by lia. now apply B. Qed.
Lemma vis_eq_below s s' : vis_eq s s' -> s_next s = s_next s' -> vis_below s s'.
Proof. intros V E. split; [lia|]. intros q _. apply V. Qed.

(* a purely "invisible" computation: whatever the outcome, vis_below *)
Definition quiet {A} (m : M A) : Prop := forall s, vis_below s (fst (m s)).

Lemma quiet_ret {A} (a : A) : quiet (ret a).
Proof. intros s. apply vis_below_refl. Qed.
Lemma quiet_raise {A} x : quiet (@raise A x).
Proof. intros s. apply vis_below_refl. Qed.
Lemma quiet_lift {A} (r : result A) : quiet (lift r).
Proof. intros s. apply vis_below_refl. Qed.
Lemma quiet_node_of i : quiet (node_of i).
Proof. intros s. apply vis_below_refl. Qed.
Lemma quiet_bind {A B} (m : M A) (f : A -> M B) : quiet m -> (forall a, quiet (f a)) -> quiet (mbind m f).
Proof.
  intros Hm Hf s. unfold mbind. specialize (Hm s). destruct (m s) as [s1 [a|x]]; cbn [fst] in *; auto.
  eapply vis_below_trans; [exact Hm|apply Hf].
Qed.
Lemma quiet_catch {A} (m : M A) p (h : M A) : quiet m -> quiet h -> quiet (mcatch m p h).
Proof.
  intros Hm Hh s. unfold mcatch. specialize (Hm s). destruct (m s) as [s1 [a|x]]; cbn [fst] in *; auto.
  destruct (p x); cbn [fst]; auto. eapply vis_below_trans; [exact Hm|apply Hh].
Qed.
Lemma quiet_state {A} (f : store -> result A) : quiet (fun s => (s, f s)).
Proof. intros s. apply vis_below_refl. Qed.

Lemma quiet_modify_vis (f : store -> store) :
  (forall s, vis_eq s (f s) /\ s_next (f s) = s_next s) -> quiet (modify f).
Proof. intros H s. cbn. destruct (H s). apply vis_eq_below; auto. Qed.

Lemma quiet_alloc n : quiet (alloc n).
Proof.
  intros s. cbn. split; [cbn; lia|]. intros q Hq. unfold getn. cbn. unfold upd.
  destruct (Nat.eqb_spec q (s_next s)); [lia|reflexivity].
Qed.

Lemma vis_setn_invisible s x N : vis N = vis (getn s x) -> vis_eq s (setn s x N) /\ s_next (setn s x N) = s_next s.
Proof. intros E. split; [now apply vis_eq_pointers|reflexivity]. Qed.

Lemma quiet_set_tparent c x : quiet (set_tparent_raw c x).
Proof. apply quiet_modify_vis. intros s. now apply vis_setn_invisible. Qed.
Lemma quiet_tappend p c : quiet (do_tappend p c).
Proof. apply quiet_modify_vis. intros s. now apply vis_setn_invisible. Qed.

Section Read.
Variable t : tables.
Variable e : ec.
Variable le : level -> option str -> str -> result str.
Variable x : bool.

(* adding a child that points at p through its TRAVERSAL parent only indexes it *)
Lemma add_traversal_quiet p c s :
  n_parent (getn s c) = None -> n_tparent (getn s c) = Some p -> vis_below s (fst (add t p c s)).
Proof.
  intros Hp Ht. unfold add. cbn [mbind node_of lift].
  destruct (class_checks t _ _) as [[]|y]; [|apply vis_below_refl].
  rewrite mbind_run. unfold append. cbn [mbind node_of lift].
  destruct (is_valid_child t _ _) as [[]|y]; cbn [negb mbind node_of lift]; try apply vis_below_refl.
  unfold pointing. rewrite Hp, Ht. cbn [oid_eqb orb negb]. rewrite Nat.eqb_refl. cbn [orb negb].
  unfold append_attached. cbn [mbind node_of lift].
  destruct (acceptance_checks _ _) as [[]|y]; [|apply vis_below_refl].
  rewrite Hp, Ht. cbn [oid_eqb]. rewrite Nat.eqb_refl.
  unfold do_tappend, modify. cbn [fst snd].
  (* the segment counter looks at the parent pointer, which is still None *)
  unfold seg_counter. cbn [mbind node_of].
  set (s1 := setn s p _).
  assert (V : vis_below s s1) by (apply vis_eq_below; [apply vis_eq_pointers|]; reflexivity).
  assert (Hp1 : n_parent (getn s1 c) = None).
  { unfold s1. rewrite getn_setn. destruct (Nat.eqb_spec c p) as [->|]; auto. }
  destruct (n_cls (getn s1 p)); try exact V.
  destruct (n_name (getn s1 c)); try exact V.
  rewrite Hp1. cbn [oid_eqb]. rewrite andb_false_r. exact V.
Qed.

(* ElementList.create_element(name, traversal_parent=True) *)
Lemma create_traversal_quiet p name ref : quiet (create_element t le x p name true ref).
Proof.
  intros s. unfold create_element. cbn [mbind node_of].
  set (r0 := match ref with Some r => ret r | None => lift (fcr t (getn s p) name) end).
  assert (Hr0 : exists r, r0 s = (s, r)).
  { unfold r0. destruct ref; [eexists; reflexivity|]. unfold lift. eexists; reflexivity. }
  destruct Hr0 as [r Hr0]. rewrite mbind_run, Hr0. destruct r as [[cname cref]|y]; [|apply vis_below_refl].
  cbn [mbind lift]. destruct (ctor_node t le (getn s p) cname cref) as [nd|y] eqn:Ec; [|apply vis_below_refl].
  assert (Hnd : n_parent nd = None).
  { revert Ec. unfold ctor_node. destruct (n_cls (getn s p)).
    - destruct (mk_field _ _ _ _ _); intros [= <-]; reflexivity.
    - destruct (mk_component _ _ _ _ _); intros [= <-]; reflexivity.
    - destruct (mk_subcomponent _ _ _ _ _ _ _); intros [= <-]; reflexivity.
    - discriminate. }
  rewrite mbind_run. unfold alloc at 1.
  set (c := s_next s). set (nd' := with_name nd _).
  set (s1 := mk_store (upd (s_heap s) c nd') (S c)).
  assert (V1 : vis_below s s1) by apply (quiet_alloc nd' s).
  rewrite mbind_run. rewrite mbind_run. unfold set_tparent_raw at 1, modify at 1.
  set (s2 := setn s1 c _).
  assert (V2 : vis_below s s2).
  { eapply vis_below_trans; [exact V1|]. apply vis_eq_below; [apply vis_eq_pointers|]; reflexivity. }
  assert (Hc : getn s1 c = nd') by (unfold s1, getn; cbn; unfold upd; now rewrite Nat.eqb_refl).
  pose proof (add_traversal_quiet p c s2) as Ha.
  assert (Hp2 : n_parent (getn s2 c) = None) by (unfold s2; rewrite getn_setn_same, Hc; exact Hnd).
  assert (Ht2 : n_tparent (getn s2 c) = Some p) by (unfold s2; now rewrite getn_setn_same).
  specialize (Ha Hp2 Ht2). destruct (add t p c s2) as [s3 [[]|y]]; cbn [fst] in *.
  - assert (V3 : vis_below s s3) by (eapply vis_below_trans; eauto).
    rewrite mbind_run.
    match goal with |- context [(if ?b then ?m1 else ret tt) s3] => destruct b end.
    + destruct x.
      * unfold set_name, modify, ret. cbv beta iota. cbn [fst].
        (* the late name goes to the new element, which is not among those allocated in s *)
        destruct V3 as [N3 F3]. split; [exact N3|]. intros q Hq.
        rewrite getn_setn. destruct (Nat.eqb_spec q c) as [->|]; [unfold c in Hq; lia|]. now apply F3.
      * exact V3.
    + exact V3.
  - eapply vis_below_trans; eauto.
Qed.

Lemma proxy_element_quiet p pn : quiet (proxy_element t le x p pn).
Proof.
  intros s. unfold proxy_element. cbn [mbind node_of].
  destruct (iget (Some pn) (n_idx (getn s p))); [|apply vis_below_refl].
  destruct (iget (Some pn) (n_tidx (getn s p))); [|apply vis_below_refl].
  apply create_traversal_quiet.
Qed.

Lemma get_proxy_quiet y name : quiet (get_proxy t le x y name).
Proof.
  intros s. unfold get_proxy. cbn [mbind node_of].
  destruct (n_cls (getn s y)).
  - apply quiet_bind; [apply quiet_lift|intros; apply quiet_ret].
  - apply quiet_catch.
    + apply quiet_bind; [apply quiet_lift|intros; apply quiet_ret].
    + apply quiet_bind; [apply quiet_lift|]. intros [cn sub].
      apply quiet_bind; [apply quiet_node_of|]. intros X.
      apply quiet_bind; [apply quiet_lift|]. intros pn.
      destruct sub as [k|]; [|apply quiet_ret].
      apply quiet_bind; [apply quiet_lift|]. intros cdt.
      apply quiet_bind; [apply proxy_element_quiet|]. intros c.
      apply quiet_bind; [apply quiet_node_of|]. intros C.
      apply quiet_catch; [|apply quiet_raise].
      apply quiet_bind; [apply quiet_lift|intros; apply quiet_ret].
  - apply quiet_bind; [apply quiet_lift|intros; apply quiet_ret].
  - apply quiet_bind; [apply quiet_lift|intros; apply quiet_ret].
Qed.

Lemma walk_quiet names : forall pr, quiet (walk t le x pr names).
Proof.
  induction names as [|n names IH]; intros pr; cbn [walk]; [apply quiet_ret|].
  apply quiet_bind; [|intros; apply IH]. unfold step_proxy.
  apply quiet_bind; [apply proxy_element_quiet|intros; apply get_proxy_quiet].
Qed.

Theorem read_chain_quiet y names : quiet (read_chain t le x y names).
Proof.
  destruct names as [|n names]; cbn [read_chain]; [apply quiet_raise|].
  apply quiet_bind; [apply get_proxy_quiet|intros; apply walk_quiet].
Qed.

Theorem read_value_quiet y names : quiet (read_value t e le x y names).
Proof.
  unfold read_value. apply quiet_bind; [apply read_chain_quiet|]. intros pr.
  apply quiet_bind; [apply proxy_element_quiet|]. intros el. apply quiet_state.
Qed.

End Read.

(* what stays the same for an element allocated before the read: its children, their names *)
Lemma abs_below s s' p : Inv s -> vis_below s s' -> p < s_next s -> abs s' p = abs s p.
Proof.
  intros I [_ V] Hp. unfold abs.
  destruct (vis_fields _ _ (V p Hp)) as (_ & _ & El & _). rewrite El.
  apply map_ext_in. intros c Hc. pose proof (I_bound s I p c Hc) as Hb.
  now destruct (vis_fields _ _ (V c Hb)) as (_ & -> & _).
Qed.

(* ---------- the encoding of an allocated element is not changed by a quiet computation ---------- *)

Definition slot_members (sl : list (slot nat)) : list nat :=
  flat_map (fun s => match s with Some l => l | None => [] end) sl.

Lemma enc_slots_ext_in (f g : nat -> str) sep sl :
  (forall c, In c (slot_members sl) -> f c = g c) -> enc_slots f sep sl = enc_slots g sep sl.
Proof.
  intros H. unfold enc_slots. f_equal. unfold slot_members in H. induction sl as [|[[|c r]|] sl IH]; cbn; auto.
  - f_equal. apply IH. intros d Hd. apply H. cbn. exact Hd.
  - f_equal; [apply H; cbn; auto|]. rewrite (map_ext_in f g r).
    + f_equal. apply IH. intros d Hd. apply H. cbn. right. apply in_or_app. auto.
    + intros d Hd. apply H. cbn. right. apply in_or_app. auto.
  - f_equal. apply IH. intros d Hd. apply H. cbn. exact Hd.
Qed.

Lemma members_remove_trailing (sl : list (slot nat)) c :
  In c (slot_members (remove_trailing slot_empty sl)) -> In c (slot_members sl).
Proof.
  unfold remove_trailing. intros H. unfold slot_members in *. apply in_flat_map in H. destruct H as (x & Hx & Hc).
  apply in_flat_map. exists x. split; auto. apply in_rev in Hx.
  assert (G : forall (l : list (slot nat)) y, In y (lstrip_by slot_empty l) -> In y l).
  { induction l as [|a l IH]; cbn; auto. intros y. destruct (slot_empty a); auto. }
  apply G in Hx. now apply in_rev.
Qed.

Section Below.
Variable t : tables.
Variable e : ec.

Lemma idx_slot_members s p (ks : list str) c :
  Inv s -> In c (slot_members (map (idx_slot (n_idx (getn s p))) ks)) -> In c (n_list (getn s p)).
Proof.
  intros I H. unfold slot_members in H. apply in_flat_map in H. destruct H as (x & Hx & Hc).
  apply in_map_iff in Hx. destruct Hx as (k & <- & _). unfold idx_slot in Hc.
  destruct (iget (Some k) (n_idx (getn s p))) eqn:E; [destruct Hc|]. rewrite <- E in Hc.
  rewrite (I_index s I) in Hc. apply filter_In in Hc. tauto.
Qed.
Lemma singles_members (l : list nat) c : In c (slot_members (map (fun d => Some [d]) l)) -> In c l.
Proof.
  unfold slot_members. intros H. apply in_flat_map in H. destruct H as (x & Hx & Hc).
  apply in_map_iff in Hx. destruct Hx as (d & <- & Hd). destruct Hc as [<-|[]]. exact Hd.
Qed.
Lemma members_app (a b : list (slot nat)) c : In c (slot_members (a ++ b)) -> In c (slot_members a) \/ In c (slot_members b).
Proof. unfold slot_members. rewrite flat_map_app. apply in_app_or. Qed.

Lemma generic_members s p c : Inv s -> In c (slot_members (generic_slots_h s (getn s p))) -> In c (n_list (getn s p)).
Proof.
  intros I H. unfold generic_slots_h in H. apply members_remove_trailing in H. apply members_app in H.
  destruct H as [H|H]; [eapply idx_slot_members; eauto|]. apply singles_members in H. apply filter_In in H. tauto.
Qed.

Variables s s' : store.
Hypothesis I : Inv s.
Hypothesis V : vis_below s s'.

Lemma below_node q : q < s_next s -> vis (getn s' q) = vis (getn s q).
Proof. apply V. Qed.
Lemma below_child p c : In c (n_list (getn s p)) -> c < s_next s.
Proof. apply (I_bound s I). Qed.

Lemma filter_names_below (f : option str -> bool) p :
  filter (fun c => f (n_name (getn s' c))) (n_list (getn s p)) = filter (fun c => f (n_name (getn s c))) (n_list (getn s p)).
Proof.
  apply filter_ext_in. intros c Hc. now destruct (vis_fields _ _ (below_node c (below_child p c Hc))) as (_ & -> & _).
Qed.

Lemma generic_slots_below p : p < s_next s -> generic_slots_h s' (getn s' p) = generic_slots_h s (getn s p).
Proof.
  intros Hp. unfold generic_slots_h. destruct (vis_fields _ _ (below_node p Hp)) as (_&_&->&->&->&_).
  now rewrite (filter_names_below name_none_or_st).
Qed.

Lemma enc_sub_below c : c < s_next s -> enc_sub_h s' c = enc_sub_h s c.
Proof. intros Hc. unfold enc_sub_h. now destruct (vis_fields _ _ (below_node c Hc)) as (_&_&_&_&_&_&->&_). Qed.

Lemma enc_comp_below c : c < s_next s -> enc_comp_h t e s' c = enc_comp_h t e s c.
Proof.
  intros Hc. unfold enc_comp_h. destruct (vis_fields _ _ (below_node c Hc)) as (_&_&El&_&_&Ed&_).
  rewrite Ed, El, (generic_slots_below c Hc).
  destruct (_ || _); apply enc_slots_ext_in; intros d Hd; apply enc_sub_below.
  - cbn in Hd. rewrite app_nil_r in Hd. eapply below_child; eauto.
  - eapply below_child. eapply generic_members; eauto.
Qed.

Lemma varies_slots_below p : p < s_next s -> varies_slots_h s' (getn s' p) = varies_slots_h s (getn s p).
Proof.
  intros Hp. unfold varies_slots_h. destruct (vis_fields _ _ (below_node p Hp)) as (_&_&->&->&_). f_equal. f_equal.
  apply filter_ext_in. intros c Hc. apply unknown_vis. apply below_node. eapply below_child; eauto.
Qed.
Lemma varies_members p c : In c (slot_members (varies_slots_h s (getn s p))) -> In c (n_list (getn s p)).
Proof.
  unfold varies_slots_h. intros H. apply members_app in H. destruct H as [H|H].
  - apply members_remove_trailing in H. rewrite <- map_map in H. eapply idx_slot_members; eauto.
  - apply singles_members in H. apply filter_In in H. tauto.
Qed.

Lemma enc_field_below c : c < s_next s -> enc_field_h t e s' c = enc_field_h t e s c.
Proof.
  intros Hc. unfold enc_field_h. destruct (vis_fields _ _ (below_node c Hc)) as (_&_&El&_&_&Ed&_).
  rewrite Ed, El, (generic_slots_below c Hc), (varies_slots_below c Hc).
  destruct (is_varies _); [|destruct (_ || _)]; apply enc_slots_ext_in; intros d Hd; apply enc_comp_below.
  - eapply below_child. eapply varies_members; eauto.
  - cbn in Hd. rewrite app_nil_r in Hd. eapply below_child; eauto.
  - eapply below_child. eapply generic_members; eauto.
Qed.

Lemma seg_slots_below p b : p < s_next s -> seg_slots_h s' (getn s' p) b = seg_slots_h s (getn s p) b.
Proof.
  intros Hp. unfold seg_slots_h. destruct (vis_fields _ _ (below_node p Hp)) as (_&->&->&->&->&_&_&->&->&->).
  now rewrite (filter_names_below name_none_or_st).
Qed.
Lemma seg_members p b c : In c (slot_members (seg_slots_h s (getn s p) b)) -> In c (n_list (getn s p)).
Proof.
  unfold seg_slots_h. intros H.
  assert (G : In c (slot_members (map (idx_slot (n_idx (getn s p))) (st_ordered_of (n_st (getn s p))) ++
                 (if n_inf (getn s p) then map (fun i => idx_slot (n_idx (getn s p)) (name_idx (str_of_opt (n_name (getn s p))) i))
                        (seq (S (N.to_nat (n_last_allowed (getn s p)))) (N.to_nat (n_last (getn s p)) - N.to_nat (n_last_allowed (getn s p)))) else []) ++
                 map (fun d => Some [d]) (filter (fun d => name_none_or_st (n_name (getn s d))) (n_list (getn s p)))))).
  { destruct b; auto. now apply members_remove_trailing. }
  apply members_app in G. destruct G as [G|G]; [eapply idx_slot_members; eauto|].
  apply members_app in G. destruct G as [G|G].
  - destruct (n_inf (getn s p)); [|destruct G]. rewrite <- map_map in G. eapply idx_slot_members; eauto.
  - apply singles_members in G. apply filter_In in G. tauto.
Qed.

Theorem to_er7_below x b : x < s_next s -> to_er7 t e s' x b = to_er7 t e s x b.
Proof.
  intros Hx. unfold to_er7. destruct (vis_fields _ _ (below_node x Hx)) as (->&En&_).
  destruct (n_cls (getn s x)).
  - unfold enc_seg_h. rewrite (seg_slots_below x b Hx), En. f_equal. f_equal.
    pose proof (seg_members x b) as M. induction (seg_slots_h s (getn s x) b) as [|[reps|] sl IH]; cbn; auto.
    + f_equal.
      * f_equal. apply map_ext_in. intros d Hd. apply enc_field_below. eapply below_child. apply M. cbn.
        apply in_or_app. now left.
      * apply IH. intros d Hd. apply M. cbn. apply in_or_app. now right.
    + f_equal. apply IH. intros d Hd. apply M. exact Hd.
  - now apply enc_field_below.
  - now apply enc_comp_below.
  - now apply enc_sub_below.
Qed.

End Below.
