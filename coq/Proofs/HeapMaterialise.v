(* C11, second sentence: assigning a value at the end of a chain of missing elements creates the
   elements of the chain.   x.n1.n2...nk.value = text   in the model: read_chain, proxy_element,
   to_traversal (Element.set_parent_to_traversal), set_value. *)
From Coq Require Import List Bool Arith Lia ZArith NArith Init.Byte.
From HL7 Require Import Lib.Str Model.Ec Model.Result Model.Ref Model.Tree Model.Parser Model.Encode Model.Heap Model.HeapSpec.
From HL7 Require Import Proofs.HeapFacts Proofs.HeapInv Proofs.HeapOps Proofs.HeapAlloc Proofs.HeapSteps Proofs.HeapAtomic
                        Proofs.HeapRefine Proofs.HeapRead Proofs.HeapWrite Proofs.HeapChain Proofs.HeapLeaf.
Import ListNotations.

(* c is a materialised child of p: listed, pointing at p, and no longer waiting in p's traversal index *)
Definition listed (s : store) (p c : nat) : Prop :=
  In c (n_list (getn s p)) /\ n_parent (getn s c) = Some p /\ ~ In c (members (n_tidx (getn s p))).

(* every element of the chain l (leaf first) below x is a materialised child of its predecessor *)
Fixpoint chain_listed (s : store) (l : list nat) (x : nat) : Prop :=
  match l with
  | [] => True
  | c :: r => listed s (hd x r) c /\ chain_listed s r x
  end.

Lemma link_listed s p c : Inv s -> link s p c -> listed s p c.
Proof.
  intros I H. split; [exact H|split; [now apply (I_parent s I)|]]. intros F.
  apply In_members in F. destruct F as (k & l & A & B).
  destruct (I_trav s I p) as (_ & T & _). destruct (T _ _ _ A B) as (_ & N & _). contradiction.
Qed.
Lemma uplinks_listed s l x : Inv s -> uplinks s l x -> chain_listed s l x.
Proof.
  intros I. induction l as [|c r IH]; cbn [uplinks chain_listed]; auto.
  intros [A B]. split; [now apply link_listed|auto].
Qed.

(* the element next to x in a non-empty materialised chain is a child of x *)
Lemma chain_listed_root s l x : chain_listed s l x -> l <> [] -> exists c, In c l /\ listed s x c.
Proof.
  induction l as [|c r IH]; [congruence|]. cbn [chain_listed]. intros [A B] _.
  destruct r as [|c' r']; [exists c; split; [now left|exact A]|].
  destruct (IH B) as (d & Hd & L); [discriminate|]. exists d. split; [now right|exact L].
Qed.

(* through abs: element i of the chain appears, under its own name, among the children of element i+1
   (the element after the last one is x) *)
Lemma chain_listed_abs s l x : chain_listed s l x ->
  forall i, i < length l -> In (n_name (getn s (nth i l x)), nth i l x) (abs s (nth (S i) l x)).
Proof.
  induction l as [|c r IH]; cbn [length]; [intros _ i Hi; lia|]. cbn [chain_listed]. intros [(A & _) B] i Hi.
  destruct i as [|i].
  - cbn [nth]. replace (nth 0 r x) with (hd x r) by (destruct r; reflexivity).
    unfold abs. apply in_map_iff. exists c. auto.
  - cbn [nth]. apply IH; auto. lia.
Qed.

Lemma uplinks_mono_tl s s' c r x :
  (forall q d, In q (r ++ [x]) -> link s q d -> link s' q d) -> uplinks s (c :: r) x -> uplinks s' (c :: r) x.
Proof.
  intros M. cbn [uplinks]. intros [A B]. split; [apply M; [apply hd_In_app|exact A]|].
  revert B. apply uplinks_mono. exact M.
Qed.

(* the part of a node that a write may not disturb outside the chain *)
Definition core (N : node) := (n_cls N, n_name N, n_parent N, n_tparent N, n_list N, n_idx N).

Lemma core_of_vis N M : vis N = vis M -> n_parent N = n_parent M -> n_tparent N = n_tparent M -> core N = core M.
Proof.
  intros V A B. apply vis_fields in V. destruct V as (V1 & V2 & V3 & V4 & _). unfold core. congruence.
Qed.
Lemma core_of_shape N M : shape N = shape M -> core N = core M.
Proof. intros H. apply shape_fields in H. destruct H as (A & B & C & D & E & F & _). unfold core. congruence. Qed.

Section Materialise.
Variable t : tables.
Variable e : ec.
Variable le : level -> option str -> str -> result str.

Lemma leaf_written_le n n' s el text : n <= n' -> leaf_written t e le n' s el text -> leaf_written t e le n s el text.
Proof.
  intros Hn. unfold leaf_written. cbv zeta. destruct (n_cls (getn s el)); auto.
  - intros (dt & st & kids & A & B & C). exists dt, st, kids. split; [exact A|split; [exact B|]].
    intros c Hc. specialize (C c Hc). lia.
  - intros (dt & st & kids & A & B & C). exists dt, st, kids. split; [exact A|split; [exact B|]].
    intros c Hc. specialize (C c Hc). lia.
Qed.

(* what  x.n1...nk.value = ...  establishes for the chain when it ends normally *)
Record chain_written (s s' : store) (x : nat) (names : list str) (l : list nat) : Prop := {
  (* one chain element per name at least (a positional name PID_5_1_2 stands for two) *)
  w_length : length names <= length l;
  (* every element of the chain is now a listed child of its predecessor *)
  w_chain : chain_listed s' l x;
  (* the consistency invariant still holds *)
  w_inv : Inv s';
  (* elements outside the chain: class, name, both parents, children and index as before *)
  w_frame : forall y, y < s_next s -> ~ In y (l ++ [x]) -> core (getn s' y) = core (getn s y);
  (* elements of the chain that existed: their children are kept, in addition only chain elements *)
  w_grow : forall q d, q < s_next s -> q <> hd x l -> In d (n_list (getn s q)) -> In d (n_list (getn s' q));
  w_only : forall q d, q < s_next s -> q <> hd x l -> In d (n_list (getn s' q)) -> In d (n_list (getn s q)) \/ In d l;
  (* no element is renamed, none disappears *)
  w_names : forall y, y < s_next s -> n_name (getn s' y) = n_name (getn s y);
  w_next : s_next s <= s_next s'
}.

(* the same through abs: outside the chain the children are as before; the existing chain elements
   keep all their children *)
Lemma written_abs s s' x names l : chain_written s s' x names l -> Inv s ->
  (forall y, y < s_next s -> ~ In y (l ++ [x]) -> abs s' y = abs s y) /\
  (forall q kc, q < s_next s -> q <> hd x l -> In kc (abs s q) -> In kc (abs s' q)).
Proof.
  intros W I. split.
  - intros y Hy Hn. unfold abs. pose proof (w_frame _ _ _ _ _ W y Hy Hn) as C. unfold core in C.
    assert (L : n_list (getn s' y) = n_list (getn s y)) by (inversion C; auto). rewrite L. apply map_ext_in. intros c Hc.
    rewrite (w_names _ _ _ _ _ W c); [reflexivity|]. now apply (I_bound s I y).
  - intros q kc Hq Hne Hk. unfold abs in *. apply in_map_iff in Hk. destruct Hk as (c & <- & Hc).
    apply in_map_iff. exists c. split; [|now apply (w_grow _ _ _ _ _ W)].
    rewrite (w_names _ _ _ _ _ W c); [reflexivity|]. now apply (I_bound s I q).
Qed.

Lemma write_chain_abs (s s' : store) (x : nat) (names : list str) (l : list nat) :
  Inv s -> chain_written s s' x names l ->
  (forall i, i < length l -> In (n_name (getn s' (nth i l x)), nth i l x) (abs s' (nth (S i) l x))) /\
  (forall y, y < s_next s -> ~ In y (l ++ [x]) -> abs s' y = abs s y) /\
  (forall q kc, q < s_next s -> q <> hd x l -> In kc (abs s q) -> In kc (abs s' q)).
Proof.
  intros I W. split; [apply chain_listed_abs; apply (w_chain _ _ _ _ _ W)|]. now apply (written_abs s s' x names l).
Qed.

(* the common prefix of every write through a chain: read, resolve the last proxy, promote *)
Lemma write_prefix x names s s1 pr s2 el s3 :
  Inv s -> Tidy s -> x < s_next s -> n_tparent (getn s x) = None ->
  read_chain t le false x names s = (s1, Ok pr) ->
  proxy_element t le false (fst pr) (snd pr) s1 = (s2, Ok el) ->
  to_traversal t FUEL el s2 = (s3, Ok tt) ->
  exists l1, length names <= S (length l1) /\ ext s s2 /\ promoted s2 s3 (el :: l1) x /\
             n_tparent (getn s3 el) = None /\ (forall d, In d ((el :: l1) ++ [x]) -> d < s_next s2) /\
             NoDup ((el :: l1) ++ [x]).
Proof.
  intros I T Hx Htx H1 H2 H3.
  assert (J0 : J x s []).
  { refine (conj I (conj T (conj Htx (conj Logic.I _)))). intros d [<-|[]]. exact Hx. }
  destruct (read_chain_chain t le x names s s1 pr J0 H1) as (l1 & J1 & Hh1 & E1 & Len1).
  rewrite <- Hh1 in H2.
  destruct (proxy_element_chain t le x s1 l1 (snd pr) s2 el J1 H2) as (J2 & E2).
  destruct J2 as (I2 & T2 & Hx2 & Hc2 & Hb2).
  destruct (chain_NoDup s2 (el :: l1) x T2 Hb2 Hc2) as [ND _].
  destruct (promote t FUEL (el :: l1) x s2 s3 el l1 eq_refl I2 ND Hb2 Hx2 Hc2 H3) as [P P8].
  exists l1. split; [exact Len1|split; [eapply ext_trans; eauto|auto]].
Qed.

(* ... followed by a last step that keeps every shape but the leaf's *)
Lemma write_finish x names s s2 s3 s' el l1 :
  length names <= S (length l1) -> ext s s2 -> promoted s2 s3 (el :: l1) x ->
  (forall d, In d ((el :: l1) ++ [x]) -> d < s_next s2) -> NoDup ((el :: l1) ++ [x]) ->
  keeps (s_next s3) el s3 s' -> Inv s' ->
  chain_written s s' x names (el :: l1).
Proof.
  intros Len1 E02 [P1 P2 P3 P4 P5 P6 P7] Hb2 ND [K4n K4] S4.
  assert (N02 : s_next s <= s_next s2) by (destruct E02; assumption).
  assert (Nel : forall q, In q (l1 ++ [x]) -> q <> el).
  { intros q Hq ->. cbn in ND. inversion ND. contradiction. }
  assert (Old2 : forall y, y < s_next s -> core (getn s2 y) = core (getn s y)).
  { intros y Hy. destruct E02 as (_ & B & _). destruct (B y Hy) as (V & A1 & A2). now apply core_of_vis. }
  constructor.
  - cbn [length]. lia.
  - apply uplinks_listed; [exact S4|]. revert P1. apply uplinks_mono_tl.
    intros q d Hq. unfold link. destruct (K4 q) as [_ Sh].
    + rewrite P3. apply Hb2. now right.
    + apply shape_fields in Sh; [|now apply Nel]. destruct Sh as (_ & _ & _ & _ & -> & _). auto.
  - exact S4.
  - intros y Hy Hn. destruct (K4 y) as [_ Sh]; [lia|].
    rewrite (core_of_shape _ _ (Sh (fun E => Hn (or_introl (eq_sym E))))). rewrite P4 by exact Hn. now apply Old2.
  - cbn [hd]. intros q d Hq Hne Hd. destruct (K4 q) as [_ Sh]; [lia|].
    apply shape_fields in Sh; [|exact Hne]. destruct Sh as (_ & _ & _ & _ & -> & _). apply P5.
    rewrite (ext_list s s2 q E02 Hq). exact Hd.
  - cbn [hd]. intros q d Hq Hne Hd. destruct (K4 q) as [_ Sh]; [lia|].
    apply shape_fields in Sh; [|exact Hne]. destruct Sh as (_ & _ & _ & _ & Sh & _). rewrite Sh in Hd.
    destruct (P6 q d Hd) as [Hd'|[Hd' _]]; [|now right]. left. now rewrite (ext_list s s2 q E02 Hq) in Hd'.
  - intros y Hy. destruct (K4 y) as [Id _]; [lia|]. apply ident_fields in Id. destruct Id as (_ & -> & _).
    rewrite P7. destruct E02 as (_ & B & _). destruct (B y Hy) as (V & _). apply vis_fields in V. tauto.
  - lia.
Qed.

(* x.n1...nk.value = text *)
Theorem write_value_materialises x names text s s' :
  Inv s -> Tidy s -> x < s_next s -> n_tparent (getn s x) = None ->
  write_value t e le false x names text s = (s', Ok tt) ->
  exists l, chain_written s s' x names l /\ leaf_written t e le (s_next s) s' (hd x l) text.
Proof.
  intros I T Hx Htx. unfold write_value. rewrite mbind_run.
  destruct (read_chain t le false x names s) as [s1 [pr|ex]] eqn:H1; [|discriminate]. rewrite mbind_run.
  destruct (proxy_element t le false (fst pr) (snd pr) s1) as [s2 [el|ex]] eqn:H2; [|discriminate]. rewrite mbind_run.
  destruct (to_traversal t FUEL el s2) as [s3 [[]|ex]] eqn:H3; [|discriminate].
  destruct (write_prefix x names s s1 pr s2 el s3 I T Hx Htx H1 H2 H3) as (l1 & Len1 & E02 & P & P8 & Hb2 & ND).
  intros H4.
  assert (Hel3 : el < s_next s3) by (rewrite (pr_next _ _ _ _ P); apply Hb2; now left).
  pose proof (set_value_spec t e le Unone Unone el text s3 (conj (K_none s3 (pr_inv _ _ _ _ P)) Hel3)) as S4.
  rewrite H4 in S4. destruct S4 as [S4 _]. apply K_Inv in S4.
  destruct (set_value_leaf t e le el text s3 s' (pr_inv _ _ _ _ P) Hel3 P8 H4) as [K4 L4].
  exists (el :: l1). split; [eapply write_finish; eauto|].
  cbn [hd]. eapply leaf_written_le; [|exact L4]. rewrite (pr_next _ _ _ _ P). destruct E02; assumption.
Qed.

(* x.n1...nk.value = None: ends normally on a subcomponent only; the chain is materialised all the
   same, the leaf holds the empty value *)
Theorem write_value_none_materialises x names s s' :
  Inv s -> Tidy s -> x < s_next s -> n_tparent (getn s x) = None ->
  write_value_none t le false x names s = (s', Ok tt) ->
  exists l, chain_written s s' x names l /\
            n_cls (getn s' (hd x l)) = CSub /\ n_value (getn s' (hd x l)) = [] /\ n_enc (getn s' (hd x l)) = [].
Proof.
  intros I T Hx Htx. unfold write_value_none. rewrite mbind_run.
  destruct (read_chain t le false x names s) as [s1 [pr|ex]] eqn:H1; [|discriminate]. rewrite mbind_run.
  destruct (proxy_element t le false (fst pr) (snd pr) s1) as [s2 [el|ex]] eqn:H2; [|discriminate]. rewrite mbind_run.
  destruct (to_traversal t FUEL el s2) as [s3 [[]|ex]] eqn:H3; [|discriminate].
  destruct (write_prefix x names s s1 pr s2 el s3 I T Hx Htx H1 H2 H3) as (l1 & Len1 & E02 & P & P8 & Hb2 & ND).
  cbn [mbind node_of]. destruct (n_cls (getn s3 el)) eqn:Ec; try discriminate.
  intros H4.
  pose proof (set_val_spec Unone Unone el [] [] s3 (K_none s3 (pr_inv _ _ _ _ P))) as S4.
  rewrite H4 in S4. apply K_Inv in S4.
  assert (K4 : keeps (s_next s3) el s3 s').
  { pose proof (frm_set_val (s_next s3) el el [] [] s3 (le_n _)) as [K4 _]. now rewrite H4 in K4. }
  exists (el :: l1). split; [eapply write_finish; eauto|]. cbn [hd].
  unfold set_val, modify in H4. injection H4 as <-. rewrite getn_setn_same. cbn. auto.
Qed.

(* the same for the model exactly as hl7apy runs (exotic = true) whenever the write takes neither
   exotic path (a late VARIES naming after attachment, a non-idempotent name lookup) *)
Corollary write_value_materialises_hl7apy x names text s s' :
  write_value t e le true x names text s = write_value t e le false x names text s ->
  Inv s -> Tidy s -> x < s_next s -> n_tparent (getn s x) = None ->
  write_value t e le true x names text s = (s', Ok tt) ->
  exists l, chain_written s s' x names l /\ leaf_written t e le (s_next s) s' (hd x l) text.
Proof. intros E I T Hx Ht H. rewrite E in H. eapply write_value_materialises; eauto. Qed.

End Materialise.
