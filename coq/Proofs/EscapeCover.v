(* Which delimiters a family of textual classes escapes: computed from the generated translation lists. *)
From Coq Require Import List Bool NArith Init.Byte Lia.
From HL7 Require Import Lib.Str Model.Ec Model.Escape Proofs.EscapeFacts.
Import ListNotations.

Definition sel_eqb (a b : sel) : bool :=
  match a, b with
  | FIELD, FIELD | COMPONENT, COMPONENT | SUBCOMPONENT, SUBCOMPONENT
  | REPETITION, REPETITION | TRUNCATION, TRUNCATION | ESCAPE, ESCAPE => true
  | _, _ => false
  end.
Lemma sel_eqb_eq a b : sel_eqb a b = true -> a = b.
Proof. destruct a, b; simpl; congruence. Qed.

Definition has_sel (s : sel) (l : list (sel * byte)) : bool := existsb (fun t => sel_eqb s (fst t)) l.
Definition four : list sel := [FIELD; COMPONENT; SUBCOMPONENT; REPETITION].
Definition covers (p : esc_params) : bool :=
  forallb (fun s => has_sel s (trans_without_trunc p) && has_sel s (trans_with_trunc p)) four.
Definition covers_trunc (p : esc_params) : bool := has_sel TRUNCATION (trans_with_trunc p).

Lemma has_sel_in s l : has_sel s l = true -> exists b, In (s, b) l.
Proof.
  unfold has_sel. rewrite existsb_exists. intros [[s' b] [Hin E]]. cbn in E.
  apply sel_eqb_eq in E. subst. eauto.
Qed.

Lemma in_translations_escaped p e s b d :
  In (s, b) (translations p e) -> ec_get e s = Some d -> In d (escaped_delims p e).
Proof.
  intros Hin Hg. unfold escaped_delims. apply in_flat_map. exists (s, b). split; auto.
  cbn. rewrite Hg. now left.
Qed.

Lemma covers_four p e s d : covers p = true -> In s four -> ec_get e s = Some d ->
  In d (escaped_delims p e).
Proof.
  intros Hc Hs Hg. unfold covers in Hc. rewrite forallb_forall in Hc. specialize (Hc _ Hs).
  apply andb_prop in Hc. destruct Hc as [H0 H1].
  destruct (tsep e) as [tt|] eqn:T.
  - destruct (has_sel_in _ _ H1) as [b0 Hb]. apply in_translations_escaped with (s := s) (b := b0); auto.
    unfold translations. rewrite T. exact Hb.
  - destruct (has_sel_in _ _ H0) as [b0 Hb]. apply in_translations_escaped with (s := s) (b := b0); auto.
    unfold translations. rewrite T. exact Hb.
Qed.

Lemma covers_truncation p e t : covers_trunc p = true -> tsep e = Some t ->
  In t (escaped_delims p e).
Proof.
  intros Hc Ht. destruct (has_sel_in _ _ Hc) as [b Hb].
  apply in_translations_escaped with (s := TRUNCATION) (b := b); auto.
  unfold translations. rewrite Ht. exact Hb.
Qed.
