(* C15, segment level: the segment parser and the segment encoder never leak a crash.
   Every partial Python operation of Model/Tree.v, Model/Parser.v and Model/Encode.v is an explicit
   `Err (Crash _)` / `Err PyValueError`; this file shows that none of them is reachable from
   parse_segment / enc_segment, for EVERY text, both levels, every delimiter set, under a semantic
   invariant on the references the tables hand out (`ref_ok`: _parse_structure succeeds on the
   reference and, hereditarily, on the reference of every child it names).  Proofs/NoCrashTables.v
   derives the invariant from the kernel-checked well-formedness of the shipped tables. *)
From Coq Require Import List Bool Arith ZArith NArith Lia Init.Byte.
From HL7 Require Import Lib.Str Model.Ec Model.Result Model.Ref Model.Tree Model.Parser Model.Encode Model.Wf.
From HL7 Require Import Proofs.RoundTripStr Proofs.RoundTripCore Proofs.RoundTripSeg Proofs.NoDrop.
Import ListNotations.
Open Scope bs_scope.
Open Scope res_scope.

(* ------------------------------------------------------------------ *)
(* outcomes: a value satisfying P, or an acceptable exception             *)

Definition TT {A} : A -> Prop := fun _ => True.
(* the acceptable exceptions: the library's own ... *)
Definition hl7_only (x : exn) : Prop := match x with HL7 _ => True | _ => False end.
(* ... and, for a leaf layer that validates values, ValueError under STRICT only *)
Definition hl7_or_value (lvl : level) (x : exn) : Prop :=
  match x with HL7 _ => True | PyValueError => lvl = STRICT | _ => False end.

Section NC.
(* Adm = the exceptions the leaf function may raise (they propagate unchanged); it contains the
   library's exceptions; the parser / constructors themselves only ever raise the latter *)
Variable Adm : exn -> Prop.
Hypothesis AdmH : forall c, Adm (HL7 c).

Definition sp {A} (P : A -> Prop) (r : result A) : Prop :=
  match r with Ok a => P a | Err x => Adm x end.

Ltac triv := first [exact I | apply AdmH | (cbn; apply AdmH)].

Lemma sp_ok {A} (P : A -> Prop) a : P a -> sp P (Ok a).
Proof. exact (fun H => H). Qed.
Lemma sp_err {A} (P : A -> Prop) c : sp P (Err (HL7 c)).
Proof. apply AdmH. Qed.
Lemma sp_bind {A B} (P : A -> Prop) (Q : B -> Prop) (r : result A) (f : A -> result B) :
  sp P r -> (forall a, P a -> sp Q (f a)) -> sp Q (bind r f).
Proof. destruct r as [a|x]; cbn; auto. Qed.
Lemma sp_bind_eq {A B} (P : A -> Prop) (Q : B -> Prop) (r : result A) (f : A -> result B) :
  sp P r -> (forall a, r = Ok a -> P a -> sp Q (f a)) -> sp Q (bind r f).
Proof. destruct r as [a|x]; cbn; auto. Qed.
Lemma sp_weaken {A} (P Q : A -> Prop) r : (forall a, P a -> Q a) -> sp P r -> sp Q r.
Proof. destruct r as [a|x]; cbn; auto. Qed.
Lemma sp_post {A} (P Q : A -> Prop) r : sp P r -> (forall a, r = Ok a -> P a -> Q a) -> sp Q r.
Proof. destruct r as [a|x]; cbn; auto. Qed.
Lemma sp_inv {A} (P : A -> Prop) r a : sp P r -> r = Ok a -> P a.
Proof. intros H ->. exact H. Qed.
(* the result is a value or an acceptable exception *)
Lemma sp_cases {A} (P : A -> Prop) r : sp P r -> (exists a, r = Ok a /\ P a) \/ (exists x, r = Err x /\ Adm x).
Proof. destruct r as [a|x]; cbn; intros H; [left; eauto|right; eauto]. Qed.
(* `except InvalidName:` handlers *)
Lemma sp_fallback {A} (P : A -> Prop) (f : unit -> result A) (alt : result A) :
  sp P (f tt) -> sp P alt ->
  sp P (match f tt with Err (HL7 EInvalidName) => alt | x => x end).
Proof. destruct (f tt) as [a|[[]| |k|]]; cbn; auto. Qed.

Variable t : tables.
Notation base := (base t).

(* ------------------------------------------------------------------ *)
(* references on which _parse_structure succeeds, hereditarily           *)

Inductive ref_ok : sref -> Prop :=
| ref_ok_intro r st : parse_structure t r = Ok st ->
    (forall k en, by_name st k = Some en -> ref_ok (se_ref en)) -> ref_ok r.

Definition st_ok (st : structure) : Prop := forall k en, by_name st k = Some en -> ref_ok (se_ref en).
Definition ost_ok (o : option structure) : Prop := match o with Some st => st_ok st | None => True end.
Definition oref_ok (o : option sref) : Prop := match o with Some r => ref_ok r | None => True end.

Lemma ref_ok_parse r : ref_ok r -> sp st_ok (parse_structure t r).
Proof. intros [r' st E H]. rewrite E. exact H. Qed.

Lemma leaf_ref_ok i : ref_ok (SLeaf i).
Proof. apply (ref_ok_intro _ (mk_structure (SLeaf i) None [] [] [] (Some i))); [reflexivity|]. intros k en H. discriminate. Qed.

Lemma ref_in_ok st n : ost_ok st -> oref_ok (ref_in st n).
Proof.
  unfold ref_in. destruct st as [s|]; [|exact (fun _ => I)]. cbn [ost_ok]. intros H.
  destruct (st_ordered s); [|triv]. destruct (by_name s n) as [en|] eqn:E; [|triv].
  exact (H n en E).
Qed.


(* the structure of a reference whose children are contiguous rows NAME_1 .. NAME_n, each
   resolving to a good reference *)
Definition rows_good (rows : list srow) : Prop :=
  forall row, In row rows -> exists fr, row_ref t row = Some fr /\ ref_ok fr.

Lemma row_entries_in prefix k : forall rows a key en,
  In (key, en) (row_entries t prefix k a rows) -> exists row, In row rows /\ row_ref t row = Some (se_ref en).
Proof.
  induction rows as [|x rows IH]; intros a key en H; [destruct H|]. cbn [row_entries] in H.
  destruct (row_ref t x) as [fr|] eqn:E; [|destruct H]. destruct H as [H|H].
  - injection H as _ <-. exists x. split; [now left|exact E].
  - destruct (IH _ _ _ H) as [row [Hr Hx]]. exists row. split; [now right|exact Hx].
Qed.

Lemma rows_parse r c rows info prefix k :
  view_of t r = VSeq c (map (row_view t) rows) info ->
  rows_contiguous prefix k 1 rows = true -> rows_good rows ->
  exists st, parse_structure t r = Ok st /\ st_ok st /\
    st_ordered st = Some (map (name_idx prefix) (seq 1 (length rows))) /\
    (forall j row fr, nth_error rows j = Some row -> row_ref t row = Some fr ->
       by_name st (name_idx prefix (S j)) = Some (mk_sentry (name_idx prefix (S j)) fr k)).
Proof.
  intros Hv Hc Hg.
  assert (Hr : rows_resolved t rows).
  { intros x Hx E. destruct (Hg x Hx) as [fr [E' _]]. congruence. }
  destruct (parse_children_contig t prefix k rows 1 [] [] [] [] [] Hc Hr) as [byl' [reps' E]]; [reflexivity|].
  unfold parse_structure. rewrite Hv, E. cbn [rev app]. eexists. split; [reflexivity|].
  assert (Hnd : NoDup (map fst (row_entries t prefix k 1 rows))).
  { rewrite row_entries_keys by exact Hr. apply name_idx_NoDup. }
  split; [|split; [reflexivity|]].
  - intros key en H. unfold by_name in H. cbn [st_by_name] in H.
    rewrite slookup_rev_nodup in H by exact Hnd. apply slookup_in in H.
    apply row_entries_in in H. destruct H as [row [Hrow Hx]].
    destruct (Hg row Hrow) as [fr [Hfr Hok]]. rewrite Hx in Hfr. injection Hfr as <-. exact Hok.
  - intros j row fr Hn Hx. unfold by_name. cbn [st_by_name].
    rewrite slookup_rev_nodup by exact Hnd.
    exact (row_entries_lookup t prefix k rows 1 j row fr Hr Hn Hx).
Qed.

(* ------------------------------------------------------------------ *)
(* the table premises (discharged for the shipped tables in NoCrashTables.v) *)

Hypothesis Hst : base (Some (unbs "ST")) = true.
Hypothesis Hfields : forall n r, slookup n (t_fields t) = Some r -> ref_ok r.
Hypothesis Hcomps : forall n r, slookup n (t_components t) = Some r -> ref_ok r.
(* a segment definition: three-character name, field rows NAME_1 .. NAME_n with good references *)
Definition seg_good (n : str) (r : sref) : Prop :=
  exists rows, r = SSeqIn false rows None /\ length n = 3 /\
               rows_contiguous n FIE 1 rows = true /\ rows_good rows.
Hypothesis Hsegs : forall n r, length n <= 3 -> slookup n (t_segments t) = Some r -> seg_good n r.

Definition dt_simple (dt : option str) : Prop := dt = None \/ base dt = true.

Lemma structure_for_safe k name reference : k = FIE \/ k = CMP -> oref_ok reference ->
  sp st_ok (structure_for t k name reference).
Proof.
  intros Hk Hr. unfold structure_for. destruct reference as [r|]; [exact (ref_ok_parse r Hr)|].
  unfold load_reference. destruct (slookup name (table_of t k)) as [r|] eqn:E; [|triv].
  apply ref_ok_parse. destruct Hk as [-> | ->]; [exact (Hfields _ _ E)|exact (Hcomps _ _ E)].
Qed.

(* ---------- _set_datatype on a childless element ---------- *)
Lemma set_datatype_ctor_safe lvl is_sub old old_st new : dt_simple new -> ost_ok old_st ->
  sp (fun p => ost_ok (snd p)) (set_datatype_ctor t lvl is_sub old old_st new).
Proof.
  intros Hn Ho. unfold set_datatype_ctor. destruct is_sub.
  - destruct (match new with Some n => _ | None => false end); [triv|].
    destruct (_ && _ && _); [triv|exact Ho].
  - destruct (is_strict lvl && _ && _); [triv|].
    assert (C : negb (base new) && negb (is_varies new) && (match new with Some _ => true | None => false end) = false).
    { destruct Hn as [-> | Hb]; [reflexivity|]. now rewrite Hb. }
    rewrite C. cbn [andb]. exact Ho.
Qed.

(* ---------- CanBeVaries.__init__ ---------- *)
Lemma canbevaries_safe lvl is_sub name datatype reference : dt_simple datatype -> oref_ok reference ->
  sp (fun p => ost_ok (snd p)) (canbevaries t lvl is_sub name datatype reference).
Proof.
  intros Hd Hr. unfold canbevaries.
  set (reference' := if is_varies datatype && _ then Some varies_leaf else reference).
  assert (Hr' : oref_ok reference').
  { subst reference'. destruct (_ && _); [apply leaf_ref_ok|exact Hr]. }
  clearbody reference'. clear Hr reference.
  (* the TOLERANT-only reconstruction of the reference needs a complex datatype *)
  assert (C : forall x, negb (is_strict lvl) && (match datatype with Some _ => true | None => false end)
                 && negb (is_varies datatype) && negb (base datatype) && x = false).
  { intros x. destruct Hd as [-> | Hb]; [now rewrite andb_false_r|]. rewrite Hb. cbn [negb]. now rewrite andb_false_r. }
  rewrite C. clear C. cbn [bind].
  apply (sp_bind (fun p : option str * option structure => ost_ok (snd p))).
  - destruct (valid_child_name name (Some (unbs "VARIES"))).
    + destruct reference' as [r|]; [|triv].
      apply (sp_bind st_ok); [exact (ref_ok_parse r Hr')|]. intros s Hs. exact Hs.
    + destruct name as [n|].
      * pose proof (structure_for_safe CMP (upper n) reference' (or_intror eq_refl) Hr') as S.
        destruct (structure_for t CMP (upper n) reference') as [s|x]; cbn in S |- *; exact S.
      * destruct reference' as [r|]; [|triv].
        apply (sp_bind st_ok); [exact (ref_ok_parse r Hr')|]. intros s Hs. exact Hs.
  - intros [nm st] Hs. cbn [snd] in Hs.
    destruct (is_sub && _); [triv|].
    match goal with |- sp _ (if ?b then _ else _) => destruct b; [triv|] end.
    destruct nm as [[|c n]|].
    + apply (sp_bind (fun p : option str * option structure => ost_ok (snd p)));
        [now apply set_datatype_ctor_safe|]. intros [dt st'] H. exact H.
    + destruct (is_strict lvl && _ && _); [triv|]. destruct datatype as [d|]; [|exact Hs].
      apply (sp_bind (fun p : option str * option structure => ost_ok (snd p)));
        [now apply set_datatype_ctor_safe|]. intros [dt st'] H. exact H.
    + apply (sp_bind (fun p : option str * option structure => ost_ok (snd p)));
        [now apply set_datatype_ctor_safe|]. intros [dt st'] H. exact H.
Qed.

(* ---------- constructors ---------- *)
Variable lvl : level.
Variable e : ec.
Variable leaf : option str -> str -> result str.
Hypothesis Hleaf : forall dt s, sp TT (leaf dt s).

Lemma mk_subcomponent_safe name datatype value reference : dt_simple datatype -> oref_ok reference ->
  sp TT (mk_subcomponent t lvl leaf name datatype value reference).
Proof.
  intros Hd Hr. unfold mk_subcomponent. destruct (_ && _); [triv|].
  apply (sp_bind (fun p : option str * option str * option structure => ost_ok (snd p)));
    [now apply canbevaries_safe|].
  intros [[nm dt] st] _. destruct value as [|c v]; [triv|].
  apply (sp_bind TT); [apply Hleaf|]. intros x _. triv.
Qed.

Lemma mk_component_safe name datatype reference : dt_simple datatype -> oref_ok reference ->
  sp (fun c => ost_ok (c_st c)) (mk_component t lvl name datatype reference).
Proof.
  intros Hd Hr. unfold mk_component.
  apply (sp_bind (fun p : option str * option str * option structure => ost_ok (snd p)));
    [now apply canbevaries_safe|].
  intros [[nm dt] st] H. cbn [snd] in H. destruct (_ && _ && _ && _); [triv|exact H].
Qed.

Lemma dt_simple_none : dt_simple None.
Proof. now left. Qed.
Lemma dt_simple_ST : dt_simple (Some (unbs "ST")).
Proof. now right. Qed.

(* Field(name, reference=...) as the parser calls it (no datatype) *)
Definition field_named (name : option str) (f : field) : Prop :=
  f_name f = None \/ exists n, name = Some n /\ f_name f = Some (upper n).

Lemma mk_field_safe name reference : oref_ok reference ->
  sp (fun f => ost_ok (f_st f) /\ field_named name f /\ f_children f = []) (mk_field t lvl name None reference).
Proof.
  intros Hr. unfold mk_field. destruct (_ && _ && _); [triv|].
  change (is_varies None) with false. cbn [andb].
  destruct name as [n0|].
  - apply (sp_bind (fun p : structure * option str => st_ok (fst p) /\ dt_simple (snd p))).
    + pose proof (structure_for_safe FIE (upper n0) reference (or_introl eq_refl) Hr) as S.
      destruct (structure_for t FIE (upper n0) reference) as [st|[c| |k|]]; cbn in S; try exact S.
      * cbn. split; [exact S|apply dt_simple_none].
      * destruct c; try triv. destruct (valid_z_field_name n0); [|triv].
        rewrite Hst. apply (sp_bind st_ok); [apply ref_ok_parse, leaf_ref_ok|].
        intros st Hs. cbn. split; [exact Hs|apply dt_simple_ST].
    + intros [st dt] [Hs Hd]. cbn [fst snd] in Hs, Hd.
      destruct (_ && _ && _ && _); [triv|].
      destruct dt as [d|].
      * apply (sp_bind (fun p : option str * option structure => ost_ok (snd p)));
          [now apply set_datatype_ctor_safe|].
        intros [dt st'] H. cbn [snd] in H. cbn. split; [exact H|]. split; [|reflexivity]. right. now exists n0.
      * cbn. split; [exact Hs|]. split; [|reflexivity]. right. now exists n0.
  - apply (sp_bind (fun p : option str * option structure => ost_ok (snd p)));
      [apply set_datatype_ctor_safe; [apply dt_simple_none|triv]|].
    intros [dt st'] H. cbn. split; [triv|]. split; [now left|reflexivity].
Qed.

(* ---------- child acceptance only raises the library's exceptions ---------- *)
Lemma valid_child_complex_safe pn pdt pst kn kdt : sp TT (valid_child_complex t lvl pn pdt pst kn kdt).
Proof.
  unfold valid_child_complex.
  repeat match goal with
         | |- sp _ (if ?b then _ else _) => destruct b
         | |- sp _ (match ?o with Some _ => _ | None => _ end) => destruct o
         end; triv.
Qed.

Lemma add_subs_safe kids : forall c, sp TT (add_subs t lvl c kids).
Proof.
  induction kids as [|k rest IH]; intros c; [triv|]. cbn [add_subs].
  destruct (_ && _ && _); [triv|]. destruct (_ && _ && _); [triv|].
  apply (sp_bind TT); [apply valid_child_complex_safe|]. intros v _.
  destruct (negb v); [triv|]. destruct (negb _); [triv|]. apply IH.
Qed.

Lemma add_comps_safe kids : forall f, sp TT (add_comps t lvl f kids).
Proof.
  induction kids as [|k rest IH]; intros f; [triv|]. cbn [add_comps].
  destruct (_ && _ && _); [triv|].
  apply (sp_bind TT); [apply valid_child_complex_safe|]. intros v _.
  destruct (negb v); [triv|]. destruct (negb _); [triv|]. apply IH.
Qed.

(* ---------- parse_subcomponents / parse_component ---------- *)
Lemma parse_subcomponents_aux_safe cdt st l : ost_ok st ->
  sp TT (parse_subcomponents_aux t lvl leaf cdt st l).
Proof.
  intros Hs. induction l as [|[i s] rest IH]; [triv|]. cbn [parse_subcomponents_aux].
  assert (K : forall nm dt ref, dt_simple dt -> oref_ok ref ->
    sp TT (if materialise s nm
           then do x <- mk_subcomponent t lvl leaf nm dt s ref;
                do xs <- parse_subcomponents_aux t lvl leaf cdt st rest; Ok (x :: xs)
           else parse_subcomponents_aux t lvl leaf cdt st rest)).
  { intros nm dt ref Hd Hr. destruct (materialise s nm); [|exact IH].
    apply (sp_bind TT); [now apply mk_subcomponent_safe|]. intros x _.
    apply (sp_bind TT); [exact IH|]. intros xs _. triv. }
  destruct (base cdt || opt_is_none cdt) eqn:C; cbn beta iota.
  - apply K; [|triv]. destruct cdt as [d|]; [|apply dt_simple_ST].
    right. cbn [opt_is_none] in C. now rewrite orb_false_r in C.
  - destruct (has_map st); cbn beta iota.
    + pose proof (ref_in_ok st (name_idx (str_of_opt cdt) i) Hs) as R.
      destruct (ref_in st (name_idx (str_of_opt cdt) i)) as [r|]; cbn beta iota.
      * apply K; [apply dt_simple_none|exact R].
      * apply K; [apply dt_simple_ST|triv].
    + apply K; [apply dt_simple_none|triv].
Qed.

Lemma parse_component_safe text name datatype reference : dt_simple datatype -> oref_ok reference ->
  sp TT (parse_component t lvl e leaf text name datatype reference).
Proof.
  intros Hd Hr. unfold parse_component.
  apply (sp_bind (fun c => ost_ok (c_st c))).
  - apply (sp_fallback _ (fun _ => mk_component t lvl name datatype reference)); [now apply mk_component_safe|].
    destruct (is_strict lvl); [triv|]. apply mk_component_safe; [apply dt_simple_none|exact Hr].
  - intros c Hc. apply (sp_bind TT); [now apply parse_subcomponents_aux_safe|]. intros kids _.
    apply add_subs_safe.
Qed.

(* ---------- parse_components / parse_field ---------- *)
Lemma parse_components_aux_safe fdt st l : ost_ok st ->
  sp TT (parse_components_aux t lvl e leaf fdt st l).
Proof.
  intros Hs. induction l as [|[i s] rest IH]; [triv|]. cbn [parse_components_aux].
  assert (K : forall nm cdt ref, dt_simple cdt -> oref_ok ref ->
    sp TT (if negb (is_blank s) || opt_is_none nm || (match nm with Some n => bstarts "VARIES_" n | None => false end)
           then do x <- parse_component t lvl e leaf s nm cdt ref;
                do xs <- parse_components_aux t lvl e leaf fdt st rest; Ok (x :: xs)
           else parse_components_aux t lvl e leaf fdt st rest)).
  { intros nm cdt ref Hd Hr. destruct (_ || _ || _); [|exact IH].
    apply (sp_bind TT); [now apply parse_component_safe|]. intros x _.
    apply (sp_bind TT); [exact IH|]. intros xs _. triv. }
  assert (R : forall n, oref_ok (if has_map st then ref_in st n else None)).
  { intros n. destruct (has_map st); [now apply ref_in_ok|triv]. }
  destruct (base fdt) eqn:B; cbn beta iota.
  - apply K; [now right|triv].
  - destruct (opt_is_none fdt || is_varies fdt); cbn beta iota; (apply K; [apply dt_simple_none|apply R]).
Qed.

(* what the encoder needs of a field: MSH-1 / MSH-2 hold their text *)
Definition enc_ok (f : field) : Prop := forall e', exists x, enc_field t e' f = Ok x.

Lemma enc_ok_not_msh f :
  opt_eqb (f_name f) (Some (unbs "MSH_1")) || opt_eqb (f_name f) (Some (unbs "MSH_2")) = false -> enc_ok f.
Proof.
  intros H e'. unfold enc_field. rewrite H.
  destruct (is_varies (f_dt f)); [eauto|]. destruct (base (f_dt f) || opt_is_none (f_dt f)); eauto.
Qed.

Lemma field_named_not_msh name f : is_msh12 name = false -> field_named name f ->
  opt_eqb (f_name f) (Some (unbs "MSH_1")) || opt_eqb (f_name f) (Some (unbs "MSH_2")) = false.
Proof.
  intros H [-> | [n [-> ->]]]; [reflexivity|exact H].
Qed.

Lemma parse_field_safe text name reference fv : oref_ok reference ->
  sp (fun f => field_named name f /\ enc_ok f) (parse_field t lvl e leaf text name reference fv).
Proof.
  intros Hr. unfold parse_field.
  apply (sp_bind (fun f => ost_ok (f_st f) /\ field_named name f /\ f_children f = [])).
  - apply (sp_fallback _ (fun _ => mk_field t lvl name None reference)); [now apply mk_field_safe|].
    destruct fv.
    + apply mk_field_safe. apply leaf_ref_ok.
    + eapply sp_weaken; [|apply (mk_field_safe None reference Hr)].
      intros f [H1 [H2 H3]]. split; [exact H1|]. split; [|exact H3].
      left. destruct H2 as [H2|[n [H2 _]]]; [exact H2|discriminate].
  - intros f [Hs [Hn Hc]]. destruct (is_msh12 name) eqn:M.
    + apply (sp_bind TT); [apply mk_subcomponent_safe; [apply dt_simple_ST|triv]|]. intros s _.
      apply (sp_bind TT); [eapply sp_weaken; [|apply (mk_component_safe None (Some (unbs "ST")) None dt_simple_ST I)]; intros; triv|].
      intros c0 _.
      apply (sp_bind_eq TT); [apply add_subs_safe|]. intros c Ec _.
      eapply sp_post; [apply add_comps_safe|]. intros f' Ef _.
      apply add_comps_appends in Ef. destruct Ef as [E1 [E2 _]].
      apply add_subs_appends in Ec. destruct Ec as [E3 _].
      split.
      * destruct Hn as [Hn|[n [Hn1 Hn2]]]; [left; congruence|right; exists n; split; congruence].
      * intros e'. unfold enc_field. rewrite E1, Hc. cbn [app]. rewrite E3.
        destruct (opt_eqb (f_name f') _ || _); [destruct (c_children c0); cbn [app]; eauto|].
        destruct (is_varies (f_dt f')); [eauto|]. destruct (base (f_dt f') || opt_is_none (f_dt f')); eauto.
    + apply (sp_bind TT); [now apply parse_components_aux_safe|]. intros kids _.
      eapply sp_post; [apply add_comps_safe|]. intros f' Ef _.
      apply add_comps_appends in Ef. destruct Ef as [_ [E2 _]].
      assert (E : f_name f' = f_name f) by (rewrite E2; now destruct (_ && _ && _)).
      assert (Hn' : field_named name f').
      { destruct Hn as [Hn|[n [Hn1 Hn2]]]; [left; congruence|right; exists n; split; congruence]. }
      split; [exact Hn'|]. apply enc_ok_not_msh. now apply (field_named_not_msh name).
Qed.

(* ---------- parse_fields ---------- *)
Lemma parse_reps_safe reps name reference fv : oref_ok reference ->
  sp (Forall (fun f => field_named name f /\ enc_ok f)) (parse_reps t lvl e leaf reps name reference fv).
Proof.
  intros Hr. induction reps as [|r rest IH]; [constructor|]. cbn [parse_reps].
  apply (sp_bind (fun f => field_named name f /\ enc_ok f)); [now apply parse_field_safe|]. intros x Hx.
  apply (sp_bind (Forall (fun f => field_named name f /\ enc_ok f))); [exact IH|]. intros xs Hxs.
  now constructor.
Qed.

(* the fields of a segment line whose name (first three characters) is `prefix` *)
Definition seg_field (prefix : str) (f : field) : Prop :=
  (f_name f = None \/ exists i, f_name f = Some (name_idx (upper prefix) i)) /\ enc_ok f.

Lemma parse_fields_aux_safe prefix st fv l : ost_ok st ->
  sp (Forall (seg_field prefix)) (parse_fields_aux t lvl e leaf prefix st fv l).
Proof.
  intros Hs. induction l as [|[i f] rest IH]; [constructor|]. cbn [parse_fields_aux].
  set (ref := if has_map st then ref_in st (name_idx prefix i) else None).
  assert (R : oref_ok ref) by (subst ref; destruct (has_map st); [now apply ref_in_ok|triv]).
  assert (W : forall reps fv', sp (Forall (seg_field prefix))
                (parse_reps t lvl e leaf reps (Some (name_idx prefix i)) ref fv')).
  { intros reps fv'. eapply sp_weaken; [|apply (parse_reps_safe reps _ ref fv' R)].
    intros fs. apply Forall_impl. intros x [[Hx|[n [Hn Hx]]] Hx']; (split; [|exact Hx']); [now left|].
    right. exists i. injection Hn as <-. now rewrite <- name_idx_upper. }
  apply (sp_bind (Forall (seg_field prefix))).
  - destruct (negb (is_blank f)).
    + destruct (streqb _ _); apply W.
    + destruct (streqb _ _); [apply W|constructor].
  - intros here Hh. apply (sp_bind (Forall (seg_field prefix))); [exact IH|]. intros xs Hxs.
    cbn. apply Forall_app. now split.
Qed.

(* ---------- Segment.add ---------- *)
Lemma add_fields_safe P kids : length P = 3 ->
  Forall (fun k => f_name k = None \/ exists i, f_name k = Some (name_idx P i)) kids ->
  forall s, sp TT (add_fields t lvl s kids).
Proof.
  intros H3 Hk. induction Hk as [|k rest Hk _ IH]; intros s; [triv|]. cbn [add_fields].
  destruct (f_name k) as [kn|] eqn:N.
  - destruct (_ && _); [destruct (known_field t kn); triv|].
    destruct (negb (bstarts _ _)); [triv|]. destruct (negb (card_ok _ _ _ _ _)); [triv|].
    destruct (s_inf s && _); [|apply IH].
    destruct Hk as [Hk|[i Hk]]; [discriminate|]. injection Hk as ->.
    rewrite (name_idx3_drop4 P i H3), nat_to_str_py_int. apply IH.
  - destruct (is_strict lvl); [triv|apply IH].
Qed.

(* ---------- the encoder ---------- *)
Lemma enc_reps_total e' l : (forall f, In f l -> exists x, enc_field t e' f = Ok x) ->
  exists xs, enc_reps t e' l = Ok xs.
Proof.
  induction l as [|f r IH]; intros H; [now exists []|]. cbn [enc_reps].
  destruct (H f (or_introl eq_refl)) as [x ->].
  destruct IH as [xs ->]; [intros g Hg; apply H; now right|]. eauto.
Qed.

Lemma enc_seg_slots_total e' l :
  (forall reps f, In (Some reps) l -> In f reps -> exists x, enc_field t e' f = Ok x) ->
  exists xs, enc_seg_slots t e' l = Ok xs.
Proof.
  induction l as [|sl r IH]; intros H; [now exists []|]. cbn [enc_seg_slots].
  destruct IH as [xs ->]; [intros reps f Hr; apply H; now right|].
  destruct sl as [reps|]; [|eauto].
  destruct (enc_reps_total e' reps) as [ys ->]; [intros f Hf; apply (H reps f); [now left|exact Hf]|]. eauto.
Qed.

Lemma named_sub {A} (nm : A -> option str) k l reps x : named nm k l = Some reps -> In x reps -> In x l.
Proof.
  unfold named. destruct (filter _ l) as [|y r] eqn:E; [discriminate|]. intros H. injection H as <-.
  rewrite <- E. intros Hx. apply filter_In in Hx. tauto.
Qed.

Lemma in_remove_trailing {B} (p : B -> bool) l x : In x (remove_trailing p l) -> In x l.
Proof.
  unfold remove_trailing. intros H. apply in_rev in H.
  assert (G : forall m, In x (lstrip_by p m) -> In x m).
  { induction m as [|y m IH]; cbn; [tauto|]. destruct (p y); [intros; right; auto|cbn; tauto]. }
  apply G in H. now apply in_rev.
Qed.

Lemma seg_slots_members s trailing reps f :
  In (Some reps) (seg_slots s trailing) -> In f reps -> In f (s_children s).
Proof.
  unfold seg_slots. cbv zeta. intros H Hf.
  assert (G : In (Some reps)
     (map (fun k => named f_name k (s_children s)) (match st_ordered (s_st s) with Some o => o | None => [] end) ++
      (if s_inf s then map (fun i => named f_name (name_idx (s_name s) i) (s_children s))
                          (seq (S (N.to_nat (s_last_allowed s))) (N.to_nat (s_last s) - N.to_nat (s_last_allowed s)))
       else []) ++
      map (fun c => Some [c]) (filter (fun c => name_none_or_st (f_name c)) (s_children s)))).
  { destruct trailing; [exact H|]. now apply in_remove_trailing in H. }
  clear H. apply in_app_or in G. destruct G as [G|G].
  - apply in_map_iff in G. destruct G as [k [G _]]. exact (named_sub _ _ _ _ _ G Hf).
  - apply in_app_or in G. destruct G as [G|G].
    + destruct (s_inf s); [|destruct G]. apply in_map_iff in G. destruct G as [k [G _]]. exact (named_sub _ _ _ _ _ G Hf).
    + apply in_map_iff in G. destruct G as [c [G Hc]]. injection G as <-. destruct Hf as [<-|[]].
      apply filter_In in Hc. tauto.
Qed.

Lemma enc_segment_total e' s trailing : (forall f, In f (s_children s) -> exists x, enc_field t e' f = Ok x) ->
  exists x, enc_segment t e' s trailing = Ok x.
Proof.
  intros H. unfold enc_segment.
  destruct (enc_seg_slots_total e' (seg_slots s trailing)) as [xs ->]; [|eauto].
  intros reps f Hr Hf. apply H. exact (seg_slots_members s trailing reps f Hr Hf).
Qed.

(* ---------- Segment(name) and parse_segment ---------- *)
Lemma z_name_length name : valid_z_segment_name name = true -> length name = 3.
Proof.
  unfold valid_z_segment_name. destruct (upper name); [discriminate|]. intros H.
  apply andb_prop in H. destruct H as [_ H]. now apply Nat.eqb_eq.
Qed.

Lemma mk_segment_safe_ref name reference : length name <= 3 ->
  (forall r, reference = Some r -> seg_good (upper name) r) ->
  sp (fun s => st_ok (s_st s) /\ s_children s = [] /\ length name = 3) (mk_segment t name reference).
Proof.
  intros Hlen Href. unfold mk_segment. destruct (valid_z_segment_name name) eqn:Z.
  - destruct reference as [r|].
    + destruct (Href r eq_refl) as [rows [-> [H3 [Hc Hg]]]].
      destruct (rows_parse (SSeqIn false rows None) false rows None (upper name) FIE eq_refl Hc Hg)
        as [st [-> [Hs _]]].
      cbn. split; [exact Hs|]. split; [reflexivity|now apply z_name_length].
    + change (parse_structure t empty_seq) with (Ok (mk_structure empty_seq (Some []) [] [] [] None)).
      cbn [bind]. cbn. split; [|split; [reflexivity|now apply z_name_length]].
      intros k en H. discriminate.
  - assert (G : structure_for t SEG (upper name) reference = Err (HL7 EInvalidName) \/
                exists r, seg_good (upper name) r /\ structure_for t SEG (upper name) reference = parse_structure t r).
    { unfold structure_for, load_reference. cbn [table_of]. destruct reference as [r|].
      - right. exists r. split; [now apply Href|reflexivity].
      - destruct (slookup (upper name) (t_segments t)) as [r|] eqn:E; [|now left].
        right. exists r. split; [|reflexivity]. apply Hsegs; [now rewrite upper_length|exact E]. }
    destruct G as [-> | [r [[rows [-> [H3 [Hc Hg]]]] ->]]]; [triv|].
    destruct (rows_parse (SSeqIn false rows None) false rows None (upper name) FIE eq_refl Hc Hg)
      as [st [-> [Hs [Ho Hb]]]].
    rewrite upper_length in H3.
    cbn [bind]. rewrite Ho. destruct (length rows) as [|n] eqn:En.
    + cbn. auto.
    + rewrite last_opt_names.
      destruct (nth_error rows n) as [row|] eqn:Er; [|apply nth_error_None in Er; lia].
      destruct (Hg row (nth_error_In _ _ Er)) as [fr [Hfr _]].
      rewrite (Hb n row fr Er Hfr). cbn [se_name se_ref].
      rewrite name_idx3_drop4 by (now rewrite upper_length). rewrite nat_to_str_py_int.
      cbn. auto.
Qed.

Lemma mk_segment_safe name : length name <= 3 ->
  sp (fun s => st_ok (s_st s) /\ s_children s = [] /\ length name = 3) (mk_segment t name None).
Proof. intros H. apply mk_segment_safe_ref; [exact H|]. intros r E. discriminate. Qed.

(* C15, segment level: parse_segment returns a Segment or raises one of the library's exceptions,
   and every Segment it returns can be encoded, with and without trailing children *)
Theorem parse_segment_safe_ref text reference :
  (forall r, reference = Some r -> seg_good (upper (seg_name_of text)) r) ->
  sp (fun s => forall e' trailing, exists x, enc_segment t e' s trailing = Ok x)
     (parse_segment t lvl e leaf text reference).
Proof.
  intros Href. unfold parse_segment.
  apply (sp_bind (fun s => st_ok (s_st s) /\ s_children s = [] /\ length (seg_name_of text) = 3)).
  - apply mk_segment_safe_ref; [|exact Href]. unfold seg_name_of, take. apply firstn_le_length.
  - intros s [Hs [Hc H3]]. unfold parse_segment_in, parse_fields.
    apply (sp_bind (Forall (seg_field (seg_name_of text)))); [now apply parse_fields_aux_safe|].
    intros kids Hk.
    eapply sp_post.
    + apply (add_fields_safe (upper (seg_name_of text))); [now rewrite upper_length|].
      eapply Forall_impl; [|exact Hk]. intros f [Hf _]. exact Hf.
    + intros s' Es _ e' trailing. apply add_fields_appends in Es. destruct Es as [Es _].
      apply enc_segment_total. intros f Hf. rewrite Es, Hc in Hf. cbn [app] in Hf.
      rewrite Forall_forall in Hk. exact (proj2 (Hk f Hf) e').
Qed.

Theorem parse_segment_safe text :
  sp (fun s => forall e' trailing, exists x, enc_segment t e' s trailing = Ok x)
     (parse_segment t lvl e leaf text None).
Proof. apply parse_segment_safe_ref. intros r E. discriminate. Qed.

End NC.

(* ---------- reading the outcome ---------- *)
Lemma sp_hl7_cases {A} (P : A -> Prop) r : sp hl7_only P r ->
  (exists a, r = Ok a /\ P a) \/ (exists c, r = Err (HL7 c)).
Proof. destruct r as [a|[c| |k|]]; cbn; intros H; try tauto; [left; eauto|right; eauto]. Qed.

Lemma sp_value_cases {A} lvl (P : A -> Prop) r : sp (hl7_or_value lvl) P r ->
  (exists a, r = Ok a /\ P a) \/ (exists c, r = Err (HL7 c)) \/ (r = Err PyValueError /\ lvl = STRICT).
Proof. destruct r as [a|[c| |k|]]; cbn; intros H; try tauto; [left; eauto|right; left; eauto]. Qed.
