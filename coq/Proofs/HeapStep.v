(* One step of a history keeps the invariant, whether the call succeeds or raises (C10), for every
   operation of Model/Heap.v whose element arguments are detached, with the exotic paths off. *)
From Coq Require Import List Bool Arith Lia ZArith NArith Init.Byte.
From HL7 Require Import Lib.Str Model.Ec Model.Result Model.Ref Model.Tree Model.Parser Model.Encode Model.Heap.
From HL7 Require Import Proofs.HeapFacts Proofs.HeapInv Proofs.HeapOps Proofs.HeapAlloc Proofs.HeapSteps.
Import ListNotations.

(* the state of a history: the heap is consistent and every handle names an allocated element *)
Definition RInv (r : rstate) : Prop :=
  Inv (r_store r) /\ forall h, In h (r_handles r) -> h < s_next (r_store r).

(* the element behind a handle is detached: listed by no element, no traversal parent, in no
   traversal index (see Proofs/HeapInv.v `cand`) *)
Definition detached (r : rstate) (h : nat) : Prop :=
  match nth_error (r_handles r) h with Some c => cand (r_store r) c | None => True end.

Definition hval_safe (r : rstate) (v : hvalue) : Prop :=
  match v with HElem h => detached r h | _ => True end.

(* the side condition of the partial theorems *)
Definition op_safe (r : rstate) (o : op) : Prop :=
  match o with
  | OAdd _ c => detached r c
  | OSetAttr _ names v =>
      hval_safe r v /\ match v with HElem _ => pos_shaped (last names []) = false | _ => True end
  | OSetIndex _ _ _ v => hval_safe r v
  | OSetListIndex _ _ v => hval_safe r v
  | OSetParent c _ => detached r c
  | _ => True
  end.

Section Step.
Variable t : tables.
Variable e : ec.
Variable le : level -> option str -> str -> result str.

Definition HB (r : rstate) : nat -> Prop := fun d => In d (r_handles r).

Lemma handle_ok r h i : handle r h = Ok i -> HB r i.
Proof. unfold handle. destruct (nth_error (r_handles r) h) eqn:E; [|discriminate]. intros [= <-]. eapply nth_error_In; eauto. Qed.
Lemma handle_detached r h i : detached r h -> handle r h = Ok i -> cand (r_store r) i.
Proof. unfold detached, handle. destruct (nth_error (r_handles r) h); [|discriminate]. now intros H [= <-]. Qed.

Lemma cand_of_hval r v : hval_safe r v -> forall h i, v = HElem h -> handle r h = Ok i -> cand (r_store r) i.
Proof. intros Hv h i -> E. eapply handle_detached; eauto. Qed.

Definition outcome_ok (r : rstate) (x : store * result (option nat * str)) : Prop :=
  match x with
  | (s', Ok (Some i, _)) => K Unone (HB r) s' /\ i < s_next s'
  | (s', Ok (None, _)) => K Unone (HB r) s'
  | (s', Err _) => K Unone (HB r) s'
  end.

(* a value that passed hval and resolve_value *)
Lemma value_spec r v U :
  hval_safe r v ->
  (forall c, v = HElem c -> forall i, handle r c = Ok i -> ~ U i) ->
  spec (let! v0 := lift (hval r v) in resolve_value t le false v0)%heap
       (fun s => K U (HB r) s /\ (forall h i, v = HElem h -> handle r h = Ok i -> cand s i))
       (fun v' s => K U (HB r) s /\ vok U s v' /\ (match v' with VElem _ => exists h, v = HElem h | _ => True end))
       (K U (HB r)).
Proof.
  intros Hs HU s (HK & Hc). rewrite mbind_run. unfold lift.
  destruct v as [txt|h|h n|dt txt]; cbn [hval].
  - cbn. auto.
  - destruct (handle r h) as [i|ex] eqn:Eh; [|exact HK]. cbn. split; auto. split; [|eauto].
    split; [eapply HU; eauto|eapply Hc; eauto].
  - destruct (handle r h) as [i|ex] eqn:Eh; [|exact HK]. cbn [resolve_value]. rewrite mbind_run.
    pose proof (get_proxy_spec t le U (HB r) i n s (conj HK (K_B _ _ _ _ HK (handle_ok _ _ _ Eh)))) as H.
    step_with H; [|exact H]. destruct r0 as [o pn]. cbn [ret]. split; [apply H|]. cbn. auto.
  - cbn. auto.
Qed.

Lemma op_m_ok r o : RInv r -> op_safe r o -> outcome_ok r (op_m t e le false r o (r_store r)).
Proof.
  intros [I Hh] Hs. set (s := r_store r).
  assert (HK : K Unone (HB r) s) by (split; [exact I|split]; [intros d []|exact Hh]).
  unfold outcome_ok, op_m.
  (* reading a handle *)
  assert (RH : forall h (k : nat -> M (option nat * str)),
             (forall i, handle r h = Ok i -> i < s_next s -> outcome_ok r (k i s)) ->
             outcome_ok r (mbind (lift (handle r h)) k s)).
  { intros h k Hk. rewrite mbind_run. unfold lift. destruct (handle r h) as [i|ex] eqn:Eh; [|exact HK].
    apply Hk; auto. apply (K_B _ _ _ _ HK). eapply handle_ok; eauto. }
  assert (NEW : forall m : M nat, spec m (K Unone (HB r)) (fresh_post Unone (HB r)) (K Unone (HB r)) ->
                outcome_ok r ((let! i := m in ret (Some i, []))%heap s)).
  { intros m Hm. rewrite mbind_run. pose proof (Hm s HK) as H. step_with H; [|exact H].
    destruct H as (H1 & _ & (_ & H2 & _)). unfold ret. split; auto. }
  destruct o.
  - apply NEW. intros s0 H0. unfold new_segment. rewrite mbind_run. unfold lift.
    destruct (mk_segment t name None); [now apply (alloc_seg_spec t)|exact H0].
  - apply NEW. intros s0 H0. unfold new_field. rewrite mbind_run. unfold lift.
    destruct (mk_field t lvl name dt None); [now apply (alloc_field_spec t)|exact H0].
  - apply NEW. intros s0 H0. unfold new_component. rewrite mbind_run. unfold lift.
    destruct (mk_component t lvl name dt None); [now apply (alloc_comp_spec t)|exact H0].
  - apply NEW. intros s0 H0. unfold new_subcomponent. rewrite mbind_run. unfold lift.
    destruct (mk_subcomponent t lvl (le lvl) name dt text None); [now apply (alloc_sub_spec t)|exact H0].
  - (* OAdd *)
    apply RH. intros ix Ex Hx. apply RH. intros ic Ec Hc. rewrite mbind_run.
    pose proof (add_spec t Unone (HB r) ix ic s
                  (conj HK (cand_addable Unone s ic ix (fun F => F) (handle_detached r c ic Hs Ec)))) as H.
    step_with H; exact H.
  - (* OSetAttr *)
    destruct Hs as [Hv Hp]. apply RH. intros ix Ex Hx. rewrite mbind_run.
    pose proof (value_spec r v Unone Hv (fun _ _ _ _ F => F) s
                  (conj HK (cand_of_hval r v Hv))) as H.
    step_with H; [|exact H]. destruct H as (H1 & H2 & H3). rewrite mbind_run.
    assert (Hpl : velem_plain r0 (last names [])).
    { destruct r0; cbn; auto. destruct H3 as [h ->]. exact Hp. }
    pose proof (write_chain_spec t e le Unone (HB r) ix names r0 s0
                  (conj H1 (conj (K_B _ _ _ _ H1 (handle_ok _ _ _ Ex)) (conj H2 Hpl)))) as H.
    step_with H; [apply H|exact H].
  - (* OSetIndex *)
    apply RH. intros ix Ex Hx. rewrite mbind_run.
    pose proof (value_spec r v Unone Hs (fun _ _ _ _ F => F) s
                  (conj HK (cand_of_hval r v Hs))) as H.
    step_with H; [|exact H]. destruct H as (H1 & H2 & H3). rewrite mbind_run.
    (* the element handed in stays a candidate while the chain is walked *)
    destruct r0 as [txt|c|o pn|dt txt].
    + pose proof (read_chain_spec t le Unone (HB r) ix names s0 (conj H1 (K_B _ _ _ _ H1 (handle_ok _ _ _ Ex)))) as H.
      step_with H; [|exact H]. destruct H as (H4 & _ & H6). destruct r0 as [o pn]. rewrite mbind_run.
      pose proof (set_child_spec' t e le Unone (HB r) o pn (VText txt) i s1 (conj H4 (conj H6 Logic.I))) as H.
      step_with H; [apply H|exact H].
    + destruct H2 as [_ Hc].
      pose proof (read_chain_spec t le (fun d => Unone d \/ d = c) (HB r) ix names s0
                    (conj (K_addU _ _ _ _ H1 Hc) (K_B _ _ _ _ H1 (handle_ok _ _ _ Ex)))) as H.
      step_with H; [|now apply K_dropU in H]. destruct H as (H4 & _ & H6). destruct r0 as [o pn]. rewrite mbind_run.
      pose proof (cand_unfold _ _ _ c H4 (or_intror eq_refl)) as Hc1. apply K_dropU in H4.
      pose proof (set_child_spec' t e le Unone (HB r) o pn (VElem c) i s1
                    (conj H4 (conj H6 (conj (fun F => F) Hc1)))) as H.
      step_with H; [apply H|exact H].
    + pose proof (read_chain_spec t le Unone (HB r) ix names s0 (conj H1 (K_B _ _ _ _ H1 (handle_ok _ _ _ Ex)))) as H.
      step_with H; [|exact H]. destruct H as (H4 & _ & H6). destruct r0 as [o' pn']. rewrite mbind_run.
      pose proof (set_child_spec' t e le Unone (HB r) o' pn' (VProxy o pn) i s1 (conj H4 (conj H6 Logic.I))) as H.
      step_with H; [apply H|exact H].
    + pose proof (read_chain_spec t le Unone (HB r) ix names s0 (conj H1 (K_B _ _ _ _ H1 (handle_ok _ _ _ Ex)))) as H.
      step_with H; [|exact H]. destruct H as (H4 & _ & H6). destruct r0 as [o pn]. rewrite mbind_run.
      pose proof (set_child_spec' t e le Unone (HB r) o pn (VDt dt txt) i s1 (conj H4 (conj H6 Logic.I))) as H.
      step_with H; [apply H|exact H].
  - (* OSetListIndex *)
    apply RH. intros ix Ex Hx. rewrite mbind_run.
    pose proof (value_spec r v Unone Hs (fun _ _ _ _ F => F) s
                  (conj HK (cand_of_hval r v Hs))) as H.
    step_with H; [|exact H]. destruct H as (H1 & H2 & _). rewrite mbind_run.
    pose proof (set_list_index_spec t e le Unone (HB r) ix i r0 s0
                  (conj H1 (conj (K_B _ _ _ _ H1 (handle_ok _ _ _ Ex)) H2))) as H.
    step_with H; [apply H|exact H].
  - (* ODelAttr *)
    apply RH. intros ix Ex Hx. destruct (split_last names) as [[f l]|]; [|exact HK].
    destruct f as [|f0 f].
    + rewrite mbind_run. pose proof (del_attr_spec t le Unone (HB r) ix l s (conj HK Hx)) as H. step_with H; exact H.
    + rewrite mbind_run.
      pose proof (read_chain_spec t le Unone (HB r) ix (f0 :: f) s (conj HK Hx)) as H. step_with H; [|exact H].
      destruct H as (H1 & _ & H3). destruct r0 as [o pn]. cbn [mbind node_of].
      destruct (iget (Some pn) (n_idx (getn s0 o))) as [|c cs] eqn:Ei; [exact H1|].
      rewrite mbind_run.
      assert (Hc : c < s_next s0).
      { assert (Hin : In c (iget (Some pn) (n_idx (getn s0 o)))) by (rewrite Ei; now left).
        rewrite (I_index _ (K_Inv _ _ _ H1)) in Hin. apply filter_In in Hin.
        apply (I_bound _ (K_Inv _ _ _ H1) o). tauto. }
      pose proof (del_attr_spec t le Unone (HB r) c l s0 (conj H1 Hc)) as H. step_with H; exact H.
  - (* ODelIndex *)
    apply RH. intros ix Ex Hx. rewrite mbind_run.
    pose proof (read_chain_spec t le Unone (HB r) ix names s (conj HK Hx)) as H. step_with H; [|exact H].
    destruct H as (H1 & _ & H3). destruct r0 as [o pn]. cbn [mbind node_of].
    destruct (py_nth _ i) as [c|]; [|exact H1]. rewrite mbind_run.
    pose proof (remove_child_K Unone (HB r) o c s0 H1) as H. step_with H; exact H.
  - (* ODelListIndex *)
    apply RH. intros ix Ex Hx. rewrite mbind_run.
    pose proof (del_list_index_spec Unone (HB r) ix i s HK) as H. step_with H; exact H.
  - (* ORemove *)
    apply RH. intros ix Ex Hx. apply RH. intros ic Ec Hc. rewrite mbind_run.
    pose proof (remove_child_K Unone (HB r) ix ic s HK) as H. step_with H; exact H.
  - (* OAddHelper *)
    apply RH. intros ix Ex Hx. rewrite mbind_run.
    pose proof (add_helper_spec t le Unone (HB r) ix name s (conj HK Hx)) as H. step_with H; exact H.
  - (* OGrab *)
    apply RH. intros ix Ex Hx. rewrite mbind_run.
    pose proof (read_chain_spec t le Unone (HB r) ix names s (conj HK Hx)) as H. step_with H; [|exact H].
    destruct H as (H1 & _ & H3). destruct r0 as [o pn]. cbn [mbind node_of].
    destruct (py_nth _ i) as [c|] eqn:En; [|exact H1]. cbn [ret]. split; auto.
    apply py_nth_In in En. rewrite (I_index _ (K_Inv _ _ _ H1)) in En. apply filter_In in En.
    apply (I_bound _ (K_Inv _ _ _ H1) o). tauto.
  - (* OGrabList *)
    apply RH. intros ix Ex Hx. cbn [mbind node_of].
    destruct (nth_error _ i) as [c|] eqn:En; [|exact HK]. cbn [ret]. split; auto.
    apply nth_error_In in En. apply (I_bound _ I ix c En).
  - (* ORead *)
    apply RH. intros ix Ex Hx. rewrite mbind_run.
    pose proof (read_chain_spec t le Unone (HB r) ix names s (conj HK Hx)) as H. step_with H; [|exact H].
    destruct r0 as [o pn]. apply H.
  - (* OReadValue *)
    apply RH. intros ix Ex Hx. rewrite mbind_run.
    pose proof (read_value_spec t e le Unone (HB r) ix names s (conj HK Hx)) as H. step_with H; [apply H|exact H].
  - (* OLen *)
    apply RH. intros ix Ex Hx. rewrite mbind_run.
    pose proof (read_chain_spec t le Unone (HB r) ix names s (conj HK Hx)) as H. step_with H; [|exact H].
    destruct r0 as [o pn]. apply H.
  - apply RH. intros ix Ex Hx. exact HK.
  - apply RH. intros ix Ex Hx. exact HK.
  - (* OSetValueChain *)
    apply RH. intros ix Ex Hx. rewrite mbind_run.
    pose proof (write_value_spec t e le Unone (HB r) ix names text s (conj HK Hx)) as H. step_with H; [apply H|exact H].
  - (* OSetValue *)
    apply RH. intros ix Ex Hx. rewrite mbind_run.
    pose proof (set_value_spec t e le Unone (HB r) ix text s (conj HK Hx)) as H. step_with H; [apply H|exact H].
  - (* OSetValueDt *)
    apply RH. intros ix Ex Hx. rewrite mbind_run.
    pose proof (set_value_dt_spec t le 3 Unone (HB r) ix dt text s (conj HK Hx)) as H. step_with H; exact H.
  - (* OSetDatatype *)
    apply RH. intros ix Ex Hx. rewrite mbind_run.
    pose proof (set_datatype_spec t Unone (HB r) 3 ix dt s HK) as H. step_with H; exact H.
  - (* OSetParent *)
    apply RH. intros ic Ec Hc. pose proof (handle_detached r c ic Hs Ec) as (Hu & Hb & _).
    destruct p as [p|].
    + apply RH. intros ip Ep Hp. rewrite mbind_run.
      pose proof (set_parent_spec t Unone (HB r) ic (Some ip) s (conj HK (conj (fun F => F) (conj Hu Hb)))) as H.
      step_with H; exact H.
    + rewrite mbind_run.
      pose proof (set_parent_spec t Unone (HB r) ic None s (conj HK (conj (fun F => F) (conj Hu Hb)))) as H.
      step_with H; exact H.
  - (* ORemoveByName *)
    apply RH. intros ix Ex Hx. rewrite mbind_run.
    pose proof (remove_by_name_spec t Unone (HB r) ix name i s HK) as H. step_with H; exact H.
  - (* OSetValueNone *)
    apply RH. intros ix Ex Hx. rewrite mbind_run.
    pose proof (write_value_none_spec t le Unone (HB r) ix names s (conj HK Hx)) as H. step_with H; exact H.
Qed.

Theorem step_inv r o : RInv r -> op_safe r o -> RInv (fst (fst (step t e le false r o))).
Proof.
  intros HR Hs. pose proof (op_m_ok r o HR Hs) as H. unfold step.
  destruct (op_m t e le false r o (r_store r)) as [s' [[[i|] res]|x]]; cbn [fst r_store r_handles] in *.
  - destruct H as [(I & _ & D) Hi]. split; auto. intros h Hh. apply in_app_or in Hh.
    destruct Hh as [Hh|[<-|[]]]; auto.
  - destruct H as (I & _ & D). split; auto.
  - destruct H as (I & _ & D). split; auto.
Qed.

(* ---------- histories ---------- *)

Fixpoint run_hist (x : bool) (r : rstate) (ops : list op) : rstate :=
  match ops with
  | [] => r
  | o :: k => run_hist x (fst (fst (step t e le x r o))) k
  end.

(* every operation of the history meets the side condition in the state it is applied to *)
Fixpoint hist_safe (r : rstate) (ops : list op) : Prop :=
  match ops with
  | [] => True
  | o :: k => op_safe r o /\ hist_safe (fst (fst (step t e le false r o))) k
  end.

Theorem hist_inv ops : forall r, RInv r -> hist_safe r ops -> RInv (run_hist false r ops).
Proof.
  induction ops as [|o k IH]; intros r HR Hs; cbn [run_hist]; auto.
  destruct Hs as [Ho Hk]. apply IH; auto. now apply step_inv.
Qed.

(* the exotic paths are not taken anywhere along the history *)
Fixpoint hist_plain (r : rstate) (ops : list op) : Prop :=
  match ops with
  | [] => True
  | o :: k => step t e le true r o = step t e le false r o /\ hist_plain (fst (fst (step t e le false r o))) k
  end.
Lemma run_plain ops : forall r, hist_plain r ops -> run_hist true r ops = run_hist false r ops.
Proof.
  induction ops as [|o k IH]; intros r H; cbn [run_hist]; auto. destruct H as [E Hk]. rewrite E. now apply IH.
Qed.

Lemma RInv_init : RInv init_rstate.
Proof.
  split; [|intros h []]. constructor; unfold init_rstate, empty_store, getn; cbn.
  - intros p c [].
  - intros p. constructor.
  - intros p k. reflexivity.
  - intros p c [].
  - intros p c [].
  - discriminate.
  - intros p. split; [constructor|split]; [intros k l c []|intros k l []].
Qed.

End Step.
