(* Facts about Model/Validate.v: the declarative reading `conforms` of a reference and the proof
   that the validator reports no error exactly on conforming trees (segment level: all trees, all
   well-formed references), the named-error lemmas and the wrapper. *)
From Coq Require Import List Bool ZArith NArith Lia Init.Byte.
From HL7 Require Import Lib.Str Model.Ec Model.Result Model.Ref Model.Tree Model.Parser Model.Encode
                        Model.MsgTree Model.Validate.
Import ListNotations.
Open Scope bs_scope.
Open Scope res_scope.

(* ================================================================================================ *)
(* logs                                                                                             *)

Lemma errors_of_app a b : errors_of (a ++ b) = errors_of a ++ errors_of b.
Proof. unfold errors_of. apply flat_map_app. Qed.
Lemma warnings_of_app a b : warnings_of (a ++ b) = warnings_of a ++ warnings_of b.
Proof. unfold warnings_of. apply flat_map_app. Qed.

Lemma errors_of_In x l : In x (errors_of l) <-> In (VE x) l.
Proof.
  unfold errors_of. rewrite in_flat_map. split.
  - intros [m [Hm Hx]]. destruct m as [y|w]; simpl in Hx; [destruct Hx as [->|[]]; exact Hm | destruct Hx].
  - intros H. exists (VE x). split; [exact H | now left].
Qed.

(* a run of the validator that raised nothing and appended no error *)
Definition clean (r : result (list vmsg)) : Prop := exists l, r = Ok l /\ errors_of l = [].

Lemma clean_ok l : clean (Ok l) <-> errors_of l = [].
Proof. split; [intros [l' [E H]]; now inversion E; subst | intros H; now exists l]. Qed.
Lemma clean_err A x : ~ clean (@Err (list vmsg) x) /\ (A -> True).
Proof. split; [intros [l [E _]]; discriminate | trivial]. Qed.
Lemma not_clean_err x : ~ clean (Err x).
Proof. intros [l [E _]]; discriminate. Qed.
Lemma clean_nil : clean (Ok []).
Proof. now apply clean_ok. Qed.

Lemma app_nil_iff {A} (a b : list A) : a ++ b = [] <-> a = [] /\ b = [].
Proof. split; [apply app_eq_nil | intros [-> ->]; reflexivity]. Qed.

Lemma clean_seq_res l : clean (seq_res l) <-> Forall clean l.
Proof.
  induction l as [|r l IH]; cbn [seq_res].
  - split; [constructor | intros _; apply clean_nil].
  - destruct r as [a|x].
    + destruct (seq_res l) as [b|y].
      * rewrite clean_ok, errors_of_app, app_nil_iff. split.
        -- intros [Ha Hb]. constructor; [now apply clean_ok | apply IH; now apply clean_ok].
        -- intros H. inversion H as [|? ? H1 H2]; subst. split; [now apply clean_ok in H1 | apply clean_ok; now apply IH].
      * split; [intros H; now apply not_clean_err in H |].
        intros H. inversion H as [|? ? H1 H2]; subst. apply IH in H2. now apply not_clean_err in H2.
    + split; [intros H; now apply not_clean_err in H | intros H; inversion H as [|? ? H1 H2]; subst; now apply not_clean_err in H1].
Qed.

Lemma seq_res_incl {A} (l : list (result (list A))) x a :
  seq_res l = Ok x -> In (Ok a) l -> incl a x.
Proof.
  revert x; induction l as [|r l IH]; intros x H Hin; [destruct Hin|].
  cbn [seq_res] in H. destruct r as [a'|?]; [|discriminate].
  destruct (seq_res l) as [b|?] eqn:E; [|discriminate]. inversion H; subst x.
  destruct Hin as [Heq|Hin].
  - inversion Heq; subst. now apply incl_appl, incl_refl.
  - apply incl_appr. now apply IH.
Qed.

Lemma seq_res_ok_all {A} (l : list (result (list A))) x r :
  seq_res l = Ok x -> In r l -> exists a, r = Ok a.
Proof.
  revert x; induction l as [|r' l IH]; intros x H Hin; [destruct Hin|].
  cbn [seq_res] in H. destruct r' as [a'|?]; [|discriminate].
  destruct (seq_res l) as [b|?] eqn:E; [|discriminate].
  destruct Hin as [<-|Hin]; [now exists a' | now apply (IH b)].
Qed.

(* ================================================================================================ *)
(* small facts about names                                                                          *)

Lemma opt_eqb_spec a b : reflect (a = b) (opt_eqb a b).
Proof.
  destruct a as [x|], b as [y|]; simpl; try (constructor; congruence).
  destruct (streqb_spec x y); constructor; congruence.
Qed.
Lemma opt_eqb_refl a : opt_eqb a a = true.
Proof. destruct (opt_eqb_spec a a); congruence. Qed.
Lemma opt_eqb_true a b : opt_eqb a b = true <-> a = b.
Proof. destruct (opt_eqb_spec a b); split; congruence. Qed.
Lemma opt_eqb_false a b : opt_eqb a b = false <-> a <> b.
Proof. destruct (opt_eqb_spec a b); split; congruence. Qed.

Lemma smem_In k l : smem k l = true <-> In k l.
Proof.
  unfold smem. rewrite existsb_exists. split.
  - intros [x [Hin Hx]]. apply streqb_eq in Hx. now subst.
  - intros H. exists k. split; [exact H | apply streqb_refl].
Qed.

Lemma dedup_nil l : dedup l = [] <-> l = [].
Proof. destruct l; simpl; split; congruence. Qed.
Lemma dedup_In x l : In x (dedup l) <-> In x l.
Proof.
  induction l as [|y l IH]; simpl; [tauto|].
  rewrite filter_In, IH. split.
  - intros [H|[H _]]; tauto.
  - intros [H|H]; [now left|]. destruct (opt_eqb_spec y x) as [->|N]; [now left|].
    right. split; [exact H|]. destruct (opt_eqb_spec y x); [contradiction|reflexivity].
Qed.

(* nodupb of Lib/Str.v over strings *)
Lemma mem_streqb_In x l : mem streqb x l = true <-> In x l.
Proof.
  unfold mem. rewrite existsb_exists. split.
  - intros [y [Hin Hy]]. apply streqb_eq in Hy. now subst.
  - intros H. exists x. split; [exact H | apply streqb_refl].
Qed.
Lemma nodupb_NoDup l : nodupb streqb l = true -> NoDup l.
Proof.
  induction l as [|x l IH]; simpl; [constructor|].
  rewrite andb_true_iff, negb_true_iff. intros [Hm Hn]. constructor; [|now apply IH].
  intros Hin. apply mem_streqb_In in Hin. congruence.
Qed.

(* ================================================================================================ *)
(* the declarative reading of a sequence of rows                                                    *)

Definition min_total (rs : list vchild) : Z := fold_right (fun vc a => (vc_mn vc + a)%Z) 0%Z rs.
(* None = unbounded *)
Definition max_total (rs : list vchild) : option Z :=
  fold_right (fun vc a => match a with
                          | None => None
                          | Some m => if (vc_mx vc =? -1)%Z then None else Some (vc_mx vc + m)%Z
                          end) (Some 0%Z) rs.
(* cnt children against all the declarations of their name: between the sum of the minima and the
   sum of the maxima (-1 = unbounded) *)
Definition in_card (cnt : nat) (rs : list vchild) : Prop :=
  (min_total rs <= Z.of_nat cnt)%Z /\
  match max_total rs with None => True | Some m => (Z.of_nat cnt <= m)%Z end.

Lemma in_card_single cnt vc :
  in_card cnt [vc] <-> (vc_mn vc <= Z.of_nat cnt)%Z /\ (vc_mx vc = -1 \/ Z.of_nat cnt <= vc_mx vc)%Z.
Proof.
  unfold in_card, min_total, max_total. cbn [fold_right].
  destruct (Z.eqb_spec (vc_mx vc) (-1)) as [E|N].
  - split; intros [H1 H2]; (split; [lia|]); [now left | trivial].
  - split; intros [H1 H2]; (split; [lia|]); [right; lia | destruct H2; [contradiction|lia]].
Qed.

(* the validator's test of one declaration against the number of children of its name *)
Definition row_check (cnt : nat) (d : vchild) : Prop :=
  (vc_mn d <= Z.of_nat cnt)%Z /\ (vc_mx d = -1 \/ Z.of_nat cnt <= vc_mx d)%Z.

Lemma rows_of_In n rows d : In d (rows_of n rows) <-> In d rows /\ vc_name d = n.
Proof.
  unfold rows_of. rewrite filter_In. split; intros [H1 H2]; (split; [exact H1|]).
  - now apply streqb_eq. - subst. apply streqb_refl.
Qed.

Lemma min_total_ge ds : (forall d, In d ds -> 0 <= vc_mn d)%Z -> forall d, In d ds -> (vc_mn d <= min_total ds)%Z.
Proof.
  induction ds as [|a ds IH]; intros H0 d Hd; [destruct Hd|]. cbn [min_total fold_right].
  assert (0 <= min_total ds)%Z.
  { clear IH Hd. induction ds as [|b ds IH']; cbn [min_total fold_right]; [lia|].
    assert (0 <= vc_mn b)%Z by (apply H0; right; now left).
    assert (0 <= min_total ds)%Z by (apply IH'; intros x Hx; apply H0; destruct Hx as [->|Hx]; [now left | right; now right]).
    unfold min_total in *. lia. }
  destruct Hd as [->|Hd].
  - unfold min_total in *. lia.
  - assert (vc_mn d <= min_total ds)%Z by (apply IH; [intros x Hx; apply H0; now right | exact Hd]).
    assert (0 <= vc_mn a)%Z by (apply H0; now left). unfold min_total in *. lia.
Qed.

Lemma min_total_zero ds : filter (fun d => negb (vc_mn d =? 0)%Z) ds = [] -> min_total ds = 0%Z.
Proof.
  induction ds as [|a ds IH]; cbn [filter min_total fold_right]; [reflexivity|].
  destruct (Z.eqb_spec (vc_mn a) 0) as [E|N]; cbn [negb]; [|discriminate].
  intros H. rewrite E. unfold min_total in IH. rewrite (IH H). reflexivity.
Qed.

Lemma min_total_le ds c :
  (length (filter (fun d => negb (vc_mn d =? 0)%Z) ds) <= 1)%nat ->
  (forall d, In d ds -> vc_mn d <= c)%Z -> (0 <= c)%Z -> (min_total ds <= c)%Z.
Proof.
  induction ds as [|a ds IH]; intros HL HA Hc; cbn [min_total fold_right]; [exact Hc|].
  cbn [filter] in HL. destruct (Z.eqb_spec (vc_mn a) 0) as [E|N]; cbn [negb] in HL.
  - rewrite E. cbn. apply IH; [exact HL | intros d Hd; apply HA; now right | exact Hc].
  - cbn [length] in HL. assert (HF : filter (fun d => negb (vc_mn d =? 0)%Z) ds = []).
    { destruct (filter _ ds); [reflexivity | cbn [length] in HL; lia]. }
    fold (min_total ds). rewrite (min_total_zero ds HF). assert (vc_mn a <= c)%Z by (apply HA; now left). lia.
Qed.

Lemma max_total_open ds : ds <> [] -> (forall d, In d ds -> vc_mx d = (-1)%Z) -> max_total ds = None.
Proof.
  destruct ds as [|a ds]; [congruence|]. intros _ H. cbn [max_total fold_right].
  destruct (fold_right _ _ ds); [|reflexivity]. rewrite (H a (or_introl eq_refl)). reflexivity.
Qed.

(* for the declarations ds of one name, when decl_ok holds: the per-declaration tests agree with
   the declarations taken together *)
Lemma decl_ok_card rows vc cnt :
  In vc rows -> decl_ok rows vc = true ->
  (forall d, In d (rows_of (vc_name vc) rows) -> row_check cnt d) <->
  in_card cnt (rows_of (vc_name vc) rows).
Proof.
  intros Hin. unfold decl_ok.
  assert (Hvc : In vc (rows_of (vc_name vc) rows)) by (apply rows_of_In; now split).
  destruct (rows_of (vc_name vc) rows) as [|a [|b ds]] eqn:E; [destruct Hvc| |].
  - intros _. rewrite in_card_single. unfold row_check. split.
    + intros H. apply H. now left.
    + intros H d [<-|[]]. exact H.
  - rewrite andb_true_iff, forallb_forall, Nat.leb_le. intros [HO HL].
    assert (HM : forall d, In d (a :: b :: ds) -> vc_mx d = (-1)%Z /\ (0 <= vc_mn d)%Z).
    { intros d Hd. specialize (HO d Hd). apply andb_true_iff in HO. destruct HO as [H1 H2].
      split; [now apply Z.eqb_eq | now apply Z.leb_le]. }
    unfold in_card. rewrite (max_total_open (a :: b :: ds)); [|discriminate | intros d Hd; now apply HM].
    split.
    + intros H. split; [|trivial]. apply min_total_le; [exact HL | intros d Hd; now apply H | lia].
    + intros [H _] d Hd. split; [|left; now apply HM].
      assert (vc_mn d <= min_total (a :: b :: ds))%Z by (apply min_total_ge; [intros x Hx; now apply HM | exact Hd]). lia.
Qed.

Section SeqSpec.
Variable A : Type.
Variable nm : A -> option str.
Variable isz : A -> bool.
Variable conf : option sref -> A -> Prop.          (* conformance of one child to a reference *)

(* the children `kids` of an element against the rows of its (sequence/choice) reference *)
Record conf_children (rows : list vchild) (kids : list A) : Prop := mk_conf_children {
  (* every child's name is declared (Z-children are exempt) *)
  cc_declared : forall k, In k kids -> isz k = false -> exists vc, In vc rows /\ nm k = Some (vc_name vc);
  (* for every declared name the number of children of that name respects the cardinalities *)
  cc_card : forall vc, In vc rows -> in_card (length (named_kids nm kids (vc_name vc))) (rows_of (vc_name vc) rows);
  (* every child conforms to the reference declared for its name *)
  cc_each : forall vc k, In vc rows -> In k kids -> nm k = Some (vc_name vc) -> conf (Some (vc_ref vc)) k;
  (* Z-children conform on their own (no reference) *)
  cc_z : forall k, In k kids -> isz k = true -> conf None k
}.

Variable resolve : str -> option str.
Variable vkid : option sref -> A -> result (list vmsg).
Variable pname : option str.

(* the element's own structure knows every declared child under its declared name *)
Definition resolves (rows : list vchild) : Prop :=
  forall vc, In vc rows -> resolve (vc_name vc) = Some (vc_name vc).

Lemma check_repetitions_nil cnt mn mx n :
  errors_of (check_repetitions pname cnt mn mx n) = [] <->
  (mn <= Z.of_nat cnt)%Z /\ (mx = -1 \/ Z.of_nat cnt <= mx)%Z.
Proof.
  unfold check_repetitions.
  destruct (Z.eqb_spec mx (-1)) as [E|N]; cbn [negb];
    destruct (Z.ltb_spec (Z.of_nat cnt) mn) as [L|L]; cbn [errors_of flat_map app].
  - split; [discriminate | lia].
  - split; [intros _; split; [lia | now left] | reflexivity].
  - split; [discriminate | lia].
  - destruct (Z.gtb_spec (Z.of_nat cnt) mx) as [G|G]; cbn [errors_of flat_map app].
    + split; [discriminate | intros [_ [H|H]]; [contradiction | lia]].
    + split; [intros _; split; [lia | right; lia] | reflexivity].
Qed.

Lemma foreign_names_nil rows kids :
  foreign_names nm isz kids (map Some rows) = [] <->
  (forall k, In k kids -> isz k = false -> exists vc, In vc rows /\ nm k = Some (vc_name vc)).
Proof.
  unfold foreign_names. rewrite dedup_nil.
  assert (RN : row_names (map Some rows) = map vc_name rows).
  { unfold row_names. induction rows as [|r rows IH]; simpl; [reflexivity | now rewrite IH]. }
  rewrite RN. split.
  - intros H k Hk Hz.
    assert (Hin : In (nm k) (map nm (filter (fun k0 => negb (isz k0)) kids))).
    { apply in_map. apply filter_In. split; [exact Hk | now rewrite Hz]. }
    destruct (omem (nm k) (map vc_name rows)) eqn:Em.
    + unfold omem in Em. destruct (nm k) as [n|]; [|discriminate].
      apply smem_In, in_map_iff in Em. destruct Em as [vc [E Hvc]]. exists vc. split; [exact Hvc | now rewrite E].
    + exfalso. assert (Hf : In (nm k) (filter (fun n => negb (omem n (map vc_name rows))) (map nm (filter (fun k0 => negb (isz k0)) kids)))).
      { apply filter_In. split; [exact Hin | now rewrite Em]. }
      rewrite H in Hf. destruct Hf.
  - intros H. destruct (filter _ _) as [|x l] eqn:E; [reflexivity|]. exfalso.
    assert (Hx : In x (x :: l)) by now left. rewrite <- E in Hx. apply filter_In in Hx.
    destruct Hx as [Hx Hm]. apply in_map_iff in Hx. destruct Hx as [k [<- Hk]].
    apply filter_In in Hk. destruct Hk as [Hk Hz]. apply negb_true_iff in Hz.
    destruct (H k Hk Hz) as [vc [Hvc En]]. rewrite En in Hm. simpl in Hm.
    apply negb_true_iff in Hm. assert (smem (vc_name vc) (map vc_name rows) = true) by (apply smem_In; now apply in_map).
    congruence.
Qed.

Lemma check_allowed_nil rows kids :
  errors_of (check_allowed nm isz pname kids (map Some rows)) = [] <->
  (forall k, In k kids -> isz k = false -> exists vc, In vc rows /\ nm k = Some (vc_name vc)).
Proof.
  rewrite <- foreign_names_nil. unfold check_allowed.
  destruct (foreign_names nm isz kids (map Some rows)); cbn [errors_of flat_map app]; split; congruence.
Qed.

Lemma forall_cond_map (p : A -> bool) (f : A -> result (list vmsg)) kids :
  Forall clean (map (fun k => if p k then f k else Ok []) kids) <->
  (forall k, In k kids -> p k = true -> clean (f k)).
Proof.
  rewrite Forall_forall. split.
  - intros H k Hk Hp. specialize (H _ (in_map _ _ _ Hk)). cbn beta in H. now rewrite Hp in H.
  - intros H r Hr. apply in_map_iff in Hr. destruct Hr as [k [<- Hk]].
    destruct (p k) eqn:Ep; [now apply H | apply clean_nil].
Qed.

Lemma clean_check_row kids vc :
  resolve (vc_name vc) = Some (vc_name vc) ->
  clean (check_row nm resolve vkid pname kids (Some vc)) <->
  ((vc_mn vc <= Z.of_nat (length (named_kids nm kids (vc_name vc))))%Z /\
   (vc_mx vc = -1 \/ Z.of_nat (length (named_kids nm kids (vc_name vc))) <= vc_mx vc)%Z) /\
  (forall k, In k kids -> nm k = Some (vc_name vc) -> clean (vkid (Some (vc_ref vc)) k)).
Proof.
  intros R. unfold check_row. rewrite R.
  destruct (seq_res (map _ kids)) as [b|x] eqn:E; cbn [bind].
  - rewrite clean_ok, errors_of_app, app_nil_iff, check_repetitions_nil.
    assert (Hb : errors_of b = [] <-> clean (seq_res (map (fun k => if is_named nm (vc_name vc) k then vkid (Some (vc_ref vc)) k else Ok []) kids)))
      by (rewrite E; symmetry; apply clean_ok).
    rewrite Hb, clean_seq_res, forall_cond_map. unfold is_named.
    split; intros [H1 H2]; (split; [exact H1|]); intros k Hk Hn; apply H2; try exact Hk;
      [now apply opt_eqb_true | now apply opt_eqb_true in Hn].
  - split; [intros H; now apply not_clean_err in H|].
    intros [_ H]. exfalso.
    assert (C : clean (seq_res (map (fun k => if is_named nm (vc_name vc) k then vkid (Some (vc_ref vc)) k else Ok []) kids))).
    { apply clean_seq_res, forall_cond_map. intros k Hk Hn. apply H; [exact Hk | now apply opt_eqb_true in Hn]. }
    rewrite E in C. now apply not_clean_err in C.
Qed.

(* the sequence branch reports no error exactly when the children conform - for rows without
   duplicate names, when the element resolves its declared names, and given the same statement for
   each child against the reference it is validated with *)
Lemma clean_check_seq rows kids :
  dups_ok rows = true ->
  resolves rows ->
  (forall vc k, In vc rows -> In k kids -> nm k = Some (vc_name vc) ->
     (clean (vkid (Some (vc_ref vc)) k) <-> conf (Some (vc_ref vc)) k)) ->
  (forall k, In k kids -> isz k = true -> (clean (vkid None k) <-> conf None k)) ->
  clean (check_seq nm isz resolve vkid pname kids (map Some rows)) <-> conf_children rows kids.
Proof.
  intros ND RS IHk IHz. unfold check_seq.
  set (R1 := seq_res (map (check_row nm resolve vkid pname kids) (map Some rows))).
  set (R2 := seq_res (map (fun k => if isz k then vkid None k else Ok []) kids)).
  assert (C1 : clean R1 <-> forall vc, In vc rows ->
                 in_card (length (named_kids nm kids (vc_name vc))) (rows_of (vc_name vc) rows) /\
                 (forall k, In k kids -> nm k = Some (vc_name vc) -> conf (Some (vc_ref vc)) k)).
  { unfold R1. rewrite clean_seq_res, map_map, Forall_forall.
    assert (RC : forall vc, In vc rows ->
              (clean (check_row nm resolve vkid pname kids (Some vc)) <->
               row_check (length (named_kids nm kids (vc_name vc))) vc /\
               (forall k, In k kids -> nm k = Some (vc_name vc) -> conf (Some (vc_ref vc)) k))).
    { intros vc Hvc. rewrite (clean_check_row kids vc (RS vc Hvc)). unfold row_check.
      split; intros [Hc Hk]; (split; [exact Hc|]); intros k Hin Hn; apply (IHk vc k Hvc Hin Hn); now apply Hk. }
    unfold dups_ok in ND. rewrite forallb_forall in ND. split.
    - intros H vc Hvc. split.
      + apply (decl_ok_card rows vc _ Hvc (ND vc Hvc)). intros d Hd. apply rows_of_In in Hd. destruct Hd as [Hd En].
        specialize (H _ (in_map _ _ _ Hd)). cbn beta in H. apply (RC d Hd) in H. destruct H as [H _]. now rewrite En in H.
      + specialize (H _ (in_map _ _ _ Hvc)). cbn beta in H. now apply (RC vc Hvc) in H.
    - intros H r Hr. apply in_map_iff in Hr. destruct Hr as [vc [<- Hvc]]. apply (RC vc Hvc).
      destruct (H vc Hvc) as [Hc Hk]. split; [|exact Hk].
      apply (proj2 (decl_ok_card rows vc _ Hvc (ND vc Hvc)) Hc). apply rows_of_In; now split. }
  assert (C2 : clean R2 <-> forall k, In k kids -> isz k = true -> conf None k).
  { unfold R2. rewrite clean_seq_res, forall_cond_map.
    split; intros H k Hk Hz; apply (IHz k Hk Hz); now apply H. }
  destruct R1 as [a|x] eqn:E1; cbn [bind].
  - destruct R2 as [z|y] eqn:E2; cbn [bind].
    + rewrite clean_ok, !errors_of_app, !app_nil_iff, check_allowed_nil.
      rewrite clean_ok in C1, C2. rewrite C1, C2. split.
      * intros [Hd [Hr Hz]]. constructor; [exact Hd | intros vc Hvc; now apply Hr | | exact Hz].
        intros vc k Hvc Hk Hn. destruct (Hr vc Hvc) as [_ H]. now apply H.
      * intros [Hd Hc He Hz]. split; [exact Hd|]. split; [|exact Hz].
        intros vc Hvc. split; [now apply Hc|]. intros k Hk Hn. now apply (He vc k).
    + split; [intros H; now apply not_clean_err in H|]. intros [_ _ _ Hz].
      apply C2 in Hz. now apply not_clean_err in Hz.
  - split; [intros H; now apply not_clean_err in H|]. intros [_ Hc He _]. exfalso.
    assert (C : clean (Err x)). { apply C1. intros vc Hvc. split; [now apply Hc|]. intros k Hk Hn. now apply (He vc k). }
    now apply not_clean_err in C.
Qed.

(* ---------- named errors ---------- *)

Lemma check_seq_row_errors rows kids l vc n x :
  check_seq nm isz resolve vkid pname kids rows = Ok l ->
  In (Some vc) rows -> resolve (vc_name vc) = Some n ->
  In x (check_repetitions pname (length (named_kids nm kids n)) (vc_mn vc) (vc_mx vc) (vc_name vc)) ->
  In x l.
Proof.
  intros H Hvc R Hx. unfold check_seq in H.
  destruct (seq_res (map _ rows)) as [a|?] eqn:E1; cbn [bind] in H; [|discriminate].
  destruct (seq_res (map _ kids)) as [z|?] eqn:E2; cbn [bind] in H; [|discriminate].
  inversion H; subst l. apply in_or_app. right. apply in_or_app. left.
  destruct (seq_res_ok_all _ _ _ E1 (in_map _ _ _ Hvc)) as [ra Hra].
  apply (seq_res_incl _ _ ra E1); [rewrite <- Hra; now apply in_map|].
  unfold check_row in Hra. rewrite R in Hra.
  match type of Hra with context [seq_res ?l] => destruct (seq_res l) as [b|?] end;
    cbn [bind] in Hra; [|discriminate]. injection Hra as <-.
  apply in_or_app. now left.
Qed.

Lemma check_seq_missing rows kids l vc n :
  check_seq nm isz resolve vkid pname kids rows = Ok l ->
  In (Some vc) rows -> resolve (vc_name vc) = Some n ->
  (Z.of_nat (length (named_kids nm kids n)) < vc_mn vc)%Z ->
  In (MissingRequired pname (vc_name vc)) (errors_of l).
Proof.
  intros H Hvc R Hlt. apply errors_of_In. apply (check_seq_row_errors _ _ _ _ _ _ H Hvc R).
  unfold check_repetitions. destruct (Z.ltb_spec (Z.of_nat (length (named_kids nm kids n))) (vc_mn vc)); [|lia].
  destruct (negb _); now left.
Qed.

Lemma check_seq_limit rows kids l vc n :
  check_seq nm isz resolve vkid pname kids rows = Ok l ->
  In (Some vc) rows -> resolve (vc_name vc) = Some n ->
  vc_mx vc <> (-1)%Z -> (vc_mn vc <= vc_mx vc)%Z ->
  (Z.of_nat (length (named_kids nm kids n)) > vc_mx vc)%Z ->
  In (LimitExceeded pname (vc_name vc)) (errors_of l).
Proof.
  intros H Hvc R Hm Hle Hgt. apply errors_of_In. apply (check_seq_row_errors _ _ _ _ _ _ H Hvc R).
  unfold check_repetitions. destruct (Z.eqb_spec (vc_mx vc) (-1)); [contradiction|]. cbn [negb].
  destruct (Z.ltb_spec (Z.of_nat (length (named_kids nm kids n))) (vc_mn vc)); [lia|].
  destruct (Z.gtb_spec (Z.of_nat (length (named_kids nm kids n))) (vc_mx vc)); [now left | lia].
Qed.

Lemma check_seq_foreign rows kids l k :
  check_seq nm isz resolve vkid pname kids rows = Ok l ->
  In k kids -> isz k = false -> omem (nm k) (row_names rows) = false ->
  exists names, In (InvalidChildren pname names) (errors_of l) /\ In (nm k) names.
Proof.
  intros H Hk Hz Hm. unfold check_seq in H.
  destruct (seq_res (map _ rows)) as [a|?]; cbn [bind] in H; [|discriminate].
  destruct (seq_res (map _ kids)) as [z|?]; cbn [bind] in H; [|discriminate].
  inversion H; subst l.
  assert (Hf : In (nm k) (foreign_names nm isz kids rows)).
  { unfold foreign_names. apply dedup_In, filter_In. split; [|now rewrite Hm].
    apply in_map, filter_In. split; [exact Hk | now rewrite Hz]. }
  exists (foreign_names nm isz kids rows). split; [|exact Hf].
  apply errors_of_In, in_or_app. left. unfold check_allowed.
  destruct (foreign_names nm isz kids rows); [destruct Hf | now left].
Qed.

Lemma check_seq_zkid rows kids l k x :
  check_seq nm isz resolve vkid pname kids rows = Ok l ->
  In k kids -> isz k = true -> (forall a, vkid None k = Ok a -> In x a) -> In x l.
Proof.
  intros H Hk Hz Hx. unfold check_seq in H.
  destruct (seq_res (map _ rows)) as [a|?]; cbn [bind] in H; [|discriminate].
  destruct (seq_res (map _ kids)) as [z|?] eqn:E2; cbn [bind] in H; [|discriminate].
  inversion H; subst l. apply in_or_app. right. apply in_or_app. right.
  assert (Hin : In (if isz k then vkid None k else Ok []) (map (fun k0 => if isz k0 then vkid None k0 else Ok []) kids))
    by (apply (in_map (fun k0 => if isz k0 then vkid None k0 else Ok [])); exact Hk).
  rewrite Hz in Hin. destruct (seq_res_ok_all _ _ _ E2 Hin) as [ra Hra].
  apply (seq_res_incl _ _ ra E2); [now rewrite <- Hra | now apply Hx].
Qed.

End SeqSpec.

Arguments conf_children {A}.
Arguments resolves : clear implicits.

(* ================================================================================================ *)
(* linked = the hypotheses of the generic lemma                                                     *)

Lemma all_some_map {A} (l : list (option A)) l' : all_some l = Some l' -> l = map Some l'.
Proof.
  revert l'; induction l as [|x l IH]; intros l' H; simpl in H.
  - now inversion H.
  - destruct x as [x|]; [|discriminate]. destruct (all_some l) as [r|]; [|discriminate].
    inversion H; subst. simpl. f_equal. now apply IH.
Qed.

Lemma rows_linked_spec {A} resolve (nm : A -> option str) isz lk kids rows :
  rows_linked resolve nm isz lk kids rows = true ->
  exists rows', rows = map Some rows' /\ dups_ok rows' = true /\ resolves resolve rows' /\
    (forall vc k, In vc rows' -> In k kids -> nm k = Some (vc_name vc) -> lk (Some (vc_ref vc)) k = true) /\
    (forall k, In k kids -> isz k = true -> lk None k = true).
Proof.
  unfold rows_linked. destruct (all_some rows) as [rows'|] eqn:E; [|discriminate].
  rewrite !andb_true_iff, !forallb_forall. intros [[ND HR] HZ].
  exists rows'. split; [now apply all_some_map|]. split; [exact ND|]. split; [|split].
  - intros vc Hvc. specialize (HR vc Hvc). apply andb_true_iff in HR. destruct HR as [HR _].
    now apply opt_eqb_true in HR.
  - intros vc k Hvc Hk Hn. specialize (HR vc Hvc). apply andb_true_iff in HR. destruct HR as [_ HR].
    rewrite forallb_forall in HR. specialize (HR k Hk). unfold is_named in HR. rewrite Hn, opt_eqb_refl in HR. exact HR.
  - intros k Hk Hz. specialize (HZ k Hk). now rewrite Hz in HZ.
Qed.

(* ================================================================================================ *)
(* conformance, level by level                                                                      *)

Section Levels.
Variable t : tables.
Variable e : ec.

(* a leaf-shaped reference: the element's datatype is the declared one, or the element is `varies` *)
Inductive conf_leaf (dt : option str) (i : info) : Prop :=
  | CL_varies : is_varies dt = true -> conf_leaf dt i
  | CL_same : dt = i_dt i -> conf_leaf dt i.

Lemma clean_check_leaf pname name dt enc i :
  wf_leaf t i = true -> ((-1 <? i_maxlen i)%Z = true -> exists s, enc = Ok s) ->
  clean (check_leaf t pname name dt enc i) <-> conf_leaf dt i.
Proof.
  intros WF HE. unfold check_leaf.
  assert (HW : exists w, (if (-1 <? i_maxlen i)%Z
           then do s <- enc; Ok (if (i_maxlen i <? Z.of_nat (length s))%Z then [VW (ExceededLength pname name (i_maxlen i))] else [])
           else Ok []) = Ok w /\ errors_of w = []).
  { destruct (-1 <? i_maxlen i)%Z.
    - destruct (HE eq_refl) as [s ->]. cbn [bind]. eexists; split; [reflexivity|]. now destruct (_ <? _)%Z.
    - now exists []. }
  destruct HW as [w [-> Hw]]. cbn [bind].
  destruct (is_varies dt) eqn:EV.
  - rewrite clean_ok. split; [intros _; now apply CL_varies | intros _; exact Hw].
  - assert (HD : errors_of (w ++ (if opt_eqb dt (i_dt i) then [] else [VE (WrongDatatype pname name dt)])) = [] <-> dt = i_dt i).
    { rewrite errors_of_app, Hw. cbn [app]. destruct (opt_eqb_spec dt (i_dt i)) as [E|N]; cbn [errors_of flat_map app]; split; congruence. }
    assert (HC : conf_leaf dt i <-> dt = i_dt i).
    { split; [intros [H|H]; [congruence | exact H] | intros H; now apply CL_same]. }
    destruct dt as [dn|].
    + destruct (base t (Some dn)) eqn:EB.
      * now rewrite clean_ok, HD, HC.
      * split.
        -- intros H. exfalso. destruct (slookup dn (t_structs t)); [destruct (Nat.leb _ _)|]; now apply not_clean_err in H.
        -- intros H. apply HC in H. exfalso. unfold wf_leaf in WF. rewrite <- H in WF.
           rewrite EB, EV in WF. discriminate.
    + now rewrite clean_ok, HD, HC.
Qed.

(* ---------- SubComponent ---------- *)
Definition conf_sub (ref : option sref) (s : sub) : Prop :=
  sub_unknown s = false /\
  exists r i, ref_or_load (t_components t) (sc_name s) ref = Some r /\ view_of t r = VLeaf i /\ conf_leaf (sc_dt s) i.

Lemma clean_v_sub pname ref s :
  linked_sub t ref s = true -> clean (v_sub t pname ref s) <-> conf_sub ref s.
Proof.
  unfold linked_sub, v_sub, conf_sub. destruct (sub_unknown s) eqn:EU.
  - intros _. rewrite clean_ok. cbn. split; [discriminate | intros [H _]; discriminate].
  - destruct (ref_or_load _ _ ref) as [r|] eqn:ER.
    + destruct (view_of t r) as [i|? ? ?|] eqn:EV; try discriminate. intros WF.
      rewrite clean_check_leaf; [|exact WF | intros _; now eexists].
      split; [intros H; split; [reflexivity | now exists r, i] |].
      intros [_ [r' [i' [E1 [E2 H]]]]]. inversion E1; subst r'. rewrite EV in E2. now inversion E2; subst.
    + intros _. rewrite clean_ok. cbn. split; [discriminate | intros [_ [r [i [H _]]]]; discriminate].
Qed.

(* ---------- Component ---------- *)
Definition conf_comp (ref : option sref) (c : comp) : Prop :=
  comp_unknown c = false /\
  exists r, ref_or_load (t_components t) (c_name c) ref = Some r /\
    match view_of t r with
    | VLeaf i => conf_leaf (c_dt c) i
    | VSeq _ rows _ => exists rows', rows = map Some rows' /\
                         conf_children sc_name (fun _ => false) conf_sub rows' (c_children c)
    | VBad => False
    end.

Lemma map_Some_inj {A} (a b : list A) : map Some a = map Some b -> a = b.
Proof.
  revert b; induction a as [|x a IH]; intros [|y b] H; simpl in H; try discriminate; [reflexivity|].
  inversion H; subst. f_equal. now apply IH.
Qed.

Lemma clean_v_comp pname ref c :
  linked_comp t ref c = true -> clean (v_comp t e pname ref c) <-> conf_comp ref c.
Proof.
  unfold linked_comp, v_comp, conf_comp. destruct (comp_unknown c) eqn:EU.
  - intros _. rewrite clean_ok. cbn. split; [discriminate | intros [H _]; discriminate].
  - destruct (ref_or_load _ _ ref) as [r|] eqn:ER.
    + destruct (view_of t r) as [i|ch rows oi|] eqn:EV; try discriminate; intros L.
      * rewrite clean_check_leaf; [|exact L | intros _; now eexists].
        split; [intros H; split; [reflexivity | exists r; now rewrite EV] |].
        intros [_ [r' [E1 H]]]. inversion E1; subst r'. now rewrite EV in H.
      * apply rows_linked_spec in L. destruct L as [rows' [-> [ND [RS [LK _]]]]].
        unfold comp_seq.
        rewrite (clean_check_seq sub sc_name (fun _ => false) conf_sub (resolve_comp t c) (v_sub t (c_name c)) (c_name c) rows' (c_children c) ND RS).
        -- split; [intros H; split; [reflexivity | exists r; split; [reflexivity|]; rewrite EV; now exists rows'] |].
           intros [_ [r' [E1 H]]]. inversion E1; subst r'. rewrite EV in H. destruct H as [rows'' [E2 H]].
           apply map_Some_inj in E2. now subst.
        -- intros vc k Hvc Hk Hn. apply clean_v_sub. now apply (LK vc k).
        -- intros k _ Hz. discriminate.
    + intros _. rewrite clean_ok. cbn. split; [discriminate | intros [_ [r [H _]]]; discriminate].
Qed.

(* ---------- Field ---------- *)
(* a Z-field: base / varies datatype - nothing below it is checked; complex datatype - its
   components follow the datatype's structure and each validates on its own; no datatype - each
   component validates on its own *)
Definition conf_zfield (f : field) : Prop :=
  if base t (f_dt f) || is_varies (f_dt f) then True else
  match f_dt f with
  | Some d => exists rows rows', slookup d (t_structs t) = Some rows /\ map (row_view t) rows = map Some rows' /\
                conf_children c_name (fun _ => false) conf_comp rows' (f_children f)
  | None => True
  end /\ (forall c, In c (f_children f) -> conf_comp None c).

Definition conf_field (ref : option sref) (f : field) : Prop :=
  field_unknown f = false /\
  if field_is_z f then conf_zfield f else
  exists r, ref_or_load (t_fields t) (f_name f) ref = Some r /\
    match view_of t r with
    | VLeaf i => conf_leaf (f_dt f) i
    | VSeq _ rows _ => exists rows', rows = map Some rows' /\
                         conf_children c_name (fun _ => false) conf_comp rows' (f_children f)
    | VBad => False
    end.

Lemma clean_field_seq f rows' :
  dups_ok rows' = true -> resolves (resolve_field t f) rows' ->
  (forall vc k, In vc rows' -> In k (f_children f) -> c_name k = Some (vc_name vc) -> linked_comp t (Some (vc_ref vc)) k = true) ->
  clean (field_seq t e f (map Some rows')) <-> conf_children c_name (fun _ => false) conf_comp rows' (f_children f).
Proof.
  intros ND RS LK. unfold field_seq.
  apply (clean_check_seq comp c_name (fun _ => false) conf_comp (resolve_field t f) (v_comp t e (f_name f)) (f_name f) rows' (f_children f) ND RS).
  - intros vc k Hvc Hk Hn. apply clean_v_comp. now apply (LK vc k).
  - intros k _ Hz. discriminate.
Qed.

Lemma clean_bind2 (r1 r2 : result (list vmsg)) :
  clean (do x <- r1; do y <- r2; Ok (x ++ y)) <-> clean r1 /\ clean r2.
Proof.
  destruct r1 as [a|x]; cbn [bind].
  - destruct r2 as [b|y]; cbn [bind].
    + now rewrite !clean_ok, errors_of_app, app_nil_iff.
    + split; [intros H; now apply not_clean_err in H | intros [_ H]; now apply not_clean_err in H].
  - split; [intros H; now apply not_clean_err in H | intros [H _]; now apply not_clean_err in H].
Qed.

Lemma clean_v_field pname ref f :
  linked_field t e ref f = true -> clean (v_field t e pname ref f) <-> conf_field ref f.
Proof.
  unfold linked_field, v_field, conf_field. destruct (field_unknown f) eqn:EU.
  - intros _. rewrite clean_ok. cbn. split; [discriminate | intros [H _]; discriminate].
  - destruct (field_is_z f) eqn:EZ.
    + unfold check_z_field, conf_zfield. destruct (base t (f_dt f) || is_varies (f_dt f)) eqn:EB.
      * intros _. split; [intros _; now split | intros _; apply clean_nil].
      * rewrite andb_true_iff. intros [L1 L2]. rewrite clean_bind2.
        assert (H2 : clean (seq_res (map (v_comp t e (f_name f) None) (f_children f))) <-> (forall c, In c (f_children f) -> conf_comp None c)).
        { rewrite clean_seq_res, Forall_forall. rewrite forallb_forall in L2. split.
          - intros H c Hc. apply (clean_v_comp (f_name f)); [now apply L2|]. apply H. now apply in_map.
          - intros H r Hr. apply in_map_iff in Hr. destruct Hr as [c [<- Hc]]. apply clean_v_comp; [now apply L2 | now apply H]. }
        rewrite H2. destruct (f_dt f) as [d|].
        -- destruct (slookup d (t_structs t)) as [rows|] eqn:ES.
           ++ apply rows_linked_spec in L1. destruct L1 as [rows' [ER [ND [RS [LK _]]]]].
              rewrite ER, (clean_field_seq f rows' ND RS LK).
              split; [intros [H1 H3]; split; [reflexivity|]; split; [now exists rows, rows' | exact H3] |].
              intros [_ [[rows0 [rows0' [E1 [E2 H1]]]] H3]]. split; [|exact H3].
              inversion E1; subst rows0. rewrite ER in E2. apply map_Some_inj in E2. now subst.
           ++ split; [intros [H _]; now apply not_clean_err in H |].
              intros [_ [[rows0 [rows0' [E1 _]]] _]]. discriminate.
        -- split; [intros [_ H]; now split | intros [_ [_ H]]; split; [apply clean_nil | exact H]].
    + destruct (ref_or_load _ _ ref) as [r|] eqn:ER.
      * destruct (view_of t r) as [i|ch rows oi|] eqn:EV; try discriminate; intros L.
        -- apply andb_true_iff in L. destruct L as [WF LE].
           rewrite clean_check_leaf; [|exact WF|].
           ++ split; [intros H; split; [reflexivity | exists r; now rewrite EV] |].
              intros [_ [r' [E1 H]]]. inversion E1; subst r'. now rewrite EV in H.
           ++ intros Hm. rewrite Hm in LE. destruct (enc_field t e f) as [s0|]; [now exists s0 | discriminate].
        -- apply rows_linked_spec in L. destruct L as [rows' [-> [ND [RS [LK _]]]]].
           rewrite (clean_field_seq f rows' ND RS LK).
           split; [intros H; split; [reflexivity | exists r; split; [reflexivity|]; rewrite EV; now exists rows'] |].
           intros [_ [r' [E1 H]]]. inversion E1; subst r'. rewrite EV in H. destruct H as [rows'' [E2 H]].
           apply map_Some_inj in E2. now subst.
      * intros _. rewrite clean_ok. cbn. split; [discriminate | intros [_ [r [H _]]]; discriminate].
Qed.

(* ---------- Segment ---------- *)
(* a Z-segment: every field validates on its own; otherwise the fields follow the rows *)
Definition conf_seg (ref : option sref) (s : seg) : Prop :=
  if seg_is_z s then forall f, In f (s_children s) -> conf_field None f else
  exists r ch rows' oi, ref_or_load (t_segments t) (Some (s_name s)) ref = Some r /\
    view_of t r = VSeq ch (map Some rows') oi /\
    conf_children f_name field_is_z conf_field rows' (s_children s).

Lemma clean_v_seg ref s :
  linked_seg t e ref s = true -> clean (v_seg t e ref s) <-> conf_seg ref s.
Proof.
  unfold linked_seg, v_seg, conf_seg. destruct (seg_is_z s) eqn:EZ.
  - intros L. rewrite forallb_forall in L. rewrite clean_seq_res, Forall_forall. split.
    + intros H f Hf. apply (clean_v_field (Some (s_name s))); [now apply L|]. apply H. now apply in_map.
    + intros H r Hr. apply in_map_iff in Hr. destruct Hr as [f [<- Hf]]. apply clean_v_field; [now apply L | now apply H].
  - destruct (ref_or_load _ _ ref) as [r|] eqn:ER.
    + destruct (view_of t r) as [i|ch rows oi|] eqn:EV; try discriminate; intros L.
      apply rows_linked_spec in L. destruct L as [rows' [-> [ND [RS [LK LZ]]]]].
      unfold seg_seq.
      rewrite (clean_check_seq field f_name field_is_z conf_field (resolve_seg s) (v_field t e (Some (s_name s))) (Some (s_name s)) rows' (s_children s) ND RS).
      * split; [intros H; now exists r, ch, rows', oi |].
        intros [r' [ch' [rows'' [oi' [E1 [E2 H]]]]]]. inversion E1; subst r'. rewrite EV in E2.
        inversion E2 as [[Ec Er Eo]]. apply map_Some_inj in Er. now subst.
      * intros vc k Hvc Hk Hn. apply clean_v_field. now apply (LK vc k).
      * intros k Hk Hz. apply clean_v_field. now apply LZ.
    + intros _. rewrite clean_ok. cbn. split; [discriminate | intros [r [? [? [? [H _]]]]]; discriminate].
Qed.

End Levels.

(* ================================================================================================ *)
(* Segment.validate(): the top-level statements                                                     *)

(* the segment conforms to the reference it was created with *)
Definition conforms (t : tables) (s : seg) : Prop := conf_seg t (Some (st_reference (s_st s))) s.
(* domain: the tree is linked to a well-formed reference (Model/Validate.v, decidable) *)
Definition linked (t : tables) (e : ec) (s : seg) : bool := linked_seg t e (Some (st_reference (s_st s))) s.

Lemma lift_errors_nil r : lift_errors r = Ok [] <-> clean r.
Proof.
  unfold lift_errors, clean. destruct r as [l|x].
  - split; [intros H; inversion H; now exists l | intros [l' [E H]]; inversion E; subst; now rewrite H].
  - split; [discriminate | intros [l [E _]]; discriminate].
Qed.

Lemma validate_with_sound_complete t e ref s :
  linked_seg t e ref s = true -> (validate_errors_with t e ref s = Ok [] <-> conf_seg t ref s).
Proof. intros L. unfold validate_errors_with. rewrite lift_errors_nil. now apply clean_v_seg. Qed.

Lemma validate_sound_complete t e s :
  linked t e s = true -> (validate_errors t e s = Ok [] <-> conforms t s).
Proof. intros L. unfold validate_errors, validate_seg_log. rewrite lift_errors_nil. now apply clean_v_seg. Qed.

Lemma lift_errors_ok r es : lift_errors r = Ok es -> exists l, r = Ok l /\ es = errors_of l.
Proof. destruct r as [l|x]; simpl; intros H; inversion H; now exists l. Qed.

(* the errors of a segment that is not a Z-segment are those of the sequence branch *)
Lemma v_seg_known t e ref s r ch rows oi :
  seg_is_z s = false -> ref_or_load (t_segments t) (Some (s_name s)) ref = Some r ->
  view_of t r = VSeq ch rows oi -> v_seg t e ref s = seg_seq t e s rows.
Proof. intros HZ HR HV. unfold v_seg. now rewrite HZ, HR, HV. Qed.

Section SegNamed.
Variables (t : tables) (e : ec) (s : seg) (ch : bool) (rows : list (option vchild)) (oi : option info).
Hypothesis NZ : seg_is_z s = false.
Hypothesis HV : view_of t (st_reference (s_st s)) = VSeq ch rows oi.

Lemma validate_errors_seq es :
  validate_errors t e s = Ok es -> exists l, seg_seq t e s rows = Ok l /\ es = errors_of l.
Proof.
  intros H. unfold validate_errors, validate_seg_log in H.
  rewrite (v_seg_known t e (Some (st_reference (s_st s))) s (st_reference (s_st s)) ch rows oi NZ eq_refl HV) in H.
  now apply lift_errors_ok.
Qed.

(* a required child is missing: fewer children of a declared name than its minimum *)
Lemma seg_missing_required vc es :
  In (Some vc) rows -> resolve_seg s (vc_name vc) = Some (vc_name vc) ->
  (Z.of_nat (length (named_kids f_name (s_children s) (vc_name vc))) < vc_mn vc)%Z ->
  validate_errors t e s = Ok es -> In (MissingRequired (Some (s_name s)) (vc_name vc)) es.
Proof.
  intros Hvc R Hlt H. destruct (validate_errors_seq es H) as [l [Hl ->]].
  now apply (check_seq_missing field f_name field_is_z (resolve_seg s) (v_field t e (Some (s_name s))) (Some (s_name s)) rows (s_children s) l vc (vc_name vc) Hl).
Qed.

(* a maximum cardinality is exceeded *)
Lemma seg_limit_exceeded vc es :
  In (Some vc) rows -> resolve_seg s (vc_name vc) = Some (vc_name vc) ->
  vc_mx vc <> (-1)%Z -> (vc_mn vc <= vc_mx vc)%Z ->
  (Z.of_nat (length (named_kids f_name (s_children s) (vc_name vc))) > vc_mx vc)%Z ->
  validate_errors t e s = Ok es -> In (LimitExceeded (Some (s_name s)) (vc_name vc)) es.
Proof.
  intros Hvc R Hm Hle Hgt H. destruct (validate_errors_seq es H) as [l [Hl ->]].
  now apply (check_seq_limit field f_name field_is_z (resolve_seg s) (v_field t e (Some (s_name s))) (Some (s_name s)) rows (s_children s) l vc (vc_name vc) Hl).
Qed.

(* a child whose name the reference does not declare *)
Lemma seg_foreign_child k es :
  In k (s_children s) -> field_is_z k = false -> omem (f_name k) (row_names rows) = false ->
  validate_errors t e s = Ok es ->
  exists names, In (InvalidChildren (Some (s_name s)) names) es /\ In (f_name k) names.
Proof.
  intros Hk Hz Hm H. destruct (validate_errors_seq es H) as [l [Hl ->]].
  now apply (check_seq_foreign field f_name field_is_z (resolve_seg s) (v_field t e (Some (s_name s))) (Some (s_name s)) rows (s_children s) l k Hl).
Qed.

(* an unknown (unnamed) child is listed among the invalid children *)
Lemma seg_unknown_child k es :
  In k (s_children s) -> f_name k = None -> validate_errors t e s = Ok es ->
  exists names, In (InvalidChildren (Some (s_name s)) names) es /\ In None names.
Proof.
  intros Hk Hn H. rewrite <- Hn. apply seg_foreign_child; try assumption.
  - unfold field_is_z. now rewrite Hn.
  - now rewrite Hn.
Qed.
End SegNamed.

(* under a Z-segment an unknown child draws "Unknown element found" *)
Lemma zseg_unknown_child t e s k es :
  seg_is_z s = true -> In k (s_children s) -> field_unknown k = true ->
  validate_errors t e s = Ok es -> In (UnknownElement (Some (s_name s)) (f_name k)) es.
Proof.
  intros HZ Hk HU H. unfold validate_errors, validate_seg_log, v_seg in H. rewrite HZ in H.
  apply lift_errors_ok in H. destruct H as [l [Hl ->]]. apply errors_of_In.
  assert (Hin : In (v_field t e (Some (s_name s)) None k) (map (v_field t e (Some (s_name s)) None) (s_children s))) by now apply in_map.
  unfold v_field in Hin at 1. rewrite HU in Hin.
  apply (seq_res_incl _ _ _ Hl Hin). now left.
Qed.

(* ================================================================================================ *)
(* the public wrapper                                                                               *)

Lemma wrapper_is_valid has_report l :
  exists r, fst (validate_wrapper true has_report (Ok l)) = VReturned r /\
            r_errors r = errors_of l /\ r_warnings r = warnings_of l /\
            (r_is_valid r = true <-> r_errors r = []).
Proof.
  eexists. split; [reflexivity|]. cbn. split; [reflexivity|]. split; [reflexivity|].
  unfold no_errors. destruct (errors_of l); split; congruence.
Qed.

Lemma wrapper_raise has_report l :
  fst (validate_wrapper false has_report (Ok l)) =
  match errors_of l with x :: _ => VRaised x | [] => VTrue end.
Proof. reflexivity. Qed.

Lemma wrapper_report return_errors l :
  snd (validate_wrapper return_errors true (Ok l)) = map LError (errors_of l) ++ map LWarning (warnings_of l).
Proof. reflexivity. Qed.

Lemma wrapper_exn return_errors has_report x :
  validate_wrapper return_errors has_report (Err x) = (VExn x, []).
Proof. reflexivity. Qed.

(* ================================================================================================ *)
(* a name declared twice with bounded cardinality (F15): the per-name count refutes completeness   *)

Definition dup_tables : tables := mk_tables "2.5" [] [] [] [] [] [] ["ST" : str].
Definition dup_leaf : sref := SLeaf (mk_info (Some (unbs "ST")) None None (-1)).
Definition dup_row : srow := SIn FIE "PID_1" dup_leaf 1 1.
Definition dup_ref : sref := SSeqIn false [dup_row; dup_row] None.
Definition dup_structure : structure :=
  match parse_structure dup_tables dup_ref with Ok st => st | Err _ => mk_structure SBad None [] [] [] None end.
Definition dup_field : field :=
  mk_field_rec (Some (unbs "PID_1")) (Some (unbs "ST"))
               (match parse_structure dup_tables dup_leaf with Ok st => Some st | Err _ => None end)
               [mk_comp (Some (unbs "ST")) (Some (unbs "ST")) None [mk_sub (Some (unbs "ST")) (Some (unbs "ST")) "a" "a"]].
(* two PID_1 fields, one for each declaration *)
Definition dup_seg : seg := mk_seg "PID" dup_structure false 1 1 [dup_field; dup_field].
Definition dup_ec : ec := mk_ec "|" "^" "~" "\" "&" None.

Lemma dup_validate :
  validate_errors dup_tables dup_ec dup_seg =
  Ok [LimitExceeded (Some (unbs "PID")) "PID_1"; LimitExceeded (Some (unbs "PID")) "PID_1"].
Proof. vm_compute. reflexivity. Qed.

Lemma dup_conforms : conforms dup_tables dup_seg.
Proof.
  unfold conforms, conf_seg. change (seg_is_z dup_seg) with false. cbv iota.
  set (vc := mk_vchild "PID_1" dup_leaf 1 1 FIE).
  exists dup_ref, false, [vc; vc], None. split; [reflexivity|]. split; [reflexivity|].
  assert (HF : conf_field dup_tables (Some dup_leaf) dup_field).
  { split; [reflexivity|]. change (field_is_z dup_field) with false. cbv iota.
    exists dup_leaf. split; [reflexivity|]. cbn. now apply CL_same. }
  constructor.
  - intros k Hk _. exists vc. split; [now left|]. destruct Hk as [<-|[<-|[]]]; reflexivity.
  - intros vc' Hvc. assert (vc' = vc) by (destruct Hvc as [<-|[<-|[]]]; reflexivity). subst vc'.
    vm_compute. split; [discriminate | discriminate].
  - intros vc' k Hvc Hk _. assert (vc' = vc) by (destruct Hvc as [<-|[<-|[]]]; reflexivity). subst vc'.
    destruct Hk as [<-|[<-|[]]]; exact HF.
  - intros k Hk Hz. destruct Hk as [<-|[<-|[]]]; discriminate.
Qed.

(* ================================================================================================ *)
(* Group / Message level                                                                            *)

Section NodeInd.
Variable P : node -> Prop.
Hypothesis Hs : forall s, P (NSeg s).
Hypothesis Hg : forall name st kids, Forall P kids -> P (NGrp name st kids).
Fixpoint node_ind' (n : node) : P n :=
  match n with
  | NSeg s => Hs s
  | NGrp name st kids =>
      Hg name st kids ((fix go (l : list node) : Forall P l :=
                          match l with
                          | [] => Forall_nil P
                          | x :: r => Forall_cons x (node_ind' x) (go r)
                          end) kids)
  end.
End NodeInd.

Section MsgLevels.
Variable t : tables.
Variable lvl : level.
Variable e : ec.

(* a segment conforms as above; a (named) group follows the rows of its reference *)
Inductive conf_node : option sref -> node -> Prop :=
  | CN_seg ref s : conf_seg t ref s -> conf_node ref (NSeg s)
  | CN_grp ref name st kids r ch rows' oi :
      ref_or_load (t_groups t) (Some name) ref = Some r ->
      view_of t r = VSeq ch (map Some rows') oi ->
      conf_children node_name node_is_z conf_node rows' kids ->
      conf_node ref (NGrp (Some name) st kids).

Lemma clean_v_node n : forall pname ref,
  linked_node t lvl e ref n = true -> clean (v_node t lvl e pname ref n) <-> conf_node ref n.
Proof.
  induction n as [s | name st kids IH] using node_ind'; intros pname ref L.
  - cbn [v_node linked_node] in *. rewrite (clean_v_seg t e ref s L).
    split; [intros H; now constructor | intros H; now inversion H].
  - cbn [v_node linked_node] in *. destruct name as [gn|].
    + destruct (ref_or_load (t_groups t) (Some gn) ref) as [r|] eqn:ER.
      * destruct (view_of t r) as [i|ch rows oi|] eqn:EV; try discriminate.
        apply rows_linked_spec in L. destruct L as [rows' [-> [ND [RS [LK LZ]]]]].
        rewrite Forall_forall in IH.
        rewrite (clean_check_seq node node_name node_is_z conf_node (resolve_group t lvl false st kids)
                   (v_node t lvl e (Some gn)) (Some gn) rows' kids ND RS).
        -- split; [intros H; now apply (CN_grp ref gn st kids r ch rows' oi) |].
           intros H. inversion H as [|? ? ? ? r0 ch0 rows0 oi0 E1 E2 HC]; subst.
           rewrite ER in E1. inversion E1; subst r0. rewrite EV in E2. inversion E2 as [[Ec Er Eo]].
           apply map_Some_inj in Er. now subst.
        -- intros vc k Hvc Hk Hn. apply (IH k Hk). now apply (LK vc k).
        -- intros k Hk Hz. apply (IH k Hk). now apply LZ.
      * rewrite clean_ok. cbn. split; [discriminate|]. intros H.
        inversion H as [|? ? ? ? r0 ch0 rows0 oi0 E1 E2 HC]; subst. rewrite ER in E1. discriminate.
    + rewrite clean_ok. cbn. split; [discriminate | intros H; inversion H].
Qed.

(* a Z-message: every child validates on its own; otherwise the children follow the rows of the
   message structure; an unnamed message does not conform *)
Definition conf_message (m : message) : Prop :=
  match m_name m with
  | None => False
  | Some mn =>
      if valid_z_message_name mn then forall k, In k (m_children m) -> conf_node None k else
      exists r ch rows' oi,
        ref_or_load (t_messages t) (m_name m) (option_map st_reference (m_st m)) = Some r /\
        view_of t r = VSeq ch (map Some rows') oi /\
        conf_children node_name node_is_z conf_node rows' (m_children m)
  end.

Lemma clean_v_message m :
  linked_message t lvl e m = true -> clean (v_message t lvl e m) <-> conf_message m.
Proof.
  unfold linked_message, v_message, conf_message. destruct (m_name m) as [mn|] eqn:EN.
  - destruct (valid_z_message_name mn) eqn:EZ.
    + intros L. rewrite forallb_forall in L. rewrite clean_seq_res, Forall_forall. split.
      * intros H k Hk. apply (clean_v_node k (Some mn) None); [now apply L|]. apply H. now apply in_map.
      * intros H r Hr. apply in_map_iff in Hr. destruct Hr as [k [<- Hk]].
        apply clean_v_node; [now apply L | now apply H].
    + destruct (ref_or_load _ _ _) as [r|] eqn:ER.
      * destruct (view_of t r) as [i|ch rows oi|] eqn:EV; try discriminate. intros L.
        apply rows_linked_spec in L. destruct L as [rows' [-> [ND [RS [LK LZ]]]]].
        rewrite (clean_check_seq node node_name node_is_z conf_node (resolve_group t lvl false (m_st m) (m_children m))
                   (v_node t lvl e (Some mn)) (Some mn) rows' (m_children m) ND RS).
        -- split; [intros H; now exists r, ch, rows', oi |].
           intros [r' [ch' [rows'' [oi' [E1 [E2 H]]]]]]. inversion E1; subst r'. rewrite EV in E2.
           inversion E2 as [[Ec Er Eo]]. apply map_Some_inj in Er. now subst.
        -- intros vc k Hvc Hk Hn. apply clean_v_node. now apply (LK vc k).
        -- intros k Hk Hz. apply clean_v_node. now apply LZ.
      * intros _. rewrite clean_ok. cbn. split; [discriminate | intros [r [? [? [? [H _]]]]]; discriminate].
  - intros _. rewrite clean_ok. cbn. split; [discriminate | tauto].
Qed.

Lemma validate_message_sound_complete m :
  linked_message t lvl e m = true -> (validate_message_errors t lvl e m = Ok [] <-> conf_message m).
Proof.
  intros L. unfold validate_message_errors, validate_message_log. rewrite lift_errors_nil.
  now apply clean_v_message.
Qed.

(* named errors at the message level (the message is named and is not a Z-message) *)
Section MsgNamed.
Variables (m : message) (mn : str) (r : sref) (ch : bool) (rows : list (option vchild)) (oi : option info).
Hypothesis HN : m_name m = Some mn.
Hypothesis NZ : valid_z_message_name mn = false.
Hypothesis HR : ref_or_load (t_messages t) (m_name m) (option_map st_reference (m_st m)) = Some r.
Hypothesis HV : view_of t r = VSeq ch rows oi.

Let chk := check_seq node_name node_is_z (resolve_group t lvl false (m_st m) (m_children m))
                     (v_node t lvl e (Some mn)) (Some mn) (m_children m) rows.

Lemma validate_message_seq es :
  validate_message_errors t lvl e m = Ok es -> exists l, chk = Ok l /\ es = errors_of l.
Proof.
  intros H. unfold validate_message_errors, validate_message_log, v_message in H.
  rewrite HN in HR. rewrite HN, NZ, HR, HV in H. now apply lift_errors_ok.
Qed.

Lemma msg_missing_required vc es :
  In (Some vc) rows -> resolve_group t lvl false (m_st m) (m_children m) (vc_name vc) = Some (vc_name vc) ->
  (Z.of_nat (length (named_kids node_name (m_children m) (vc_name vc))) < vc_mn vc)%Z ->
  validate_message_errors t lvl e m = Ok es -> In (MissingRequired (Some mn) (vc_name vc)) es.
Proof.
  intros Hvc R Hlt H. destruct (validate_message_seq es H) as [l [Hl ->]].
  now apply (check_seq_missing node node_name node_is_z _ _ (Some mn) rows (m_children m) l vc (vc_name vc) Hl).
Qed.

Lemma msg_limit_exceeded vc es :
  In (Some vc) rows -> resolve_group t lvl false (m_st m) (m_children m) (vc_name vc) = Some (vc_name vc) ->
  vc_mx vc <> (-1)%Z -> (vc_mn vc <= vc_mx vc)%Z ->
  (Z.of_nat (length (named_kids node_name (m_children m) (vc_name vc))) > vc_mx vc)%Z ->
  validate_message_errors t lvl e m = Ok es -> In (LimitExceeded (Some mn) (vc_name vc)) es.
Proof.
  intros Hvc R Hm Hle Hgt H. destruct (validate_message_seq es H) as [l [Hl ->]].
  now apply (check_seq_limit node node_name node_is_z _ _ (Some mn) rows (m_children m) l vc (vc_name vc) Hl).
Qed.

Lemma msg_foreign_child k es :
  In k (m_children m) -> node_is_z k = false -> omem (node_name k) (row_names rows) = false ->
  validate_message_errors t lvl e m = Ok es ->
  exists names, In (InvalidChildren (Some mn) names) es /\ In (node_name k) names.
Proof.
  intros Hk Hz Hm H. destruct (validate_message_seq es H) as [l [Hl ->]].
  now apply (check_seq_foreign node node_name node_is_z _ _ (Some mn) rows (m_children m) l k Hl).
Qed.
End MsgNamed.

(* an unnamed (unknown) message *)
Lemma msg_unknown m : m_name m = None ->
  validate_message_errors t lvl e m = Ok [UnknownElement None None].
Proof. intros H. unfold validate_message_errors, validate_message_log, v_message. now rewrite H. Qed.

End MsgLevels.

(* ================================================================================================ *)
(* the rearranged tables of the correspondence run answer every lookup like the generated ones      *)

Lemma alookup_app {B} k (x y : list (str * B)) :
  slookup k (x ++ y) = match slookup k x with Some v => Some v | None => slookup k y end.
Proof.
  unfold slookup. induction x as [|[k' v] x IH]; cbn [app alookup]; [reflexivity|].
  destruct (leqb beqb k k'); [reflexivity | exact IH].
Qed.

Lemma alookup_filter {B} (P : str -> bool) k (l : list (str * B)) :
  slookup k (filter (fun p => P (fst p)) l) =
  match slookup k l with Some v => if P k then Some v else None | None => None end.
Proof.
  unfold slookup. induction l as [|[k' v] l IH]; cbn [filter alookup fst]; [reflexivity|].
  change (leqb beqb k k') with (streqb k k').
  destruct (streqb_spec k k') as [E|N].
  - subst k'. destruct (P k) eqn:EP; cbn [alookup].
    + change (leqb beqb k k) with (streqb k k). now rewrite streqb_refl.
    + rewrite IH. destruct (alookup beqb k l); reflexivity.
  - destruct (P k'); cbn [alookup]; [|exact IH].
    change (leqb beqb k k') with (streqb k k'). destruct (streqb_spec k k') as [E'|_]; [contradiction | exact IH].
Qed.

Lemma slookup_front {B} (P : str -> bool) (l : list (str * B)) k : slookup k (front P l) = slookup k l.
Proof.
  unfold front. rewrite alookup_app, alookup_filter.
  destruct (slookup k l) as [v|]; [destruct (P k); reflexivity | reflexivity].
Qed.

Lemma front_tables_lookups segs dts t :
  let t' := front_tables segs dts t in
  t_version t' = t_version t /\ t_base_datatypes t' = t_base_datatypes t /\ t_structs t' = t_structs t /\
  t_messages t' = t_messages t /\ t_groups t' = t_groups t /\ t_segments t' = t_segments t /\
  (forall k, slookup k (t_fields t') = slookup k (t_fields t)) /\
  (forall k, slookup k (t_components t') = slookup k (t_components t)).
Proof. cbn. repeat split; intros k; apply slookup_front. Qed.
