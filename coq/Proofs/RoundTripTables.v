(* Facts about the shipped tables and the real leaf encoder that discharge the hypotheses of the
   round-trip / position theorems (decided by vm_compute over all supported versions). *)
From Coq Require Import List Bool ZArith NArith Init.Byte Permutation.
From HL7 Require Import Lib.Str Model.Ec Model.Escape Model.Result Model.Ref Model.Tree Model.Parser Model.Leaf Model.Wf.
From HL7 Require Import Gen.Params Gen.Tables.
From HL7 Require Import Proofs.EscapeFacts Proofs.RoundTripStr Proofs.RoundTripCore.
Import ListNotations.
Open Scope bs_scope.

(* no field of the table has a name starting with Z *)
Definition no_z_fields (t : tables) : bool :=
  forallb (fun p : str * sref => match fst p with c :: _ => negb (beqb c "Z") | [] => true end) (t_fields t).

Lemma no_z_fields_lookup t r : no_z_fields t = true -> slookup ("Z"%byte :: r) (t_fields t) = None.
Proof.
  unfold no_z_fields, slookup. induction (t_fields t) as [|[k v] l IH]; [reflexivity|].
  cbn [forallb fst alookup]. intros H. apply andb_prop in H. destruct H as [Hk Hl].
  destruct (leqb beqb ("Z"%byte :: r) k) eqn:E; [|now apply IH].
  apply (streqb_eq _ k) in E. subst k. discriminate.
Qed.

Definition table_facts (v : str) (t : tables) : bool :=
  base t (Some (unbs "ST")) && negb (base t (Some (unbs "varies"))) && no_z_fields t &&
  match dt_row v (unbs "ST") with Some (KTextual _, _) => true | _ => false end.

Lemma all_table_facts : forallb (fun p => table_facts (fst p) (snd p)) all_tables = true.
Proof. vm_compute. reflexivity. Qed.

Lemma lookup_forallb {B} (f : str -> B -> bool) (l : list (str * B)) v x :
  forallb (fun p => f (fst p) (snd p)) l = true -> slookup v l = Some x -> f v x = true.
Proof.
  unfold slookup. induction l as [|[k y] l IH]; cbn [forallb alookup fst snd]; [discriminate|].
  intros H. apply andb_prop in H. destruct H as [Hy Hl].
  destruct (leqb beqb v k) eqn:E; [|now apply IH].
  apply (streqb_eq v k) in E. subst k. intros E'. injection E' as <-. exact Hy.
Qed.

Lemma shipped_table_facts v t : tables_of v = Some t ->
  base t (Some (unbs "ST")) = true /\ base t (Some (unbs "varies")) = false /\ no_z_fields t = true /\
  exists f mx, dt_row v (unbs "ST") = Some (KTextual f, mx).
Proof.
  intros H. pose proof (lookup_forallb table_facts all_tables v t all_table_facts H) as F.
  unfold table_facts in F. repeat (apply andb_prop in F; destruct F as [F ?F]).
  repeat split; auto.
  - now apply negb_true_iff.
  - destruct (dt_row v (unbs "ST")) as [[[f| | | | | | |] mx]|]; try discriminate. now exists f, mx.
Qed.

(* the leaf encoder of an ST leaf is `escape` *)
Lemma leaf_enc_ST v e s f mx : dt_row v (unbs "ST") = Some (KTextual f, mx) ->
  leaf_enc v TOLERANT e (Some (unbs "ST")) s = Ok (escape (family f) e s).
Proof. intros H. unfold leaf_enc. rewrite H. reflexivity. Qed.

Lemma NoDup_app_l {A} (l m : list A) : NoDup (l ++ m) -> NoDup l.
Proof.
  induction l as [|x l IH]; intros H; [constructor|]. cbn [app] in H.
  inversion H as [|? ? Hx Hn]; subst. constructor; [|now apply IH].
  intros Hi. apply Hx. apply in_or_app. now left.
Qed.

(* a valid delimiter set in C06's sense is one in the round-trip theorems' sense *)
Lemma ec_valid_ok p e : ec_valid p e = true -> ec_ok e.
Proof.
  unfold ec_valid. intros H. apply andb_prop in H. destruct H as [Hn Hf]. split.
  - apply nodupb_NoDup in Hn. unfold ec_all, ec_required in Hn.
    apply NoDup_app_l in Hn.
    assert (P : Permutation [fsep e; csep e; ssep e; rsep e; esc e] [fsep e; csep e; rsep e; ssep e; esc e]).
    { do 2 constructor. apply perm_swap. }
    exact (Permutation_NoDup P Hn).
  - intros c Hc. assert (In c (ec_all e)) as Hc'.
    { unfold ec_all, ec_required. apply in_or_app. left. cbn [In] in *. tauto. }
    pose proof (forallb_In _ _ _ Hf Hc') as G. cbn in G.
    apply andb_prop in G. destruct G as [_ G]. now apply negb_true_iff in G.
Qed.

(* text without escape characters and without the delimiters that the datatype escapes is a fixed
   point of the ST leaf encoder *)
Lemma leaf_enc_ST_plain v t e s : tables_of v = Some t ->
  ec_valid (st_family v) e = true -> bmem (esc e) s = false ->
  (forall d, In d (escaped_delims (st_family v) e) -> bmem d s = false) ->
  leaf_enc v TOLERANT e (Some (unbs "ST")) s = Ok s.
Proof.
  intros Ht He Hs Hd. destruct (shipped_table_facts v t Ht) as [_ [_ [_ [f [mx Hr]]]]].
  rewrite (leaf_enc_ST v e s f mx Hr). f_equal.
  assert (F : st_family v = family f) by (unfold st_family; now rewrite Hr).
  rewrite <- F. apply escape_tokenised_id; auto.
  - assert (forallb letters_ok esc_families = true) as L by (vm_compute; reflexivity).
    rewrite F. unfold family.
    destruct (nth_in_or_default f esc_families esc_family_0) as [I|I].
    + exact (forallb_In _ _ _ L I).
    + rewrite I. vm_compute. reflexivity.
  - now apply tok_no_esc.
Qed.

(* the leaf condition used by the Z-segment / varies theorems: the ST leaf encoder returns the text *)
Definition st_fixed (v : str) (e : ec) (s : str) : Prop := leaf_enc v TOLERANT e (Some (unbs "ST")) s = Ok s.
Definition st_fixedb (v : str) (e : ec) (s : str) : bool :=
  match leaf_enc v TOLERANT e (Some (unbs "ST")) s with Ok r => streqb r s | Err _ => false end.
Lemma st_fixedb_sound v e s : st_fixedb v e s = true -> st_fixed v e s.
Proof.
  unfold st_fixedb, st_fixed. destruct (leaf_enc _ _ _ _ s) as [r|]; [|discriminate].
  intros H. now rewrite (streqb_eq _ _ H).
Qed.
