(* split / join are mutually inverse (ported from feasibility/SplitJoin.v to Lib/Str.v's
   definitions) and the algebra of hl7apy's _remove_trailing. *)
From Coq Require Import List Bool Arith Lia Init.Byte.
From HL7 Require Import Lib.Str.
Import ListNotations.

(* ------------------------------------------------------------------ *)
(* generic split / join                                                 *)

Section Generic.
Variable A : Type.
Variable eqb : A -> A -> bool.
Hypothesis eqb_spec : forall x y, reflect (x = y) (eqb x y).

Lemma split_aux_app c cur x r : nosep eqb c x = true ->
  split_aux eqb c cur (x ++ r) = match r with
                                 | [] => [rev cur ++ x]
                                 | _ => split_aux eqb c (rev x ++ cur) r end.
Proof.
  revert cur. induction x as [|y x IH]; intros cur H; simpl in *.
  - destruct r; simpl; auto. now rewrite app_nil_r.
  - apply andb_prop in H. destruct H as [Hy Hx].
    destruct (eqb y c) eqn:E; [discriminate|].
    rewrite IH by auto. destruct r; simpl.
    + now rewrite <- app_assoc.
    + now rewrite <- app_assoc.
Qed.

Lemma split_join c l : l <> [] -> forallb (nosep eqb c) l = true -> split eqb c (join c l) = l.
Proof.
  unfold split. intros Hne H.
  assert (G: forall cur, split_aux eqb c cur (join c l) =
             match l with [] => [rev cur] | x :: r => (rev cur ++ x) :: r end).
  { induction l as [|x r IH]; intros cur; [congruence|].
    simpl in H. apply andb_prop in H. destruct H as [Hx Hr].
    destruct r as [|y r'].
    - simpl. rewrite <- (app_nil_r x) at 1. rewrite split_aux_app by auto. reflexivity.
    - change (join c (x :: y :: r')) with (x ++ c :: join c (y :: r')).
      rewrite split_aux_app by auto.
      simpl. destruct (eqb_spec c c); [|congruence].
      rewrite rev_app_distr, rev_involutive. f_equal.
      rewrite IH by (auto; congruence). reflexivity. }
  rewrite G. destruct l; [congruence|]. reflexivity.
Qed.

Lemma split_aux_ne c cur s : split_aux eqb c cur s <> [].
Proof.
  revert cur; induction s as [|x r IH]; intros cur; simpl; [discriminate|].
  destruct (eqb x c); [discriminate|apply IH].
Qed.

Lemma split_ne c s : split eqb c s <> [].
Proof. apply split_aux_ne. Qed.

Lemma join_split c s : join c (split eqb c s) = s.
Proof.
  unfold split.
  assert (G: forall cur, join c (split_aux eqb c cur s) = rev cur ++ s).
  { induction s as [|x r IH]; intros cur; simpl.
    - now rewrite app_nil_r.
    - destruct (eqb_spec x c) as [->|N].
      + specialize (IH []). simpl in IH.
        destruct (split_aux eqb c [] r) eqn:E.
        * exfalso. exact (split_aux_ne _ _ _ E).
        * change (join c (rev cur :: l :: l0)) with (rev cur ++ c :: join c (l :: l0)). now rewrite IH.
      + rewrite IH. simpl. now rewrite <- app_assoc. }
  apply (G []).
Qed.

(* a string without the separator splits into itself *)
Lemma split_nosep c s : nosep eqb c s = true -> split eqb c s = [s].
Proof.
  intros H. apply (split_join c [s]); [discriminate|].
  cbn [forallb]. now rewrite H.
Qed.

Lemma join_cons (c : A) x y r : join c (x :: y :: r) = x ++ c :: join c (y :: r).
Proof. reflexivity. Qed.

Lemma join_cons_ne (c : A) x r : r <> [] -> join c (x :: r) = x ++ c :: join c r.
Proof. destruct r; [congruence|reflexivity]. Qed.

Lemma join_app (c : A) l m : l <> [] -> m <> [] -> join c (l ++ m) = join c l ++ c :: join c m.
Proof.
  intros Hl Hm. induction l as [|x l IH]; [congruence|].
  destruct l as [|y l].
  - cbn [app]. now rewrite join_cons_ne.
  - assert (E : (y :: l) ++ m <> []) by discriminate.
    change ((x :: y :: l) ++ m) with (x :: (y :: l) ++ m).
    rewrite (join_cons_ne c x _ E), IH by discriminate.
    rewrite join_cons, <- app_assoc. reflexivity.
Qed.

Lemma join_repeat_nil (c : A) n : join c (repeat (@nil A) (S n)) = repeat c n.
Proof.
  induction n as [|n IH]; [reflexivity|].
  change (repeat [] (S (S n))) with (@nil A :: repeat [] (S n)).
  cbn [repeat] in *. rewrite join_cons. cbn [app]. now rewrite IH.
Qed.

Lemma nosep_app c x y : nosep eqb c (x ++ y) = nosep eqb c x && nosep eqb c y.
Proof. unfold nosep. apply forallb_app. Qed.

End Generic.

(* ------------------------------------------------------------------ *)
(* the byte instances                                                   *)

Lemma bsplit_bjoin c l : l <> [] -> forallb (nosep beqb c) l = true -> bsplit c (bjoin c l) = l.
Proof. apply split_join, beqb_spec. Qed.

Lemma bjoin_bsplit c s : bjoin c (bsplit c s) = s.
Proof. apply join_split, beqb_spec. Qed.

Lemma bsplit_ne c s : bsplit c s <> [].
Proof. apply split_ne. Qed.

Lemma bsplit_nosep c s : nosep beqb c s = true -> bsplit c s = [s].
Proof. apply split_nosep, beqb_spec. Qed.

Lemma bsplit_nil c : bsplit c [] = [[]].
Proof. reflexivity. Qed.

Lemma nosep_bmem c s : nosep beqb c s = negb (bmem c s).
Proof.
  unfold nosep, bmem, mem. induction s as [|x r IH]; [reflexivity|].
  cbn [forallb existsb]. rewrite IH. now rewrite negb_orb.
Qed.

Lemma nosep_of_bmem c s : bmem c s = false -> nosep beqb c s = true.
Proof. intros H. now rewrite nosep_bmem, H. Qed.

(* ------------------------------------------------------------------ *)
(* lstrip_by / remove_trailing                                          *)

Section Trailing.
Variable B : Type.
Variable p : B -> bool.

Lemma lstrip_by_all (l : list B) : forallb p l = true -> lstrip_by p l = [].
Proof.
  induction l as [|x r IH]; [reflexivity|]. cbn [forallb lstrip_by].
  intros H. apply andb_prop in H. destruct H as [Hx Hr]. rewrite Hx. now apply IH.
Qed.

Lemma lstrip_by_app_all (l m : list B) : forallb p l = true -> lstrip_by p (l ++ m) = lstrip_by p m.
Proof.
  induction l as [|x r IH]; [reflexivity|]. cbn [forallb app lstrip_by].
  intros H. apply andb_prop in H. destruct H as [Hx Hr]. rewrite Hx. now apply IH.
Qed.

Lemma lstrip_by_head (x : B) r : p x = false -> lstrip_by p (x :: r) = x :: r.
Proof. intros H. cbn [lstrip_by]. now rewrite H. Qed.

Lemma lstrip_by_idem (l : list B) : lstrip_by p (lstrip_by p l) = lstrip_by p l.
Proof.
  induction l as [|x r IH]; [reflexivity|]. cbn [lstrip_by].
  destruct (p x) eqn:E; [exact IH|]. now apply lstrip_by_head.
Qed.

Lemma remove_trailing_nil : remove_trailing p (@nil B) = [].
Proof. reflexivity. Qed.

Lemma remove_trailing_idem (l : list B) :
  remove_trailing p (remove_trailing p l) = remove_trailing p l.
Proof. unfold remove_trailing. now rewrite rev_involutive, lstrip_by_idem. Qed.

(* identity when the last element is kept *)
Lemma remove_trailing_last (l : list B) x : p x = false -> remove_trailing p (l ++ [x]) = l ++ [x].
Proof.
  intros H. unfold remove_trailing. rewrite rev_app_distr. cbn [rev app].
  rewrite lstrip_by_head by exact H. change (x :: rev l) with ([x] ++ rev l).
  now rewrite rev_app_distr, rev_involutive.
Qed.

Lemma remove_trailing_id (l : list B) :
  match rev l with x :: _ => p x = false | [] => True end -> remove_trailing p l = l.
Proof.
  unfold remove_trailing. destruct (rev l) as [|x r] eqn:E; intros H.
  - cbn. apply (f_equal (@rev B)) in E. now rewrite rev_involutive in E.
  - rewrite lstrip_by_head by exact H. rewrite <- E. apply rev_involutive.
Qed.

(* trailing "empty" elements are dropped *)
Lemma remove_trailing_app_all (l m : list B) :
  forallb p m = true -> remove_trailing p (l ++ m) = remove_trailing p l.
Proof.
  intros H. unfold remove_trailing. rewrite rev_app_distr, lstrip_by_app_all; [reflexivity|].
  rewrite forallb_forall in *. intros x Hx. apply H. now apply in_rev.
Qed.

Lemma remove_trailing_app_repeat (l : list B) x n :
  p x = true -> remove_trailing p (l ++ repeat x n) = remove_trailing p l.
Proof.
  intros H. apply remove_trailing_app_all. rewrite forallb_forall. intros y Hy.
  apply repeat_spec in Hy. now subst.
Qed.

Lemma remove_trailing_all (m : list B) : forallb p m = true -> remove_trailing p m = [].
Proof. intros H. now rewrite <- (app_nil_l m), remove_trailing_app_all. Qed.

Lemma remove_trailing_last_app (l m : list B) x :
  p x = false -> forallb p m = true -> remove_trailing p (l ++ x :: m) = l ++ [x].
Proof.
  intros Hx Hm. change (x :: m) with ([x] ++ m). rewrite app_assoc.
  rewrite remove_trailing_app_all by exact Hm. now apply remove_trailing_last.
Qed.

(* the result is a prefix: l = remove_trailing p l ++ (dropped), all dropped satisfy p *)
Lemma remove_trailing_prefix (l : list B) :
  exists m, l = remove_trailing p l ++ m /\ forallb p m = true.
Proof.
  induction l as [|x l IH] using rev_ind.
  - exists []. split; reflexivity.
  - destruct (p x) eqn:E.
    + destruct IH as [m [H1 H2]]. exists (m ++ [x]). split.
      * change [x] with (repeat x 1). rewrite remove_trailing_app_repeat by exact E.
        rewrite app_assoc, <- H1. reflexivity.
      * rewrite forallb_app, H2. cbn. now rewrite E.
    + exists []. rewrite remove_trailing_last by exact E. split; [now rewrite app_nil_r|reflexivity].
Qed.

(* the last element of the result is kept *)
Lemma remove_trailing_last_kept (l : list B) :
  match rev (remove_trailing p l) with x :: _ => p x = false | [] => True end.
Proof.
  unfold remove_trailing. rewrite rev_involutive.
  induction (rev l) as [|x r IH]; [exact I|]. cbn [lstrip_by].
  destruct (p x) eqn:E; [exact IH|exact E].
Qed.

End Trailing.

Arguments remove_trailing_last {B}. Arguments remove_trailing_idem {B}.
Arguments remove_trailing_id {B}. Arguments remove_trailing_app_all {B}.
Arguments remove_trailing_app_repeat {B}. Arguments remove_trailing_all {B}.
Arguments remove_trailing_last_app {B}. Arguments remove_trailing_prefix {B}.
Arguments remove_trailing_last_kept {B}. Arguments remove_trailing_nil {B}.
