(* C11, second sentence, the read half: the chain of attribute reads that precedes a write leaves a
   chain of elements behind, each one either a listed child of its predecessor or waiting under it
   as a traversal child.  Model/Heap.v: proxy_element, get_proxy, walk, read_chain. *)
From Coq Require Import List Bool Arith Lia ZArith NArith Init.Byte.
From HL7 Require Import Lib.Str Model.Ec Model.Result Model.Ref Model.Tree Model.Parser Model.Encode Model.Heap Model.HeapSpec.
From HL7 Require Import Proofs.HeapFacts Proofs.HeapInv Proofs.HeapOps Proofs.HeapAlloc Proofs.HeapSteps Proofs.HeapAtomic
                        Proofs.HeapRefine Proofs.HeapRead Proofs.HeapWrite.
Import ListNotations.

(* ---------- traversal index: appending a member ---------- *)

Lemma members_iset_app_mono k v m c : In c (members m) -> In c (members (iset k (iget k m ++ v) m)).
Proof.
  induction m as [|[k' v'] m IH]; cbn; [tauto|].
  destruct (opt_eqb k k'); cbn; intros H; apply in_app_or in H; apply in_or_app.
  - destruct H; auto. left. apply in_or_app. auto.
  - destruct H; auto.
Qed.
Lemma members_iset_app_new k l m c : In c (members (iset k (l ++ [c]) m)).
Proof. apply In_iget_members with (k := k). rewrite iget_iset_same. apply in_or_app. right. now left. Qed.

(* ---------- well-formedness that navigation relies on ---------- *)

(* Segment > Field > Component > SubComponent *)
Definition rank (c : cls) : nat := match c with CSeg => 3 | CField => 2 | CComp => 1 | CSub => 0 end.

(* Tidy: (1) an element indexed as traversal child of an (allocated) p is still waiting there: it names p as its
   traversal parent, has no parent yet and lists no children of its own;  (2) children, listed or
   waiting, are of a class below their owner's *)
Record Tidy (s : store) : Prop := mk_Tidy {
  T_trav : forall p c, p < s_next s -> In c (members (n_tidx (getn s p))) ->
             n_tparent (getn s c) = Some p /\ n_parent (getn s c) = None /\ n_list (getn s c) = [];
  T_rank_l : forall p c, p < s_next s -> In c (n_list (getn s p)) -> rank (n_cls (getn s c)) < rank (n_cls (getn s p));
  T_rank_t : forall p c, p < s_next s -> In c (members (n_tidx (getn s p))) ->
             rank (n_cls (getn s c)) < rank (n_cls (getn s p))
}.

(* Tidy is decidable: the checker used to show that the hypotheses of the theorems are satisfiable *)
Definition waiting_b (s : store) (p c : nat) : bool :=
  match n_tparent (getn s c), n_parent (getn s c), n_list (getn s c) with
  | Some q, None, [] => Nat.eqb q p
  | _, _, _ => false
  end.
Definition below_b (s : store) (p c : nat) : bool := Nat.ltb (rank (n_cls (getn s c))) (rank (n_cls (getn s p))).
Definition tidy_b (s : store) : bool :=
  forallb (fun p => forallb (fun c => waiting_b s p c && below_b s p c) (members (n_tidx (getn s p)))
                    && forallb (below_b s p) (n_list (getn s p)))
          (seq 0 (s_next s)).

Lemma tidy_b_ok s : tidy_b s = true -> Tidy s.
Proof.
  unfold tidy_b. rewrite forallb_forall. intros H.
  assert (H' : forall p, p < s_next s ->
            (forall c, In c (members (n_tidx (getn s p))) -> waiting_b s p c = true /\ below_b s p c = true) /\
            (forall c, In c (n_list (getn s p)) -> below_b s p c = true)).
  { intros p Hp. specialize (H p). rewrite in_seq in H. specialize (H (conj (Nat.le_0_l _) Hp)).
    apply andb_true_iff in H. destruct H as [A B]. rewrite forallb_forall in A, B. split; [|exact B].
    intros c Hc. apply andb_true_iff. now apply A. }
  constructor.
  - intros p c Hp Hc. destruct (H' p Hp) as [A _]. destruct (A c Hc) as [W _]. unfold waiting_b in W.
    destruct (n_tparent (getn s c)) as [q|]; [|discriminate]. destruct (n_parent (getn s c)); [discriminate|].
    destruct (n_list (getn s c)); [|discriminate]. apply Nat.eqb_eq in W. subst. auto.
  - intros p c Hp Hc. destruct (H' p Hp) as [_ B]. specialize (B c Hc). unfold below_b in B. now apply Nat.ltb_lt in B.
  - intros p c Hp Hc. destruct (H' p Hp) as [A _]. destruct (A c Hc) as [_ B]. unfold below_b in B. now apply Nat.ltb_lt in B.
Qed.

(* what navigation may do to the elements that exist already: nothing visible, no pointer, and the
   traversal indexes only grow *)
Definition ext (s s' : store) : Prop :=
  s_next s <= s_next s' /\
  (forall y, y < s_next s -> vis (getn s' y) = vis (getn s y) /\ n_parent (getn s' y) = n_parent (getn s y) /\
                             n_tparent (getn s' y) = n_tparent (getn s y)) /\
  (forall y c, y < s_next s -> In c (members (n_tidx (getn s y))) -> In c (members (n_tidx (getn s' y)))).

Lemma ext_refl s : ext s s.
Proof. split; [lia|split]; auto. Qed.
Lemma ext_trans s1 s2 s3 : ext s1 s2 -> ext s2 s3 -> ext s1 s3.
Proof.
  intros (A1 & B1 & C1) (A2 & B2 & C2). split; [lia|split].
  - intros y Hy. destruct (B1 y Hy) as (a & b & c). destruct (B2 y) as (a' & b' & c'); [lia|].
    repeat split; congruence.
  - intros y c Hy Hc. apply C2; [lia|]. now apply C1.
Qed.
Lemma ext_list s s' y : ext s s' -> y < s_next s -> n_list (getn s' y) = n_list (getn s y).
Proof. intros (_ & B & _) Hy. destruct (B y Hy) as (V & _). apply vis_fields in V. tauto. Qed.

Lemma hd_cons_In (r : list nat) x : In (hd x r) (r ++ [x]).
Proof. destruct r; cbn; auto. Qed.

(* a chain below x survives navigation *)
Lemma upchain_ext s s' l x :
  ext s s' -> (forall d, In d (l ++ [x]) -> d < s_next s) -> upchain s l x -> upchain s' l x.
Proof.
  intros E Hb. apply upchain_transport.
  - intros q d Hq Hl. unfold link in *. rewrite (ext_list s s' q E); auto.
  - intros q d Hd Hq (A & B & C). destruct E as (_ & E1 & E2).
    assert (Hdb : d < s_next s) by (apply Hb; apply in_or_app; now left).
    assert (Hqb : q < s_next s) by (now apply Hb).
    destruct (E1 d Hdb) as (_ & P1 & P2). unfold travc. rewrite P1, P2. auto.
Qed.

(* below a listed element everything is listed: a waiting element lists nothing *)
Lemma upchain_links s l x :
  Tidy s -> (forall d, In d (l ++ [x]) -> d < s_next s) -> upchain s l x -> n_list (getn s (hd x l)) <> [] -> uplinks s l x.
Proof.
  intros T Hb. destruct l as [|o r]; cbn [upchain uplinks hd]; auto.
  intros [[(A & _) _]|B] N; [|exact B].
  assert (Hp : hd x r < s_next s) by (apply Hb; right; apply hd_In_app).
  destruct (T_trav s T _ _ Hp A) as (_ & _ & E). contradiction.
Qed.

(* the classes fall strictly along a chain, so its elements are pairwise different *)
Lemma chain_NoDup s l x :
  Tidy s -> (forall d, In d (l ++ [x]) -> d < s_next s) -> upchain s l x ->
  NoDup (l ++ [x]) /\ forall d, In d (l ++ [x]) -> rank (n_cls (getn s (hd x l))) <= rank (n_cls (getn s d)).
Proof.
  intros T. induction l as [|c r IH]; cbn [upchain]; intros Hb.
  - intros _. split; [repeat constructor; intros []|]. intros d [<-|[]]. cbn. lia.
  - intros H.
    assert (Hp : hd x r < s_next s) by (apply Hb; right; apply hd_In_app).
    assert (Hb' : forall d, In d (r ++ [x]) -> d < s_next s) by (intros d Hd; apply Hb; now right).
    assert (Hr : upchain s r x) by (destruct H as [[_ H]|[_ H]]; [exact H|now apply uplinks_upchain]).
    assert (Hc : rank (n_cls (getn s c)) < rank (n_cls (getn s (hd x r)))).
    { destruct H as [[(A & _) _]|[A _]]; [now apply (T_rank_t s T)|now apply (T_rank_l s T)]. }
    destruct (IH Hb' Hr) as [ND Le]. split.
    + cbn. constructor; auto. intros F. specialize (Le c F). lia.
    + cbn [hd]. intros d [<-|Hd]; [lia|]. specialize (Le d Hd). lia.
Qed.

Section Chain.
Variable t : tables.
Variable e : ec.
Variable le : level -> option str -> str -> result str.

(* adding a child that points at p through its TRAVERSAL parent: exactly the index update *)
Lemma add_traversal_exact p c s s' :
  n_parent (getn s c) = None -> n_tparent (getn s c) = Some p -> add t p c s = (s', Ok tt) ->
  s' = fst (do_tappend p c s).
Proof.
  intros Hp Ht. unfold add. cbn [mbind node_of lift].
  destruct (class_checks t _ _) as [[]|y]; [|discriminate].
  rewrite mbind_run. unfold append. cbn [mbind node_of lift].
  destruct (is_valid_child t _ _) as [[]|y]; cbn [negb mbind node_of lift]; try discriminate.
  unfold pointing. rewrite Hp, Ht. cbn [oid_eqb orb negb]. rewrite Nat.eqb_refl. cbn [orb negb].
  unfold append_attached. cbn [mbind node_of lift].
  destruct (acceptance_checks _ _) as [[]|y]; [|discriminate].
  rewrite Hp, Ht. cbn [oid_eqb]. rewrite Nat.eqb_refl.
  unfold do_tappend, modify. cbn [fst snd].
  unfold seg_counter. cbn [mbind node_of].
  set (s1 := setn s p _).
  assert (Hp1 : n_parent (getn s1 c) = None).
  { unfold s1. rewrite getn_setn. destruct (Nat.eqb_spec c p) as [->|]; auto. }
  destruct (n_cls (getn s1 p)); try (cbn [ret]; intros [= <-]; reflexivity).
  destruct (n_name (getn s1 c)); try (cbn [ret]; intros [= <-]; reflexivity).
  rewrite Hp1. cbn [oid_eqb]. rewrite andb_false_r. cbn [ret]. intros [= <-]. reflexivity.
Qed.

Lemma ctor_node_rank P cn cr nd : ctor_node t le P cn cr = Ok nd -> rank (n_cls nd) < rank (n_cls P).
Proof.
  unfold ctor_node. destruct (n_cls P).
  - destruct (mk_field _ _ _ _ _); intros [= <-]; cbn; lia.
  - destruct (mk_component _ _ _ _ _); intros [= <-]; cbn; lia.
  - destruct (mk_subcomponent _ _ _ _ _ _ _); intros [= <-]; cbn; lia.
  - discriminate.
Qed.

(* ElementList.create_element(name, traversal_parent=True) that ends normally *)
Lemma create_trav_step p name s s' c :
  Inv s -> Tidy s -> p < s_next s ->
  create_element t le false p name true None s = (s', Ok c) ->
  c = s_next s /\ ext s s' /\ Tidy s' /\ travc s' p c /\ Inv s' /\ s_next s' = S (s_next s).
Proof.
  intros I T Hp H.
  pose proof (create_element_spec' t le Unone Unone p name true None s (conj (K_none s I) Hp)) as HS.
  rewrite H in HS. destruct HS as (HK' & _). apply K_Inv in HK'.
  revert H. unfold create_element. cbn [mbind node_of lift].
  destruct (fcr t (getn s p) name) as [[cname cref]|y]; [|discriminate]. cbn [mbind lift].
  destruct (ctor_node t le (getn s p) cname cref) as [nd|y] eqn:Ec; [|discriminate].
  destruct (ctor_node_blank t le _ _ _ _ Ec) as ((Bl & Bi & Bt & Btp) & Bp).
  pose proof (ctor_node_rank _ _ _ _ Ec) as Rk.
  rewrite mbind_run. unfold alloc at 1.
  set (c0 := s_next s). set (nd' := with_name nd _).
  set (s1 := mk_store (upd (s_heap s) c0 nd') (S c0)).
  rewrite mbind_run. rewrite mbind_run. unfold set_tparent_raw at 1, modify at 1.
  set (s2 := setn s1 c0 _).
  assert (Hc1 : getn s1 c0 = nd') by (unfold s1, getn; cbn; unfold upd; now rewrite Nat.eqb_refl).
  assert (G1 : forall y, y <> c0 -> getn s1 y = getn s y).
  { intros y Hy. unfold s1, getn. cbn. unfold upd. destruct (Nat.eqb_spec y c0); congruence. }
  assert (Hc2 : getn s2 c0 = with_tparent nd' (Some p)) by (unfold s2; now rewrite getn_setn_same, Hc1).
  assert (G2 : forall y, y <> c0 -> getn s2 y = getn s y).
  { intros y Hy. unfold s2. rewrite getn_setn_other by auto. now apply G1. }
  assert (Hp2 : n_parent (getn s2 c0) = None) by (rewrite Hc2; exact Bp).
  assert (Ht2 : n_tparent (getn s2 c0) = Some p) by (rewrite Hc2; reflexivity).
  pose proof (add_traversal_exact p c0 s2) as Ha.
  destruct (add t p c0 s2) as [s3 [[]|y]] eqn:Ea; [|discriminate].
  specialize (Ha s3 Hp2 Ht2 eq_refl). rewrite mbind_run.
  match goal with |- context [(if ?b then ?m1 else ret tt) s3] => destruct b end; [discriminate|].
  cbn [ret]. intros [= <- <-].
  assert (Npc : p <> c0) by (unfold c0; lia).
  unfold do_tappend, modify in Ha. cbn [fst] in Ha.
  set (k := n_name (getn s2 c0)) in *.
  assert (Gp : getn s3 p = with_children (getn s p) (n_list (getn s p)) (n_idx (getn s p))
                             (iset k (iget k (n_tidx (getn s p)) ++ [c0]) (n_tidx (getn s p)))).
  { rewrite Ha. rewrite getn_setn_same. now rewrite G2. }
  assert (Gc : getn s3 c0 = with_tparent nd' (Some p)).
  { rewrite Ha. rewrite getn_setn_other by auto. exact Hc2. }
  assert (Gy : forall y, y <> p -> y <> c0 -> getn s3 y = getn s y).
  { intros y Hy1 Hy2. rewrite Ha. rewrite getn_setn_other by auto. now apply G2. }
  assert (N3 : s_next s3 = S (s_next s)) by (rewrite Ha; reflexivity).
  (* what is kept for every element that existed *)
  assert (Old : forall y, y <> c0 ->
            vis (getn s3 y) = vis (getn s y) /\ n_parent (getn s3 y) = n_parent (getn s y) /\
            n_tparent (getn s3 y) = n_tparent (getn s y) /\ n_list (getn s3 y) = n_list (getn s y) /\
            n_cls (getn s3 y) = n_cls (getn s y) /\
            (forall d, In d (members (n_tidx (getn s y))) -> In d (members (n_tidx (getn s3 y)))) /\
            (forall d, In d (members (n_tidx (getn s3 y))) -> d = c0 /\ y = p \/ In d (members (n_tidx (getn s y))))).
  { intros y Hy. destruct (Nat.eq_dec y p) as [->|Ny].
    - rewrite Gp. cbn. repeat split; auto.
      + intros d Hd. now apply members_iset_app_mono.
      + intros d Hd. apply In_members_iset in Hd. destruct Hd as [Hd|Hd]; auto.
        apply in_app_or in Hd. destruct Hd as [Hd|[<-|[]]]; auto. right. eapply In_iget_members; eauto.
    - rewrite Gy by auto. repeat split; auto. }
  assert (Mold : forall y d, In d (members (n_tidx (getn s y))) -> d <> c0).
  { intros y d Hd. apply In_members in Hd. destruct Hd as (k0 & l0 & A & B).
    destruct (I_trav s I y) as (_ & TT & _). destruct (TT _ _ _ A B) as (_ & _ & X). unfold c0. lia. }
  assert (Lold : forall y d, In d (n_list (getn s y)) -> d <> c0).
  { intros y d Hd. pose proof (I_bound s I y d Hd). unfold c0. lia. }
  assert (Tc : n_tidx (getn s3 c0) = []) by (rewrite Gc; exact Bt).
  assert (Lc : n_list (getn s3 c0) = []) by (rewrite Gc; exact Bl).
  assert (Cc : n_cls (getn s3 c0) = n_cls nd) by (rewrite Gc; reflexivity).
  assert (Trc : travc s3 p c0).
  { unfold travc. rewrite Gc. refine (conj _ (conj eq_refl Bp)).
    rewrite Gp. cbn. apply members_iset_app_new. }
  refine (conj eq_refl (conj _ (conj _ (conj Trc (conj HK' N3))))).
  - (* ext *)
    split; [rewrite N3; lia|split].
    + intros y Hy. assert (y <> c0) by (unfold c0; lia). destruct (Old y H) as (A & B & C & _). auto.
    + intros y d Hy Hd. assert (y <> c0) by (unfold c0; lia). destruct (Old y H) as (_ & _ & _ & _ & _ & M & _). auto.
  - (* Tidy *)
    assert (Lt : forall q, q < s_next s3 -> q <> c0 -> q < s_next s) by (intros q Hq Nq; rewrite N3 in Hq; unfold c0 in Nq; lia).
    constructor.
    + intros q d Hq Hd. destruct (Nat.eq_dec q c0) as [->|Nq]; [rewrite Tc in Hd; destruct Hd|].
      destruct (Old q Nq) as (_ & _ & _ & _ & _ & _ & M). destruct (M d Hd) as [[-> ->]|Hd'].
      * destruct Trc as (_ & A & B). rewrite Lc. auto.
      * pose proof (Mold q d Hd') as Nd. destruct (Old d Nd) as (_ & -> & -> & -> & _). apply (T_trav s T); auto.
    + intros q d Hq Hd. destruct (Nat.eq_dec q c0) as [->|Nq]; [rewrite Lc in Hd; destruct Hd|].
      destruct (Old q Nq) as (_ & _ & _ & L & C & _). rewrite L in Hd. rewrite C.
      pose proof (Lold q d Hd) as Nd. destruct (Old d Nd) as (_ & _ & _ & _ & -> & _). apply (T_rank_l s T); auto.
    + intros q d Hq Hd. destruct (Nat.eq_dec q c0) as [->|Nq]; [rewrite Tc in Hd; destruct Hd|].
      destruct (Old q Nq) as (_ & _ & _ & _ & C & _ & M). rewrite C. destruct (M d Hd) as [[-> ->]|Hd'].
      * rewrite Cc. exact Rk.
      * pose proof (Mold q d Hd') as Nd. destruct (Old d Nd) as (_ & _ & _ & _ & -> & _). apply (T_rank_t s T); auto.
Qed.

(* ---------- the chain invariant of a navigation from x ---------- *)

(* l lists the elements visited so far, the latest first; the proxy in hand is owned by hd x l *)
Definition J (x : nat) (s : store) (l : list nat) : Prop :=
  Inv s /\ Tidy s /\ n_tparent (getn s x) = None /\ upchain s l x /\ (forall d, In d (l ++ [x]) -> d < s_next s).

Lemma J_ext x s s' l : J x s l -> ext s s' -> Inv s' -> Tidy s' -> J x s' l.
Proof.
  intros (I & T & Hx & Hc & Hb) E I' T'. refine (conj I' (conj T' (conj _ (conj _ _)))).
  - destruct E as (_ & E1 & _). destruct (E1 x) as (_ & _ & ->); auto. apply Hb. apply in_or_app. right. now left.
  - eapply upchain_ext; eauto.
  - intros d Hd. destruct E as (E0 & _). specialize (Hb d Hd). lia.
Qed.

Lemma J_head x s l : J x s l -> hd x l < s_next s.
Proof. intros (_ & _ & _ & _ & Hb). apply Hb. apply hd_In_app. Qed.

(* ElementProxy: the element a proxy resolves to extends the chain *)
Lemma proxy_element_chain x s l pn s' el :
  J x s l -> proxy_element t le false (hd x l) pn s = (s', Ok el) -> J x s' (el :: l) /\ ext s s'.
Proof.
  intros HJ. pose proof (J_head _ _ _ HJ) as Ho. destruct HJ as (I & T & Hx & Hc & Hb).
  set (o := hd x l) in *. unfold proxy_element. cbn [mbind node_of].
  destruct (iget (Some pn) (n_idx (getn s o))) as [|c l0] eqn:E1.
  - destruct (iget (Some pn) (n_tidx (getn s o))) as [|c l0] eqn:E2.
    + intros H. destruct (create_trav_step o pn s s' el I T Ho H) as (-> & E & T' & Tr & I' & N').
      split; [|exact E].
      destruct (J_ext x s s' l (conj I (conj T (conj Hx (conj Hc Hb)))) E I' T') as (_ & _ & Hx' & Hc' & Hb').
      refine (conj I' (conj T' (conj Hx' (conj _ _)))).
      * cbn [upchain]. left. fold o. auto.
      * intros d [<-|Hd]; [rewrite N'; lia|auto].
    + cbn [ret]. intros [= <- <-]. split; [|apply ext_refl].
      assert (Hm : In c (members (n_tidx (getn s o)))).
      { apply In_iget_members with (k := Some pn). rewrite E2. now left. }
      refine (conj I (conj T (conj Hx (conj _ _)))).
      * cbn [upchain]. left. fold o. split; [|exact Hc]. destruct (T_trav s T o c Ho Hm) as (A & B & _).
        unfold travc. auto.
      * intros d [<-|Hd]; [|auto]. apply In_members in Hm. destruct Hm as (k0 & l1 & A & B).
        destruct (I_trav s I o) as (_ & TT & _). destruct (TT _ _ _ A B) as (_ & _ & X). exact X.
  - cbn [ret]. intros [= <- <-]. split; [|apply ext_refl].
    assert (Hin : In c (n_list (getn s o))).
    { assert (Hi : In c (iget (Some pn) (n_idx (getn s o)))) by (rewrite E1; now left).
      rewrite (I_index s I) in Hi. apply filter_In in Hi. tauto. }
    refine (conj I (conj T (conj Hx (conj _ _)))).
    + cbn [upchain]. right. cbn [uplinks]. fold o. split; [exact Hin|].
      apply upchain_links; auto. fold o. intros F. rewrite F in Hin. destruct Hin.
    + intros d [<-|Hd]; [|auto]. now apply (I_bound s I o).
Qed.

(* getattr(element, name): the owner of the proxy is the element itself, or (positional path with a
   subcomponent part) the component resolved on the way *)
Lemma get_proxy_chain x s l name s' o' pn :
  J x s l -> get_proxy t le false (hd x l) name s = (s', Ok (o', pn)) ->
  exists l', J x s' l' /\ hd x l' = o' /\ ext s s' /\ length l <= length l'.
Proof.
  intros HJ. set (o := hd x l).
  assert (Same : forall pn0, (s, Ok (o, pn0)) = (s', Ok (o', pn)) ->
            exists l', J x s' l' /\ hd x l' = o' /\ ext s s' /\ length l <= length l').
  { intros pn0 [= <- <- _]. exists l. split; [exact HJ|split; [reflexivity|split; [apply ext_refl|lia]]]. }
  unfold get_proxy. cbn [mbind node_of].
  destruct (n_cls (getn s o)).
  - cbn [mbind lift]. destruct (proxy_name_plain t (getn s o) name); cbn [ret]; [apply Same|discriminate].
  - unfold mcatch. cbn [mbind lift].
    destruct (proxy_name_plain t (getn s o) name) as [pn0|ex]; cbn [ret]; [apply Same|].
    destruct (is_cnf ex); [|discriminate]. cbn [mbind lift node_of].
    destruct (positional t (getn s o) name) as [[cn sub]|ex2]; [|discriminate]. cbn [mbind node_of lift].
    destruct (proxy_name_plain t (getn s o) cn) as [pn0|ex3]; [|discriminate]. cbn [mbind].
    destruct sub as [k|]; [|cbn [ret]; apply Same].
    rewrite mbind_run. cbn [lift].
    match goal with |- context [match ?r with Ok a => _ | Err x0 => (s, Err x0) end] => destruct r as [cdt|ex4] end;
      [|discriminate].
    rewrite mbind_run.
    pose proof (proxy_element_chain x s l pn0) as HP. fold o in HP.
    destruct (proxy_element t le false o pn0 s) as [s1 [c|ex5]]; [|discriminate].
    destruct (HP s1 c HJ eq_refl) as [HJ1 E1]. cbn [mbind node_of lift].
    destruct (proxy_name_plain t (getn s1 c) _) as [pn2|ex5]; cbn [ret].
    + intros [= <- <- _]. exists (c :: l). split; [exact HJ1|split; [reflexivity|split; [exact E1|cbn; lia]]].
    + destruct (is_cnf ex5); cbn [raise]; discriminate.
  - cbn [mbind lift]. destruct (proxy_name_plain t (getn s o) name); cbn [ret]; [apply Same|discriminate].
  - cbn [mbind lift]. destruct (proxy_name_plain t (getn s o) name); cbn [ret]; [apply Same|discriminate].
Qed.

Lemma walk_chain x names : forall s l pr s' pr',
  J x s l -> fst pr = hd x l -> walk t le false pr names s = (s', Ok pr') ->
  exists l', J x s' l' /\ hd x l' = fst pr' /\ ext s s' /\ length l + length names <= length l'.
Proof.
  induction names as [|n names IH]; intros s l pr s' pr' HJ Hh; cbn [walk].
  - cbn [ret]. intros [= <- <-]. exists l. split; [exact HJ|split; [auto|split; [apply ext_refl|cbn; lia]]].
  - rewrite mbind_run. unfold step_proxy. rewrite mbind_run. rewrite Hh.
    pose proof (proxy_element_chain x s l (snd pr)) as HP.
    destruct (proxy_element t le false (hd x l) (snd pr) s) as [s1 [el|ex]]; [|discriminate].
    destruct (HP s1 el HJ eq_refl) as [HJ1 E1].
    pose proof (get_proxy_chain x s1 (el :: l) n) as HG. cbn [hd] in HG.
    destruct (get_proxy t le false el n s1) as [s2 [[o2 pn2]|ex]]; [|discriminate].
    destruct (HG s2 o2 pn2 HJ1 eq_refl) as (l2 & HJ2 & Hh2 & E2 & Len2).
    intros H. destruct (IH s2 l2 (o2, pn2) s' pr' HJ2 (eq_sym Hh2) H) as (l3 & HJ3 & Hh3 & E3 & Len3).
    exists l3. split; [exact HJ3|split; [exact Hh3|split]].
    + eapply ext_trans; [exact E1|]. eapply ext_trans; eauto.
    + cbn [length] in *. lia.
Qed.

(* x.n1.n2...nk : the proxy it evaluates to is owned by the head of a chain below x *)
Lemma read_chain_chain x names s s' pr :
  J x s [] -> read_chain t le false x names s = (s', Ok pr) ->
  exists l, J x s' l /\ hd x l = fst pr /\ ext s s' /\ length names <= S (length l).
Proof.
  intros HJ. destruct names as [|n names]; cbn [read_chain]; [discriminate|].
  rewrite mbind_run.
  pose proof (get_proxy_chain x s [] n) as HG. cbn [hd] in HG.
  destruct (get_proxy t le false x n s) as [s1 [[o1 pn1]|ex]]; [|discriminate].
  destruct (HG s1 o1 pn1 HJ eq_refl) as (l1 & HJ1 & Hh1 & E1 & Len1).
  intros H. destruct (walk_chain x names s1 l1 (o1, pn1) s' pr HJ1 (eq_sym Hh1) H) as (l2 & HJ2 & Hh2 & E2 & Len2).
  exists l2. split; [exact HJ2|split; [exact Hh2|split]].
  - eapply ext_trans; eauto.
  - cbn [length] in *. lia.
Qed.

End Chain.
