(* The consistency invariant of the element tree (C10) and its preservation by the store updates
   that Model/Heap.v is built from. *)
From Coq Require Import List Bool Arith Lia ZArith NArith Init.Byte.
From HL7 Require Import Lib.Str Model.Ec Model.Result Model.Ref Model.Tree Model.Parser Model.Encode Model.Heap.
From HL7 Require Import Proofs.HeapFacts.
Import ListNotations.

Definition name_is (s : store) (k : option str) (c : nat) : bool := opt_eqb k (n_name (getn s c)).
Definition unlisted (s : store) (c : nat) : Prop := forall q, ~ In c (n_list (getn s q)).

(* a traversal index ti is consistent with the child list l of the same element *)
Definition tidx_ok (s : store) (l : list nat) (ti : imap) : Prop :=
  NoDup (map fst ti) /\
  (forall k l' c, In (k, l') ti -> In c l' -> n_name (getn s c) = k /\ ~ In c l /\ c < s_next s) /\
  (forall k l', In (k, l') ti -> NoDup l').

Record Inv (s : store) : Prop := mk_Inv {
  (* every child listed by an element reports that element as its parent *)
  I_parent : forall p c, In c (n_list (getn s p)) -> n_parent (getn s c) = Some p;
  (* ... and is listed once *)
  I_nodup : forall p, NoDup (n_list (getn s p));
  (* the by-name index is the child list grouped by name, in order *)
  I_index : forall p k, iget k (n_idx (getn s p)) = filter (name_is s k) (n_list (getn s p));
  (* one validation level and one version along parent edges *)
  I_level : forall p c, In c (n_list (getn s p)) ->
                        n_lvl (getn s c) = n_lvl (getn s p) /\ n_ver (getn s c) = n_ver (getn s p);
  (* listed elements, traversal parents and traversal children are allocated *)
  I_bound : forall p c, In c (n_list (getn s p)) -> c < s_next s;
  I_tbound : forall x q, n_tparent (getn s x) = Some q -> q < s_next s;
  (* traversal children: indexed once, under their own name, allocated, and NOT listed *)
  I_trav : forall p, tidx_ok s (n_list (getn s p)) (n_tidx (getn s p))
}.

(* listed by one parent only: a consequence of I_parent *)
Lemma Inv_one_parent s p q c : Inv s -> In c (n_list (getn s p)) -> In c (n_list (getn s q)) -> p = q.
Proof.
  intros I Hp Hq. pose proof (I_parent s I p c Hp) as A. pose proof (I_parent s I q c Hq) as B. congruence.
Qed.
Lemma parent_none_unlisted s c : Inv s -> n_parent (getn s c) = None -> unlisted s c.
Proof. intros I H q Hq. rewrite (I_parent s I q c Hq) in H. discriminate. Qed.

(* a candidate: an element that may be handed to add / assignment *)
Definition untraversed (s : store) (d : nat) : Prop := forall q, ~ In d (members (n_tidx (getn s q))).
Definition cand (s : store) (d : nat) : Prop :=
  unlisted s d /\ d < s_next s /\ n_tparent (getn s d) = None /\ untraversed s d.
(* the working invariant: Inv plus a set U of candidates that must stay candidates (the frame) *)
(* ... and a set B of elements known to be allocated *)
Definition K (U B : nat -> Prop) (s : store) : Prop :=
  Inv s /\ (forall d, U d -> cand s d) /\ (forall d, B d -> d < s_next s).

Lemma K_weaken (U U' B B' : nat -> Prop) s :
  (forall d, U' d -> U d) -> (forall d, B' d -> B d) -> K U B s -> K U' B' s.
Proof. intros H H' (I & C & D). split; [exact I|split]; intros d Hd; auto. Qed.
Lemma K_Inv U B s : K U B s -> Inv s.
Proof. now intros [I _]. Qed.
Definition Unone : nat -> Prop := fun _ => False.
Lemma K_none s : Inv s -> K Unone Unone s.
Proof. intros I. split; [exact I|split]; intros d []. Qed.

(* ---------- updates that do not touch what Inv reads ---------- *)

Definition agree_core (N M : node) : Prop :=
  n_parent N = n_parent M /\ n_list N = n_list M /\ n_idx N = n_idx M /\ n_name N = n_name M /\
  n_lvl N = n_lvl M /\ n_ver N = n_ver M.

Lemma name_is_setn s x N k c : n_name N = n_name (getn s x) -> name_is (setn s x N) k c = name_is s k c.
Proof.
  intros H. unfold name_is. rewrite getn_setn. destruct (Nat.eqb_spec c x) as [->|]; [now rewrite H|reflexivity].
Qed.
Lemma filter_name_setn s x N k l :
  n_name N = n_name (getn s x) -> filter (name_is (setn s x N) k) l = filter (name_is s k) l.
Proof. intros H. apply filter_ext. intros c. now apply name_is_setn. Qed.

Lemma list_setn_same s x N q : n_list N = n_list (getn s x) -> n_list (getn (setn s x N) q) = n_list (getn s q).
Proof. intros H. rewrite getn_setn. destruct (Nat.eqb_spec q x) as [->|]; auto. Qed.

Definition tp_ok (s : store) (N : node) : Prop :=
  (forall q, n_tparent N = Some q -> q < s_next s) /\ tidx_ok s (n_list N) (n_tidx N).
Lemma tp_ok_same s x N :
  Inv s -> n_tparent N = n_tparent (getn s x) -> n_tidx N = n_tidx (getn s x) -> n_list N = n_list (getn s x) ->
  tp_ok s N.
Proof.
  intros I A B C. split.
  - intros q. rewrite A. apply (I_tbound s I).
  - rewrite B, C. apply (I_trav s I).
Qed.
Lemma tidx_ok_names s s' l ti :
  (forall c, n_name (getn s' c) = n_name (getn s c)) -> s_next s = s_next s' -> tidx_ok s l ti -> tidx_ok s' l ti.
Proof.
  intros Hn He (A & B & C). split; [|split]; auto.
  intros k l' c H1 H2. rewrite Hn, <- He. eapply B; eauto.
Qed.
Lemma tb_setn s x N : Inv s -> tp_ok s N -> n_name N = n_name (getn s x) ->
  (forall y q, n_tparent (getn (setn s x N) y) = Some q -> q < s_next (setn s x N)) /\
  (forall p, tidx_ok (setn s x N) (n_list (getn (setn s x N) p)) (n_tidx (getn (setn s x N) p))).
Proof.
  intros I [A B] Hn. split.
  - intros y q. rewrite getn_setn, next_setn. destruct (Nat.eqb y x); [apply A|apply (I_tbound s I)].
  - intros p. apply (tidx_ok_names s); [| reflexivity |].
    + intros c. rewrite getn_setn. destruct (Nat.eqb_spec c x) as [->|]; auto.
    + rewrite getn_setn. destruct (Nat.eqb p x); [apply B|apply (I_trav s I)].
Qed.

Lemma Inv_setn_core s x N : Inv s -> agree_core N (getn s x) -> tp_ok s N -> Inv (setn s x N).
Proof.
  intros I (Hp & Hl & Hi & Hn & Hv & Hr) TP. destruct (tb_setn s x N I TP Hn) as [TB XB].
  assert (L : forall q, n_list (getn (setn s x N) q) = n_list (getn s q)) by (intros; now apply list_setn_same).
  constructor.
  - intros p c Hc. rewrite L in Hc. rewrite getn_setn.
    destruct (Nat.eqb_spec c x) as [->|]; [rewrite Hp|]; now apply (I_parent s I).
  - intros p. rewrite L. apply (I_nodup s I).
  - intros p k. rewrite L, filter_name_setn by auto. rewrite getn_setn.
    destruct (Nat.eqb_spec p x) as [->|]; [rewrite Hi|]; apply (I_index s I).
  - intros p c Hc. rewrite L in Hc. destruct (I_level s I p c Hc) as [A B]. rewrite !getn_setn.
    destruct (Nat.eqb_spec c x) as [->|], (Nat.eqb_spec p x) as [->|]; rewrite ?Hv, ?Hr; auto.
  - intros p c Hc. rewrite L in Hc. rewrite next_setn. now apply (I_bound s I p).
  - exact TB.
  - exact XB.
Qed.

Lemma cand_setn s x N d :
  n_list N = n_list (getn s x) -> (d = x -> n_tparent N = None) -> ~ In d (members (n_tidx N)) ->
  cand s d -> cand (setn s x N) d.
Proof.
  intros Hl Ht Hx (Hu & Hb & Htp & Hut). split; [|split; [|split]].
  - intros q. rewrite list_setn_same by auto. apply Hu.
  - now rewrite next_setn.
  - rewrite getn_setn. destruct (Nat.eqb_spec d x) as [->|]; auto.
  - intros q. rewrite getn_setn. destruct (Nat.eqb q x); auto.
Qed.

(* ---------- a pointer update on an unlisted element ---------- *)

Lemma Inv_set_parent s c N :
  Inv s -> unlisted s c ->
  n_list N = n_list (getn s c) -> n_idx N = n_idx (getn s c) -> n_name N = n_name (getn s c) ->
  n_lvl N = n_lvl (getn s c) -> n_ver N = n_ver (getn s c) -> tp_ok s N ->
  Inv (setn s c N).
Proof.
  intros I U Hl Hi Hn Hv Hr TP. destruct (tb_setn s c N I TP Hn) as [TB XB].
  assert (L : forall q, n_list (getn (setn s c N) q) = n_list (getn s q)) by (intros; now apply list_setn_same).
  constructor.
  - intros p d Hd. rewrite L in Hd. rewrite getn_setn.
    destruct (Nat.eqb_spec d c) as [->|]; [destruct (U p Hd)|now apply (I_parent s I)].
  - intros p. rewrite L. apply (I_nodup s I).
  - intros p k. rewrite L, filter_name_setn by auto. rewrite getn_setn.
    destruct (Nat.eqb_spec p c) as [->|]; [rewrite Hi|]; apply (I_index s I).
  - intros p d Hd. rewrite L in Hd. destruct (I_level s I p d Hd) as [A B]. rewrite !getn_setn.
    destruct (Nat.eqb_spec d c) as [->|], (Nat.eqb_spec p c) as [->|]; rewrite ?Hv, ?Hr; auto.
  - intros p d Hd. rewrite L in Hd. rewrite next_setn. now apply (I_bound s I p).
  - exact TB.
  - exact XB.
Qed.

(* ---------- replacing the child containers of p ---------- *)

Lemma Inv_set_children s p l' i' ti' :
  Inv s -> NoDup l' ->
  (forall c, In c l' -> n_parent (getn s c) = Some p /\ n_lvl (getn s c) = n_lvl (getn s p) /\
                        n_ver (getn s c) = n_ver (getn s p) /\ c < s_next s) ->
  (forall k, iget k i' = filter (name_is s k) l') ->
  tidx_ok s l' ti' ->
  Inv (setn s p (with_children (getn s p) l' i' ti')).
Proof.
  intros I D Hc Hi Hti. set (N := with_children (getn s p) l' i' ti').
  assert (TP : tp_ok s N). { split; [intros q; cbn; apply (I_tbound s I)|exact Hti]. }
  destruct (tb_setn s p N I TP eq_refl) as [TB XB].
  assert (Hn : n_name N = n_name (getn s p)) by reflexivity.
  assert (L : forall q, n_list (getn (setn s p N) q) = if Nat.eqb q p then l' else n_list (getn s q)).
  { intros q. rewrite getn_setn. destruct (Nat.eqb q p); reflexivity. }
  assert (Par : forall d, n_parent (getn (setn s p N) d) = n_parent (getn s d)).
  { intros d. rewrite getn_setn. destruct (Nat.eqb_spec d p) as [->|]; reflexivity. }
  assert (Lv : forall d, n_lvl (getn (setn s p N) d) = n_lvl (getn s d) /\ n_ver (getn (setn s p N) d) = n_ver (getn s d)).
  { intros d. rewrite getn_setn. destruct (Nat.eqb_spec d p) as [->|]; split; reflexivity. }
  constructor.
  - intros q c H. rewrite L in H. rewrite Par. destruct (Nat.eqb_spec q p) as [->|].
    + now destruct (Hc c H).
    + now apply (I_parent s I).
  - intros q. rewrite L. destruct (Nat.eqb q p); auto. apply (I_nodup s I).
  - intros q k. rewrite L, filter_name_setn by auto. rewrite getn_setn.
    destruct (Nat.eqb_spec q p) as [->|]; [apply Hi|apply (I_index s I)].
  - intros q c H. rewrite L in H. destruct (Lv c) as [-> ->], (Lv q) as [-> ->].
    destruct (Nat.eqb_spec q p) as [->|].
    + destruct (Hc c H) as (_ & A & B & _). auto.
    + now apply (I_level s I).
  - intros q c H. rewrite L in H. rewrite next_setn. destruct (Nat.eqb_spec q p) as [->|].
    + now destruct (Hc c H) as (_ & _ & _ & B).
    + now apply (I_bound s I q).
  - exact TB.
  - exact XB.
Qed.

Lemma cand_set_children s p l' i' ti' d :
  ~ In d l' -> ~ In d (members ti') -> cand s d -> cand (setn s p (with_children (getn s p) l' i' ti')) d.
Proof.
  intros Hd Hx (Hu & Hb & Htp & Hut). split; [|split; [|split]].
  - intros q. rewrite getn_setn. destruct (Nat.eqb_spec q p) as [->|]; [exact Hd|apply Hu].
  - now rewrite next_setn.
  - rewrite getn_setn. destruct (Nat.eqb_spec d p) as [->|]; auto.
  - intros q. rewrite getn_setn. destruct (Nat.eqb q p); auto.
Qed.

(* members of the old list satisfy the side conditions of Inv_set_children *)
Lemma old_member_ok s p c :
  Inv s -> In c (n_list (getn s p)) ->
  n_parent (getn s c) = Some p /\ n_lvl (getn s c) = n_lvl (getn s p) /\ n_ver (getn s c) = n_ver (getn s p) /\ c < s_next s.
Proof.
  intros I H. destruct (I_level s I p c H). repeat split; auto.
  - now apply (I_parent s I).
  - now apply (I_bound s I p).
Qed.

(* ---------- allocation ---------- *)

Definition alloc_store (s : store) (n : node) : store := mk_store (upd (s_heap s) (s_next s) n) (S (s_next s)).
Lemma alloc_run n s : alloc n s = (alloc_store s n, Ok (s_next s)).
Proof. reflexivity. Qed.
Lemma getn_alloc s n j : getn (alloc_store s n) j = if Nat.eqb j (s_next s) then n else getn s j.
Proof. reflexivity. Qed.

Lemma Inv_alloc s n :
  Inv s -> n_list n = [] -> n_idx n = [] -> n_tidx n = [] -> (forall q, n_tparent n = Some q -> q < s_next s) ->
  Inv (alloc_store s n).
Proof.
  intros I Hl Hi Hti Htp.
  assert (L : forall q, n_list (getn (alloc_store s n) q) = if Nat.eqb q (s_next s) then [] else n_list (getn s q)).
  { intros q. rewrite getn_alloc. destruct (Nat.eqb q (s_next s)); auto. }
  assert (Old : forall p c, In c (n_list (getn s p)) -> getn (alloc_store s n) c = getn s c).
  { intros p c H. rewrite getn_alloc. pose proof (I_bound s I p c H). destruct (Nat.eqb_spec c (s_next s)); [lia|reflexivity]. }
  constructor.
  - intros p c H. rewrite L in H. destruct (Nat.eqb_spec p (s_next s)); [destruct H|].
    rewrite (Old p c H). now apply (I_parent s I).
  - intros p. rewrite L. destruct (Nat.eqb p (s_next s)); [constructor|apply (I_nodup s I)].
  - intros p k. rewrite L. rewrite getn_alloc. destruct (Nat.eqb_spec p (s_next s)).
    + rewrite Hi. reflexivity.
    + rewrite (I_index s I). apply filter_ext_in. intros c Hc. unfold name_is. now rewrite (Old p c Hc).
  - intros p c H. rewrite L in H. destruct (Nat.eqb_spec p (s_next s)) as [|Np]; [destruct H|].
    rewrite (Old p c H). rewrite (getn_alloc s n p). destruct (Nat.eqb_spec p (s_next s)); [congruence|].
    now apply (I_level s I).
  - intros p c H. rewrite L in H. destruct (Nat.eqb_spec p (s_next s)); [destruct H|].
    cbn. pose proof (I_bound s I p c H). lia.
  - intros x q. rewrite getn_alloc. cbn [s_next alloc_store]. destruct (Nat.eqb x (s_next s)).
    + intros H. specialize (Htp q H). lia.
    + intros H. pose proof (I_tbound s I x q H). lia.
  - intros p. rewrite !getn_alloc. destruct (Nat.eqb_spec p (s_next s)).
    + rewrite Hti. split; [cbn; constructor|split]; [intros k l' c []|intros k l' []].
    + destruct (I_trav s I p) as (A & B & C). split; [|split]; auto.
      intros k l' c H1 H2. destruct (B k l' c H1 H2) as (B1 & B2 & B3). cbn [s_next alloc_store].
      rewrite getn_alloc. destruct (Nat.eqb_spec c (s_next s)); [lia|]. repeat split; auto.
Qed.

Lemma cand_alloc_old s n d : n_list n = [] -> n_tidx n = [] -> cand s d -> cand (alloc_store s n) d.
Proof.
  intros Hl Hx (Hu & Hb & Ht & Hut). split; [|split; [|split]].
  - intros q. rewrite getn_alloc. destruct (Nat.eqb q (s_next s)); [rewrite Hl; auto|apply Hu].
  - cbn. lia.
  - rewrite getn_alloc. destruct (Nat.eqb_spec d (s_next s)); [lia|auto].
  - intros q. rewrite getn_alloc. destruct (Nat.eqb q (s_next s)); [rewrite Hx; auto|apply Hut].
Qed.
Lemma cand_alloc_new s n :
  Inv s -> n_list n = [] -> n_tidx n = [] -> n_tparent n = None -> cand (alloc_store s n) (s_next s).
Proof.
  intros I Hl Hx Ht. split; [|split; [|split]].
  - intros q. rewrite getn_alloc. destruct (Nat.eqb q (s_next s)); [rewrite Hl; auto|].
    intros H. pose proof (I_bound s I q _ H). lia.
  - cbn. lia.
  - rewrite getn_alloc. now rewrite Nat.eqb_refl.
  - intros q. rewrite getn_alloc. destruct (Nat.eqb q (s_next s)); [rewrite Hx; auto|].
    intros H. apply In_members in H. destruct H as (k & l & A & B).
    destruct (I_trav s I q) as (_ & T & _). destruct (T k l _ A B) as (_ & _ & ?). lia.
Qed.

(* ---------- extensionality: Inv reads the heap only through getn and s_next ---------- *)

Definition seq_store (s s' : store) : Prop := s_next s = s_next s' /\ forall i, getn s i = getn s' i.

Lemma Inv_ext s s' : seq_store s s' -> Inv s -> Inv s'.
Proof.
  intros [En Eg] I. constructor.
  - intros p c. rewrite <- !Eg. apply (I_parent s I).
  - intros p. rewrite <- Eg. apply (I_nodup s I).
  - intros p k. rewrite <- Eg. rewrite (I_index s I). apply filter_ext. intros c. unfold name_is. now rewrite Eg.
  - intros p c. rewrite <- !Eg. apply (I_level s I).
  - intros p c. rewrite <- Eg, <- En. apply (I_bound s I).
  - intros x q. rewrite <- Eg, <- En. apply (I_tbound s I).
  - intros p. rewrite <- Eg. apply (tidx_ok_names s); auto; [intros c; now rewrite Eg|apply (I_trav s I)].
Qed.
Lemma cand_ext s s' d : seq_store s s' -> cand s d -> cand s' d.
Proof.
  intros [En Eg] (A & B & C & D). split; [|split; [|split]].
  - intros q. rewrite <- Eg. apply A.
  - now rewrite <- En.
  - now rewrite <- Eg.
  - intros q. rewrite <- Eg. apply D.
Qed.
Lemma K_ext U B s s' : seq_store s s' -> K U B s -> K U B s'.
Proof.
  intros E (I & C & D). split; [|split].
  - eapply Inv_ext; eauto.
  - intros d Hd. eapply cand_ext; eauto.
  - intros d Hd. destruct E as [En _]. rewrite <- En. auto.
Qed.
Lemma seq_setn_setn s p N1 N2 : seq_store (setn s p N2) (setn (setn s p N1) p N2).
Proof.
  split; [reflexivity|]. intros i. rewrite !getn_setn. destruct (Nat.eqb i p); reflexivity.
Qed.
