(* The leaf layer with the C13 datatype factories plugged in (Model/LeafFull.v) satisfies the leaf
   premise of Proofs/NoCrash.v in the property's own terms: it returns a value, raises one of the
   library's exceptions, or - under STRICT only - ValueError.  Never a crash. *)
From Coq Require Import List Bool ZArith NArith Init.Byte.
From HL7 Require Import Lib.Str Model.Ec Model.Escape Model.Result Model.Tree Model.Leaf Model.LeafFull Gen.Params.
From HL7 Require Model.Datatypes Proofs.DatatypesNum.
From HL7 Require Import Proofs.NoCrash Proofs.NoCrashTables.
Import ListNotations.
Open Scope bs_scope.

Lemma streqb_sym a b : streqb a b = streqb b a.
Proof. destruct (streqb_spec a b) as [->|N]; [now rewrite streqb_refl|]. destruct (streqb_spec b a); congruence. Qed.

Lemma dt_row_lookup v d k mx : dt_row v d = Some (k, mx) ->
  exists rows, slookup v base_datatype_table = Some rows /\ Datatypes.row_lookup d rows = Some (k, mx).
Proof.
  unfold dt_row. destruct (slookup v base_datatype_table) as [rows|]; [|discriminate].
  intros H. exists rows. split; [reflexivity|].
  induction rows as [|[[n k'] ml] rows IH]; [discriminate|]. cbn [filter fst snd Datatypes.row_lookup] in *.
  rewrite (streqb_sym d n). destruct (streqb n d); [|exact (IH H)].
  cbn in H. exact H.
Qed.

Lemma five_kind_safe k : is_five k = true -> DatatypesNum.kind_safe k.
Proof.
  destruct k; try discriminate; intros _;
    auto using DatatypesNum.kind_safe_DT, DatatypesNum.kind_safe_TM, DatatypesNum.kind_safe_DTM,
               DatatypesNum.kind_safe_NM, DatatypesNum.kind_safe_SI.
Qed.

Lemma table_has_st : DatatypesNum.table_has_st = true.
Proof. vm_compute. reflexivity. Qed.

Lemma factory_safe v lvl d e s k mx : dt_row v d = Some (k, mx) -> is_five k = true ->
  sp (hl7_or_value lvl) TT (match Datatypes.factory v (dlevel lvl) d e s with Ok (_, t) => Ok t | Err x => Err x end).
Proof.
  intros Hr H5. destruct (dt_row_lookup v d k mx Hr) as [rows [Hv Hn]].
  pose proof (five_kind_safe k H5) as Hk.
  destruct lvl; cbn [dlevel].
  - (* STRICT: ValueError or MaxLengthReached *)
    unfold Datatypes.factory. rewrite Hv, Hn. cbn [Datatypes.is_strict].
    destruct (Datatypes.impl_kind k true mx s) as [t|x] eqn:E; [exact I|].
    destruct (Hk true mx s x E) as [[-> _]|[_ [-> _]]]; cbn; auto.
  - (* TOLERANT: never rejects *)
    destruct (DatatypesNum.factory_tolerant v rows d k mx e s table_has_st Hk Hv Hn) as [[t [_ ->]]|[p [_ [_ ->]]]]; exact I.
Qed.

Theorem leaf_enc_full_safe v lvl e dt s : sp (hl7_or_value lvl) TT (leaf_enc_full v lvl e dt s).
Proof.
  assert (L : sp (hl7_or_value lvl) TT (leaf_enc v lvl e dt s)).
  { pose proof (leaf_enc_safe v lvl e dt s) as H.
    destruct (leaf_enc v lvl e dt s) as [a|[c| |k|]]; cbn in *; tauto. }
  unfold leaf_enc_full. destruct dt as [d|]; [|exact I].
  destruct (dt_row v d) as [[k mx]|] eqn:Hr; [|exact L].
  destruct (is_five k) eqn:H5; [exact (factory_safe v lvl d e s k mx Hr H5)|].
  destruct k; try exact L.
  destruct (tn_ok s); [exact L|]. destruct lvl; cbn; [reflexivity|exact I].
Qed.
