(* Allocation of parser-built trees and lazily created elements: the invariant is kept and the new
   root is a candidate (unlisted, allocated, no traversal parent, in no traversal index). *)
From Coq Require Import List Bool Arith Lia ZArith NArith Init.Byte.
From HL7 Require Import Lib.Str Model.Ec Model.Result Model.Ref Model.Tree Model.Parser Model.Encode Model.Heap.
From HL7 Require Import Proofs.HeapFacts Proofs.HeapInv Proofs.HeapOps.
Import ListNotations.

Definition attrs := (level * str * option nat)%type.
Definition attr_of (n : node) : attrs := (n_lvl n, n_ver n, n_parent n).
(* a frame: attributes of allocated elements that allocation must leave alone *)
Definition frame (s : store) (F : nat -> attrs -> Prop) : Prop :=
  forall y a, F y a -> y < s_next s /\ attr_of (getn s y) = a.

Lemma frame_alloc s n F : frame s F -> frame (alloc_store s n) F.
Proof.
  intros H y a Hy. destruct (H y a Hy) as [A B]. split; [cbn; lia|].
  rewrite getn_alloc. destruct (Nat.eqb_spec y (s_next s)); [lia|exact B].
Qed.
Lemma frame_children s p l i ti F : frame s F -> frame (setn s p (with_children (getn s p) l i ti)) F.
Proof.
  intros H y a Hy. destruct (H y a Hy) as [A B]. split; [now rewrite next_setn|].
  rewrite getn_setn. destruct (Nat.eqb_spec y p) as [->|]; auto.
Qed.

Section Alloc.
Variable t : tables.

Definition blank (n : node) : Prop :=
  n_list n = [] /\ n_idx n = [] /\ n_tidx n = [] /\ n_tparent n = None.

Lemma alloc_spec (U B : nat -> Prop) (F : nat -> attrs -> Prop) n :
  spec (alloc n) (fun s => K U B s /\ frame s F /\ blank n)
       (fun c s => K U B s /\ frame s F /\ ~ U c /\ (forall a, ~ F c a) /\ cand s c /\ getn s c = n) (K U B).
Proof.
  intros s ((I & C & D) & HF & (Bl & Bi & Bt & Bp)). rewrite alloc_run.
  split; [split; [|split]|split; [|split; [|split; [|split]]]].
  - apply Inv_alloc; auto. rewrite Bp. discriminate.
  - intros d Hd. apply cand_alloc_old; auto.
  - intros d Hd. cbn. specialize (D d Hd). lia.
  - now apply frame_alloc.
  - intros Hc. destruct (C _ Hc) as (_ & Hb & _). lia.
  - intros a Ha. destruct (HF _ _ Ha). lia.
  - apply cand_alloc_new; auto.
  - rewrite getn_alloc. now rewrite Nat.eqb_refl.
Qed.

(* what an allocator of children guarantees about the element it returns *)
Definition good {A} (f : option nat -> A -> M nat) (lvl : level) : Prop :=
  forall (U B : nat -> Prop) (F : nat -> attrs -> Prop) par x,
    spec (f par x) (fun s => K U B s /\ frame s F)
         (fun c s => K U B s /\ frame s F /\ ~ U c /\ (forall a, ~ F c a) /\ cand s c /\
                     attr_of (getn s c) = (lvl, t_version t, par))
         (K U B).

Lemma good_alloc_sub lvl : good (alloc_sub t lvl) lvl.
Proof.
  intros U B F par x s (HK & HF). unfold alloc_sub.
  set (n := with_parent _ par).
  pose proof (alloc_spec U B F n s) as H. cbv beta in H.
  assert (Bn : blank n) by (repeat split).
  specialize (H (conj HK (conj HF Bn))). destruct (alloc n s) as [s' [c|x0]]; [|exact H].
  destruct H as (H1 & H2 & H3 & H4 & H5 & H6).
  refine (conj H1 (conj H2 (conj H3 (conj H4 (conj H5 _))))). rewrite H6. reflexivity.
Qed.

Lemma do_append_frame (U B : nat -> Prop) (F : nat -> attrs -> Prop) p c :
  spec (do_append p c)
       (fun s => K U B s /\ frame s F /\ ~ U c /\ ptr s c p /\ n_lvl (getn s p) = n_lvl (getn s c) /\ n_ver (getn s p) = n_ver (getn s c))
       (fun _ s => K U B s /\ frame s F) (K U B).
Proof.
  apply spec_modify. intros s (HK & HF & Rest).
  pose proof (do_append_spec U B p c s (conj HK Rest)) as H. unfold do_append, modify in H. cbv beta iota in H.
  split; [exact H|]. now apply frame_children.
Qed.

Lemma alloc_kids_spec {A} (f : option nat -> A -> M nat) lvl root rp (l : list A) :
  good f lvl ->
  forall (U B : nat -> Prop) (F : nat -> attrs -> Prop),
  F root (lvl, t_version t, rp) ->
  spec (alloc_kids f root l) (fun s => K U B s /\ frame s F) (fun _ s => K U B s /\ frame s F) (K U B).
Proof.
  intros G. induction l as [|x l IH]; intros U B F HR s (HK & HF); cbn [alloc_kids].
  - cbn. auto.
  - rewrite mbind_run. pose proof (G U B F (Some root) x s (conj HK HF)) as H. step_with H; [|exact H].
    destruct H as (H1 & H2 & H3 & H4 & H5 & H6). rewrite mbind_run.
    destruct (H2 _ _ HR) as [Rb Ra]. unfold attr_of in Ra, H6.
    pose proof (do_append_frame U B F root r s0) as Hd. cbv beta in Hd.
    assert (Pre : ptr s0 r root) by (destruct H5 as (A1 & A2 & _); repeat split; auto; congruence).
    assert (Hl : n_lvl (getn s0 root) = n_lvl (getn s0 r)) by congruence.
    assert (Hv : n_ver (getn s0 root) = n_ver (getn s0 r)) by congruence.
    specialize (Hd (conj H1 (conj H2 (conj H3 (conj Pre (conj Hl Hv)))))).
    destruct (do_append root r s0) as [s1 [[]|x0]]; [|exact Hd].
    now apply IH.
Qed.

(* allocate a root, then its children under it *)
Lemma alloc_tree_spec {A} (f : option nat -> A -> M nat) lvl (n : node) par (l : list A) (U B : nat -> Prop) (F : nat -> attrs -> Prop) :
  good f lvl -> blank n -> attr_of n = (lvl, t_version t, par) ->
  spec (let! i := alloc n in alloc_kids f i l ;; ret i)%heap
       (fun s => K U B s /\ frame s F)
       (fun c s => K U B s /\ frame s F /\ ~ U c /\ (forall a, ~ F c a) /\ cand s c /\
                   attr_of (getn s c) = (lvl, t_version t, par))
       (K U B).
Proof.
  intros G Bn An s (HK & HF). rewrite mbind_run.
  pose proof (alloc_spec U B F n s (conj HK (conj HF Bn))) as H. step_with H; [|exact H].
  destruct H as (H1 & H2 & H3 & H4 & H5 & H6). rewrite mbind_run.
  set (U' := fun d => U d \/ d = r).
  set (F' := fun y a => F y a \/ (y = r /\ a = (lvl, t_version t, par))).
  assert (HK' : K U' B s0).
  { destruct H1 as (I & C & D). split; [|split]; auto. intros d [Hd| ->]; auto. }
  assert (HF' : frame s0 F').
  { intros y a [Hy|[-> ->]]; [now apply H2|]. split; [apply H5|]. now rewrite H6. }
  assert (W : forall s', K U' B s' -> K U B s') by (intros s'; apply K_weaken; unfold U'; auto).
  pose proof (alloc_kids_spec f lvl r par l G U' B F' (or_intror (conj eq_refl eq_refl)) s0 (conj HK' HF')) as H.
  step_with H; [|now apply W]. destruct H as (K1 & F1). cbn [ret].
  split; [now apply W|]. split; [|split; [|split; [|split]]]; auto.
  - intros y a Hy. apply F1. now left.
  - apply (cand_unfold U' B s1 r K1). now right.
  - apply F1. right. auto.
Qed.

Lemma good_alloc_comp lvl : good (alloc_comp t lvl) lvl.
Proof.
  intros U B F par x. unfold alloc_comp. apply alloc_tree_spec; [apply good_alloc_sub| |]; repeat split.
Qed.
Lemma good_alloc_field lvl : good (alloc_field t lvl) lvl.
Proof.
  intros U B F par x. unfold alloc_field. apply alloc_tree_spec; [apply good_alloc_comp| |]; repeat split.
Qed.

Definition Fnone : nat -> attrs -> Prop := fun _ _ => False.
Lemma frame_none s : frame s Fnone.
Proof. intros y a []. Qed.

(* the form used by the operations: a fresh candidate, nothing else disturbed *)
Definition fresh_post U B (c : nat) (s : store) : Prop := K U B s /\ ~ U c /\ cand s c.

Lemma alloc_sub_spec U B lvl x :
  spec (alloc_sub t lvl None x) (K U B) (fresh_post U B) (K U B).
Proof.
  intros s HK. pose proof (good_alloc_sub lvl U B Fnone None x s (conj HK (frame_none s))) as H.
  step_with H; [|exact H]. unfold fresh_post. tauto.
Qed.
Lemma alloc_comp_spec U B lvl x :
  spec (alloc_comp t lvl None x) (K U B) (fresh_post U B) (K U B).
Proof.
  intros s HK. pose proof (good_alloc_comp lvl U B Fnone None x s (conj HK (frame_none s))) as H.
  step_with H; [|exact H]. unfold fresh_post. tauto.
Qed.
Lemma alloc_field_spec U B lvl x :
  spec (alloc_field t lvl None x) (K U B) (fresh_post U B) (K U B).
Proof.
  intros s HK. pose proof (good_alloc_field lvl U B Fnone None x s (conj HK (frame_none s))) as H.
  step_with H; [|exact H]. unfold fresh_post. tauto.
Qed.
Lemma alloc_seg_spec U B lvl x :
  spec (alloc_seg t lvl x) (K U B) (fresh_post U B) (K U B).
Proof.
  intros s HK. unfold alloc_seg.
  pose proof (alloc_tree_spec (alloc_field t lvl) lvl
                (mk_node CSeg (Some (s_name x)) lvl (t_version t) None None [] [] [] (Some (s_st x)) None [] []
                         (s_inf x) (s_last_allowed x) (s_last x)) None (s_children x) U B Fnone
                (good_alloc_field lvl)) as H.
  assert (Bn : blank (mk_node CSeg (Some (s_name x)) lvl (t_version t) None None [] [] [] (Some (s_st x)) None [] []
                         (s_inf x) (s_last_allowed x) (s_last x))) by (repeat split).
  specialize (H Bn eq_refl s (conj HK (frame_none s))).
  match type of H with match ?m with _ => _ end => destruct m as [s' [c|x0]] end; [|exact H].
  unfold fresh_post. tauto.
Qed.

End Alloc.
