(* The two table premises of Proofs/StrictSim.v hold for every shipped version ('ST' is a base
   datatype, the empty string is not), and the computed witness showing that the side condition
   "datatype argument None or base" of the constructor-level lemma cannot be dropped. *)
From Coq Require Import List Bool ZArith NArith Init.Byte.
From HL7 Require Import Lib.Str Model.Ec Model.Result Model.Ref Model.Tree Model.Parser Model.Encode Model.Leaf.
From HL7 Require Import Gen.Params Gen.Tables.
From HL7 Require Gen.Tables_v2_5.
From HL7 Require Import Proofs.RoundTripTables Proofs.StrictSubset Proofs.StrictSim.
Import ListNotations.
Open Scope bs_scope.

Definition sim_facts (t : tables) : bool := base t (Some (unbs "ST")) && negb (base t (Some [])).

Lemma all_sim_facts : forallb (fun p => sim_facts (snd p)) all_tables = true.
Proof. vm_compute. reflexivity. Qed.

Lemma shipped_sim_facts v t : tables_of v = Some t ->
  base t (Some (unbs "ST")) = true /\ base t (Some []) = false.
Proof.
  intros H. pose proof (lookup_forallb (fun _ x => sim_facts x) all_tables v t all_sim_facts H) as F.
  cbv beta in F. unfold sim_facts in F. apply andb_prop in F. destruct F as [F1 F2].
  split; [exact F1|now apply negb_true_iff].
Qed.

Theorem shipped_parse_segment_subset v t e text reference s : tables_of v = Some t ->
  parse_segment t STRICT e (leaf_enc v STRICT e) text reference = Ok s ->
  parse_segment t TOLERANT e (leaf_enc v TOLERANT e) text reference = Ok s.
Proof.
  intros Ht. destruct (shipped_sim_facts v t Ht) as [Hst Hnb].
  exact (parse_segment_subset t e (leaf_enc v STRICT e) (leaf_enc v TOLERANT e) (leaf_enc_subset v e) Hst Hnb
                              text reference s).
Qed.

(* Component('VARIES_1', datatype='CE') : STRICT builds it, TOLERANT raises ChildNotFound (the
   TOLERANT-only reconstruction of the reference looks the NAME up in the component table) *)
Lemma component_ctor_witness :
  (exists c, mk_component Gen.Tables_v2_5.tables STRICT (Some (unbs "VARIES_1")) (Some (unbs "CE")) None = Ok c) /\
  mk_component Gen.Tables_v2_5.tables TOLERANT (Some (unbs "VARIES_1")) (Some (unbs "CE")) None = Err (HL7 EChildNotFound).
Proof. split; [eexists|]; vm_compute; reflexivity. Qed.

(* ---- the leaf layer with the datatype factories plugged in (Model/LeafFull.v) ---- *)
From HL7 Require Import Model.LeafFull.
From HL7 Require Proofs.DatatypesNum.

Lemma leaf_enc_full_subset v e dt s x :
  leaf_enc_full v STRICT e dt s = Ok x -> leaf_enc_full v TOLERANT e dt s = Ok x.
Proof.
  unfold leaf_enc_full. destruct dt as [d|]; [|discriminate].
  destruct (dt_row v d) as [[k mx]|]; [|apply leaf_enc_subset].
  destruct (is_five k).
  - cbn [dlevel].
    destruct (Datatypes.factory v Datatypes.STRICT d e s) as [[fb t0]|] eqn:F; [|discriminate].
    destruct (Proofs.DatatypesNum.factory_strict_ok _ _ _ _ _ _ F) as [_ ->]. auto.
  - destruct k; try apply leaf_enc_subset.
    destruct (tn_ok s); [apply leaf_enc_subset|]. cbn [is_strict]. discriminate.
Qed.

Theorem shipped_parse_segment_subset_full v t e text reference s : tables_of v = Some t ->
  parse_segment t STRICT e (leaf_enc_full v STRICT e) text reference = Ok s ->
  parse_segment t TOLERANT e (leaf_enc_full v TOLERANT e) text reference = Ok s.
Proof.
  intros Ht. destruct (shipped_sim_facts v t Ht) as [Hst Hnb].
  exact (parse_segment_subset t e (leaf_enc_full v STRICT e) (leaf_enc_full v TOLERANT e) (leaf_enc_full_subset v e) Hst Hnb
                              text reference s).
Qed.
