(* C18 at message level (Model/MessageProf.v): parse_message with a message profile.
     - no profile (None): Model/Message.v's parse_message, so every theorem about it transfers;
     - a profile lacking the structure (the empty one included): MessageProfileNotFound; a legacy
       entry: LegacyMessageProfile;
     - a profile that restates the standard structure changes nothing;
     - find_groups=True: every group of the result is a child its parent's (profile) reference
       declares and carries that sub-reference and its structure, every segment the search placed was
       parsed with the sub-reference its group's (profile) reference declares for it (the soundness
       proof of Proofs/GroupsFacts.v with the group table replaced by any naming function G);
     - find_groups=False: the segments are parsed WITHOUT reference, i.e. on the standard tables,
       whatever the profile says (parser.py:155) - the threading clause is refuted for that mode;
     - validate() reads the profile only through the reference the message carries. *)
From Coq Require Import List Bool Arith ZArith NArith Lia Init.Byte.
From HL7 Require Import Lib.Str Model.Ec Model.Result Model.Header Model.Ref Model.Tree Model.Parser Model.Encode
                        Model.Leaf Model.MsgTree Model.Groups Model.Message Model.MessageProf Model.Validate
                        Proofs.GroupsFacts.
Import ListNotations.
Open Scope bs_scope.
Open Scope res_scope.

(* ------------------------------------------------------------------ *)
(* small facts about the constructor and `m.children = children`        *)

Lemma pm_add_all_full lvl t : forall kids m m', add_all lvl t m kids = Ok m' ->
  m' = mk_message (m_name m) (m_st m) (m_children m ++ kids).
Proof.
  induction kids as [|k kids IH]; intros m m' H; cbn [add_all] in H.
  - injection H as <-. rewrite app_nil_r. now destruct m.
  - match type of H with bind ?r _ = _ => destruct r; cbn [bind] in H; [|discriminate] end.
    apply IH in H. cbn [m_name m_st m_children] in H. now rewrite <- app_assoc in H.
Qed.

Lemma pm_new_message_shape lvl t e name m : new_message lvl t e name = Ok m ->
  m_children m = [] /\ (name = None -> m_name m = None /\ m_st m = None).
Proof.
  unfold new_message. intros H.
  match type of H with bind ?r _ = _ => destruct r as [m1|] eqn:E1; cbn [bind] in H; [|discriminate] end.
  destruct (opt_is_none (m_name m1) && is_strict lvl); [discriminate|].
  repeat match type of H with bind ?r _ = _ => destruct r; cbn [bind] in H; [|discriminate] end.
  injection H as <-.
  destruct name as [n0|].
  - split; [|discriminate].
    destruct (slookup (upper n0) (t_messages t)).
    + destruct (parse_structure t s); cbn [bind] in E1; [|discriminate]. now injection E1 as <-.
    + destruct (Groups.valid_z_message_name (Some n0)); [|discriminate].
      destruct (parse_structure t empty_seq); cbn [bind] in E1; [|discriminate]. now injection E1 as <-.
  - injection E1 as <-. cbn. auto.
Qed.

Lemma parse_structure_reference t r st : parse_structure t r = Ok st -> st_reference st = r.
Proof.
  unfold parse_structure. destruct (view_of t r); try discriminate.
  - intros H. now injection H as <-.
  - destruct (parse_children _ _ _ _ _ _) as [[[[? ?] ?] ?]|]; [|discriminate]. intros H. now injection H as <-.
Qed.

Lemma new_message_ref_shape lvl t e n r m : new_message_ref lvl t e n r = Ok m ->
  exists st, parse_structure t r = Ok st /\ m = mk_message (Some (upper n)) (Some st) [].
Proof.
  unfold new_message_ref. intros H.
  destruct (parse_structure t r) as [st|] eqn:E; cbn [bind] in H; [|discriminate].
  repeat match type of H with bind ?r _ = _ => destruct r; cbn [bind] in H; [|discriminate] end.
  injection H as <-. eauto.
Qed.

(* ------------------------------------------------------------------ *)
(* (a) no profile                                                       *)

Section Entry.
Variable lib : str -> option tables.
Variable dflt : str.
Variable lvl : level.

Lemma parse_message_prof_none fg text :
  parse_message_prof lib dflt lvl fg None text = parse_message lib dflt lvl fg text.
Proof.
  unfold parse_message_prof, parse_message_prof_gen, parse_message.
  destruct (get_message_info (lstrip text)) as [[[e s] v]|x]; reflexivity.
Qed.

Variable leafv : str -> level -> ec -> option str -> str -> result str.
Notation pmp := (parse_message_prof_gen lib dflt lvl leafv).

(* ------------------------------------------------------------------ *)
(* (b) MessageProfileNotFound / LegacyMessageProfile                    *)

Lemma parse_message_prof_not_found fg p text e s v :
  get_message_info (lstrip text) = Ok (e, s, v) ->
  match s with Some n => slookup n p | None => None end = None ->
  pmp fg (Some p) text = Err (HL7 EMessageProfileNotFound).
Proof.
  intros Hi Hl. unfold parse_message_prof_gen. rewrite Hi. cbn [bind]. unfold lookup_profile.
  destruct s as [n|]; [rewrite Hl|]; reflexivity.
Qed.

(* an empty profile lacks every structure *)
Lemma parse_message_prof_empty fg text e s v :
  get_message_info (lstrip text) = Ok (e, s, v) ->
  pmp fg (Some []) text = Err (HL7 EMessageProfileNotFound).
Proof. intros Hi. apply (parse_message_prof_not_found fg [] text e s v Hi). now destruct s. Qed.

Lemma parse_message_prof_legacy fg p text e n v :
  get_message_info (lstrip text) = Ok (e, Some n, v) -> slookup n p = Some PLegacy ->
  pmp fg (Some p) text = Err (HL7 ELegacyMessageProfile).
Proof.
  intros Hi Hl. unfold parse_message_prof_gen. rewrite Hi. cbn [bind].
  unfold lookup_profile. now rewrite Hl.
Qed.

(* the constructor called with the profile itself: Message(name, reference=profile) *)
Lemma new_message_profiled_not_found t e name p :
  match name with Some n => slookup (upper n) p | None => None end = None ->
  new_message_profiled lvl t e name (Some p) = Err (HL7 EMessageProfileNotFound).
Proof. unfold new_message_profiled. destruct name as [n|]; [intros ->|]; reflexivity. Qed.

Lemma new_message_profiled_legacy t e n p :
  slookup (upper n) p = Some PLegacy ->
  new_message_profiled lvl t e (Some n) (Some p) = Err (HL7 ELegacyMessageProfile).
Proof. unfold new_message_profiled. now intros ->. Qed.

(* ------------------------------------------------------------------ *)
(* (c) a profile that restates the standard structure                   *)

Lemma new_message_ref_restated t e n r :
  slookup (upper n) (t_messages t) = Some r ->
  (forall st, parse_structure t r = Ok st -> msh_acceptance t lvl (upper n) st = Ok tt) ->
  new_message_ref lvl t e n r = new_message lvl t e (Some n).
Proof.
  intros Hl Ha. unfold new_message_ref, new_message. rewrite Hl.
  destruct (parse_structure t r) as [st|x] eqn:Es; cbn [bind]; [|reflexivity].
  cbn [m_name m_st opt_is_none andb].
  destruct (mk_segment t "MSH" (ref_in (Some st) "MSH")); cbn [bind]; [|reflexivity].
  rewrite (Ha st eq_refl). cbn [bind]. reflexivity.
Qed.

Lemma parse_message_prof_restated fg p text e n v r :
  get_message_info (lstrip text) = Ok (e, Some n, v) ->
  slookup n p = Some (PRef r) ->
  (forall t, lib (match v with Some v' => v' | None => dflt end) = Some t ->
     slookup (upper n) (t_messages t) = Some r /\
     (forall st, parse_structure t r = Ok st -> msh_acceptance t lvl (upper n) st = Ok tt)) ->
  pmp fg (Some p) text = pmp fg None text.
Proof.
  intros Hi Hl Ht. unfold parse_message_prof_gen. rewrite Hi. cbn [bind].
  unfold lookup_profile. rewrite Hl. cbn [bind].
  destruct (lib (match v with Some v' => v' | None => dflt end)) as [t|] eqn:El; cbn [bind]; [|reflexivity].
  destruct (Ht t eq_refl) as [H1 H2]. now rewrite (new_message_ref_restated t e n r H1 H2).
Qed.

(* ------------------------------------------------------------------ *)
(* what a successful profiled parse looks like                          *)

(* the message carries the profile's reference and its children are what parse_segments returned *)
Lemma parse_message_prof_shape fg p text e n v r t m :
  get_message_info (lstrip text) = Ok (e, Some n, v) ->
  slookup n p = Some (PRef r) ->
  pmp fg (Some p) text = Ok (t, m) -> m_name m <> None ->
  let leaf := leafv (match v with Some v' => v' | None => dflt end) lvl e in
  lib (match v with Some v' => v' | None => dflt end) = Some t /\
  exists st, parse_structure t r = Ok st /\ m_name m = Some (upper n) /\ m_st m = Some st /\
    (if fg then
       match parse_segments_grouped t lvl e leaf r (lstrip text) with
       | Err (Crash AttributeError) => parse_segments_flat t lvl e leaf (lstrip text)
       | x => x
       end
     else parse_segments_flat t lvl e leaf (lstrip text)) = Ok (m_children m).
Proof.
  intros Hi Hl H Hn. unfold parse_message_prof_gen in H. rewrite Hi in H. cbn [bind] in H.
  unfold lookup_profile in H. rewrite Hl in H. cbn [bind] in H.
  destruct (lib (match v with Some v' => v' | None => dflt end)) as [t0|] eqn:El; cbn [bind] in H; [|discriminate].
  inv_bind H. rename a into m0. inv_bind H. rename a into kids. inv_bind H. rename a into m1.
  injection H as <- <-. apply pm_add_all_full in Ha1. subst m1. cbn [m_name m_st m_children] in *.
  cbn zeta. split; [reflexivity|].
  destruct (new_message_ref lvl t0 e n r) as [m2|x2] eqn:E2.
  - injection Ha as <-. destruct (new_message_ref_shape _ _ _ _ _ _ E2) as (st & Hs & ->).
    cbn [m_name m_st m_children app] in *. exists st. repeat split; try assumption; try reflexivity.
    rewrite (parse_structure_reference _ _ _ Hs) in Ha0. destruct fg; exact Ha0.
  - assert (Hm : new_message lvl t0 e None = Ok m0) by (destruct x2 as [[]| | |]; try discriminate; exact Ha).
    destruct (pm_new_message_shape _ _ _ _ _ Hm) as (_ & Hnone). destruct (Hnone eq_refl) as [Hnm _].
    now rewrite Hnm in Hn.
Qed.

(* find_groups=False: the children are the flat parse, every segment built WITHOUT reference *)
Lemma parse_message_prof_flat_children p text t m :
  pmp false p text = Ok (t, m) ->
  exists e s v, get_message_info (lstrip text) = Ok (e, s, v) /\
    parse_segments_flat t lvl e (leafv (match v with Some v' => v' | None => dflt end) lvl e) (lstrip text)
    = Ok (m_children m).
Proof.
  intros H. unfold parse_message_prof_gen in H.
  destruct (get_message_info (lstrip text)) as [[[e s] v]|] eqn:Hi; cbn [bind] in H; [|discriminate].
  exists e, s, v. split; [reflexivity|].
  inv_bind H. rename a into px. inv_bind H. rename a into t0. inv_bind H. rename a into m0.
  inv_bind H. rename a into kids. inv_bind H. rename a into m1. injection H as <- <-.
  apply pm_add_all_full in Ha3. subst m1. cbn [m_children].
  assert (Hc : m_children m0 = []).
  { destruct px as [[s0 r0]|].
    - destruct (new_message_ref lvl t0 e s0 r0) as [m2|x2] eqn:E2.
      + injection Ha1 as <-. destruct (new_message_ref_shape _ _ _ _ _ _ E2) as (st & _ & ->). reflexivity.
      + assert (Hm : new_message lvl t0 e None = Ok m0) by (destruct x2 as [[]| | |]; try discriminate; exact Ha1).
        apply (pm_new_message_shape _ _ _ _ _ Hm).
    - destruct (new_message lvl t0 e s) as [m2|x2] eqn:E2.
      + injection Ha1 as <-. apply (pm_new_message_shape _ _ _ _ _ E2).
      + assert (Hm : new_message lvl t0 e None = Ok m0) by (destruct x2 as [[]| | |]; try discriminate; exact Ha1).
        apply (pm_new_message_shape _ _ _ _ _ Hm). }
  rewrite Hc. cbn [app].
  destruct (lib (match v with Some v' => v' | None => dflt end)); [|discriminate]. injection Ha0 as ->.
  destruct (m_st m0); exact Ha2.
Qed.

End Entry.

(* ------------------------------------------------------------------ *)
(* (d) find_groups=True.  The soundness proof of the group search (Proofs/GroupsFacts.v, Section
   SoundLoop) with the hypothesis "every reachable group row IS the group table's entry of its
   name" replaced by "the reachable group rows are NAMED CONSISTENTLY: some function G gives, for
   every reachable group row, the reference of that row from its name" - which is what the proof
   uses (parents_refs.index compares (name, reference) pairs and the test
   `parents_refs[-1][0] != current_parent.name` compares names only).  A message profile whose
   groups differ from the standard ones (inline references) satisfies it as soon as it does not
   use one group name for two different references; the standard structures are the instance
   G g = slookup g (t_groups t).  The section below is that proof, unchanged but for `gnamed`. *)
Section NamedLoop.
Variable t : tables.
Variable X A : Type.
Variable raw : X -> str.
Variable mkseg : X -> option sref -> result A.
Variable nm : A -> str.
Variable acceptance : str * sref * structure -> list str -> str -> result unit.
Variable root : sref.

Notation gstate := (gstate A).
Notation cur_group := (@cur_group A).
Notation add_child := (add_child A nm acceptance).
Notation open_group := (open_group t A nm acceptance).
Notation open_groups := (open_groups t A nm acceptance).
Notation reopen_group := (reopen_group t A nm acceptance).
Notation place := (place X A mkseg nm acceptance).
Notation after_found := (after_found t X A raw mkseg nm acceptance root).
Notation attempts := (attempts t X A raw mkseg nm acceptance root).
Notation step := (step t X A raw mkseg nm acceptance root).
Notation run := (run t X A raw mkseg nm acceptance root).
Notation sspine := (st_spine A).
Notation sclosed := (st_closed A).

(* G names the groups: the group row named g carries the reference G g, and the name is upper case
   (Group() upper-cases it).  Proofs/GroupsFacts.v is the instance G g = slookup g (t_groups t). *)
Variable G : str -> option sref.
Definition gnamed (g : str) (gr : sref) : Prop := G g = Some gr /\ upper g = g.
(* hypothesis on the reference: every group reachable from r is `gnamed` (decided by named_ok below) *)
Definition groups_named (r : sref) : Prop :=
  forall ex g gr, chain t r ex -> declared t (last_ref r ex) GRP g gr -> gnamed g gr.
Hypothesis Htab : groups_named root.

Definition some_e (p : str * sref) : entry := (Some (fst p), snd p).

Lemma chain_good ex : forall r, groups_named r -> chain t r ex -> Forall (fun p => gnamed (fst p) (snd p)) ex.
Proof.
  induction ex as [|[g gr] ex IH]; intros r H Hc; [constructor|]. destruct Hc as [Hd Hc]. constructor.
  - exact (H [] g gr I Hd).
  - apply (IH gr); [|exact Hc]. intros ex' g' gr' Hc' Hd'.
    apply (H ((g, gr) :: ex') g' gr'); [split; assumption | now rewrite last_ref_cons].
Qed.

Lemma chain_nth ex : forall r j g gr, chain t r ex -> nth_error ex j = Some (g, gr) ->
  chain t gr (skipn (S j) ex) /\ last_ref gr (skipn (S j) ex) = last_ref r ex.
Proof.
  induction ex as [|[g0 gr0] ex IH]; intros r j g gr Hc Hn; [destruct j; discriminate|].
  destruct Hc as [Hd Hc]. rewrite last_ref_cons. destruct j as [|j].
  - cbn in Hn. injection Hn as <- <-. cbn [skipn]. split; [exact Hc | reflexivity].
  - cbn in Hn. cbn [skipn]. apply (IH gr0 j g gr); assumption.
Qed.

Lemma chain_removelast ex : forall r, chain t r ex -> chain t r (removelast ex).
Proof.
  induction ex as [|[g gr] ex IH]; intros r Hc; [exact I|]. destruct Hc as [Hd Hc].
  destruct ex as [|p ex]; [exact I|]. change (removelast ((g, gr) :: p :: ex)) with ((g, gr) :: removelast (p :: ex)).
  split; [exact Hd | now apply IH].
Qed.

(* soundness of a tree below a parent whose reference is pr *)
Fixpoint carries (pr : sref) (x : gtree A) : Prop :=
  match x with
  | GS a None => True
  | GS a (Some sr) => exists i, mkseg i (Some sr) = Ok a /\ declared t pr SEG (raw i) sr
  | GG g r st cs =>
      (declared t pr GRP g r /\ gnamed g r) /\ parse_structure t r = Ok st /\
      (fix all (l : list (gtree A)) : Prop :=
         match l with [] => True | y :: rest => carries r y /\ all rest end) cs
  end.
Lemma carries_GG pr g r st cs :
  carries pr (GG g r st cs) <->
  (declared t pr GRP g r /\ gnamed g r) /\ parse_structure t r = Ok st /\ Forall (carries r) cs.
Proof.
  cbn [carries].
  assert (E : forall l : list (gtree A),
             (fix all (l : list (gtree A)) : Prop :=
                match l with [] => True | y :: rest => carries r y /\ all rest end) l
             <-> Forall (carries r) l).
  { induction l as [|y l IH]; split; intros H.
    - constructor.
    - exact I.
    - destruct H as [H1 H2]. constructor; [exact H1 | now apply IH].
    - inversion H; subst. split; [assumption | now apply IH]. }
  rewrite E. reflexivity.
Qed.

(* the reference of the node a path points at (pr for the empty path) *)
Fixpoint ref_at (pr : sref) (p : list nat) (f : gforest A) : option sref :=
  match p with
  | [] => Some pr
  | i :: p' => match nth_error f i with
               | Some (GG _ r _ cs) => ref_at r p' cs
               | _ => None
               end
  end.

Lemma append_sound p : forall pr f x r, Forall (carries pr) f -> ref_at pr p f = Some r ->
  carries r x -> Forall (carries pr) (append_at p x f).
Proof.
  induction p as [|i p IH]; intros pr f x r Hf Hr Hx.
  - cbn in Hr. injection Hr as <-. cbn [append_at]. apply Forall_app. split; [exact Hf | now constructor].
  - cbn [ref_at] in Hr. cbn [append_at]. apply Forall_update_nth; [exact Hf|].
    intros y Hy Hs. rewrite Hy in Hr. destruct y as [a sr | g r0 st cs]; [exact Hs|].
    apply carries_GG in Hs. destruct Hs as (H1 & H2 & H3). apply carries_GG.
    split; [exact H1|]. split; [exact H2|]. now apply (IH r0 cs x r).
Qed.

Lemma group_at_sound p : forall pr f n r st cs, Forall (carries pr) f ->
  group_at p f = Some (n, r, st, cs) ->
  ref_at pr p f = Some r /\
  exists pr', ref_at pr (removelast p) f = Some pr' /\ carries pr' (GG n r st cs).
Proof.
  induction p as [|i p IH]; intros pr f n r st cs Hf Hg; [discriminate|].
  destruct p as [|j p].
  - cbn [group_at] in Hg. destruct (nth_error f i) as [[a sr | g r0 st0 cs0]|] eqn:En; try discriminate.
    injection Hg as -> -> -> ->. cbn [ref_at]. rewrite En. split; [reflexivity|].
    exists pr. split; [reflexivity|]. apply nth_error_In in En.
    now apply (proj1 (Forall_forall _ _) Hf) in En.
  - change (group_at (i :: j :: p) f) with
      (match nth_error f i with Some (GG _ _ _ cs0) => group_at (j :: p) cs0 | _ => None end) in Hg.
    destruct (nth_error f i) as [[a sr | g r0 st0 cs0]|] eqn:En; try discriminate.
    assert (Hs : Forall (carries r0) cs0).
    { apply nth_error_In in En. apply (proj1 (Forall_forall _ _) Hf) in En.
      apply carries_GG in En. tauto. }
    destruct (IH r0 cs0 n r st cs Hs Hg) as (H1 & pr' & H2 & H3).
    change (removelast (i :: j :: p)) with (i :: removelast (j :: p)).
    cbn [ref_at]. rewrite En. split; [exact H1|]. exists pr'. split; assumption.
Qed.

Lemma ref_at_append_group p : forall pr f cs0 r0 n r st,
  children_at p f = Some cs0 -> ref_at pr p f = Some r0 ->
  ref_at pr (p ++ [length cs0]) (append_at p (GG n r st []) f) = Some r.
Proof.
  induction p as [|i p IH]; intros pr f cs0 r0 n r st Hc Hr.
  - cbn in Hc. injection Hc as <-. cbn [app append_at ref_at]. now rewrite nth_error_snoc.
  - cbn [children_at] in Hc. cbn [ref_at] in Hr.
    destruct (nth_error f i) as [[a sr | g r1 st1 cs1]|] eqn:En; try discriminate.
    cbn [app append_at ref_at]. rewrite (nth_error_update_nth _ _ _ _ En). now apply (IH r1 cs1 cs0 r0).
Qed.

Lemma spine_ref_at p : forall pr f, spine A p f -> exists cr, ref_at pr p f = Some cr.
Proof.
  induction p as [|i p IH]; intros pr f H; [now exists pr|].
  destruct H as (pre & n & r & st & cs & -> & -> & _ & Hs). cbn [ref_at]. rewrite nth_error_snoc.
  now apply IH.
Qed.

(* forest sound, and cr is the reference of the current parent *)
Definition sinv (s : gstate) (cr : sref) : Prop :=
  Forall (carries root) (g_forest s) /\ ref_at root (g_path s) (g_forest s) = Some cr.

Lemma add_child_sound s x s' cr : sinv s cr -> carries cr x -> add_child s x = Ok s' ->
  Forall (carries root) (g_forest s').
Proof.
  intros [Hf Hr] Hx H. destruct (add_child_eq _ _ _ _ _ _ H) as (_ & _ & ->).
  now apply (append_sound _ root _ x cr).
Qed.

Lemma open_group_sound s n r s' cr : sspine s -> sinv s cr ->
  declared t cr GRP n r -> gnamed n r -> open_group s n r = Ok s' -> sinv s' r.
Proof.
  intros Hsp [Hf Hr] Hd Hg H. unfold Groups.open_group in H. inv_bind H. rename a into st.
  inv_bind H. rename a into c. inv_bind H. rename a into s1. injection H as <-.
  assert (Eu : upper n = n) by apply Hg.
  assert (Hx : carries cr (GG (upper n) r st [])).
  { rewrite Eu. apply carries_GG. repeat split; try assumption; try apply Hg. constructor. }
  destruct (add_child_eq _ _ _ _ _ _ Ha1) as (E1 & E2 & E3).
  destruct (cur_group_children _ s c Hsp Ha0) as (cs & Hc & Hm).
  assert (El : match c with Some (_, _, _, cs0) => length cs0 | None => length (g_forest s) end = length cs).
  { destruct c as [[[[? ?] ?] cs']|]; [now destruct Hm as [-> _] | now destruct Hm as [_ ->]]. }
  split; cbn [g_path g_forest].
  - rewrite E3. now apply (append_sound _ root _ _ cr).
  - rewrite E2, E3, El. now apply (ref_at_append_group _ root _ cs cr).
Qed.

Lemma open_groups_sound ex : forall s cr s', sspine s -> sinv s cr -> chain t cr ex ->
  Forall (fun p => gnamed (fst p) (snd p)) ex -> open_groups s (map some_e ex) = Ok s' ->
  sinv s' (last_ref cr ex).
Proof.
  induction ex as [|[g gr] ex IH]; intros s cr s' Hsp Hi Hc Hg H.
  - cbn in H. injection H as <-. exact Hi.
  - cbn [map some_e fst snd Groups.open_groups] in H. inv_bind H. rename a into s1.
    destruct Hc as [Hd Hc]. inversion Hg; subst.
    assert (H1 : sinv s1 gr) by (apply (open_group_sound s g gr s1 cr); assumption).
    destruct (open_group_spine _ _ _ _ _ _ _ _ Hsp Ha) as (Hsp1 & _).
    rewrite last_ref_cons. now apply (IH s1 gr).
Qed.

Lemma place_sound x sr s s' cr : sinv s cr ->
  match sr with Some r => declared t cr SEG (raw x) r | None => True end ->
  place x sr s = Ok s' -> Forall (carries root) (g_forest s').
Proof.
  intros Hi Hd H. unfold Groups.place in H. inv_bind H.
  apply (add_child_sound _ _ _ cr Hi) in H; [exact H|].
  destruct sr as [r|]; [|exact I]. cbn [carries]. exists x. split; assumption.
Qed.

(* the stack: the bottom entry, then a path of declared groups *)
Definition stack_of (ex : list (str * sref)) : list entry := (None, root) :: map some_e ex.

Lemma last_entry_stack ex top : last_entry (stack_of ex) = Ok top ->
  snd top = last_ref root ex /\
  (ex = [] /\ fst top = None \/ exists ex' g, ex = ex' ++ [(g, snd top)] /\ fst top = Some g).
Proof.
  unfold last_entry, stack_of. destruct (list_snoc_cases ex) as [->|(ex' & [g gr] & ->)].
  - cbn. intros H. injection H as <-. split; [reflexivity | left; split; reflexivity].
  - rewrite map_app. cbn [map]. change ((None, root) :: map some_e ex' ++ [some_e (g, gr)])
      with (((None, root) :: map some_e ex') ++ [some_e (g, gr)]).
    rewrite rev_app_distr. cbn. intros H. injection H as <-. cbn [snd fst some_e]. split.
    + rewrite last_ref_app. reflexivity.
    + right. exists ex', g. split; reflexivity.
Qed.

Lemma index_of_nth x l : forall i0 i, index_of x l i0 = Some i ->
  exists j y, i = i0 + j /\ nth_error l j = Some y /\ entry_eqb y x = true.
Proof.
  induction l as [|y l IH]; intros i0 i H; cbn [index_of] in H; [discriminate|].
  destruct (entry_eqb y x) eqn:E.
  - injection H as <-. exists 0, y. repeat split; [lia | exact E].
  - destruct (IH _ _ H) as (j & z & -> & Hn & Hz). exists (S j), z. repeat split; [lia | exact Hn | exact Hz].
Qed.

Lemma opt_eqb_eq a b : opt_eqb a b = true -> a = b.
Proof. destruct a, b; cbn; try discriminate; [|reflexivity]. intros H. now rewrite (streqb_eq _ _ H). Qed.

Lemma after_found_sound x sr s s' ex : sclosed s -> g_stack s = stack_of ex -> chain t root ex ->
  Forall (carries root) (g_forest s) -> declared t (last_ref root ex) SEG (raw x) sr ->
  after_found x sr s = Ok s' ->
  Forall (carries root) (g_forest s') /\ g_stack s' = g_stack s.
Proof.
  intros Hc Hst Hch Hf Hd H. pose proof (chain_good ex root Htab Hch) as Hgood.
  unfold Groups.after_found in H. inv_bind H. rename a into c. inv_bind H. rename a into top.
  inv_bind H. rename a into s2. rewrite Hst in Ha0.
  destruct (last_entry_stack _ _ Ha0) as (Etop & Hcase).
  assert (Hsp : sspine s) by apply Hc.
  assert (H2 : sspine s2 /\ sinv s2 (last_ref root ex) /\ g_stack s2 = g_stack s).
  { destruct c as [[[[n r] st] cs]|].
    - (* inside a group *)
      assert (Hp : g_path s <> []).
      { unfold Groups.cur_group in Ha. destruct (g_path s); [discriminate | discriminate]. }
      assert (Hga : group_at (g_path s) (g_forest s) = Some (n, r, st, cs)).
      { unfold Groups.cur_group in Ha. destruct (g_path s) as [|i p]; [congruence|].
        destruct (group_at (i :: p) (g_forest s)); [now injection Ha as -> | discriminate]. }
      destruct (group_at_sound _ root _ _ _ _ _ Hf Hga) as (Hr & pr' & Hr' & Hnode).
      apply carries_GG in Hnode. destruct Hnode as ((Hdn & Hgn) & Hps & Hcs).
      destruct (negb (opt_eqb (fst top) (Some n))) eqn:Eneq.
      + destruct (index_of (Some n, r) (g_stack s) 0) as [i|] eqn:Ei; [|discriminate].
        destruct (index_of_nth _ _ _ _ Ei) as (j & y & -> & Hn & Hy). rewrite Hst in Hn.
        unfold entry_eqb in Hy. apply andb_prop in Hy. destruct Hy as [Hy _]. apply opt_eqb_eq in Hy.
        destruct j as [|j]; [cbn in Hn; injection Hn as <-; discriminate|].
        cbn [stack_of nth_error] in Hn. rewrite nth_error_map in Hn.
        destruct (nth_error ex j) as [[g gr]|] eqn:Ej; [|discriminate]. cbn in Hn. injection Hn as <-.
        cbn in Hy. injection Hy as ->.
        assert (Hgg : gnamed n gr).
        { apply nth_error_In in Ej. exact (proj1 (Forall_forall _ _) Hgood _ Ej). }
        assert (gr = r) by (destruct Hgg as [E1 _], Hgn as [E2 _]; congruence). subst gr.
        destruct (chain_nth ex root j n r Hch Ej) as (Hch' & El).
        rewrite Hst in Ha1. change (skipn (S (0 + S j)) (stack_of ex)) with (skipn (S j) (map some_e ex)) in Ha1.
        rewrite skipn_map in Ha1.
        assert (Hg' : Forall (fun p => gnamed (fst p) (snd p)) (skipn (S j) ex)).
        { apply Forall_forall. intros p Hp'. apply (proj1 (Forall_forall _ _) Hgood).
          rewrite <- (firstn_skipn (S j) ex). apply in_or_app. now right. }
        pose proof (open_groups_sound _ s r s2 Hsp (conj Hf Hr) Hch' Hg' Ha1) as Hs2.
        rewrite El in Hs2. destruct (open_groups_spine t A nm acceptance _ _ _ Hsp Ha1) as (? & _ & ?). auto.
      + apply negb_false_iff in Eneq. apply opt_eqb_eq in Eneq.
        destruct Hcase as [[_ E]|(ex' & g & Eex & E)]; [congruence|].
        rewrite E in Eneq. injection Eneq as ->.
        assert (Hgg : gnamed n (snd top)).
        { apply (proj1 (Forall_forall _ _) Hgood (n, snd top)). rewrite Eex. apply in_or_app. right. now left. }
        assert (snd top = r) by (destruct Hgg as [E1 _], Hgn as [E2 _]; congruence).
        assert (Er : last_ref root ex = r) by congruence.
        destruct (smem (raw x) (map (child_name nm) cs)).
        * destruct (repetitions_of st (raw x)) as [[mn mx]|]; [|discriminate].
          destruct (mx =? 1)%Z.
          -- unfold Groups.reopen_group in Ha1. rewrite Ha in Ha1. cbn [bind] in Ha1.
             set (up := mk_gstate (g_stack s) (removelast (g_path s)) (g_forest s)) in *.
             assert (Hup : sspine up).
             { unfold st_spine, up. cbn [g_path g_forest].
               apply (closed_removelast A (g_path s) (g_forest s) Hc). }
             pose proof (open_group_sound up n r s2 pr' Hup (conj Hf Hr') Hdn Hgn Ha1) as Hs2.
             destruct (open_group_spine t A nm acceptance _ _ _ _ Hup Ha1) as (? & _ & ?). rewrite Er. auto.
          -- injection Ha1 as <-. rewrite Er. repeat split; assumption.
        * injection Ha1 as <-. rewrite Er. repeat split; assumption.
    - (* at top level *)
      assert (Hp : g_path s = []).
      { unfold Groups.cur_group in Ha. destruct (g_path s) as [|i p]; [reflexivity|].
        destruct (group_at (i :: p) (g_forest s)); discriminate. }
      assert (Hr : ref_at root (g_path s) (g_forest s) = Some root) by now rewrite Hp.
      destruct (opt_is_some (fst top)) eqn:Etn.
      + destruct (index_of (None, root) (g_stack s) 0) as [i|] eqn:Ei; [|discriminate].
        destruct (index_of_nth _ _ _ _ Ei) as (j & y & -> & Hn & Hy). rewrite Hst in Hn.
        unfold entry_eqb in Hy. apply andb_prop in Hy. destruct Hy as [Hy _]. apply opt_eqb_eq in Hy.
        destruct j as [|j].
        * rewrite Hst in Ha1. change (skipn (S (0 + 0)) (stack_of ex)) with (map some_e ex) in Ha1.
          pose proof (open_groups_sound _ s root s2 Hsp (conj Hf Hr) Hch Hgood Ha1) as Hs2.
          destruct (open_groups_spine t A nm acceptance _ _ _ Hsp Ha1) as (? & _ & ?). auto.
        * cbn [stack_of nth_error] in Hn. rewrite nth_error_map in Hn.
          destruct (nth_error ex j) as [[g gr]|]; [|discriminate]. cbn in Hn. injection Hn as <-. discriminate.
      + injection Ha1 as <-. destruct Hcase as [[-> _]|(ex' & g & _ & E)]; [|rewrite E in Etn; discriminate].
        repeat split; assumption. }
  destruct H2 as (Hsp2 & Hi2 & Hs2). split.
  - apply (place_sound x (Some sr) s2 s' _ Hi2 Hd H).
  - unfold Groups.place in H. inv_bind H. destruct (add_child_eq _ _ _ _ _ _ H) as (E & _). congruence.
Qed.

(* the stack between iterations: empty (only after the bottom entry was popped: the next access
   raises) or the bottom entry followed by a path of declared groups *)
Definition stack_ok (stk : list entry) : Prop :=
  stk = [] \/ exists ex, stk = stack_of ex /\ chain t root ex.

Lemma attempts_sound n x : forall s s', sclosed s -> stack_ok (g_stack s) ->
  Forall (carries root) (g_forest s) -> attempts n x s = Ok (Some s') ->
  Forall (carries root) (g_forest s') /\ stack_ok (g_stack s').
Proof.
  induction n as [|n IH]; intros s s' Hc Hk Hf H; cbn [Groups.attempts] in H; [discriminate|].
  inv_bind H. rename a into top. destruct Hk as [Hk|(ex & Hk & Hch)]; [rewrite Hk in Ha; discriminate|].
  inv_bind H. destruct a as [[sr extra]|].
  - inv_bind H. rename a into s1. injection H as <-.
    rewrite Hk in Ha. destruct (last_entry_stack _ _ Ha) as (Etop & _). rewrite Etop in Ha0.
    destruct (search_sound _ _ _ _ _ _ Ha0) as (Hce & Hd).
    assert (Est : g_stack s ++ map (fun p : str * sref => (Some (fst p), snd p)) extra = stack_of (ex ++ extra)).
    { rewrite Hk. unfold stack_of. rewrite map_app. reflexivity. }
    rewrite Est in Ha1.
    destruct (after_found_sound x sr (mk_gstate (stack_of (ex ++ extra)) (g_path s) (g_forest s)) s1 (ex ++ extra))
      as (H1 & H2); try assumption; try reflexivity.
    + now apply chain_app.
    + now rewrite last_ref_app.
    + split; [exact H1|]. right. exists (ex ++ extra). split; [exact H2 | now apply chain_app].
  - destruct (g_path s) eqn:Ep.
    + apply (IH s s'); try assumption. right. eauto.
    + apply IH in H; [exact H | | | exact Hf].
      * unfold st_closed. cbn [g_path g_forest]. rewrite <- Ep. now apply closed_removelast.
      * cbn [g_stack]. rewrite Hk. unfold stack_of.
        destruct (list_snoc_cases ex) as [->|(ex' & p & ->)]; [now left|]. right. exists ex'.
        rewrite map_app. cbn [map].
        change ((None, root) :: map some_e ex' ++ [some_e p]) with (((None, root) :: map some_e ex') ++ [some_e p]).
        rewrite removelast_last. split; [reflexivity|].
        apply chain_removelast in Hch. now rewrite removelast_last in Hch.
Qed.

Lemma step_sound s x s' : sclosed s -> stack_ok (g_stack s) -> Forall (carries root) (g_forest s) ->
  step s x = Ok s' -> Forall (carries root) (g_forest s') /\ stack_ok (g_stack s').
Proof.
  unfold Groups.step. intros Hc Hk Hf H. inv_bind H. destruct a as [s1|].
  - injection H as <-. now apply (attempts_sound _ _ _ _ Hc Hk Hf Ha).
  - destruct (spine_ref_at _ root _ (proj1 Hc)) as (cr & Hr). split.
    + now apply (place_sound x None s s' cr (conj Hf Hr) I).
    + unfold Groups.place in H. inv_bind H. destruct (add_child_eq _ _ _ _ _ _ H) as (E & _). now rewrite E.
Qed.

Lemma run_sound xs : forall s s', sclosed s -> stack_ok (g_stack s) ->
  Forall (carries root) (g_forest s) -> run xs s = Ok s' -> Forall (carries root) (g_forest s').
Proof.
  induction xs as [|x xs IH]; intros s s' Hc Hk Hf H; cbn [Groups.run] in H.
  - now injection H as <-.
  - inv_bind H. destruct (step_sound _ _ _ Hc Hk Hf Ha) as (H1 & H2).
    destruct (step_closed _ _ _ _ _ _ _ _ _ _ _ Hc Ha) as (H3 & _). now apply (IH a s').
Qed.

(* every group of the forest is a declared GRP child of its parent's reference (the message
   reference at top level) and carries the structure of its own reference; every segment parsed
   with a reference is a declared SEG child, under the name it had in the input *)
Theorem find_groups_carries xs f :
  find_groups t X A raw mkseg nm acceptance root xs = Ok f -> Forall (carries root) f.
Proof.
  unfold find_groups. intros H. inv_bind H. injection H as <-.
  apply (run_sound xs (init_state A root) a); try assumption.
  - split; constructor.
  - right. exists []. split; [reflexivity | exact I].
  - constructor.
Qed.
End NamedLoop.
(* ---------- the statement without the auxiliary naming conjunct ---------- *)
Section Declared.
Variable t : tables.
Variable X A : Type.
Variable raw : X -> str.
Variable mkseg : X -> option sref -> result A.

(* below a parent whose reference is pr: a group is a GRP child pr declares, carries the declared
   sub-reference r and the structure of r, and its children are so below r; a segment parsed with
   a reference sr was parsed from an input item i with sr, the SEG child named like i that pr
   declares; a segment parsed without reference (the structure does not list it on the way up
   from where the search stood): no statement *)
Fixpoint declared_tree (pr : sref) (x : gtree A) : Prop :=
  match x with
  | GS a None => True
  | GS a (Some sr) => exists i, mkseg i (Some sr) = Ok a /\ declared t pr SEG (raw i) sr
  | GG g r st cs =>
      declared t pr GRP g r /\ parse_structure t r = Ok st /\
      (fix all (l : list (gtree A)) : Prop :=
         match l with [] => True | y :: rest => declared_tree r y /\ all rest end) cs
  end.

Lemma declared_tree_GG pr g r st cs :
  declared_tree pr (GG g r st cs) <->
  declared t pr GRP g r /\ parse_structure t r = Ok st /\ Forall (declared_tree r) cs.
Proof.
  cbn [declared_tree].
  assert (E : forall l : list (gtree A),
             (fix all (l : list (gtree A)) : Prop :=
                match l with [] => True | y :: rest => declared_tree r y /\ all rest end) l
             <-> Forall (declared_tree r) l).
  { induction l as [|y l IH]; split; intros H.
    - constructor.
    - exact I.
    - destruct H as [H1 H2]. constructor; [exact H1 | now apply IH].
    - inversion H; subst. split; [assumption | now apply IH]. }
  rewrite E. reflexivity.
Qed.

Lemma carries_declared G (x : gtree A) : forall pr, carries t X A raw mkseg G pr x -> declared_tree pr x.
Proof.
  induction x as [a r | n r st cs IH] using gtree_ind'; intros pr H.
  - exact H.
  - apply carries_GG in H. destruct H as ((Hd & _) & Hs & Hc). apply declared_tree_GG.
    split; [exact Hd|]. split; [exact Hs|].
    rewrite Forall_forall in *. intros y Hy. apply (IH y Hy). now apply Hc.
Qed.
End Declared.

(* ---------- the naming hypothesis is decidable ---------- *)

Lemma opt_eqb_eq' a b : opt_eqb a b = true -> a = b.
Proof. destruct a, b; cbn; try discriminate; [|reflexivity]. intros H. now rewrite (streqb_eq _ _ H). Qed.

Lemma info_eqb_eq i j : info_eqb i j = true -> i = j.
Proof.
  destruct i as [a b c d], j as [a' b' c' d']. unfold info_eqb. cbn [i_dt i_long i_table i_maxlen].
  intros H. apply andb_prop in H. destruct H as [H Hd]. apply andb_prop in H. destruct H as [H Hc].
  apply andb_prop in H. destruct H as [Ha Hb].
  apply opt_eqb_eq' in Ha, Hb, Hc. apply Z.eqb_eq in Hd. now subst.
Qed.

Lemma kind_eqb_eq k k' : kind_eqb k k' = true -> k = k'.
Proof. destruct k, k'; cbn; congruence. Qed.

Fixpoint sref_eqb_eq (a b : sref) {struct a} : sref_eqb a b = true -> a = b
with srow_eqb_eq (x y : srow) {struct x} : srow_eqb x y = true -> x = y.
Proof.
  - destruct a as [i|i|c cs i|]; destruct b as [j|j|d ds j|]; cbn [sref_eqb]; try discriminate; intros H.
    + now rewrite (info_eqb_eq _ _ H).
    + now rewrite (info_eqb_eq _ _ H).
    + apply andb_prop in H. destruct H as [H Hrows]. apply andb_prop in H. destruct H as [Hc Hi].
      apply eqb_prop in Hc. subst d.
      assert (i = j) as ->.
      { destruct i as [i|], j as [j|]; cbn in Hi; try discriminate; [|reflexivity]. now rewrite (info_eqb_eq _ _ Hi). }
      f_equal. revert ds Hrows. induction cs as [|x cs IH]; intros [|y ds] Hr; try discriminate; [reflexivity|].
      apply andb_prop in Hr. destruct Hr as [Hx Hr]. rewrite (srow_eqb_eq x y Hx). f_equal. now apply IH.
    + reflexivity.
  - destruct x as [k n mn mx|k n r mn mx|]; destruct y as [k' n' mn' mx'|k' n' r' mn' mx'|]; cbn [srow_eqb];
      try discriminate; intros H.
    + apply andb_prop in H. destruct H as [H H4]. apply andb_prop in H. destruct H as [H H3].
      apply andb_prop in H. destruct H as [H1 H2].
      apply kind_eqb_eq in H1. apply streqb_eq in H2. apply Z.eqb_eq in H3, H4. now subst.
    + apply andb_prop in H. destruct H as [H H5]. apply andb_prop in H. destruct H as [H H4].
      apply andb_prop in H. destruct H as [H H3]. apply andb_prop in H. destruct H as [H1 H2].
      apply kind_eqb_eq in H1. apply streqb_eq in H2. apply Z.eqb_eq in H3, H4.
      apply sref_eqb_eq in H5. now subst.
    + reflexivity.
Qed.

Section NamedOk.
Variable t : tables.

(* the (name, reference) pairs of the group rows below r, outermost first *)
Fixpoint collect_groups (fuel : nat) (r : sref) : list (str * sref) :=
  match fuel with
  | O => []
  | S f =>
      match Groups.rows_of t r with
      | Err _ => []
      | Ok rows =>
          flat_map (fun x => match row_name_kind x, row_ref t x with
                             | Some (GRP, g), Ok gr => (g, gr) :: collect_groups f gr
                             | _, _ => []
                             end) rows
      end
  end.

(* every GRP row below r has an upper-case name under which L holds its reference, and so below it *)
Fixpoint named_ok (L : list (str * sref)) (fuel : nat) (r : sref) : bool :=
  match fuel with
  | O => false
  | S f =>
      match Groups.rows_of t r with
      | Err _ => true
      | Ok rows =>
          forallb (fun x => match row_name_kind x with
                            | Some (GRP, g) =>
                                match row_ref t x with
                                | Ok gr => streqb (upper g) g &&
                                           match slookup g L with Some gr' => sref_eqb gr' gr | None => false end &&
                                           named_ok L f gr
                                | Err _ => true
                                end
                            | _ => true
                            end) rows
      end
  end.

Lemma named_ok_sound L fuel : forall r, named_ok L fuel r = true -> groups_named t (fun g => slookup g L) r.
Proof.
  induction fuel as [|f IH]; intros r H; [discriminate|]. cbn [named_ok] in H.
  assert (Hrow : forall g gr, declared t r GRP g gr -> gnamed (fun g => slookup g L) g gr /\ named_ok L f gr = true).
  { intros g gr (rows & x & Hr & Hin & Hk & Hx). rewrite Hr in H.
    apply (proj1 (forallb_forall _ _) H) in Hin. rewrite Hk, Hx in Hin.
    apply andb_prop in Hin. destruct Hin as [Hin H3]. apply andb_prop in Hin. destruct Hin as [H1 H2].
    split; [|exact H3]. split; [|now apply streqb_eq].
    destruct (slookup g L) as [gr'|]; [|discriminate]. now rewrite (sref_eqb_eq _ _ H2). }
  intros ex. revert r H Hrow. induction ex as [|[g0 gr0] ex IHex]; intros r H Hrow g gr Hc Hd.
  - now apply Hrow.
  - destruct Hc as [Hd0 Hc]. rewrite last_ref_cons in Hd. destruct (Hrow g0 gr0 Hd0) as [_ Hok].
    exact (IH gr0 Hok ex g gr Hc Hd).
Qed.

(* the profile names its groups consistently (the names collected from the profile itself) *)
Definition profile_groups_ok (fuel : nat) (r : sref) : bool := named_ok (collect_groups fuel r) fuel r.
End NamedOk.

(* ---------- on real segments ---------- *)
Section GroupedProfile.
Variable t : tables.
Variable lvl : level.
Variable e : ec.
Variable leaf : option str -> str -> result str.

Theorem grouped_nodes_declared root text f fuel :
  profile_groups_ok t fuel root = true ->
  parse_segments_grouped_trees t lvl e leaf root text = Ok f ->
  Forall (declared_tree t str seg (take 3) (seg_of_piece t lvl e leaf) root) f.
Proof.
  intros Hok H. apply named_ok_sound in Hok.
  pose proof (find_groups_carries t str seg (take 3) (seg_of_piece t lvl e leaf) s_name (group_acceptance t lvl)
                                  root _ Hok (pieces text) f H) as Hs.
  rewrite Forall_forall in *. intros x Hx. eapply carries_declared. now apply Hs.
Qed.

(* a placed segment: its structure is the one of the sub-reference the profile declares *)
Lemma placed_segment_structure piece sr a :
  seg_of_piece t lvl e leaf piece (Some sr) = Ok a ->
  valid_z_segment_name (seg_name_of (strip piece)) = false ->
  parse_structure t sr = Ok (s_st a).
Proof.
  unfold seg_of_piece, parse_segment. intros H Hz.
  destruct (mk_segment t (seg_name_of (strip piece)) (Some sr)) as [s0|] eqn:E0; cbn [bind] in H; [|discriminate].
  assert (Hst : s_st a = s_st s0).
  { unfold parse_segment_in in H.
    match type of H with bind ?r _ = _ => destruct r as [kids|]; cbn [bind] in H; [|discriminate] end.
    clear E0. revert s0 H. induction kids as [|k rest IH]; intros s1 H; cbn [add_fields] in H.
    - now injection H as <-.
    - destruct (f_name k).
      + repeat match type of H with (if ?b then _ else _) = _ => destruct b; try discriminate end;
          apply IH in H; exact H.
      + destruct (is_strict lvl); try discriminate. apply IH in H. exact H. }
  rewrite Hst. unfold mk_segment in E0. rewrite Hz in E0. cbn [structure_for] in E0.
  destruct (parse_structure t sr) as [st|] eqn:Es; cbn [bind] in E0; [|discriminate].
  repeat match type of E0 with
         | (if ?b then _ else _) = _ => destruct b
         | match ?x with _ => _ end = _ => destruct x; try discriminate
         end; try discriminate; injection E0 as <-; reflexivity.
Qed.
End GroupedProfile.

(* ------------------------------------------------------------------ *)
(* (d) at message level                                                 *)

Section MessageNodes.
Variable lib : str -> option tables.
Variable dflt : str.
Variable lvl : level.
Variable leafv : str -> level -> ec -> option str -> str -> result str.

Theorem parse_message_prof_grouped_nodes p text e n v r t m fuel :
  get_message_info (lstrip text) = Ok (e, Some n, v) ->
  slookup n p = Some (PRef r) ->
  parse_message_prof_gen lib dflt lvl leafv true (Some p) text = Ok (t, m) -> m_name m <> None ->
  profile_groups_ok t fuel r = true ->
  let leaf := leafv (match v with Some v' => v' | None => dflt end) lvl e in
  exists st, parse_structure t r = Ok st /\ m_st m = Some st /\
    ((exists f, parse_segments_grouped_trees t lvl e leaf r (lstrip text) = Ok f /\
                m_children m = map node_of f /\
                Forall (declared_tree t str seg (take 3) (seg_of_piece t lvl e leaf) r) f)
     \/ (parse_segments_grouped t lvl e leaf r (lstrip text) = Err (Crash AttributeError) /\
         parse_segments_flat t lvl e leaf (lstrip text) = Ok (m_children m))).
Proof.
  intros Hi Hl H Hn Hok. cbn zeta.
  destruct (parse_message_prof_shape lib dflt lvl leafv true p text e n v r t m Hi Hl H Hn)
    as (_ & st & Hs & _ & Hst & Hk).
  exists st. split; [exact Hs|]. split; [exact Hst|].
  destruct (parse_segments_grouped t lvl e _ r (lstrip text)) as [kids|x] eqn:Eg.
  - left. unfold parse_segments_grouped in Eg.
    destruct (parse_segments_grouped_trees t lvl e _ r (lstrip text)) as [f|] eqn:Ef; cbn [bind] in Eg; [|discriminate].
    exists f. split; [reflexivity|]. split; [congruence|].
    now apply (grouped_nodes_declared t lvl e _ r (lstrip text) f fuel).
  - right. destruct x as [c| |k|]; try discriminate. destruct k; try discriminate. split; [reflexivity | exact Hk].
Qed.

(* ------------------------------------------------------------------ *)
(* (e) validate()                                                       *)

(* Message.validate() against an explicit reference: the body of Model/Validate.v v_message once the
   reference has been chosen *)
Definition v_message_against (t : tables) (e' : ec) (r : sref) (m : message) : result (list vmsg) :=
  match view_of t r with
  | VSeq _ rows _ =>
      check_seq node_name node_is_z (resolve_group t lvl false (m_st m) (m_children m))
                (v_node t lvl e' (m_name m)) (m_name m) (m_children m) rows
  | VLeaf _ => Err (HL7 EChildNotFound)
  | VBad => Err (Crash TypeError)
  end.

Theorem validate_profiled fg p text e n v r t m e' :
  get_message_info (lstrip text) = Ok (e, Some n, v) ->
  slookup n p = Some (PRef r) ->
  parse_message_prof_gen lib dflt lvl leafv fg (Some p) text = Ok (t, m) -> m_name m <> None ->
  Validate.valid_z_message_name (upper n) = false ->
  validate_message_log t lvl e' m = v_message_against t e' r m.
Proof.
  intros Hi Hl H Hn Hz.
  destruct (parse_message_prof_shape lib dflt lvl leafv fg p text e n v r t m Hi Hl H Hn)
    as (_ & st & Hs & Hnm & Hst & _).
  unfold validate_message_log, v_message, v_message_against. rewrite Hnm, Hz, Hst.
  cbn [option_map ref_or_load]. now rewrite (parse_structure_reference _ _ _ Hs).
Qed.

(* without profile a named, non-Z message is judged against the table entry of its name *)
Theorem validate_unprofiled (t : tables) (e' : ec) (m : message) n st r :
  m_name m = Some n -> m_st m = Some st -> st_reference st = r ->
  Validate.valid_z_message_name n = false ->
  validate_message_log t lvl e' m = v_message_against t e' r m.
Proof.
  intros Hn Hst Hr Hz. unfold validate_message_log, v_message, v_message_against.
  rewrite Hn, Hz, Hst. cbn [option_map ref_or_load]. now rewrite Hr.
Qed.
End MessageNodes.

(* ------------------------------------------------------------------ *)
(* (d) for find_groups=False, as the property would have it: every segment of the result that the
   profile's message reference declares carries the declared sub-reference.  False of hl7apy (and
   of the model): Proofs/ProfileMsgWitness.v. *)
Definition flat_nodes_take_profile_subreference : Prop :=
  forall lib dflt lvl leafv p text e n v r t m s sr,
    get_message_info (lstrip text) = Ok (e, Some n, v) -> slookup n p = Some (PRef r) ->
    parse_message_prof_gen lib dflt lvl leafv false (Some p) text = Ok (t, m) ->
    In (NSeg s) (m_children m) -> declared t r SEG (s_name s) sr ->
    parse_structure t sr = Ok (s_st s).
