(* C18: the reference handed to an element (standard table entry or message profile) is the one its
   structure is built from; the parser hands every field the sub-reference of ITS parent's reference;
   restating the standard entry changes nothing. *)
From Coq Require Import List Bool ZArith NArith Init.Byte Lia.
From HL7 Require Import Lib.Str Model.Ec Model.Result Model.Ref Model.Tree Model.Parser.
Import ListNotations.
Open Scope bs_scope.

Section Profile.
Variable t : tables.
Variable lvl : level.
Variable e : ec.
Variable leaf_enc : option str -> str -> result str.

(* ---- restating the standard structure is a no-op ---- *)
Lemma structure_for_restated k name r :
  slookup name (table_of t k) = Some r ->
  structure_for t k name (Some r) = structure_for t k name None.
Proof. intros H. unfold structure_for, load_reference. now rewrite H. Qed.

Lemma mk_segment_restated name r :
  valid_z_segment_name name = false ->
  slookup (upper name) (t_segments t) = Some r ->
  mk_segment t name (Some r) = mk_segment t name None.
Proof.
  intros Hz H. unfold mk_segment. rewrite Hz.
  now rewrite (structure_for_restated SEG (upper name) r H).
Qed.

Lemma parse_segment_restated text r :
  valid_z_segment_name (seg_name_of text) = false ->
  slookup (upper (seg_name_of text)) (t_segments t) = Some r ->
  parse_segment t lvl e leaf_enc text (Some r) = parse_segment t lvl e leaf_enc text None.
Proof. intros Hz H. unfold parse_segment. now rewrite (mk_segment_restated _ r Hz H). Qed.

(* ---- a field built with a reference takes its structure from that reference ---- *)
Lemma parse_children_err cs : forall seen ord byn byl reps x,
  parse_children cs seen ord byn byl reps = Err x -> x = PyValueError.
Proof.
  induction cs as [|[c|] rest IH]; intros seen ord byn byl reps x H; cbn [parse_children] in H;
    try discriminate.
  - destruct c. eapply IH; eauto.
  - now injection H as <-.
Qed.

Lemma parse_structure_err r x : parse_structure t r = Err x -> x = PyValueError \/ x = Crash TypeError.
Proof.
  unfold parse_structure. destruct (view_of t r); try discriminate.
  - destruct (parse_children _ _ _ _ _ _) as [[[[? ?] ?] ?]|y] eqn:E; try discriminate.
    intros H. injection H as <-. left. eapply parse_children_err; eauto.
  - intros H. injection H as <-. now right.
Qed.

Lemma mk_field_structure_from_reference n r f :
  mk_field t lvl (Some n) None (Some r) = Ok f ->
  exists st, parse_structure t r = Ok st /\ f_st f = Some st /\ f_dt f = st_dt (Some st) /\
             f_name f = Some (upper n).
Proof.
  intros H. unfold mk_field, structure_for in H. cbn -[parse_structure] in H.
  destruct (parse_structure t r) as [st|x] eqn:E.
  - exists st. cbn -[parse_structure] in H. injection H as <-. cbn. auto.
  - destruct (parse_structure_err r x E) as [-> | ->]; cbn -[parse_structure] in H; discriminate.
Qed.

(* ---- the parser hands each field the sub-reference found in its parent's reference ---- *)
Inductive field_origin (st : option structure) : field -> Prop :=
  | FO (text : str) (nm : str) (fv : bool) (f : field) :
      parse_field t lvl e leaf_enc text (Some nm) (if has_map st then ref_in st nm else None) fv = Ok f ->
      field_origin st f.

Lemma parse_reps_origin st reps nm fv : forall fs,
  parse_reps t lvl e leaf_enc reps (Some nm) (if has_map st then ref_in st nm else None) fv = Ok fs ->
  Forall (field_origin st) fs.
Proof.
  induction reps as [|r rest IH]; intros fs H; cbn [parse_reps] in H.
  - injection H as <-. constructor.
  - destruct (parse_field t lvl e leaf_enc r (Some nm) _ fv) as [x|] eqn:Hx; cbn [bind] in H; try discriminate.
    destruct (parse_reps t lvl e leaf_enc rest (Some nm) _ fv) as [xs|] eqn:Hxs; cbn [bind] in H; try discriminate.
    injection H as <-. constructor; [econstructor; exact Hx | now apply IH].
Qed.

Lemma parse_fields_aux_origin prefix st fv l : forall fs,
  parse_fields_aux t lvl e leaf_enc prefix st fv l = Ok fs -> Forall (field_origin st) fs.
Proof.
  induction l as [|[i f] rest IH]; intros fs H; cbn [parse_fields_aux] in H.
  - injection H as <-. constructor.
  - match type of H with bind ?r _ = _ => destruct r as [here|] eqn:Hh; cbn [bind] in H; try discriminate end.
    destruct (parse_fields_aux t lvl e leaf_enc prefix st fv rest) as [xs|]; cbn [bind] in H; try discriminate.
    injection H as <-. apply Forall_app. split; [|now apply IH].
    repeat match type of Hh with
           | (if ?b then _ else _) = _ => destruct b
           end; try (eapply parse_reps_origin; exact Hh).
    injection Hh as <-. constructor.
Qed.

Theorem parse_segment_fields_from_reference text reference s :
  parse_segment t lvl e leaf_enc text reference = Ok s ->
  Forall (field_origin (Some (s_st s))) (s_children s).
Proof.
  unfold parse_segment, parse_segment_in, parse_fields. intros H.
  destruct (mk_segment t (seg_name_of text) reference) as [s0|] eqn:H0; cbn [bind] in H; try discriminate.
  match type of H with bind ?r _ = _ => destruct r as [kids|] eqn:Hk; cbn [bind] in H; try discriminate end.
  assert (Hst : forall kids s1 s2, add_fields t lvl s1 kids = Ok s2 -> s_st s2 = s_st s1 /\
                                    s_children s2 = s_children s1 ++ kids).
  { clear. induction kids as [|k rest IH]; intros s1 s2 H; cbn [add_fields] in H.
    - injection H as <-. rewrite app_nil_r. auto.
    - destruct (f_name k).
      + repeat match type of H with (if ?b then _ else _) = _ => destruct b; try discriminate end;
          apply IH in H; cbn in H; destruct H as [H1 H2]; rewrite H2, <- app_assoc; auto.
      + destruct (is_strict lvl); try discriminate.
        apply IH in H. cbn in H. destruct H as [H1 H2]. rewrite H2, <- app_assoc. auto. }
  destruct (Hst _ _ _ H) as [H1 H2]. rewrite H1, H2.
  assert (s_children s0 = []) as ->.
  { unfold mk_segment in H0.
    repeat match type of H0 with
           | (if ?b then _ else _) = _ => destruct b
           | bind ?r _ = _ => destruct r; cbn [bind] in H0; try discriminate
           | match ?x with _ => _ end = _ => destruct x; try discriminate
           end; try discriminate; injection H0 as <-; reflexivity. }
  cbn [app]. eapply parse_fields_aux_origin. exact Hk.
Qed.

(* the segment's own structure is the one of the reference it was given *)
Lemma mk_segment_structure_from_reference name r s :
  valid_z_segment_name name = false ->
  mk_segment t name (Some r) = Ok s -> parse_structure t r = Ok (s_st s).
Proof.
  intros Hz. unfold mk_segment. rewrite Hz. cbn [structure_for]. intros H.
  destruct (parse_structure t r) as [st|] eqn:E; cbn [bind] in H; try discriminate.
  repeat match type of H with
         | (if ?b then _ else _) = _ => destruct b
         | match ?x with _ => _ end = _ => destruct x; try discriminate
         end; try discriminate; injection H as <-; reflexivity.
Qed.

End Profile.
