(* Facts about Model/Datatypes.v, part 2: DT / TM / DTM against the specification recognisers. *)
From Coq Require Import List Bool Arith NArith ZArith Lia Init.Byte Strings.Byte.
From HL7 Require Import Lib.Str Model.Ec Model.Result Model.Escape Model.Datatypes Gen.Params
  Proofs.DatatypesFacts.
Import ListNotations.

(* ------------------------------------------------------------------ *)
(* two-byte facts, by evaluation over all 65 536 pairs                  *)

Definition SP (a b : byte) : bool := is_c c_space a && rng c_1 c_9 b.
Definition day_val (a b : byte) : N := if dig2 a b then num2 a b else digit_val b.

Lemma m_char : forall a b, Bool.eqb (matched re_m [a; b]) (in_range2 1 12 a b) = true.
Proof. brute2. Qed.
Lemma d_char : forall a b, Bool.eqb (matched re_d [a; b]) (in_range2 1 31 a b || SP a b) = true.
Proof. brute2. Qed.
Lemma H_char : forall a b, Bool.eqb (matched re_H [a; b]) (in_range2 0 23 a b) = true.
Proof. brute2. Qed.
Lemma M_char : forall a b, Bool.eqb (matched re_M [a; b]) (in_range2 0 59 a b) = true.
Proof. brute2. Qed.
Lemma S_char : forall a b, Bool.eqb (matched re_S [a; b]) (in_range2 0 61 a b) = true.
Proof. brute2. Qed.
Lemma int2 : forall a b, implb (dig2 a b) (N.eqb (txt_int [a; b]) (num2 a b)) = true.
Proof. brute2. Qed.
Lemma int_day : forall a b, implb (in_range2 1 31 a b || SP a b) (N.eqb (txt_int [a; b]) (day_val a b)) = true.
Proof. brute2. Qed.
Lemma sp_facts : forall a b,
  implb (SP a b) (negb (dig2 a b) && N.leb 1 (digit_val b) && N.leb (digit_val b) 9 && is_digit b) = true.
Proof. brute2. Qed.
Lemma pad2 : forall a b, implb (dig2 a b) (streqb (padn 2 (num2 a b)) [a; b]) = true.
Proof. brute2. Qed.
Lemma pad2_sp : forall a b, implb (SP a b) (streqb (padn 2 (digit_val b)) [c_0; b]) = true.
Proof. brute2. Qed.
Lemma num2_le99 : forall a b, implb (dig2 a b) (N.leb (num2 a b) 99) = true.
Proof. brute2. Qed.
Lemma dv_ge1 : forall a, implb (is_digit a && negb (is_c c_0 a)) (N.leb 1 (digit_val a)) = true.
Proof. brute1. Qed.
Lemma dv_le9 : forall a, implb (is_digit a) (N.leb (digit_val a) 9) = true.
Proof. brute1. Qed.
Lemma digit_of_val : forall a, implb (is_digit a) (beqb (digit_of (digit_val a)) a) = true.
Proof. brute1. Qed.
Lemma digit_not_space : forall a, implb (is_digit a) (negb (is_c c_space a)) = true.
Proof. brute1. Qed.

Lemma use_eqb {a b} : Bool.eqb a b = true -> a = b.
Proof. apply eqb_true_eq. Qed.
Lemma use_Neqb {a b} : N.eqb a b = true -> a = b.
Proof. apply N.eqb_eq. Qed.

Lemma matched_m a b : matched re_m [a; b] = in_range2 1 12 a b. Proof. exact (use_eqb (m_char a b)). Qed.
Lemma matched_d a b : matched re_d [a; b] = in_range2 1 31 a b || SP a b. Proof. exact (use_eqb (d_char a b)). Qed.
Lemma matched_H a b : matched re_H [a; b] = in_range2 0 23 a b. Proof. exact (use_eqb (H_char a b)). Qed.
Lemma matched_M a b : matched re_M [a; b] = in_range2 0 59 a b. Proof. exact (use_eqb (M_char a b)). Qed.
Lemma matched_S a b : matched re_S [a; b] = in_range2 0 61 a b. Proof. exact (use_eqb (S_char a b)). Qed.
Lemma matched_Y a b c d : matched re_Y [a; b; c; d] = dig2 a b && dig2 c d.
Proof. unfold matched, dig2. cbn. unfold dg. destruct (is_digit a), (is_digit b), (is_digit c), (is_digit d); reflexivity. Qed.

Lemma txt_int2 a b : dig2 a b = true -> txt_int [a; b] = num2 a b.
Proof. intros H. apply use_Neqb. exact (implb_true _ _ (int2 a b) H). Qed.
Lemma txt_int_day a b : in_range2 1 31 a b || SP a b = true -> txt_int [a; b] = day_val a b.
Proof. intros H. apply use_Neqb. exact (implb_true _ _ (int_day a b) H). Qed.

Lemma in_range2_dig lo hi a b : in_range2 lo hi a b = true -> dig2 a b = true.
Proof. unfold in_range2. intros H. apply andb_prop in H. destruct H as [H _]. apply andb_prop in H. tauto. Qed.

Lemma txt_int4 a b c d : dig2 a b && dig2 c d = true -> txt_int [a; b; c; d] = num4 a b c d.
Proof.
  intros H. apply andb_prop in H. destruct H as [H1 H2]. unfold dig2 in H1. apply andb_prop in H1. destruct H1 as [Ha Hb].
  unfold txt_int. cbn [lstrip_by]. pose proof (implb_true _ _ (digit_not_space a) Ha) as Hs.
  apply negb_true_iff in Hs. rewrite Hs. unfold digits_val, num4, num2. cbn [fold_left]. lia.
Qed.

Lemma num4_le a b c d : dig2 a b && dig2 c d = true -> (num4 a b c d <= 9999)%N.
Proof.
  intros H. apply andb_prop in H. destruct H as [H1 H2].
  pose proof (implb_true _ _ (num2_le99 a b) H1) as L1. pose proof (implb_true _ _ (num2_le99 c d) H2) as L2.
  apply N.leb_le in L1, L2. unfold num4. lia.
Qed.

(* ---- printing numbers back ---- *)
Lemma digits_val_app ds d : digits_val (ds ++ [d]) = (digits_val ds * 10 + digit_val d)%N.
Proof. unfold digits_val. rewrite fold_left_app. reflexivity. Qed.

Lemma padn_digits ds : all_dig ds = true -> padn (length ds) (digits_val ds) = ds.
Proof.
  induction ds as [|d ds IH] using rev_ind; intros H; [reflexivity|].
  unfold all_dig in H. rewrite forallb_app in H. apply andb_prop in H. destruct H as [Hds Hd]. cbn in Hd.
  rewrite andb_true_r in Hd. rewrite app_length. cbn [length]. rewrite Nat.add_1_r. cbn [padn].
  rewrite digits_val_app.
  pose proof (implb_true _ _ (dv_le9 d) Hd) as L. apply N.leb_le in L.
  assert (E1 : ((digits_val ds * 10 + digit_val d) / 10 = digits_val ds)%N).
  { rewrite N.div_add_l by lia. rewrite N.div_small by lia. lia. }
  assert (E2 : ((digits_val ds * 10 + digit_val d) mod 10 = digit_val d)%N).
  { rewrite N.add_comm, N.mod_add by lia. apply N.mod_small. lia. }
  rewrite E1, E2, (IH Hds). f_equal. f_equal. apply beqb_eq. exact (implb_true _ _ (digit_of_val d) Hd).
Qed.

Lemma year_roundtrip a b c d : dig2 a b && dig2 c d = true ->
  padn 4 (num4 a b c d) = [a; b; c; d].
Proof.
  intros H.
  assert (Hd : all_dig [a; b; c; d] = true).
  { apply andb_prop in H. destruct H as [H1 H2]. unfold dig2 in H1, H2.
    apply andb_prop in H1. destruct H1 as [Ha Hb]. apply andb_prop in H2. destruct H2 as [Hc Hd].
    cbn [all_dig forallb]. now rewrite Ha, Hb, Hc, Hd. }
  rewrite <- (padn_digits _ Hd). cbn [length]. f_equal.
  unfold digits_val, num4, num2. cbn [fold_left]. lia.
Qed.

(* ---- the calendar ---- *)
Lemma dim_bounds y m : (28 <= days_in_month y m <= 31)%N.
Proof.
  unfold days_in_month. destruct (N.eqb m 2); [destruct (is_leap y); lia|].
  destruct (N.eqb m 4 || N.eqb m 6 || N.eqb m 9 || N.eqb m 11); lia.
Qed.

(* turn boolean statements about N into propositions *)
Ltac boolprop :=
  repeat match goal with
  | H : _ && _ = true |- _ => apply andb_prop in H; destruct H
  | H : _ || _ = false |- _ => apply orb_false_elim in H; destruct H
  | H : N.leb _ _ = true |- _ => apply N.leb_le in H
  | H : N.leb _ _ = false |- _ => apply N.leb_gt in H
  | H : negb _ = true |- _ => apply negb_true_iff in H
  end.

Lemma in_range2_true lo hi a b : dig2 a b = true -> (lo <= num2 a b <= hi)%N -> in_range2 lo hi a b = true.
Proof.
  intros Hd [H1 H2]. unfold in_range2. rewrite Hd. apply N.leb_le in H1, H2. now rewrite H1, H2.
Qed.
Lemma in_range2_inv lo hi a b : in_range2 lo hi a b = true -> dig2 a b = true /\ (lo <= num2 a b <= hi)%N.
Proof. unfold in_range2. intros H. boolprop. auto. Qed.
Lemma in_range2_false lo hi a b : in_range2 lo hi a b = false -> dig2 a b = true -> ~ (lo <= num2 a b <= hi)%N.
Proof.
  intros H Hd [H1 H2]. rewrite (in_range2_true lo hi a b Hd) in H by lia. discriminate.
Qed.

(* ------------------------------------------------------------------ *)
(* DT                                                                   *)

Lemma dt_formats_ok :
  forallb (fun f => smem (fmt_str f) dt_formats) [[TY]; [TY; Tm]; [TY; Tm; Td]] = true.
Proof. vm_compute. reflexivity. Qed.

Definition dtv_date (y m d : N) : dtv := mk_dtv y m d 0 0 0 0.

Lemma dtv_valid_date y m d :
  dtv_valid (dtv_date y m d) =
  (N.leb 1 y && N.leb y 9999 && N.leb 1 m && N.leb m 12 && N.leb 1 d && N.leb d (days_in_month y m))%bool.
Proof. unfold dtv_valid, dtv_date. cbn. now rewrite !andb_true_r. Qed.

Lemma impl_DT_4 a b c d :
  impl_DT [a; b; c; d] =
  if matched re_Y [a; b; c; d] && dtv_valid (dtv_date (txt_int [a; b; c; d]) 1 1)
  then Ok (padn 4 (txt_int [a; b; c; d])) else Err PyValueError.
Proof.
  unfold impl_DT, get_date_info, date_format. cbn [length Nat.eqb bind].
  rewrite strptime_exact by reflexivity.
  cbn [map group_of width slices take drop firstn skipn forallb2 set_fields set_field dtv0 yr mo dy hh mi ss us].
  rewrite andb_true_r. destruct (matched re_Y [a; b; c; d]); [|reflexivity]. cbn [andb].
  fold (dtv_date (txt_int [a; b; c; d]) 1 1). destruct (dtv_valid _); [|reflexivity].
  cbn [bind fst snd dt_ctor]. unfold dt_ctor. cbn [strftime flat_map strf_piece yr mo dy dtv_date app]. rewrite ?app_nil_r. vm_compute (smem _ dt_formats). reflexivity.
Qed.

Lemma impl_DT_6 a b c d m1 m2 :
  impl_DT [a; b; c; d; m1; m2] =
  if matched re_Y [a; b; c; d] && matched re_m [m1; m2] &&
     dtv_valid (dtv_date (txt_int [a; b; c; d]) (txt_int [m1; m2]) 1)
  then Ok (padn 4 (txt_int [a; b; c; d]) ++ padn 2 (txt_int [m1; m2])) else Err PyValueError.
Proof.
  unfold impl_DT, get_date_info, date_format. cbn [length Nat.eqb bind].
  rewrite strptime_exact by reflexivity.
  cbn [map group_of width slices take drop firstn skipn forallb2 set_fields set_field dtv0 yr mo dy hh mi ss us].
  rewrite andb_true_r. destruct (matched re_Y [a; b; c; d]); [|reflexivity].
  destruct (matched re_m [m1; m2]); [|reflexivity]. cbn [andb].
  fold (dtv_date (txt_int [a; b; c; d]) (txt_int [m1; m2]) 1). destruct (dtv_valid _); [|reflexivity].
  cbn [bind fst snd dt_ctor]. unfold dt_ctor. cbn [strftime flat_map strf_piece yr mo dy dtv_date app]. rewrite ?app_nil_r. vm_compute (smem _ dt_formats). reflexivity.
Qed.

Lemma impl_DT_8 a b c d m1 m2 d1 d2 :
  impl_DT [a; b; c; d; m1; m2; d1; d2] =
  if matched re_Y [a; b; c; d] && matched re_m [m1; m2] && matched re_d [d1; d2] &&
     dtv_valid (dtv_date (txt_int [a; b; c; d]) (txt_int [m1; m2]) (txt_int [d1; d2]))
  then Ok (padn 4 (txt_int [a; b; c; d]) ++ padn 2 (txt_int [m1; m2]) ++ padn 2 (txt_int [d1; d2]))
  else Err PyValueError.
Proof.
  unfold impl_DT, get_date_info, date_format. cbn [length Nat.eqb bind].
  rewrite strptime_exact by reflexivity.
  cbn [map group_of width slices take drop firstn skipn forallb2 set_fields set_field dtv0 yr mo dy hh mi ss us].
  rewrite andb_true_r. destruct (matched re_Y [a; b; c; d]); [|reflexivity].
  destruct (matched re_m [m1; m2]); [|reflexivity]. destruct (matched re_d [d1; d2]); [|reflexivity]. cbn [andb].
  fold (dtv_date (txt_int [a; b; c; d]) (txt_int [m1; m2]) (txt_int [d1; d2])). destruct (dtv_valid _); [|reflexivity].
  cbn [bind fst snd dt_ctor]. unfold dt_ctor. cbn [strftime flat_map strf_piece yr mo dy dtv_date app]. rewrite ?app_nil_r. vm_compute (smem _ dt_formats). reflexivity.
Qed.

Lemma impl_DT_badlen s : length s <> 4 -> length s <> 6 -> length s <> 8 -> impl_DT s = Err PyValueError.
Proof.
  intros H4 H6 H8. unfold impl_DT, get_date_info, date_format.
  apply Nat.eqb_neq in H4, H6, H8. now rewrite H4, H6, H8.
Qed.

Lemma Ok_inj {A} (a b : A) : @Ok A a = Ok b -> a = b.
Proof. intros H. now injection H. Qed.

Lemma accepts_if {A} (b : bool) (x : A) e : accepts (if b then Ok x else Err e) = b.
Proof. destruct b; reflexivity. Qed.

Ltac bool_lia :=
  apply eq_true_iff_eq; rewrite ?andb_true_iff, ?orb_true_iff, ?andb_true_iff, ?N.leb_le;
  intuition (try discriminate; try lia).

Lemma sp_not_dig a b : SP a b = true -> dig2 a b = false /\ (1 <= digit_val b <= 9)%N.
Proof.
  intros H. pose proof (implb_true _ _ (sp_facts a b) H) as F. boolprop. repeat split; auto.
Qed.
Lemma dig_not_sp a b : dig2 a b = true -> SP a b = false.
Proof. intros H. destruct (SP a b) eqn:E; auto. apply sp_not_dig in E. destruct E; congruence. Qed.

(* STRICT acceptance of DT, exactly: the HL7 dates plus YYYYMM-blank-D *)
Theorem accept_DT_exact s : accepts (impl_DT s) = spec_DT s || dt_space_day s.
Proof.
  unfold spec_DT.
  destruct s as [|a [|b [|c [|d [|m1 [|m2 [|d1 [|d2 [|x r]]]]]]]]];
    try (rewrite impl_DT_badlen by (cbn; lia); cbn; rewrite ?andb_false_r; reflexivity).
  - (* YYYY *)
    rewrite impl_DT_4, accepts_if, matched_Y. cbn [spec_date dt_space_day]. rewrite orb_false_r, andb_true_r.
    destruct (dig2 a b && dig2 c d) eqn:EY; [|reflexivity].
    rewrite (txt_int4 _ _ _ _ EY), dtv_valid_date. pose proof (num4_le _ _ _ _ EY). pose proof (dim_bounds (num4 a b c d) 1).
    cbn [andb]. bool_lia.
  - (* YYYYMM *)
    rewrite impl_DT_6, accepts_if, matched_Y, matched_m. cbn [spec_date dt_space_day]. rewrite orb_false_r, andb_true_r.
    destruct (dig2 a b && dig2 c d) eqn:EY; [|reflexivity].
    destruct (in_range2 1 12 m1 m2) eqn:EM; [|cbn [andb orb]; rewrite ?andb_false_r; reflexivity].
    destruct (in_range2_inv _ _ _ _ EM) as [Dm Rm].
    rewrite (txt_int4 _ _ _ _ EY), (txt_int2 _ _ Dm), dtv_valid_date. pose proof (num4_le _ _ _ _ EY).
    pose proof (dim_bounds (num4 a b c d) (num2 m1 m2)). cbn [andb]. bool_lia.
  - (* YYYYMMDD *)
    rewrite impl_DT_8, accepts_if, matched_Y, matched_m, matched_d. cbn [spec_date dt_space_day].
    fold (SP d1 d2).
    destruct (dig2 a b && dig2 c d) eqn:EY; [|reflexivity].
    destruct (in_range2 1 12 m1 m2) eqn:EM; [|cbn [andb orb]; rewrite ?andb_false_r; reflexivity].
    destruct (in_range2_inv _ _ _ _ EM) as [Dm Rm].
    pose proof (num4_le _ _ _ _ EY). pose proof (dim_bounds (num4 a b c d) (num2 m1 m2)) as Hdim.
    destruct (in_range2 1 31 d1 d2 || SP d1 d2) eqn:ED.
    + rewrite (txt_int4 _ _ _ _ EY), (txt_int2 _ _ Dm), (txt_int_day _ _ ED), dtv_valid_date. cbn [andb].
      unfold day_val. destruct (dig2 d1 d2) eqn:Edd.
      * rewrite (dig_not_sp _ _ Edd). unfold in_range2. rewrite Edd. cbn [andb]. bool_lia.
      * unfold in_range2 in ED. rewrite Edd in ED. cbn in ED. destruct (sp_not_dig _ _ ED) as [_ Hb].
        unfold in_range2. rewrite Edd, ED. cbn [andb]. bool_lia.
    + apply orb_false_elim in ED. destruct ED as [E31 Esp].
      destruct (in_range2 1 (days_in_month (num4 a b c d) (num2 m1 m2)) d1 d2) eqn:E.
      * exfalso. destruct (in_range2_inv _ _ _ _ E) as [Dd Rd]. apply (in_range2_false _ _ _ _ E31 Dd). lia.
      * rewrite Esp. cbn [andb orb]. rewrite ?andb_false_r. reflexivity.
Qed.

Theorem roundtrip_DT s e : impl_DT s = Ok e -> spec_DT s = true -> e = s.
Proof.
  unfold spec_DT. intros Hi Hs.
  destruct s as [|a [|b [|c [|d [|m1 [|m2 [|d1 [|d2 [|x r]]]]]]]]];
    try (cbn in Hs; rewrite ?andb_false_r in Hs; discriminate).
  - rewrite impl_DT_4 in Hi. cbn in Hs. boolprop.
    assert (EY : dig2 a b && dig2 c d = true) by (apply andb_true_intro; auto).
    destruct (_ && _) in Hi; [|discriminate]. cbv iota in Hi. apply Ok_inj in Hi; subst e.
    rewrite (txt_int4 _ _ _ _ EY). now apply year_roundtrip.
  - rewrite impl_DT_6 in Hi. cbn in Hs. boolprop.
    assert (EY : dig2 a b && dig2 c d = true) by (apply andb_true_intro; auto).
    destruct (_ && _) in Hi; [|discriminate]. cbv iota in Hi. apply Ok_inj in Hi; subst e.
    match goal with H : in_range2 1 12 m1 m2 = true |- _ => destruct (in_range2_inv _ _ _ _ H) as [Dm _] end.
    rewrite (txt_int4 _ _ _ _ EY), (txt_int2 _ _ Dm), year_roundtrip by auto.
    rewrite (streqb_eq _ _ (implb_true _ _ (pad2 m1 m2) Dm)). reflexivity.
  - rewrite impl_DT_8 in Hi. cbn in Hs. boolprop.
    assert (EY : dig2 a b && dig2 c d = true) by (apply andb_true_intro; auto).
    destruct (_ && _) in Hi; [|discriminate]. cbv iota in Hi. apply Ok_inj in Hi; subst e.
    match goal with H : in_range2 1 12 m1 m2 = true |- _ => destruct (in_range2_inv _ _ _ _ H) as [Dm _] end.
    match goal with H : in_range2 1 (days_in_month _ _) d1 d2 = true |- _ => destruct (in_range2_inv _ _ _ _ H) as [Dd _] end.
    rewrite (txt_int4 _ _ _ _ EY), (txt_int2 _ _ Dm), (txt_int2 _ _ Dd), year_roundtrip by auto.
    rewrite (streqb_eq _ _ (implb_true _ _ (pad2 m1 m2) Dm)), (streqb_eq _ _ (implb_true _ _ (pad2 d1 d2) Dd)).
    reflexivity.
Qed.

(* what the blank-padded day re-encodes to *)
Theorem space_day_reencodes s e : impl_DT s = Ok e -> dt_space_day s = true -> e = fix_space_day s.
Proof.
  intros Hi Hs.
  destruct s as [|a [|b [|c [|d [|m1 [|m2 [|d1 [|d2 [|x r]]]]]]]]]; try discriminate.
  rewrite impl_DT_8 in Hi. cbn in Hs. boolprop.
  assert (EY : dig2 a b && dig2 c d = true) by (apply andb_true_intro; auto).
  destruct (_ && _) in Hi; [|discriminate]. cbv iota in Hi. apply Ok_inj in Hi; subst e.
  match goal with H : in_range2 1 12 m1 m2 = true |- _ => destruct (in_range2_inv _ _ _ _ H) as [Dm _] end.
  assert (Hsp : SP d1 d2 = true) by (unfold SP; apply andb_true_intro; auto).
  assert (ED : in_range2 1 31 d1 d2 || SP d1 d2 = true) by (rewrite Hsp; apply orb_true_r).
  destruct (sp_not_dig _ _ Hsp) as [Nd _].
  rewrite (txt_int4 _ _ _ _ EY), (txt_int2 _ _ Dm), (txt_int_day _ _ ED), year_roundtrip by auto.
  unfold day_val. rewrite Nd.
  rewrite (streqb_eq _ _ (implb_true _ _ (pad2 m1 m2) Dm)), (streqb_eq _ _ (implb_true _ _ (pad2_sp d1 d2) Hsp)).
  reflexivity.
Qed.

(* ------------------------------------------------------------------ *)
(* str.replace(offset, '')                                              *)

Lemma beqb_sym a b : beqb a b = beqb b a.
Proof. destruct (beqb_spec a b), (beqb_spec b a); congruence. Qed.

Lemma remove_all_skip o : forall r k, k <= length r -> remove_all o k r = remove_all o 0 (drop k r).
Proof.
  induction r as [|c r IH]; intros k Hk.
  - cbn in Hk. assert (k = 0) by lia. subst. reflexivity.
  - destruct k as [|k]; [reflexivity|]. cbn [remove_all drop skipn]. apply IH. cbn in Hk. lia.
Qed.

Lemma bstarts_app o t : bstarts o (o ++ t) = true.
Proof. unfold bstarts. induction o as [|c o IH]; [reflexivity|]. cbn. now rewrite beqb_refl, IH. Qed.

Lemma bstarts_len o s : bstarts o s = true -> length o <= length s.
Proof.
  unfold bstarts. revert s. induction o as [|c o IH]; intros s H; [cbn; lia|].
  destruct s as [|d s]; [discriminate|]. cbn in H. apply andb_prop in H. destruct H as [_ H]. apply IH in H. cbn. lia.
Qed.

(* no copy of the offset's first character before the final offset: exactly one copy is removed *)
Lemma remove_all_clean h o p : bmem h p = false -> remove_all (h :: o) 0 (p ++ h :: o) = p.
Proof.
  induction p as [|c p IH]; intros Hp.
  - cbn [app remove_all].
    assert (B : bstarts (h :: o) (h :: o) = true) by (rewrite <- (app_nil_r (h :: o)) at 2; apply bstarts_app).
    rewrite B. replace (length (h :: o) - 1) with (length o) by (cbn [length]; lia).
    rewrite remove_all_skip by lia. unfold drop. rewrite skipn_all. reflexivity.
  - unfold bmem, mem in Hp. cbn in Hp. apply orb_false_elim in Hp. destruct Hp as [Hc Hp].
    cbn [app remove_all]. unfold bstarts. cbn [starts_with]. rewrite beqb_sym, Hc. cbn [andb].
    f_equal. apply IH. exact Hp.
Qed.

Lemma bstarts_snoc o : forall s c, bmem c o = false -> bstarts o (s ++ [c]) = bstarts o s.
Proof.
  unfold bstarts. induction o as [|a o IH]; intros s c Hc; [reflexivity|].
  unfold bmem, mem in Hc. cbn in Hc. apply orb_false_elim in Hc. destruct Hc as [Ha Ho].
  destruct s as [|d s].
  - cbn. rewrite Ha. reflexivity.
  - cbn. f_equal. apply IH. exact Ho.
Qed.

(* a final character that does not occur in the offset survives the replacement *)
Lemma remove_all_snoc o c : o <> [] -> bmem c o = false ->
  forall s k, k <= length s -> remove_all o k (s ++ [c]) = remove_all o k s ++ [c].
Proof.
  intros Ho Hc. induction s as [|a s IH]; intros k Hk.
  - cbn in Hk. assert (k = 0) by lia. subst. cbn [app remove_all].
    rewrite <- (app_nil_l [c]) at 1. rewrite (bstarts_snoc o [] c Hc).
    destruct o as [|x o]; [congruence|]. reflexivity.
  - destruct k as [|k].
    + cbn [app remove_all]. change (bstarts o (a :: s ++ [c])) with (bstarts o ((a :: s) ++ [c])).
      rewrite (bstarts_snoc o (a :: s) c Hc).
      destruct (bstarts o (a :: s)) eqn:B.
      * apply IH. apply bstarts_len in B. cbn in B. lia.
      * cbn [app]. f_equal. apply IH. lia.
    + cbn [app remove_all]. apply IH. cbn in Hk. lia.
Qed.

(* ------------------------------------------------------------------ *)
(* the offset grid: the regex of utils._split_offset against Gen/Params.v *)

Definition rx_plus_h (a b : byte) : bool := (is_c c_1 a && rng c_0 c_4 b) || (is_c c_0 a && rng c_0 c_9 b).
Definition rx_minus_h (a b : byte) : bool := (is_c c_1 a && rng c_0 c_2 b) || (is_c c_0 a && rng c_0 c_9 b).
Definition rx_min (a b : byte) : bool := rng c_0 c_5 a && rng c_0 c_9 b.

Lemma grid_plus_h : forall a b, Bool.eqb (rx_plus_h a b) (dig2 a b && Nmem (num2 a b) offset_plus_hours) = true.
Proof. brute2. Qed.
Lemma grid_minus_h : forall a b, Bool.eqb (rx_minus_h a b) (dig2 a b && Nmem (num2 a b) offset_minus_hours) = true.
Proof. brute2. Qed.
Lemma grid_plus_m : forall a b, Bool.eqb (rx_min a b) (dig2 a b && Nmem (num2 a b) offset_plus_minutes) = true.
Proof. brute2. Qed.
Lemma grid_minus_m : forall a b, Bool.eqb (rx_min a b) (dig2 a b && Nmem (num2 a b) offset_minus_minutes) = true.
Proof. brute2. Qed.
Lemma rx_plus_h_range : forall a b, implb (rx_plus_h a b) (in_range2 0 14 a b) = true.
Proof. brute2. Qed.
Lemma rx_minus_h_range : forall a b, implb (rx_minus_h a b) (in_range2 0 12 a b) = true.
Proof. brute2. Qed.
Lemma rx_min_range : forall a b, implb (rx_min a b) (in_range2 0 59 a b) = true.
Proof. brute2. Qed.

(* the implementation's offset regex accepts exactly the grid of the specification *)
Theorem off_match_spec o : off_match o = spec_offset o.
Proof.
  destruct o as [|sg [|h1 [|h2 [|m1 [|m2 [|x o]]]]]]; try reflexivity.
  unfold off_match, spec_offset. fold (rx_plus_h h1 h2). fold (rx_minus_h h1 h2). fold (rx_min m1 m2).
  rewrite (use_eqb (grid_plus_h h1 h2)), (use_eqb (grid_minus_h h1 h2)).
  pose proof (use_eqb (grid_plus_m m1 m2)) as Ep. pose proof (use_eqb (grid_minus_m m1 m2)) as Em.
  destruct (is_c c_plus sg) eqn:P, (is_c c_minus sg) eqn:M; cbn [andb orb].
  - apply beqb_eq in P. apply beqb_eq in M. subst. discriminate.
  - rewrite Ep. destruct (dig2 h1 h2), (dig2 m1 m2), (Nmem (num2 h1 h2) offset_plus_hours),
      (Nmem (num2 m1 m2) offset_plus_minutes); reflexivity.
  - rewrite Em. destruct (dig2 h1 h2), (dig2 m1 m2), (Nmem (num2 h1 h2) offset_minus_hours),
      (Nmem (num2 m1 m2) offset_minus_minutes); reflexivity.
  - now rewrite andb_false_r.
Qed.

(* ------------------------------------------------------------------ *)
(* TM                                                                   *)

Definition off_okc (o : str) : bool := nilb o || off_match o.

Lemma in_range2_mono lo hi hi' a b : (hi <= hi')%N -> in_range2 lo hi a b = true -> in_range2 lo hi' a b = true.
Proof. intros L H. destruct (in_range2_inv _ _ _ _ H) as [D R]. apply in_range2_true; auto. lia. Qed.

Lemma dtv_valid_time h m s u :
  dtv_valid (mk_dtv 1900 1 1 h m s u) = (N.leb h 23 && N.leb m 59 && N.leb s 59 && N.leb u 999999)%bool.
Proof. unfold dtv_valid. cbn [yr mo dy hh mi ss us]. reflexivity. Qed.

Lemma leb0 n : N.leb 0 n = true.
Proof. apply N.leb_le. lia. Qed.

Lemma tm_formats_ok :
  forallb (fun f => smem (fmt_str f) tm_formats) [[TH]; [TH; TMi]; [TH; TMi; TS]; [TH; TMi; TS; Tdot; Tf]] = true.
Proof. vm_compute. reflexivity. Qed.

Lemma plus_not_minus sg : is_c c_plus sg = true -> is_c c_minus sg = false.
Proof. intros H. apply beqb_eq in H. subst. reflexivity. Qed.

Lemma tm_ctor_ok allowed f o prec :
  smem (fmt_str f) allowed = true -> 1 <= prec <= 4 -> off_okc o = true -> tm_ctor allowed f o prec = Ok tt.
Proof.
  intros Hf Hp Ho. unfold tm_ctor, dt_ctor. rewrite Hf. cbn [bind].
  assert ((1 <=? prec) && (prec <=? 4) = true) as ->.
  { apply andb_true_intro. split; apply Nat.leb_le; lia. }
  cbn [negb]. unfold off_okc in Ho. destruct (nilb o) eqn:En; [reflexivity|]. cbn [orb] in Ho.
  destruct o as [|sg [|h1 [|h2 [|m1 [|m2 [|x o]]]]]]; try discriminate.
  cbn [length Nat.eqb negb drop skipn].
  rewrite strptime_exact by reflexivity.
  cbn [map group_of width slices take drop firstn skipn forallb2 set_fields set_field dtv0 yr mo dy hh mi ss us].
  rewrite matched_H, matched_M, andb_true_r.
  unfold off_match in Ho. fold (rx_plus_h h1 h2) in Ho. fold (rx_minus_h h1 h2) in Ho. fold (rx_min m1 m2) in Ho.
  apply andb_prop in Ho. destruct Ho as [Hh Hm].
  pose proof (implb_true _ _ (rx_min_range m1 m2) Hm) as Rm.
  destruct (in_range2_inv _ _ _ _ Rm) as [Dm Bm].
  apply orb_prop in Hh. destruct Hh as [Hh|Hh]; apply andb_prop in Hh; destruct Hh as [Hs Hh].
  - pose proof (implb_true _ _ (rx_plus_h_range h1 h2) Hh) as Rh.
    destruct (in_range2_inv _ _ _ _ Rh) as [Dh Bh].
    rewrite (in_range2_mono 0 14 23 h1 h2) by (auto; lia). rewrite Rm. cbn [andb].
    rewrite (txt_int2 _ _ Dh), (txt_int2 _ _ Dm), dtv_valid_time.
    assert (N.leb (num2 h1 h2) 23 = true) as -> by (apply N.leb_le; lia).
    assert (N.leb (num2 m1 m2) 59 = true) as -> by (apply N.leb_le; lia).
    rewrite !leb0. cbn [andb]. cbn [hh]. rewrite Hs, (plus_not_minus _ Hs).
    assert (N.ltb 14 (num2 h1 h2) = false) as -> by (apply N.ltb_ge; lia). reflexivity.
  - pose proof (implb_true _ _ (rx_minus_h_range h1 h2) Hh) as Rh.
    destruct (in_range2_inv _ _ _ _ Rh) as [Dh Bh].
    rewrite (in_range2_mono 0 12 23 h1 h2) by (auto; lia). rewrite Rm. cbn [andb].
    rewrite (txt_int2 _ _ Dh), (txt_int2 _ _ Dm), dtv_valid_time.
    assert (N.leb (num2 h1 h2) 23 = true) as -> by (apply N.leb_le; lia).
    assert (N.leb (num2 m1 m2) 59 = true) as -> by (apply N.leb_le; lia).
    rewrite !leb0. cbn [andb]. cbn [hh]. rewrite Hs.
    assert (is_c c_plus sg = false) as -> by (apply beqb_eq in Hs; subst; reflexivity).
    assert (N.ltb 12 (num2 h1 h2) = false) as -> by (apply N.ltb_ge; lia). reflexivity.
Qed.

Definition tm_of_body (allowed : list str) (body off : str) : result str :=
  (do fp <- timestamp_format body; do v <- strptime body (fst fp);
   do _ <- tm_ctor allowed (fst fp) off (snd fp); Ok (encode_tm v (fst fp) off (snd fp)))%res.

Lemma impl_TM_body s : impl_TM s = tm_of_body tm_formats (fst (split_offset s)) (snd (split_offset s)).
Proof.
  unfold impl_TM, get_timestamp_info, tm_of_body. destruct (split_offset s) as [b o]. cbn [fst snd].
  destruct (timestamp_format b) as [[f p]|e]; cbn [bind fst snd]; [|reflexivity].
  destruct (strptime b f); reflexivity.
Qed.

Lemma digits_val_lt ds : all_dig ds = true -> (digits_val ds < 10 ^ N.of_nat (length ds))%N.
Proof.
  induction ds as [|d ds IH] using rev_ind; intros H; [cbn; lia|].
  unfold all_dig in H. rewrite forallb_app in H. apply andb_prop in H. destruct H as [Hds Hd]. cbn in Hd.
  rewrite andb_true_r in Hd. pose proof (implb_true _ _ (dv_le9 d) Hd) as L. apply N.leb_le in L.
  rewrite digits_val_app, app_length. cbn [length]. rewrite Nat2N.inj_add, N.pow_add_r. specialize (IH Hds).
  change (10 ^ N.of_nat 1)%N with 10%N. lia.
Qed.

Lemma frac_us_ok f : all_dig f = true -> length f <= 6 ->
  (frac_us f <= 999999)%N /\ padn 6 (frac_us f) = f ++ repeat c_0 (6 - length f).
Proof.
  intros Hd Hl. unfold frac_us.
  assert (Ha : all_dig (f ++ repeat c_0 (6 - length f)) = true).
  { unfold all_dig. rewrite forallb_app. fold (all_dig f). rewrite Hd. cbn [andb].
    apply forallb_forall. intros x Hx. apply repeat_spec in Hx. subst. reflexivity. }
  assert (Hn : length (f ++ repeat c_0 (6 - length f)) = 6) by (rewrite app_length, repeat_length; lia).
  split.
  - pose proof (digits_val_lt _ Ha) as L. rewrite Hn in L. change (10 ^ N.of_nat 6)%N with 1000000%N in L. lia.
  - rewrite <- Hn at 1. now apply padn_digits.
Qed.

Lemma pad2_eq a b : dig2 a b = true -> padn 2 (num2 a b) = [a; b].
Proof. intros H. apply streqb_eq. exact (implb_true _ _ (pad2 a b) H). Qed.

Lemma range_59_61 a b : in_range2 0 59 a b = in_range2 0 61 a b && N.leb (num2 a b) 59.
Proof. unfold in_range2. destruct (dig2 a b); [|reflexivity]. cbn [andb]. rewrite !leb0. cbn [andb]. bool_lia. Qed.

Lemma smem_tm1 : smem (fmt_str [TH]) tm_formats = true. Proof. vm_compute. reflexivity. Qed.
Lemma smem_tm2 : smem (fmt_str [TH; TMi]) tm_formats = true. Proof. vm_compute. reflexivity. Qed.
Lemma smem_tm3 : smem (fmt_str [TH; TMi; TS]) tm_formats = true. Proof. vm_compute. reflexivity. Qed.
Lemma smem_tm4 : smem (fmt_str [TH; TMi; TS; Tdot; Tf]) tm_formats = true. Proof. vm_compute. reflexivity. Qed.

Ltac tm_plain :=
  unfold tm_of_body, timestamp_format; cbn [length Nat.eqb bind fst snd];
  rewrite strptime_exact by reflexivity;
  cbn [map group_of width slices take drop firstn skipn forallb2 set_fields set_field dtv0 yr mo dy hh mi ss us];
  rewrite ?matched_H, ?matched_M, ?matched_S, ?andb_true_r.

Lemma take_app_len (x y : str) : take (length (x ++ y) - length y) (x ++ y) = x.
Proof.
  unfold take. rewrite app_length. replace (length x + length y - length y) with (length x) by lia.
  rewrite firstn_app, Nat.sub_diag, firstn_all. cbn. apply app_nil_r.
Qed.

Lemma tm_frac_finish h1 h2 m1 m2 s1 s2 F off n :
  off_okc off = true -> 1 <= length F <= 4 -> n = length F ->
  let V := mk_dtv 1900 1 1 (txt_int [h1; h2]) (txt_int [m1; m2]) (txt_int [s1; s2]) (frac_us F) in
  (do v <- (if in_range2 0 23 h1 h2 && (in_range2 0 59 m1 m2 && in_range2 0 61 s1 s2) && all_dig F
            then if dtv_valid V then Ok V else Err PyValueError else Err PyValueError);
   do _ <- tm_ctor tm_formats [TH; TMi; TS; Tdot; Tf] off n;
   Ok (encode_tm v [TH; TMi; TS; Tdot; Tf] off n))%res =
  (if spec_time ([h1; h2; m1; m2; s1; s2; c_dot] ++ F)
   then Ok (([h1; h2; m1; m2; s1; s2; c_dot] ++ F) ++ off) else Err PyValueError).
Proof.
  intros Ho HF Hn V. subst V. cbn [spec_time app].
  assert (nilb F = false) as -> by (destruct F; [cbn in HF; lia|reflexivity]).
  assert ((length F <=? 4) = true) as -> by (apply Nat.leb_le; lia).
  change (is_c c_dot c_dot) with true. cbn [negb andb].
  destruct (in_range2 0 23 h1 h2) eqn:EH; [|reflexivity]. destruct (in_range2_inv _ _ _ _ EH) as [Dh Bh].
  destruct (in_range2 0 59 m1 m2) eqn:EM; [|reflexivity]. destruct (in_range2_inv _ _ _ _ EM) as [Dm Bm].
  rewrite range_59_61.
  destruct (in_range2 0 61 s1 s2) eqn:ES; [|reflexivity]. destruct (in_range2_inv _ _ _ _ ES) as [Ds Bs].
  cbn [andb]. destruct (all_dig F) eqn:EF; [|now rewrite andb_false_r].
  destruct (frac_us_ok F EF) as [Hus Hpad]; [lia|].
  rewrite (txt_int2 _ _ Dh), (txt_int2 _ _ Dm), (txt_int2 _ _ Ds), dtv_valid_time.
  assert (N.leb (num2 h1 h2) 23 = true) as -> by (apply N.leb_le; lia).
  assert (N.leb (num2 m1 m2) 59 = true) as -> by (apply N.leb_le; lia).
  assert (N.leb (frac_us F) 999999 = true) as -> by (apply N.leb_le; lia).
  rewrite !andb_true_r. cbn [andb].
  destruct (N.leb (num2 s1 s2) 59); [|reflexivity]. cbn [bind].
  rewrite (tm_ctor_ok _ _ _ _ smem_tm4) by (auto; lia). cbn [bind].
  unfold encode_tm. cbn [has_f existsb is_Tf orb strftime flat_map strf_piece hh mi ss us].
  rewrite (pad2_eq _ _ Dh), (pad2_eq _ _ Dm), (pad2_eq _ _ Ds), Hpad, app_nil_r.
  assert ((6 - n =? 0) = false) as -> by (apply Nat.eqb_neq; lia).
  subst n.
  change ([h1; h2] ++ [m1; m2] ++ [s1; s2] ++ [c_dot] ++ F ++ repeat c_0 (6 - length F))
    with ([h1; h2; m1; m2; s1; s2; c_dot] ++ F ++ repeat c_0 (6 - length F)).
  rewrite app_assoc. rewrite <- (repeat_length c_0 (6 - length F)) at 2. rewrite take_app_len. reflexivity.
Qed.

Ltac tm_frac :=
  unfold tm_of_body, timestamp_format; cbn [length Nat.eqb Nat.leb andb nth_error];
  let Ep := fresh "Ep" in
  match goal with |- context [beqb ?p c_dot] => destruct (beqb p c_dot) eqn:Ep end;
  [ apply beqb_eq in Ep; subst; cbn [bind fst snd];
    match goal with |- context [strptime ?s _] =>
      change (strptime s [TH; TMi; TS; Tdot; Tf]) with (strptime s ([TH; TMi; TS] ++ [Tdot; Tf]));
      rewrite (strptime_frac [TH; TMi; TS] s) by (try reflexivity; cbn; lia) end;
    change (fmt_len [TH; TMi; TS]) with 6;
    cbn [map group_of width slices take drop firstn skipn forallb2 Nat.add app set_fields set_field dtv0
         yr mo dy hh mi ss us];
    rewrite ?matched_H, ?matched_M, ?matched_S, ?andb_true_r
  | cbn; unfold is_c; rewrite Ep; cbn; rewrite ?andb_false_r; reflexivity ].

Theorem tm_body_exact body off : off_okc off = true ->
  tm_of_body tm_formats body off = if spec_time body then Ok (body ++ off) else Err PyValueError.
Proof.
  intros Ho.
  destruct body as [|h1 [|h2 [|m1 [|m2 [|s1 [|s2 [|p [|f1 [|f2 [|f3 [|f4 [|x r]]]]]]]]]]]].
  - reflexivity.
  - reflexivity.
  - (* HH *)
    tm_plain. cbn [spec_time]. rewrite andb_true_r.
    destruct (in_range2 0 23 h1 h2) eqn:EH; [|reflexivity]. destruct (in_range2_inv _ _ _ _ EH) as [Dh Bh].
    rewrite (txt_int2 _ _ Dh), dtv_valid_time, !leb0. cbn [andb].
    assert (N.leb (num2 h1 h2) 23 = true) as -> by (apply N.leb_le; lia). cbn [andb bind].
    rewrite (tm_ctor_ok _ _ _ _ smem_tm1) by (auto; lia). cbn [bind].
    unfold encode_tm. cbn [has_f existsb is_Tf strftime flat_map strf_piece hh app]. now rewrite (pad2_eq _ _ Dh).
  - cbn. now rewrite andb_false_r.
  - (* HHMM *)
    tm_plain. cbn [spec_time]. rewrite andb_true_r.
    destruct (in_range2 0 23 h1 h2) eqn:EH; [|reflexivity]. destruct (in_range2_inv _ _ _ _ EH) as [Dh Bh].
    destruct (in_range2 0 59 m1 m2) eqn:EM; [|reflexivity]. destruct (in_range2_inv _ _ _ _ EM) as [Dm Bm].
    cbn [andb]. rewrite (txt_int2 _ _ Dh), (txt_int2 _ _ Dm), dtv_valid_time, !leb0.
    assert (N.leb (num2 h1 h2) 23 = true) as -> by (apply N.leb_le; lia).
    assert (N.leb (num2 m1 m2) 59 = true) as -> by (apply N.leb_le; lia). cbn [andb bind].
    rewrite (tm_ctor_ok _ _ _ _ smem_tm2) by (auto; lia). cbn [bind].
    unfold encode_tm. cbn [has_f existsb is_Tf strftime flat_map strf_piece hh mi app].
    now rewrite (pad2_eq _ _ Dh), (pad2_eq _ _ Dm).
  - cbn. now rewrite !andb_false_r.
  - (* HHMMSS *)
    tm_plain. cbn [spec_time]. rewrite andb_true_r.
    destruct (in_range2 0 23 h1 h2) eqn:EH; [|reflexivity]. destruct (in_range2_inv _ _ _ _ EH) as [Dh Bh].
    destruct (in_range2 0 59 m1 m2) eqn:EM; [|reflexivity]. destruct (in_range2_inv _ _ _ _ EM) as [Dm Bm].
    rewrite range_59_61.
    destruct (in_range2 0 61 s1 s2) eqn:ES; [|reflexivity]. destruct (in_range2_inv _ _ _ _ ES) as [Ds Bs].
    cbn [andb]. rewrite (txt_int2 _ _ Dh), (txt_int2 _ _ Dm), (txt_int2 _ _ Ds), dtv_valid_time, !leb0.
    assert (N.leb (num2 h1 h2) 23 = true) as -> by (apply N.leb_le; lia).
    assert (N.leb (num2 m1 m2) 59 = true) as -> by (apply N.leb_le; lia). rewrite andb_true_r. cbn [andb].
    destruct (N.leb (num2 s1 s2) 59); [|reflexivity]. cbn [bind].
    rewrite (tm_ctor_ok _ _ _ _ smem_tm3) by (auto; lia). cbn [bind].
    unfold encode_tm. cbn [has_f existsb is_Tf strftime flat_map strf_piece hh mi ss app].
    now rewrite (pad2_eq _ _ Dh), (pad2_eq _ _ Dm), (pad2_eq _ _ Ds).
  - (* 7 characters *)
    cbn. now rewrite !andb_false_r.
  - tm_frac. apply (tm_frac_finish h1 h2 m1 m2 s1 s2 [f1] off); auto; cbn; lia.
  - tm_frac. apply (tm_frac_finish h1 h2 m1 m2 s1 s2 [f1; f2] off); auto; cbn; lia.
  - tm_frac. apply (tm_frac_finish h1 h2 m1 m2 s1 s2 [f1; f2; f3] off); auto; cbn; lia.
  - tm_frac. apply (tm_frac_finish h1 h2 m1 m2 s1 s2 [f1; f2; f3; f4] off); auto; cbn; lia.
  - unfold tm_of_body, timestamp_format. cbn [length Nat.eqb Nat.leb andb bind].
    cbn [spec_time length Nat.leb]. now rewrite !andb_false_r.
Qed.


(* ------------------------------------------------------------------ *)
(* the offset layer, generic in the body recogniser                     *)

Definition body_char (c : byte) : bool := is_digit c || is_c c_dot c || is_c c_space c.

Lemma dig2_chars a b : dig2 a b = true -> body_char a = true /\ body_char b = true.
Proof. unfold dig2, body_char. intros H. apply andb_prop in H. destruct H as [-> ->]. auto. Qed.

Lemma forallb_mono {A} (p q : A -> bool) s : (forall c, p c = true -> q c = true) -> forallb p s = true -> forallb q s = true.
Proof. intros Hpq H. rewrite forallb_forall in *. auto. Qed.

Lemma all_dig_chars f : all_dig f = true -> forallb body_char f = true.
Proof. apply forallb_mono. intros c H. unfold body_char. now rewrite H. Qed.

Lemma spec_time_chars b : spec_time b = true -> forallb body_char b = true.
Proof.
  destruct b as [|h1 [|h2 r]]; try discriminate. cbn [spec_time]. intros H.
  apply andb_prop in H. destruct H as [H1 H]. apply in_range2_dig, dig2_chars in H1. destruct H1 as [E1 E2].
  cbn [forallb]. rewrite E1, E2. cbn [andb]. clear E1 E2.
  destruct r as [|m1 [|m2 r]]; try discriminate; [reflexivity|].
  apply andb_prop in H. destruct H as [H1 H]. apply in_range2_dig, dig2_chars in H1. destruct H1 as [E1 E2].
  cbn [forallb]. rewrite E1, E2. cbn [andb]. clear E1 E2.
  destruct r as [|s1 [|s2 r]]; try discriminate; [reflexivity|].
  apply andb_prop in H. destruct H as [H1 H]. apply in_range2_dig, dig2_chars in H1. destruct H1 as [E1 E2].
  cbn [forallb]. rewrite E1, E2. cbn [andb]. clear E1 E2.
  destruct r as [|p f]; [reflexivity|].
  apply andb_prop in H. destruct H as [H Hf]. apply andb_prop in H. destruct H as [H _].
  apply andb_prop in H. destruct H as [Hp _].
  cbn [forallb]. unfold body_char at 1. rewrite Hp, orb_true_r. cbn [orb andb]. now apply all_dig_chars.
Qed.

Lemma off_match_shape o : off_match o = true ->
  exists sg r, o = sg :: r /\ (is_c c_plus sg || is_c c_minus sg) = true /\ all_dig r = true /\ length r = 4.
Proof.
  destruct o as [|sg [|h1 [|h2 [|m1 [|m2 [|x o]]]]]]; try discriminate.
  unfold off_match. fold (rx_plus_h h1 h2). fold (rx_minus_h h1 h2). fold (rx_min m1 m2). intros H.
  apply andb_prop in H. destruct H as [Hh Hm].
  pose proof (in_range2_dig _ _ _ _ (implb_true _ _ (rx_min_range m1 m2) Hm)) as Dm.
  exists sg, [h1; h2; m1; m2].
  assert (Dh : dig2 h1 h2 = true /\ (is_c c_plus sg || is_c c_minus sg) = true).
  { apply orb_prop in Hh. destruct Hh as [Hh|Hh]; apply andb_prop in Hh; destruct Hh as [Hs Hh]; rewrite Hs.
    - split; [|reflexivity]. exact (in_range2_dig _ _ _ _ (implb_true _ _ (rx_plus_h_range h1 h2) Hh)).
    - split; [|apply orb_true_r]. exact (in_range2_dig _ _ _ _ (implb_true _ _ (rx_minus_h_range h1 h2) Hh)). }
  destruct Dh as [Dh Hs]. repeat split; auto.
  unfold dig2 in Dh, Dm. apply andb_prop in Dh. apply andb_prop in Dm. destruct Dh as [A1 A2]. destruct Dm as [A3 A4].
  cbn. now rewrite A1, A2, A3, A4.
Qed.

Lemma sign_not_body sg : (is_c c_plus sg || is_c c_minus sg) = true -> body_char sg = false.
Proof. intros H. apply orb_prop in H. destruct H as [H|H]; apply beqb_eq in H; subst; reflexivity. Qed.

Lemma bmem_false_of_forallb (p : byte -> bool) c s : forallb p s = true -> p c = false -> bmem c s = false.
Proof.
  intros H Hc. destruct (bmem c s) eqn:E; auto. unfold bmem, mem in E. apply existsb_exists in E.
  destruct E as [x [Hx Ex]]. apply beqb_eq in Ex. subst. rewrite forallb_forall in H. rewrite (H _ Hx) in Hc. discriminate.
Qed.

Lemma forallb_In_false (p : byte -> bool) c s : In c s -> p c = false -> forallb p s = false.
Proof.
  intros Hi Hc. destruct (forallb p s) eqn:E; auto. rewrite forallb_forall in E. rewrite (E _ Hi) in Hc. discriminate.
Qed.

Lemma off_no_nl o : off_match o = true -> o <> [] /\ bmem c_nl o = false.
Proof.
  intros H. destruct (off_match_shape o H) as [sg [r [-> [Hs [Hr _]]]]]. split; [discriminate|].
  unfold bmem, mem. cbn [existsb]. fold (mem beqb c_nl r). fold (bmem c_nl r).
  rewrite (bmem_false_of_forallb is_digit c_nl r Hr eq_refl), orb_false_r.
  apply orb_prop in Hs. destruct Hs as [Hs|Hs]; apply beqb_eq in Hs; subst; reflexivity.
Qed.

Lemma off_at_end_inv s o : off_at_end s = Some o ->
  5 <= length s /\ off_match o = true /\ o = drop (length s - 5) s /\ s = take (length s - 5) s ++ o.
Proof.
  unfold off_at_end, last5. destruct (5 <=? length s) eqn:L; [|discriminate]. cbn [andb].
  destruct (off_match (drop (length s - 5) s)) eqn:M; [|discriminate]. intros H. injection H as <-.
  apply Nat.leb_le in L. repeat split; auto. unfold take, drop. now rewrite firstn_skipn.
Qed.

Lemma ends_nl_inv s : ends_nl s = true -> s = removelast s ++ [c_nl].
Proof.
  unfold ends_nl. destruct (rev s) as [|c l] eqn:E; [discriminate|]. intros H. apply beqb_eq in H. subst c.
  assert (s = rev l ++ [c_nl]) as -> by (rewrite <- (rev_involutive s), E; reflexivity).
  now rewrite removelast_last.
Qed.

Inductive split_case (s : str) : Prop :=
  | SC_off o p : s = p ++ o -> off_match o = true -> off_at_end s = Some o ->
      take (length s - 5) s = p -> drop (length s - 5) s = o -> 5 <= length s ->
      split_offset s = (remove_all o 0 s, o) -> split_case s
  | SC_none : off_at_end s = None -> split_offset s = (s, []) -> split_case s
  | SC_nl s' o : off_at_end s = None -> s = s' ++ [c_nl] -> off_match o = true ->
      split_offset s = (remove_all o 0 s' ++ [c_nl], o) -> split_case s.

Lemma split_cases s : split_case s.
Proof.
  destruct (off_at_end s) as [o|] eqn:E.
  - destruct (off_at_end_inv _ _ E) as [L [M [Ho Hs]]].
    apply (SC_off s o (take (length s - 5) s)); auto.
    unfold split_offset, offset_found. now rewrite E.
  - destruct (ends_nl s) eqn:N.
    + destruct (off_at_end (removelast s)) as [o|] eqn:E2.
      * destruct (off_at_end_inv _ _ E2) as [_ [M _]]. pose proof (ends_nl_inv s N) as Hs.
        destruct (off_no_nl o M) as [Hne Hnl].
        apply (SC_nl s (removelast s) o); auto.
        unfold split_offset, offset_found. rewrite E, N, E2. rewrite Hs at 1.
        rewrite (remove_all_snoc o c_nl Hne Hnl) by lia. reflexivity.
      * apply SC_none; auto. unfold split_offset, offset_found. now rewrite E, N, E2.
    + apply SC_none; auto. unfold split_offset, offset_found. now rewrite E, N.
Qed.

Section OffsetLayer.
Variable B : str -> bool.
Variable run : str -> str -> result str.
Variable enc : str -> str.
Hypothesis Bchars : forall b, B b = true -> forallb body_char b = true.
Hypothesis Hrun : forall b o, off_okc o = true -> run b o = if B b then Ok (enc b ++ o) else Err PyValueError.

Definition impl_off (s : str) : result str := run (fst (split_offset s)) (snd (split_offset s)).

Lemma B_false_of_char c s : In c s -> body_char c = false -> B s = false.
Proof.
  intros Hi Hc. destruct (B s) eqn:E; auto. apply Bchars in E. rewrite (forallb_In_false _ _ _ Hi Hc) in E. discriminate.
Qed.

Lemma B_prefix_clean p o : off_match o = true -> B p = true -> remove_all o 0 (p ++ o) = p.
Proof.
  intros M HB. destruct (off_match_shape o M) as [sg [r [-> [Hs _]]]].
  apply remove_all_clean. apply (bmem_false_of_forallb body_char); [now apply Bchars|now apply sign_not_body].
Qed.

Lemma B_with_sign p o : off_match o = true -> B (p ++ o) = false.
Proof.
  intros M. destruct (off_match_shape o M) as [sg [r [-> [Hs _]]]].
  apply (B_false_of_char sg); [apply in_or_app; right; now left|now apply sign_not_body].
Qed.

Lemma with_offset_off p o : off_match o = true -> length o = 5 -> with_offset B (p ++ o) = B p.
Proof.
  intros M L. unfold with_offset. rewrite (B_with_sign p o M). cbn [orb].
  rewrite app_length, L. replace (length p + 5 - 5) with (length p) by lia.
  unfold take, drop. rewrite firstn_app, Nat.sub_diag, firstn_all, skipn_app, Nat.sub_diag, skipn_all. cbn [firstn skipn app].
  rewrite app_nil_r, <- off_match_spec, M, andb_true_r.
  assert ((5 <=? length p + 5) = true) as -> by (apply Nat.leb_le; lia). reflexivity.
Qed.

Lemma with_offset_none s : off_at_end s = None -> with_offset B s = B s.
Proof.
  unfold off_at_end, last5, with_offset. intros H. rewrite <- off_match_spec.
  destruct (5 <=? length s); [|now rewrite orb_false_r]. cbn [andb] in *.
  destruct (off_match (drop (length s - 5) s)); [discriminate|]. now rewrite andb_false_r, orb_false_r.
Qed.

Theorem offset_layer s : accepts (impl_off s) = with_offset B s || offset_defect B s.
Proof.
  unfold impl_off, offset_defect. destruct (split_cases s) as [o p Hs M E Ht Hd L Hsp|E Hsp|s' o E Hs M Hsp];
    rewrite Hsp, E; cbn [fst snd].
  - rewrite Hrun by (unfold off_okc; rewrite M; apply orb_true_r). rewrite accepts_if, Ht.
    destruct (off_match_shape o M) as [sg [r [Ho [_ [_ Lr]]]]].
    assert (Lo : length o = 5) by (rewrite Ho; cbn [length]; lia).
    rewrite Hs at 2. rewrite (with_offset_off p o M Lo).
    destruct (streqb (remove_all o 0 s) p) eqn:Q.
    + apply streqb_eq in Q. rewrite Q. cbn [negb andb]. now rewrite orb_false_r.
    + cbn [negb andb]. destruct (B p) eqn:Bp; [|reflexivity].
      rewrite Hs, (B_prefix_clean p o M Bp), streqb_refl in Q. discriminate.
  - rewrite Hrun by reflexivity. rewrite accepts_if, orb_false_r. symmetry. now apply with_offset_none.
  - rewrite Hrun by (unfold off_okc; rewrite M; apply orb_true_r). rewrite accepts_if, orb_false_r, (with_offset_none s E).
    rewrite (B_false_of_char c_nl (remove_all o 0 s' ++ [c_nl])) by (auto; apply in_or_app; right; now left).
    rewrite Hs. symmetry. apply (B_false_of_char c_nl); [apply in_or_app; right; now left|reflexivity].
Qed.

(* conforming values are re-encoded unchanged *)
Theorem offset_roundtrip s e : (forall b, B b = true -> enc b = b) ->
  impl_off s = Ok e -> with_offset B s = true -> e = s.
Proof.
  intros Henc. unfold impl_off. destruct (split_cases s) as [o p Hs M E Ht Hd L Hsp|E Hsp|s' o E Hs M Hsp];
    rewrite Hsp; cbn [fst snd]; intros Hi Hw.
  - rewrite Hrun in Hi by (unfold off_okc; rewrite M; apply orb_true_r).
    destruct (off_match_shape o M) as [sg [r [Ho [_ [_ Lr]]]]].
    assert (Lo : length o = 5) by (rewrite Ho; cbn [length]; lia).
    rewrite Hs, (with_offset_off p o M Lo) in Hw.
    rewrite Hs, (B_prefix_clean p o M Hw), Hw, (Henc p Hw) in Hi. apply Ok_inj in Hi. now subst.
  - rewrite Hrun in Hi by reflexivity. rewrite (with_offset_none s E) in Hw. rewrite Hw, (Henc s Hw) in Hi.
    apply Ok_inj in Hi. rewrite app_nil_r in Hi. now subst.
  - rewrite Hrun in Hi by (unfold off_okc; rewrite M; apply orb_true_r).
    rewrite (B_false_of_char c_nl (remove_all o 0 s' ++ [c_nl])) in Hi by (auto; apply in_or_app; right; now left).
    discriminate.
Qed.

(* what a value with a repeated offset is re-encoded to *)
Theorem offset_defect_reencodes s e : (forall b, B b = true -> enc b = b) ->
  impl_off s = Ok e -> offset_defect B s = true -> e = dedup_offset s.
Proof.
  intros Henc. unfold impl_off, offset_defect, dedup_offset.
  destruct (split_cases s) as [o p Hs M E Ht Hd L Hsp|E Hsp|s' o E Hs M Hsp]; rewrite Hsp, E; cbn [fst snd];
    intros Hi Hw; try discriminate.
  rewrite Hrun in Hi by (unfold off_okc; rewrite M; apply orb_true_r).
  apply andb_prop in Hw. destruct Hw as [_ Hb]. rewrite Hb, (Henc _ Hb) in Hi. apply Ok_inj in Hi. now subst.
Qed.

(* nothing but ValueError is ever raised *)
Theorem offset_only_valueerror s x : impl_off s = Err x -> x = PyValueError.
Proof.
  unfold impl_off. destruct (split_cases s) as [o p Hs M E Ht Hd L Hsp|E Hsp|s' o E Hs M Hsp];
    rewrite Hsp; cbn [fst snd]; rewrite Hrun by (try reflexivity; unfold off_okc; rewrite M; apply orb_true_r);
    destruct (B _); intros H; congruence.
Qed.

(* an accepted value is the encoding of its body followed by its offset *)
Theorem offset_decompose s e : impl_off s = Ok e ->
  exists b o, B b = true /\ e = enc b ++ o /\
    ((off_at_end s = None /\ b = s /\ o = []) \/
     (off_at_end s = Some o /\ b = remove_all o 0 s /\ off_match o = true /\ s = take (length s - 5) s ++ o)).
Proof.
  unfold impl_off. destruct (split_cases s) as [o p Hs M E Ht Hd L Hsp|E Hsp|s' o E Hs M Hsp];
    rewrite Hsp; cbn [fst snd]; intros Hi.
  - rewrite Hrun in Hi by (unfold off_okc; rewrite M; apply orb_true_r).
    destruct (B (remove_all o 0 s)) eqn:Bb; [|discriminate]. apply Ok_inj in Hi.
    exists (remove_all o 0 s), o. repeat split; auto. right. repeat split; auto. now rewrite Ht.
  - rewrite Hrun in Hi by reflexivity. destruct (B s) eqn:Bb; [|discriminate]. apply Ok_inj in Hi.
    exists s, []. repeat split; auto.
  - rewrite Hrun in Hi by (unfold off_okc; rewrite M; apply orb_true_r).
    rewrite (B_false_of_char c_nl (remove_all o 0 s' ++ [c_nl])) in Hi by (auto; apply in_or_app; right; now left).
    discriminate.
Qed.
End OffsetLayer.

(* ---- TM ---- *)
Lemma tm_run b o : off_okc o = true ->
  tm_of_body tm_formats b o = if spec_time b then Ok (b ++ o) else Err PyValueError.
Proof. apply tm_body_exact. Qed.

Lemma impl_TM_off s : impl_TM s = impl_off (tm_of_body tm_formats) s.
Proof. apply impl_TM_body. Qed.

Theorem accept_TM_exact s : accepts (impl_TM s) = spec_TM s || offset_defect spec_time s.
Proof. rewrite impl_TM_off. apply (offset_layer spec_time _ (fun b => b)); [apply spec_time_chars|apply tm_run]. Qed.

Theorem roundtrip_TM s e : impl_TM s = Ok e -> spec_TM s = true -> e = s.
Proof. rewrite impl_TM_off. apply (offset_roundtrip spec_time _ (fun b => b)); [apply spec_time_chars|apply tm_run|auto]. Qed.

Theorem TM_defect_reencodes s e : impl_TM s = Ok e -> offset_defect spec_time s = true -> e = dedup_offset s.
Proof. rewrite impl_TM_off. apply (offset_defect_reencodes spec_time _ (fun b => b)); [apply tm_run|auto]. Qed.

Theorem TM_only_valueerror s x : impl_TM s = Err x -> x = PyValueError.
Proof. rewrite impl_TM_off. apply (offset_only_valueerror spec_time _ (fun b => b)), tm_run. Qed.

Theorem DT_only_valueerror s x : impl_DT s = Err x -> x = PyValueError.
Proof.
  destruct s as [|a [|b [|c [|d [|m1 [|m2 [|d1 [|d2 [|y r]]]]]]]]];
    try (rewrite impl_DT_badlen by (cbn; lia); congruence).
  - rewrite impl_DT_4. destruct (_ && _); congruence.
  - rewrite impl_DT_6. destruct (_ && _); congruence.
  - rewrite impl_DT_8. destruct (_ && _); congruence.
Qed.

(* ------------------------------------------------------------------ *)
(* DTM = DT followed by TM                                               *)

Definition time_tag (t : dtag) : bool := match t with TH | TMi | TS | Tdot | Tf => true | _ => false end.
Definition merge (v w : dtv) : dtv := mk_dtv (yr v) (mo v) (dy v) (hh w) (mi w) (ss w) (us w).

Lemma set_fields_merge f : forallb time_tag f = true ->
  forall ts v w, set_fields (merge v w) f ts = merge v (set_fields w f ts).
Proof.
  induction f as [|t f IH]; intros Hf ts v w; [reflexivity|].
  cbn in Hf. apply andb_prop in Hf. destruct Hf as [Ht Hf].
  destruct ts as [|x ts]; [reflexivity|]. cbn [set_fields]. rewrite <- (IH Hf). f_equal.
  destruct t; try discriminate; reflexivity.
Qed.

Lemma strftime_merge_time f v w : forallb time_tag f = true -> strftime (merge v w) f = strftime w f.
Proof.
  unfold strftime. induction f as [|t f IH]; intros Hf; [reflexivity|].
  cbn in Hf. apply andb_prop in Hf. destruct Hf as [Ht Hf]. cbn [flat_map]. rewrite (IH Hf). f_equal.
  destruct t; try discriminate; reflexivity.
Qed.

Lemma dtv_valid_merge v w : dtv_valid (merge v w) = dtv_valid (merge v dtv0) && dtv_valid (merge dtv0 w).
Proof.
  unfold dtv_valid, merge, dtv0. cbn [yr mo dy hh mi ss us].
  repeat match goal with |- context [N.leb ?a ?b] =>
    match a with
    | yr _ => fail 1 | mo _ => fail 1 | dy _ => fail 1 | hh _ => fail 1 | mi _ => fail 1 | ss _ => fail 1 | us _ => fail 1
    | _ => match b with
           | yr _ => fail 2 | mo _ => fail 2 | dy _ => fail 2
           | days_in_month _ _ => fail 2
           | _ => let c := eval vm_compute in (N.leb a b) in change (N.leb a b) with c
           end
    end end.
  rewrite ?andb_true_r.
  destruct (N.leb 1 (yr v)), (N.leb (yr v) 9999), (N.leb 1 (mo v)), (N.leb (mo v) 12), (N.leb 1 (dy v)),
    (N.leb (dy v) (days_in_month (yr v) (mo v))), (N.leb (hh w) 23), (N.leb (mi w) 59), (N.leb (ss w) 59),
    (N.leb (us w) 999999); reflexivity.
Qed.

Lemma timestamp_format_inv t f prec : timestamp_format t = Ok (f, prec) ->
  (f = [TH] /\ length t = 2 /\ prec = 4) \/ (f = [TH; TMi] /\ length t = 4 /\ prec = 4) \/
  (f = [TH; TMi; TS] /\ length t = 6 /\ prec = 4) \/
  (f = [TH; TMi; TS; Tdot; Tf] /\ 8 <= length t <= 11 /\ nth_error t 6 = Some c_dot /\ prec = length t - 7).
Proof.
  unfold timestamp_format.
  destruct (length t =? 2) eqn:E2; [apply Nat.eqb_eq in E2; intros H; injection H as <- <-; auto|].
  destruct (length t =? 4) eqn:E4; [apply Nat.eqb_eq in E4; intros H; injection H as <- <-; auto|].
  destruct (length t =? 6) eqn:E6; [apply Nat.eqb_eq in E6; intros H; injection H as <- <-; auto 6|].
  destruct ((8 <=? length t) && (length t <=? 11) && _) eqn:E; [|discriminate].
  intros H. injection H as <- <-. apply andb_prop in E. destruct E as [E E3]. apply andb_prop in E. destruct E as [E1 E2'].
  apply Nat.leb_le in E1, E2'. right. right. right. repeat split; auto.
  destruct (nth_error t 6) as [c|]; [|discriminate]. apply beqb_eq in E3. now subst.
Qed.

Lemma timestamp_format_err t x : timestamp_format t = Err x -> x = PyValueError.
Proof.
  unfold timestamp_format. destruct (length t =? 2); [discriminate|]. destruct (length t =? 4); [discriminate|].
  destruct (length t =? 6); [discriminate|]. destruct (_ && _); [discriminate|]. congruence.
Qed.

Lemma strptime_err s f x : strptime s f = Err x -> x = PyValueError.
Proof.
  unfold strptime. destruct (rmatch _ s) as [[ts rest]|]; [|congruence].
  destruct (nilb rest); [|congruence]. destruct (dtv_valid _); congruence.
Qed.

(* the time part alone: what tm_body_exact says about strptime and encode_tm *)
Lemma tm_core t f prec : timestamp_format t = Ok (f, prec) ->
  forallb time_tag f = true /\ 1 <= prec <= 4 /\
  match strptime t f with
  | Ok w => spec_time t = true /\ encode_tm w f [] prec = t
  | Err _ => spec_time t = false
  end.
Proof.
  intros Hf. pose proof (tm_body_exact t [] eq_refl) as H. unfold tm_of_body in H. rewrite Hf in H.
  cbn [bind fst snd] in H.
  assert (Hfp : forallb time_tag f = true /\ 1 <= prec <= 4 /\ smem (fmt_str f) tm_formats = true).
  { destruct (timestamp_format_inv _ _ _ Hf) as [[-> [_ ->]]|[[-> [_ ->]]|[[-> [_ ->]]|[-> [L [_ ->]]]]]];
      repeat split; try reflexivity; try lia. }
  destruct Hfp as [Ht [Hp Hs]]. repeat split; auto; try lia.
  destruct (strptime t f) as [w|x]; cbn [bind] in H.
  - rewrite (tm_ctor_ok _ _ _ _ Hs) in H by (auto; lia). cbn [bind] in H.
    destruct (spec_time t); [|discriminate]. apply Ok_inj in H. rewrite app_nil_r in H. auto.
  - destruct (spec_time t); [discriminate|reflexivity].
Qed.

Definition comb (r1 r2 : result dtv) : result dtv :=
  match r1, r2 with Ok v1, Ok v2 => Ok (merge v1 v2) | _, _ => Err PyValueError end.

Ltac split_valid :=
  match goal with |- context [dtv_valid (mk_dtv ?y ?m ?d ?h ?mi ?s ?u)] =>
    change (mk_dtv y m d h mi s u) with (merge (mk_dtv y m d 0 0 0 0) (mk_dtv 1900 1 1 h mi s u));
    rewrite dtv_valid_merge;
    change (merge (mk_dtv y m d 0 0 0 0) dtv0) with (mk_dtv y m d 0 0 0 0);
    change (merge dtv0 (mk_dtv 1900 1 1 h mi s u)) with (mk_dtv 1900 1 1 h mi s u)
  end.

Lemma strptime_date_time a b c d m1 m2 d1 d2 t f prec : timestamp_format t = Ok (f, prec) ->
  strptime ([a; b; c; d; m1; m2; d1; d2] ++ t) ([TY; Tm; Td] ++ f) =
  comb (strptime [a; b; c; d; m1; m2; d1; d2] [TY; Tm; Td]) (strptime t f).
Proof.
  intros Hf.
  rewrite (strptime_exact [TY; Tm; Td] [a; b; c; d; m1; m2; d1; d2]) by reflexivity.
  destruct (timestamp_format_inv _ _ _ Hf) as [[-> [L _]]|[[-> [L _]]|[[-> [L _]]|[-> [L [Hn _]]]]]].
  1-3: rewrite (strptime_exact _ t) by (try reflexivity; rewrite L; reflexivity);
       rewrite (strptime_exact _ (_ ++ t)) by (try reflexivity; rewrite app_length, L; reflexivity);
       cbn [map group_of width slices take drop firstn skipn app forallb2 set_fields set_field dtv0
            yr mo dy hh mi ss us];
       rewrite ?andb_true_r;
       repeat match goal with |- context [matched ?g ?x] => destruct (matched g x) end;
       cbn [andb comb]; try reflexivity;
       try split_valid;
       repeat match goal with |- context [dtv_valid ?v] => destruct (dtv_valid v) end;
       reflexivity.
  (* fraction *)
  change ([TY; Tm; Td] ++ [TH; TMi; TS; Tdot; Tf]) with ([TY; Tm; Td; TH; TMi; TS] ++ [Tdot; Tf]).
  change [TH; TMi; TS; Tdot; Tf] with ([TH; TMi; TS] ++ [Tdot; Tf]).
  rewrite (strptime_frac [TH; TMi; TS] t) by (try reflexivity; auto; cbn; lia).
  rewrite (strptime_frac [TY; Tm; Td; TH; TMi; TS] (_ ++ t))
    by (try reflexivity; try exact Hn; try (rewrite app_length; cbn; lia)).
  change (fmt_len [TH; TMi; TS]) with 6. change (fmt_len [TY; Tm; Td; TH; TMi; TS]) with 14.
  cbn [map group_of width slices take drop firstn skipn app forallb2 Nat.add set_fields set_field dtv0
       yr mo dy hh mi ss us].
  rewrite ?andb_true_r.
  repeat match goal with |- context [matched ?g ?x] => destruct (matched g x) end;
    cbn [andb comb]; try reflexivity.
  all: try match goal with |- context [all_dig ?x] => destruct (all_dig x) end; cbn [andb comb]; try reflexivity.
  all: try split_valid;
       repeat match goal with |- context [dtv_valid ?v] => destruct (dtv_valid v) end;
       reflexivity.
Qed.

Lemma padn_length k : forall n, length (padn k n) = k.
Proof. induction k as [|k IH]; intros n; [reflexivity|]. cbn [padn]. rewrite app_length, IH. cbn. lia. Qed.

Lemma firstn_app_keep (D T : str) k : k <= length T ->
  firstn (length (D ++ T) - k) (D ++ T) = D ++ firstn (length T - k) T.
Proof.
  intros Hk. rewrite app_length, firstn_app. rewrite firstn_all2 by lia. f_equal. f_equal. lia.
Qed.

Lemma encode_tm_merge v1 w f off prec :
  forallb time_tag f = true -> prec <= 4 -> (has_f f = true -> 6 - prec <= length (strftime w f)) ->
  encode_tm (merge v1 w) ([TY; Tm; Td] ++ f) off prec =
  strftime v1 [TY; Tm; Td] ++ encode_tm w f [] prec ++ off.
Proof.
  intros Hf Hp Hl. unfold encode_tm.
  assert (Hs : strftime (merge v1 w) ([TY; Tm; Td] ++ f) = strftime v1 [TY; Tm; Td] ++ strftime w f).
  { unfold strftime at 1. rewrite flat_map_app. fold (strftime (merge v1 w) f). rewrite (strftime_merge_time f v1 w Hf).
    reflexivity. }
  rewrite Hs. change (has_f ([TY; Tm; Td] ++ f)) with (has_f f).
  destruct (has_f f) eqn:Ef.
  - assert ((6 - prec =? 0) = false) as -> by (apply Nat.eqb_neq; lia).
    unfold take. rewrite (firstn_app_keep _ _ _ (Hl eq_refl)). now rewrite app_nil_r, <- app_assoc.
  - now rewrite app_nil_r, <- app_assoc.
Qed.

Definition dtm_of_body (allowed : list str) (body off : str) : result str :=
  (do df <- date_format (take 8 body);
   do tp <- match timestamp_format (drop 8 body) with
            | Ok tp => Ok tp
            | Err PyValueError => if nilb (drop 8 body) then Ok ([], 4) else Err PyValueError
            | Err e => Err e
            end;
   do v <- strptime body (df ++ fst tp);
   do _ <- tm_ctor allowed (df ++ fst tp) off (snd tp);
   Ok (encode_tm v (df ++ fst tp) off (snd tp)))%res.

Lemma impl_DTM_body s : impl_DTM s = dtm_of_body dtm_formats (fst (split_offset s)) (snd (split_offset s)).
Proof.
  unfold impl_DTM, get_datetime_info, dtm_of_body. destruct (split_offset s) as [b o]. cbn [fst snd].
  destruct (date_format (take 8 b)) as [df|e]; cbn [bind]; [|reflexivity].
  destruct (match timestamp_format (drop 8 b) with Ok tp => Ok tp | Err PyValueError => _ | Err e => Err e end)
    as [[tf p]|e]; cbn [bind fst snd]; [|reflexivity].
  destruct (strptime b (df ++ tf)); reflexivity.
Qed.

Definition date_enc (d : str) : str := match impl_DT d with Ok e => e | Err _ => d end.
Definition dtm_enc (b : str) : str := date_enc (take 8 b) ++ drop 8 b.
Definition dtm_body_ok (b : str) : bool :=
  accepts (impl_DT (take 8 b)) && (nilb (drop 8 b) || spec_time (drop 8 b)).

Lemma date_format_inv s f : date_format s = Ok f ->
  (f = [TY] /\ length s = 4) \/ (f = [TY; Tm] /\ length s = 6) \/ (f = [TY; Tm; Td] /\ length s = 8).
Proof.
  unfold date_format.
  destruct (length s =? 4) eqn:E4; [apply Nat.eqb_eq in E4; intros H; injection H as <-; auto|].
  destruct (length s =? 6) eqn:E6; [apply Nat.eqb_eq in E6; intros H; injection H as <-; auto|].
  destruct (length s =? 8) eqn:E8; [apply Nat.eqb_eq in E8; intros H; injection H as <-; auto|discriminate].
Qed.

Lemma dtm_formats_ok :
  forallb (fun f => smem (fmt_str f) dtm_formats)
    ([[TY]; [TY; Tm]; [TY; Tm; Td]] ++
     map (app [TY; Tm; Td]) [[TH]; [TH; TMi]; [TH; TMi; TS]; [TH; TMi; TS; Tdot; Tf]]) = true.
Proof. vm_compute. reflexivity. Qed.

Lemma dtm_smem f : In f ([[TY]; [TY; Tm]; [TY; Tm; Td]] ++
     map (app [TY; Tm; Td]) [[TH]; [TH; TMi]; [TH; TMi; TS]; [TH; TMi; TS; Tdot; Tf]]) ->
  smem (fmt_str f) dtm_formats = true.
Proof. intros H. pose proof dtm_formats_ok as F. rewrite forallb_forall in F. now apply F. Qed.

Lemma dt_smem f : In f [[TY]; [TY; Tm]; [TY; Tm; Td]] -> smem (fmt_str f) dt_formats = true.
Proof. intros H. pose proof dt_formats_ok as F. rewrite forallb_forall in F. now apply F. Qed.

(* no time part *)
Lemma dtm_body_date b off : off_okc off = true -> drop 8 b = [] ->
  dtm_of_body dtm_formats b off = if dtm_body_ok b then Ok (dtm_enc b ++ off) else Err PyValueError.
Proof.
  intros Ho Hd. unfold dtm_of_body, dtm_body_ok, dtm_enc, date_enc. rewrite Hd.
  assert (Ht : take 8 b = b).
  { unfold take, drop in *. rewrite <- (firstn_skipn 8 b) at 2. rewrite Hd. now rewrite app_nil_r. }
  rewrite Ht. cbn [timestamp_format length Nat.eqb Nat.leb andb nilb bind fst snd orb]. rewrite andb_true_r.
  unfold impl_DT, get_date_info.
  destruct (date_format b) as [df|x] eqn:Ef; cbn [bind].
  - rewrite app_nil_r.
    assert (Hin : In df [[TY]; [TY; Tm]; [TY; Tm; Td]]).
    { destruct (date_format_inv _ _ Ef) as [[-> _]|[[-> _]|[-> _]]]; cbn; auto. }
    destruct (strptime b df) as [v|x] eqn:Es; cbn [bind fst snd].
    + rewrite tm_ctor_ok; auto; try lia.
      2:{ apply dtm_smem. apply in_or_app. now left. }
      unfold dt_ctor. rewrite (dt_smem df Hin). cbn [bind accepts is_ok].
      unfold encode_tm.
      assert (has_f df = false) as -> by (destruct Hin as [<-|[<-|[<-|[]]]]; reflexivity).
      now rewrite app_nil_r.
    + now rewrite (strptime_err _ _ _ Es).
  - unfold date_format in Ef. destruct (length b =? 4); [discriminate|]. destruct (length b =? 6); [discriminate|].
    destruct (length b =? 8); [discriminate|]. injection Ef as <-. reflexivity.
Qed.

Lemma tm_format_err_spec t x : timestamp_format t = Err x -> spec_time t = false.
Proof.
  intros H. pose proof (tm_body_exact t [] eq_refl) as E. unfold tm_of_body in E. rewrite H in E. cbn [bind] in E.
  destruct (spec_time t); [discriminate|reflexivity].
Qed.

Lemma strftime_frac_len w : length (strftime w [TH; TMi; TS; Tdot; Tf]) = 13.
Proof. unfold strftime. cbn [flat_map strf_piece]. rewrite !app_length, !padn_length. reflexivity. Qed.

(* date and time *)
Lemma dtm_body_time a b c d m1 m2 d1 d2 x t off : off_okc off = true ->
  let body := [a; b; c; d; m1; m2; d1; d2] ++ x :: t in
  dtm_of_body dtm_formats body off = if dtm_body_ok body then Ok (dtm_enc body ++ off) else Err PyValueError.
Proof.
  intros Ho body. unfold dtm_of_body, dtm_body_ok, dtm_enc, date_enc. subst body.
  cbn [app take drop firstn skipn nilb orb]. set (d8 := [a; b; c; d; m1; m2; d1; d2]). set (tt := x :: t).
  change (date_format d8) with (@Ok (list dtag) [TY; Tm; Td]). cbn [bind].
  change (a :: b :: c :: d :: m1 :: m2 :: d1 :: d2 :: tt) with (d8 ++ tt).
  assert (Hdt : impl_DT d8 = match strptime d8 [TY; Tm; Td] with
                             | Ok v => Ok (strftime v [TY; Tm; Td]) | Err e => Err e end).
  { unfold impl_DT, get_date_info. change (date_format d8) with (@Ok (list dtag) [TY; Tm; Td]). cbn [bind].
    destruct (strptime d8 [TY; Tm; Td]); cbn [bind fst snd]; [|reflexivity].
    unfold dt_ctor. rewrite (dt_smem [TY; Tm; Td]) by (cbn; auto). reflexivity. }
  destruct (timestamp_format tt) as [[f prec]|e] eqn:Ef.
  - cbn [bind fst snd]. unfold d8 at 1. rewrite (strptime_date_time _ _ _ _ _ _ _ _ tt f prec Ef). fold d8.
    destruct (tm_core tt f prec Ef) as [Htag [Hp Hcore]]. rewrite Hdt.
    destruct (strptime d8 [TY; Tm; Td]) as [v1|e1] eqn:E1; cbn [comb].
    + destruct (strptime tt f) as [w|e2] eqn:E2; cbn [bind accepts is_ok andb].
      * destruct Hcore as [Hsp Henc]. rewrite Hsp.
        rewrite tm_ctor_ok; auto.
        2:{ apply dtm_smem. apply in_or_app. right. apply in_map.
            destruct (timestamp_format_inv _ _ _ Ef) as [[-> _]|[[-> _]|[[-> _]|[-> _]]]]; cbn; auto. }
        cbn [bind]. rewrite encode_tm_merge; auto; try lia.
        -- now rewrite Henc, app_assoc.
        -- intros Hh. destruct (timestamp_format_inv _ _ _ Ef) as [[-> _]|[[-> _]|[[-> _]|[-> _]]]]; try discriminate.
           rewrite strftime_frac_len. lia.
      * now rewrite Hcore.
    + cbn [bind accepts is_ok andb]. reflexivity.
  - rewrite (timestamp_format_err _ _ Ef). cbn [bind]. rewrite (tm_format_err_spec _ _ Ef). now rewrite andb_false_r.
Qed.

Theorem dtm_body_exact b off : off_okc off = true ->
  dtm_of_body dtm_formats b off = if dtm_body_ok b then Ok (dtm_enc b ++ off) else Err PyValueError.
Proof.
  intros Ho.
  destruct b as [|a [|b0 [|c [|d [|m1 [|m2 [|d1 [|d2 [|x t]]]]]]]]]; try (apply dtm_body_date; auto; reflexivity).
  apply (dtm_body_time a b0 c d m1 m2 d1 d2 x t off Ho).
Qed.

(* ---- DTM against the specification ---- *)

Lemma spec_datetime_alt b :
  spec_datetime b = spec_date (take 8 b) && (nilb (drop 8 b) || spec_time (drop 8 b)).
Proof.
  unfold spec_datetime, take, drop. destruct (length b <=? 8) eqn:L.
  - apply Nat.leb_le in L. rewrite firstn_all2, skipn_all2 by lia. cbn [nilb orb]. now rewrite andb_true_r.
  - apply Nat.leb_gt in L. destruct (skipn 8 b) as [|x t] eqn:E; [|reflexivity].
    pose proof (skipn_length 8 b) as H. rewrite E in H. cbn in H. lia.
Qed.

Lemma dtm_body_ok_alt b : dtm_body_ok b = dtm_body_impl b.
Proof.
  unfold dtm_body_ok, dtm_body_impl, dtm_space_day. rewrite accept_DT_exact, spec_datetime_alt. unfold spec_DT.
  now rewrite andb_orb_distrib_l.
Qed.

Lemma spec_date_chars d : spec_date d = true -> forallb body_char d = true.
Proof.
  destruct d as [|y1 [|y2 [|y3 [|y4 r]]]]; try discriminate. cbn [spec_date]. intros H.
  apply andb_prop in H. destruct H as [H Hr]. apply andb_prop in H. destruct H as [H _].
  apply andb_prop in H. destruct H as [H1 H2]. apply dig2_chars in H1, H2. destruct H1 as [E1 E2]. destruct H2 as [E3 E4].
  cbn [forallb]. rewrite E1, E2, E3, E4. cbn [andb]. clear E1 E2 E3 E4.
  destruct r as [|m1 [|m2 r]]; try discriminate; [reflexivity|].
  apply andb_prop in Hr. destruct Hr as [H1 Hr]. apply in_range2_dig, dig2_chars in H1. destruct H1 as [E1 E2].
  cbn [forallb]. rewrite E1, E2. cbn [andb]. clear E1 E2.
  destruct r as [|d1 [|d2 [|z r]]]; try discriminate; [reflexivity|].
  apply in_range2_dig, dig2_chars in Hr. destruct Hr as [E1 E2]. cbn [forallb]. now rewrite E1, E2.
Qed.

Lemma dt_space_day_chars d : dt_space_day d = true -> forallb body_char d = true.
Proof.
  destruct d as [|y1 [|y2 [|y3 [|y4 [|m1 [|m2 [|sp [|dd [|z r]]]]]]]]]; try discriminate.
  cbn [dt_space_day]. intros H. boolprop.
  repeat match goal with H : dig2 _ _ = true |- _ => apply dig2_chars in H; destruct H end.
  match goal with H : in_range2 1 12 m1 m2 = true |- _ => apply in_range2_dig, dig2_chars in H; destruct H end.
  assert (body_char sp = true).
  { unfold body_char. match goal with H : is_c c_space sp = true |- _ => rewrite H end. apply orb_true_r. }
  assert (body_char dd = true).
  { assert (SP sp dd = true) as Hsp by (unfold SP; apply andb_true_intro; auto).
    pose proof (implb_true _ _ (sp_facts sp dd) Hsp) as F. boolprop. unfold body_char.
    match goal with H : is_digit dd = true |- _ => now rewrite H end. }
  cbn [forallb].
  repeat match goal with H : body_char _ = true |- _ => rewrite H; clear H end. reflexivity.
Qed.

Lemma dtm_body_chars b : dtm_body_ok b = true -> forallb body_char b = true.
Proof.
  unfold dtm_body_ok. rewrite accept_DT_exact. unfold spec_DT. intros H. apply andb_prop in H. destruct H as [Hd Ht].
  rewrite <- (firstn_skipn 8 b). unfold take, drop in *. rewrite forallb_app. apply andb_true_intro. split.
  - apply orb_prop in Hd. destruct Hd; [now apply spec_date_chars|now apply dt_space_day_chars].
  - destruct (skipn 8 b) as [|x t] eqn:E; [reflexivity|]. cbn [nilb orb] in Ht. now apply spec_time_chars.
Qed.

Lemma with_offset_or B1 B2 s :
  with_offset (fun b => B1 b || B2 b) s = with_offset B1 s || with_offset B2 s.
Proof.
  unfold with_offset. destruct (B1 s), (B2 s), (5 <=? length s), (B1 (take (length s - 5) s)),
    (B2 (take (length s - 5) s)), (spec_offset (drop (length s - 5) s)); reflexivity.
Qed.

Lemma with_offset_ext B1 B2 s : (forall b, B1 b = B2 b) -> with_offset B1 s = with_offset B2 s.
Proof. intros H. unfold with_offset. now rewrite !H. Qed.
Lemma offset_defect_ext B1 B2 s : (forall b, B1 b = B2 b) -> offset_defect B1 s = offset_defect B2 s.
Proof. intros H. unfold offset_defect. destruct (off_at_end s); [now rewrite H|reflexivity]. Qed.

Lemma dtm_run b o : off_okc o = true ->
  dtm_of_body dtm_formats b o = if dtm_body_ok b then Ok (dtm_enc b ++ o) else Err PyValueError.
Proof. apply dtm_body_exact. Qed.

Lemma impl_DTM_off s : impl_DTM s = impl_off (dtm_of_body dtm_formats) s.
Proof. apply impl_DTM_body. Qed.

(* exactly: the HL7 date-times, those with a blank-padded day, and the repeated-offset values *)
Theorem accept_DTM_exact s :
  accepts (impl_DTM s) = spec_DTM s || with_offset dtm_space_day s || offset_defect dtm_body_impl s.
Proof.
  rewrite impl_DTM_off. rewrite (offset_layer dtm_body_ok _ dtm_enc dtm_body_chars dtm_run).
  rewrite (with_offset_ext _ _ s dtm_body_ok_alt), (offset_defect_ext _ _ s dtm_body_ok_alt).
  unfold dtm_body_impl at 1. now rewrite with_offset_or.
Qed.

Theorem DTM_only_valueerror s x : impl_DTM s = Err x -> x = PyValueError.
Proof. rewrite impl_DTM_off. apply (offset_only_valueerror dtm_body_ok _ dtm_enc), dtm_run. Qed.

Lemma spec_datetime_ok b : spec_datetime b = true -> dtm_body_ok b = true.
Proof. intros H. rewrite dtm_body_ok_alt. unfold dtm_body_impl. now rewrite H. Qed.

Lemma spec_datetime_chars b : spec_datetime b = true -> forallb body_char b = true.
Proof. intros H. now apply dtm_body_chars, spec_datetime_ok. Qed.

Lemma date_enc_id d : spec_date d = true -> date_enc d = d.
Proof.
  intros Hs. unfold date_enc. destruct (impl_DT d) as [e|x] eqn:E.
  - now apply (roundtrip_DT d e).
  - pose proof (accept_DT_exact d) as A. rewrite E in A. unfold spec_DT in A. rewrite Hs in A. discriminate.
Qed.

Lemma dtm_enc_id b : spec_datetime b = true -> dtm_enc b = b.
Proof.
  intros Hs. rewrite spec_datetime_alt in Hs. apply andb_prop in Hs. destruct Hs as [Hd _].
  unfold dtm_enc. rewrite date_enc_id by auto. unfold take, drop. apply firstn_skipn.
Qed.

Theorem roundtrip_DTM s e : impl_DTM s = Ok e -> spec_DTM s = true -> e = s.
Proof.
  rewrite impl_DTM_off. intros Hi Hs.
  destruct (offset_decompose dtm_body_ok _ dtm_enc dtm_body_chars dtm_run s e Hi)
    as [b [o [Hb [He [[Hn [-> ->]]|[Ho [Hbo [Hm Hsp]]]]]]]].
  - unfold spec_DTM in Hs. rewrite (with_offset_none spec_datetime s Hn) in Hs.
    rewrite He, (dtm_enc_id s Hs). apply app_nil_r.
  - destruct (off_match_shape o Hm) as [sg [r [Eo [_ [_ Lr]]]]].
    assert (Lo : length o = 5) by (rewrite Eo; cbn [length]; lia).
    set (p := take (length s - 5) s) in *.
    unfold spec_DTM in Hs. rewrite Hsp, (with_offset_off spec_datetime spec_datetime_chars p o Hm Lo) in Hs.
    assert (b = p) as ->.
    { rewrite Hbo, Hsp. now apply (B_prefix_clean spec_datetime spec_datetime_chars). }
    rewrite He, (dtm_enc_id p Hs). symmetry. exact Hsp.
Qed.
