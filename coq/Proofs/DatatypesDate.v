(* Facts about Model/Datatypes.v, part 2: DT / TM / DTM against the specification recognisers. *)
From Coq Require Import List Bool Arith NArith ZArith Lia Init.Byte Strings.Byte.
From HL7 Require Import Lib.Str Model.Ec Model.Result Model.Escape Model.Datatypes Gen.Params
  Proofs.DatatypesFacts.
Import ListNotations.

(* ------------------------------------------------------------------ *)
(* two-byte facts, by evaluation over all 65 536 pairs                  *)

Definition SP (a b : byte) : bool := is_c c_space a && rng c_1 c_9 b.
Definition day_val (a b : byte) : N := if dig2 a b then num2 a b else digit_val b.

Lemma m_char : forall a b, Bool.eqb (matched re_m [a; b]) (in_range2 1 12 a b) = true.
Proof. brute2. Qed.
Lemma d_char : forall a b, Bool.eqb (matched re_d [a; b]) (in_range2 1 31 a b || SP a b) = true.
Proof. brute2. Qed.
Lemma H_char : forall a b, Bool.eqb (matched re_H [a; b]) (in_range2 0 23 a b) = true.
Proof. brute2. Qed.
Lemma M_char : forall a b, Bool.eqb (matched re_M [a; b]) (in_range2 0 59 a b) = true.
Proof. brute2. Qed.
Lemma S_char : forall a b, Bool.eqb (matched re_S [a; b]) (in_range2 0 61 a b) = true.
Proof. brute2. Qed.
Lemma int2 : forall a b, implb (dig2 a b) (N.eqb (txt_int [a; b]) (num2 a b)) = true.
Proof. brute2. Qed.
Lemma int_day : forall a b, implb (in_range2 1 31 a b || SP a b) (N.eqb (txt_int [a; b]) (day_val a b)) = true.
Proof. brute2. Qed.
Lemma sp_facts : forall a b,
  implb (SP a b) (negb (dig2 a b) && N.leb 1 (digit_val b) && N.leb (digit_val b) 9 && is_digit b) = true.
Proof. brute2. Qed.
Lemma pad2 : forall a b, implb (dig2 a b) (streqb (padn 2 (num2 a b)) [a; b]) = true.
Proof. brute2. Qed.
Lemma pad2_sp : forall a b, implb (SP a b) (streqb (padn 2 (digit_val b)) [c_0; b]) = true.
Proof. brute2. Qed.
Lemma num2_le99 : forall a b, implb (dig2 a b) (N.leb (num2 a b) 99) = true.
Proof. brute2. Qed.
Lemma dv_ge1 : forall a, implb (is_digit a && negb (is_c c_0 a)) (N.leb 1 (digit_val a)) = true.
Proof. brute1. Qed.
Lemma dv_le9 : forall a, implb (is_digit a) (N.leb (digit_val a) 9) = true.
Proof. brute1. Qed.
Lemma digit_of_val : forall a, implb (is_digit a) (beqb (digit_of (digit_val a)) a) = true.
Proof. brute1. Qed.
Lemma digit_not_space : forall a, implb (is_digit a) (negb (is_c c_space a)) = true.
Proof. brute1. Qed.

Lemma use_eqb {a b} : Bool.eqb a b = true -> a = b.
Proof. apply eqb_true_eq. Qed.
Lemma use_Neqb {a b} : N.eqb a b = true -> a = b.
Proof. apply N.eqb_eq. Qed.

Lemma matched_m a b : matched re_m [a; b] = in_range2 1 12 a b. Proof. exact (use_eqb (m_char a b)). Qed.
Lemma matched_d a b : matched re_d [a; b] = in_range2 1 31 a b || SP a b. Proof. exact (use_eqb (d_char a b)). Qed.
Lemma matched_H a b : matched re_H [a; b] = in_range2 0 23 a b. Proof. exact (use_eqb (H_char a b)). Qed.
Lemma matched_M a b : matched re_M [a; b] = in_range2 0 59 a b. Proof. exact (use_eqb (M_char a b)). Qed.
Lemma matched_S a b : matched re_S [a; b] = in_range2 0 61 a b. Proof. exact (use_eqb (S_char a b)). Qed.
Lemma matched_Y a b c d : matched re_Y [a; b; c; d] = dig2 a b && dig2 c d.
Proof. unfold matched, dig2. cbn. unfold dg. destruct (is_digit a), (is_digit b), (is_digit c), (is_digit d); reflexivity. Qed.

Lemma txt_int2 a b : dig2 a b = true -> txt_int [a; b] = num2 a b.
Proof. intros H. apply use_Neqb. exact (implb_true _ _ (int2 a b) H). Qed.
Lemma txt_int_day a b : in_range2 1 31 a b || SP a b = true -> txt_int [a; b] = day_val a b.
Proof. intros H. apply use_Neqb. exact (implb_true _ _ (int_day a b) H). Qed.

Lemma in_range2_dig lo hi a b : in_range2 lo hi a b = true -> dig2 a b = true.
Proof. unfold in_range2. intros H. apply andb_prop in H. destruct H as [H _]. apply andb_prop in H. tauto. Qed.

Lemma txt_int4 a b c d : dig2 a b && dig2 c d = true -> txt_int [a; b; c; d] = num4 a b c d.
Proof.
  intros H. apply andb_prop in H. destruct H as [H1 H2]. unfold dig2 in H1. apply andb_prop in H1. destruct H1 as [Ha Hb].
  unfold txt_int. cbn [lstrip_by]. pose proof (implb_true _ _ (digit_not_space a) Ha) as Hs.
  apply negb_true_iff in Hs. rewrite Hs. unfold digits_val, num4, num2. cbn [fold_left]. lia.
Qed.

Lemma num4_le a b c d : dig2 a b && dig2 c d = true -> (num4 a b c d <= 9999)%N.
Proof.
  intros H. apply andb_prop in H. destruct H as [H1 H2].
  pose proof (implb_true _ _ (num2_le99 a b) H1) as L1. pose proof (implb_true _ _ (num2_le99 c d) H2) as L2.
  apply N.leb_le in L1, L2. unfold num4. lia.
Qed.

(* ---- printing numbers back ---- *)
Lemma digits_val_app ds d : digits_val (ds ++ [d]) = (digits_val ds * 10 + digit_val d)%N.
Proof. unfold digits_val. rewrite fold_left_app. reflexivity. Qed.

Lemma padn_digits ds : all_dig ds = true -> padn (length ds) (digits_val ds) = ds.
Proof.
  induction ds as [|d ds IH] using rev_ind; intros H; [reflexivity|].
  unfold all_dig in H. rewrite forallb_app in H. apply andb_prop in H. destruct H as [Hds Hd]. cbn in Hd.
  rewrite andb_true_r in Hd. rewrite app_length. cbn [length]. rewrite Nat.add_1_r. cbn [padn].
  rewrite digits_val_app.
  pose proof (implb_true _ _ (dv_le9 d) Hd) as L. apply N.leb_le in L.
  assert (E1 : ((digits_val ds * 10 + digit_val d) / 10 = digits_val ds)%N).
  { rewrite N.div_add_l by lia. rewrite N.div_small by lia. lia. }
  assert (E2 : ((digits_val ds * 10 + digit_val d) mod 10 = digit_val d)%N).
  { rewrite N.add_comm, N.mod_add by lia. apply N.mod_small. lia. }
  rewrite E1, E2, (IH Hds). f_equal. f_equal. apply beqb_eq. exact (implb_true _ _ (digit_of_val d) Hd).
Qed.

Definition Nseq (n : nat) : list N := map N.of_nat (seq 0 n).
Lemma Nseq_In n i : (i < N.of_nat n)%N -> In i (Nseq n).
Proof. intros H. unfold Nseq. apply in_map_iff. exists (N.to_nat i). split; [apply N2Nat.id|]. apply in_seq. lia. Qed.

Lemma N_to_str_4digits :
  forallb (fun i => forallb (fun j => let y := (1000 + 100 * i + j)%N in streqb (N_to_str y) (padn 4 y))
                            (Nseq 100)) (Nseq 90) = true.
Proof. vm_compute. reflexivity. Qed.

Lemma year_str y : (1000 <= y <= 9999)%N -> N_to_str y = padn 4 y.
Proof.
  intros H. pose proof N_to_str_4digits as F. rewrite forallb_forall in F.
  specialize (F ((y - 1000) / 100)%N).
  assert (Hi : ((y - 1000) / 100 < 90)%N) by (apply N.div_lt_upper_bound; lia).
  specialize (F (Nseq_In 90 _ Hi)). rewrite forallb_forall in F.
  specialize (F ((y - 1000) mod 100)%N).
  assert (Hj : ((y - 1000) mod 100 < 100)%N) by (apply N.mod_lt; lia).
  specialize (F (Nseq_In 100 _ Hj)). cbv zeta in F.
  assert (E : (1000 + 100 * ((y - 1000) / 100) + (y - 1000) mod 100 = y)%N).
  { pose proof (N.div_mod (y - 1000) 100). lia. }
  rewrite E in F. now apply streqb_eq.
Qed.

Lemma year_roundtrip a b c d : dig2 a b && dig2 c d = true -> is_c c_0 a = false ->
  N_to_str (num4 a b c d) = [a; b; c; d].
Proof.
  intros H H0. pose proof (num4_le _ _ _ _ H) as L.
  assert (Hd : all_dig [a; b; c; d] = true).
  { unfold dig2 in H. cbn. now rewrite andb_true_r, andb_assoc. }
  assert (G : (1000 <= num4 a b c d)%N).
  { apply andb_prop in H. destruct H as [H1 _]. unfold dig2 in H1. apply andb_prop in H1. destruct H1 as [Ha _].
    assert (is_digit a && negb (is_c c_0 a) = true) as Hx by (rewrite Ha, H0; reflexivity).
    pose proof (implb_true _ _ (dv_ge1 a) Hx) as L1. apply N.leb_le in L1. unfold num4, num2. lia. }
  rewrite year_str by lia. rewrite <- (padn_digits _ Hd). f_equal.
  unfold digits_val, num4, num2. cbn [fold_left]. lia.
Qed.

(* ---- the calendar ---- *)
Lemma dim_bounds y m : (28 <= days_in_month y m <= 31)%N.
Proof.
  unfold days_in_month. destruct (N.eqb m 2); [destruct (is_leap y); lia|].
  destruct (N.eqb m 4 || N.eqb m 6 || N.eqb m 9 || N.eqb m 11); lia.
Qed.

(* turn boolean statements about N into propositions *)
Ltac boolprop :=
  repeat match goal with
  | H : _ && _ = true |- _ => apply andb_prop in H; destruct H
  | H : _ || _ = false |- _ => apply orb_false_elim in H; destruct H
  | H : N.leb _ _ = true |- _ => apply N.leb_le in H
  | H : N.leb _ _ = false |- _ => apply N.leb_gt in H
  | H : negb _ = true |- _ => apply negb_true_iff in H
  end.

Lemma in_range2_true lo hi a b : dig2 a b = true -> (lo <= num2 a b <= hi)%N -> in_range2 lo hi a b = true.
Proof.
  intros Hd [H1 H2]. unfold in_range2. rewrite Hd. apply N.leb_le in H1, H2. now rewrite H1, H2.
Qed.
Lemma in_range2_inv lo hi a b : in_range2 lo hi a b = true -> dig2 a b = true /\ (lo <= num2 a b <= hi)%N.
Proof. unfold in_range2. intros H. boolprop. auto. Qed.
Lemma in_range2_false lo hi a b : in_range2 lo hi a b = false -> dig2 a b = true -> ~ (lo <= num2 a b <= hi)%N.
Proof.
  intros H Hd [H1 H2]. rewrite (in_range2_true lo hi a b Hd) in H by lia. discriminate.
Qed.

(* ------------------------------------------------------------------ *)
(* DT                                                                   *)

Lemma dt_formats_ok :
  forallb (fun f => smem (fmt_str f) dt_formats) [[TY]; [TY; Tm]; [TY; Tm; Td]] = true.
Proof. vm_compute. reflexivity. Qed.

Definition dtv_date (y m d : N) : dtv := mk_dtv y m d 0 0 0 0.

Lemma dtv_valid_date y m d :
  dtv_valid (dtv_date y m d) =
  (N.leb 1 y && N.leb y 9999 && N.leb 1 m && N.leb m 12 && N.leb 1 d && N.leb d (days_in_month y m))%bool.
Proof. unfold dtv_valid, dtv_date. cbn. now rewrite !andb_true_r. Qed.

Lemma impl_DT_4 a b c d :
  impl_DT [a; b; c; d] =
  if matched re_Y [a; b; c; d] && dtv_valid (dtv_date (txt_int [a; b; c; d]) 1 1)
  then Ok (N_to_str (txt_int [a; b; c; d])) else Err PyValueError.
Proof.
  unfold impl_DT, get_date_info, date_format. cbn [length Nat.eqb bind].
  rewrite strptime_exact by reflexivity.
  cbn [map group_of width slices take drop firstn skipn forallb2 set_fields set_field dtv0 yr mo dy hh mi ss us].
  rewrite andb_true_r. destruct (matched re_Y [a; b; c; d]); [|reflexivity]. cbn [andb].
  fold (dtv_date (txt_int [a; b; c; d]) 1 1). destruct (dtv_valid _); [|reflexivity].
  cbn [bind fst snd dt_ctor]. unfold dt_ctor. cbn [strftime flat_map strf_piece yr mo dy dtv_date app]. rewrite ?app_nil_r. vm_compute (smem _ dt_formats). reflexivity.
Qed.

Lemma impl_DT_6 a b c d m1 m2 :
  impl_DT [a; b; c; d; m1; m2] =
  if matched re_Y [a; b; c; d] && matched re_m [m1; m2] &&
     dtv_valid (dtv_date (txt_int [a; b; c; d]) (txt_int [m1; m2]) 1)
  then Ok (N_to_str (txt_int [a; b; c; d]) ++ padn 2 (txt_int [m1; m2])) else Err PyValueError.
Proof.
  unfold impl_DT, get_date_info, date_format. cbn [length Nat.eqb bind].
  rewrite strptime_exact by reflexivity.
  cbn [map group_of width slices take drop firstn skipn forallb2 set_fields set_field dtv0 yr mo dy hh mi ss us].
  rewrite andb_true_r. destruct (matched re_Y [a; b; c; d]); [|reflexivity].
  destruct (matched re_m [m1; m2]); [|reflexivity]. cbn [andb].
  fold (dtv_date (txt_int [a; b; c; d]) (txt_int [m1; m2]) 1). destruct (dtv_valid _); [|reflexivity].
  cbn [bind fst snd dt_ctor]. unfold dt_ctor. cbn [strftime flat_map strf_piece yr mo dy dtv_date app]. rewrite ?app_nil_r. vm_compute (smem _ dt_formats). reflexivity.
Qed.

Lemma impl_DT_8 a b c d m1 m2 d1 d2 :
  impl_DT [a; b; c; d; m1; m2; d1; d2] =
  if matched re_Y [a; b; c; d] && matched re_m [m1; m2] && matched re_d [d1; d2] &&
     dtv_valid (dtv_date (txt_int [a; b; c; d]) (txt_int [m1; m2]) (txt_int [d1; d2]))
  then Ok (N_to_str (txt_int [a; b; c; d]) ++ padn 2 (txt_int [m1; m2]) ++ padn 2 (txt_int [d1; d2]))
  else Err PyValueError.
Proof.
  unfold impl_DT, get_date_info, date_format. cbn [length Nat.eqb bind].
  rewrite strptime_exact by reflexivity.
  cbn [map group_of width slices take drop firstn skipn forallb2 set_fields set_field dtv0 yr mo dy hh mi ss us].
  rewrite andb_true_r. destruct (matched re_Y [a; b; c; d]); [|reflexivity].
  destruct (matched re_m [m1; m2]); [|reflexivity]. destruct (matched re_d [d1; d2]); [|reflexivity]. cbn [andb].
  fold (dtv_date (txt_int [a; b; c; d]) (txt_int [m1; m2]) (txt_int [d1; d2])). destruct (dtv_valid _); [|reflexivity].
  cbn [bind fst snd dt_ctor]. unfold dt_ctor. cbn [strftime flat_map strf_piece yr mo dy dtv_date app]. rewrite ?app_nil_r. vm_compute (smem _ dt_formats). reflexivity.
Qed.

Lemma impl_DT_badlen s : length s <> 4 -> length s <> 6 -> length s <> 8 -> impl_DT s = Err PyValueError.
Proof.
  intros H4 H6 H8. unfold impl_DT, get_date_info, date_format.
  apply Nat.eqb_neq in H4, H6, H8. now rewrite H4, H6, H8.
Qed.

Lemma Ok_inj {A} (a b : A) : @Ok A a = Ok b -> a = b.
Proof. intros H. now injection H. Qed.

Lemma accepts_if {A} (b : bool) (x : A) e : accepts (if b then Ok x else Err e) = b.
Proof. destruct b; reflexivity. Qed.

Ltac bool_lia :=
  apply eq_true_iff_eq; rewrite ?andb_true_iff, ?orb_true_iff, ?andb_true_iff, ?N.leb_le;
  intuition (try discriminate; try lia).

Lemma sp_not_dig a b : SP a b = true -> dig2 a b = false /\ (1 <= digit_val b <= 9)%N.
Proof.
  intros H. pose proof (implb_true _ _ (sp_facts a b) H) as F. boolprop. repeat split; auto.
Qed.
Lemma dig_not_sp a b : dig2 a b = true -> SP a b = false.
Proof. intros H. destruct (SP a b) eqn:E; auto. apply sp_not_dig in E. destruct E; congruence. Qed.

(* STRICT acceptance of DT, exactly: the HL7 dates plus YYYYMM-blank-D *)
Theorem accept_DT_exact s : accepts (impl_DT s) = spec_DT s || dt_space_day s.
Proof.
  unfold spec_DT.
  destruct s as [|a [|b [|c [|d [|m1 [|m2 [|d1 [|d2 [|x r]]]]]]]]];
    try (rewrite impl_DT_badlen by (cbn; lia); cbn; rewrite ?andb_false_r; reflexivity).
  - (* YYYY *)
    rewrite impl_DT_4, accepts_if, matched_Y. cbn [spec_date dt_space_day]. rewrite orb_false_r, andb_true_r.
    destruct (dig2 a b && dig2 c d) eqn:EY; [|reflexivity].
    rewrite (txt_int4 _ _ _ _ EY), dtv_valid_date. pose proof (num4_le _ _ _ _ EY). pose proof (dim_bounds (num4 a b c d) 1).
    cbn [andb]. bool_lia.
  - (* YYYYMM *)
    rewrite impl_DT_6, accepts_if, matched_Y, matched_m. cbn [spec_date dt_space_day]. rewrite orb_false_r, andb_true_r.
    destruct (dig2 a b && dig2 c d) eqn:EY; [|reflexivity].
    destruct (in_range2 1 12 m1 m2) eqn:EM; [|cbn [andb orb]; rewrite ?andb_false_r; reflexivity].
    destruct (in_range2_inv _ _ _ _ EM) as [Dm Rm].
    rewrite (txt_int4 _ _ _ _ EY), (txt_int2 _ _ Dm), dtv_valid_date. pose proof (num4_le _ _ _ _ EY).
    pose proof (dim_bounds (num4 a b c d) (num2 m1 m2)). cbn [andb]. bool_lia.
  - (* YYYYMMDD *)
    rewrite impl_DT_8, accepts_if, matched_Y, matched_m, matched_d. cbn [spec_date dt_space_day].
    fold (SP d1 d2).
    destruct (dig2 a b && dig2 c d) eqn:EY; [|reflexivity].
    destruct (in_range2 1 12 m1 m2) eqn:EM; [|cbn [andb orb]; rewrite ?andb_false_r; reflexivity].
    destruct (in_range2_inv _ _ _ _ EM) as [Dm Rm].
    pose proof (num4_le _ _ _ _ EY). pose proof (dim_bounds (num4 a b c d) (num2 m1 m2)) as Hdim.
    destruct (in_range2 1 31 d1 d2 || SP d1 d2) eqn:ED.
    + rewrite (txt_int4 _ _ _ _ EY), (txt_int2 _ _ Dm), (txt_int_day _ _ ED), dtv_valid_date. cbn [andb].
      unfold day_val. destruct (dig2 d1 d2) eqn:Edd.
      * rewrite (dig_not_sp _ _ Edd). unfold in_range2. rewrite Edd. cbn [andb]. bool_lia.
      * unfold in_range2 in ED. rewrite Edd in ED. cbn in ED. destruct (sp_not_dig _ _ ED) as [_ Hb].
        unfold in_range2. rewrite Edd, ED. cbn [andb]. bool_lia.
    + apply orb_false_elim in ED. destruct ED as [E31 Esp].
      destruct (in_range2 1 (days_in_month (num4 a b c d) (num2 m1 m2)) d1 d2) eqn:E.
      * exfalso. destruct (in_range2_inv _ _ _ _ E) as [Dd Rd]. apply (in_range2_false _ _ _ _ E31 Dd). lia.
      * rewrite Esp. cbn [andb orb]. rewrite ?andb_false_r. reflexivity.
Qed.

Theorem roundtrip_DT s e : impl_DT s = Ok e -> spec_DT s = true -> year_ge_1000 s = true -> e = s.
Proof.
  unfold spec_DT. intros Hi Hs Hy.
  destruct s as [|a [|b [|c [|d [|m1 [|m2 [|d1 [|d2 [|x r]]]]]]]]];
    try (cbn in Hs; rewrite ?andb_false_r in Hs; discriminate).
  - rewrite impl_DT_4 in Hi. cbn in Hs, Hy. boolprop.
    assert (EY : dig2 a b && dig2 c d = true) by (apply andb_true_intro; auto).
    destruct (_ && _) in Hi; [|discriminate]. cbv iota in Hi. apply Ok_inj in Hi; subst e.
    rewrite (txt_int4 _ _ _ _ EY). now apply year_roundtrip.
  - rewrite impl_DT_6 in Hi. cbn in Hs, Hy. boolprop.
    assert (EY : dig2 a b && dig2 c d = true) by (apply andb_true_intro; auto).
    destruct (_ && _) in Hi; [|discriminate]. cbv iota in Hi. apply Ok_inj in Hi; subst e.
    match goal with H : in_range2 1 12 m1 m2 = true |- _ => destruct (in_range2_inv _ _ _ _ H) as [Dm _] end.
    rewrite (txt_int4 _ _ _ _ EY), (txt_int2 _ _ Dm), year_roundtrip by auto.
    rewrite (streqb_eq _ _ (implb_true _ _ (pad2 m1 m2) Dm)). reflexivity.
  - rewrite impl_DT_8 in Hi. cbn in Hs, Hy. boolprop.
    assert (EY : dig2 a b && dig2 c d = true) by (apply andb_true_intro; auto).
    destruct (_ && _) in Hi; [|discriminate]. cbv iota in Hi. apply Ok_inj in Hi; subst e.
    match goal with H : in_range2 1 12 m1 m2 = true |- _ => destruct (in_range2_inv _ _ _ _ H) as [Dm _] end.
    match goal with H : in_range2 1 (days_in_month _ _) d1 d2 = true |- _ => destruct (in_range2_inv _ _ _ _ H) as [Dd _] end.
    rewrite (txt_int4 _ _ _ _ EY), (txt_int2 _ _ Dm), (txt_int2 _ _ Dd), year_roundtrip by auto.
    rewrite (streqb_eq _ _ (implb_true _ _ (pad2 m1 m2) Dm)), (streqb_eq _ _ (implb_true _ _ (pad2 d1 d2) Dd)).
    reflexivity.
Qed.

(* what the blank-padded day re-encodes to *)
Theorem space_day_reencodes s e : impl_DT s = Ok e -> dt_space_day s = true -> year_ge_1000 s = true ->
  e = fix_space_day s.
Proof.
  intros Hi Hs Hy.
  destruct s as [|a [|b [|c [|d [|m1 [|m2 [|d1 [|d2 [|x r]]]]]]]]]; try discriminate.
  rewrite impl_DT_8 in Hi. cbn in Hs, Hy. boolprop.
  assert (EY : dig2 a b && dig2 c d = true) by (apply andb_true_intro; auto).
  destruct (_ && _) in Hi; [|discriminate]. cbv iota in Hi. apply Ok_inj in Hi; subst e.
  match goal with H : in_range2 1 12 m1 m2 = true |- _ => destruct (in_range2_inv _ _ _ _ H) as [Dm _] end.
  assert (Hsp : SP d1 d2 = true) by (unfold SP; apply andb_true_intro; auto).
  assert (ED : in_range2 1 31 d1 d2 || SP d1 d2 = true) by (rewrite Hsp; apply orb_true_r).
  destruct (sp_not_dig _ _ Hsp) as [Nd _].
  rewrite (txt_int4 _ _ _ _ EY), (txt_int2 _ _ Dm), (txt_int_day _ _ ED), year_roundtrip by auto.
  unfold day_val. rewrite Nd.
  rewrite (streqb_eq _ _ (implb_true _ _ (pad2 m1 m2) Dm)), (streqb_eq _ _ (implb_true _ _ (pad2_sp d1 d2) Hsp)).
  reflexivity.
Qed.

(* ------------------------------------------------------------------ *)
(* str.replace(offset, '')                                              *)

Lemma beqb_sym a b : beqb a b = beqb b a.
Proof. destruct (beqb_spec a b), (beqb_spec b a); congruence. Qed.

Lemma remove_all_skip o : forall r k, k <= length r -> remove_all o k r = remove_all o 0 (drop k r).
Proof.
  induction r as [|c r IH]; intros k Hk.
  - cbn in Hk. assert (k = 0) by lia. subst. reflexivity.
  - destruct k as [|k]; [reflexivity|]. cbn [remove_all drop skipn]. apply IH. cbn in Hk. lia.
Qed.

Lemma bstarts_app o t : bstarts o (o ++ t) = true.
Proof. unfold bstarts. induction o as [|c o IH]; [reflexivity|]. cbn. now rewrite beqb_refl, IH. Qed.

Lemma bstarts_len o s : bstarts o s = true -> length o <= length s.
Proof.
  unfold bstarts. revert s. induction o as [|c o IH]; intros s H; [cbn; lia|].
  destruct s as [|d s]; [discriminate|]. cbn in H. apply andb_prop in H. destruct H as [_ H]. apply IH in H. cbn. lia.
Qed.

(* no copy of the offset's first character before the final offset: exactly one copy is removed *)
Lemma remove_all_clean h o p : bmem h p = false -> remove_all (h :: o) 0 (p ++ h :: o) = p.
Proof.
  induction p as [|c p IH]; intros Hp.
  - cbn [app remove_all].
    assert (B : bstarts (h :: o) (h :: o) = true) by (rewrite <- (app_nil_r (h :: o)) at 2; apply bstarts_app).
    rewrite B. replace (length (h :: o) - 1) with (length o) by (cbn [length]; lia).
    rewrite remove_all_skip by lia. unfold drop. rewrite skipn_all. reflexivity.
  - unfold bmem, mem in Hp. cbn in Hp. apply orb_false_elim in Hp. destruct Hp as [Hc Hp].
    cbn [app remove_all]. unfold bstarts. cbn [starts_with]. rewrite beqb_sym, Hc. cbn [andb].
    f_equal. apply IH. exact Hp.
Qed.

Lemma bstarts_snoc o : forall s c, bmem c o = false -> bstarts o (s ++ [c]) = bstarts o s.
Proof.
  unfold bstarts. induction o as [|a o IH]; intros s c Hc; [reflexivity|].
  unfold bmem, mem in Hc. cbn in Hc. apply orb_false_elim in Hc. destruct Hc as [Ha Ho].
  destruct s as [|d s].
  - cbn. rewrite Ha. reflexivity.
  - cbn. f_equal. apply IH. exact Ho.
Qed.

(* a final character that does not occur in the offset survives the replacement *)
Lemma remove_all_snoc o c : o <> [] -> bmem c o = false ->
  forall s k, k <= length s -> remove_all o k (s ++ [c]) = remove_all o k s ++ [c].
Proof.
  intros Ho Hc. induction s as [|a s IH]; intros k Hk.
  - cbn in Hk. assert (k = 0) by lia. subst. cbn [app remove_all].
    rewrite <- (app_nil_l [c]) at 1. rewrite (bstarts_snoc o [] c Hc).
    destruct o as [|x o]; [congruence|]. reflexivity.
  - destruct k as [|k].
    + cbn [app remove_all]. change (bstarts o (a :: s ++ [c])) with (bstarts o ((a :: s) ++ [c])).
      rewrite (bstarts_snoc o (a :: s) c Hc).
      destruct (bstarts o (a :: s)) eqn:B.
      * apply IH. apply bstarts_len in B. cbn in B. lia.
      * cbn [app]. f_equal. apply IH. lia.
    + cbn [app remove_all]. apply IH. cbn in Hk. lia.
Qed.

(* ------------------------------------------------------------------ *)
(* the offset grid: the regex of utils._split_offset against Gen/Params.v *)

Definition rx_plus_h (a b : byte) : bool := (is_c c_1 a && rng c_0 c_4 b) || (is_c c_0 a && rng c_0 c_9 b).
Definition rx_minus_h (a b : byte) : bool := (is_c c_1 a && rng c_0 c_2 b) || (is_c c_0 a && rng c_0 c_9 b).
Definition rx_min (a b : byte) : bool := rng c_0 c_5 a && rng c_0 c_9 b.

Lemma grid_plus_h : forall a b, Bool.eqb (rx_plus_h a b) (dig2 a b && Nmem (num2 a b) offset_plus_hours) = true.
Proof. brute2. Qed.
Lemma grid_minus_h : forall a b, Bool.eqb (rx_minus_h a b) (dig2 a b && Nmem (num2 a b) offset_minus_hours) = true.
Proof. brute2. Qed.
Lemma grid_plus_m : forall a b, Bool.eqb (rx_min a b) (dig2 a b && Nmem (num2 a b) offset_plus_minutes) = true.
Proof. brute2. Qed.
Lemma grid_minus_m : forall a b, Bool.eqb (rx_min a b) (dig2 a b && Nmem (num2 a b) offset_minus_minutes) = true.
Proof. brute2. Qed.
Lemma rx_plus_h_range : forall a b, implb (rx_plus_h a b) (in_range2 0 14 a b) = true.
Proof. brute2. Qed.
Lemma rx_minus_h_range : forall a b, implb (rx_minus_h a b) (in_range2 0 12 a b) = true.
Proof. brute2. Qed.
Lemma rx_min_range : forall a b, implb (rx_min a b) (in_range2 0 59 a b) = true.
Proof. brute2. Qed.

(* the implementation's offset regex accepts exactly the grid of the specification *)
Theorem off_match_spec o : off_match o = spec_offset o.
Proof.
  destruct o as [|sg [|h1 [|h2 [|m1 [|m2 [|x o]]]]]]; try reflexivity.
  unfold off_match, spec_offset. fold (rx_plus_h h1 h2). fold (rx_minus_h h1 h2). fold (rx_min m1 m2).
  rewrite (use_eqb (grid_plus_h h1 h2)), (use_eqb (grid_minus_h h1 h2)).
  pose proof (use_eqb (grid_plus_m m1 m2)) as Ep. pose proof (use_eqb (grid_minus_m m1 m2)) as Em.
  destruct (is_c c_plus sg) eqn:P, (is_c c_minus sg) eqn:M; cbn [andb orb].
  - apply beqb_eq in P. apply beqb_eq in M. subst. discriminate.
  - rewrite Ep. destruct (dig2 h1 h2), (dig2 m1 m2), (Nmem (num2 h1 h2) offset_plus_hours),
      (Nmem (num2 m1 m2) offset_plus_minutes); reflexivity.
  - rewrite Em. destruct (dig2 h1 h2), (dig2 m1 m2), (Nmem (num2 h1 h2) offset_minus_hours),
      (Nmem (num2 m1 m2) offset_minus_minutes); reflexivity.
  - now rewrite andb_false_r.
Qed.
