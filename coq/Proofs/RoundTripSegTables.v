(* Boolean versions of the table premises of Proofs/RoundTripSeg.v, their soundness, and the
   kernel-checked fact that every segment of every shipped version (the structure wildcard
   ANYHL7SEGMENT and MSH apart) satisfies them. *)
From Coq Require Import List Bool Arith ZArith NArith Lia Init.Byte.
From HL7 Require Import Lib.Str Model.Ec Model.Result Model.Ref Model.Tree Model.Parser Model.Encode Model.Wf.
From HL7 Require Import Gen.Tables.
From HL7 Require Oblig.WfAll.
From HL7 Require Import Proofs.RoundTripStr Proofs.RoundTripCore Proofs.RoundTripSeg Proofs.RoundTripTables.
Import ListNotations.
Open Scope bs_scope.

Lemma smem_In k l : smem k l = true -> In k l.
Proof.
  unfold smem. rewrite existsb_exists. intros [x [Hx E]]. apply streqb_eq in E. now subst.
Qed.

Lemma nodupb_streqb_NoDup l : nodupb streqb l = true -> NoDup l.
Proof.
  induction l as [|x r IH]; intros H; [constructor|].
  cbn [nodupb] in H. apply andb_prop in H. destruct H as [Hx Hr].
  constructor; [|now apply IH]. apply negb_true_iff in Hx. intros Hi.
  assert (mem streqb x r = true) as M.
  { unfold mem. rewrite existsb_exists. exists x. split; [exact Hi|apply streqb_refl]. }
  congruence.
Qed.

Lemma In_slookup {B} k (v : B) l : NoDup (map fst l) -> In (k, v) l -> slookup k l = Some v.
Proof.
  induction l as [|[k' v'] l IH]; intros Hn Hi; [destruct Hi|].
  cbn [map fst] in Hn. inversion Hn as [|? ? Hk Hn']; subst.
  destruct Hi as [E|Hi].
  - injection E as -> ->. apply slookup_cons_eq.
  - rewrite slookup_cons_ne; [now apply IH|]. intros ->. apply Hk. apply (in_map fst) in Hi. exact Hi.
Qed.

Lemma In_filter_names {B} (f : str * B -> bool) l k :
  In k (map fst (filter f l)) -> exists v, In (k, v) l /\ f (k, v) = true.
Proof.
  intros H. apply in_map_iff in H. destruct H as [[k' v] [E H]]. cbn [fst] in E. subst k'.
  apply filter_In in H. exists v. exact H.
Qed.

Section Checks.
Variable t : tables.
Notation base := (base t).

Definition dt_name_okb (D : str) : bool :=
  negb (base (Some D)) && streqb (upper D) D && negb (bstarts (unbs "VARIES") D).

Definition base_leafb (row : srow) : bool :=
  match row_ref t row with
  | Some (SLeaf i) => match i_dt i with Some b => base (Some b) | None => false end
  | _ => false
  end.
Definition flat_okb (p : str * list srow) : bool :=
  dt_name_okb (fst p) && rows_contiguous (fst p) CMP 1 (snd p) && forallb base_leafb (snd p).
Definition flat_names : list str := map fst (filter flat_okb (t_structs t)).

Definition comp_row_okb (flat : list str) (row : srow) : bool :=
  match row_ref t row with
  | Some (SLeaf i) => match i_dt i with Some b => base (Some b) | None => false end
  | Some (SSeqDt i) => match i_dt i with Some D2 => smem D2 flat | None => false end
  | _ => false
  end.
Definition good_okb (flat : list str) (p : str * list srow) : bool :=
  dt_name_okb (fst p) && rows_contiguous (fst p) CMP 1 (snd p) && forallb (comp_row_okb flat) (snd p).
Definition good_names : list str := let flat := flat_names in map fst (filter (good_okb flat) (t_structs t)).

(* per segment, what Model/Wf.v's wf_seg does not say *)
Definition seg_name_okb (sn : str) : bool :=
  streqb (upper sn) sn && negb (streqb sn (unbs "MSH")) && negb (valid_z_segment_name sn).

Definition excluded (n : str) : bool := streqb n (unbs "ANYHL7SEGMENT") || streqb n (unbs "MSH").

(* no field of the table is called <SEG>_i beyond the fields the segment defines *)
Definition no_extra_fields (sn : str) (n : nat) : bool :=
  let names := map (name_idx sn) (seq 1 n) in
  let pre := sn ++ unbs "_" in
  forallb (fun p : str * sref => if bstarts pre (fst p) then smem (fst p) names else true) (t_fields t).

Lemma no_extra_fields_sound sn n i : no_extra_fields sn n = true -> n < i ->
  slookup (name_idx sn i) (t_fields t) = None.
Proof.
  intros H Hi. apply slookup_none. intros Hin. apply in_map_iff in Hin. destruct Hin as [[k v] [E Hin]].
  cbn [fst] in E. subst k. unfold no_extra_fields in H. cbv zeta in H. rewrite forallb_forall in H. specialize (H _ Hin).
  cbn [fst] in H. assert (B : bstarts (sn ++ unbs "_") (name_idx sn i) = true).
  { unfold name_idx. rewrite app_assoc. apply starts_with_app. }
  rewrite B in H. apply smem_In in H. apply in_map_iff in H. destruct H as [j [Ej Hj]].
  apply name_idx_inj in Ej. subst j. apply in_seq in Hj. lia.
Qed.

(* no component of the tables is called D_j beyond the components that the struct D defines, for
   every struct D that is the datatype of a field; and segment rows name their fields *)
Definition struct_no_extra_comps (p : str * list srow) : bool :=
  let names := map (name_idx (fst p)) (seq 1 (length (snd p))) in
  let pre := fst p ++ unbs "_" in
  forallb (fun q : str * sref => if bstarts pre (fst q) && all_digits (drop (length pre) (fst q))
                                 then smem (fst q) names else true) (t_components t).
Definition bad_comp_structs : list str := map fst (filter (fun p => negb (struct_no_extra_comps p)) (t_structs t)).
Definition dt_not_bad (bad : list str) (r : sref) : bool :=
  match r with
  | SSeqDt i => match i_dt i with Some D => negb (smem D bad) | None => true end
  | _ => true
  end.
Definition fields_comp_ok : bool :=
  let bad := bad_comp_structs in
  forallb (fun q : str * sref => dt_not_bad bad (snd q)) (t_fields t).
Definition rows_by_name : bool :=
  let bad := bad_comp_structs in
  forallb (fun p : str * sref => match snd p with
                                 | SSeqIn _ rows _ =>
                                     forallb (fun r => match r with
                                                       | SByName FIE _ _ _ => true
                                                       | SIn _ _ x _ _ => dt_not_bad bad x     (* inline reference *)
                                                       | _ => false end) rows
                                 | _ => true end || excluded (fst p)) (t_segments t).

Lemma struct_no_extra_sound D rows j : struct_no_extra_comps (D, rows) = true -> length rows < j ->
  slookup (name_idx D j) (t_components t) = None.
Proof.
  intros H Hj. apply slookup_none. intros Hin. apply in_map_iff in Hin. destruct Hin as [[k v] [E Hin]].
  cbn [fst] in E. subst k. unfold struct_no_extra_comps in H. cbv zeta in H. cbn [fst snd] in H.
  rewrite forallb_forall in H. specialize (H _ Hin). cbn [fst] in H.
  assert (B : bstarts (D ++ unbs "_") (name_idx D j) = true).
  { unfold name_idx. rewrite app_assoc. apply starts_with_app. }
  assert (B2 : drop (length (D ++ unbs "_")) (name_idx D j) = nat_to_str j).
  { unfold name_idx. rewrite app_assoc. apply drop_app. }
  rewrite B, B2, nat_to_str_all_digits in H. cbn [andb] in H.
  apply smem_In in H. apply in_map_iff in H. destruct H as [j' [Ej Hj']].
  apply name_idx_inj in Ej. subst j'. apply in_seq in Hj'. lia.
Qed.

(* MSH-1 and MSH-2 are ST leaves *)
Definition st_leafb (row : srow) : bool :=
  match row_ref t row with
  | Some (SLeaf i) => match i_dt i with Some d => streqb d (unbs "ST") | None => false end
  | _ => false
  end.
Definition msh_okb : bool :=
  match slookup (unbs "MSH") (t_segments t) with
  | Some (SSeqIn false (r1 :: r2 :: _) None) => st_leafb r1 && st_leafb r2
  | _ => false
  end.

(* the whole table: keys are unique, every struct that Wf.v calls good satisfies the (stronger)
   premises of RoundTripSeg.v, segment names are upper case and not Z names.  The expensive part
   (every field row of every segment resolves to a well-formed reference) is Oblig/Wf_v*.v. *)
Definition seg_tables_ok : bool :=
  nodupb streqb (map fst (t_structs t)) && nodupb streqb (map fst (t_segments t)) &&
  (let good := good_names in forallb (fun d => smem d good) (good_structs t)) &&
  forallb (fun p : str * sref => seg_name_okb (fst p) || excluded (fst p)) (t_segments t) &&
  forallb (fun p : str * sref => match snd p with
                                 | SSeqIn _ rows _ => no_extra_fields (fst p) (length rows)
                                 | _ => true end) (t_segments t) &&
  msh_okb && fields_comp_ok && rows_by_name.

(* ---- soundness ---- *)
Hypothesis Hnd : NoDup (map fst (t_structs t)).

Lemma dt_name_okb_sound D : dt_name_okb D = true -> dt_name_ok t D.
Proof.
  unfold dt_name_okb. intros H. repeat (apply andb_prop in H; destruct H as [H ?H]).
  constructor; [now apply negb_true_iff|now apply streqb_eq|now apply negb_true_iff].
Qed.

Lemma base_leafb_sound row : base_leafb row = true ->
  exists i b, row_ref t row = Some (SLeaf i) /\ i_dt i = Some b /\ base (Some b) = true.
Proof.
  unfold base_leafb. destruct (row_ref t row) as [[i|i|c cs oi|]|]; try discriminate.
  destruct (i_dt i) as [b|] eqn:E; [|discriminate]. intros H. exists i, b. auto.
Qed.

Lemma flat_names_sound D : smem D flat_names = true ->
  exists rows, slookup D (t_structs t) = Some rows /\ dt_name_ok t D /\ flat_rows t D rows.
Proof.
  intros H. apply smem_In in H. apply In_filter_names in H. destruct H as [rows [Hi Hf]].
  exists rows. split; [now apply In_slookup|].
  unfold flat_okb in Hf. cbn [fst snd] in Hf.
  apply andb_prop in Hf. destruct Hf as [Hf Hf0]. apply andb_prop in Hf. destruct Hf as [Hf Hf1].
  split; [now apply dt_name_okb_sound|]. split; [assumption|].
  intros row Hr. apply base_leafb_sound. rewrite forallb_forall in Hf0. now apply Hf0.
Qed.

Lemma comp_row_okb_sound row : comp_row_okb flat_names row = true -> comp_row_ok t row.
Proof.
  unfold comp_row_okb, comp_row_ok. destruct (row_ref t row) as [[i|i|c cs oi|]|]; try discriminate.
  - destruct (i_dt i) as [b|] eqn:E; [|discriminate]. intros H. left. exists i, b. auto.
  - destruct (i_dt i) as [D2|] eqn:E; [|discriminate]. intros H. right.
    destruct (flat_names_sound D2 H) as [rows2 [Hl [Hn Hf]]]. exists i, D2, rows2. auto.
Qed.

Lemma good_names_sound D : smem D good_names = true ->
  exists rows, slookup D (t_structs t) = Some rows /\ good_struct t D rows.
Proof.
  intros H. apply smem_In in H. apply In_filter_names in H. destruct H as [rows [Hi Hf]].
  exists rows. split; [now apply In_slookup|].
  unfold good_okb in Hf. cbn [fst snd] in Hf.
  apply andb_prop in Hf. destruct Hf as [Hf Hf0]. apply andb_prop in Hf. destruct Hf as [Hf Hf1].
  split; [now apply dt_name_okb_sound|]. split; [assumption|].
  intros row Hr. apply comp_row_okb_sound. rewrite forallb_forall in Hf0. now apply Hf0.
Qed.

Hypothesis Hgood : forallb (fun d => smem d good_names) (good_structs t) = true.

Lemma wf_field_row_sound row : wf_field_row t (good_structs t) row = true -> field_row_ok t row.
Proof.
  unfold wf_field_row, wf_field_ref, field_row_ok. destruct (row_ref t row) as [[i|i|c cs oi|]|]; try discriminate.
  - intros H. exists (SLeaf i). split; [reflexivity|]. unfold leaf_ok in H.
    destruct (i_dt i) as [d|]; [|exact I]. apply orb_prop in H. destruct H as [H|H]; [now left|right].
    cbn [andb] in H. now apply streqb_eq.
  - destruct (i_dt i) as [D|] eqn:E; [|discriminate]. intros H.
    apply smem_In in H. rewrite forallb_forall in Hgood. specialize (Hgood D H).
    destruct (good_names_sound D Hgood) as [rows [Hl Hg]]. exists (SSeqDt i). split; [reflexivity|].
    exists D, rows. auto.
Qed.

Lemma wf_seg_rows_sound sn r : wf_seg t (good_structs t) (sn, r) = true ->
  exists rows, r = SSeqIn false rows None /\ length sn = 3 /\
    rows_contiguous sn FIE 1 rows = true /\ (forall row, In row rows -> field_row_ok t row).
Proof.
  unfold wf_seg. cbn [fst snd]. destruct r as [i|i|[|] rows [i|]|]; try discriminate.
  intros H. do 2 (apply andb_prop in H; destruct H as [H ?H]).
  exists rows. split; [reflexivity|]. split; [now apply Nat.eqb_eq|]. split; [assumption|].
  intros row Hr. apply wf_field_row_sound. rewrite forallb_forall in H0. now apply H0.
Qed.

Lemma wf_seg_sound sn r : wf_seg t (good_structs t) (sn, r) = true -> seg_name_okb sn = true ->
  exists rows, r = SSeqIn false rows None /\
    length sn = 3 /\ upper sn = sn /\ streqb sn (unbs "MSH") = false /\ valid_z_segment_name sn = false /\
    rows_contiguous sn FIE 1 rows = true /\ (forall row, In row rows -> field_row_ok t row).
Proof.
  intros H G. destruct (wf_seg_rows_sound sn r H) as [rows [-> [H3 [Hc Hr]]]].
  unfold seg_name_okb in G. do 2 (apply andb_prop in G; destruct G as [G ?G]).
  exists rows. split; [reflexivity|]. split; [exact H3|]. split; [now apply streqb_eq|].
  split; [now apply negb_true_iff|]. split; [now apply negb_true_iff|]. split; assumption.
Qed.

(* Wf.report_ok: every segment other than the wildcard is well formed *)
Lemma report_ok_seg p : report_ok t = true -> In p (t_segments t) -> fst p <> unbs "ANYHL7SEGMENT" ->
  wf_seg t (good_structs t) p = true.
Proof.
  unfold report_ok, table_report. intros H Hi Hn.
  apply andb_prop in H. destruct H as [H _].
  destruct (wf_seg t (good_structs t) p) eqn:E; [reflexivity|exfalso].
  assert (Hb : In (fst p) (map fst (filter (fun p => negb (wf_seg t (good_structs t) p)) (t_segments t)))).
  { apply in_map. apply filter_In. split; [exact Hi|now rewrite E]. }
  change (map fst (filter (fun p0 => negb (wf_seg t (map fst (filter (wf_struct t (flat_structs t)) (t_structs t))) p0)) (t_segments t)))
    with (map fst (filter (fun p => negb (wf_seg t (good_structs t) p)) (t_segments t))) in H.
  destruct (map fst (filter (fun p => negb (wf_seg t (good_structs t) p)) (t_segments t))) as [|x [|y l]].
  - destruct Hb.
  - cbn [only_wildcard] in H. apply streqb_eq in H. destruct Hb as [Hb|[]]. congruence.
  - discriminate.
Qed.

End Checks.

(* ---- all shipped versions ---- *)
Lemma all_seg_tables_ok : forallb (fun p => seg_tables_ok (snd p)) all_tables = true.
Proof. vm_cast_no_check (eq_refl true). Qed.

Lemma shipped_segment_ok v t sn r : tables_of v = Some t -> In (sn, r) (t_segments t) ->
  sn <> unbs "ANYHL7SEGMENT" -> sn <> unbs "MSH" ->
  slookup sn (t_segments t) = Some r /\
  exists rows, r = SSeqIn false rows None /\
    length sn = 3 /\ upper sn = sn /\ streqb sn (unbs "MSH") = false /\ valid_z_segment_name sn = false /\
    rows_contiguous sn FIE 1 rows = true /\ (forall row, In row rows -> field_row_ok t row) /\
    (forall i, length rows < i -> slookup (name_idx sn i) (t_fields t) = None) /\
    (forall row inf D drows, In row rows -> row_ref t row = Some (SSeqDt inf) -> i_dt inf = Some D ->
       slookup D (t_structs t) = Some drows -> forall j, length drows < j -> slookup (name_idx D j) (t_components t) = None).
Proof.
  intros Ht Hi Ha Hm.
  pose proof (lookup_forallb (fun _ x => seg_tables_ok x) all_tables v t all_seg_tables_ok Ht) as F.
  unfold seg_tables_ok in F. apply andb_prop in F. destruct F as [F FR]. apply andb_prop in F. destruct F as [F FC].
  apply andb_prop in F. destruct F as [F _]. apply andb_prop in F. destruct F as [F FX].
  do 3 (apply andb_prop in F; destruct F as [F ?F]).
  apply nodupb_streqb_NoDup in F. apply nodupb_streqb_NoDup in F2.
  split; [now apply In_slookup|].
  cut (exists rows, r = SSeqIn false rows None /\
    length sn = 3 /\ upper sn = sn /\ streqb sn (unbs "MSH") = false /\ valid_z_segment_name sn = false /\
    rows_contiguous sn FIE 1 rows = true /\ (forall row, In row rows -> field_row_ok t row)).
  { intros [rows [-> R]]. exists rows. split; [reflexivity|]. repeat (destruct R as [?R R]). repeat split; auto.
    - intros i Hlt. rewrite forallb_forall in FX. specialize (FX _ Hi). cbn [fst snd] in FX.
      now apply (no_extra_fields_sound t sn (length rows) i).
    - intros row inf D drows Hrow Hr Hd Hld j Hj.
      unfold rows_by_name in FR. cbv zeta in FR. rewrite forallb_forall in FR. specialize (FR _ Hi). cbn [fst snd] in FR.
      apply orb_prop in FR. destruct FR as [FR|FR].
      2:{ exfalso. unfold excluded in FR. apply orb_prop in FR. destruct FR as [E|E]; apply streqb_eq in E; congruence. }
      rewrite forallb_forall in FR. specialize (FR _ Hrow).
      assert (FB : dt_not_bad (bad_comp_structs t) (SSeqDt inf) = true).
      { destruct row as [k nm mn mx|k nm x mn mx|]; try discriminate.
        - destruct k; try discriminate. cbn [row_ref table_of] in Hr. apply slookup_in in Hr.
          unfold fields_comp_ok in FC. cbv zeta in FC. rewrite forallb_forall in FC. exact (FC _ Hr).
        - cbn [row_ref] in Hr. injection Hr as ->. exact FR. }
      cbn [dt_not_bad] in FB. rewrite Hd in FB. apply negb_true_iff in FB. rename FB into FC'.
      apply (struct_no_extra_sound t D drows j); [|exact Hj].
      destruct (struct_no_extra_comps t (D, drows)) eqn:Es; [reflexivity|exfalso].
      assert (smem D (bad_comp_structs t) = true) as Hb; [|rewrite Hb in FC'; discriminate].
      unfold smem. apply existsb_exists. exists D. split; [|apply streqb_refl].
      unfold bad_comp_structs. apply (in_map fst _ (D, drows)). apply filter_In. split; [now apply slookup_in|now rewrite Es]. }
  apply (wf_seg_sound t F F1).
  - apply (report_ok_seg t (sn, r)); auto. exact (Oblig.WfAll.tables_of_wf v t Ht).
  - rewrite forallb_forall in F0. specialize (F0 _ Hi). cbn [fst] in F0.
    apply orb_prop in F0. destruct F0 as [F0|F0]; [exact F0|exfalso].
    unfold excluded in F0. apply orb_prop in F0. destruct F0 as [E|E]; apply streqb_eq in E; congruence.
Qed.

Lemma st_leafb_sound t row : st_leafb t row = true ->
  exists i, row_ref t row = Some (SLeaf i) /\ i_dt i = Some (unbs "ST").
Proof.
  unfold st_leafb. destruct (row_ref t row) as [[i|i|? ? ?|]|]; try discriminate.
  destruct (i_dt i) as [d|] eqn:E; [|discriminate]. intros H. apply streqb_eq in H. subst d. now exists i.
Qed.

(* the MSH segment of every shipped version *)
Lemma shipped_msh_ok v t : tables_of v = Some t ->
  exists srows row1 row2 inf1 inf2,
    slookup (unbs "MSH") (t_segments t) = Some (SSeqIn false srows None) /\
    rows_contiguous (unbs "MSH") FIE 1 srows = true /\ (forall row, In row srows -> field_row_ok t row) /\
    nth_error srows 0 = Some row1 /\ nth_error srows 1 = Some row2 /\
    row_ref t row1 = Some (SLeaf inf1) /\ row_ref t row2 = Some (SLeaf inf2) /\
    i_dt inf1 = Some (unbs "ST") /\ i_dt inf2 = Some (unbs "ST").
Proof.
  intros Ht.
  pose proof (lookup_forallb (fun _ x => seg_tables_ok x) all_tables v t all_seg_tables_ok Ht) as F.
  unfold seg_tables_ok in F. do 2 (apply andb_prop in F; destruct F as [F _]).
  apply andb_prop in F. destruct F as [F FM]. apply andb_prop in F. destruct F as [F _].
  do 3 (apply andb_prop in F; destruct F as [F ?F]).
  apply nodupb_streqb_NoDup in F.
  unfold msh_okb in FM. destruct (slookup (unbs "MSH") (t_segments t)) as [r|] eqn:El; [|discriminate].
  pose proof (slookup_in _ _ _ El) as Hin.
  assert (W : wf_seg t (good_structs t) (unbs "MSH", r) = true).
  { apply (report_ok_seg t (unbs "MSH", r)); [exact (Oblig.WfAll.tables_of_wf v t Ht)|exact Hin|discriminate]. }
  destruct (wf_seg_rows_sound t F F1 (unbs "MSH") r W) as [srows [-> [_ [Hc Hrows]]]].
  destruct srows as [|r1 [|r2 rest]]; try discriminate.
  apply andb_prop in FM. destruct FM as [M1 M2].
  destruct (st_leafb_sound t r1 M1) as [i1 [R1 D1]]. destruct (st_leafb_sound t r2 M2) as [i2 [R2 D2]].
  exists (r1 :: r2 :: rest), r1, r2, i1, i2. repeat split; auto.
Qed.
