(* The table premise of Proofs/ValidateTotalMsg.v holds for every shipped version (one kernel-evaluated
   check over all regenerated tables), hence: Message.validate(return_errors=True) of a message that
   parse_message returned - either find_groups mode, both levels, every shipped version, whatever
   default version was used - returns a report. *)
From Coq Require Import List Bool Arith ZArith NArith Lia Init.Byte.
From HL7 Require Import Lib.Str Model.Ec Model.Result Model.Header Model.Ref Model.Tree Model.Parser Model.Encode
     Model.Leaf Model.MsgTree Model.Groups Model.Message Model.Validate Model.Wf.
From HL7 Require Import Gen.Params Gen.Tables.
From HL7 Require Import Proofs.RoundTripStr Proofs.RoundTripSeg Proofs.RoundTripTables Proofs.NoCrash Proofs.NoCrashTables
     Proofs.GroupsFacts Proofs.GroupsMirror Proofs.NoCrashGroupedCore Proofs.NoCrashGrouped
     Proofs.ValidateTotal Proofs.ValidateTotalTables Proofs.ValidateTotalMsg.
From HL7 Require Proofs.RoundTripMsg Proofs.RoundTripMsgTables Proofs.ConfigMsgFacts.
Import ListNotations.
Open Scope bs_scope.
Open Scope res_scope.

Lemma all_msg_tables_ok : forallb (fun p => msg_tables_ok (snd p)) all_tables = true.
Proof. vm_cast_no_check (@eq_refl bool true). Qed.

(* Message(name, ...): a named message carries the structure of its reference *)
Lemma new_message_shape lvl t e name m : Message.new_message lvl t e name = Ok m ->
  m_name m = None \/ exists st, m_st m = Some st /\ parse_structure t (st_reference st) = Ok st.
Proof.
  unfold Message.new_message. intros H. apply bind_ok in H. destruct H as (m1 & H1 & H).
  assert (E : m = m1).
  { destruct (opt_is_none (m_name m1) && is_strict lvl); [discriminate|].
    apply bind_ok in H. destruct H as (u1 & _ & H). apply bind_ok in H. destruct H as (u2 & _ & H). now injection H as <-. }
  subst m1. clear H. destruct name as [n0|]; [|injection H1 as <-; now left].
  right. cbv zeta in H1.
  assert (G : forall r, (do st <- parse_structure t r; Ok (mk_message (Some (upper n0)) (Some st) [])) = Ok m ->
              exists st, m_st m = Some st /\ parse_structure t (st_reference st) = Ok st).
  { intros r Hr. apply bind_ok in Hr. destruct Hr as (st & Hp & Hr). injection Hr as <-. exists st. split; [reflexivity|].
    now rewrite (proj2 (parse_structure_info t r st Hp)). }
  destruct (slookup (upper n0) (t_messages t)) as [r|]; [exact (G r H1)|].
  destruct (Groups.valid_z_message_name (Some n0)); [exact (G _ H1)|discriminate].
Qed.

(* C15, message level: every message parse_message returned is validated to a report: no exception of
   any kind leaves the validator.  lvl' and e' are the level and the delimiters the validator reads
   (those of the message when called as m.validate()); the statement holds for all of them. *)
Theorem shipped_parse_message_validates dflt lvl fg text t m lvl' e' :
  parse_message tables_of dflt lvl fg text = Ok (t, m) -> exists log, v_message t lvl' e' m = Ok log.
Proof.
  intros H.
  destruct (Proofs.ConfigMsgFacts.parse_message_parts _ _ _ _ _ _ H)
    as (e & structure & version & v & m0 & kids & Hinfo & Ev & Ht & Em & -> & Em0 & Hk).
  destruct (shipped_vt_premises v t Ht) as (Hst & Hvar & Hgf & Hgc & Hgs).
  pose proof (lookup_forallb (fun _ x => grp_tables_ok x) all_tables v t all_grp_tables_ok Ht) as H6. cbv beta in H6.
  assert (Hkeys : seg_keys_ok t = true) by (unfold grp_tables_ok in H6; apply andb_prop in H6; tauto).
  pose proof (lookup_forallb (fun _ x => msg_tables_ok x) all_tables v t all_msg_tables_ok Ht) as H7. cbv beta in H7.
  unfold msg_tables_ok in H7. apply andb_prop in H7. destruct H7 as [H7 Hnoz]. apply andb_prop in H7. destruct H7 as [Hmsgs Hgok].
  apply (v_message_total t Hst Hvar Hgf Hgc). unfold mok. cbn [m_name m_st m_children].
  assert (Hshape : m_name m0 = None \/ exists st, m_st m0 = Some st /\ parse_structure t (st_reference st) = Ok st).
  { destruct Em as [E0|E0]; exact (new_message_shape lvl t e _ m0 E0). }
  destruct Hshape as [Hn|(st & Est & Hp)]; [now left|right].
  exists st. split; [exact Est|]. split; [exact Hp|].
  assert (Hroot : st_reference st = empty_seq \/ exists k, In (k, st_reference st) (t_messages t)).
  { destruct Em as [E0|E0]; exact (Proofs.RoundTripMsgTables.new_message_root t lvl e _ m0 st E0 Est). }
  assert (Hclean : cleanb t (st_reference st) = true).
  { destruct Hroot as [->|(k & Hin)]; [reflexivity|]. rewrite forallb_forall in Hmsgs. exact (Hmsgs _ Hin). }
  split; [now apply cleanb_mref|].
  destruct Hk as [Hk|(st' & Est' & _ & Hk)].
  - exact (sp_inv anyx _ _ kids (flat_nok t Hst Hvar Hgf Hgc Hgs lvl e (leaf_enc v lvl e) (st_reference st)
                                  (pieces (lstrip text))) Hk).
  - rewrite Est in Est'. injection Est' as <-.
    destruct (root_gref t _ H6 Hroot) as [Hg Hd].
    exact (grouped_nok t Hst Hvar Hgf Hgc Hgs Hkeys Hnoz lvl e (leaf_enc v lvl e) (st_reference st) (lstrip text) kids
             Hg Hd Hgok Hclean Hk).
Qed.
Print Assumptions shipped_parse_message_validates.
