(* C15, "validate(return_errors=True) returns a report instead of raising", segment level.
   Every partial operation of Model/Validate.v is an explicit Err (Crash _) (malformed row, a
   complex datatype validated against a leaf reference, el.to_er7() of an MSH-1/MSH-2 field without
   children) and load_reference of a missing struct is Err (HL7 EChildNotFound).  This file shows
   that none of them is reachable when the validator runs on a segment that Model/Parser.v built
   from text: for EVERY text, both validation levels, every delimiter set and ANY leaf function,
       parse_segment t lvl e leaf text None = Ok s  ->  exists errs, validate_errors t e' s = Ok errs.
   The argument is an invariant on the parsed tree (`field_ok`, `comp_ok`, `sub_ok`): an element
   carries a complex datatype only if the reference the validator will hold against it (the row of
   its parent's reference that resolves to its name, or the table entry of its name) is the
   sequence-shaped reference it was built from; everything else carries None, a base datatype or
   'varies'.  The table premises (`gref`, `gseg`) are decided per shipped version by vm_compute in
   Proofs/ValidateTotalTables.v. *)
From Coq Require Import List Bool Arith ZArith NArith Lia Init.Byte.
From HL7 Require Import Lib.Str Model.Ec Model.Result Model.Ref Model.Tree Model.Parser Model.Encode
     Model.MsgTree Model.Validate Model.Wf.
From HL7 Require Import Proofs.RoundTripStr Proofs.RoundTripCore Proofs.RoundTripSeg Proofs.NoDrop Proofs.NoCrash.
Import ListNotations.
Open Scope bs_scope.
Open Scope res_scope.

(* partial correctness: NoCrash's outcome predicate with every exception acceptable *)
Definition anyx (_ : exn) : Prop := True.
Notation pc := (sp anyx).
Lemma anyxH c : anyx (HL7 c). Proof. exact I. Qed.

Lemma pc_and {A} (P Q : A -> Prop) r : pc P r -> pc Q r -> pc (fun a => P a /\ Q a) r.
Proof. destruct r as [a|x]; cbn; auto. Qed.
Lemma pc_eq {A} (r : result A) : pc (fun a => r = Ok a) r.
Proof. destruct r; cbn; auto. exact I. Qed.
(* `except InvalidName:` handler, the alternative may use the fact that the first attempt failed *)
Lemma pc_fallback {A} (P : A -> Prop) (f : unit -> result A) (alt : result A) :
  pc P (f tt) -> (f tt = Err (HL7 EInvalidName) -> pc P alt) ->
  pc P (match f tt with Err (HL7 EInvalidName) => alt | x => x end).
Proof. destruct (f tt) as [a|[[]| |k|]]; cbn; auto. Qed.

Lemma seq_res_total {A} (l : list (result (list A))) :
  (forall r, In r l -> exists a, r = Ok a) -> exists b, seq_res l = Ok b.
Proof.
  induction l as [|r l IH]; intros H; [now exists []|]. cbn [seq_res].
  destruct (H r (or_introl eq_refl)) as [a ->].
  destruct IH as [b ->]; [intros x Hx; apply H; now right|]. eauto.
Qed.

Lemma parse_structure_info t r st : parse_structure t r = Ok st -> st_info st = ref_info r /\ st_reference st = r.
Proof.
  unfold parse_structure. destruct r as [i|i|c cs oi|]; cbn [view_of ref_info].
  - intros H. injection H as <-. auto.
  - destruct (i_dt i) as [d|]; [|discriminate]. destruct (slookup d (t_structs t)) as [rows|]; [|discriminate].
    destruct (parse_children _ _ _ _ _ _) as [[[[o b] l] rp]|]; [|discriminate]. intros H. injection H as <-. auto.
  - destruct (parse_children _ _ _ _ _ _) as [[[[o b] l] rp]|]; [|discriminate]. intros H. injection H as <-. auto.
  - discriminate.
Qed.

Section VT.
Variable t : tables.
Notation base := (base t).

(* not complex: no datatype, a base datatype, or 'varies' *)
Definition ncx (dt : option str) : Prop := dt = None \/ base dt = true \/ is_varies dt = true.

Lemma dt_simple_ncx dt : dt_simple t dt -> ncx dt.
Proof. intros [H|H]; [now left|right; now left]. Qed.

(* ------------------------------------------------------------------ *)
(* table premises                                                       *)

(* a row of a datatype struct names a component of the component table *)
Definition crow (row : srow) : Prop :=
  exists n mn mx r, row = SByName CMP n mn mx /\ slookup n (t_components t) = Some r.
(* a field-level or component-level reference: a leaf without a complex datatype, or a datatype
   whose struct lists its components D_1 .. D_n by name *)
Definition gref (r : sref) : Prop :=
  match r with
  | SLeaf i => ncx (i_dt i)
  | SSeqDt i => exists d rows, i_dt i = Some d /\ d <> [] /\ upper d = d /\ base (Some d) = false /\
                  slookup d (t_structs t) = Some rows /\
                  rows_contiguous d CMP 1 rows = true /\ forall row, In row rows -> crow row
  | _ => False
  end.
Definition ogref (o : option sref) : Prop := match o with Some r => gref r | None => True end.

(* a row of a segment definition: the field table's entry of that name, or an inline reference where
   the table holds a leaf (the withdrawn-field rows of v2.6-v2.8) *)
Definition frow (row : srow) : Prop :=
  (exists n mn mx r, row = SByName FIE n mn mx /\ slookup n (t_fields t) = Some r) \/
  (exists n r mn mx, row = SIn FIE n r mn mx /\ gref r /\
                     forall r', slookup n (t_fields t) = Some r' -> exists i, r' = SLeaf i).
Definition gseg (n : str) (r : sref) : Prop :=
  exists rows, r = SSeqIn false rows None /\ length n = 3 /\
               rows_contiguous n FIE 1 rows = true /\ forall row, In row rows -> frow row.

Hypothesis Hst : base (Some (unbs "ST")) = true.
Hypothesis Hvar : base (Some (unbs "varies")) = false.
Hypothesis Hgf : forall n r, slookup n (t_fields t) = Some r -> gref r.
Hypothesis Hgc : forall n r, slookup n (t_components t) = Some r -> gref r.
Hypothesis Hgs : forall n r, length n <= 3 -> slookup n (t_segments t) = Some r -> gseg n r.

Lemma simple_not_varies dt : dt_simple t dt -> is_varies dt = false.
Proof.
  intros [->|H]; [reflexivity|]. destruct (is_varies dt) eqn:E; [|reflexivity].
  unfold is_varies in E. destruct dt as [d|]; [|discriminate]. cbn [opt_eqb] in E.
  apply streqb_eq in E. subst d. pose proof (eq_trans (eq_sym H) Hvar) as X. discriminate X.
Qed.

(* ------------------------------------------------------------------ *)
(* structures of good references                                        *)

Lemma row_entries_in' prefix k : forall rows a key en,
  In (key, en) (row_entries t prefix k a rows) ->
  exists j row, nth_error rows j = Some row /\ key = name_idx prefix (a + j) /\ row_ref t row = Some (se_ref en).
Proof.
  induction rows as [|x rows IH]; intros a key en H; [destruct H|]. cbn [row_entries] in H.
  destruct (row_ref t x) as [fr|] eqn:E; [|destruct H]. destruct H as [H|H].
  - injection H as <- <-. exists 0, x. rewrite Nat.add_0_r. auto.
  - destruct (IH _ _ _ H) as [j [row [Hn [Hk Hr]]]]. exists (S j), row. rewrite Nat.add_succ_r. auto.
Qed.

(* what _parse_structure gives for contiguous, resolved rows; every key comes from a row *)
Lemma rows_parse' r c rows info prefix k :
  view_of t r = VSeq c (map (row_view t) rows) info ->
  rows_contiguous prefix k 1 rows = true -> rows_resolved t rows ->
  exists st, parse_structure t r = Ok st /\ st_info st = info /\ rows_structure t prefix k rows st /\
    (forall key en, by_name st key = Some en ->
       exists j row, nth_error rows j = Some row /\ key = name_idx prefix (S j) /\ row_ref t row = Some (se_ref en)).
Proof.
  intros Hv Hc Hr. unfold parse_structure. rewrite Hv.
  destruct (parse_children_structure t prefix k rows r info Hc Hr) as [st [E [_ [Hi Hs]]]].
  pose proof E as E0.
  destruct (parse_children_contig t prefix k rows 1 [] [] [] [] [] Hc Hr) as [byl' [reps' E']]; [reflexivity|].
  rewrite E' in E |- *. cbn [rev app] in E |- *. injection E as <-.
  eexists. split; [reflexivity|]. split; [reflexivity|]. split; [exact Hs|].
  intros key en H. unfold by_name in H. cbn [st_by_name] in H.
  rewrite slookup_rev_nodup in H by (rewrite row_entries_keys by exact Hr; apply name_idx_NoDup).
  apply slookup_in in H. apply row_entries_in' in H. exact H.
Qed.

Lemma contiguous_nth prefix k : forall rows a j row, rows_contiguous prefix k a rows = true ->
  nth_error rows j = Some row -> exists k' mn mx, row_name row = Some (k', name_idx prefix (a + j), mn, mx) /\ k' = k.
Proof.
  induction rows as [|x rows IH]; intros a j row Hc Hn; [destruct j; discriminate|].
  cbn [rows_contiguous] in Hc. destruct (row_name x) as [[[[k' nm] mn] mx]|] eqn:E; [|discriminate].
  repeat (apply andb_prop in Hc; destruct Hc as [Hc ?Hc]).
  destruct j as [|j].
  - cbn in Hn. injection Hn as <-. apply kind_eqb_eq in Hc. apply streqb_eq in Hc3. subst. rewrite Nat.add_0_r. eauto.
  - cbn [nth_error] in Hn. rewrite Nat.add_succ_r. apply (IH (S a) j row Hc0 Hn).
Qed.

(* keys of a component-level structure are entries of the component table, upper case *)
Definition st_canC (st : structure) : Prop :=
  forall k en, by_name st k = Some en -> slookup k (t_components t) = Some (se_ref en) /\ upper k = k.
Definition ost_canC (o : option structure) : Prop := match o with Some st => st_canC st | None => True end.

Lemma crows_resolved rows : (forall row, In row rows -> crow row) -> rows_resolved t rows.
Proof. intros H x Hx. destruct (H x Hx) as [n [mn [mx [r [-> E]]]]]. cbn [row_ref table_of]. congruence. Qed.

Lemma leaf_structure' i : parse_structure t (SLeaf i) = Ok (mk_structure (SLeaf i) None [] [] [] (Some i)).
Proof. reflexivity. Qed.

Lemma gref_parse r : gref r ->
  exists st, parse_structure t r = Ok st /\ st_info st = ref_info r /\ st_reference st = r /\ st_canC st /\
    match r with
    | SSeqDt i => exists d rows, i_dt i = Some d /\ d <> [] /\ upper d = d /\ base (Some d) = false /\
                    slookup d (t_structs t) = Some rows /\
                    rows_structure t d CMP rows st /\ forall row, In row rows -> crow row
    | _ => st_ordered st = None
    end.
Proof.
  destruct r as [i|i|c cs oi|]; cbn [gref]; try tauto.
  - intros _. eexists. split; [apply leaf_structure'|]. split; [reflexivity|]. split; [reflexivity|]. split; [|reflexivity]. intros k0 en0 H. discriminate.
  - intros [d [rows [Hd [Hne [Hu [Hb [Hl [Hc Hrows]]]]]]]].
    destruct (rows_parse' (SSeqDt i) false rows (Some i) d CMP) as [st [Hp [Hi [Hs Hk]]]].
    + cbn [view_of]. now rewrite Hd, Hl.
    + exact Hc.
    + now apply crows_resolved.
    + exists st. split; [exact Hp|]. split; [exact Hi|]. split; [exact (proj2 (parse_structure_info t _ _ Hp))|].
      split; [|exists d, rows; repeat (split; [assumption|]); assumption].
      intros key en H. destruct (Hk key en H) as [j [row [Hn [-> Hr]]]].
      destruct (contiguous_nth d CMP rows 1 j row Hc Hn) as [k' [mn [mx [Hrn _]]]].
      destruct (Hrows row (nth_error_In _ _ Hn)) as [n [mn' [mx' [r' [-> E]]]]].
      cbn [row_name] in Hrn. injection Hrn as _ Hn' _ _. subst n. cbn [row_ref table_of] in Hr.
      split; [exact Hr|]. now rewrite name_idx_upper, Hu.
Qed.


(* ------------------------------------------------------------------ *)
(* the parser: what it builds (partial correctness, any leaf function)  *)

Lemma set_datatype_ctor_simple lvl is_sub old old_st new : dt_simple t new ->
  pc (fun p => p = (new, old_st)) (set_datatype_ctor t lvl is_sub old old_st new).
Proof.
  intros Hn. unfold set_datatype_ctor. destruct is_sub.
  - destruct (match new with Some n => _ | None => false end); [exact I|].
    destruct (_ && _ && _); [exact I|reflexivity].
  - destruct (is_strict lvl && _ && _); [exact I|].
    assert (C : negb (base new) && negb (is_varies new) && (match new with Some _ => true | None => false end) = false).
    { destruct Hn as [-> | Hb]; [reflexivity|]. now rewrite Hb. }
    rewrite C. cbn [andb]. reflexivity.
Qed.

(* a complex datatype only under the name whose table entry is that sequence *)
Definition cxn (tbl : list (str * sref)) (nm dt : option str) : Prop :=
  ncx dt \/ exists n i, nm = Some n /\ slookup n tbl = Some (SSeqDt i) /\ dt = i_dt i.
(* the reference handed to a constructor is the table entry of the name *)
Definition can_ref (tbl : list (str * sref)) (name : option str) (reference : option sref) : Prop :=
  forall r n, reference = Some r -> name = Some n -> slookup (upper n) tbl = Some r.

Lemma ncx_simple dt : dt_simple t dt -> ncx dt.
Proof. exact (dt_simple_ncx dt). Qed.

Lemma canbevaries_good lvl is_sub name datatype reference :
  dt_simple t datatype -> ogref reference -> can_ref (t_components t) name reference ->
  pc (fun p => ost_canC (snd p) /\ cxn (t_components t) (fst (fst p)) (snd (fst p)) /\
               (is_sub = true -> ncx (snd (fst p))))
     (canbevaries t lvl is_sub name datatype reference).
Proof.
  intros Hd Hr Hcan. unfold canbevaries.
  rewrite (simple_not_varies _ Hd). cbn [andb].
  assert (C : forall x, negb (is_strict lvl) && (match datatype with Some _ => true | None => false end)
                 && negb false && negb (base datatype) && x = false).
  { intros x. destruct Hd as [-> | Hb]; [now rewrite andb_false_r|]. rewrite Hb. cbn [negb]. now rewrite andb_false_r. }
  rewrite C. clear C. cbn [bind].
  apply (sp_bind anyx (fun p : option str * option structure =>
           fst p = option_map upper name /\ ost_canC (snd p) /\
           (snd p = None \/ exists r s, snd p = Some s /\ parse_structure t r = Ok s /\ gref r /\
                                        forall n, name = Some n -> slookup (upper n) (t_components t) = Some r))).
  - assert (G : forall r, gref r -> (forall n, name = Some n -> slookup (upper n) (t_components t) = Some r) ->
                forall nm, nm = option_map upper name ->
                pc (fun p : option str * option structure =>
                      fst p = option_map upper name /\ ost_canC (snd p) /\
                      (snd p = None \/ exists r s, snd p = Some s /\ parse_structure t r = Ok s /\ gref r /\
                         forall n, name = Some n -> slookup (upper n) (t_components t) = Some r))
                   (do s <- parse_structure t r; Ok (nm, Some s))).
    { intros r Hg Hn nm ->. destruct (gref_parse r Hg) as [s [Hp [_ [_ [Hc _]]]]]. rewrite Hp. cbn [bind]. cbn.
      split; [reflexivity|]. split; [exact Hc|]. right. exists r, s. auto. }
    destruct (valid_child_name name _).
    + destruct reference as [r|].
      * apply G; [exact Hr| |reflexivity]. intros n Hn. now apply Hcan.
      * cbn. auto.
    + destruct name as [n|].
      * unfold structure_for. destruct reference as [r|].
        -- pose proof (G r Hr (fun n0 Hn => Hcan r n0 eq_refl Hn) (Some (upper n)) eq_refl) as G'.
           destruct (parse_structure t r); exact G'.
        -- unfold load_reference. cbn [table_of]. destruct (slookup (upper n) (t_components t)) as [r|] eqn:E; [|exact I].
           assert (Hn : forall n0, Some n = Some n0 -> slookup (upper n0) (t_components t) = Some r).
           { intros n0 H0. injection H0 as <-. exact E. }
           pose proof (G r (Hgc _ _ E) Hn (Some (upper n)) eq_refl) as G'.
           destruct (parse_structure t r); exact G'.
      * destruct reference as [r|]; [|cbn; auto].
        apply G; [exact Hr| |reflexivity]. intros n Hn. discriminate.
  - intros [nm st] [Hnm [Hc Hst']]. cbn [fst snd] in Hnm, Hc, Hst'.
    set (dt0 := st_dt st).
    assert (H0 : ncx dt0 \/ exists i d, dt0 = i_dt i /\ i_dt i = Some d /\ d <> [] /\ base (Some d) = false /\
                                       forall n, name = Some n -> slookup (upper n) (t_components t) = Some (SSeqDt i)).
    { subst dt0. destruct Hst' as [->|[r [s [-> [Hp [Hg Hn]]]]]]; [left; now left|].
      destruct (parse_structure_info t r s Hp) as [Hi _]. unfold st_dt. rewrite Hi.
      destruct r as [i|i|c cs oi|]; cbn [gref] in Hg; [left; exact Hg| |destruct Hg|destruct Hg].
      destruct Hg as [d [rows [Hd' [Hne [_ [Hb _]]]]]]. right. exists i, d. cbn [ref_info]. auto. }
    clearbody dt0.
    match goal with |- sp _ _ (if ?b then _ else _) => destruct b eqn:C1; [exact I|] end.
    match goal with |- sp _ _ (if ?b then _ else _) => destruct b; [exact I|] end.
    assert (U : pc (fun p : option str * option str * option structure =>
                      ost_canC (snd p) /\ cxn (t_components t) (fst (fst p)) (snd (fst p)) /\ (is_sub = true -> ncx (snd (fst p))))
                   (do '(dt, st') <- set_datatype_ctor t lvl is_sub dt0 st datatype; Ok (dt, dt, st'))).
    { apply (sp_bind anyx (fun p => p = (datatype, st))); [now apply set_datatype_ctor_simple|].
      intros [dt st'] E. injection E as -> ->. cbn. split; [exact Hc|]. split; [left; now apply ncx_simple|].
      intros _. now apply ncx_simple. }
    destruct nm as [[|c n']|]; [exact U| |exact U].
    destruct (is_strict lvl && _ && _); [exact I|]. destruct datatype as [d|].
    + apply (sp_bind anyx (fun p => p = (Some d, st))); [now apply set_datatype_ctor_simple|].
      intros [dt st'] E. injection E as -> ->. cbn. split; [exact Hc|]. split; [left; now apply ncx_simple|].
      intros _. now apply ncx_simple.
    + cbn. split; [exact Hc|]. destruct H0 as [H0|[i [d [E0 [Ed [Hne [Hb Hn]]]]]]].
      * split; [now left|auto].
      * destruct name as [n|]; [|discriminate]. cbn [option_map] in Hnm. injection Hnm as Hnm.
        split.
        -- right. exists (c :: n'), i. rewrite Hnm. split; [reflexivity|]. split; [now apply Hn|exact E0].
        -- intros ->. cbn [andb] in C1. rewrite E0, Ed in C1. destruct d as [|c0 d]; [congruence|].
           rewrite <- Ed in C1. apply negb_false_iff in C1. right. left. rewrite E0. exact C1.
Qed.

Definition sub_ok (s : sub) : Prop := ncx (sc_dt s).
Definition comp_ok (c : comp) : Prop :=
  Forall sub_ok (c_children c) /\ cxn (t_components t) (c_name c) (c_dt c).

Section Parse.
Variable lvl : level.
Variable e : ec.
Variable leaf : option str -> str -> result str.

Lemma mk_subcomponent_good name datatype value reference :
  dt_simple t datatype -> ogref reference -> can_ref (t_components t) name reference ->
  pc sub_ok (mk_subcomponent t lvl leaf name datatype value reference).
Proof.
  intros Hd Hr Hc. unfold mk_subcomponent. destruct (_ && _); [exact I|].
  apply (sp_bind anyx (fun p : option str * option str * option structure =>
           ost_canC (snd p) /\ cxn (t_components t) (fst (fst p)) (snd (fst p)) /\ (true = true -> ncx (snd (fst p)))));
    [now apply canbevaries_good|].
  intros [[nm dt] st] [_ [_ H]]. cbn [fst snd] in H. specialize (H eq_refl).
  assert (H1 : ncx (if valid_child_name name (Some (unbs "VARIES")) && (match dt with None => true | _ => false end)
                    then Some (unbs "ST") else dt)).
  { destruct (_ && _); [right; left; exact Hst|exact H]. }
  destruct value as [|b v]; [exact H1|].
  apply (sp_bind anyx TT); [destruct (leaf _ _); exact I|]. intros x _. exact H1.
Qed.

Lemma mk_component_good name datatype reference :
  dt_simple t datatype -> ogref reference -> can_ref (t_components t) name reference ->
  pc (fun c => ost_canC (c_st c) /\ cxn (t_components t) (c_name c) (c_dt c) /\ c_children c = [])
     (mk_component t lvl name datatype reference).
Proof.
  intros Hd Hr Hc. unfold mk_component.
  apply (sp_bind anyx (fun p : option str * option str * option structure =>
           ost_canC (snd p) /\ cxn (t_components t) (fst (fst p)) (snd (fst p)) /\ (false = true -> ncx (snd (fst p)))));
    [now apply canbevaries_good|].
  intros [[nm dt] st] [H1 [H2 _]]. cbn [fst snd] in H1, H2. destruct (_ && _ && _ && _); [exact I|].
  cbn. auto.
Qed.

Lemma ref_in_canC st n r : ost_canC st -> ref_in st n = Some r ->
  slookup n (t_components t) = Some r /\ upper n = n.
Proof.
  unfold ref_in. destruct st as [s|]; [|discriminate]. cbn [ost_canC]. intros H.
  destruct (st_ordered s); [|discriminate]. destruct (by_name s n) as [en|] eqn:E; [|discriminate].
  cbn [option_map]. intros R. injection R as <-. exact (H n en E).
Qed.

Lemma parse_subcomponents_aux_good cdt st l : ost_canC st ->
  pc (Forall sub_ok) (parse_subcomponents_aux t lvl leaf cdt st l).
Proof.
  intros Hs. induction l as [|[i s] rest IH]; [constructor|]. cbn [parse_subcomponents_aux].
  assert (K : forall nm dt ref, dt_simple t dt -> ogref ref -> can_ref (t_components t) nm ref ->
    pc (Forall sub_ok)
       (if materialise s nm
        then do x <- mk_subcomponent t lvl leaf nm dt s ref;
             do xs <- parse_subcomponents_aux t lvl leaf cdt st rest; Ok (x :: xs)
        else parse_subcomponents_aux t lvl leaf cdt st rest)).
  { intros nm dt ref Hd Hr Hc. destruct (materialise s nm); [|exact IH].
    apply (sp_bind anyx sub_ok); [now apply mk_subcomponent_good|]. intros x Hx.
    apply (sp_bind anyx (Forall sub_ok)); [exact IH|]. intros xs Hxs. now constructor. }
  assert (N : forall nm, can_ref (t_components t) nm None) by (intros nm r n H; discriminate).
  destruct (base cdt || opt_is_none cdt) eqn:C; cbn beta iota.
  - apply K; [|exact I|apply N]. destruct cdt as [d|]; [|apply dt_simple_ST; exact Hst].
    right. cbn [opt_is_none] in C. now rewrite orb_false_r in C.
  - destruct (has_map st); cbn beta iota.
    + destruct (ref_in st (name_idx (str_of_opt cdt) i)) as [r|] eqn:R; cbn beta iota.
      * destruct (ref_in_canC st _ r Hs R) as [E U]. apply K; [apply dt_simple_none| |].
        -- exact (Hgc _ _ E).
        -- intros r' n H1 H2. injection H1 as <-. injection H2 as <-. now rewrite U.
      * apply K; [apply dt_simple_ST; exact Hst|exact I|apply N].
    + apply K; [apply dt_simple_none|exact I|apply N].
Qed.

Lemma parse_component_good text name datatype reference :
  dt_simple t datatype -> ogref reference -> can_ref (t_components t) name reference ->
  (reference <> None -> datatype = None) ->
  pc comp_ok (parse_component t lvl e leaf text name datatype reference).
Proof.
  intros Hd Hr Hc Hn. unfold parse_component.
  apply (sp_bind anyx (fun c => ost_canC (c_st c) /\ cxn (t_components t) (c_name c) (c_dt c) /\ c_children c = [])).
  - apply (pc_fallback _ (fun _ => mk_component t lvl name datatype reference)); [now apply mk_component_good|].
    intros _. destruct (is_strict lvl); [exact I|]. apply mk_component_good; [apply dt_simple_none|exact Hr|].
    intros r n H1 H2. rewrite Hn in H2 by congruence. discriminate.
  - intros c [Hs [Hx Hk]]. apply (sp_bind anyx (Forall sub_ok)); [now apply parse_subcomponents_aux_good|].
    intros kids Hkids. cbv zeta.
    eapply sp_post; [apply pc_eq|]. intros c' Ec _. apply add_subs_appends in Ec. destruct Ec as [E1 [E2 E3]].
    split.
    + rewrite E1. destruct (_ && _ && _); cbn [c_children]; rewrite Hk; exact Hkids.
    + rewrite E2, E3. destruct (_ && _ && _); cbn [c_name c_dt]; [left; now left|exact Hx].
Qed.

Lemma parse_components_aux_good fdt st l : ost_canC st ->
  pc (Forall comp_ok) (parse_components_aux t lvl e leaf fdt st l).
Proof.
  intros Hs. induction l as [|[i s] rest IH]; [constructor|]. cbn [parse_components_aux].
  assert (K : forall nm cdt ref, dt_simple t cdt -> ogref ref -> can_ref (t_components t) nm ref ->
    (ref <> None -> cdt = None) ->
    pc (Forall comp_ok)
       (if negb (is_blank s) || opt_is_none nm || (match nm with Some n => bstarts "VARIES_" n | None => false end)
        then do x <- parse_component t lvl e leaf s nm cdt ref;
             do xs <- parse_components_aux t lvl e leaf fdt st rest; Ok (x :: xs)
        else parse_components_aux t lvl e leaf fdt st rest)).
  { intros nm cdt ref Hd Hr Hc Hn. destruct (_ || _ || _); [|exact IH].
    apply (sp_bind anyx comp_ok); [now apply parse_component_good|]. intros x Hx.
    apply (sp_bind anyx (Forall comp_ok)); [exact IH|]. intros xs Hxs. now constructor. }
  assert (R : forall n, ogref (if has_map st then ref_in st n else None) /\
                        can_ref (t_components t) (Some n) (if has_map st then ref_in st n else None)).
  { intros n. destruct (has_map st); [|split; [exact I|intros r n' H; discriminate]].
    destruct (ref_in st n) as [r|] eqn:E; [|split; [exact I|intros r n' H; discriminate]].
    destruct (ref_in_canC st n r Hs E) as [E' U]. split; [exact (Hgc _ _ E')|].
    intros r' n' H1 H2. injection H1 as <-. injection H2 as <-. now rewrite U. }
  destruct (base fdt) eqn:B; cbn beta iota.
  - apply K; [now right|exact I|intros r n H; discriminate|congruence].
  - destruct (opt_is_none fdt || is_varies fdt); cbn beta iota;
      (apply K; [apply dt_simple_none|apply R|apply R|reflexivity]).
Qed.


(* ---------- fields ---------- *)

(* keys of a segment structure: upper case, good references, and the field table holds the same
   reference or a leaf *)
Definition st_canF (sst : structure) : Prop :=
  forall k en, by_name sst k = Some en ->
    upper k = k /\ gref (se_ref en) /\
    (slookup k (t_fields t) = Some (se_ref en) \/ forall r', slookup k (t_fields t) = Some r' -> exists i, r' = SLeaf i).

(* the reference the validator will hold against a field called n of a segment with structure sst *)
Definition vref (sst : structure) (n : str) : option sref :=
  match ref_in (Some sst) n with Some r => Some r | None => slookup n (t_fields t) end.

Definition fcx (sst : structure) (f : field) : Prop :=
  (ncx (f_dt f) /\ has_map (f_st f) = false) \/
  (exists n i st, f_name f = Some n /\ vref sst n = Some (SSeqDt i) /\ gref (SSeqDt i) /\ f_dt f = i_dt i /\
                  f_st f = Some st /\ parse_structure t (SSeqDt i) = Ok st).
Definition field_ok (sst : structure) (f : field) : Prop :=
  Forall comp_ok (f_children f) /\ enc_ok t f /\ fcx sst f /\ (f_name f = None -> f_dt f = None).

Definition fpre (name : option str) (reference : option sref) (f : field) : Prop :=
  f_children f = [] /\ ost_canC (f_st f) /\ field_named name f /\ (f_name f = None -> f_dt f = None) /\
  ((ncx (f_dt f) /\ has_map (f_st f) = false) \/
   (exists n0 i st, name = Some n0 /\ structure_for t FIE (upper n0) reference = Ok st /\ st_reference st = SSeqDt i /\
                    gref (SSeqDt i) /\ f_name f = Some (upper n0) /\ f_dt f = i_dt i /\ f_st f = Some st)).

Lemma gref_leaf_st r st : gref r -> parse_structure t r = Ok st ->
  st_canC st /\ st_info st = ref_info r /\ st_reference st = r /\
  match r with SSeqDt _ => True | _ => st_ordered st = None end.
Proof.
  intros Hg Hp. destruct (gref_parse r Hg) as [st' [Hp' [Hi [Hr [Hc Hm]]]]].
  rewrite Hp in Hp'. injection Hp' as <-. repeat (split; [assumption|]). destruct r; auto.
Qed.

Lemma mk_field_good name reference : ogref reference ->
  pc (fpre name reference) (mk_field t lvl name None reference).
Proof.
  intros Hr. unfold mk_field. destruct (_ && _ && _); [exact I|].
  change (is_varies None) with false. cbn [andb].
  destruct name as [n0|].
  - apply (sp_bind anyx (fun p : structure * option str =>
             (snd p = None /\ structure_for t FIE (upper n0) reference = Ok (fst p) /\ gref (st_reference (fst p)) /\
              parse_structure t (st_reference (fst p)) = Ok (fst p)) \/
             (snd p = Some (unbs "ST") /\
              parse_structure t (SLeaf (mk_info (Some (unbs "ST")) None None (-1))) = Ok (fst p)))).
    + destruct (structure_for t FIE (upper n0) reference) as [st|[c| |k|]] eqn:S; try exact I.
      * cbn. left. split; [reflexivity|]. split; [reflexivity|].
        unfold structure_for in S. destruct reference as [r|].
        -- destruct (parse_structure_info t r st S) as [_ E]. rewrite E. split; [exact Hr|exact S].
        -- unfold load_reference in S. cbn [table_of] in S.
           destruct (slookup (upper n0) (t_fields t)) as [r|] eqn:E0; [|discriminate].
           destruct (parse_structure_info t r st S) as [_ E]. rewrite E. split; [exact (Hgf _ _ E0)|exact S].
      * destruct c; try exact I. destruct (valid_z_field_name n0); [|exact I].
        rewrite Hst. cbn. right. split; reflexivity.
    + intros [st dt] HQ. cbn [fst snd] in HQ.
      destruct (_ && _ && _ && _); [exact I|].
      destruct dt as [d|].
      * destruct HQ as [[HQ _]|[HQ Hp]]; [discriminate|]. injection HQ as ->.
        apply (sp_bind anyx (fun p => p = (Some (unbs "ST"), Some st)));
          [apply set_datatype_ctor_simple; apply dt_simple_ST; exact Hst|].
        intros [dt st'] E. injection E as -> ->.
        assert (G : gref (SLeaf (mk_info (Some (unbs "ST")) None None (-1)))).
        { cbn [gref i_dt]. right. left. exact Hst. }
        destruct (gref_leaf_st _ st G Hp) as [Hc [_ [_ Ho]]].
        cbn. split; [reflexivity|]. split; [exact Hc|]. split; [right; now exists n0|].
        split; [discriminate|]. left. split; [right; left; exact Hst|]. unfold has_map; cbn [f_st]; now rewrite Ho.
      * destruct HQ as [[_ [S [Hg Hp]]]|[HQ _]]; [|discriminate].
        destruct (gref_leaf_st _ st Hg Hp) as [Hc [Hi [_ Ho]]].
        cbn. split; [reflexivity|]. split; [exact Hc|]. split; [right; now exists n0|].
        split; [discriminate|]. unfold st_dt. rewrite Hi.
        destruct (st_reference st) as [i|i|c cs oi|] eqn:Er; cbn [gref] in Hg; try tauto.
        -- left. cbn [ref_info]. split; [exact Hg|]. unfold has_map; cbn [f_st]; now rewrite Ho.
        -- right. exists n0, i, st. cbn [ref_info]. repeat (split; [reflexivity || assumption|]). reflexivity.
  - apply (sp_bind anyx (fun p => p = (@None str, @None structure)));
      [apply set_datatype_ctor_simple; apply dt_simple_none|].
    intros [dt st'] E. injection E as -> ->. cbn.
    split; [reflexivity|]. split; [exact I|]. split; [now left|]. split; [reflexivity|].
    left. split; [now left|reflexivity].
Qed.

Lemma structure_for_parsed k n reference st : structure_for t k n reference = Ok st ->
  parse_structure t (st_reference st) = Ok st.
Proof.
  unfold structure_for. destruct reference as [r|].
  - intros H. destruct (parse_structure_info t r st H) as [_ E]. now rewrite E.
  - unfold load_reference. destruct (slookup n (table_of t k)) as [r|]; [|discriminate].
    intros H. destruct (parse_structure_info t r st H) as [_ E]. now rewrite E.
Qed.

Lemma add_comps_st kids : forall f f', add_comps t lvl f kids = Ok f' -> f_st f' = f_st f.
Proof.
  induction kids as [|k rest IH]; intros f f' H; cbn [add_comps] in H.
  - now injection H as <-.
  - repeat match type of H with
           | (if ?b then _ else _) = _ => destruct b; try discriminate
           | bind ?r _ = _ => destruct r as [v|]; cbn [bind] in H; try discriminate
           end.
    apply IH in H. exact H.
Qed.

Lemma parse_field_good sst text name reference fv : ogref reference ->
  (forall n0 i st, name = Some n0 -> structure_for t FIE (upper n0) reference = Ok st ->
                   st_reference st = SSeqDt i -> vref sst (upper n0) = Some (SSeqDt i)) ->
  pc (fun f => field_ok sst f /\ field_named name f) (parse_field t lvl e leaf text name reference fv).
Proof.
  intros Hr Hv. unfold parse_field.
  apply (sp_bind anyx (fpre name reference)).
  - apply (pc_fallback _ (fun _ => mk_field t lvl name None reference)); [now apply mk_field_good|].
    intros _. destruct fv.
    + eapply sp_weaken; [|apply (mk_field_good name (Some varies_leaf)); exact (or_intror (or_intror eq_refl))].
      intros f [H1 [H2 [H3 [H4 H5]]]]. repeat (split; [assumption|]).
      destruct H5 as [H5|[n0 [i [st [_ [S [E _]]]]]]]; [now left|exfalso].
      cbn [structure_for] in S. injection S as <-. discriminate E.
    + eapply sp_weaken; [|apply (mk_field_good None reference Hr)].
      intros f [H1 [H2 [H3 [H4 H5]]]]. split; [assumption|]. split; [assumption|].
      assert (N : f_name f = None) by (destruct H3 as [H3|[n [H3 _]]]; [exact H3|discriminate]).
      split; [now left|]. split; [assumption|].
      destruct H5 as [H5|[n0 [i [st [H5 _]]]]]; [now left|discriminate].
  - intros f [Hk [Hs [Hn [Hu Hx]]]]. destruct (is_msh12 name) eqn:M.
    + apply (sp_bind anyx sub_ok);
        [apply mk_subcomponent_good; [apply dt_simple_ST; exact Hst|exact I|intros r n H; discriminate]|].
      intros s Hsub.
      apply (sp_bind anyx (fun c => ost_canC (c_st c) /\ cxn (t_components t) (c_name c) (c_dt c) /\ c_children c = []));
        [apply mk_component_good; [apply dt_simple_ST; exact Hst|exact I|intros r n H; discriminate]|].
      intros c0 [_ [Hx0 Hk0]].
      apply (sp_bind_eq anyx TT); [destruct (add_subs _ _ _ _); exact I|]. intros c Ec _.
      eapply sp_post; [apply pc_eq|]. intros f' Ef _.
      pose proof (add_comps_st _ _ _ Ef) as Est.
      apply add_comps_appends in Ef. destruct Ef as [E1 [E2 E3]].
      apply add_subs_appends in Ec. destruct Ec as [E4 [E5 E6]].
      assert (Hn' : field_named name f').
      { destruct Hn as [Hn|[n [Hn1 Hn2]]]; [left; congruence|right; exists n; split; congruence]. }
      split; [|exact Hn']. split; [|split; [|split]].
      * rewrite E1, Hk. cbn [app]. constructor; [|constructor]. split.
        -- rewrite E4, Hk0. cbn [app]. constructor; [exact Hsub|constructor].
        -- rewrite E5, E6. exact Hx0.
      * intros e'. unfold enc_field. rewrite E1, Hk. cbn [app]. rewrite E4.
        destruct (opt_eqb (f_name f') _ || _); [destruct (c_children c0); cbn [app]; eauto|].
        destruct (is_varies (f_dt f')); [eauto|]. destruct (base (f_dt f') || opt_is_none (f_dt f')); eauto.
      * destruct Hx as [[Hx1 Hx2]|[n0 [i [st [Hx1 [Hx2 [Hx3 [Hg [Hx4 [Hx5 Hx6]]]]]]]]]].
        -- left. rewrite E3, Est. auto.
        -- right. exists (upper n0), i, st. rewrite E2, E3, Est.
           pose proof (structure_for_parsed _ _ _ _ Hx2) as P. rewrite Hx3 in P.
           repeat (split; [first [assumption | now apply (Hv n0 i st)]|]). exact P.
      * intros N. rewrite E3. apply Hu. congruence.
    + apply (sp_bind anyx (Forall comp_ok)); [now apply parse_components_aux_good|]. intros kids Hkids.
      cbv zeta. eapply sp_post; [apply pc_eq|]. intros f' Ef _.
      pose proof (add_comps_st _ _ _ Ef) as Est.
      apply add_comps_appends in Ef. destruct Ef as [E1 [E2 E3]].
      assert (E : f_name f' = f_name f) by (rewrite E2; now destruct (_ && _ && _)).
      assert (Hn' : field_named name f').
      { destruct Hn as [Hn|[n [Hn1 Hn2]]]; [left; congruence|right; exists n; split; congruence]. }
      split; [|exact Hn']. split; [|split; [|split]].
      * rewrite E1. destruct (_ && _ && _); cbn [f_children]; rewrite Hk; exact Hkids.
      * apply enc_ok_not_msh. now apply (field_named_not_msh name).
      * destruct Hx as [[Hx1 Hx2]|[n0 [i [st [Hx1 [Hx2 [Hx3 [Hg [Hx4 [Hx5 Hx6]]]]]]]]]].
        -- left. rewrite E3, Est. destruct (_ && _ && _); cbn [f_dt f_st]; [split; [now left|exact Hx2]|auto].
        -- right. exists (upper n0), i, st.
           pose proof (structure_for_parsed _ _ _ _ Hx2) as P. rewrite Hx3 in P.
           assert (B : base (f_dt f) = false).
           { rewrite Hx5. cbn [gref] in Hg. destruct Hg as [d [rows [Hd [_ [_ [Hb _]]]]]]. now rewrite Hd. }
           rewrite E, E3, Est, B, andb_false_r. cbn [andb f_dt f_st].
           repeat (split; [first [assumption | now apply (Hv n0 i st)]|]). exact P.
      * intros N. rewrite E3. destruct (_ && _ && _); cbn [f_dt]; [reflexivity|]. apply Hu. congruence.
Qed.


(* ---------- parse_fields ---------- *)
Definition fld_named (P : str) (f : field) : Prop :=
  f_name f = None \/ exists i, f_name f = Some (name_idx P i).

Lemma parse_reps_good sst reps name reference fv : ogref reference ->
  (forall n0 i st, name = Some n0 -> structure_for t FIE (upper n0) reference = Ok st ->
                   st_reference st = SSeqDt i -> vref sst (upper n0) = Some (SSeqDt i)) ->
  pc (Forall (fun f => field_ok sst f /\ field_named name f)) (parse_reps t lvl e leaf reps name reference fv).
Proof.
  intros Hr Hv. induction reps as [|r rest IH]; [constructor|]. cbn [parse_reps].
  apply (sp_bind anyx (fun f => field_ok sst f /\ field_named name f)); [now apply parse_field_good|]. intros x Hx.
  apply (sp_bind anyx (Forall (fun f => field_ok sst f /\ field_named name f))); [exact IH|]. intros xs Hxs.
  now constructor.
Qed.

Lemma ref_in_by_name sst n r : ref_in (Some sst) n = Some r -> exists en, by_name sst n = Some en /\ se_ref en = r.
Proof.
  unfold ref_in. destruct (st_ordered sst); [|discriminate]. destruct (by_name sst n) as [en|]; [|discriminate].
  cbn. intros H. injection H as <-. eauto.
Qed.

Lemma parse_fields_aux_good prefix sst fv l : st_canF sst ->
  pc (Forall (fun f => field_ok sst f /\ fld_named (upper prefix) f))
     (parse_fields_aux t lvl e leaf prefix (Some sst) fv l).
Proof.
  intros Hs. induction l as [|[i f] rest IH]; [constructor|]. cbn [parse_fields_aux].
  set (name := name_idx prefix i).
  set (ref := if has_map (Some sst) then ref_in (Some sst) name else None).
  assert (R : ogref ref).
  { subst ref. destruct (has_map (Some sst)); [|exact I]. destruct (ref_in (Some sst) name) as [r|] eqn:E; [|exact I].
    destruct (ref_in_by_name _ _ _ E) as [en [B <-]]. exact (proj1 (proj2 (Hs _ _ B))). }
  assert (V : forall n0 i0 st, Some name = Some n0 -> structure_for t FIE (upper n0) ref = Ok st ->
                st_reference st = SSeqDt i0 -> vref sst (upper n0) = Some (SSeqDt i0)).
  { intros n0 i0 st E0 S Er. injection E0 as <-. unfold structure_for in S.
    destruct ref as [r|] eqn:Eref.
    - subst ref. destruct (has_map (Some sst)); [|discriminate].
      destruct (ref_in_by_name _ _ _ Eref) as [en [B Een]].
      destruct (Hs _ _ B) as [U _]. rewrite U. unfold vref. rewrite Eref.
      destruct (parse_structure_info t r st S) as [_ E1]. congruence.
    - unfold load_reference in S. cbn [table_of] in S.
      destruct (slookup (upper name) (t_fields t)) as [r|] eqn:E0; [|discriminate].
      destruct (parse_structure_info t r st S) as [_ E1]. rewrite Er in E1. subst r.
      unfold vref. destruct (ref_in (Some sst) (upper name)) as [r''|] eqn:E2; [|exact E0].
      destruct (ref_in_by_name _ _ _ E2) as [en [B <-]].
      destruct (Hs _ _ B) as [_ [_ [H|H]]]; [congruence|].
      destruct (H _ E0) as [i' Hi']. discriminate. }
  assert (W : forall reps fv', pc (Forall (fun f => field_ok sst f /\ fld_named (upper prefix) f))
                (parse_reps t lvl e leaf reps (Some name) ref fv')).
  { intros reps fv'. eapply sp_weaken; [|apply (parse_reps_good sst reps _ ref fv' R V)].
    intros fs. apply Forall_impl. intros x [Hx [Hn|[n [Hn Hn']]]]; (split; [exact Hx|]); [now left|].
    right. exists i. injection Hn as <-. subst name. now rewrite <- name_idx_upper. }
  apply (sp_bind anyx (Forall (fun f => field_ok sst f /\ fld_named (upper prefix) f))).
  - destruct (negb (is_blank f)).
    + destruct (streqb _ _); apply W.
    + destruct (streqb _ _); [apply W|constructor].
  - intros here Hh. apply (sp_bind anyx (Forall (fun f => field_ok sst f /\ fld_named (upper prefix) f))); [exact IH|].
    intros xs Hxs. cbn. apply Forall_app. now split.
Qed.

End Parse.

(* ---------- Segment(name) ---------- *)
Lemma frows_resolved rows : (forall row, In row rows -> frow row) -> rows_resolved t rows.
Proof.
  intros H x Hx. destruct (H x Hx) as [[n [mn [mx [r [-> E]]]]]|[n [r [mn [mx [-> _]]]]]]; cbn [row_ref table_of]; congruence.
Qed.

Lemma gseg_parse n r : gseg n r -> upper n = n ->
  exists sst rows, r = SSeqIn false rows None /\ parse_structure t r = Ok sst /\ st_canF sst /\
    rows_structure t n FIE rows sst /\ (forall row, In row rows -> frow row) /\ length n = 3 /\
    rows_contiguous n FIE 1 rows = true.
Proof.
  intros [rows [-> [H3 [Hc Hrows]]]] Hu.
  destruct (rows_parse' (SSeqIn false rows None) false rows None n FIE eq_refl Hc (frows_resolved rows Hrows))
    as [sst [Hp [_ [Hs Hk]]]].
  exists sst, rows. repeat (split; [reflexivity || assumption|]). split; [|auto].
  intros key en H. destruct (Hk key en H) as [j [row [Hn [-> Hr]]]].
  split; [now rewrite name_idx_upper, Hu|].
  destruct (contiguous_nth n FIE rows 1 j row Hc Hn) as [k' [mn [mx [Hrn _]]]].
  destruct (Hrows row (nth_error_In _ _ Hn)) as [[m [mn' [mx' [r' [-> E]]]]]|[m [r' [mn' [mx' [-> [Hg Hl]]]]]]];
    cbn [row_name] in Hrn; injection Hrn as _ Hm _ _; subst m; cbn [row_ref table_of] in Hr.
  - split; [|left; exact Hr]. rewrite Hr in E. injection E as <-. exact (Hgf _ _ Hr).
  - injection Hr as <-. split; [exact Hg|right; exact Hl].
Qed.

Definition empty_st : structure := mk_structure empty_seq (Some []) [] [] [] None.

Definition seg_pre (name : str) (s : seg) : Prop :=
  s_children s = [] /\ s_name s = upper name /\ st_canF (s_st s) /\ length name = 3 /\
  ((valid_z_segment_name name = true /\ s_st s = empty_st) \/
   (valid_z_segment_name name = false /\ exists rows,
      st_reference (s_st s) = SSeqIn false rows None /\
      rows_structure t (upper name) FIE rows (s_st s) /\ (forall row, In row rows -> frow row) /\
      rows_contiguous (upper name) FIE 1 rows = true)).

Lemma mk_segment_good name : length name <= 3 -> pc (seg_pre name) (mk_segment t name None).
Proof.
  intros Hlen. unfold mk_segment. destruct (valid_z_segment_name name) eqn:Z.
  - change (parse_structure t empty_seq) with (Ok empty_st). cbn [bind]. cbn.
    split; [reflexivity|]. split; [reflexivity|]. split; [intros k en H; discriminate|].
    split; [now apply z_name_length|]. now left.
  - unfold structure_for, load_reference. cbn [table_of].
    destruct (slookup (upper name) (t_segments t)) as [r|] eqn:E; [|exact I].
    assert (G : gseg (upper name) r) by (apply Hgs; [now rewrite upper_length|exact E]).
    destruct (gseg_parse _ _ G (upper_idem name)) as [sst [rows [-> [Hp [Hs [Hrs [Hrows [H3 Hc]]]]]]]].
    rewrite upper_length in H3.
    rewrite Hp. cbn [bind].
    assert (Q : forall inf la l, seg_pre name (mk_seg (upper name) sst inf la l [])).
    { intros inf la l. cbn. split; [reflexivity|]. split; [reflexivity|]. split; [exact Hs|]. split; [exact H3|].
      right. split; [exact Z|]. exists rows. destruct (parse_structure_info t _ _ Hp) as [_ Er]. auto. }
    destruct (st_ordered sst) as [ord|]; [|apply Q].
    destruct (last_opt ord) as [lastk|]; [|apply Q].
    destruct (by_name sst lastk) as [en|]; [|exact I].
    destruct (py_int_ok _); [apply Q|exact I].
Qed.


(* ------------------------------------------------------------------ *)
(* the validator on such trees                                          *)

Lemma check_seq_total {A} (nm : A -> option str) isz resolve vkid pname kids rows :
  (forall row, In row rows -> row <> None) ->
  (forall vc n k, In (Some vc) rows -> resolve (vc_name vc) = Some n -> In k kids -> is_named nm n k = true ->
       exists l, vkid (Some (vc_ref vc)) k = Ok l) ->
  (forall k, In k kids -> isz k = true -> exists l, vkid None k = Ok l) ->
  exists l, check_seq nm isz resolve vkid pname kids rows = Ok l.
Proof.
  intros Hrows Hk Hz. unfold check_seq.
  match goal with |- context [seq_res (map ?f rows)] => destruct (seq_res_total (map f rows)) as [a Ea] end.
  { intros r Hr. apply in_map_iff in Hr. destruct Hr as [row [<- Hrow]].
    destruct row as [vc|]; [|exfalso; exact (Hrows None Hrow eq_refl)].
    cbn [check_row]. destruct (resolve (vc_name vc)) as [n|] eqn:R; [|eauto].
    match goal with |- context [seq_res (map ?f kids)] => destruct (seq_res_total (map f kids)) as [b Eb] end.
    { intros r Hr. apply in_map_iff in Hr. destruct Hr as [k [<- Hkk]].
      destruct (is_named nm n k) eqn:N; [|eauto]. exact (Hk vc n k Hrow R Hkk N). }
    rewrite Eb. cbn [bind]. eauto. }
  rewrite Ea. cbn [bind].
  match goal with |- context [seq_res (map ?f kids)] => destruct (seq_res_total (map f kids)) as [z Ez] end.
  { intros r Hr. apply in_map_iff in Hr. destruct Hr as [k [<- Hkk]]. destruct (isz k) eqn:Zk; [|eauto]. exact (Hz k Hkk Zk). }
  rewrite Ez. cbn [bind]. eauto.
Qed.

Lemma check_leaf_total pname name dt enc i : ncx dt -> (exists s, enc = Ok s) ->
  exists l, check_leaf t pname name dt enc i = Ok l.
Proof.
  intros Hd [s ->]. unfold check_leaf.
  assert (K : forall w, exists l,
     (if is_varies dt then Ok w else
      let d := if opt_eqb dt (i_dt i) then [] else [VE (WrongDatatype pname name dt)] in
      match dt with
      | Some dn => if base dt then Ok (w ++ d) else
                   match slookup dn (t_structs t) with
                   | None => Err (HL7 EChildNotFound)
                   | Some rows => if Nat.leb (length rows) 4 then Err (Crash IndexError) else Err (Crash TypeError)
                   end
      | None => Ok (w ++ d)
      end) = Ok l).
  { intros w. destruct (is_varies dt) eqn:V; [eauto|]. cbv zeta.
    destruct Hd as [->|[Hb|Hv]]; [eauto| |congruence]. destruct dt as [dn|]; [rewrite Hb; eauto|eauto]. }
  destruct (-1 <? i_maxlen i)%Z; cbn [bind]; apply K.
Qed.

Lemma crow_view rows vc : (forall row, In row rows -> crow row) -> In (Some vc) (map (row_view t) rows) ->
  slookup (vc_name vc) (t_components t) = Some (vc_ref vc) /\ exists row, In row rows /\ row_view t row = Some vc.
Proof.
  intros H Hin. apply in_map_iff in Hin. destruct Hin as [row [Hv Hrow]].
  destruct (H row Hrow) as [n [mn [mx [r [-> E]]]]]. cbn [row_view table_of] in Hv. rewrite E in Hv.
  injection Hv as <-. cbn. split; [exact E|]. exists (SByName CMP n mn mx). split; [exact Hrow|]. cbn [row_view table_of]. now rewrite E.
Qed.
Lemma crow_views_some rows : (forall row, In row rows -> crow row) ->
  forall o, In o (map (row_view t) rows) -> o <> None.
Proof.
  intros H o Hin. apply in_map_iff in Hin. destruct Hin as [row [<- Hrow]].
  destruct (H row Hrow) as [n [mn [mx [r [-> E]]]]]. cbn [row_view table_of]. now rewrite E.
Qed.

Section Val.
Variable e : ec.

Lemma v_sub_total pname ro s : sub_ok s -> ogref ro -> exists l, v_sub t pname ro s = Ok l.
Proof.
  intros Hs Hr. unfold v_sub. destruct (sub_unknown s); [eauto|].
  destruct (ref_or_load (t_components t) (sc_name s) ro) as [r|] eqn:R; [|eauto].
  assert (G : gref r).
  { unfold ref_or_load in R. destruct ro as [r0|]; [injection R as <-; exact Hr|].
    destruct (sc_name s) as [n|]; [|discriminate]. exact (Hgc _ _ R). }
  destruct r as [i|i|c cs oi|]; cbn [gref] in G; try tauto.
  - cbn [view_of]. apply check_leaf_total; [exact Hs|eauto].
  - destruct G as [d [rows [Hd [_ [_ [_ [Hl [_ Hrows]]]]]]]]. cbn [view_of]. rewrite Hd, Hl.
    apply check_seq_total.
    + now apply crow_views_some.
    + intros vc n k _ _ [].
    + intros k [].
Qed.

Lemma v_comp_total pname ro c : comp_ok c ->
  (forall r, ref_or_load (t_components t) (c_name c) ro = Some r -> gref r /\ (ncx (c_dt c) \/ exists i, r = SSeqDt i)) ->
  exists l, v_comp t e pname ro c = Ok l.
Proof.
  intros [Hk _] Hr. unfold v_comp. destruct (comp_unknown c); [eauto|].
  destruct (ref_or_load (t_components t) (c_name c) ro) as [r|] eqn:R; [|eauto].
  destruct (Hr r eq_refl) as [G Hx].
  destruct r as [i|i|c0 cs oi|]; cbn [gref] in G; try tauto.
  - cbn [view_of]. apply check_leaf_total; [|eauto]. destruct Hx as [Hx|[i' Hx]]; [exact Hx|discriminate].
  - destruct G as [d [rows [Hd [_ [_ [_ [Hl [_ Hrows]]]]]]]]. cbn [view_of]. rewrite Hd, Hl.
    unfold comp_seq. apply check_seq_total.
    + now apply crow_views_some.
    + intros vc n k Hvc _ Hin _. apply v_sub_total.
      * rewrite Forall_forall in Hk. now apply Hk.
      * destruct (crow_view rows vc Hrows Hvc) as [E _]. exact (Hgc _ _ E).
    + intros k _ Hf. discriminate.
Qed.

(* against the component table's entry of its own name *)
Lemma v_comp_own pname ro c : comp_ok c ->
  (forall n, c_name c = Some n -> ref_or_load (t_components t) (Some n) ro = slookup n (t_components t)) ->
  (c_name c = None -> ro = None) ->
  exists l, v_comp t e pname ro c = Ok l.
Proof.
  intros Hc Hn Hu. apply v_comp_total; [exact Hc|]. intros r R.
  destruct (c_name c) as [n|] eqn:N.
  - rewrite (Hn n eq_refl) in R. split; [exact (Hgc _ _ R)|].
    destruct Hc as [_ [Hx|[m [i [Hm [Hl _]]]]]]; [now left|]. rewrite N in Hm. injection Hm as <-. right. exists i. congruence.
  - rewrite (Hu eq_refl) in R. discriminate.
Qed.

(* Field.find_child_reference on a declared component name gives that name back *)
Lemma resolve_field_canon f cname n : upper cname = cname ->
  (has_map (f_st f) = false \/
   exists st x, f_st f = Some st /\ has_map (Some st) = true /\ by_name st cname = Some x /\ se_name x = cname) ->
  resolve_field t f cname = Some n -> n = cname.
Proof.
  intros Hu Hs. unfold resolve_field. destruct (has_named c_name (f_children f) cname); [intros H; injection H as <-; exact Hu|].
  rewrite Hu. destruct (base (f_dt f)).
  - destruct (opt_eqb (Some cname) (f_dt f)) eqn:E; [|discriminate].
    destruct (f_dt f) as [x|]; [|discriminate]. cbn [opt_eqb] in E. apply streqb_eq in E. subst x.
    cbn. intros H. injection H as <-. exact Hu.
  - destruct (is_varies (f_dt f) && _); [cbn; intros H; injection H as <-; exact Hu|].
    unfold find_complex, struct_hit. destruct Hs as [Hs|[st [x [Hs [Hm [Hb Hx]]]]]].
    + destruct (f_st f) as [st|]; [rewrite Hs|]; cbn [negb andb];
        (destruct (known_component t cname); cbn [andb option_map]; [|discriminate]);
        intros H; injection H as <-; exact Hu.
    + rewrite Hs, Hm, Hb. cbn [option_map]. rewrite Hx. intros H. injection H as <-. exact Hu.
Qed.

Lemma field_seq_total f d rows : Forall comp_ok (f_children f) -> upper d = d ->
  rows_contiguous d CMP 1 rows = true -> (forall row, In row rows -> crow row) ->
  (has_map (f_st f) = false \/ exists st, f_st f = Some st /\ rows_structure t d CMP rows st) ->
  exists l, field_seq t e f (map (row_view t) rows) = Ok l.
Proof.
  intros Hk Hu Hc Hrows Hs. unfold field_seq. apply check_seq_total.
  - now apply crow_views_some.
  - intros vc n k Hvc Hres Hin Hnamed.
    destruct (crow_view rows vc Hrows Hvc) as [E [row [Hrow Hv]]].
    apply In_nth_error in Hrow. destruct Hrow as [j Hj].
    destruct (contiguous_nth d CMP rows 1 j row Hc Hj) as [k' [mn [mx [Hrn _]]]].
    destruct (Hrows row (nth_error_In _ _ Hj)) as [m [mn' [mx' [r' [-> E']]]]].
    cbn [row_name] in Hrn. injection Hrn as _ Hm _ _. subst m.
    cbn [row_view table_of] in Hv. rewrite E' in Hv. injection Hv as <-. cbn [vc_name vc_ref] in *.
    assert (Un : upper (name_idx d (1 + j)) = name_idx d (1 + j)) by (now rewrite name_idx_upper, Hu).
    assert (En : n = name_idx d (1 + j)).
    { apply (resolve_field_canon f _ n Un); [|exact Hres].
      destruct Hs as [Hs|[st [Hs Hrs]]]; [now left|right].
      destruct Hrs as [Ho Hb _]. exists st, (mk_sentry (name_idx d (S j)) r' CMP).
      split; [exact Hs|]. split; [unfold has_map; now rewrite Ho|]. split; [|reflexivity].
      apply (Hb j _ r' Hj). cbn [row_ref table_of]. exact E'. }
    subst n. apply v_comp_total; [rewrite Forall_forall in Hk; now apply Hk|].
    intros r R. cbn [ref_or_load] in R. injection R as <-. split; [exact (Hgc _ _ E')|].
    rewrite Forall_forall in Hk. destruct (Hk k Hin) as [_ [Hx|[m [i [Hm [Hl _]]]]]]; [now left|].
    unfold is_named in Hnamed. rewrite Hm in Hnamed. cbn [opt_eqb] in Hnamed. apply streqb_eq in Hnamed. subst m.
    right. exists i. pose proof (eq_trans (eq_sym E') Hl) as X. injection X as X. exact X.
  - intros k _ Hf. discriminate.
Qed.

Lemma fcx_struct sst f : fcx sst f -> forall i, gref (SSeqDt i) ->
  (exists n, f_name f = Some n /\ vref sst n = Some (SSeqDt i)) ->
  forall d rows, i_dt i = Some d -> slookup d (t_structs t) = Some rows ->
  has_map (f_st f) = false \/ exists st, f_st f = Some st /\ rows_structure t d CMP rows st.
Proof.
  intros [[_ H]|[n [i' [st [Hn [Hv [Hg [_ [Hs Hp]]]]]]]]] i _ [n' [Hn' Hv']] d rows Hd Hl; [now left|right].
  rewrite Hn in Hn'. injection Hn' as <-. rewrite Hv in Hv'. injection Hv' as <-.
  destruct (gref_parse _ Hg) as [st' [Hp' [_ [_ [_ [d' [rows' [Hd' [_ [_ [_ [Hl' [Hrs _]]]]]]]]]]]]].
  rewrite Hp in Hp'. injection Hp' as <-. rewrite Hd in Hd'. injection Hd' as <-. rewrite Hl in Hl'. injection Hl' as <-.
  eauto.
Qed.

Lemma v_field_total sst pname ro f n : st_canF sst -> field_ok sst f -> f_name f = Some n ->
  ref_or_load (t_fields t) (Some n) ro = vref sst n ->
  exists l, v_field t e pname ro f = Ok l.
Proof.
  intros Hs [Hk [He [Hx Hu]]] Hn HR. unfold v_field. destruct (field_unknown f); [eauto|].
  assert (Kids : exists y, seq_res (map (v_comp t e (f_name f) None) (f_children f)) = Ok y).
  { apply seq_res_total. intros r Hr. apply in_map_iff in Hr. destruct Hr as [c [<- Hc]].
    rewrite Forall_forall in Hk. apply v_comp_own; [now apply Hk|reflexivity|reflexivity]. }
  assert (G : forall r, vref sst n = Some r -> gref r).
  { intros r. unfold vref. destruct (ref_in (Some sst) n) as [r0|] eqn:E.
    - intros H. injection H as <-. destruct (ref_in_by_name _ _ _ E) as [en [B <-]]. exact (proj1 (proj2 (Hs _ _ B))).
    - intros H. exact (Hgf _ _ H). }
  destruct (field_is_z f) eqn:Zf.
  - unfold check_z_field. destruct (base (f_dt f) || is_varies (f_dt f)) eqn:B; [eauto|].
    apply orb_false_elim in B. destruct B as [B1 B2].
    destruct Kids as [y Ey]. rewrite Ey.
    destruct (f_dt f) as [d|] eqn:Ed; [|cbn [bind]; eauto].
    destruct Hx as [[[Hx|[Hx|Hx]] _]|[n' [i [st [Hn' [Hv [Hg [Hd [Hst' Hp]]]]]]]]]; [congruence|congruence|congruence|].
    pose proof Hg as Hg'. cbn [gref] in Hg'. destruct Hg' as [d' [rows [Hd' [_ [Hup [_ [Hl [Hc Hrows]]]]]]]].
    assert (Edd : Some d' = Some d) by congruence. injection Edd as ->. rewrite Hl.
    destruct (field_seq_total f d rows Hk Hup Hc Hrows) as [x Ex].
    { right. exists st. split; [exact Hst'|].
      destruct (gref_parse _ Hg) as [st' [Hp' [_ [_ [_ [d2 [rows2 [Hd2 [_ [_ [_ [Hl2 [Hrs _]]]]]]]]]]]]].
      rewrite Hp in Hp'. injection Hp' as <-. rewrite Hd' in Hd2. injection Hd2 as <-. rewrite Hl in Hl2. injection Hl2 as <-.
      exact Hrs. }
    rewrite Ex. cbn [bind]. eauto.
  - rewrite Hn, HR. destruct (vref sst n) as [r|] eqn:V; [|eauto].
    pose proof (G r eq_refl) as Gr.
    destruct r as [i|i|c0 cs oi|]; cbn [gref] in Gr; try tauto.
    + cbn [view_of]. apply check_leaf_total; [|apply He].
      destruct Hx as [[Hx _]|[n' [i' [st [Hn' [Hv _]]]]]]; [exact Hx|].
      rewrite Hn in Hn'. injection Hn' as <-. rewrite V in Hv. discriminate.
    + pose proof Gr as Gr'. destruct Gr' as [d [rows [Hd [_ [Hup [_ [Hl [Hc Hrows]]]]]]]]. cbn [view_of]. rewrite Hd, Hl.
      apply (field_seq_total f d rows Hk Hup Hc Hrows).
      apply (fcx_struct sst f Hx i Gr); [exists n; auto|exact Hd|exact Hl].
Qed.

(* ---------- Segment ---------- *)
Lemma frow_views_some rows : (forall row, In row rows -> frow row) ->
  forall o, In o (map (row_view t) rows) -> o <> None.
Proof.
  intros H o Hin. apply in_map_iff in Hin. destruct Hin as [row [<- Hrow]].
  destruct (H row Hrow) as [[n [mn [mx [r [-> E]]]]]|[n [r [mn [mx [-> _]]]]]]; cbn [row_view table_of]; [now rewrite E|discriminate].
Qed.

Lemma row_view_ref row vc : row_view t row = Some vc ->
  row_ref t row = Some (vc_ref vc) /\ row_name row = Some (vc_kind vc, vc_name vc, vc_mn vc, vc_mx vc).
Proof.
  destruct row as [k n mn mx|k n r mn mx|]; cbn [row_view row_ref row_name]; [| |discriminate].
  - destruct (slookup n (table_of t k)) as [r|]; [|discriminate]. intros H. injection H as <-. auto.
  - intros H. injection H as <-. auto.
Qed.

Lemma resolve_seg_canon s cname n x : upper cname = cname -> st_ordered (s_st s) <> None ->
  by_name (s_st s) cname = Some x -> se_name x = cname ->
  resolve_seg s cname = Some n -> n = cname.
Proof.
  intros Hu Ho Hb Hx. unfold resolve_seg.
  destruct (has_named f_name (s_children s) cname); [intros H; injection H as <-; exact Hu|].
  rewrite Hu. destruct (st_ordered (s_st s)); [|congruence]. rewrite Hb, Hx. intros H. injection H as <-. exact Hu.
Qed.

Definition seg_post (s : seg) : Prop :=
  Forall (fun f => field_ok (s_st s) f /\ fld_named (s_name s) f) (s_children s) /\
  st_canF (s_st s) /\ length (s_name s) = 3 /\ upper (s_name s) = s_name s /\
  ((seg_is_z s = true /\ s_st s = empty_st) \/
   (seg_is_z s = false /\ exists rows,
      st_reference (s_st s) = SSeqIn false rows None /\
      rows_structure t (s_name s) FIE rows (s_st s) /\ (forall row, In row rows -> frow row) /\
      rows_contiguous (s_name s) FIE 1 rows = true)).

Lemma vref_empty n : vref empty_st n = slookup n (t_fields t).
Proof. reflexivity. Qed.

Theorem v_seg_total s : seg_post s -> exists l, v_seg t e (Some (st_reference (s_st s))) s = Ok l.
Proof.
  intros [Hk [Hs [H3 [Hu Hcase]]]]. unfold v_seg. rewrite Forall_forall in Hk.
  destruct Hcase as [[Z Est]|[Z [rows [Er [Hrs [Hrows Hc]]]]]]; rewrite Z.
  - apply seq_res_total. intros r Hr. apply in_map_iff in Hr. destruct Hr as [f [<- Hf]].
    destruct (Hk f Hf) as [Hok _]. destruct (f_name f) as [n|] eqn:N.
    + apply (v_field_total (s_st s) _ None f n Hs Hok N). rewrite Est. reflexivity.
    + unfold v_field, field_unknown. rewrite N. destruct Hok as [_ [_ [_ Hn]]]. rewrite (Hn N). cbn. eauto.
  - cbn [ref_or_load]. rewrite Er. cbn [view_of]. unfold seg_seq. apply check_seq_total.
    + now apply frow_views_some.
    + intros vc n k Hvc Hres Hin Hnamed.
      apply in_map_iff in Hvc. destruct Hvc as [row [Hv Hrow]].
      destruct (row_view_ref row vc Hv) as [Hrr Hrn].
      apply In_nth_error in Hrow. destruct Hrow as [j Hj].
      destruct (contiguous_nth (s_name s) FIE rows 1 j row Hc Hj) as [k' [mn [mx [Hrn' _]]]].
      rewrite Hrn in Hrn'. injection Hrn' as _ Hm _ _.
      assert (Un : upper (vc_name vc) = vc_name vc) by (now rewrite Hm, name_idx_upper, Hu).
      destruct Hrs as [Ho Hb _].
      pose proof (Hb j row (vc_ref vc) Hj Hrr) as B. change (1 + j) with (S j) in Hm. rewrite <- Hm in B.
      assert (En : n = vc_name vc).
      { apply (resolve_seg_canon s (vc_name vc) n (mk_sentry (vc_name vc) (vc_ref vc) FIE) Un);
          [rewrite Ho; discriminate|exact B|reflexivity|exact Hres]. }
      subst n. destruct (Hk k Hin) as [Hok _].
      unfold is_named in Hnamed. destruct (f_name k) as [m|] eqn:N; [|discriminate]. cbn [opt_eqb] in Hnamed.
      apply streqb_eq in Hnamed. subst m.
      apply (v_field_total (s_st s) _ _ k (vc_name vc) Hs Hok N).
      cbn [ref_or_load]. unfold vref, ref_in. rewrite Ho, B. reflexivity.
    + intros k Hin Zk. exfalso. destruct (Hk k Hin) as [_ [N|[i N]]]; unfold field_is_z in Zk; rewrite N in Zk; [discriminate|].
      rewrite (not_z_field_name (s_name s) i H3 Hu Z) in Zk. discriminate.
Qed.

End Val.

(* ---------- parse_segment establishes the invariant ---------- *)
Lemma add_fields_st lvl kids : forall s s', add_fields t lvl s kids = Ok s' -> s_st s' = s_st s.
Proof.
  induction kids as [|k rest IH]; intros s s' H; cbn [add_fields] in H.
  - now injection H as <-.
  - destruct (f_name k) as [kn|].
    + repeat match type of H with
             | (if ?b then _ else _) = _ => destruct b; try discriminate
             end; apply IH in H; exact H.
    + destruct (is_strict lvl); try discriminate. apply IH in H. exact H.
Qed.

Lemma valid_z_upper' n : valid_z_segment_name (upper n) = valid_z_segment_name n.
Proof. unfold valid_z_segment_name. now rewrite upper_idem, upper_length. Qed.

Theorem parse_segment_post lvl e leaf text : pc seg_post (parse_segment t lvl e leaf text None).
Proof.
  unfold parse_segment.
  apply (sp_bind anyx (seg_pre (seg_name_of text))).
  - apply mk_segment_good. unfold seg_name_of, take. apply firstn_le_length.
  - intros s0 [Hk [Hn [Hs [H3 Hcase]]]]. unfold parse_segment_in, parse_fields.
    apply (sp_bind anyx (Forall (fun f => field_ok (s_st s0) f /\ fld_named (upper (seg_name_of text)) f)));
      [now apply parse_fields_aux_good|].
    intros kids Hkids. eapply sp_post; [apply pc_eq|]. intros s Es _.
    pose proof (add_fields_st _ _ _ _ Es) as Est. apply add_fields_appends in Es. destruct Es as [Ec En].
    unfold seg_post, seg_is_z. rewrite Est, En, Hn, Ec, Hk. cbn [app].
    split; [exact Hkids|]. split; [exact Hs|]. split; [now rewrite upper_length|]. split; [apply upper_idem|].
    rewrite valid_z_upper'. exact Hcase.
Qed.

(* C15, validate(return_errors=True) at segment level: every parsed segment gets a report *)
Theorem parse_segment_validates lvl e leaf text s e' :
  parse_segment t lvl e leaf text None = Ok s -> exists errs, validate_errors t e' s = Ok errs.
Proof.
  intros H. pose proof (sp_inv anyx _ _ s (parse_segment_post lvl e leaf text) H) as P.
  destruct (v_seg_total e' s P) as [l El]. unfold validate_errors, validate_seg_log. rewrite El. cbn. eauto.
Qed.

End VT.
