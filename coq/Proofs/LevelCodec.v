(* The generic one-level codec (DESIGN C01_level).

   One level of an ER7 text is a list of pieces p_1 .. p_m separated by a delimiter.  The parser
   numbers the pieces, keeps the non-empty ones as children named K_i (K_1 .. K_n the names the table
   defines, m <= n), the encoder looks the children up BY NAME in table order (`named`), trims the
   trailing empty slots and joins.  This file proves that the result is the original list of
   pieces, over an abstract child type, so that it can be used for subcomponents in a component,
   components in a field and (with repetitions: several children per piece) fields in a segment. *)
From Coq Require Import List Bool Arith Lia Init.Byte.
From HL7 Require Import Lib.Str Model.Ec Model.Result Model.Ref Model.Tree Model.Parser Model.Encode.
From HL7 Require Import Proofs.SplitJoin.
Import ListNotations.
Open Scope bs_scope.

Definition nilb {B} (l : list B) : bool := match l with [] => true | _ => false end.

(* "no trailing empty entry" *)
Definition no_trail {B} (l : list (list B)) : Prop := forall l', l <> l' ++ [[]].

Lemma no_trail_cases {B} (l : list (list B)) :
  no_trail l -> l = [] \/ exists l' x, l = l' ++ [x] /\ x <> [].
Proof.
  intros H. destruct l as [|a l] using rev_ind; [now left|]. right.
  exists l, a. split; [reflexivity|]. intros ->. now apply (H l).
Qed.

Lemma no_trail_remove {B} (l : list (list B)) : no_trail l -> remove_trailing nilb l = l.
Proof.
  intros H. destruct (no_trail_cases l H) as [->|[l' [x [-> Hx]]]]; [reflexivity|].
  apply remove_trailing_last. destruct x; [congruence|reflexivity].
Qed.

Lemma no_trail_nil {B} : no_trail (@nil (list B)).
Proof. intros l' H. destruct l'; discriminate. Qed.

Lemma no_trail_last {B} (l : list (list B)) x : x <> [] -> no_trail (l ++ [x]).
Proof. intros Hx l' H. apply app_inj_tail in H. destruct H as [_ H]. congruence. Qed.

(* split after join, including the empty list of pieces (whose text is empty) *)
Lemma bsplit_bjoin' c l : forallb (nosep beqb c) l = true ->
  bsplit c (bjoin c l) = match l with [] => [[]] | _ => l end.
Proof. intros H. destruct l; [reflexivity|]. apply bsplit_bjoin; [discriminate|exact H]. Qed.

Lemma lstrip_by_map {B C} (p : C -> bool) (f : B -> C) l :
  lstrip_by p (map f l) = map f (lstrip_by (fun x => p (f x)) l).
Proof.
  induction l as [|x r IH]; [reflexivity|]. cbn [map lstrip_by].
  destruct (p (f x)); [exact IH|reflexivity].
Qed.

Lemma remove_trailing_map {B C} (p : C -> bool) (f : B -> C) l :
  remove_trailing p (map f l) = map f (remove_trailing (fun x => p (f x)) l).
Proof. unfold remove_trailing. now rewrite <- map_rev, lstrip_by_map, map_rev. Qed.

Lemma lstrip_by_ext {B} (p q : B -> bool) l : (forall x, p x = q x) -> lstrip_by p l = lstrip_by q l.
Proof. intros H. induction l as [|x r IH]; [reflexivity|]. cbn [lstrip_by]. now rewrite H, IH. Qed.

Section Level.
Context {A : Type}.
Variable nm : A -> option str.

Definition slot_of (g : list A) : slot A := match g with [] => None | _ => Some g end.
Definition pick (k : str) (l : list A) : list A := filter (fun x => opt_eqb (nm x) (Some k)) l.

Lemma named_pick k l : named nm k l = slot_of (pick k l).
Proof. unfold named, pick. now destruct (filter _ l). Qed.

Lemma pick_app k l m : pick k (l ++ m) = pick k l ++ pick k m.
Proof. apply filter_app. Qed.

Lemma opt_eqb_some_refl k : opt_eqb (Some k) (Some k) = true.
Proof. cbn. apply streqb_refl. Qed.

Lemma opt_eqb_some_true a k : opt_eqb a (Some k) = true -> a = Some k.
Proof. destruct a as [x|]; cbn; [|discriminate]. intros H. now rewrite (streqb_eq _ _ H). Qed.

Lemma pick_all k g : (forall x, In x g -> nm x = Some k) -> pick k g = g.
Proof.
  induction g as [|x g IH]; intros H; [reflexivity|]. cbn [pick filter].
  rewrite (H x (or_introl eq_refl)), opt_eqb_some_refl. f_equal. apply IH. intros y Hy. apply H. now right.
Qed.

Lemma pick_none k g : (forall x, In x g -> nm x <> Some k) -> pick k g = [].
Proof.
  induction g as [|x g IH]; intros H; [reflexivity|]. cbn [pick filter].
  destruct (opt_eqb (nm x) (Some k)) eqn:E.
  - apply opt_eqb_some_true in E. exfalso. exact (H x (or_introl eq_refl) E).
  - apply IH. intros y Hy. apply H. now right.
Qed.

(* groups g_1 .. g_m placed under the first m keys: every member of g_i is named k_i *)
Fixpoint groups_ok (ks : list str) (gs : list (list A)) {struct gs} : Prop :=
  match gs, ks with
  | [], _ => True
  | g :: gs', k :: ks' => (forall x, In x g -> nm x = Some k) /\ groups_ok ks' gs'
  | _ :: _, [] => False
  end.

Lemma groups_ok_length ks gs : groups_ok ks gs -> length gs <= length ks.
Proof.
  revert ks; induction gs as [|g gs IH]; intros ks H; cbn; [lia|].
  destruct ks as [|k ks]; [destruct H|]. destruct H as [_ H]. specialize (IH _ H). cbn. lia.
Qed.

Lemma groups_ok_in ks gs x : groups_ok ks gs -> In x (concat gs) -> exists k, In k ks /\ nm x = Some k.
Proof.
  revert ks; induction gs as [|g gs IH]; intros ks H Hx; [destruct Hx|].
  destruct ks as [|k ks]; [destruct H|]. destruct H as [Hg H]. cbn [concat] in Hx.
  apply in_app_or in Hx. destruct Hx as [Hx|Hx].
  - exists k. split; [now left|now apply Hg].
  - destruct (IH _ H Hx) as [k' [Hk' E]]. exists k'. split; [now right|exact E].
Qed.

(* A. looking the keys up by name finds the groups, in order, and nothing for the other keys *)
Lemma fill_by_name ks : forall gs pre, NoDup ks -> groups_ok ks gs ->
  (forall x, In x pre -> forall k, In k ks -> nm x <> Some k) ->
  map (fun k => named nm k (pre ++ concat gs)) ks = map slot_of gs ++ repeat None (length ks - length gs).
Proof.
  induction ks as [|k ks IH]; intros gs pre Hnd Hg Hpre.
  - destruct gs; [reflexivity|destruct Hg].
  - inversion Hnd as [|? ? Hk Hnd']; subst.
    destruct gs as [|g gs].
    + cbn [concat map length repeat app Nat.sub]. rewrite app_nil_r. f_equal.
      * rewrite named_pick, pick_none; [reflexivity|]. intros x Hx. apply (Hpre x Hx). now left.
      * specialize (IH [] pre Hnd' I). cbn [concat map app length] in IH.
        rewrite app_nil_r, Nat.sub_0_r in IH. apply IH. intros x Hx k' Hk'. apply (Hpre x Hx). now right.
    + destruct Hg as [Hg Hgs]. cbn [concat map length app Nat.sub]. f_equal.
      * rewrite named_pick, !pick_app, (pick_all k g Hg).
        rewrite pick_none by (intros x Hx; apply (Hpre x Hx); now left).
        rewrite (pick_none k (concat gs)); [now rewrite app_nil_r|].
        intros x Hx E. destruct (groups_ok_in _ _ _ Hgs Hx) as [k' [Hk' E']].
        rewrite E in E'. injection E' as <-. contradiction.
      * specialize (IH gs (pre ++ g) Hnd' Hgs).
        rewrite <- IH.
        -- apply map_ext. intros k'. now rewrite app_assoc.
        -- intros x Hx k' Hk'. apply in_app_or in Hx. destruct Hx as [Hx|Hx].
           ++ apply (Hpre x Hx). now right.
           ++ rewrite (Hg x Hx). intros E. injection E as <-. contradiction.
Qed.

(* B. trimming the trailing empty slots *)
Lemma slot_empty_slot_of g : slot_empty (slot_of g) = nilb g.
Proof. destruct g; reflexivity. Qed.

Lemma trim_slots gs n :
  remove_trailing slot_empty (map slot_of gs ++ repeat None n) = map slot_of (remove_trailing nilb gs).
Proof.
  rewrite remove_trailing_app_repeat by reflexivity. rewrite remove_trailing_map.
  f_equal. unfold remove_trailing. f_equal. apply lstrip_by_ext, slot_empty_slot_of.
Qed.

Lemma trim_slots_canon gs n : no_trail gs ->
  remove_trailing slot_empty (map slot_of gs ++ repeat None n) = map slot_of gs.
Proof. intros H. now rewrite trim_slots, no_trail_remove. Qed.

(* C. encoding the slots: an empty slot yields the empty text, a full one the texts of its members *)
Variable enc : A -> str.

Definition group_texts (g : list A) : list str := match g with [] => [[]] | _ => map enc g end.

Lemma enc_slots_groups sep gs :
  enc_slots enc sep (map slot_of gs) = bjoin sep (concat (map group_texts gs)).
Proof.
  unfold enc_slots. f_equal. rewrite flat_map_concat_map, map_map. f_equal.
  apply map_ext. intros g. destruct g; reflexivity.
Qed.

(* a piece and the group of children parsed from it: nothing for an empty piece, otherwise one
   child whose text is the piece *)
Definition piece_group (s : str) (g : list A) : Prop :=
  (s = [] /\ g = []) \/ (exists x, g = [x] /\ enc x = s).

Lemma piece_groups_texts ps gs : Forall2 piece_group ps gs -> concat (map group_texts gs) = ps.
Proof.
  induction 1 as [|s g ps gs H _ IH]; [reflexivity|]. cbn [map concat]. rewrite IH.
  destruct H as [[-> ->]|[x [-> <-]]]; reflexivity.
Qed.

Lemma piece_groups_no_trail ps gs : Forall2 piece_group ps gs -> no_trail ps -> no_trail gs.
Proof.
  intros H Hp l' E. subst gs. apply Forall2_app_inv_r in H.
  destruct H as [p1 [p2 [_ [H2 ->]]]]. inversion H2 as [|s g ps' gs' Hs Hn]; subst.
  inversion Hn; subst. destruct Hs as [[-> _]|[x [E _]]]; [|discriminate]. now apply (Hp p1).
Qed.

(* D. the whole level, for Element._get_children(trailing=False) + Element.to_er7 *)
Definition ordered_of (st : option structure) : list str :=
  match st with Some s => match st_ordered s with Some o => o | None => [] end | None => [] end.

Lemma filter_nothing {B} (f : B -> bool) l : (forall x, In x l -> f x = false) -> filter f l = [].
Proof.
  induction l as [|x l IH]; intros H; [reflexivity|]. cbn [filter].
  rewrite (H x (or_introl eq_refl)). apply IH. intros y Hy. apply H. now right.
Qed.

Lemma generic_slots_groups st gs :
  NoDup (ordered_of st) -> ~ In (unbs "ST") (ordered_of st) -> groups_ok (ordered_of st) gs ->
  generic_slots nm st (concat gs) = map slot_of (remove_trailing nilb gs).
Proof.
  intros Hnd Hst Hg. unfold generic_slots. fold (ordered_of st).
  rewrite filter_nothing.
  - cbn [map]. rewrite app_nil_r.
    pose proof (fill_by_name (ordered_of st) gs [] Hnd Hg) as F. cbn [app] in F.
    rewrite F by (intros x []). apply trim_slots.
  - intros x Hx. destruct (groups_ok_in _ _ _ Hg Hx) as [k [Hk E]]. rewrite E.
    unfold name_none_or_st, opt_is_none, opt_eqb. cbn [orb].
    destruct (streqb_spec k (unbs "ST")) as [->|N]; [contradiction|reflexivity].
Qed.

(* C01_level: pieces -> named children -> slots by name -> trim -> join is the identity *)
Theorem level_codec sep st ps gs :
  NoDup (ordered_of st) -> ~ In (unbs "ST") (ordered_of st) ->
  groups_ok (ordered_of st) gs -> Forall2 piece_group ps gs -> no_trail ps ->
  enc_slots enc sep (generic_slots nm st (concat gs)) = bjoin sep ps.
Proof.
  intros Hnd Hst Hg Hp Ht.
  rewrite (generic_slots_groups st gs Hnd Hst Hg).
  rewrite (no_trail_remove gs (piece_groups_no_trail ps gs Hp Ht)).
  now rewrite enc_slots_groups, (piece_groups_texts ps gs Hp).
Qed.

End Level.

(* the unnamed case: Element.to_er7 of a base-typed / untyped element joins all the children *)
Lemma enc_slots_all {A} (enc : A -> str) sep (l : list A) :
  l <> [] -> enc_slots enc sep [Some l] = bjoin sep (map enc l).
Proof. intros H. destruct l; [congruence|]. unfold enc_slots. cbn [flat_map]. now rewrite app_nil_r. Qed.
