(* Facts about Model/Resolve.v (C14): letter case, long names, positional paths, names that
   designate nothing, and what the finite obligations of Oblig/C14_v2_X.v mean. *)
From Coq Require Import List Bool Arith NArith ZArith Lia Init.Byte Strings.Byte FinFun.
From HL7 Require Import Lib.Str Model.Result Model.Ref Model.Tree Model.Parser Model.Resolve Gen.Params.
From HL7 Require Import Proofs.SplitJoin Proofs.RoundTripStr.
Import ListNotations.
Open Scope bs_scope.
Open Scope res_scope.

(* ------------------------------------------------------------------ *)
(* letter case                                                          *)

Lemma bupper_blower b : bupper (blower b) = bupper b.
Proof. destruct b; reflexivity. Qed.

Lemma upper_lower s : upper (lower s) = upper s.
Proof. unfold upper, lower. rewrite map_map. apply map_ext, bupper_blower. Qed.

Lemma smem_true_iff k l : smem k l = true <-> In k l.
Proof.
  unfold smem. rewrite existsb_exists. split.
  - intros [x [Hx E]]. apply streqb_eq in E. now subst.
  - intros H. exists k. split; [exact H|apply streqb_refl].
Qed.

Lemma smem_false_not_in k l : smem k l = false -> ~ In k l.
Proof. intros H I. apply smem_true_iff in I. congruence. Qed.

(* a name whose upper-case form is not an attribute name is not guarded, in any letter case *)
Lemma attr_guard_upper attrs n :
  forallb (fun a => streqb (upper a) a) attrs = true ->
  smem (upper n) attrs = false -> attr_guard attrs n = false.
Proof.
  intros Hu Hn. unfold attr_guard. destruct (smem n (map lower attrs)) eqn:E; [|reflexivity].
  exfalso. apply smem_true_iff in E. apply in_map_iff in E. destruct E as [a [Ea Ia]].
  apply (smem_false_not_in _ _ Hn).
  rewrite forallb_forall in Hu. specialize (Hu a Ia). apply streqb_eq in Hu.
  rewrite <- Ea, upper_lower, Hu. exact Ia.
Qed.

Lemma attrs_upper_Segment : forallb (fun a => streqb (upper a) a) cls_attrs_Segment = true.
Proof. vm_compute. reflexivity. Qed.
Lemma attrs_upper_Field : forallb (fun a => streqb (upper a) a) cls_attrs_Field = true.
Proof. vm_compute. reflexivity. Qed.
Lemma attrs_upper_Component : forallb (fun a => streqb (upper a) a) cls_attrs_Component = true.
Proof. vm_compute. reflexivity. Qed.

Lemma guard_Segment_eq n : guard_Segment n = attr_guard cls_attrs_Segment n.
Proof.
  unfold guard_Segment, attr_guard.
  replace lower_attrs_Segment with (map lower cls_attrs_Segment) by (vm_compute; reflexivity). reflexivity.
Qed.
Lemma guard_Field_eq n : guard_Field n = attr_guard cls_attrs_Field n.
Proof.
  unfold guard_Field, attr_guard.
  replace lower_attrs_Field with (map lower cls_attrs_Field) by (vm_compute; reflexivity). reflexivity.
Qed.
Lemma guard_Component_eq n : guard_Component n = attr_guard cls_attrs_Component n.
Proof.
  unfold guard_Component, attr_guard.
  replace lower_attrs_Component with (map lower cls_attrs_Component) by (vm_compute; reflexivity). reflexivity.
Qed.

Lemma guard_Segment_upper n : smem (upper n) cls_attrs_Segment = false -> guard_Segment n = false.
Proof. rewrite guard_Segment_eq. apply attr_guard_upper, attrs_upper_Segment. Qed.
Lemma guard_Field_upper n : smem (upper n) cls_attrs_Field = false -> guard_Field n = false.
Proof. rewrite guard_Field_eq. apply attr_guard_upper, attrs_upper_Field. Qed.
Lemma guard_Component_upper n : smem (upper n) cls_attrs_Component = false -> guard_Component n = false.
Proof. rewrite guard_Component_eq. apply attr_guard_upper, attrs_upper_Component. Qed.

(* every attribute name is among the reserved names of its class *)
Lemma attrs_reserved_Segment : forallb (fun a => smem a reserved_Segment) cls_attrs_Segment = true.
Proof. vm_compute. reflexivity. Qed.
Lemma attrs_reserved_Field : forallb (fun a => smem a reserved_Field) cls_attrs_Field = true.
Proof. vm_compute. reflexivity. Qed.
Lemma attrs_reserved_Component : forallb (fun a => smem a reserved_Component) cls_attrs_Component = true.
Proof. vm_compute. reflexivity. Qed.

Lemma not_reserved_not_attr res attrs k :
  forallb (fun a => smem a res) attrs = true -> smem k res = false -> smem k attrs = false.
Proof.
  intros H Hk. destruct (smem k attrs) eqn:E; [|reflexivity].
  apply smem_true_iff in E. rewrite forallb_forall in H. specialize (H k E). congruence.
Qed.

Section Facts.
Variable t : tables.
Variable lvl : level.

(* the find_child_reference functions that upper-case their argument are insensitive to its case *)
Lemma seg_find_upper s n : seg_find_child_reference t s (upper n) = seg_find_child_reference t s n.
Proof. unfold seg_find_child_reference. now rewrite upper_idem. Qed.
Lemma complex_find_upper st n : complex_find_child_reference t st (upper n) = complex_find_child_reference t st n.
Proof. unfold complex_find_child_reference. now rewrite upper_idem. Qed.
Lemma group_find_upper r st n : group_find_child_reference t r st (upper n) = group_find_child_reference t r st n.
Proof. unfold group_find_child_reference. now rewrite upper_idem. Qed.

Lemma seg_getattr_case s n n' :
  upper n = upper n' -> smem (upper n) cls_attrs_Segment = false -> seg_getattr t s n = seg_getattr t s n'.
Proof.
  intros E H. unfold seg_getattr.
  rewrite (guard_Segment_upper n H). rewrite E in H. rewrite (guard_Segment_upper n' H). now rewrite E.
Qed.

Lemma comp_getattr_case c n n' :
  upper n = upper n' -> smem (upper n) cls_attrs_Component = false -> comp_getattr t c n = comp_getattr t c n'.
Proof.
  intros E H. unfold comp_getattr.
  rewrite (guard_Component_upper n H). rewrite E in H. rewrite (guard_Component_upper n' H). now rewrite E.
Qed.

Lemma get_traversal_children_case o n n' :
  upper n = upper n' -> get_traversal_children o n = get_traversal_children o n'.
Proof. intros E. unfold get_traversal_children. now rewrite E. Qed.

Lemma field_traverse_case fuel f n n' :
  upper n = upper n' -> smem (upper n) cls_attrs_Field = false ->
  field_traverse t lvl fuel f n = field_traverse t lvl fuel f n'.
Proof.
  intros E H. destruct fuel as [|k]; [reflexivity|]. cbn [field_traverse].
  rewrite (guard_Field_upper n H). rewrite E in H. rewrite (guard_Field_upper n' H).
  rewrite E, (get_traversal_children_case (f_name f) n n' E). reflexivity.
Qed.

Lemma resolve_case p n n' :
  upper n = upper n' -> smem (upper n) (cls_attrs_of p) = false -> resolve t lvl p n = resolve t lvl p n'.
Proof.
  destruct p as [s|f|c]; cbn [resolve cls_attrs_of]; intros E H.
  - now apply seg_getattr_case.
  - now apply field_traverse_case.
  - now apply comp_getattr_case.
Qed.

(* ------------------------------------------------------------------ *)
(* association lists                                                    *)

Lemma slookup_In {B} k (l : list (str * B)) v : slookup k l = Some v -> In (k, v) l.
Proof.
  unfold slookup. induction l as [|[k' v'] l IH]; cbn [alookup]; [discriminate|].
  change (leqb beqb k k') with (streqb k k'). destruct (streqb_spec k k') as [->|N].
  - intros [= ->]. now left.
  - intros H. right. now apply IH.
Qed.

Lemma slookup_None {B} k (l : list (str * B)) : slookup k l = None -> ~ In k (map fst l).
Proof.
  unfold slookup. induction l as [|[k' v'] l IH]; cbn [alookup map fst]; [intros _ []|].
  change (leqb beqb k k') with (streqb k k'). destruct (streqb_spec k k') as [->|N]; [discriminate|].
  intros H [E|I]; [congruence|]. now apply IH.
Qed.

Lemma In_slookup {B} k (l : list (str * B)) v :
  NoDup (map fst l) -> In (k, v) l -> slookup k l = Some v.
Proof.
  unfold slookup. induction l as [|[k' v'] l IH]; cbn [alookup map fst]; [intros _ []|].
  intros ND [E|I].
  - injection E as -> ->. change (leqb beqb k k) with (streqb k k). now rewrite streqb_refl.
  - inversion ND as [|? ? Hn ND']; subst.
    change (leqb beqb k k') with (streqb k k'). destruct (streqb_spec k k') as [->|N].
    + exfalso. apply Hn. change k' with (fst (k', v)). now apply in_map.
    + now apply IH.
Qed.

Lemma slookup_not_in {B} k (l : list (str * B)) : ~ In k (map fst l) -> slookup k l = None.
Proof.
  intros H. destruct (slookup k l) eqn:E; [|reflexivity].
  exfalso. apply H. apply slookup_In in E. change k with (fst (k, b)). now apply in_map.
Qed.

Lemma olookup_In k l e : olookup k l = Some e -> In (k, e) l.
Proof.
  induction l as [|[k' v'] l IH]; cbn [olookup]; [discriminate|].
  destruct k as [a|], k' as [b|]; try (intros H; right; now apply IH).
  - destruct (streqb_spec a b) as [->|N]; [intros [= ->]; now left|intros H; right; now apply IH].
  - intros [= ->]. now left.
Qed.

Lemma olookup_hit k l e : In (k, e) l -> exists e', olookup k l = Some e'.
Proof.
  induction l as [|[k' v'] l IH]; cbn [olookup]; [intros []|].
  intros [E|I].
  - injection E as -> ->. destruct k as [a|]; [rewrite streqb_refl|]; eauto.
  - destruct (match k, k' with Some a, Some b => streqb a b | None, None => true | _, _ => false end); eauto.
Qed.

Lemma olookup_miss k l : (forall e, ~ In (k, e) l) -> olookup k l = None.
Proof.
  intros H. destruct (olookup k l) eqn:E; [|reflexivity]. exfalso. eapply H, olookup_In, E.
Qed.

Lemma by_name_In st k e : by_name st k = Some e -> In (k, e) (st_by_name st).
Proof. unfold by_name. intros H. apply slookup_In in H. now apply in_rev. Qed.

Lemma by_name_hit st k e :
  NoDup (map fst (st_by_name st)) -> In (k, e) (st_by_name st) -> by_name st k = Some e.
Proof.
  intros ND I. unfold by_name. apply In_slookup.
  - rewrite map_rev. now apply NoDup_rev.
  - now apply in_rev in I.
Qed.

Lemma by_name_miss st k : ~ In k (map fst (st_by_name st)) -> by_name st k = None.
Proof.
  intros H. unfold by_name. apply slookup_not_in. rewrite map_rev. intros I. apply H. now apply in_rev.
Qed.

Lemma by_long_In st l e : by_long st l = Some e -> In (Some l, e) (st_by_long st).
Proof. unfold by_long. intros H. apply olookup_In in H. now apply in_rev. Qed.

Lemma by_long_unique st l e :
  In (Some l, e) (st_by_long st) ->
  (forall e', In (Some l, e') (st_by_long st) -> e' = e) ->
  by_long st l = Some e.
Proof.
  intros I U. unfold by_long. apply in_rev in I.
  destruct (olookup_hit _ _ _ I) as [e' He']. rewrite He'. f_equal. apply U.
  apply olookup_In in He'. now apply in_rev.
Qed.

Lemma by_long_miss st l : (forall e, ~ In (Some l, e) (st_by_long st)) -> by_long st l = None.
Proof. intros H. unfold by_long. apply olookup_miss. intros e I. apply (H e). now apply in_rev. Qed.

(* ------------------------------------------------------------------ *)
(* C14_long: a long name that is unique within the parent and is not a child name is filed under the
   same entry as that entry's HL7 name                                  *)

Lemma struct_lookup_name st e :
  NoDup (map fst (st_by_name st)) -> In (se_name e, e) (st_by_name st) ->
  struct_lookup st (se_name e) = Some e.
Proof. intros ND I. unfold struct_lookup. now rewrite (by_name_hit st _ e ND I). Qed.

Lemma struct_lookup_long st e l :
  In (Some l, e) (st_by_long st) ->
  (forall e', In (Some l, e') (st_by_long st) -> e' = e) ->
  ~ In l (map fst (st_by_name st)) ->
  struct_lookup st l = Some e.
Proof.
  intros I U N. unfold struct_lookup. rewrite (by_name_miss st l N). now apply by_long_unique.
Qed.

(* what an Ok answer of a structure lookup is: an entry filed under that very name *)
Definition filed_under (st : structure) (n : str) (e : sentry) : Prop :=
  In (n, e) (st_by_name st) \/ In (Some n, e) (st_by_long st).

Lemma struct_lookup_filed st n e : struct_lookup st n = Some e -> filed_under st n e.
Proof.
  unfold struct_lookup, filed_under. destruct (by_name st n) eqn:E.
  - intros [= ->]. left. now apply by_name_In.
  - intros H. right. now apply by_long_In.
Qed.

Lemma struct_lookup_none st n :
  ~ In n (map fst (st_by_name st)) -> (forall e, ~ In (Some n, e) (st_by_long st)) -> struct_lookup st n = None.
Proof. intros A B. unfold struct_lookup. now rewrite (by_name_miss _ _ A), (by_long_miss _ _ B). Qed.

(* ------------------------------------------------------------------ *)
(* C14_no_such: what find_child_reference can answer                    *)

Definition not_such (x : exn) : Prop := x = HL7 EChildNotFound \/ x = HL7 EChildNotValid.

Lemma seg_find_answers s n :
  has_map_st (s_st s) = true ->
  match seg_find_child_reference t s n with
  | Ok e => filed_under (s_st s) (upper n) e
            \/ (s_inf s = true /\ valid_child_name (Some (upper n)) (Some (s_name s)) = true
                /\ se_name e = upper n /\ struct_lookup (s_st s) (upper n) = None)
  | Err x => not_such x /\ struct_lookup (s_st s) (upper n) = None
  end.
Proof.
  intros M. unfold seg_find_child_reference. rewrite M. cbn [negb].
  destruct (struct_lookup (s_st s) (upper n)) as [e|] eqn:L.
  - left. now apply struct_lookup_filed.
  - destruct (s_inf s && valid_child_name (Some (upper n)) (Some (s_name s))) eqn:O.
    + apply andb_prop in O. destruct O as [O1 O2]. right. cbn [se_name]. auto.
    + destruct (slookup (upper n) (t_fields t)); (split; [|reflexivity]); [right|left]; reflexivity.
Qed.

Lemma complex_find_answers st n :
  has_map_st st = true ->
  match complex_find_child_reference t (Some st) n with
  | Ok e => filed_under st (upper n) e
  | Err x => not_such x /\ struct_lookup st (upper n) = None
  end.
Proof.
  intros M. unfold complex_find_child_reference. rewrite M.
  destruct (struct_lookup st (upper n)) as [e|] eqn:L.
  - now apply struct_lookup_filed.
  - destruct (slookup (upper n) (t_components t)); (split; [|reflexivity]); [right|left]; reflexivity.
Qed.

(* a field of base datatype has exactly one child name: its datatype *)
Lemma field_find_base f n :
  base t (f_dt f) = true ->
  match field_find_child_reference t f n with
  | Ok e => f_dt f = Some n /\ se_name e = n
  | Err x => x = HL7 EChildNotFound /\ f_dt f <> Some n
  end.
Proof.
  intros B. unfold field_find_child_reference. rewrite B.
  destruct (f_dt f) as [d|] eqn:D; cbn [opt_eqb].
  - destruct (streqb_spec n d) as [->|N]; cbn [se_name]; [auto|]. split; [reflexivity|congruence].
  - split; [reflexivity|discriminate].
Qed.

Lemma field_find_complex f n :
  base t (f_dt f) = false -> is_varies (f_dt f) = false ->
  field_find_child_reference t f n = complex_find_child_reference t (f_st f) n.
Proof. intros B V. unfold field_find_child_reference. now rewrite B, V. Qed.

(* resolution under a field by name / long name depends on the field only through its datatype and
   the two maps of its structure *)
Definition same_maps (a b : option structure) : Prop :=
  match a, b with
  | Some x, Some y => st_ordered x = st_ordered y /\ st_by_name x = st_by_name y /\ st_by_long x = st_by_long y
  | None, None => True
  | _, _ => False
  end.

Lemma complex_find_same_maps a b n :
  same_maps a b -> complex_find_child_reference t a n = complex_find_child_reference t b n.
Proof.
  destruct a as [x|], b as [y|]; cbn [same_maps]; try tauto. intros (O & N & L).
  unfold complex_find_child_reference, has_map_st, struct_lookup, by_name, by_long. now rewrite O, N, L.
Qed.

Lemma field_find_same_maps f g n :
  f_dt f = f_dt g -> same_maps (f_st f) (f_st g) ->
  field_find_child_reference t f n = field_find_child_reference t g n.
Proof.
  intros D M. unfold field_find_child_reference. rewrite D.
  now rewrite (complex_find_same_maps _ _ n M).
Qed.

(* ------------------------------------------------------------------ *)
(* structures built from a reference (ElementFinder._parse_structure)   *)

Definition entry_of (vc : vchild) : sentry := mk_sentry (vc_name vc) (vc_ref vc) (vc_kind vc).
Definition name_pairs (vcs : list vchild) : list (str * sentry) := map (fun vc => (vc_name vc, entry_of vc)) vcs.
Definition long_pairs (vcs : list vchild) : list (option str * sentry) :=
  flat_map (fun vc => match ref_long (vc_ref vc) with Some l => [(l, entry_of vc)] | None => [] end) vcs.
Definition rep_pairs (vcs : list vchild) : list (str * (Z * Z)) := map (fun vc => (vc_name vc, (vc_mn vc, vc_mx vc))) vcs.

Lemma parse_children_spec : forall vcs seen ord (byn : list (str * sentry)) byl reps,
  NoDup (map vc_name vcs) ->
  (forall vc, In vc vcs -> slookup (vc_name vc) byn = None) ->
  parse_children (map Some vcs) seen ord byn byl reps =
  Ok (rev ord ++ map vc_name vcs, rev byn ++ name_pairs vcs, rev byl ++ long_pairs vcs, rev reps ++ rep_pairs vcs).
Proof.
  induction vcs as [|vc rest IH]; intros seen ord byn byl reps ND Hfree.
  - cbn. now rewrite !app_nil_r.
  - destruct vc as [name r mn mx k]. cbn [map parse_children].
    assert (F : slookup name byn = None) by (apply (Hfree (mk_vchild name r mn mx k)); now left).
    rewrite F. inversion ND as [|? ? Hn ND']; subst.
    rewrite IH; [|exact ND'|].
    + f_equal. unfold name_pairs, long_pairs, rep_pairs. cbn [map flat_map vc_name vc_ref vc_mn vc_mx rev].
      unfold entry_of at 2 4. cbn [vc_name vc_ref vc_kind].
      rewrite <- !app_assoc. cbn [app].
      destruct (ref_long r); cbn [rev app]; rewrite <- ?app_assoc; reflexivity.
    + intros vc' I. unfold slookup. cbn [alookup].
      change (leqb beqb (vc_name vc') name) with (streqb (vc_name vc') name).
      destruct (streqb_spec (vc_name vc') name) as [E|N].
      * exfalso. apply Hn. cbn [vc_name] in *. rewrite <- E. now apply in_map.
      * apply Hfree. now right.
Qed.

(* the structure of a sequence/choice reference whose rows are well formed and distinctly named *)
Definition built (st : structure) (vcs : list vchild) : Prop :=
  NoDup (map vc_name vcs) /\ st_ordered st = Some (map vc_name vcs) /\
  st_by_name st = name_pairs vcs /\ st_by_long st = long_pairs vcs.

Lemma parse_structure_seq r ch vcs i :
  view_of t r = VSeq ch (map Some vcs) i -> NoDup (map vc_name vcs) ->
  exists st, parse_structure t r = Ok st /\ built st vcs /\ st_reference st = r /\ st_info st = i.
Proof.
  intros V ND. unfold parse_structure. rewrite V.
  pose proof (parse_children_spec vcs [] [] [] [] [] ND (fun _ _ => eq_refl)) as E. cbn [rev app] in E.
  eexists. split; [rewrite E; reflexivity|]. unfold built. cbn. auto.
Qed.

Lemma built_has_map st vcs : built st vcs -> has_map_st st = true.
Proof. intros (_ & O & _). unfold has_map_st. now rewrite O. Qed.

Lemma built_keys_nodup st vcs : built st vcs -> NoDup (map fst (st_by_name st)).
Proof.
  intros (ND & _ & N & _). rewrite N. unfold name_pairs. rewrite map_map. cbn [fst]. exact ND.
Qed.

Lemma built_name_in st vcs vc : built st vcs -> In vc vcs -> In (vc_name vc, entry_of vc) (st_by_name st).
Proof.
  intros (_ & _ & N & _) I. rewrite N. unfold name_pairs.
  apply in_map_iff. exists vc. auto.
Qed.

Lemma built_long_in st vcs vc l :
  built st vcs -> In vc vcs -> ref_long (vc_ref vc) = Some l -> In (l, entry_of vc) (st_by_long st).
Proof.
  intros (_ & _ & _ & L) I R. rewrite L. unfold long_pairs. apply in_flat_map. exists vc.
  split; [exact I|]. rewrite R. now left.
Qed.

Lemma built_long_inv st vcs l e :
  built st vcs -> In (l, e) (st_by_long st) ->
  exists vc, In vc vcs /\ ref_long (vc_ref vc) = Some l /\ e = entry_of vc.
Proof.
  intros (_ & _ & _ & L) I. rewrite L in I. unfold long_pairs in I. apply in_flat_map in I.
  destruct I as [vc [Ivc H]]. exists vc. destruct (ref_long (vc_ref vc)) as [l'|]; [|destruct H].
  destruct H as [E|[]]. injection E as -> ->. auto.
Qed.

Lemma built_by_name st vcs vc : built st vcs -> In vc vcs -> by_name st (vc_name vc) = Some (entry_of vc).
Proof.
  intros B I. apply by_name_hit; [eapply built_keys_nodup, B|eapply built_name_in; eauto].
Qed.

Lemma built_name_inv st vcs k e :
  built st vcs -> In (k, e) (st_by_name st) -> exists vc, In vc vcs /\ k = vc_name vc /\ e = entry_of vc.
Proof.
  intros (_ & _ & N & _) I. rewrite N in I. unfold name_pairs in I. apply in_map_iff in I.
  destruct I as [vc [E Ivc]]. injection E as <- <-. eauto.
Qed.

(* C14_long for a structure built from a reference: row vc, whose long name l is carried by no other
   row and is not the name of a row, is reached by l exactly as by its HL7 name *)
Lemma built_long_same st vcs vc l :
  built st vcs -> In vc vcs -> ref_long (vc_ref vc) = Some (Some l) ->
  (forall vc', In vc' vcs -> ref_long (vc_ref vc') = Some (Some l) -> vc' = vc) ->
  (forall vc', In vc' vcs -> vc_name vc' <> l) ->
  struct_lookup st l = Some (entry_of vc) /\ struct_lookup st (vc_name vc) = Some (entry_of vc).
Proof.
  intros B I R U N. split.
  - apply struct_lookup_long.
    + eapply built_long_in; eauto.
    + intros e' I'. destruct (built_long_inv _ _ _ _ B I') as [vc' (Ivc' & R' & ->)].
      now rewrite (U vc' Ivc' R').
    + intros K. apply in_map_iff in K. destruct K as [[k e] [E K]]. cbn [fst] in E. subst k.
      destruct (built_name_inv _ _ _ _ B K) as [vc' (Ivc' & E' & _)]. now apply (N vc' Ivc').
  - unfold struct_lookup. now rewrite (built_by_name _ _ _ B I).
Qed.

(* rows NAME_1 .. NAME_n (Wf.rows_contiguous) are distinctly named *)
Lemma name_idx_seq_NoDup p a n : NoDup (map (name_idx p) (seq a n)).
Proof. apply FinFun.Injective_map_NoDup; [intros i j; apply name_idx_inj|apply seq_NoDup]. Qed.

(* ------------------------------------------------------------------ *)
(* positional paths                                                     *)

Lemma split_aux_app_sep c cur x y :
  split_aux beqb c cur (x ++ c :: y) = split_aux beqb c cur x ++ split_aux beqb c [] y.
Proof.
  revert cur. induction x as [|a x IH]; intros cur; cbn [app split_aux].
  - now rewrite beqb_refl.
  - destruct (beqb a c); [now rewrite IH|apply IH].
Qed.

Lemma bsplit_app_sep c x y : bsplit c (x ++ c :: y) = bsplit c x ++ bsplit c y.
Proof. apply split_aux_app_sep. Qed.

Lemma us_not_digit : is_digit US = false.
Proof. reflexivity. Qed.

Lemma bsplit_name_idx p j : bsplit US (name_idx p j) = bsplit US p ++ [nat_to_str j].
Proof.
  unfold name_idx. change (unbs "_" ++ nat_to_str j) with (US :: nat_to_str j).
  rewrite bsplit_app_sep. f_equal. apply bsplit_nosep, nosep_of_bmem.
  apply digits_no; [reflexivity|apply nat_to_str_digits].
Qed.

Lemma py_int_nat j : py_int (nat_to_str j) = Some (Z.of_nat j).
Proof.
  unfold py_int. rewrite (digits_strip _ (nat_to_str_digits j)).
  pose proof (nat_to_str_all_digits j) as A. pose proof (nat_to_str_val j) as V.
  pose proof (nat_to_str_digits j) as D.
  destruct (nat_to_str j) as [|c r] eqn:E; [discriminate|].
  cbn [forallb] in D. apply andb_prop in D. destruct D as [Dc _].
  rewrite (digit_not c "+" eq_refl Dc), (digit_not c "-" eq_refl Dc), A, V.
  now rewrite nat_N_Z.
Qed.

Lemma Z_to_str_nat j : Z_to_str (Z.of_nat j) = nat_to_str j.
Proof. destruct j; reflexivity. Qed.

Lemma has_digit_name_idx p j : existsb is_digit (name_idx p j) = true.
Proof.
  unfold name_idx. rewrite !existsb_app. pose proof (nat_to_str_ne j) as N. pose proof (nat_to_str_digits j) as D.
  destruct (nat_to_str j) as [|c r]; [congruence|]. cbn [forallb] in D. apply andb_prop in D.
  cbn [existsb]. rewrite (proj1 D). now rewrite !orb_true_r.
Qed.

Lemma attrs_no_digit_Field : forallb (fun a => negb (existsb is_digit a)) cls_attrs_Field = true.
Proof. vm_compute. reflexivity. Qed.
Lemma attrs_no_digit_Component : forallb (fun a => negb (existsb is_digit a)) cls_attrs_Component = true.
Proof. vm_compute. reflexivity. Qed.
Lemma attrs_no_digit_Segment : forallb (fun a => negb (existsb is_digit a)) cls_attrs_Segment = true.
Proof. vm_compute. reflexivity. Qed.

Lemma digit_name_not_attr attrs n :
  forallb (fun a => negb (existsb is_digit a)) attrs = true -> existsb is_digit n = true -> smem n attrs = false.
Proof.
  intros H D. destruct (smem n attrs) eqn:E; [|reflexivity]. apply smem_true_iff in E.
  rewrite forallb_forall in H. specialize (H n E). rewrite D in H. discriminate.
Qed.

(* a name <x>_<j> in upper case is never taken for an attribute *)
Lemma guard_Field_idx p j : upper p = p -> guard_Field (name_idx p j) = false.
Proof.
  intros U. apply guard_Field_upper. rewrite name_idx_upper, U.
  apply digit_name_not_attr; [apply attrs_no_digit_Field|apply has_digit_name_idx].
Qed.
Lemma guard_Component_idx p j : upper p = p -> guard_Component (name_idx p j) = false.
Proof.
  intros U. apply guard_Component_upper. rewrite name_idx_upper, U.
  apply digit_name_not_attr; [apply attrs_no_digit_Component|apply has_digit_name_idx].
Qed.
Lemma guard_Segment_idx p j : upper p = p -> guard_Segment (name_idx p j) = false.
Proof.
  intros U. apply guard_Segment_upper. rewrite name_idx_upper, U.
  apply digit_name_not_attr; [apply attrs_no_digit_Segment|apply has_digit_name_idx].
Qed.

Lemma name_idx_upper_id p j : upper p = p -> upper (name_idx p j) = name_idx p j.
Proof. intros U. now rewrite name_idx_upper, U. Qed.

Lemma two_parts_join fname a b : bsplit US fname = [a; b] -> a ++ "_" ++ b = fname.
Proof.
  intros H. rewrite <- (bjoin_bsplit US fname), H. reflexivity.
Qed.

(* _get_traversal_children on <field>_<j> and <field>_<j>_<k> *)
Lemma traversal_children_comp fname a b j :
  upper fname = fname -> bsplit US fname = [a; b] ->
  get_traversal_children (Some fname) (name_idx fname j) = Some (Z.of_nat j, None).
Proof.
  intros U S. unfold get_traversal_children. rewrite (name_idx_upper_id _ _ U), bsplit_name_idx, S.
  cbn [app]. rewrite py_int_nat, (two_parts_join _ _ _ S). cbn [opt_eqb]. now rewrite streqb_refl.
Qed.

Lemma traversal_children_sub fname a b j k :
  upper fname = fname -> bsplit US fname = [a; b] ->
  get_traversal_children (Some fname) (name_idx (name_idx fname j) k) = Some (Z.of_nat j, Some (Z.of_nat k)).
Proof.
  intros U S. unfold get_traversal_children.
  rewrite (name_idx_upper_id _ k (name_idx_upper_id _ j U)), !bsplit_name_idx, S.
  cbn [app]. rewrite !py_int_nat, (two_parts_join _ _ _ S). cbn [opt_eqb]. now rewrite streqb_refl.
Qed.

(* positional path of a component: when the path is not itself a name, it is decoded and the
   component name <datatype>_<j> is looked up instead (any j, existing or not) *)
Lemma traverse_positional_comp k f fname a b j d :
  f_name f = Some fname -> upper fname = fname -> bsplit US fname = [a; b] ->
  f_dt f = Some d -> base t (Some d) = false ->
  field_find_child_reference t f (name_idx fname j) = Err (HL7 EChildNotFound) ->
  field_traverse t lvl (S k) f (name_idx fname j) = field_traverse t lvl k f (name_idx d j).
Proof.
  intros Hn U S D B H. cbn [field_traverse].
  rewrite (guard_Field_idx _ j U), (name_idx_upper_id _ j U), H, Hn.
  rewrite (traversal_children_comp _ _ _ j U S), D, B. cbn [andb str_of_opt].
  rewrite Z_to_str_nat. reflexivity.
Qed.

(* a field of base datatype: only <field>_1 exists, it is the component named like the datatype *)
Lemma traverse_positional_base k f fname a b j d :
  f_name f = Some fname -> upper fname = fname -> bsplit US fname = [a; b] ->
  f_dt f = Some d -> base t (Some d) = true -> bmem US d = false ->
  field_traverse t lvl (S k) f (name_idx fname j) =
  if Nat.eqb j 1 then field_traverse t lvl k f d else Err (HL7 EChildNotFound).
Proof.
  intros Hn U S D B Hd. cbn [field_traverse].
  rewrite (guard_Field_idx _ j U), (name_idx_upper_id _ j U).
  assert (F : field_find_child_reference t f (name_idx fname j) = Err (HL7 EChildNotFound)).
  { unfold field_find_child_reference. rewrite D, B. cbn [opt_eqb].
    destruct (streqb_spec (name_idx fname j) d) as [E|N]; [|reflexivity].
    exfalso. rewrite <- E in Hd. unfold name_idx, bmem, mem in Hd. rewrite existsb_app in Hd.
    cbn in Hd. rewrite orb_true_r in Hd. discriminate. }
  rewrite F, Hn, (traversal_children_comp _ _ _ j U S), D, B. cbn [andb opt_is_some opt_is_none negb orb str_of_opt].
  destruct (Nat.eqb_spec j 1) as [->|N]; [reflexivity|].
  replace (Z.of_nat j =? 1)%Z with false by (symmetry; apply Z.eqb_neq; lia). reflexivity.
Qed.

Lemma traverse_positional_base_sub k f fname a b j k' d :
  f_name f = Some fname -> upper fname = fname -> bsplit US fname = [a; b] ->
  f_dt f = Some d -> base t (Some d) = true -> bmem US d = false ->
  field_traverse t lvl (S k) f (name_idx (name_idx fname j) k') = Err (HL7 EChildNotFound).
Proof.
  intros Hn U S D B Hd. cbn [field_traverse].
  rewrite (guard_Field_idx _ k' (name_idx_upper_id _ j U)), (name_idx_upper_id _ k' (name_idx_upper_id _ j U)).
  assert (F : field_find_child_reference t f (name_idx (name_idx fname j) k') = Err (HL7 EChildNotFound)).
  { unfold field_find_child_reference. rewrite D, B. cbn [opt_eqb].
    destruct (streqb_spec (name_idx (name_idx fname j) k') d) as [E|N]; [|reflexivity].
    exfalso. rewrite <- E in Hd. unfold name_idx at 1 in Hd. unfold bmem, mem in Hd. rewrite existsb_app in Hd.
    cbn in Hd. rewrite orb_true_r in Hd. discriminate. }
  rewrite F, Hn, (traversal_children_sub _ _ _ j k' U S), D, B. reflexivity.
Qed.

(* positional path of a subcomponent *)
Lemma traverse_positional_sub k f fname a b j k' d :
  f_name f = Some fname -> upper fname = fname -> bsplit US fname = [a; b] ->
  f_dt f = Some d -> base t (Some d) = false ->
  field_find_child_reference t f (name_idx (name_idx fname j) k') = Err (HL7 EChildNotFound) ->
  field_traverse t lvl (S k) f (name_idx (name_idx fname j) k') =
  (do r <- field_traverse t lvl k f (name_idx d j);
   match r with
   | TChild ce =>
       do cref <- designated_component_ref f (name_idx d j);
       do cdt <- (match ref_info cref with Some i => Ok (i_dt i) | None => Err (Crash IndexError) end);
       do c <- component_of_entry t lvl ce;
       match comp_getattr t c (name_idx (str_of_opt cdt) k') with
       | Ok (TChild se) => Ok (TGrand ce se)
       | Ok _ => Err (Crash AttributeError)
       | Err x => Err x
       end
   | _ => Err (Crash AttributeError)
   end).
Proof.
  intros Hn U S D B H. cbn [field_traverse].
  rewrite (guard_Field_idx _ k' (name_idx_upper_id _ j U)), (name_idx_upper_id _ k' (name_idx_upper_id _ j U)).
  rewrite H, Hn, (traversal_children_sub _ _ _ j k' U S), D, B. cbn [andb str_of_opt].
  rewrite !Z_to_str_nat. reflexivity.
Qed.

(* looking a component up by its own name <datatype>_<j> under a complex field *)
Lemma traverse_by_name k f st d j ce :
  f_st f = Some st -> has_map_st st = true -> NoDup (map fst (st_by_name st)) ->
  base t (f_dt f) = false -> is_varies (f_dt f) = false -> upper d = d ->
  In (name_idx d j, ce) (st_by_name st) ->
  field_traverse t lvl (S k) f (name_idx d j) = Ok (TChild ce).
Proof.
  intros Hst M ND B V U I. cbn [field_traverse].
  rewrite (guard_Field_idx _ j U), (name_idx_upper_id _ j U).
  rewrite (field_find_complex f _ B V), Hst. unfold complex_find_child_reference. rewrite M.
  rewrite (name_idx_upper_id _ j U). unfold struct_lookup. now rewrite (by_name_hit st _ ce ND I).
Qed.

(* errors other than ChildNotFound are never reinterpreted as a positional path *)
Lemma traverse_find_ok k f n e :
  guard_Field n = false -> field_find_child_reference t f (upper n) = Ok e ->
  field_traverse t lvl (S k) f n = Ok (TChild e).
Proof. intros G H. cbn [field_traverse]. now rewrite G, H. Qed.

Lemma traverse_find_err k f n x :
  guard_Field n = false -> field_find_child_reference t f (upper n) = Err x -> x <> HL7 EChildNotFound ->
  field_traverse t lvl (S k) f n = Err x.
Proof.
  intros G H N. cbn [field_traverse]. rewrite G, H.
  destruct x as [c| | |]; try reflexivity. destruct c; try reflexivity. congruence.
Qed.

Lemma traverse_not_path k f n :
  guard_Field n = false -> field_find_child_reference t f (upper n) = Err (HL7 EChildNotFound) ->
  get_traversal_children (f_name f) n = None ->
  field_traverse t lvl (S k) f n = Err (HL7 EChildNotFound).
Proof. intros G H D. cbn [field_traverse]. now rewrite G, H, D. Qed.

(* <datatype>_<j> itself is not a positional path when the datatype's name has no '_' *)
Lemma component_name_not_path o d j : bmem US d = false -> get_traversal_children o (name_idx d j) = None.
Proof.
  intros H. unfold get_traversal_children.
  assert (N : bmem US (upper d) = false).
  { unfold bmem, mem, upper in *.
    destruct (existsb (fun y : byte => beqb y US) (map bupper d)) eqn:X; [|reflexivity].
    exfalso. apply existsb_exists in X. destruct X as [y [Iy Ey]]. apply in_map_iff in Iy.
    destruct Iy as [z [<- Iz]]. destruct (beqb_spec (bupper z) US) as [Ez|]; [|discriminate].
    assert (z = US) by (destruct z; try discriminate Ez; reflexivity). subst z.
    assert (existsb (fun y : byte => beqb y US) d = true) by (apply existsb_exists; exists US; split; [exact Iz|reflexivity]).
    congruence. }
  rewrite name_idx_upper, bsplit_name_idx, (bsplit_nosep US (upper d) (nosep_of_bmem _ _ N)).
  reflexivity.
Qed.

(* ---- the positional theorems in closed form ---- *)

(* <field>_<j> under a complex field = the component filed under <datatype>_<j> *)
Lemma positional_component f fname a b j d st ce :
  f_name f = Some fname -> upper fname = fname -> bsplit US fname = [a; b] ->
  f_dt f = Some d -> base t (Some d) = false -> is_varies (Some d) = false -> upper d = d ->
  f_st f = Some st -> has_map_st st = true -> NoDup (map fst (st_by_name st)) ->
  field_find_child_reference t f (name_idx fname j) = Err (HL7 EChildNotFound) ->
  In (name_idx d j, ce) (st_by_name st) ->
  field_getattr t lvl f (name_idx fname j) = Ok (TChild ce)
  /\ field_getattr t lvl f (name_idx d j) = Ok (TChild ce).
Proof.
  intros Hn U S D B V Ud Hst M ND H I. unfold field_getattr.
  assert (B' : base t (f_dt f) = false) by now rewrite D.
  assert (V' : is_varies (f_dt f) = false) by now rewrite D.
  split.
  - rewrite (traverse_positional_comp 2 f fname a b j d Hn U S D B H).
    now apply (traverse_by_name 1 f st d j ce).
  - now apply (traverse_by_name 2 f st d j ce).
Qed.

(* an index beyond the components of the datatype designates nothing *)
Lemma positional_no_component f fname a b j d :
  f_name f = Some fname -> upper fname = fname -> bsplit US fname = [a; b] ->
  f_dt f = Some d -> base t (Some d) = false -> upper d = d -> bmem US d = false ->
  field_find_child_reference t f (name_idx fname j) = Err (HL7 EChildNotFound) ->
  forall x, field_find_child_reference t f (name_idx d j) = Err x -> not_such x ->
  field_getattr t lvl f (name_idx fname j) = Err x.
Proof.
  intros Hn U S D B Ud Hd H x Hx NS. unfold field_getattr.
  rewrite (traverse_positional_comp 2 f fname a b j d Hn U S D B H).
  pose proof (guard_Field_idx d j Ud) as G. pose proof (name_idx_upper_id d j Ud) as Up.
  destruct NS as [->| ->].
  - apply traverse_not_path; [exact G|now rewrite Up|now apply component_name_not_path].
  - apply traverse_find_err; [exact G|now rewrite Up|discriminate].
Qed.

(* <field>_<j>_<k> = the subcomponent filed under <component datatype>_<k> of component j *)
Lemma positional_subcomponent f fname a b j k d st ce i2 d2 c st2 se :
  f_name f = Some fname -> upper fname = fname -> bsplit US fname = [a; b] ->
  f_dt f = Some d -> base t (Some d) = false -> is_varies (Some d) = false -> upper d = d ->
  f_st f = Some st -> has_map_st st = true -> NoDup (map fst (st_by_name st)) ->
  field_find_child_reference t f (name_idx (name_idx fname j) k) = Err (HL7 EChildNotFound) ->
  In (name_idx d j, ce) (st_by_name st) ->
  ref_info (se_ref ce) = Some i2 -> i_dt i2 = Some d2 -> upper d2 = d2 ->
  component_of_entry t lvl ce = Ok c -> c_st c = Some st2 -> has_map_st st2 = true ->
  NoDup (map fst (st_by_name st2)) -> In (name_idx d2 k, se) (st_by_name st2) ->
  field_getattr t lvl f (name_idx (name_idx fname j) k) = Ok (TGrand ce se)
  /\ comp_getattr t c (name_idx d2 k) = Ok (TChild se).
Proof.
  intros Hn U S D B V Ud Hst M ND H I R Dt Ud2 C Hst2 M2 ND2 I2.
  assert (B' : base t (f_dt f) = false) by now rewrite D.
  assert (V' : is_varies (f_dt f) = false) by now rewrite D.
  assert (G : comp_getattr t c (name_idx d2 k) = Ok (TChild se)).
  { unfold comp_getattr. rewrite (guard_Component_idx d2 k Ud2), (name_idx_upper_id d2 k Ud2).
    unfold comp_find_child_reference, complex_find_child_reference. rewrite Hst2, M2.
    rewrite (name_idx_upper_id d2 k Ud2). unfold struct_lookup.
    now rewrite (by_name_hit st2 _ se ND2 I2). }
  split; [|exact G]. unfold field_getattr.
  rewrite (traverse_positional_sub 2 f fname a b j k d Hn U S D B H).
  rewrite (traverse_by_name 1 f st d j ce Hst M ND B' V' Ud I). cbn [bind].
  unfold designated_component_ref. rewrite Hst, M, (by_name_hit st _ ce ND I). cbn [bind se_ref].
  rewrite R, Dt, C. cbn [bind str_of_opt]. now rewrite G.
Qed.

(* a subcomponent index beyond those of the component designates nothing: the component's answer
   (ChildNotFound / ChildNotValid) is the path's answer *)
Lemma positional_no_subcomponent f fname a b j k d st ce i2 d2 c x :
  f_name f = Some fname -> upper fname = fname -> bsplit US fname = [a; b] ->
  f_dt f = Some d -> base t (Some d) = false -> is_varies (Some d) = false -> upper d = d ->
  f_st f = Some st -> has_map_st st = true -> NoDup (map fst (st_by_name st)) ->
  field_find_child_reference t f (name_idx (name_idx fname j) k) = Err (HL7 EChildNotFound) ->
  In (name_idx d j, ce) (st_by_name st) ->
  ref_info (se_ref ce) = Some i2 -> i_dt i2 = Some d2 ->
  component_of_entry t lvl ce = Ok c -> comp_getattr t c (name_idx d2 k) = Err x ->
  field_getattr t lvl f (name_idx (name_idx fname j) k) = Err x.
Proof.
  intros Hn U S D B V Ud Hst M ND H I R Dt C G.
  assert (B' : base t (f_dt f) = false) by now rewrite D.
  assert (V' : is_varies (f_dt f) = false) by now rewrite D.
  unfold field_getattr.
  rewrite (traverse_positional_sub 2 f fname a b j k d Hn U S D B H).
  rewrite (traverse_by_name 1 f st d j ce Hst M ND B' V' Ud I). cbn [bind].
  unfold designated_component_ref. rewrite Hst, M, (by_name_hit st _ ce ND I). cbn [bind se_ref].
  rewrite R, Dt, C. cbn [bind str_of_opt]. now rewrite G.
Qed.

(* a field of datatype varies: VARIES_<j> by its positional path, and no subcomponent path at all
   (the field has no component structure to decode <k> against): ChildNotFound *)
Lemma traverse_varies_comp k f j : j <> 0 ->
  f_dt f = Some (unbs "varies") -> base t (Some (unbs "varies")) = false ->
  field_traverse t lvl (S k) f (name_idx (unbs "varies") j) =
  Ok (TChild (mk_sentry (name_idx (unbs "VARIES") j) varies_leaf CMP)).
Proof.
  intros Hj D B. cbn [field_traverse].
  assert (U : upper (name_idx (unbs "varies") j) = name_idx (unbs "VARIES") j) by (rewrite name_idx_upper; reflexivity).
  rewrite guard_Field_upper
    by (rewrite U; apply digit_name_not_attr; [apply attrs_no_digit_Field|apply has_digit_name_idx]).
  rewrite U. unfold field_find_child_reference. rewrite D, B.
  change (is_varies (Some (unbs "varies"))) with true. rewrite valid_child_name_idx by exact Hj.
  reflexivity.
Qed.

(* VARIES_0 without any premise on the tables: refused, or the DATATYPES entry of that very name *)
Lemma traverse_varies_comp_0_cases k f :
  f_dt f = Some (unbs "varies") -> base t (Some (unbs "varies")) = false ->
  (forall st, f_st f = Some st -> has_map_st st = false) ->
  field_traverse t lvl (S k) f (name_idx (unbs "varies") 0) = Err (HL7 EChildNotFound)
  \/ exists e, field_traverse t lvl (S k) f (name_idx (unbs "varies") 0) = Ok (TChild e).
Proof.
  intros D B NM. cbn [field_traverse].
  assert (U : upper (name_idx (unbs "varies") 0) = name_idx (unbs "VARIES") 0) by reflexivity.
  rewrite guard_Field_upper
    by (rewrite U; apply digit_name_not_attr; [apply attrs_no_digit_Field|apply has_digit_name_idx]).
  rewrite U. unfold field_find_child_reference. rewrite D, B.
  change (is_varies (Some (unbs "varies"))) with true. rewrite valid_child_name_idx_0. cbn [andb].
  unfold complex_find_child_reference. change (upper (name_idx (unbs "VARIES") 0)) with (name_idx (unbs "VARIES") 0).
  assert (G : get_traversal_children (f_name f) (name_idx (unbs "varies") 0) = None) by reflexivity.
  destruct (f_st f) as [st|] eqn:Hst; [rewrite (NM st eq_refl)|];
    (destruct (slookup (name_idx (unbs "VARIES") 0) (t_components t)); [right; eexists; reflexivity|left; now rewrite G]).
Qed.

(* positions start at 1: VARIES_0 is no component of a varies field (unless the tables define a
   datatype of that very name) *)
Lemma traverse_varies_comp_0 k f :
  f_dt f = Some (unbs "varies") -> base t (Some (unbs "varies")) = false ->
  (forall st, f_st f = Some st -> has_map_st st = false) ->
  slookup (name_idx (unbs "VARIES") 0) (t_components t) = None ->
  field_traverse t lvl (S k) f (name_idx (unbs "varies") 0) = Err (HL7 EChildNotFound).
Proof.
  intros D B NM NC. cbn [field_traverse].
  assert (U : upper (name_idx (unbs "varies") 0) = name_idx (unbs "VARIES") 0) by reflexivity.
  rewrite guard_Field_upper
    by (rewrite U; apply digit_name_not_attr; [apply attrs_no_digit_Field|apply has_digit_name_idx]).
  rewrite U. unfold field_find_child_reference. rewrite D, B.
  change (is_varies (Some (unbs "varies"))) with true. rewrite valid_child_name_idx_0. cbn [andb].
  assert (C : complex_find_child_reference t (f_st f) (name_idx (unbs "VARIES") 0) = Err (HL7 EChildNotFound)).
  { unfold complex_find_child_reference. change (upper (name_idx (unbs "VARIES") 0)) with (name_idx (unbs "VARIES") 0).
    destruct (f_st f) as [st|] eqn:Hst; [rewrite (NM st eq_refl)|]; now rewrite NC. }
  rewrite C. destruct (f_name f); reflexivity.
Qed.

Lemma positional_varies f fname a b :
  f_name f = Some fname -> upper fname = fname -> bsplit US fname = [a; b] ->
  f_dt f = Some (unbs "varies") -> base t (Some (unbs "varies")) = false ->
  (forall st, f_st f = Some st -> has_map_st st = false) ->
  (forall j, j <> 0 -> field_find_child_reference t f (name_idx fname j) = Err (HL7 EChildNotFound) ->
             field_getattr t lvl f (name_idx fname j) =
             Ok (TChild (mk_sentry (name_idx (unbs "VARIES") j) varies_leaf CMP)))
  /\ (slookup (name_idx (unbs "VARIES") 0) (t_components t) = None ->
      field_find_child_reference t f (name_idx fname 0) = Err (HL7 EChildNotFound) ->
      field_getattr t lvl f (name_idx fname 0) = Err (HL7 EChildNotFound))
  /\ (forall j k, field_find_child_reference t f (name_idx (name_idx fname j) k) = Err (HL7 EChildNotFound) ->
                  field_getattr t lvl f (name_idx (name_idx fname j) k) = Err (HL7 EChildNotFound)).
Proof.
  intros Hn U S D B NM. unfold field_getattr. split; [|split].
  - intros j Hj H. rewrite (traverse_positional_comp 2 f fname a b j _ Hn U S D B H).
    now apply traverse_varies_comp.
  - intros NC H. rewrite (traverse_positional_comp 2 f fname a b 0 _ Hn U S D B H).
    now apply traverse_varies_comp_0.
  - intros j k H. rewrite (traverse_positional_sub 2 f fname a b j k _ Hn U S D B H).
    assert (DR : forall cn, designated_component_ref f cn = Err (HL7 EChildNotFound)).
    { intros cn. unfold designated_component_ref. destruct (f_st f) as [st|] eqn:Hst; [|reflexivity].
      now rewrite (NM st eq_refl). }
    destruct (Nat.eq_dec j 0) as [->|Hj].
    + destruct (traverse_varies_comp_0_cases 1 f D B NM) as [T|[e' T]]; rewrite T; cbn [bind]; [reflexivity|].
      now rewrite DR.
    + rewrite (traverse_varies_comp 1 f j Hj D B). cbn [bind]. now rewrite DR.
Qed.


(* a field of base datatype: <field>_1 is its one component; every other index, and every
   subcomponent path, designates nothing *)
Lemma positional_base f fname a b d :
  f_name f = Some fname -> upper fname = fname -> bsplit US fname = [a; b] ->
  f_dt f = Some d -> base t (Some d) = true -> bmem US d = false -> upper d = d -> guard_Field d = false ->
  field_getattr t lvl f (name_idx fname 1) = Ok (TChild (mk_sentry d (SLeaf (mk_info (Some d) None None (-1))) CMP))
  /\ (forall j, j <> 1 -> field_getattr t lvl f (name_idx fname j) = Err (HL7 EChildNotFound))
  /\ (forall j k, field_getattr t lvl f (name_idx (name_idx fname j) k) = Err (HL7 EChildNotFound)).
Proof.
  intros Hn U S D B Hd Ud G. unfold field_getattr. repeat split.
  - rewrite (traverse_positional_base 2 f fname a b 1 d Hn U S D B Hd). cbn [Nat.eqb].
    apply traverse_find_ok; [exact G|]. rewrite Ud. unfold field_find_child_reference. rewrite D, B.
    cbn [opt_eqb]. now rewrite streqb_refl.
  - intros j Hj. rewrite (traverse_positional_base 2 f fname a b j d Hn U S D B Hd).
    destruct (Nat.eqb_spec j 1); [contradiction|reflexivity].
  - intros j k. now apply (traverse_positional_base_sub 2 f fname a b j k d).
Qed.

(* ------------------------------------------------------------------ *)
(* the parents the library builds from an entry's reference             *)

Lemma mk_field_with_ref n r st :
  parse_structure t r = Ok st ->
  mk_field t lvl (Some n) None (Some r) = Ok (mk_field_rec (Some (upper n)) (st_dt (Some st)) (Some st) []).
Proof.
  intros P. unfold mk_field. cbn [is_varies opt_eqb andb]. unfold structure_for. rewrite P. cbn [bind].
  reflexivity.
Qed.

Lemma mk_component_with_ref n r st d :
  parse_structure t r = Ok st -> st_dt (Some st) = Some d ->
  valid_child_name (Some n) (Some (unbs "VARIES")) = false -> n <> [] ->
  (is_strict lvl = true -> streqb (upper n) d = false) ->
  mk_component t lvl (Some n) None (Some r) = Ok (mk_comp (Some (upper n)) (Some d) (Some st) []).
Proof.
  intros P Dt NV NE Hs. unfold mk_component, canbevaries. cbn [is_varies opt_eqb andb].
  rewrite andb_false_r. cbn [bind andb negb]. rewrite NV. unfold structure_for. rewrite P. cbn [bind].
  rewrite Dt. destruct n as [|c n']; [congruence|]. cbn [upper map negb andb]. rewrite !andb_false_r.
  cbn [bind opt_eqb andb].
  destruct (is_strict lvl) eqn:L.
  - specialize (Hs eq_refl). cbn [upper map] in Hs. rewrite Hs. reflexivity.
  - now rewrite andb_false_r.
Qed.

End Facts.

(* ------------------------------------------------------------------ *)
(* what the finite obligations (Model/Resolve.v, section Oblig) mean    *)

Lemma flat_map_nil {A B} (f : A -> list B) l : flat_map f l = [] -> forall x, In x l -> f x = [].
Proof.
  induction l as [|a l IH]; cbn [flat_map]; [intros _ x []|].
  intros H x [<-|I]; apply app_eq_nil in H; destruct H as [H1 H2]; [exact H1|now apply IH].
Qed.

Lemma is_nil_true {A} (l : list A) : is_nil l = true -> l = [].
Proof. destruct l; [reflexivity|discriminate]. Qed.

Lemma nodupb_NoDup (l : list str) : nodupb streqb l = true -> NoDup l.
Proof.
  induction l as [|x r IH]; cbn [nodupb]; [constructor|].
  intros H. apply andb_prop in H. destruct H as [H1 H2]. constructor; [|now apply IH].
  intros I. apply negb_true_iff in H1. unfold mem in H1.
  assert (existsb (fun y => streqb y x) r = true) by (apply existsb_exists; exists x; split; [exact I|apply streqb_refl]).
  congruence.
Qed.

Lemma keys_ok_NoDup st : keys_ok st = true -> NoDup (map fst (st_by_name st)).
Proof. unfold keys_ok. intros H. apply andb_prop in H. now apply nodupb_NoDup. Qed.

Section ObligFacts.
Variable t : tables.
Variable lvl : level.

Lemma check_rows_ok label get res es :
  fst (check_rows label get res es) = [] -> forall e, In e es -> fst (row_check get res es e) = true.
Proof.
  unfold check_rows. cbn [fst]. intros H e I.
  pose proof (flat_map_nil _ _ H (e, row_check get res es e)) as F.
  cbn [fst snd] in F. destruct (fst (row_check get res es e)); [reflexivity|].
  discriminate F. apply in_map_iff. exists e. auto.
Qed.

Lemma reaches_spec get key n : reaches get key n = true -> exists e, get n = Ok (TChild e) /\ se_name e = key.
Proof.
  unfold reaches. destruct (get n) as [[|e0|]|]; try discriminate. intros H. exists e0. split; [reflexivity|].
  now apply streqb_eq.
Qed.

(* one row of a parent whose rows all passed: its HL7 name, in any letter case, reaches it; so does
   its long name unless the row is exempt *)
Definition row_reached (get : str -> result target) (res : list str) (es : list sentry) (e : sentry) : Prop :=
  upper (se_name e) = se_name e /\ smem (se_name e) res = false /\
  (exists e', get (se_name e) = Ok (TChild e') /\ se_name e' = se_name e) /\
  (forall l, classify_long res es e = LOk l ->
     smem (upper l) res = false /\ exists e', get l = Ok (TChild e') /\ se_name e' = se_name e).

Lemma classify_ok_reserved res es e l : classify_long res es e = LOk l -> smem (upper l) res = false.
Proof.
  unfold classify_long. destruct (long_of e) as [l0|]; [|discriminate].
  destruct (Nat.ltb _ _); [discriminate|]. destruct (existsb _ es); [discriminate|].
  destruct (smem (upper l0) res) eqn:E; [discriminate|]. now intros [= <-].
Qed.

Lemma row_check_spec get res es e : fst (row_check get res es e) = true -> row_reached get res es e.
Proof.
  unfold row_check. cbn [fst]. intros H.
  apply andb_prop in H. destruct H as [H Hl]. apply andb_prop in H. destruct H as [H Hr].
  apply andb_prop in H. destruct H as [Hu Hk]. unfold row_reached.
  split; [now apply streqb_eq|]. split; [now apply negb_true_iff|]. split; [now apply reaches_spec|].
  intros l C. rewrite C in Hl. split; [eapply classify_ok_reserved, C|now apply reaches_spec].
Qed.

(* lifting a row to every letter case of its spellings, for the three kinds of parent *)
Lemma reached_any_case p res es e :
  forallb (fun a => smem a res) (cls_attrs_of p) = true ->
  row_reached (resolve t lvl p) res es e ->
  (forall n, upper n = se_name e -> exists e', resolve t lvl p n = Ok (TChild e') /\ se_name e' = se_name e) /\
  (forall l, classify_long res es e = LOk l ->
     forall n, upper n = upper l -> exists e', resolve t lvl p n = Ok (TChild e') /\ se_name e' = se_name e).
Proof.
  intros Sub (U & R & (e1 & G1 & N1) & L). split.
  - intros n En. exists e1. split; [|exact N1]. rewrite <- G1. apply resolve_case.
    + now rewrite En, U.
    + rewrite En. eapply not_reserved_not_attr; eauto.
  - intros l C n En. destruct (L l C) as (Rl & e2 & G2 & N2). exists e2. split; [|exact N2].
    rewrite <- G2. apply resolve_case; [exact En|]. rewrite En. eapply not_reserved_not_attr; eauto.
Qed.

(* ---- segments ---- *)
Lemma check_segment_spec p :
  fst (fst (check_segment t p)) = [] ->
  exists s, parent_segment t (fst p) = Ok s /\ has_map_st (s_st s) = true /\ keys_ok (s_st s) = true /\
            unplain_refused t s (fst p) = true /\
            forall e, In e (entries (s_st s)) ->
                      row_reached (resolve t lvl (PSeg s)) reserved_Segment (entries (s_st s)) e.
Proof.
  unfold check_segment. destruct (parent_segment t (fst p)) as [s|x]; [|discriminate].
  destruct (has_map_st (s_st s) && keys_ok (s_st s)) eqn:E; [|discriminate].
  apply andb_prop in E. destruct E as [M K]. cbn [fst snd]. intros H.
  apply app_eq_nil in H. destruct H as [H Hu].
  exists s. split; [reflexivity|]. split; [exact M|]. split; [exact K|].
  split; [destruct (unplain_refused t s (fst p)); [reflexivity|discriminate]|].
  intros e I. apply row_check_spec.
  exact (check_rows_ok _ _ _ _ H e I).
Qed.

(* what a refused probe says *)
Lemma refused_spec r : refused r = true -> exists x, r = Err x /\ not_such x.
Proof.
  destruct r as [v|[c| | |]]; try discriminate. destruct c; try discriminate; intros _; eexists; split; try reflexivity.
  - now left.
  - now right.
Qed.

Lemma unplain_refused_spec s name : unplain_refused t s name = true ->
  forall sfx, In sfx unplain_probes -> forall n, n = name ++ sfx \/ n = lower name ++ sfx ->
  exists x, resolve t lvl (PSeg s) n = Err x /\ not_such x.
Proof.
  unfold unplain_refused. intros H sfx I n Hn. rewrite forallb_forall in H. specialize (H sfx I).
  apply andb_prop in H. destruct H as [H1 H2]. cbn [resolve].
  destruct Hn as [->| ->]; now apply refused_spec.
Qed.

(* ---- complex datatypes seen from a field ---- *)
Lemma check_struct_spec fields p :
  fst (check_struct t lvl fields p) = [] ->
  exists f st, struct_field t (fst p) = Ok f /\ f_st f = Some st /\ has_map_st st = true /\ keys_ok st = true /\
               base t (f_dt f) = false /\ is_varies (f_dt f) = false /\ upper (fst p) = fst p /\
               struct_clean fields st = true /\
               forall e, In e (entries st) -> row_reached (resolve t lvl (PField f)) reserved_Field (entries st) e.
Proof.
  unfold check_struct. destruct (struct_field t (fst p)) as [f|x]; [|discriminate].
  destruct (f_st f) as [st|] eqn:Hst; [|discriminate].
  destruct (has_map_st st && keys_ok st && negb (base t (f_dt f)) && negb (is_varies (f_dt f))
            && streqb (upper (fst p)) (fst p) && struct_clean fields st) eqn:E; [|discriminate].
  apply andb_prop in E. destruct E as [E SC]. apply andb_prop in E. destruct E as [E U].
  apply andb_prop in E. destruct E as [E V]. apply andb_prop in E. destruct E as [E B].
  apply andb_prop in E. destruct E as [M K]. apply negb_true_iff in B, V. apply streqb_eq in U. intros H.
  exists f, st. split; [reflexivity|]. split; [exact Hst|]. split; [exact M|]. split; [exact K|].
  split; [exact B|]. split; [exact V|]. split; [exact U|]. split; [exact SC|].
  intros e I. apply row_check_spec. exact (check_rows_ok _ _ _ _ H e I).
Qed.

(* ---- component parents ---- *)
Lemma check_component_spec p :
  fst (check_component t lvl p) = [] ->
  exists c, component_of_entry t lvl (mk_sentry (fst p) (snd p) CMP) = Ok c /\
            forall st, c_st c = Some st -> has_map_st st = true ->
                       keys_ok st = true /\
                       forall e, In e (entries st) ->
                                 row_reached (resolve t lvl (PComp c)) reserved_Component (entries st) e.
Proof.
  unfold check_component. destruct (component_of_entry t lvl _) as [c|x]; [|discriminate].
  intros H. exists c. split; [reflexivity|]. intros st Hst M. rewrite Hst, M in H.
  destruct (keys_ok st) eqn:K; [|discriminate]. split; [reflexivity|].
  intros e I. apply row_check_spec. exact (check_rows_ok _ _ _ _ H e I).
Qed.

(* ---- the whole report ---- *)
Lemma report_fine_parts :
  report_fine (report t lvl) = true ->
  (forall p, In p (real_segments t) -> fst (fst (check_segment t p)) = []) /\
  (forall p, In p (t_structs t) -> fst (check_struct t lvl (map fst (field_parents t)) p) = []) /\
  (forall p, In p (t_components t) -> fst (check_component t lvl p) = []) /\
  (forall p, In p (field_parents t) -> field_parent_ok t p = true) /\
  paths_clean t = true.
Proof.
  unfold report_fine, report. cbn [r_bad_segments r_bad_structs r_bad_components r_bad_field_parents r_paths_clean].
  intros H. apply andb_prop in H. destruct H as [H P]. apply andb_prop in H. destruct H as [H F].
  apply andb_prop in H. destruct H as [H C]. apply andb_prop in H. destruct H as [S T].
  apply is_nil_true in S, T, C, F.
  repeat split; try assumption.
  - intros p I. apply (flat_map_nil _ _ S (check_segment t p)). now apply in_map.
  - intros p I. apply (flat_map_nil _ _ T (check_struct t lvl (map fst (field_parents t)) p)).
    apply in_map_iff. exists p. auto.
  - intros p I. apply (flat_map_nil _ _ C (check_component t lvl p)). now apply in_map.
  - intros p I. destruct (field_parent_ok t p) eqn:E; [reflexivity|]. exfalso.
    assert (In p (filter (fun p => negb (field_parent_ok t p)) (field_parents t))) as I'
        by (apply filter_In; split; [exact I|now rewrite E]).
    apply (in_map fst) in I'. rewrite F in I'. destruct I'.
Qed.

(* ---- positional hygiene ---- *)
Lemma path_shaped_comp fields fname a b j :
  In fname fields -> upper fname = fname -> bsplit US fname = [a; b] ->
  path_shaped fields (name_idx fname j) = true.
Proof.
  intros I U S. unfold path_shaped. rewrite (name_idx_upper_id _ j U), bsplit_name_idx, S. cbn [app].
  rewrite py_int_nat, (two_parts_join _ _ _ S). cbn [opt_is_some opt_is_none negb andb].
  now apply smem_true_iff.
Qed.

Lemma path_shaped_sub fields fname a b j k :
  In fname fields -> upper fname = fname -> bsplit US fname = [a; b] ->
  path_shaped fields (name_idx (name_idx fname j) k) = true.
Proof.
  intros I U S. unfold path_shaped.
  rewrite (name_idx_upper_id _ k (name_idx_upper_id _ j U)), !bsplit_name_idx, S. cbn [app].
  rewrite !py_int_nat, (two_parts_join _ _ _ S). cbn [opt_is_some opt_is_none negb andb].
  now apply smem_true_iff.
Qed.

(* the maps of the structure of a field of complex datatype depend on the datatype only *)
Lemma parse_structure_dt i i' st' :
  i_dt i = i_dt i' -> parse_structure t (SSeqDt i') = Ok st' ->
  exists st, parse_structure t (SSeqDt i) = Ok st /\ st_info st = Some i /\
             st_ordered st = st_ordered st' /\ st_by_name st = st_by_name st' /\ st_by_long st = st_by_long st'.
Proof.
  unfold parse_structure, view_of. intros E. rewrite E.
  destruct (i_dt i') as [d|]; [|discriminate].
  destruct (slookup d (t_structs t)) as [rows|]; [|discriminate].
  destruct (parse_children (map (row_view t) rows) [] [] [] [] []) as [[[[o b] l] r]|x]; [|discriminate].
  intros [= <-]. eexists. split; [reflexivity|]. cbn. auto.
Qed.

(* under a field whose maps are those of a clean structure, a positional path of a listed field is
   not itself a name: find_child_reference answers ChildNotFound and the path is decoded *)
Lemma clean_path_not_found fields f st st0 P :
  f_st f = Some st -> base t (f_dt f) = false -> is_varies (f_dt f) = false ->
  st_ordered st = st_ordered st0 -> st_by_name st = st_by_name st0 -> st_by_long st = st_by_long st0 ->
  has_map_st st0 = true -> struct_clean fields st0 = true ->
  forallb (fun k => negb (path_shaped fields k)) (map fst (t_components t)) = true ->
  path_shaped fields P = true -> upper P = P ->
  field_find_child_reference t f P = Err (HL7 EChildNotFound).
Proof.
  intros Hst B V O N L M SC PC PS U.
  rewrite (field_find_complex t f P B V), Hst. unfold complex_find_child_reference.
  assert (M' : has_map_st st = true) by (unfold has_map_st in *; now rewrite O).
  rewrite M', U.
  unfold struct_clean in SC. apply andb_prop in SC. destruct SC as [SN SL].
  rewrite forallb_forall in SN, SL, PC.
  assert (LK : struct_lookup st P = None).
  { unfold struct_lookup. destruct (by_name st P) as [e|] eqn:X.
    - exfalso. apply by_name_In in X. rewrite N in X. specialize (SN _ X). cbn [fst] in SN.
      rewrite PS in SN. discriminate.
    - destruct (by_long st P) as [e|] eqn:Y; [|reflexivity].
      exfalso. apply by_long_In in Y. rewrite L in Y. specialize (SL _ Y). cbn [fst] in SL.
      rewrite PS in SL. discriminate. }
  rewrite LK. destruct (slookup P (t_components t)) as [r|] eqn:X; [|reflexivity].
  exfalso. apply slookup_In in X. apply (in_map fst) in X. cbn [fst] in X. specialize (PC _ X).
  rewrite PS in PC. discriminate.
Qed.

End ObligFacts.
