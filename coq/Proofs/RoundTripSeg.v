(* The table-driven round trip / position proofs: segments, fields, components and subcomponents
   whose names and datatypes come from well-formed table rows (Model/Wf.v). *)
From Coq Require Import List Bool Arith ZArith NArith Lia Init.Byte.
From HL7 Require Import Lib.Str Model.Ec Model.Result Model.Ref Model.Tree Model.Parser Model.Encode Model.Wf.
From HL7 Require Import Proofs.SplitJoin Proofs.LevelCodec Proofs.RoundTripStr Proofs.RoundTripCore Proofs.RoundTripVT.
Import ListNotations.
Open Scope bs_scope.
Open Scope res_scope.

(* ------------------------------------------------------------------ *)
(* association lists                                                    *)

Lemma slookup_app {B} k (l m : list (str * B)) :
  slookup k (l ++ m) = match slookup k l with Some v => Some v | None => slookup k m end.
Proof.
  unfold slookup. induction l as [|[k' v] l IH]; [reflexivity|]. cbn [app alookup].
  destruct (leqb beqb k k'); [reflexivity|exact IH].
Qed.

Lemma slookup_none {B} k (l : list (str * B)) : ~ In k (map fst l) -> slookup k l = None.
Proof.
  unfold slookup. induction l as [|[k' v] l IH]; [reflexivity|]. cbn [map fst In alookup]. intros H.
  destruct (leqb beqb k k') eqn:E.
  - apply (streqb_eq k k') in E. subst. tauto.
  - apply IH. tauto.
Qed.

Lemma slookup_cons_ne {B} k k' (v : B) l : k <> k' -> slookup k ((k', v) :: l) = slookup k l.
Proof.
  intros H. unfold slookup. cbn [alookup]. change (leqb beqb k k') with (streqb k k').
  destruct (streqb_spec k k'); [congruence|reflexivity].
Qed.

Lemma slookup_cons_eq {B} k (v : B) l : slookup k ((k, v) :: l) = Some v.
Proof. unfold slookup. cbn [alookup]. change (leqb beqb k k) with (streqb k k). now rewrite streqb_refl. Qed.

Lemma slookup_rev_nodup {B} k (l : list (str * B)) : NoDup (map fst l) -> slookup k (rev l) = slookup k l.
Proof.
  induction l as [|[k' v] l IH]; [reflexivity|]. cbn [map fst rev]. intros H.
  inversion H as [|? ? Hk Hn]; subst. rewrite slookup_app, (IH Hn).
  destruct (streqb_spec k k') as [->|N].
  - rewrite (slookup_none k' l Hk). now rewrite !slookup_cons_eq.
  - rewrite !(slookup_cons_ne k k') by exact N. now destruct (slookup k l).
Qed.

Lemma slookup_in {B} k (l : list (str * B)) v : slookup k l = Some v -> In (k, v) l.
Proof.
  unfold slookup. induction l as [|[k' v'] l IH]; [discriminate|]. cbn [alookup].
  destruct (leqb beqb k k') eqn:E.
  - apply (streqb_eq k k') in E. subst. intros H. injection H as <-. now left.
  - intros H. right. now apply IH.
Qed.

Section Struct.
Variable t : tables.

(* ------------------------------------------------------------------ *)
(* the structure built from contiguous rows NAME_a, NAME_a+1, ...       *)

Fixpoint row_entries (prefix : str) (k : kind) (a : nat) (rows : list srow) : list (str * sentry) :=
  match rows with
  | [] => []
  | r :: rest =>
      match row_ref t r with
      | Some x => (name_idx prefix a, mk_sentry (name_idx prefix a) x k) :: row_entries prefix k (S a) rest
      | None => []
      end
  end.

Definition rows_resolved (rows : list srow) : Prop := forall x, In x rows -> row_ref t x <> None.

Lemma kind_eqb_eq a b : kind_eqb a b = true -> a = b.
Proof. destruct a, b; cbn; congruence. Qed.

Lemma row_view_ok prefix k a x rest :
  rows_contiguous prefix k a (x :: rest) = true -> row_ref t x <> None ->
  exists r mn mx, row_view t x = Some (mk_vchild (name_idx prefix a) r mn mx k) /\ row_ref t x = Some r /\
                  rows_contiguous prefix k (S a) rest = true.
Proof.
  cbn [rows_contiguous]. intros H Hr.
  destruct x as [k' nm mn mx|k' nm r mn mx|]; cbn [row_name] in H; [| |discriminate].
  - repeat (apply andb_prop in H; destruct H as [H ?H]).
    apply kind_eqb_eq in H. apply streqb_eq in H3. subst k' nm.
    cbn [row_ref] in *. cbn [row_view]. destruct (slookup (name_idx prefix a) (table_of t k)) as [r|]; [|congruence].
    exists r, mn, mx. auto.
  - repeat (apply andb_prop in H; destruct H as [H ?H]).
    apply kind_eqb_eq in H. apply streqb_eq in H3. subst k' nm.
    exists r, mn, mx. auto.
Qed.

Lemma parse_children_contig prefix k : forall rows a (seen ord : list str) (byn : list (str * sentry))
    (byl : list (option str * sentry)) (reps : list (str * (Z * Z))),
  rows_contiguous prefix k a rows = true -> rows_resolved rows ->
  (forall j, a <= j -> slookup (name_idx prefix j) byn = None) ->
  exists byl' reps',
    parse_children (map (row_view t) rows) seen ord byn byl reps =
    Ok (rev ord ++ map (name_idx prefix) (seq a (length rows)), rev byn ++ row_entries prefix k a rows, byl', reps').
Proof.
  induction rows as [|x rows IH]; intros a seen ord byn byl reps Hc Hr Hb.
  - exists (rev byl), (rev reps). cbn. now rewrite !app_nil_r.
  - destruct (row_view_ok prefix k a x rows Hc (Hr x (or_introl eq_refl))) as [r [mn [mx [Hv [Hx Hc']]]]].
    cbn [map parse_children]. rewrite Hv. rewrite (Hb a (le_n a)).
    set (e0 := mk_sentry (name_idx prefix a) r k).
    destruct (IH (S a) (name_idx prefix a :: seen) (name_idx prefix a :: ord) ((name_idx prefix a, e0) :: byn)
                 (match ref_long r with Some l => (l, e0) :: byl | None => byl end)
                 ((name_idx prefix a, (mn, mx)) :: reps) Hc') as [byl' [reps' E]].
    + intros y Hy. apply Hr. now right.
    + intros j Hj. rewrite slookup_cons_ne.
      * apply Hb. lia.
      * intros E. apply name_idx_inj in E. lia.
    + exists byl', reps'. eapply eq_trans; [exact E|]. cbn [rev length seq map row_entries]. rewrite Hx.
      fold e0. now rewrite <- !app_assoc.
Qed.

Lemma row_entries_keys prefix k : forall rows a, rows_resolved rows ->
  map fst (row_entries prefix k a rows) = map (name_idx prefix) (seq a (length rows)).
Proof.
  induction rows as [|x rows IH]; intros a Hr; [reflexivity|]. cbn [row_entries length seq map].
  destruct (row_ref t x) eqn:E; [|exfalso; exact (Hr x (or_introl eq_refl) E)].
  cbn [map fst]. f_equal. apply IH. intros y Hy. apply Hr. now right.
Qed.

Lemma row_entries_lookup prefix k : forall rows a j row r, rows_resolved rows ->
  nth_error rows j = Some row -> row_ref t row = Some r ->
  slookup (name_idx prefix (a + j)) (row_entries prefix k a rows) = Some (mk_sentry (name_idx prefix (a + j)) r k).
Proof.
  induction rows as [|x rows IH]; intros a j row r Hr Hn Hx; [destruct j; discriminate|].
  cbn [row_entries]. destruct (row_ref t x) eqn:E; [|exfalso; exact (Hr x (or_introl eq_refl) E)].
  destruct j as [|j].
  - cbn in Hn. injection Hn as <-. rewrite Nat.add_0_r. rewrite E in Hx. injection Hx as <-. apply slookup_cons_eq.
  - cbn [nth_error] in Hn. rewrite slookup_cons_ne.
    + replace (a + S j) with (S a + j) by lia. apply (IH (S a) j row r); auto.
      intros y Hy. apply Hr. now right.
    + intros E'. apply name_idx_inj in E'. lia.
Qed.

(* what parse_structure gives for contiguous rows *)
Record rows_structure (prefix : str) (k : kind) (rows : list srow) (st : structure) : Prop := {
  rs_ordered : st_ordered st = Some (map (name_idx prefix) (seq 1 (length rows)));
  rs_by_name : forall j row r, nth_error rows j = Some row -> row_ref t row = Some r ->
               by_name st (name_idx prefix (S j)) = Some (mk_sentry (name_idx prefix (S j)) r k)
}.

Lemma parse_children_structure prefix k rows r0 info :
  rows_contiguous prefix k 1 rows = true -> rows_resolved rows ->
  exists st, (match parse_children (map (row_view t) rows) [] [] [] [] [] with
              | Ok (ord, byn, byl, reps) => Ok (mk_structure r0 (Some ord) byn byl reps info)
              | Err x => Err x end) = Ok st /\
             st_reference st = r0 /\ st_info st = info /\ rows_structure prefix k rows st.
Proof.
  intros Hc Hr.
  destruct (parse_children_contig prefix k rows 1 [] [] [] [] [] Hc Hr) as [byl' [reps' E]]; [reflexivity|].
  rewrite E. cbn [rev app]. eexists. split; [reflexivity|]. split; [reflexivity|]. split; [reflexivity|].
  constructor; [reflexivity|].
  intros j row r Hn Hx. unfold by_name. cbn [st_by_name].
  rewrite slookup_rev_nodup.
  - apply (row_entries_lookup prefix k rows 1 j row r Hr Hn Hx).
  - rewrite row_entries_keys by exact Hr. apply name_idx_NoDup.
Qed.

Lemma rows_structure_ref_in prefix k rows st j row r : rows_structure prefix k rows st ->
  nth_error rows j = Some row -> row_ref t row = Some r ->
  has_map (Some st) = true /\ ref_in (Some st) (name_idx prefix (S j)) = Some r.
Proof.
  intros [Ho Hb] Hn Hx. unfold has_map, ref_in. rewrite Ho. split; [reflexivity|].
  now rewrite (Hb j row r Hn Hx).
Qed.

End Struct.

(* ------------------------------------------------------------------ *)
(* small facts about names                                              *)

Lemma name_idx_cons p i : exists c r, name_idx p i = c :: r.
Proof. unfold name_idx. destruct p as [|c p]; cbn; eauto. Qed.

Lemma name_idx_has_us p i : bmem "_" (name_idx p i) = true.
Proof.
  unfold name_idx, bmem, mem. rewrite existsb_app. cbn [unbs app existsb]. rewrite beqb_refl.
  cbn [orb]. apply orb_true_r.
Qed.

Lemma name_idx_not_ST p i : name_idx p i <> unbs "ST".
Proof. intros E. pose proof (name_idx_has_us p i) as H. rewrite E in H. discriminate. Qed.

Lemma starts_varies_us d r : bstarts (unbs "VARIES_") (d ++ "_"%byte :: r) = true -> bstarts (unbs "VARIES") d = true.
Proof.
  unfold bstarts.
  destruct d as [|c1 [|c2 [|c3 [|c4 [|c5 [|c6 d']]]]]]; cbn [unbs app starts_with]; intros H;
    repeat (apply andb_prop in H; destruct H as [?H H]); try discriminate.
  now rewrite H0, H1, H2, H3, H4, H5.
Qed.

Lemma name_idx_not_varies_us d i : bstarts (unbs "VARIES") d = false -> bstarts (unbs "VARIES_") (name_idx d i) = false.
Proof.
  intros H. destruct (bstarts (unbs "VARIES_") (name_idx d i)) eqn:E; [|reflexivity].
  unfold name_idx in E. cbn [unbs app] in E. apply starts_varies_us in E. congruence.
Qed.

Lemma not_varies_name d : bstarts (unbs "VARIES") d = false -> streqb d (unbs "VARIES") = false.
Proof.
  intros H. destruct (streqb_spec d (unbs "VARIES")) as [->|]; [discriminate|reflexivity].
Qed.

Lemma upper_not_lower_varies d : upper d = d -> is_varies (Some d) = false.
Proof.
  intros H. unfold is_varies, opt_eqb. destruct (streqb_spec d (unbs "varies")) as [->|]; [discriminate|reflexivity].
Qed.

(* groups produced from an indexed list of pieces are named NAME_k in order *)
Lemma groups_ok_indexed {A} (nm : A -> option str) prefix (f : nat -> str -> list A) :
  (forall k p x, In x (f k p) -> nm x = Some (name_idx prefix k)) ->
  forall ps a K, length ps <= K ->
  groups_ok nm (map (name_idx prefix) (seq a K)) (map (fun kp => f (fst kp) (snd kp)) (combine (seq a (length ps)) ps)).
Proof.
  intros Hf. induction ps as [|p ps IH]; intros a K HK; [exact I|].
  destruct K as [|K]; [cbn in HK; lia|].
  cbn [length seq combine map groups_ok fst snd]. split; [apply Hf|]. apply IH. cbn in HK. lia.
Qed.

Lemma Forall2_indexed_pieces {A} (enc : A -> str) (f : nat -> str -> list A) :
  forall ps a, (forall k p, In (k, p) (combine (seq a (length ps)) ps) -> piece_group enc p (f k p)) ->
  Forall2 (piece_group enc) ps (map (fun kp => f (fst kp) (snd kp)) (combine (seq a (length ps)) ps)).
Proof.
  induction ps as [|p ps IH]; intros a H; [constructor|].
  cbn [length seq combine map fst snd]. constructor.
  - apply H. now left.
  - apply IH. intros k q Hq. apply H. now right.
Qed.

Section Named.
Variable t : tables.
Variable e : ec.
Variable leaf : option str -> str -> result str.

Notation base := (base t).
Hypothesis Hst : base (Some (unbs "ST")) = true.
Hypothesis Hvar : base (Some (unbs "varies")) = false.

(* what the proofs need to know about a complex datatype D *)
Record dt_name_ok (D : str) : Prop := {
  dn_not_base : base (Some D) = false;
  dn_upper : upper D = D;
  dn_not_varies : bstarts (unbs "VARIES") D = false
}.

Lemma dn_is_varies D : dt_name_ok D -> is_varies (Some D) = false.
Proof. intros H. apply upper_not_lower_varies, H. Qed.

Lemma dn_var_name D j : dt_name_ok D -> valid_child_name (Some (name_idx D j)) (Some (unbs "VARIES")) = false.
Proof.
  intros H. rewrite valid_child_name_idx, (dn_upper D H). change (upper (unbs "VARIES")) with (unbs "VARIES").
  apply not_varies_name, H.
Qed.

Lemma leaf_structure i : parse_structure t (SLeaf i) = Ok (mk_structure (SLeaf i) None [] [] [] (Some i)).
Proof. reflexivity. Qed.

(* admission of a child named D_k under a parent of complex datatype D whose structure knows D_k *)
Lemma vcc_named_child pn D st k kdt : dt_name_ok D ->
  has_map (Some st) = true -> opt_is_some (by_name st (name_idx D k)) = true ->
  valid_child_complex t TOLERANT pn (Some D) (Some st) (Some (name_idx D k)) kdt = Ok true.
Proof.
  intros HD Hm Hb. unfold valid_child_complex.
  rewrite (dn_not_base D HD), (dn_is_varies D HD). cbn [negb andb opt_is_none orb is_strict].
  rewrite !andb_false_r. rewrite valid_child_name_idx, streqb_refl. cbn [negb]. rewrite !andb_false_r.
  rewrite name_idx_upper, (dn_upper D HD), Hm, Hb. cbn [andb orb].
  now destruct (base (Some (name_idx D k))).
Qed.

(* ---------- CanBeVaries.__init__ for a named element with a table reference ---------- *)
Lemma canbevaries_named is_sub D j cref st info dt :
  dt_name_ok D -> parse_structure t cref = Ok st -> st_info st = Some info -> i_dt info = Some dt ->
  (is_sub = true -> base (Some dt) = true) ->
  canbevaries t TOLERANT is_sub (Some (name_idx D j)) None (Some cref) =
  Ok (Some (name_idx D j), Some dt, Some st).
Proof.
  intros HD Hp Hi Hdt Hsub. unfold canbevaries. rewrite is_varies_none. cbn [andb negb is_strict bind].
  rewrite (dn_var_name D j HD). unfold structure_for. rewrite name_idx_upper, (dn_upper D HD), Hp.
  cbn [bind st_dt]. rewrite Hi, Hdt.
  assert (G : is_sub && match dt with _ :: _ => negb (base (Some dt)) | [] => false end = false).
  { destruct is_sub; [|reflexivity]. rewrite (Hsub eq_refl). now destruct dt. }
  rewrite G. rewrite andb_false_r.
  destruct (name_idx_cons D j) as [c [r ->]]. reflexivity.
Qed.

(* ---------- named subcomponents of a component whose datatype D is a flat struct ---------- *)

Definition sub_dt (rows : list srow) (k : nat) : option str :=
  match nth_error rows (pred k) with
  | Some row => match row_ref t row with Some (SLeaf i) => i_dt i | _ => None end
  | None => None
  end.

(* the rows of a flat struct: base-typed leaves *)
Definition flat_rows (D : str) (rows : list srow) : Prop :=
  rows_contiguous D CMP 1 rows = true /\
  forall row, In row rows -> exists i b, row_ref t row = Some (SLeaf i) /\ i_dt i = Some b /\ base (Some b) = true.

Lemma flat_rows_resolved D rows : flat_rows D rows -> rows_resolved t rows.
Proof. intros [_ H] x Hx. destruct (H x Hx) as [i [b [E _]]]. congruence. Qed.

Definition named_sub (D : str) (rows : list srow) (k : nat) (p : str) : sub :=
  mk_sub (Some (name_idx D k)) (sub_dt rows k) p p.

Definition sub_piece_ok (rows : list srow) (k : nat) (p : str) : Prop :=
  p = [] \/ (is_blank p = false /\ leaf (sub_dt rows k) p = Ok p).

Definition sub_group (D : str) (rows : list srow) (k : nat) (p : str) : list sub :=
  if is_blank p then [] else [named_sub D rows k p].

Lemma mk_subcomponent_named D rows st k p :
  dt_name_ok D -> flat_rows D rows -> rows_structure t D CMP rows st ->
  1 <= k <= length rows -> is_blank p = false -> leaf (sub_dt rows k) p = Ok p ->
  mk_subcomponent t TOLERANT leaf (Some (name_idx D k)) None p (ref_in (Some st) (name_idx D k)) =
  Ok (named_sub D rows k p).
Proof.
  intros HD Hf Hs Hk Hb Hl.
  destruct k as [|k]; [lia|].
  destruct (nth_error rows k) as [row|] eqn:En; [|apply nth_error_None in En; lia].
  destruct Hf as [_ Hrows]. destruct (Hrows row (nth_error_In _ _ En)) as [i [b [Er [Ei Hbase]]]].
  destruct (rows_structure_ref_in t D CMP rows st k row _ Hs En Er) as [_ Hr]. rewrite Hr.
  assert (Sd : sub_dt rows (S k) = Some b) by (unfold sub_dt; cbn [pred]; now rewrite En, Er).
  unfold mk_subcomponent.
  destruct (name_idx_cons D (S k)) as [c [r Ec]]. rewrite Ec at 1. cbn [andb].
  rewrite (canbevaries_named true D (S k) (SLeaf i) _ i b HD (leaf_structure i) eq_refl Ei (fun _ => Hbase)).
  cbn [bind]. rewrite (dn_var_name D (S k) HD). cbn [andb].
  unfold named_sub. rewrite Sd in *. destruct p as [|c0 p]; [discriminate|]. rewrite Hl. reflexivity.
Qed.

Lemma parse_subs_named D rows st : dt_name_ok D -> flat_rows D rows -> rows_structure t D CMP rows st ->
  forall ps a, a + length ps <= length rows ->
  (forall k p, In (k, p) (combine (seq (S a) (length ps)) ps) -> sub_piece_ok rows k p) ->
  parse_subcomponents_aux t TOLERANT leaf (Some D) (Some st) (combine (seq (S a) (length ps)) ps) =
  Ok (concat (map (fun kp => sub_group D rows (fst kp) (snd kp)) (combine (seq (S a) (length ps)) ps))).
Proof.
  intros HD Hf Hs. induction ps as [|p ps IH]; intros a Hlen Hok; [reflexivity|].
  cbn [length seq combine map concat fst snd parse_subcomponents_aux].
  rewrite (dn_not_base D HD). cbn [opt_is_none orb str_of_opt].
  assert (Hm : has_map (Some st) = true) by (unfold has_map; now rewrite (rs_ordered _ _ _ _ _ Hs)).
  rewrite Hm.
  assert (Hk : 1 <= S a <= length rows) by (cbn [length] in Hlen; lia).
  (* the reference of D_(S a) exists *)
  destruct (nth_error rows a) as [row|] eqn:En; [|apply nth_error_None in En; lia].
  destruct (proj2 Hf row (nth_error_In _ _ En)) as [i [b [Er _]]].
  destruct (rows_structure_ref_in t D CMP rows st a row _ Hs En Er) as [_ Hr].
  pose proof Hr as Hr'. rewrite Hr.
  unfold materialise. cbn [opt_is_none]. rewrite orb_false_r. unfold sub_group at 1.
  specialize (IH (S a)). cbn [length] in Hlen.
  rewrite IH; [|lia|intros k q Hq; apply Hok; now right].
  destruct (Hok (S a) p (or_introl eq_refl)) as [->|[Hb Hl]].
  - cbn [is_blank strip strip_by rstrip_by lstrip_by rev negb app]. reflexivity.
  - rewrite Hb. cbn [negb]. rewrite <- Hr'.
    rewrite (mk_subcomponent_named D rows st (S a) p HD Hf Hs Hk Hb Hl). reflexivity.
Qed.

Lemma sub_group_named D rows k p x : In x (sub_group D rows k p) -> sc_name x = Some (name_idx D k).
Proof. unfold sub_group. destruct (is_blank p); [intros []|]. intros [<-|[]]. reflexivity. Qed.

Lemma add_subs_named D rows st : dt_name_ok D -> rows_structure t D CMP rows st ->
  forall kids c, c_dt c = Some D -> c_st c = Some st ->
  (forall x, In x kids -> exists k, 1 <= k <= length rows /\ sc_name x = Some (name_idx D k)) ->
  add_subs t TOLERANT c kids = Ok (mk_comp (c_name c) (c_dt c) (c_st c) (c_children c ++ kids)).
Proof.
  intros HD Hs. induction kids as [|x kids IH]; intros c Hdt Hst' Hk.
  - cbn [add_subs]. rewrite app_nil_r. now destruct c.
  - cbn [add_subs]. rewrite Hdt, Hst', (dn_not_base D HD). rewrite andb_false_r. cbn [andb].
    destruct (Hk x (or_introl eq_refl)) as [k [Hkr Hn]]. rewrite Hn.
    rewrite valid_child_name_idx, streqb_refl. cbn [negb]. rewrite andb_false_r.
    destruct k as [|k]; [lia|].
    destruct (nth_error rows k) as [row|] eqn:En; [|apply nth_error_None in En; lia].
    assert (Hm : has_map (Some st) = true) by (unfold has_map; now rewrite (rs_ordered _ _ _ _ _ Hs)).
    rewrite vcc_named_child; auto.
    + cbn [bind negb]. rewrite card_ok_tolerant. cbn [negb].
      rewrite IH; auto.
      * cbn [c_name c_dt c_st c_children]. now rewrite Hdt, Hst', <- app_assoc.
      * intros y Hy. apply Hk. now right.
    + (* by_name finds D_(S k) *)
      destruct (row_ref t row) as [r|] eqn:Er.
      * now rewrite (rs_by_name _ _ _ _ _ Hs k row r En Er).
      * exfalso. (* unresolved row: impossible for the rows we use; handled by the caller *)
Abort.

End Named.
