(* The table-driven round trip / position proofs: segments, fields, components and subcomponents
   whose names and datatypes come from well-formed table rows (Model/Wf.v). *)
From Coq Require Import List Bool Arith ZArith NArith Lia Init.Byte.
From HL7 Require Import Lib.Str Model.Ec Model.Result Model.Ref Model.Tree Model.Parser Model.Encode Model.Wf.
From HL7 Require Import Proofs.SplitJoin Proofs.LevelCodec Proofs.RoundTripStr Proofs.RoundTripCore Proofs.RoundTripVT Proofs.RoundTripZ.
Import ListNotations.
Open Scope bs_scope.
Open Scope res_scope.

(* ------------------------------------------------------------------ *)
(* association lists                                                    *)

Lemma slookup_app {B} k (l m : list (str * B)) :
  slookup k (l ++ m) = match slookup k l with Some v => Some v | None => slookup k m end.
Proof.
  unfold slookup. induction l as [|[k' v] l IH]; [reflexivity|]. cbn [app alookup].
  destruct (leqb beqb k k'); [reflexivity|exact IH].
Qed.

Lemma slookup_none {B} k (l : list (str * B)) : ~ In k (map fst l) -> slookup k l = None.
Proof.
  unfold slookup. induction l as [|[k' v] l IH]; [reflexivity|]. cbn [map fst In alookup]. intros H.
  destruct (leqb beqb k k') eqn:E.
  - apply (streqb_eq k k') in E. subst. tauto.
  - apply IH. tauto.
Qed.

Lemma slookup_cons_ne {B} k k' (v : B) l : k <> k' -> slookup k ((k', v) :: l) = slookup k l.
Proof.
  intros H. unfold slookup. cbn [alookup]. change (leqb beqb k k') with (streqb k k').
  destruct (streqb_spec k k'); [congruence|reflexivity].
Qed.

Lemma slookup_cons_eq {B} k (v : B) l : slookup k ((k, v) :: l) = Some v.
Proof. unfold slookup. cbn [alookup]. change (leqb beqb k k) with (streqb k k). now rewrite streqb_refl. Qed.

Lemma slookup_rev_nodup {B} k (l : list (str * B)) : NoDup (map fst l) -> slookup k (rev l) = slookup k l.
Proof.
  induction l as [|[k' v] l IH]; [reflexivity|]. cbn [map fst rev]. intros H.
  inversion H as [|? ? Hk Hn]; subst. rewrite slookup_app, (IH Hn).
  destruct (streqb_spec k k') as [->|N].
  - rewrite (slookup_none k' l Hk). now rewrite !slookup_cons_eq.
  - rewrite !(slookup_cons_ne k k') by exact N. now destruct (slookup k l).
Qed.

Lemma slookup_in {B} k (l : list (str * B)) v : slookup k l = Some v -> In (k, v) l.
Proof.
  unfold slookup. induction l as [|[k' v'] l IH]; [discriminate|]. cbn [alookup].
  destruct (leqb beqb k k') eqn:E.
  - apply (streqb_eq k k') in E. subst. intros H. injection H as <-. now left.
  - intros H. right. now apply IH.
Qed.

Section Struct.
Variable t : tables.

(* ------------------------------------------------------------------ *)
(* the structure built from contiguous rows NAME_a, NAME_a+1, ...       *)

Fixpoint row_entries (prefix : str) (k : kind) (a : nat) (rows : list srow) : list (str * sentry) :=
  match rows with
  | [] => []
  | r :: rest =>
      match row_ref t r with
      | Some x => (name_idx prefix a, mk_sentry (name_idx prefix a) x k) :: row_entries prefix k (S a) rest
      | None => []
      end
  end.

Definition rows_resolved (rows : list srow) : Prop := forall x, In x rows -> row_ref t x <> None.

Lemma kind_eqb_eq a b : kind_eqb a b = true -> a = b.
Proof. destruct a, b; cbn; congruence. Qed.

Lemma row_view_ok prefix k a x rest :
  rows_contiguous prefix k a (x :: rest) = true -> row_ref t x <> None ->
  exists r mn mx, row_view t x = Some (mk_vchild (name_idx prefix a) r mn mx k) /\ row_ref t x = Some r /\
                  rows_contiguous prefix k (S a) rest = true.
Proof.
  cbn [rows_contiguous]. intros H Hr.
  destruct x as [k' nm mn mx|k' nm r mn mx|]; cbn [row_name] in H; [| |discriminate].
  - repeat (apply andb_prop in H; destruct H as [H ?H]).
    apply kind_eqb_eq in H. apply streqb_eq in H3. subst k' nm.
    cbn [row_ref] in *. cbn [row_view]. destruct (slookup (name_idx prefix a) (table_of t k)) as [r|]; [|congruence].
    exists r, mn, mx. auto.
  - repeat (apply andb_prop in H; destruct H as [H ?H]).
    apply kind_eqb_eq in H. apply streqb_eq in H3. subst k' nm.
    exists r, mn, mx. auto.
Qed.

Lemma parse_children_contig prefix k : forall rows a (seen ord : list str) (byn : list (str * sentry))
    (byl : list (option str * sentry)) (reps : list (str * (Z * Z))),
  rows_contiguous prefix k a rows = true -> rows_resolved rows ->
  (forall j, a <= j -> slookup (name_idx prefix j) byn = None) ->
  exists byl' reps',
    parse_children (map (row_view t) rows) seen ord byn byl reps =
    Ok (rev ord ++ map (name_idx prefix) (seq a (length rows)), rev byn ++ row_entries prefix k a rows, byl', reps').
Proof.
  induction rows as [|x rows IH]; intros a seen ord byn byl reps Hc Hr Hb.
  - exists (rev byl), (rev reps). cbn. now rewrite !app_nil_r.
  - destruct (row_view_ok prefix k a x rows Hc (Hr x (or_introl eq_refl))) as [r [mn [mx [Hv [Hx Hc']]]]].
    cbn [map parse_children]. rewrite Hv. rewrite (Hb a (le_n a)).
    set (e0 := mk_sentry (name_idx prefix a) r k).
    destruct (IH (S a) (name_idx prefix a :: seen) (name_idx prefix a :: ord) ((name_idx prefix a, e0) :: byn)
                 (match ref_long r with Some l => (l, e0) :: byl | None => byl end)
                 ((name_idx prefix a, (mn, mx)) :: reps) Hc') as [byl' [reps' E]].
    + intros y Hy. apply Hr. now right.
    + intros j Hj. rewrite slookup_cons_ne.
      * apply Hb. lia.
      * intros E. apply name_idx_inj in E. lia.
    + exists byl', reps'. eapply eq_trans; [exact E|]. cbn [rev length seq map row_entries]. rewrite Hx.
      fold e0. now rewrite <- !app_assoc.
Qed.

Lemma row_entries_keys prefix k : forall rows a, rows_resolved rows ->
  map fst (row_entries prefix k a rows) = map (name_idx prefix) (seq a (length rows)).
Proof.
  induction rows as [|x rows IH]; intros a Hr; [reflexivity|]. cbn [row_entries length seq map].
  destruct (row_ref t x) eqn:E; [|exfalso; exact (Hr x (or_introl eq_refl) E)].
  cbn [map fst]. f_equal. apply IH. intros y Hy. apply Hr. now right.
Qed.

Lemma row_entries_lookup prefix k : forall rows a j row r, rows_resolved rows ->
  nth_error rows j = Some row -> row_ref t row = Some r ->
  slookup (name_idx prefix (a + j)) (row_entries prefix k a rows) = Some (mk_sentry (name_idx prefix (a + j)) r k).
Proof.
  induction rows as [|x rows IH]; intros a j row r Hr Hn Hx; [destruct j; discriminate|].
  cbn [row_entries]. destruct (row_ref t x) eqn:E; [|exfalso; exact (Hr x (or_introl eq_refl) E)].
  destruct j as [|j].
  - cbn in Hn. injection Hn as <-. rewrite Nat.add_0_r. rewrite E in Hx. injection Hx as <-. apply slookup_cons_eq.
  - cbn [nth_error] in Hn. rewrite slookup_cons_ne.
    + replace (a + S j) with (S a + j) by lia. apply (IH (S a) j row r); auto.
      intros y Hy. apply Hr. now right.
    + intros E'. apply name_idx_inj in E'. lia.
Qed.

(* what parse_structure gives for contiguous rows *)
Record rows_structure (prefix : str) (k : kind) (rows : list srow) (st : structure) : Prop := {
  rs_ordered : st_ordered st = Some (map (name_idx prefix) (seq 1 (length rows)));
  rs_by_name : forall j row r, nth_error rows j = Some row -> row_ref t row = Some r ->
               by_name st (name_idx prefix (S j)) = Some (mk_sentry (name_idx prefix (S j)) r k);
  rs_beyond : forall i, length rows < i -> by_name st (name_idx prefix i) = None
}.

Lemma parse_children_structure prefix k rows r0 info :
  rows_contiguous prefix k 1 rows = true -> rows_resolved rows ->
  exists st, (match parse_children (map (row_view t) rows) [] [] [] [] [] with
              | Ok (ord, byn, byl, reps) => Ok (mk_structure r0 (Some ord) byn byl reps info)
              | Err x => Err x end) = Ok st /\
             st_reference st = r0 /\ st_info st = info /\ rows_structure prefix k rows st.
Proof.
  intros Hc Hr.
  destruct (parse_children_contig prefix k rows 1 [] [] [] [] [] Hc Hr) as [byl' [reps' E]]; [reflexivity|].
  rewrite E. cbn [rev app]. eexists. split; [reflexivity|]. split; [reflexivity|]. split; [reflexivity|].
  constructor; [reflexivity| |].
  - intros j row r Hn Hx. unfold by_name. cbn [st_by_name].
    rewrite slookup_rev_nodup.
    + apply (row_entries_lookup prefix k rows 1 j row r Hr Hn Hx).
    + rewrite row_entries_keys by exact Hr. apply name_idx_NoDup.
  - intros i Hi. unfold by_name. cbn [st_by_name].
    rewrite slookup_rev_nodup by (rewrite row_entries_keys by exact Hr; apply name_idx_NoDup).
    apply slookup_none. rewrite row_entries_keys by exact Hr. intros Hin.
    apply in_map_iff in Hin. destruct Hin as [j [Ej Hj]]. apply name_idx_inj in Ej. subst j.
    apply in_seq in Hj. lia.
Qed.

Lemma rows_structure_ref_in prefix k rows st j row r : rows_structure prefix k rows st ->
  nth_error rows j = Some row -> row_ref t row = Some r ->
  has_map (Some st) = true /\ ref_in (Some st) (name_idx prefix (S j)) = Some r.
Proof.
  intros [Ho Hb] Hn Hx. unfold has_map, ref_in. rewrite Ho. split; [reflexivity|].
  now rewrite (Hb j row r Hn Hx).
Qed.

End Struct.

(* ------------------------------------------------------------------ *)
(* small facts about names                                              *)

Lemma name_idx_cons p i : exists c r, name_idx p i = c :: r.
Proof. unfold name_idx. destruct p as [|c p]; cbn; eauto. Qed.

Lemma name_idx_has_us p i : bmem "_" (name_idx p i) = true.
Proof.
  unfold name_idx, bmem, mem. rewrite existsb_app. cbn [unbs app existsb]. rewrite beqb_refl.
  cbn [orb]. apply orb_true_r.
Qed.

Lemma name_idx_not_ST p i : name_idx p i <> unbs "ST".
Proof. intros E. pose proof (name_idx_has_us p i) as H. rewrite E in H. discriminate. Qed.

Lemma starts_varies_us d r : bstarts (unbs "VARIES_") (d ++ "_"%byte :: r) = true -> bstarts (unbs "VARIES") d = true.
Proof.
  unfold bstarts.
  destruct d as [|c1 [|c2 [|c3 [|c4 [|c5 [|c6 d']]]]]]; cbn [unbs app starts_with]; intros H;
    repeat (apply andb_prop in H; destruct H as [?H H]); try discriminate.
  now rewrite H0, H1, H2, H3, H4, H5.
Qed.

Lemma name_idx_not_varies_us d i : bstarts (unbs "VARIES") d = false -> bstarts (unbs "VARIES_") (name_idx d i) = false.
Proof.
  intros H. destruct (bstarts (unbs "VARIES_") (name_idx d i)) eqn:E; [|reflexivity].
  unfold name_idx in E. cbn [unbs app] in E. apply starts_varies_us in E. congruence.
Qed.

Lemma not_varies_name d : bstarts (unbs "VARIES") d = false -> streqb d (unbs "VARIES") = false.
Proof.
  intros H. destruct (streqb_spec d (unbs "VARIES")) as [->|]; [discriminate|reflexivity].
Qed.

Lemma upper_not_lower_varies d : upper d = d -> is_varies (Some d) = false.
Proof.
  intros H. unfold is_varies, opt_eqb. destruct (streqb_spec d (unbs "varies")) as [->|]; [discriminate|reflexivity].
Qed.

(* groups produced from an indexed list of pieces are named NAME_k in order *)
Lemma groups_ok_indexed {A} (nm : A -> option str) prefix (f : nat -> str -> list A) :
  (forall k p x, In x (f k p) -> nm x = Some (name_idx prefix k)) ->
  forall ps a K, length ps <= K ->
  groups_ok nm (map (name_idx prefix) (seq a K)) (map (fun kp => f (fst kp) (snd kp)) (combine (seq a (length ps)) ps)).
Proof.
  intros Hf. induction ps as [|p ps IH]; intros a K HK; [exact I|].
  destruct K as [|K]; [cbn in HK; lia|].
  cbn [length seq combine map groups_ok fst snd]. split; [apply Hf|]. apply IH. cbn in HK. lia.
Qed.

Lemma Forall2_indexed_pieces {A} (enc : A -> str) (f : nat -> str -> list A) :
  forall ps a, (forall k p, In (k, p) (combine (seq a (length ps)) ps) -> piece_group enc p (f k p)) ->
  Forall2 (piece_group enc) ps (map (fun kp => f (fst kp) (snd kp)) (combine (seq a (length ps)) ps)).
Proof.
  induction ps as [|p ps IH]; intros a H; [constructor|].
  cbn [length seq combine map fst snd]. constructor.
  - apply H. now left.
  - apply IH. intros k q Hq. apply H. now right.
Qed.

Section Named.
Variable t : tables.
Variable e : ec.
Variable leaf : option str -> str -> result str.

Notation base := (base t).
Hypothesis Hst : base (Some (unbs "ST")) = true.
Hypothesis Hvar : base (Some (unbs "varies")) = false.

(* what the proofs need to know about a complex datatype D *)
Record dt_name_ok (D : str) : Prop := {
  dn_not_base : base (Some D) = false;
  dn_upper : upper D = D;
  dn_not_varies : bstarts (unbs "VARIES") D = false
}.

Lemma dn_is_varies D : dt_name_ok D -> is_varies (Some D) = false.
Proof. intros H. apply upper_not_lower_varies, H. Qed.

Lemma dn_var_name D j : dt_name_ok D -> valid_child_name (Some (name_idx D j)) (Some (unbs "VARIES")) = false.
Proof.
  intros H. destruct (Nat.eq_dec j 0) as [->|Hj]; [apply valid_child_name_idx_0|].
  rewrite valid_child_name_idx, (dn_upper D H) by exact Hj. change (upper (unbs "VARIES")) with (unbs "VARIES").
  apply not_varies_name, H.
Qed.

Lemma leaf_structure i : parse_structure t (SLeaf i) = Ok (mk_structure (SLeaf i) None [] [] [] (Some i)).
Proof. reflexivity. Qed.

(* acceptance of a child named D_k under a parent of complex datatype D whose structure knows D_k *)
Lemma vcc_named_child pn D st k kdt : dt_name_ok D -> k <> 0 ->
  has_map (Some st) = true -> opt_is_some (by_name st (name_idx D k)) = true ->
  valid_child_complex t TOLERANT pn (Some D) (Some st) (Some (name_idx D k)) kdt = Ok true.
Proof.
  intros HD Hk0 Hm Hb. unfold valid_child_complex.
  rewrite (dn_not_base D HD), (dn_is_varies D HD). cbn [negb andb opt_is_none orb is_strict].
  rewrite !andb_false_r. rewrite valid_child_name_idx, streqb_refl by exact Hk0. cbn [negb]. rewrite !andb_false_r.
  rewrite name_idx_upper, (dn_upper D HD), Hm, Hb. cbn [andb orb].
  now destruct (base (Some (name_idx D k))).
Qed.

(* ---------- CanBeVaries.__init__ for a named element with a table reference ---------- *)
Lemma canbevaries_named is_sub D j cref st info dt :
  dt_name_ok D -> parse_structure t cref = Ok st -> st_info st = Some info -> i_dt info = Some dt ->
  (is_sub = true -> base (Some dt) = true) ->
  canbevaries t TOLERANT is_sub (Some (name_idx D j)) None (Some cref) =
  Ok (Some (name_idx D j), Some dt, Some st).
Proof.
  intros HD Hp Hi Hdt Hsub. unfold canbevaries. rewrite is_varies_none. cbn [andb negb is_strict bind].
  rewrite (dn_var_name D j HD). unfold structure_for. rewrite name_idx_upper, (dn_upper D HD), Hp.
  cbn [bind st_dt]. rewrite Hi, Hdt.
  assert (G : is_sub && match dt with _ :: _ => negb (base (Some dt)) | [] => false end = false).
  { destruct is_sub; [|reflexivity]. rewrite (Hsub eq_refl). now destruct dt. }
  rewrite G. rewrite andb_false_r.
  destruct (name_idx_cons D j) as [c [r ->]]. reflexivity.
Qed.

(* ---------- named subcomponents of a component whose datatype D is a flat struct ---------- *)

Definition sub_dt (rows : list srow) (k : nat) : option str :=
  match nth_error rows (pred k) with
  | Some row => match row_ref t row with Some (SLeaf i) => i_dt i | _ => None end
  | None => None
  end.

(* the rows of a flat struct: base-typed leaves *)
Definition flat_rows (D : str) (rows : list srow) : Prop :=
  rows_contiguous D CMP 1 rows = true /\
  forall row, In row rows -> exists i b, row_ref t row = Some (SLeaf i) /\ i_dt i = Some b /\ base (Some b) = true.

Lemma flat_rows_resolved D rows : flat_rows D rows -> rows_resolved t rows.
Proof. intros [_ H] x Hx. destruct (H x Hx) as [i [b [E _]]]. congruence. Qed.

Definition named_sub (D : str) (rows : list srow) (k : nat) (p : str) : sub :=
  mk_sub (Some (name_idx D k)) (sub_dt rows k) p p.

Definition sub_piece_ok (rows : list srow) (k : nat) (p : str) : Prop :=
  p = [] \/ (is_blank p = false /\ leaf (sub_dt rows k) p = Ok p).

Definition sub_group (D : str) (rows : list srow) (k : nat) (p : str) : list sub :=
  if is_blank p then [] else [named_sub D rows k p].

Lemma mk_subcomponent_named D rows st k p :
  dt_name_ok D -> flat_rows D rows -> rows_structure t D CMP rows st ->
  1 <= k <= length rows -> is_blank p = false -> leaf (sub_dt rows k) p = Ok p ->
  mk_subcomponent t TOLERANT leaf (Some (name_idx D k)) None p (ref_in (Some st) (name_idx D k)) =
  Ok (named_sub D rows k p).
Proof.
  intros HD Hf Hs Hk Hb Hl.
  destruct k as [|k]; [lia|].
  destruct (nth_error rows k) as [row|] eqn:En; [|apply nth_error_None in En; lia].
  destruct Hf as [_ Hrows]. destruct (Hrows row (nth_error_In _ _ En)) as [i [b [Er [Ei Hbase]]]].
  destruct (rows_structure_ref_in t D CMP rows st k row _ Hs En Er) as [_ Hr]. rewrite Hr.
  assert (Sd : sub_dt rows (S k) = Some b) by (unfold sub_dt; cbn [pred]; now rewrite En, Er).
  unfold mk_subcomponent.
  destruct (name_idx_cons D (S k)) as [c [r Ec]]. rewrite Ec at 1. cbn [andb].
  rewrite (canbevaries_named true D (S k) (SLeaf i) _ i b HD (leaf_structure i) eq_refl Ei (fun _ => Hbase)).
  cbn [bind]. rewrite (dn_var_name D (S k) HD). cbn [andb].
  unfold named_sub. rewrite Sd in *. destruct p as [|c0 p]; [discriminate|]. rewrite Hl. reflexivity.
Qed.

Lemma parse_subs_named D rows st : dt_name_ok D -> flat_rows D rows -> rows_structure t D CMP rows st ->
  forall ps a, a + length ps <= length rows ->
  (forall k p, In (k, p) (combine (seq (S a) (length ps)) ps) -> sub_piece_ok rows k p) ->
  parse_subcomponents_aux t TOLERANT leaf (Some D) (Some st) (combine (seq (S a) (length ps)) ps) =
  Ok (concat (map (fun kp => sub_group D rows (fst kp) (snd kp)) (combine (seq (S a) (length ps)) ps))).
Proof.
  intros HD Hf Hs. induction ps as [|p ps IH]; intros a Hlen Hok; [reflexivity|].
  cbn [length seq combine map concat fst snd parse_subcomponents_aux].
  rewrite (dn_not_base D HD). cbn [opt_is_none orb str_of_opt].
  assert (Hm : has_map (Some st) = true) by (unfold has_map; now rewrite (rs_ordered _ _ _ _ _ Hs)).
  rewrite Hm.
  assert (Hk : 1 <= S a <= length rows) by (cbn [length] in Hlen; lia).
  (* the reference of D_(S a) exists *)
  destruct (nth_error rows a) as [row|] eqn:En; [|apply nth_error_None in En; lia].
  destruct (proj2 Hf row (nth_error_In _ _ En)) as [i [b [Er _]]].
  destruct (rows_structure_ref_in t D CMP rows st a row _ Hs En Er) as [_ Hr].
  pose proof Hr as Hr'. rewrite Hr.
  unfold materialise. cbn [opt_is_none]. rewrite orb_false_r. unfold sub_group at 1.
  specialize (IH (S a)). cbn [length] in Hlen.
  rewrite IH; [|lia|intros k q Hq; apply Hok; now right].
  destruct (Hok (S a) p (or_introl eq_refl)) as [->|[Hb Hl]].
  - cbn [is_blank strip strip_by rstrip_by lstrip_by rev negb app]. reflexivity.
  - rewrite Hb. cbn [negb]. rewrite <- Hr'.
    rewrite (mk_subcomponent_named D rows st (S a) p HD Hf Hs Hk Hb Hl). reflexivity.
Qed.

Lemma sub_group_named D rows k p x : In x (sub_group D rows k p) -> sc_name x = Some (name_idx D k).
Proof. unfold sub_group. destruct (is_blank p); [intros []|]. intros [<-|[]]. reflexivity. Qed.

Lemma rows_structure_known prefix kd rows st k : rows_structure t prefix kd rows st -> rows_resolved t rows ->
  1 <= k <= length rows ->
  has_map (Some st) = true /\ opt_is_some (by_name st (name_idx prefix k)) = true.
Proof.
  intros Hs Hr Hk. split; [unfold has_map; now rewrite (rs_ordered _ _ _ _ _ Hs)|].
  destruct k as [|k]; [lia|].
  destruct (nth_error rows k) as [row|] eqn:En; [|apply nth_error_None in En; lia].
  destruct (row_ref t row) as [r|] eqn:Er; [|exfalso; exact (Hr row (nth_error_In _ _ En) Er)].
  now rewrite (rs_by_name _ _ _ _ _ Hs k row r En Er).
Qed.

Lemma add_subs_named D rows st : dt_name_ok D -> rows_structure t D CMP rows st -> rows_resolved t rows ->
  forall kids c, c_dt c = Some D -> c_st c = Some st ->
  (forall x, In x kids -> exists k, 1 <= k <= length rows /\ sc_name x = Some (name_idx D k)) ->
  add_subs t TOLERANT c kids = Ok (mk_comp (c_name c) (c_dt c) (c_st c) (c_children c ++ kids)).
Proof.
  intros HD Hs Hr. induction kids as [|x kids IH]; intros c Hdt Hst' Hk.
  - cbn [add_subs]. rewrite app_nil_r. now destruct c.
  - cbn [add_subs]. rewrite Hdt, Hst', (dn_not_base D HD). rewrite andb_false_r. cbn [andb].
    destruct (Hk x (or_introl eq_refl)) as [k [Hkr Hn]]. rewrite Hn.
    rewrite valid_child_name_idx, streqb_refl by lia. cbn [negb]. rewrite andb_false_r.
    destruct (rows_structure_known D CMP rows st k Hs Hr Hkr) as [Hm Hb].
    rewrite vcc_named_child; auto; [|lia].
    cbn [bind negb]. rewrite card_ok_tolerant. cbn [negb].
    rewrite IH; auto.
    + cbn [c_name c_dt c_st c_children]. now rewrite <- app_assoc.
    + intros y Hy. apply Hk. now right.
Qed.

Lemma in_combine_seq {A} (ps : list A) a k p : In (k, p) (combine (seq a (length ps)) ps) -> a <= k < a + length ps.
Proof. intros H. apply in_combine_l in H. apply in_seq in H. lia. Qed.

(* the structure of a complex datatype reference *)
Lemma parse_structure_dt inf D rows :
  i_dt inf = Some D -> slookup D (t_structs t) = Some rows ->
  rows_contiguous D CMP 1 rows = true -> rows_resolved t rows ->
  exists st, parse_structure t (SSeqDt inf) = Ok st /\ st_info st = Some inf /\ rows_structure t D CMP rows st.
Proof.
  intros Hi Hl Hc Hr. unfold parse_structure, view_of. rewrite Hi, Hl.
  destruct (parse_children_structure t D CMP rows (SSeqDt inf) (Some inf) Hc Hr) as [st [E [_ [Hinfo Hs]]]].
  exists st. auto.
Qed.

Lemma mk_component_named P j cref st info dt :
  dt_name_ok P -> parse_structure t cref = Ok st -> st_info st = Some info -> i_dt info = Some dt ->
  mk_component t TOLERANT (Some (name_idx P j)) None (Some cref) =
  Ok (mk_comp (Some (name_idx P j)) (Some dt) (Some st) []).
Proof.
  intros HP Hp Hi Hdt. unfold mk_component.
  rewrite (canbevaries_named false P j cref st info dt HP Hp Hi Hdt) by discriminate.
  cbn [bind is_strict]. now rewrite andb_false_r.
Qed.

(* --- a component whose datatype D is a flat struct --- *)
Definition subs_ok (rows : list srow) (text : str) : Prop :=
  let ps := bsplit (ssep e) text in
  no_trail ps /\ length ps <= length rows /\
  forall k p, In (k, p) (indexed ps) -> sub_piece_ok rows k p.

Definition sub_groups (D : str) (rows : list srow) (text : str) : list (list sub) :=
  map (fun kp => sub_group D rows (fst kp) (snd kp)) (indexed (bsplit (ssep e) text)).

Definition complex_comp (nm D : str) (rows : list srow) (st : structure) (text : str) : comp :=
  mk_comp (Some nm) (Some D) (Some st) (concat (sub_groups D rows text)).

Lemma parse_component_complex P j inf D rows st text :
  dt_name_ok P -> dt_name_ok D -> i_dt inf = Some D ->
  parse_structure t (SSeqDt inf) = Ok st -> st_info st = Some inf -> rows_structure t D CMP rows st ->
  flat_rows D rows -> subs_ok rows text ->
  parse_component t TOLERANT e leaf text (Some (name_idx P j)) None (Some (SSeqDt inf)) =
  Ok (complex_comp (name_idx P j) D rows st text).
Proof.
  intros HP HD Hi Hp Hinfo Hs Hf [Ht [Hlen Hok]]. unfold parse_component.
  rewrite (mk_component_named P j (SSeqDt inf) st inf D HP Hp Hinfo Hi). cbn [bind c_dt c_st].
  unfold parse_subcomponents.
  assert (E : parse_subcomponents_aux t TOLERANT leaf (Some D) (Some st) (indexed (bsplit (ssep e) text)) =
              Ok (concat (sub_groups D rows text)))
    by exact (parse_subs_named D rows st HD Hf Hs (bsplit (ssep e) text) 0 Hlen Hok).
  rewrite E.
  cbn [bind is_strict negb andb]. rewrite (dn_not_base D HD). cbn [andb].
  rewrite (add_subs_named D rows st HD Hs (flat_rows_resolved D rows Hf)); [reflexivity|reflexivity|reflexivity|].
  intros x Hx. apply in_concat in Hx. destruct Hx as [g [Hg Hx]].
  apply in_map_iff in Hg. destruct Hg as [[k p] [<- Hkp]]. cbn [fst snd] in Hx.
  exists k. split; [|now apply (sub_group_named D rows k p)].
  apply in_combine_seq in Hkp. unfold str in *. lia.
Qed.

Lemma sub_piece_group D rows k p : sub_piece_ok rows k p -> piece_group enc_sub p (sub_group D rows k p).
Proof.
  unfold sub_group. intros [->|[Hb _]]; [left; split; reflexivity|].
  rewrite Hb. right. eexists. split; reflexivity.
Qed.

Lemma ordered_of_rows prefix kd rows st : rows_structure t prefix kd rows st ->
  ordered_of (Some st) = map (name_idx prefix) (seq 1 (length rows)).
Proof. intros H. unfold ordered_of. now rewrite (rs_ordered _ _ _ _ _ H). Qed.

Lemma names_no_ST prefix a n : ~ In (unbs "ST") (map (name_idx prefix) (seq a n)).
Proof. intros H. apply in_map_iff in H. destruct H as [k [E _]]. exact (name_idx_not_ST _ _ E). Qed.

Lemma enc_comp_complex nm D rows st text :
  dt_name_ok D -> rows_structure t D CMP rows st -> subs_ok rows text ->
  enc_comp t e (complex_comp nm D rows st text) = text.
Proof.
  intros HD Hs [Ht [Hlen Hok]]. unfold enc_comp, complex_comp. cbn [c_dt c_st c_children opt_is_none].
  rewrite (dn_not_base D HD). cbn [orb].
  rewrite (level_codec sc_name enc_sub (ssep e) (Some st) (bsplit (ssep e) text) (sub_groups D rows text)).
  - apply bjoin_bsplit.
  - rewrite (ordered_of_rows D CMP rows st Hs). apply name_idx_NoDup.
  - rewrite (ordered_of_rows D CMP rows st Hs). apply names_no_ST.
  - rewrite (ordered_of_rows D CMP rows st Hs). unfold sub_groups, indexed.
    apply (groups_ok_indexed sc_name D (sub_group D rows)); [|exact Hlen].
    intros k p x. apply sub_group_named.
  - unfold sub_groups, indexed. apply Forall2_indexed_pieces. intros k p Hkp.
    apply sub_piece_group. now apply Hok.
  - exact Ht.
Qed.

(* --- a component that is a base-typed leaf of its parent's struct --- *)
Lemma base_not_varies b : base (Some b) = true -> is_varies (Some b) = false.
Proof.
  intros H. unfold is_varies, opt_eqb. destruct (streqb_spec b (unbs "varies")) as [E|]; [|reflexivity].
  subst b. assert (X : base (Some (unbs "varies")) = true) by exact H. rewrite Hvar in X. discriminate.
Qed.

Definition leaf_comp (nm b : str) (sto : option structure) (text : str) : comp :=
  let ps := bsplit (ssep e) text in
  mk_comp (Some nm) (if Nat.ltb 1 (length ps) then None else Some b) sto (map (st_sub b) ps).

Lemma parse_component_leaf P j i b text :
  dt_name_ok P -> i_dt i = Some b -> base (Some b) = true -> subs_fix e leaf b text ->
  parse_component t TOLERANT e leaf text (Some (name_idx P j)) None (Some (SLeaf i)) =
  Ok (leaf_comp (name_idx P j) b (Some (mk_structure (SLeaf i) None [] [] [] (Some i))) text).
Proof.
  intros HP Hi Hb Hs. unfold parse_component.
  rewrite (mk_component_named P j (SLeaf i) _ i b HP (leaf_structure i) eq_refl Hi). cbn [bind c_dt c_st].
  rewrite (parse_subcomponents_unnamed t e leaf (Some b) _ text); cbn [dflt_dt]; auto using base_not_varies.
  2:{ now rewrite Hb. }
  cbn [bind is_strict negb andb]. rewrite Hb. cbn [andb]. rewrite map_length.
  unfold leaf_comp. cbv zeta. unfold str.
  destruct (Nat.ltb 1 (length (bsplit (ssep e) text))) eqn:L.
  - rewrite add_subs_unnamed_none by auto. reflexivity.
  - destruct (bsplit (ssep e) text) as [|s0 [|s' r]] eqn:E.
    + exfalso. exact (bsplit_ne _ _ E).
    + cbn [map]. rewrite add_subs_unnamed_one by auto. reflexivity.
    + discriminate.
Qed.

Lemma enc_comp_leaf nm b sto text : base (Some b) = true -> enc_comp t e (leaf_comp nm b sto text) = text.
Proof.
  intros Hb. unfold enc_comp, leaf_comp. cbv zeta. cbn [c_dt c_children].
  assert (base (if Nat.ltb 1 (length (bsplit (ssep e) text)) then None else Some b)
          || opt_is_none (if Nat.ltb 1 (length (bsplit (ssep e) text)) then None else Some b) = true) as ->.
  { destruct (Nat.ltb 1 _); [reflexivity|now rewrite Hb]. }
  rewrite enc_slots_all.
  - rewrite map_enc_st_sub. apply bjoin_bsplit.
  - intros H. apply map_eq_nil in H. exact (bsplit_ne _ _ H).
Qed.

(* ---------- named components of a field whose datatype P is a (two-level) struct ---------- *)

(* parse then encode of the component text s at position j gives s back, under the name P_j *)
Definition comp_rt (P : str) (st : structure) (j : nat) (s : str) (c : comp) : Prop :=
  parse_component t TOLERANT e leaf s (Some (name_idx P j)) None (ref_in (Some st) (name_idx P j)) = Ok c /\
  c_name c = Some (name_idx P j) /\ enc_comp t e c = s.

Definition comp_piece_rt (P : str) (st : structure) (j : nat) (s : str) : Prop :=
  s = [] \/ (is_blank s = false /\ exists c, comp_rt P st j s c).

(* the component objects of one piece: none for an empty piece, else the one parsed from it *)
Definition comp_group_rel (P : str) (st : structure) (js : nat * str) (g : list comp) : Prop :=
  (snd js = [] /\ g = []) \/ (is_blank (snd js) = false /\ exists c, g = [c] /\ comp_rt P st (fst js) (snd js) c).

Lemma parse_comps_named P rows st : dt_name_ok P -> rows_structure t P CMP rows st ->
  forall cs a,
  (forall j s, In (j, s) (combine (seq (S a) (length cs)) cs) -> comp_piece_rt P st j s) ->
  exists gs,
    parse_components_aux t TOLERANT e leaf (Some P) (Some st) (combine (seq (S a) (length cs)) cs) = Ok (concat gs) /\
    Forall2 (piece_group (enc_comp t e)) cs gs /\
    groups_ok c_name (map (name_idx P) (seq (S a) (length cs))) gs /\
    Forall2 (comp_group_rel P st) (combine (seq (S a) (length cs)) cs) gs.
Proof.
  intros HP Hs. induction cs as [|s cs IH]; intros a Hok.
  - exists []. repeat split; constructor.
  - destruct (IH (S a)) as [gs [E [F [G R]]]]. { intros j q Hq. apply Hok. now right. }
    cbn [length seq combine parse_components_aux].
    rewrite (dn_not_base P HP), (dn_is_varies P HP). cbn [opt_is_none orb str_of_opt].
    assert (Hm : has_map (Some st) = true) by (unfold has_map; now rewrite (rs_ordered _ _ _ _ _ Hs)).
    rewrite Hm. rewrite (name_idx_not_varies_us P (S a) (dn_not_varies P HP)). rewrite !orb_false_r.
    destruct (Hok (S a) s (or_introl eq_refl)) as [->|[Hb [c [Hp [Hn He]]]]].
    + exists ([] :: gs). cbn [is_blank strip strip_by rstrip_by lstrip_by rev negb concat app].
      split; [exact E|]. split; [constructor; [left; split; reflexivity|exact F]|].
      split; [cbn [map groups_ok]; split; [intros x []|exact G]|].
      constructor; [left; split; reflexivity|exact R].
    + exists ([c] :: gs). rewrite Hb. cbn [negb]. rewrite Hp, E. cbn [bind concat app].
      split; [reflexivity|]. split; [constructor; [right; exists c; auto|exact F]|].
      split; [cbn [map groups_ok]; split; [intros x [<-|[]]; exact Hn|exact G]|].
      constructor; [right; split; [exact Hb|]; exists c; split; [reflexivity|]; repeat split; assumption|exact R].
Qed.

Lemma groups_ok_more {A} (nm : A -> option str) ks more gs : groups_ok nm ks gs -> groups_ok nm (ks ++ more) gs.
Proof.
  revert ks. induction gs as [|g gs IH]; intros ks H; [exact I|].
  destruct ks as [|k ks]; [destruct H|]. destruct H as [Hg H]. cbn [app groups_ok]. split; [exact Hg|now apply IH].
Qed.

Lemma add_comps_named P rows st : dt_name_ok P -> rows_structure t P CMP rows st -> rows_resolved t rows ->
  forall kids f, f_dt f = Some P -> f_st f = Some st ->
  (forall x, In x kids -> exists k, 1 <= k <= length rows /\ c_name x = Some (name_idx P k)) ->
  add_comps t TOLERANT f kids = Ok (mk_field_rec (f_name f) (f_dt f) (f_st f) (f_children f ++ kids)).
Proof.
  intros HP Hs Hr. induction kids as [|x kids IH]; intros f Hdt Hst' Hk.
  - cbn [add_comps]. rewrite app_nil_r. now destruct f.
  - cbn [add_comps]. rewrite Hdt, Hst', (dn_not_base P HP). rewrite andb_false_r. cbn [andb].
    destruct (Hk x (or_introl eq_refl)) as [k [Hkr Hn]]. rewrite Hn.
    destruct (rows_structure_known P CMP rows st k Hs Hr Hkr) as [Hm Hb].
    rewrite vcc_named_child; auto; [|lia].
    cbn [bind negb]. rewrite card_ok_tolerant. cbn [negb].
    rewrite IH; auto.
    + cbn [f_name f_dt f_st f_children]. now rewrite <- app_assoc.
    + intros y Hy. apply Hk. now right.
Qed.

Lemma groups_ok_members {A} (nm : A -> option str) prefix : forall gs a n x,
  groups_ok nm (map (name_idx prefix) (seq a n)) gs -> In x (concat gs) ->
  exists k, a <= k < a + n /\ nm x = Some (name_idx prefix k).
Proof.
  intros gs a n x H Hx. destruct (groups_ok_in nm _ _ x H Hx) as [k0 [Hk0 E]].
  apply in_map_iff in Hk0. destruct Hk0 as [k [<- Hk]]. apply in_seq in Hk. exists k. split; [lia|exact E].
Qed.

(* the components text of one repetition of a field of datatype P *)
Definition comps_ok (P : str) (st : structure) (rows : list srow) (r : str) : Prop :=
  r = [] \/
  (let cs := bsplit (csep e) r in
   no_trail cs /\ length cs <= length rows /\
   forall j s, In (j, s) (indexed cs) -> comp_piece_rt P st j s).

Lemma parse_field_complex text name ref fv n P rows st :
  field_ctor t name ref fv = Ok (mk_field_rec (Some n) (Some P) (Some st) []) -> is_msh12 name = false ->
  not_msh12 n -> dt_name_ok P -> rows_structure t P CMP rows st -> rows_resolved t rows ->
  comps_ok P st rows text ->
  exists x, parse_field t TOLERANT e leaf text name ref fv = Ok x /\ f_name x = Some n /\
            enc_field t e x = Ok text /\
            (text <> [] -> exists gs, f_children x = concat gs /\
                                     Forall2 (comp_group_rel P st) (indexed (bsplit (csep e) text)) gs).
Proof.
  intros Hc Hm Hn HP Hs Hr Hok. rewrite parse_field_unfold, Hc, Hm. cbn [bind f_dt f_st].
  unfold parse_components.
  assert (Henc : forall gs, enc_field t e (mk_field_rec (Some n) (Some P) (Some st) (concat gs)) =
                            Ok (enc_slots (enc_comp t e) (csep e) (generic_slots c_name (Some st) (concat gs)))).
  { intros gs. unfold enc_field. cbn [f_name f_dt f_st f_children]. unfold not_msh12 in Hn. rewrite Hn.
    now rewrite (dn_is_varies P HP), (dn_not_base P HP). }
  destruct Hok as [->|[Ht [Hlen Hok]]].
  - (* an empty repetition: a field without components *)
    assert (Hm' : has_map (Some st) = true) by (unfold has_map; now rewrite (rs_ordered _ _ _ _ _ Hs)).
    rewrite bsplit_nil. change (indexed [[]]) with [(1, @nil byte)]. cbn [parse_components_aux].
    rewrite (dn_not_base P HP), (dn_is_varies P HP). cbn [opt_is_none orb str_of_opt].
    rewrite Hm', (name_idx_not_varies_us P 1 (dn_not_varies P HP)).
    change (is_blank []) with true. cbn [negb orb bind is_strict andb length Nat.ltb Nat.leb add_comps f_name f_dt f_st f_children].
    exists (mk_field_rec (Some n) (Some P) (Some st) []).
    split; [reflexivity|]. split; [reflexivity|]. split; [|congruence].
    pose proof (Henc []) as H0. cbn [concat] in H0. rewrite H0. f_equal.
    apply (level_codec c_name (enc_comp t e) (csep e) (Some st) [] []).
    + rewrite (ordered_of_rows P CMP rows st Hs). apply name_idx_NoDup.
    + rewrite (ordered_of_rows P CMP rows st Hs). apply names_no_ST.
    + exact I.
    + constructor.
    + apply no_trail_nil.
  - destruct (parse_comps_named P rows st HP Hs (bsplit (csep e) text) 0 Hok) as [gs [E [F [G R]]]].
    assert (E' : parse_components_aux t TOLERANT e leaf (Some P) (Some st) (indexed (bsplit (csep e) text)) = Ok (concat gs))
      by exact E.
    rewrite E'. cbn [bind is_strict negb andb]. rewrite (dn_not_base P HP). cbn [andb].
    assert (GK : groups_ok c_name (map (name_idx P) (seq 1 (length rows))) gs).
    { replace (length rows) with (length (bsplit (csep e) text) + (length rows - length (bsplit (csep e) text))) by lia.
      rewrite seq_app, map_app. now apply groups_ok_more. }
    rewrite (add_comps_named P rows st HP Hs Hr); [|reflexivity|reflexivity|].
    2:{ intros x Hx. destruct (groups_ok_members c_name P gs 1 (length rows) x GK Hx) as [k [Hk Ek]].
        exists k. split; [lia|exact Ek]. }
    cbn [f_name f_dt f_st f_children app]. eexists. split; [reflexivity|]. split; [reflexivity|].
    split.
    + rewrite (Henc gs). f_equal.
      rewrite (level_codec c_name (enc_comp t e) (csep e) (Some st) (bsplit (csep e) text) gs); auto.
      * apply bjoin_bsplit.
      * rewrite (ordered_of_rows P CMP rows st Hs). apply name_idx_NoDup.
      * rewrite (ordered_of_rows P CMP rows st Hs). apply names_no_ST.
      * now rewrite (ordered_of_rows P CMP rows st Hs).
    + intros _. exists gs. split; [reflexivity|exact R].
Qed.

End Named.

(* ------------------------------------------------------------------ *)
(* the segment level, generic in how each field round-trips             *)

Lemma Forall_exists_Forall2 {A B} (R : A -> B -> Prop) l :
  Forall (fun a => exists b, R a b) l -> exists bs, Forall2 R l bs.
Proof.
  induction 1 as [|a l [b Hb] _ [bs IH]]; [exists []; constructor|]. exists (b :: bs). now constructor.
Qed.

Lemma Forall2_impl {A B} (R S : A -> B -> Prop) l m :
  (forall a b, R a b -> S a b) -> Forall2 R l m -> Forall2 S l m.
Proof. intros H. induction 1; constructor; auto. Qed.

Lemma Forall2_length' {A B} (R : A -> B -> Prop) l m : Forall2 R l m -> length l = length m.
Proof. induction 1; cbn; congruence. Qed.

Section SegLevel.
Variable t : tables.
Variable e : ec.
Variable leaf : option str -> str -> result str.
Hypothesis Hec : ec_ok e.

Variable sn : str.
Hypothesis H3 : length sn = 3.
Hypothesis Hup : upper sn = sn.
Hypothesis Hmsh : streqb sn (unbs "MSH") = false.

Lemma sn_no_msh : no_msh sn.
Proof.
  destruct sn as [|a [|b [|c [|]]]]; try discriminate. apply no_msh_of. rewrite Hup.
  intros E. rewrite E in Hmsh. discriminate.
Qed.

Lemma sn_not_msh12 i : not_msh12 (name_idx sn i).
Proof.
  unfold not_msh12, opt_eqb. destruct (sn_no_msh i) as [M2 M1].
  rewrite name_idx_upper, Hup in M1, M2. now rewrite M1, M2.
Qed.

Lemma sn_is_msh12 i : is_msh12 (Some (name_idx sn i)) = false.
Proof. unfold is_msh12. cbn [option_map]. rewrite name_idx_upper, Hup. apply sn_not_msh12. Qed.

Lemma bjoin_sn fs : bjoin (fsep e) (sn :: fs) = sn ++ match fs with [] => [] | _ => fsep e :: bjoin (fsep e) fs end.
Proof. destruct fs; [cbn [bjoin join]; now rewrite app_nil_r|reflexivity]. Qed.

Lemma seg_name_sn fs : seg_name_of (bjoin (fsep e) (sn :: fs)) = sn.
Proof. rewrite bjoin_sn. unfold seg_name_of. rewrite <- H3. apply take_app. Qed.

Lemma seg_rest_sn fs : seg_rest_of (bjoin (fsep e) (sn :: fs)) = bjoin (fsep e) fs.
Proof.
  unfold seg_rest_of. fold (seg_name_of (bjoin (fsep e) (sn :: fs))). rewrite seg_name_sn, Hup, Hmsh.
  rewrite bjoin_sn. destruct sn as [|a [|b [|c [|]]]]; try discriminate. destruct fs; reflexivity.
Qed.

(* one repetition text r of field i parses to x, which is named <SEG>_i and encodes to r *)
Definition field_rt (st : structure) (fv : bool) (i : nat) (r : str) (x : field) : Prop :=
  parse_field t TOLERANT e leaf r (Some (name_idx sn i))
              (if has_map (Some st) then ref_in (Some st) (name_idx sn i) else None) fv = Ok x /\
  f_name x = Some (name_idx sn i) /\ enc_field t e x = Ok r.

(* a field text that round-trips at position i *)
Definition tfield (st : structure) (fv : bool) (i : nat) (f : str) : Prop :=
  bmem (fsep e) f = false /\ bmem CR f = false /\
  (f = [] \/ (is_blank f = false /\ Forall (fun r => exists x, field_rt st fv i r x) (bsplit (rsep e) f))).

(* the groups of field objects a list of field texts parses to *)
Definition groups_rel (st : structure) (fv : bool) (i : nat) (f : str) (g : list field) : Prop :=
  (f = [] /\ g = []) \/ (is_blank f = false /\ Forall2 (field_rt st fv i) (bsplit (rsep e) f) g).

Lemma tfield_groups st fv : forall fs a,
  (forall i f, In (i, f) (combine (seq a (length fs)) fs) -> tfield st fv i f) ->
  exists gs, Forall2 (fun p g => groups_rel st fv (fst p) (snd p) g) (combine (seq a (length fs)) fs) gs.
Proof.
  induction fs as [|f fs IH]; intros a H; [exists []; constructor|].
  destruct (IH (S a)) as [gs G]. { intros i q Hq. apply H. now right. }
  destruct (H a f (or_introl eq_refl)) as [_ [_ [->|[Hb Hr]]]].
  - exists ([] :: gs). cbn [length seq combine]. constructor; [left; split; reflexivity|exact G].
  - destruct (Forall_exists_Forall2 _ _ Hr) as [g Hg].
    exists (g :: gs). cbn [length seq combine]. constructor; [right; split; assumption|exact G].
Qed.

Lemma groups_rel_field_group st fv i f g : groups_rel st fv i f g ->
  field_group t e leaf sn (Some st) fv i f g.
Proof.
  intros [[-> ->]|[Hb Hr]]; [left; split; reflexivity|right]. split; [exact Hb|].
  apply parse_reps_all. eapply Forall2_impl; [|exact Hr]. intros r x [Hp _]. exact Hp.
Qed.

Lemma groups_rel_enc st fv i f g : groups_rel st fv i f g -> group_enc t e f g.
Proof.
  intros [[-> ->]|[Hb Hr]]; [left; split; reflexivity|right]. split.
  - intros ->. inversion Hr as [E|]. exact (bsplit_ne _ _ (eq_sym E)).
  - exists (bsplit (rsep e) f). split; [|apply bjoin_bsplit].
    apply enc_reps_all. clear Hb. induction Hr as [|r x rs xs [_ [_ He]] _ IH]; constructor; assumption.
Qed.

Lemma groups_rel_named st fv : forall l gs a, map fst l = seq a (length l) ->
  Forall2 (fun p g => groups_rel st fv (fst p) (snd p) g) l gs -> groups_named sn a gs.
Proof.
  induction l as [|[i f] l IH]; intros gs a Hl H; inversion H as [|? g ? gs' Hg Hgs]; subst; [exact I|].
  cbn [map fst length seq] in Hl. injection Hl as -> Hl. cbn [groups_named]. split.
  - intros x Hx. destruct Hg as [[_ ->]|[_ Hr]]; [destruct Hx|]. cbn [fst snd] in Hr.
    clear -Hr Hx. induction Hr as [|r y rs ys [_ [Hn _]] _ IH]; [destruct Hx|].
    destruct Hx as [<-|Hx]; [exact Hn|now apply IH].
  - now apply (IH gs' (S a)).
Qed.

Theorem seg_roundtrip st (inf : bool) n (fs : list str) :
  mk_segment t sn None = Ok (mk_seg sn st inf (N.of_nat n) (N.of_nat n) []) ->
  st_ordered st = Some (map (name_idx sn) (seq 1 n)) ->
  (forall i, 1 <= i <= n -> opt_is_some (by_name st (name_idx sn i)) = true) ->
  no_trail fs -> (inf = true \/ length fs <= n) ->
  (forall i f, In (i, f) (indexed fs) -> tfield st inf i f) ->
  exists s gs,
    parse_segment t TOLERANT e leaf (bjoin (fsep e) (sn :: fs)) None = Ok s /\
    s_children s = concat gs /\
    Forall2 (fun p g => groups_rel st inf (fst p) (snd p) g) (indexed fs) gs /\
    enc_segment t e s false = Ok (bjoin (fsep e) (sn :: fs)).
Proof.
  intros Hmk Hord Hby Ht Hlen Hf.
  destruct (tfield_groups st inf fs 1 Hf) as [gs G]. fold (indexed fs) in G.
  assert (Hnamed : groups_named sn 1 gs).
  { apply (groups_rel_named st inf (indexed fs) gs 1); [|exact G].
    rewrite indexed_fst. unfold indexed. rewrite combine_length, seq_length, Nat.min_id. reflexivity. }
  assert (Hgl : length gs = length fs).
  { rewrite <- (Forall2_length' _ _ _ G). unfold indexed. rewrite combine_length, seq_length. apply Nat.min_id. }
  set (last := last_idx inf 1 gs (N.of_nat n)).
  exists (mk_seg sn st inf (N.of_nat n) last (concat gs)), gs.
  assert (Hparse : parse_segment t TOLERANT e leaf (bjoin (fsep e) (sn :: fs)) None =
                   Ok (mk_seg sn st inf (N.of_nat n) last (concat gs))).
  { unfold parse_segment. rewrite seg_name_sn, Hmk. cbn [bind]. unfold parse_segment_in.
    rewrite seg_name_sn, seg_rest_sn. cbn [s_st s_inf]. unfold parse_fields.
    assert (Hcr : bmem CR (bjoin (fsep e) fs) = false).
    { apply bmem_bjoin.
      - intros E. destruct Hec as [_ Hs]. specialize (Hs (fsep e) (or_introl eq_refl)). rewrite <- E in Hs. discriminate.
      - rewrite Forall_forall. intros f Hin. apply (In_nth _ _ []) in Hin. destruct Hin as [k [Hk <-]].
        assert (In (S k, nth k fs []) (indexed fs)) as Hi.
        { unfold indexed. replace (S k, nth k fs []) with (nth k (combine (seq 1 (length fs)) fs) (0, [])).
          - apply nth_In. rewrite combine_length, seq_length, Nat.min_id. exact Hk.
          - rewrite combine_nth by apply seq_length. rewrite seq_nth by exact Hk. reflexivity. }
        now destruct (Hf _ _ Hi) as [_ [Hc _]]. }
    rewrite (strip_cr_none _ Hcr).
    assert (Hsp : bsplit (fsep e) (bjoin (fsep e) fs) = match fs with [] => [[]] | _ => fs end).
    { apply bsplit_bjoin'. rewrite forallb_forall. intros f Hin. apply (In_nth _ _ []) in Hin.
      destruct Hin as [k [Hk <-]].
      assert (In (S k, nth k fs []) (indexed fs)) as Hi.
      { unfold indexed. replace (S k, nth k fs []) with (nth k (combine (seq 1 (length fs)) fs) (0, [])).
        - apply nth_In. rewrite combine_length, seq_length, Nat.min_id. exact Hk.
        - rewrite combine_nth by apply seq_length. rewrite seq_nth by exact Hk. reflexivity. }
      destruct (Hf _ _ Hi) as [Hs _]. now apply nosep_of_bmem. }
    rewrite Hsp. destruct fs as [|f0 fs0].
    - inversion G; subst. cbn [indexed length seq combine parse_fields_aux].
      destruct (sn_no_msh 1) as [M2 M1]. rewrite M1. change (is_blank []) with true.
      cbn [negb bind app add_fields concat last_idx]. subst last. reflexivity.
    - erewrite parse_fields_aux_groups; [|exact sn_no_msh|].
      2:{ eapply Forall2_impl; [|exact G]. intros p g. apply groups_rel_field_group. }
      cbn [bind]. rewrite (add_fields_groups t sn st inf (N.of_nat n) gs 1 (N.of_nat n) []); auto.
      destruct Hlen as [Hinf|Hlen]; [left; exact Hinf|right]. intros i Hi. apply Hby. lia. }
  split; [exact Hparse|]. split; [reflexivity|]. split; [exact G|].
  assert (HGE : Forall2 (group_enc t e) fs gs).
  { clear -G. unfold indexed in G. revert G. generalize 1. revert gs.
    induction fs as [|f fs IH]; intros gs a G; inversion G; subst; constructor.
    + eapply groups_rel_enc; eauto.
    + eapply IH; eauto. }
  apply (enc_segment_groups t e sn st inf n last gs fs); auto.
  - subst last. apply last_idx_ge.
  - destruct inf.
    + pose proof (group_enc_no_trail t e fs gs HGE Ht) as Hgt.
      destruct (no_trail_cases gs Hgt) as [->|[gs' [g [-> Hg]]]]; [cbn; lia|].
      subst last. pose proof (last_idx_reaches gs' 1 (N.of_nat n) g Hg) as L.
      rewrite app_length. cbn [length]. lia.
    + destruct Hlen as [Hinf|Hlen]; [discriminate|lia].
Qed.

End SegLevel.

(* ------------------------------------------------------------------ *)
(* table-driven segments                                                *)

Section TableSeg.
Variable t : tables.
Variable e : ec.
Variable leaf : option str -> str -> result str.
Hypothesis Hec : ec_ok e.

Notation base := (base t).
Hypothesis Hst : base (Some (unbs "ST")) = true.
Hypothesis Hvar : base (Some (unbs "varies")) = false.

(* --- what the tables must satisfy (Prop form; RoundTripTables.v decides it by computation) --- *)
Definition comp_row_ok (row : srow) : Prop :=
  (exists i b, row_ref t row = Some (SLeaf i) /\ i_dt i = Some b /\ base (Some b) = true) \/
  (exists i D2 rows2, row_ref t row = Some (SSeqDt i) /\ i_dt i = Some D2 /\
                      slookup D2 (t_structs t) = Some rows2 /\ dt_name_ok t D2 /\ flat_rows t D2 rows2).
Definition good_struct (D : str) (rows : list srow) : Prop :=
  dt_name_ok t D /\ rows_contiguous D CMP 1 rows = true /\ forall row, In row rows -> comp_row_ok row.

Lemma good_struct_resolved D rows : good_struct D rows -> rows_resolved t rows.
Proof.
  intros [_ [_ H]] x Hx E. destruct (H x Hx) as [[i [b [E' _]]]|[i [D2 [rows2 [E' _]]]]]; congruence.
Qed.

(* --- Field(name, reference=table reference) --- *)
Lemma mk_field_ref n0 r st : upper n0 = n0 -> parse_structure t r = Ok st ->
  field_ctor t (Some n0) (Some r) false = Ok (mk_field_rec (Some n0) (st_dt (Some st)) (Some st) []) /\
  field_ctor t (Some n0) (Some r) true = Ok (mk_field_rec (Some n0) (st_dt (Some st)) (Some st) []).
Proof.
  intros Hu Hp.
  assert (E : mk_field t TOLERANT (Some n0) None (Some r) = Ok (mk_field_rec (Some n0) (st_dt (Some st)) (Some st) [])).
  { unfold mk_field. cbn [is_strict andb]. rewrite is_varies_none. cbn [andb].
    unfold structure_for. rewrite Hu, Hp. cbn [bind]. reflexivity. }
  unfold field_ctor. rewrite E. split; reflexivity.
Qed.

Lemma field_ctor_ref n0 r st fv : upper n0 = n0 -> parse_structure t r = Ok st ->
  field_ctor t (Some n0) (Some r) fv = Ok (mk_field_rec (Some n0) (st_dt (Some st)) (Some st) []).
Proof. intros Hu Hp. destruct (mk_field_ref n0 r st Hu Hp). now destruct fv. Qed.

(* --- Segment(name) for a table segment --- *)
Lemma last_opt_names prefix n :
  last_opt (map (name_idx prefix) (seq 1 (S n))) = Some (name_idx prefix (S n)).
Proof. unfold last_opt. rewrite seq_S, map_app, rev_app_distr. reflexivity. Qed.

Lemma mk_segment_table sn rows :
  length sn = 3 -> upper sn = sn -> valid_z_segment_name sn = false ->
  slookup sn (t_segments t) = Some (SSeqIn false rows None) ->
  rows_contiguous sn FIE 1 rows = true -> rows_resolved t rows ->
  (forall row, In row rows -> exists r, row_ref t row = Some r /\ ref_info r <> None) ->
  exists st inf,
    mk_segment t sn None = Ok (mk_seg sn st inf (N.of_nat (length rows)) (N.of_nat (length rows)) []) /\
    rows_structure t sn FIE rows st /\
    (* allow_infinite_children: the last field is of type varies *)
    (forall lrow li, nth_error rows (pred (length rows)) = Some lrow -> row_ref t lrow = Some (SLeaf li) ->
                     i_dt li = Some (unbs "varies") -> inf = true).
Proof.
  intros H3 Hu Hz Hl Hc Hr Hinfo. unfold mk_segment. rewrite Hz, Hu.
  unfold structure_for, load_reference. cbn [table_of]. rewrite Hl.
  unfold parse_structure, view_of.
  destruct (parse_children_structure t sn FIE rows (SSeqIn false rows None) None Hc Hr) as [st [E [_ [_ Hs]]]].
  rewrite E. cbn [bind]. rewrite (rs_ordered _ _ _ _ _ Hs).
  destruct (length rows) as [|n] eqn:En.
  - exists st, false. split; [reflexivity|]. split; [exact Hs|].
    intros lrow li Hn. destruct rows; [discriminate|discriminate].
  - rewrite last_opt_names.
    destruct (nth_error rows n) as [row|] eqn:Er; [|apply nth_error_None in Er; lia].
    destruct (Hinfo row (nth_error_In _ _ Er)) as [r [Hrr Hri]].
    rewrite (rs_by_name _ _ _ _ _ Hs n row r Er Hrr). cbn [se_name se_ref].
    rewrite (name_idx3_drop4 sn (S n) H3), nat_to_str_py_int, nat_to_str_py_val.
    unfold rt_info. destruct (ref_info r) as [i|] eqn:Ei; [|congruence].
    exists st, (opt_eqb (i_dt i) (Some (unbs "varies"))). split; [reflexivity|]. split; [exact Hs|].
    intros lrow li Hn' Hr' Hd'. cbn [pred] in Hn'. rewrite Er in Hn'. injection Hn' as <-.
    rewrite Hrr in Hr'. injection Hr' as ->. cbn [ref_info] in Ei. injection Ei as <-.
    rewrite Hd'. apply opt_eqb_some_refl.
Qed.


(* --- typed conditions on texts --- *)

(* the text s of a component described by the struct row `row` *)
Definition comp_text_ok (row : srow) (s : str) : Prop :=
  match row_ref t row with
  | Some (SLeaf i) => match i_dt i with Some b => subs_fix e leaf b s | None => False end
  | Some (SSeqDt i) =>
      match i_dt i with
      | Some D2 => match slookup D2 (t_structs t) with Some rows2 => subs_ok t e leaf rows2 s | None => False end
      | None => False
      end
  | _ => False
  end.

(* the components text r of one repetition of a field of struct datatype (rows) *)
Definition tcomps_ok (rows : list srow) (r : str) : Prop :=
  r = [] \/
  (let cs := bsplit (csep e) r in
   no_trail cs /\ length cs <= length rows /\
   forall j s, In (j, s) (indexed cs) ->
     s = [] \/ (is_blank s = false /\ exists row, nth_error rows (pred j) = Some row /\ comp_text_ok row s)).

(* one repetition text of a field whose table reference is fr *)
Definition rep_text_ok (fr : sref) (r : str) : Prop :=
  match fr with
  | SLeaf i =>
      match i_dt i with
      | Some b => (base (Some b) = true /\ comps_fix e leaf b r) \/
                  (b = unbs "varies" /\ vcomps_fix e leaf r)
      | None => vcomps_fix e leaf r       (* untyped leaf: like varies *)
      end
  | SSeqDt i =>
      match i_dt i with
      | Some D => match slookup D (t_structs t) with Some rows => tcomps_ok rows r | None => False end
      | None => False
      end
  | _ => False
  end.

(* --- components --- *)
Lemma comp_rt_of_row P rows st j row s :
  good_struct P rows -> rows_structure t P CMP rows st ->
  nth_error rows (pred j) = Some row -> 1 <= j -> comp_text_ok row s ->
  exists c, comp_rt t e leaf P st j s c.
Proof.
  intros [HP [_ Hrows]] Hs Hn Hj Hok. destruct j as [|j]; [lia|]. cbn [pred] in Hn.
  unfold comp_text_ok in Hok. unfold comp_rt.
  destruct (Hrows row (nth_error_In _ _ Hn)) as [[i [b [Er [Ei Hb]]]]|[i [D2 [rows2 [Er [Ei [Hl [HD2 Hf]]]]]]]];
    rewrite Er, Ei in Hok; destruct (rows_structure_ref_in t P CMP rows st j row _ Hs Hn Er) as [_ ->].
  - eexists. split; [apply (parse_component_leaf t e leaf Hvar P (S j) i b s HP Ei Hb Hok)|].
    split; [reflexivity|now apply enc_comp_leaf].
  - rewrite Hl in Hok.
    destruct (parse_structure_dt t i D2 rows2 Ei Hl (proj1 Hf) (flat_rows_resolved t D2 rows2 Hf)) as [st2 [Hp [Hinfo Hs2]]].
    eexists. split; [apply (parse_component_complex t e leaf P (S j) i D2 rows2 st2 s HP HD2 Ei Hp Hinfo Hs2 Hf Hok)|].
    split; [reflexivity|apply (enc_comp_complex t e leaf _ D2 rows2 st2 s HD2 Hs2 Hok)].
Qed.

Lemma comps_ok_of_text P rows st r :
  good_struct P rows -> rows_structure t P CMP rows st -> tcomps_ok rows r -> comps_ok t e leaf P st rows r.
Proof.
  intros Hg Hs [->|[Ht [Hlen Hok]]]; [now left|right]. split; [exact Ht|]. split; [exact Hlen|].
  intros j s Hjs. destruct (Hok j s Hjs) as [->|[Hb [row [Hn Hc]]]]; [now left|right]. split; [exact Hb|].
  apply (comp_rt_of_row P rows st j row s Hg Hs Hn); [|exact Hc].
  apply in_combine_seq in Hjs. lia.
Qed.

(* --- fields --- *)
Section OneSeg.
Variable sn : str.
Hypothesis H3 : length sn = 3.
Hypothesis Hup : upper sn = sn.
Hypothesis Hmsh : streqb sn (unbs "MSH") = false.
Variable srows : list srow.
Variable sst : structure.
Hypothesis Hsst : rows_structure t sn FIE srows sst.

Definition field_row_ok (row : srow) : Prop :=
  exists fr, row_ref t row = Some fr /\
    match fr with
    | SLeaf i => match i_dt i with Some b => base (Some b) = true \/ b = unbs "varies" | None => True end
    | SSeqDt i => exists D rows, i_dt i = Some D /\ slookup D (t_structs t) = Some rows /\ good_struct D rows
    | _ => False
    end.

Lemma field_rt_of_text_gen fv i row fr r :
  is_msh12 (Some (name_idx sn i)) = false -> not_msh12 (name_idx sn i) ->
  nth_error srows (pred i) = Some row -> 1 <= i -> row_ref t row = Some fr -> field_row_ok row ->
  rep_text_ok fr r -> exists x, field_rt t e leaf sn sst fv i r x.
Proof.
  intros M12 N12 Hn Hi Hr [fr' [Hr' Hk]] Hok. rewrite Hr in Hr'. injection Hr' as <-.
  destruct i as [|i]; [lia|]. cbn [pred] in Hn.
  destruct (rows_structure_ref_in t sn FIE srows sst i row fr Hsst Hn Hr) as [Hm Href].
  unfold field_rt. rewrite Hm, Href.
  assert (Hun : upper (name_idx sn (S i)) = name_idx sn (S i)) by now rewrite name_idx_upper, Hup.
  destruct fr as [inf|inf| |]; try contradiction.
  - (* leaf field *)
    cbn [rep_text_ok] in Hok.
    pose proof (field_ctor_ref (name_idx sn (S i)) (SLeaf inf) _ fv Hun (leaf_structure t inf)) as Hc.
    cbn [st_dt st_info] in Hc.
    destruct (i_dt inf) as [b|] eqn:Ei.
    2:{ eexists. split; [apply (parse_field_untyped t e leaf Hst _ _ _ fv _ _ Hc M12 eq_refl Hok)|].
        split; [reflexivity|]. now apply enc_field_untyped. }
    destruct Hok as [[Hb Hcs]|[-> Hcs]].
    + eexists. split; [apply (parse_field_base t e leaf _ _ _ fv _ b _ Hc M12 Hb (base_not_varies t Hvar b Hb) Hcs)|].
      split; [reflexivity|]. apply enc_field_base; auto. exact (base_not_varies t Hvar b Hb).
    + eexists. split; [apply (parse_field_varies t e leaf Hst Hvar _ _ _ fv _ _ Hc M12 eq_refl Hcs)|].
      split; [reflexivity|]. now apply enc_field_varies.
  - (* struct-typed field *)
    cbn [rep_text_ok] in Hok. destruct Hk as [D [rows [Ei [Hl Hg]]]]. rewrite Ei, Hl in Hok.
    destruct (parse_structure_dt t inf D rows Ei Hl (proj1 (proj2 Hg)) (good_struct_resolved D rows Hg)) as [st [Hp [Hinfo Hs]]].
    pose proof (field_ctor_ref (name_idx sn (S i)) (SSeqDt inf) st fv Hun Hp) as Hc.
    cbn [st_dt] in Hc. rewrite Hinfo, Ei in Hc.
    destruct (parse_field_complex t e leaf r _ _ fv _ D rows st Hc M12 N12 (proj1 Hg) Hs (good_struct_resolved D rows Hg))
      as [x [Hx1 [Hx2 [Hx3 _]]]]; [now apply comps_ok_of_text|].
    exists x. auto.
Qed.

Lemma field_rt_of_text fv i row fr r :
  nth_error srows (pred i) = Some row -> 1 <= i -> row_ref t row = Some fr -> field_row_ok row ->
  rep_text_ok fr r -> exists x, field_rt t e leaf sn sst fv i r x.
Proof.
  apply field_rt_of_text_gen; [apply (sn_is_msh12 sn H3 Hup Hmsh)|apply (sn_not_msh12 sn H3 Hup Hmsh)].
Qed.

End OneSeg.

(* --- the whole segment --- *)

(* a canonical field text at position i of a segment with field rows srows *)
Definition tfield_text (srows : list srow) (i : nat) (f : str) : Prop :=
  bmem (fsep e) f = false /\ bmem CR f = false /\
  (f = [] \/
   (is_blank f = false /\
    exists row fr, nth_error srows (pred i) = Some row /\ row_ref t row = Some fr /\
                   Forall (rep_text_ok fr) (bsplit (rsep e) f))).

(* what the segment's children look like: per field text, the repetitions parsed from it *)
Definition fields_of (srows : list srow) (sn : str) (i : nat) (f : str) (g : list field) : Prop :=
  (f = [] /\ g = []) \/
  (is_blank f = false /\
   exists row fr fv, nth_error srows (pred i) = Some row /\ row_ref t row = Some fr /\
   Forall2 (fun r x => parse_field t TOLERANT e leaf r (Some (name_idx sn i)) (Some fr) fv = Ok x /\
                       f_name x = Some (name_idx sn i) /\ enc_field t e x = Ok r) (bsplit (rsep e) f) g).

Lemma Forall2_impl_In {A B} (R S : A -> B -> Prop) l m :
  (forall a b, In a l -> R a b -> S a b) -> Forall2 R l m -> Forall2 S l m.
Proof.
  intros H F. induction F as [|a b l m Hab _ IH]; constructor.
  - apply H; [now left|exact Hab].
  - apply IH. intros a' b' Hi. apply H. now right.
Qed.

Theorem seg_table_roundtrip sn srows (fs : list str) :
  length sn = 3 -> upper sn = sn -> streqb sn (unbs "MSH") = false -> valid_z_segment_name sn = false ->
  slookup sn (t_segments t) = Some (SSeqIn false srows None) ->
  rows_contiguous sn FIE 1 srows = true ->
  (forall row, In row srows -> field_row_ok row) ->
  no_trail fs -> length fs <= length srows ->
  (forall i f, In (i, f) (indexed fs) -> tfield_text srows i f) ->
  exists s gs,
    parse_segment t TOLERANT e leaf (bjoin (fsep e) (sn :: fs)) None = Ok s /\
    s_children s = concat gs /\
    Forall2 (fun p g => fields_of srows sn (fst p) (snd p) g) (indexed fs) gs /\
    enc_segment t e s false = Ok (bjoin (fsep e) (sn :: fs)).
Proof.
  intros H3 Hup Hmsh Hz Hl Hc Hrows Ht Hlen Hf.
  assert (Hres : rows_resolved t srows).
  { intros x Hx E. destruct (Hrows x Hx) as [fr [E' _]]. congruence. }
  assert (Hinfo : forall row, In row srows -> exists r, row_ref t row = Some r /\ ref_info r <> None).
  { intros row Hx. destruct (Hrows row Hx) as [fr [E' K]]. exists fr. split; [exact E'|].
    destruct fr; try contradiction; discriminate. }
  destruct (mk_segment_table sn srows H3 Hup Hz Hl Hc Hres Hinfo) as [st [inf [Hmk [Hs _]]]].
  destruct (seg_roundtrip t e leaf Hec sn H3 Hup Hmsh st inf (length srows) fs Hmk (rs_ordered _ _ _ _ _ Hs))
    as [s [gs [Hp [Hch [Hg He]]]]]; auto.
  - intros i Hi. now apply (rows_structure_known t sn FIE srows st i Hs Hres).
  - intros i f Hif. destruct (Hf i f Hif) as [A [B C]]. split; [exact A|]. split; [exact B|].
    destruct C as [->|[Hb [row [fr [Hn [Hr Hall]]]]]]; [now left|right]. split; [exact Hb|].
    eapply Forall_impl; [|exact Hall]. intros r Hr'.
    apply (field_rt_of_text sn H3 Hup Hmsh srows st Hs inf i row fr r Hn); auto.
    + apply in_combine_seq in Hif. lia.
    + apply Hrows. exact (nth_error_In _ _ Hn).
  - exists s, gs. split; [exact Hp|]. split; [exact Hch|]. split; [|exact He].
    eapply Forall2_impl_In; [|exact Hg]. intros [i f] g Hin [[-> ->]|[Hb Hr]]; [now left|right].
    split; [exact Hb|]. cbn [fst snd] in *.
    destruct (Hf i f Hin) as [_ [_ [->|[_ [row [fr [Hn [Hrr _]]]]]]]]; [discriminate|].
    exists row, fr, inf. split; [exact Hn|]. split; [exact Hrr|].
    assert (Hi : 1 <= i) by (apply in_combine_seq in Hin; lia).
    destruct i as [|i]; [lia|]. cbn [pred] in Hn.
    destruct (rows_structure_ref_in t sn FIE srows st i row fr Hs Hn Hrr) as [Hm Href].
    eapply Forall2_impl; [|exact Hr]. intros r x [Hpf [Hnm He']]. rewrite Hm, Href in Hpf. auto.
Qed.

(* ------------------------------------------------------------------ *)
(* positions                                                            *)

Lemma indexed_repeat_app k (x : str) :
  indexed (repeat [] k ++ [x]) = indexed (repeat [] k) ++ [(S k, x)].
Proof. rewrite indexed_app. now rewrite repeat_length. Qed.

Lemma in_indexed_repeat k j (f : str) : In (j, f) (indexed (repeat [] k)) -> f = [].
Proof. intros H. apply (in_map snd) in H. rewrite indexed_snd in H. cbn [snd] in H. now apply repeat_spec in H. Qed.

(* the children found when all pieces but the last are empty *)
Lemma Forall2_position {G} (R : nat * str -> list G -> Prop) k x gs :
  (forall j g, R (j, []) g -> g = []) ->
  Forall2 R (indexed (repeat [] k ++ [x])) gs ->
  exists g, R (S k, x) g /\ concat gs = g.
Proof.
  intros Hnil H. rewrite indexed_repeat_app in H. apply Forall2_app_inv_l in H.
  destruct H as [g1 [g2 [H1 [H2 ->]]]]. inversion H2 as [|? g ? g2' Hg Hn]; subst. inversion Hn; subst.
  exists g. split; [exact Hg|]. rewrite concat_app. cbn [concat]. rewrite app_nil_r.
  assert (E : concat g1 = []).
  { clear -H1 Hnil. remember (indexed (repeat [] k)) as l eqn:El.
    assert (Hl : forall j f, In (j, f) l -> f = []) by (subst l; intros j f; apply in_indexed_repeat).
    clear El. induction H1 as [|[j f] g l g1 Hg _ IH]; [reflexivity|].
    cbn [concat]. rewrite IH by (intros j' f' Hi; apply (Hl j'); now right).
    rewrite (Hl j f (or_introl eq_refl)) in Hg. now rewrite (Hnil j g Hg). }
  now rewrite E.
Qed.

Lemma comps_fix_leaf b x : delim_free e x -> leaf (Some b) x = Ok x -> comps_fix e leaf b x.
Proof.
  intros Hd Hl. destruct (leaf_splits e x Hd) as [_ [Sc Ss]].
  unfold comps_fix. rewrite Sc. constructor; [|constructor].
  unfold subs_fix. rewrite Ss. constructor; [now right|constructor].
Qed.

Theorem field_position sn srows i row inf b x :
  length sn = 3 -> upper sn = sn -> streqb sn (unbs "MSH") = false -> valid_z_segment_name sn = false ->
  slookup sn (t_segments t) = Some (SSeqIn false srows None) ->
  rows_contiguous sn FIE 1 srows = true ->
  (forall row, In row srows -> field_row_ok row) ->
  1 <= i -> nth_error srows (pred i) = Some row ->
  row_ref t row = Some (SLeaf inf) -> i_dt inf = Some b -> base (Some b) = true ->
  is_blank x = false -> delim_free e x -> leaf (Some b) x = Ok x ->
  let text := sn ++ repeat (fsep e) i ++ x in
  exists s f c sb,
    parse_segment t TOLERANT e leaf text None = Ok s /\
    s_children s = [f] /\ f_name f = Some (name_idx sn i) /\ f_children f = [c] /\
    c_children c = [sb] /\ sc_value sb = x /\
    enc_segment t e s false = Ok text.
Proof.
  intros H3 Hup Hmsh Hz Hl Hc Hrows Hi Hn Hr Hdt Hb Hx Hd Hlf text.
  destruct i as [|k]; [lia|]. cbn [pred] in Hn.
  assert (E : text = bjoin (fsep e) (sn :: repeat [] k ++ [x])) by (subst text; now rewrite bjoin_position).
  assert (Hlen : length (repeat (@nil byte) k ++ [x]) <= length srows).
  { rewrite app_length, repeat_length. cbn [length].
    assert (k < length srows) by (apply nth_error_Some; congruence). lia. }
  destruct (leaf_splits e x Hd) as [Sr [Sc Ss]]. destruct Hd as [Hf0 [Hc0 [Hr0 [Hs0 Hcr0]]]].
  destruct (seg_table_roundtrip sn srows (repeat [] k ++ [x]) H3 Hup Hmsh Hz Hl Hc Hrows)
    as [s [gs [Hp [Hch [Hg He]]]]]; auto.
  - apply no_trail_last, not_blank_ne, Hx.
  - intros j f Hjf. rewrite indexed_repeat_app in Hjf. apply in_app_or in Hjf. destruct Hjf as [Hjf|[Hjf|[]]].
    + apply in_indexed_repeat in Hjf. subst f. repeat split; auto.
    + injection Hjf as <- <-. split; [exact Hf0|]. split; [exact Hcr0|]. right. split; [exact Hx|].
      exists row, (SLeaf inf). split; [exact Hn|]. split; [exact Hr|]. rewrite Sr. constructor; [|constructor].
      cbn [rep_text_ok]. rewrite Hdt. left. split; [exact Hb|].
      apply comps_fix_leaf; auto. repeat split; auto.
  - destruct (Forall2_position (fun p g => fields_of srows sn (fst p) (snd p) g) k x gs) as [g [Hgx Hcat]]; auto.
    { intros j g [[_ ->]|[Hbl _]]; [reflexivity|discriminate]. }
    cbn [fst snd] in Hgx. destruct Hgx as [[-> _]|[_ [row' [fr [fv [Hn' [Hr' HF]]]]]]]; [discriminate|].
    cbn [pred] in Hn'. rewrite Hn in Hn'. injection Hn' as <-. rewrite Hr in Hr'. injection Hr' as <-.
    rewrite Sr in HF.
    destruct g as [|f [|f2 g']]; [inversion HF| |inversion HF as [|? ? ? ? _ HF']; inversion HF'].
    inversion HF as [|? ? ? ? [Hpf [Hnm Hef]] _]. clear HF.
    (* the field object is the explicit one *)
    assert (Hun : upper (name_idx sn (S k)) = name_idx sn (S k)) by now rewrite name_idx_upper, Hup.
    pose proof (field_ctor_ref (name_idx sn (S k)) (SLeaf inf) _ fv Hun (leaf_structure t inf)) as Hct.
    cbn [st_dt st_info] in Hct. rewrite Hdt in Hct.
    rewrite (parse_field_base t e leaf _ _ _ fv _ b _ Hct (sn_is_msh12 sn H3 Hup Hmsh (S k)) Hb (base_not_varies t Hvar b Hb)) in Hpf.
    2:{ apply comps_fix_leaf; auto. repeat split; auto. }
    injection Hpf as <-.
    exists s, (base_field e (name_idx sn (S k)) b (Some (mk_structure (SLeaf inf) None [] [] [] (Some inf))) x),
           (unnamed_comp e b x), (st_sub b x).
    rewrite E. split; [exact Hp|]. split; [now rewrite Hch, Hcat|]. split; [reflexivity|].
    split. { unfold base_field. cbv zeta. now rewrite Sc. }
    split. { unfold unnamed_comp. cbv zeta. now rewrite Ss. }
    split; [reflexivity|exact He].
Qed.

Lemma vcomps_fix_leaf x : delim_free e x -> leaf (Some (unbs "ST")) x = Ok x -> vcomps_fix e leaf x.
Proof. intros Hd Hl. exact (comps_fix_leaf (unbs "ST") x Hd Hl). Qed.

(* the same for a field whose datatype is varies (OBX-5, RDT-1, QPD-3 ...): the value is an ST *)
Theorem field_position_varies sn srows i row inf x :
  length sn = 3 -> upper sn = sn -> streqb sn (unbs "MSH") = false -> valid_z_segment_name sn = false ->
  slookup sn (t_segments t) = Some (SSeqIn false srows None) ->
  rows_contiguous sn FIE 1 srows = true ->
  (forall row, In row srows -> field_row_ok row) ->
  1 <= i -> nth_error srows (pred i) = Some row ->
  row_ref t row = Some (SLeaf inf) -> i_dt inf = Some (unbs "varies") ->
  is_blank x = false -> delim_free e x -> leaf (Some (unbs "ST")) x = Ok x ->
  let text := sn ++ repeat (fsep e) i ++ x in
  exists s f c sb,
    parse_segment t TOLERANT e leaf text None = Ok s /\
    s_children s = [f] /\ f_name f = Some (name_idx sn i) /\ f_dt f = Some (unbs "varies") /\
    f_children f = [c] /\ c_name c = Some (name_idx VARIES 1) /\
    c_children c = [sb] /\ sc_value sb = x /\
    enc_segment t e s false = Ok text.
Proof.
  intros H3 Hup Hmsh Hz Hl Hc Hrows Hi Hn Hr Hdt Hx Hd Hlf text.
  destruct i as [|k]; [lia|]. cbn [pred] in Hn.
  assert (E : text = bjoin (fsep e) (sn :: repeat [] k ++ [x])) by (subst text; now rewrite bjoin_position).
  assert (Hlen : length (repeat (@nil byte) k ++ [x]) <= length srows).
  { rewrite app_length, repeat_length. cbn [length].
    assert (k < length srows) by (apply nth_error_Some; congruence). lia. }
  destruct (leaf_splits e x Hd) as [Sr [Sc Ss]]. pose proof Hd as [Hf0 [Hc0 [Hr0 [Hs0 Hcr0]]]].
  destruct (seg_table_roundtrip sn srows (repeat [] k ++ [x]) H3 Hup Hmsh Hz Hl Hc Hrows)
    as [s [gs [Hp [Hch [Hg He]]]]]; auto.
  - apply no_trail_last, not_blank_ne, Hx.
  - intros j f Hjf. rewrite indexed_repeat_app in Hjf. apply in_app_or in Hjf. destruct Hjf as [Hjf|[Hjf|[]]].
    + apply in_indexed_repeat in Hjf. subst f. repeat split; auto.
    + injection Hjf as <- <-. split; [exact Hf0|]. split; [exact Hcr0|]. right. split; [exact Hx|].
      exists row, (SLeaf inf). split; [exact Hn|]. split; [exact Hr|]. rewrite Sr. constructor; [|constructor].
      cbn [rep_text_ok]. rewrite Hdt. right. split; [reflexivity|]. now apply vcomps_fix_leaf.
  - destruct (Forall2_position (fun p g => fields_of srows sn (fst p) (snd p) g) k x gs) as [g [Hgx Hcat]]; auto.
    { intros j g [[_ ->]|[Hbl _]]; [reflexivity|discriminate]. }
    cbn [fst snd] in Hgx. destruct Hgx as [[-> _]|[_ [row' [fr [fv [Hn' [Hr' HF]]]]]]]; [discriminate|].
    cbn [pred] in Hn'. rewrite Hn in Hn'. injection Hn' as <-. rewrite Hr in Hr'. injection Hr' as <-.
    rewrite Sr in HF.
    destruct g as [|f [|f2 g']]; [inversion HF| |inversion HF as [|? ? ? ? _ HF']; inversion HF'].
    inversion HF as [|? ? ? ? [Hpf [Hnm Hef]] _]. clear HF.
    assert (Hun : upper (name_idx sn (S k)) = name_idx sn (S k)) by now rewrite name_idx_upper, Hup.
    pose proof (field_ctor_ref (name_idx sn (S k)) (SLeaf inf) _ fv Hun (leaf_structure t inf)) as Hct.
    cbn [st_dt st_info] in Hct. rewrite Hdt in Hct.
    rewrite (parse_field_varies t e leaf Hst Hvar _ _ _ fv _ _ Hct (sn_is_msh12 sn H3 Hup Hmsh (S k)) eq_refl) in Hpf.
    2:{ now apply vcomps_fix_leaf. }
    injection Hpf as <-.
    eexists s, _, (varies_comp e 1 x), (st_sub (unbs "ST") x).
    rewrite E. split; [exact Hp|]. split; [now rewrite Hch, Hcat|]. split; [reflexivity|]. split; [reflexivity|].
    split. { unfold var_field. cbn [f_children]. now rewrite Sc. }
    split; [reflexivity|].
    split. { unfold varies_comp. cbn [c_children]. now rewrite Ss. }
    split; [reflexivity|exact He].
Qed.

(* ... and for a field whose table row has no datatype at all (v2.5.1 MSA-5, OBX-20..22) *)
Theorem field_position_untyped sn srows i row inf x :
  length sn = 3 -> upper sn = sn -> streqb sn (unbs "MSH") = false -> valid_z_segment_name sn = false ->
  slookup sn (t_segments t) = Some (SSeqIn false srows None) ->
  rows_contiguous sn FIE 1 srows = true ->
  (forall row, In row srows -> field_row_ok row) ->
  1 <= i -> nth_error srows (pred i) = Some row ->
  row_ref t row = Some (SLeaf inf) -> i_dt inf = None ->
  is_blank x = false -> delim_free e x -> leaf (Some (unbs "ST")) x = Ok x ->
  let text := sn ++ repeat (fsep e) i ++ x in
  exists s f c sb,
    parse_segment t TOLERANT e leaf text None = Ok s /\
    s_children s = [f] /\ f_name f = Some (name_idx sn i) /\ f_dt f = None /\
    f_children f = [c] /\ c_name c = Some (name_idx VARIES 1) /\
    c_children c = [sb] /\ sc_value sb = x /\
    enc_segment t e s false = Ok text.
Proof.
  intros H3 Hup Hmsh Hz Hl Hc Hrows Hi Hn Hr Hdt Hx Hd Hlf text.
  destruct i as [|k]; [lia|]. cbn [pred] in Hn.
  assert (E : text = bjoin (fsep e) (sn :: repeat [] k ++ [x])) by (subst text; now rewrite bjoin_position).
  assert (Hlen : length (repeat (@nil byte) k ++ [x]) <= length srows).
  { rewrite app_length, repeat_length. cbn [length].
    assert (k < length srows) by (apply nth_error_Some; congruence). lia. }
  destruct (leaf_splits e x Hd) as [Sr [Sc Ss]]. pose proof Hd as [Hf0 [Hc0 [Hr0 [Hs0 Hcr0]]]].
  destruct (seg_table_roundtrip sn srows (repeat [] k ++ [x]) H3 Hup Hmsh Hz Hl Hc Hrows)
    as [s [gs [Hp [Hch [Hg He]]]]]; auto.
  - apply no_trail_last, not_blank_ne, Hx.
  - intros j f Hjf. rewrite indexed_repeat_app in Hjf. apply in_app_or in Hjf. destruct Hjf as [Hjf|[Hjf|[]]].
    + apply in_indexed_repeat in Hjf. subst f. repeat split; auto.
    + injection Hjf as <- <-. split; [exact Hf0|]. split; [exact Hcr0|]. right. split; [exact Hx|].
      exists row, (SLeaf inf). split; [exact Hn|]. split; [exact Hr|]. rewrite Sr. constructor; [|constructor].
      cbn [rep_text_ok]. rewrite Hdt. now apply vcomps_fix_leaf.
  - destruct (Forall2_position (fun p g => fields_of srows sn (fst p) (snd p) g) k x gs) as [g [Hgx Hcat]]; auto.
    { intros j g [[_ ->]|[Hbl _]]; [reflexivity|discriminate]. }
    cbn [fst snd] in Hgx. destruct Hgx as [[-> _]|[_ [row' [fr [fv [Hn' [Hr' HF]]]]]]]; [discriminate|].
    cbn [pred] in Hn'. rewrite Hn in Hn'. injection Hn' as <-. rewrite Hr in Hr'. injection Hr' as <-.
    rewrite Sr in HF.
    destruct g as [|f [|f2 g']]; [inversion HF| |inversion HF as [|? ? ? ? _ HF']; inversion HF'].
    inversion HF as [|? ? ? ? [Hpf [Hnm Hef]] _]. clear HF.
    assert (Hun : upper (name_idx sn (S k)) = name_idx sn (S k)) by now rewrite name_idx_upper, Hup.
    pose proof (field_ctor_ref (name_idx sn (S k)) (SLeaf inf) _ fv Hun (leaf_structure t inf)) as Hct.
    cbn [st_dt st_info] in Hct. rewrite Hdt in Hct.
    rewrite (parse_field_untyped t e leaf Hst _ _ _ fv _ _ Hct (sn_is_msh12 sn H3 Hup Hmsh (S k)) eq_refl) in Hpf.
    2:{ now apply vcomps_fix_leaf. }
    injection Hpf as <-.
    eexists s, _, (varies_comp e 1 x), (st_sub (unbs "ST") x).
    rewrite E. split; [exact Hp|]. split; [now rewrite Hch, Hcat|]. split; [reflexivity|]. split; [reflexivity|].
    split. { unfold untyped_field. cbn [f_children]. now rewrite Sc. }
    split; [reflexivity|].
    split. { unfold varies_comp. cbn [c_children]. now rewrite Ss. }
    split; [reflexivity|exact He].
Qed.

(* --- beyond the last defined field of a segment whose last field is varies (any index) --- *)

Lemma not_z_field_name sn i : length sn = 3 -> upper sn = sn -> valid_z_segment_name sn = false ->
  valid_z_field_name (name_idx sn i) = false.
Proof.
  destruct sn as [|a [|b [|c [|]]]]; try discriminate. intros _ Hu Hz.
  unfold valid_z_segment_name in Hz. rewrite Hu in Hz. cbn [length Nat.eqb] in Hz. rewrite andb_true_r in Hz.
  unfold name_idx. cbn [app unbs valid_z_field_name].
  assert (Ha : bupper a = a) by (cbn [upper map] in Hu; congruence).
  assert (beqb a "z" = false) as ->.
  { destruct (beqb_spec a "z") as [->|]; [discriminate|reflexivity]. }
  rewrite Hz. now destruct (nat_to_str i).
Qed.

Lemma field_rt_beyond sn srows sst i r :
  length sn = 3 -> upper sn = sn -> streqb sn (unbs "MSH") = false -> valid_z_segment_name sn = false ->
  rows_structure t sn FIE srows sst ->
  slookup (name_idx sn i) (t_fields t) = None -> length srows < i ->
  vcomps_fix e leaf r ->
  field_rt t e leaf sn sst true i r (var_field e (name_idx sn i) (Some st_var) r).
Proof.
  intros H3 Hup Hmsh Hz Hs Hno Hi Hr. unfold field_rt.
  assert (Hm : has_map (Some sst) = true) by (unfold has_map; now rewrite (rs_ordered _ _ _ _ _ Hs)).
  rewrite Hm. unfold ref_in. rewrite (rs_ordered _ _ _ _ _ Hs), (rs_beyond _ _ _ _ _ Hs i Hi). cbn [option_map].
  assert (Hun : upper (name_idx sn i) = name_idx sn i) by now rewrite name_idx_upper, Hup.
  assert (Hct : field_ctor t (Some (name_idx sn i)) None true =
                Ok (mk_field_rec (Some (name_idx sn i)) (Some (unbs "varies")) (Some st_var) [])).
  { unfold field_ctor. unfold mk_field at 1. cbn [is_strict andb]. rewrite is_varies_none. cbn [andb].
    unfold structure_for at 1, load_reference. cbn [table_of]. rewrite Hun, Hno.
    rewrite (not_z_field_name sn i H3 Hup Hz). cbn [bind].
    unfold mk_field. cbn [is_strict andb]. rewrite is_varies_none. cbn [andb]. rewrite Hun. reflexivity. }
  split; [apply (parse_field_varies t e leaf Hst Hvar _ _ _ true _ _ Hct (sn_is_msh12 sn H3 Hup Hmsh i) eq_refl Hr)|].
  split; [reflexivity|]. apply enc_field_varies. apply (sn_not_msh12 sn H3 Hup Hmsh).
Qed.

Theorem open_ended_position sn srows lrow li i x :
  length sn = 3 -> upper sn = sn -> streqb sn (unbs "MSH") = false -> valid_z_segment_name sn = false ->
  slookup sn (t_segments t) = Some (SSeqIn false srows None) ->
  rows_contiguous sn FIE 1 srows = true ->
  (forall row, In row srows -> field_row_ok row) ->
  (* the last defined field is of type varies *)
  nth_error srows (pred (length srows)) = Some lrow -> row_ref t lrow = Some (SLeaf li) ->
  i_dt li = Some (unbs "varies") ->
  (* an index beyond the defined fields, whose name is not in the fields table *)
  length srows < i -> slookup (name_idx sn i) (t_fields t) = None ->
  is_blank x = false -> delim_free e x -> leaf (Some (unbs "ST")) x = Ok x ->
  let text := sn ++ repeat (fsep e) i ++ x in
  exists s f c sb,
    parse_segment t TOLERANT e leaf text None = Ok s /\
    s_children s = [f] /\ f_name f = Some (name_idx sn i) /\ f_dt f = Some (unbs "varies") /\
    f_children f = [c] /\ c_name c = Some (name_idx VARIES 1) /\
    c_children c = [sb] /\ sc_value sb = x /\
    enc_segment t e s false = Ok text.
Proof.
  intros H3 Hup Hmsh Hz Hl Hc Hrows Hlast Hlr Hld Hi Hno Hx Hd Hlf text.
  destruct i as [|k]; [lia|].
  assert (E : text = bjoin (fsep e) (sn :: repeat [] k ++ [x])) by (subst text; now rewrite bjoin_position).
  destruct (leaf_splits e x Hd) as [Sr [Sc Ss]]. pose proof Hd as [Hf0 [Hc0 [Hr0 [Hs0 Hcr0]]]].
  assert (Hres : rows_resolved t srows).
  { intros y Hy Ey. destruct (Hrows y Hy) as [fr [E' _]]. congruence. }
  assert (Hinfo : forall row, In row srows -> exists r, row_ref t row = Some r /\ ref_info r <> None).
  { intros row Hy. destruct (Hrows row Hy) as [fr [E' K]]. exists fr. split; [exact E'|].
    destruct fr; try contradiction; discriminate. }
  destruct (mk_segment_table sn srows H3 Hup Hz Hl Hc Hres Hinfo) as [st [inf [Hmk [Hs Hinf]]]].
  specialize (Hinf lrow li Hlast Hlr Hld). subst inf.
  destruct (seg_roundtrip t e leaf Hec sn H3 Hup Hmsh st true (length srows) (repeat [] k ++ [x]) Hmk (rs_ordered _ _ _ _ _ Hs))
    as [s [gs [Hp [Hch [Hg He]]]]]; auto.
  - intros j Hj. now apply (rows_structure_known t sn FIE srows st j Hs Hres).
  - apply no_trail_last, not_blank_ne, Hx.
  - intros j f Hjf. rewrite indexed_repeat_app in Hjf. apply in_app_or in Hjf. destruct Hjf as [Hjf|[Hjf|[]]].
    + apply in_indexed_repeat in Hjf. subst f. repeat split; auto.
    + injection Hjf as <- <-. split; [exact Hf0|]. split; [exact Hcr0|]. right. split; [exact Hx|].
      rewrite Sr. constructor; [|constructor]. eexists.
      apply (field_rt_beyond sn srows st (S k) x H3 Hup Hmsh Hz Hs Hno Hi). now apply vcomps_fix_leaf.
  - destruct (Forall2_position (fun p g => groups_rel t e leaf sn st true (fst p) (snd p) g) k x gs) as [g [Hgx Hcat]]; auto.
    { intros j g [[_ ->]|[Hbl _]]; [reflexivity|discriminate]. }
    cbn [fst snd] in Hgx. destruct Hgx as [[-> _]|[_ HF]]; [discriminate|].
    rewrite Sr in HF.
    destruct g as [|f [|f2 g']]; [inversion HF| |inversion HF as [|? ? ? ? _ HF']; inversion HF'].
    inversion HF as [|? ? ? ? [Hpf [Hnm Hef]] _]. clear HF.
    destruct (field_rt_beyond sn srows st (S k) x H3 Hup Hmsh Hz Hs Hno Hi (vcomps_fix_leaf x Hd Hlf)) as [Hpf' _].
    rewrite Hpf in Hpf'. injection Hpf' as ->.
    eexists s, _, (varies_comp e 1 x), (st_sub (unbs "ST") x).
    rewrite E. split; [exact Hp|]. split; [now rewrite Hch, Hcat|]. split; [reflexivity|]. split; [reflexivity|].
    split. { unfold var_field. cbn [f_children]. now rewrite Sc. }
    split; [reflexivity|].
    split. { unfold varies_comp. cbn [c_children]. now rewrite Ss. }
    split; [reflexivity|exact He].
Qed.

(* --- a subcomponent of a component of a struct-typed field --- *)

Lemma repeat_sep_join (c : byte) n z : repeat c n ++ z = bjoin c (repeat [] n ++ [z]).
Proof.
  destruct n as [|k]; [reflexivity|].
  change (repeat [] (S k) ++ [z]) with ([] :: repeat [] k ++ [z]). now rewrite bjoin_position.
Qed.

Lemma bmem_app' c (x y : str) : bmem c (x ++ y) = bmem c x || bmem c y.
Proof. unfold bmem, mem. apply existsb_app. Qed.

Lemma bmem_repeat d c n : d <> c -> bmem d (repeat c n) = false.
Proof.
  intros H. induction n as [|n IH]; [reflexivity|]. cbn [repeat]. unfold bmem, mem in *. cbn [existsb].
  rewrite IH, orb_false_r. destruct (beqb_spec c d); [congruence|reflexivity].
Qed.

Lemma bsplit_position c n z : bmem c z = false -> bsplit c (repeat c n ++ z) = repeat [] n ++ [z].
Proof.
  intros H. rewrite repeat_sep_join. apply bsplit_bjoin.
  - destruct n; discriminate.
  - rewrite forallb_app. cbn [forallb]. rewrite (nosep_of_bmem c z H), andb_true_r.
    rewrite forallb_forall. intros y Hy. apply repeat_spec in Hy. now subst.
Qed.

Lemma not_blank_app_r (a x : str) : is_blank x = false -> is_blank (a ++ x) = false.
Proof. intros H. now rewrite is_blank_app, H, andb_false_r. Qed.

Theorem subcomponent_position sn srows i row inf D rows j crow ci D2 rows2 k x :
  length sn = 3 -> upper sn = sn -> streqb sn (unbs "MSH") = false -> valid_z_segment_name sn = false ->
  slookup sn (t_segments t) = Some (SSeqIn false srows None) ->
  rows_contiguous sn FIE 1 srows = true ->
  (forall row, In row srows -> field_row_ok row) ->
  (* field i has the struct datatype D *)
  1 <= i -> nth_error srows (pred i) = Some row ->
  row_ref t row = Some (SSeqDt inf) -> i_dt inf = Some D -> slookup D (t_structs t) = Some rows ->
  (* component j of D has the flat struct datatype D2 *)
  1 <= j -> nth_error rows (pred j) = Some crow ->
  row_ref t crow = Some (SSeqDt ci) -> i_dt ci = Some D2 -> slookup D2 (t_structs t) = Some rows2 ->
  (* subcomponent k of D2 *)
  1 <= k <= length rows2 ->
  is_blank x = false -> delim_free e x -> leaf (sub_dt t rows2 k) x = Ok x ->
  let text := sn ++ repeat (fsep e) i ++ repeat (csep e) (pred j) ++ repeat (ssep e) (pred k) ++ x in
  exists s f c sb,
    parse_segment t TOLERANT e leaf text None = Ok s /\
    s_children s = [f] /\ f_name f = Some (name_idx sn i) /\ f_children f = [c] /\
    c_name c = Some (name_idx D j) /\ c_children c = [sb] /\
    sc_name sb = Some (name_idx D2 k) /\ sc_value sb = x /\
    enc_segment t e s false = Ok text.
Proof.
  intros H3 Hup Hmsh Hz Hl Hc Hrows Hi Hn Hr Hdt HlD Hj Hnc Hrc Hdc HlD2 Hk Hx Hd Hlf text.
  destruct i as [|i0]; [lia|]. destruct j as [|j0]; [lia|]. destruct k as [|k0]; [lia|]. cbn [pred] in *.
  destruct (seps_distinct e Hec) as [Nfc [Nfr [Nfs [Ncr [Ncs Nrs]]]]].
  pose proof Hd as [Xf [Xc [Xr [Xs Xcr]]]].
  set (z := repeat (ssep e) k0 ++ x). set (y := repeat (csep e) j0 ++ z).
  (* the row facts *)
  destruct (Hrows row (nth_error_In _ _ Hn)) as [fr [Hr' HK]]. rewrite Hr in Hr'. injection Hr' as <-.
  destruct HK as [D' [rows' [Hdt' [HlD' Hg]]]]. rewrite Hdt in Hdt'. injection Hdt' as <-.
  rewrite HlD in HlD'. injection HlD' as <-.
  destruct Hg as [HD [HcD HrowsD]].
  destruct (HrowsD crow (nth_error_In _ _ Hnc)) as [[ci' [b' [E' _]]]|[ci' [D2' [rows2' [E' [Ed' [El' [HD2 Hflat]]]]]]]];
    rewrite Hrc in E'; [discriminate|]. injection E' as <-. rewrite Hdc in Ed'. injection Ed' as <-.
  rewrite HlD2 in El'. injection El' as <-.
  (* characters of z and y *)
  assert (Zb : is_blank z = false) by (apply not_blank_app_r, Hx).
  assert (Yb : is_blank y = false) by (apply not_blank_app_r, Zb).
  assert (Zfree : forall d, d <> ssep e -> bmem d x = false -> bmem d z = false).
  { intros d Hd1 Hd2. unfold z. now rewrite bmem_app', (bmem_repeat d (ssep e) k0 Hd1), Hd2. }
  assert (Yfree : forall d, d <> ssep e -> d <> csep e -> bmem d x = false -> bmem d y = false).
  { intros d Hd1 Hd2 Hd3. unfold y. now rewrite bmem_app', (bmem_repeat d (csep e) j0 Hd2), (Zfree d Hd1 Hd3). }
  assert (Ycr : bmem CR y = false).
  { apply Yfree; auto; apply (sep_not_cr e Hec); cbn; tauto. }
  assert (Sy : bsplit (rsep e) y = [y]) by (apply bsplit_nosep, nosep_of_bmem, Yfree; auto).
  assert (Cy : bsplit (csep e) y = repeat [] j0 ++ [z]) by (apply bsplit_position, Zfree; auto).
  assert (Sz : bsplit (ssep e) z = repeat [] k0 ++ [x]) by (apply bsplit_position; auto).
  (* typed conditions *)
  assert (Hsub : subs_ok t e leaf rows2 z).
  { unfold subs_ok. cbv zeta. rewrite Sz. split; [apply no_trail_last, not_blank_ne, Hx|].
    split; [rewrite app_length, repeat_length; cbn [length]; lia|].
    intros k p Hkp. rewrite indexed_repeat_app in Hkp. apply in_app_or in Hkp. destruct Hkp as [Hkp|[Hkp|[]]].
    - apply in_indexed_repeat in Hkp. now left.
    - injection Hkp as <- <-. right. split; assumption. }
  assert (Hcomps : tcomps_ok rows y).
  { right. cbv zeta. rewrite Cy. split; [apply no_trail_last, not_blank_ne, Zb|].
    split. { rewrite app_length, repeat_length. cbn [length].
             assert (j0 < length rows) by (apply nth_error_Some; congruence). lia. }
    intros j' s' Hjs. rewrite indexed_repeat_app in Hjs. apply in_app_or in Hjs. destruct Hjs as [Hjs|[Hjs|[]]].
    - apply in_indexed_repeat in Hjs. now left.
    - injection Hjs as <- <-. right. split; [exact Zb|]. exists crow. split; [exact Hnc|].
      unfold comp_text_ok. now rewrite Hrc, Hdc, HlD2. }
  assert (E : text = bjoin (fsep e) (sn :: repeat [] i0 ++ [y])).
  { subst text. rewrite bjoin_position. unfold y, z. reflexivity. }
  assert (Hlen : length (repeat (@nil byte) i0 ++ [y]) <= length srows).
  { rewrite app_length, repeat_length. cbn [length].
    assert (i0 < length srows) by (apply nth_error_Some; congruence). lia. }
  destruct (seg_table_roundtrip sn srows (repeat [] i0 ++ [y]) H3 Hup Hmsh Hz Hl Hc Hrows)
    as [s [gs [Hp [Hch [Hgs He]]]]]; auto.
  - apply no_trail_last, not_blank_ne, Yb.
  - intros j' f' Hjf. rewrite indexed_repeat_app in Hjf. apply in_app_or in Hjf. destruct Hjf as [Hjf|[Hjf|[]]].
    + apply in_indexed_repeat in Hjf. subst f'. repeat split; auto.
    + injection Hjf as <- <-. split; [apply Yfree; auto|]. split; [exact Ycr|]. right. split; [exact Yb|].
      exists row, (SSeqDt inf). split; [exact Hn|]. split; [exact Hr|]. rewrite Sy. constructor; [|constructor].
      cbn [rep_text_ok]. now rewrite Hdt, HlD.
  - destruct (Forall2_position (fun p g => fields_of srows sn (fst p) (snd p) g) i0 y gs) as [g [Hgx Hcat]]; auto.
    { intros j' g' [[_ ->]|[Hbl _]]; [reflexivity|discriminate]. }
    cbn [fst snd] in Hgx. destruct Hgx as [[Ey _]|[_ [row' [fr [fv [Hn' [Hr' HF]]]]]]].
    { rewrite Ey in Yb. discriminate. }
    cbn [pred] in Hn'. rewrite Hn in Hn'. injection Hn' as <-. rewrite Hr in Hr'. injection Hr' as <-.
    rewrite Sy in HF.
    destruct g as [|f [|f2 g']]; [inversion HF| |inversion HF as [|? ? ? ? _ HF']; inversion HF'].
    inversion HF as [|? ? ? ? [Hpf [Hnm Hef]] _]. clear HF.
    (* the field object, explicitly *)
    assert (Hun : upper (name_idx sn (S i0)) = name_idx sn (S i0)) by now rewrite name_idx_upper, Hup.
    destruct (parse_structure_dt t inf D rows Hdt HlD HcD (good_struct_resolved D rows (conj HD (conj HcD HrowsD))))
      as [st [Hps [Hinfo Hs]]].
    pose proof (field_ctor_ref (name_idx sn (S i0)) (SSeqDt inf) st fv Hun Hps) as Hct.
    cbn [st_dt] in Hct. rewrite Hinfo, Hdt in Hct.
    destruct (parse_field_complex t e leaf y _ _ fv _ D rows st Hct (sn_is_msh12 sn H3 Hup Hmsh (S i0))
                (sn_not_msh12 sn H3 Hup Hmsh (S i0)) HD Hs (good_struct_resolved D rows (conj HD (conj HcD HrowsD))))
      as [f' [Hpf' [_ [_ Hkids]]]].
    { exact (comps_ok_of_text D rows st y (conj HD (conj HcD HrowsD)) Hs Hcomps). }
    rewrite Hpf in Hpf'. injection Hpf' as <-.
    destruct Hkids as [cgs [Hfc HR]]. { apply not_blank_ne, Yb. }
    rewrite Cy in HR.
    destruct (Forall2_position (comp_group_rel t e leaf D st) j0 z cgs) as [cg [Hcg Hccat]]; auto.
    { intros j' g' [[_ ->]|[Hbl _]]; [reflexivity|discriminate]. }
    unfold comp_group_rel in Hcg. cbn [fst snd] in Hcg. destruct Hcg as [[Ez _]|[_ [c [-> [Hpc [Hcn _]]]]]].
    { rewrite Ez in Zb. discriminate. }
    (* the component object, explicitly *)
    destruct (rows_structure_ref_in t D CMP rows st j0 crow _ Hs Hnc Hrc) as [_ Href]. rewrite Href in Hpc.
    destruct (parse_structure_dt t ci D2 rows2 Hdc HlD2 (proj1 Hflat) (flat_rows_resolved t D2 rows2 Hflat))
      as [st2 [Hps2 [Hinfo2 Hs2]]].
    rewrite (parse_component_complex t e leaf D (S j0) ci D2 rows2 st2 z HD HD2 Hdc Hps2 Hinfo2 Hs2 Hflat Hsub) in Hpc.
    injection Hpc as <-.
    exists s, f, (complex_comp t e (name_idx D (S j0)) D2 rows2 st2 z), (named_sub t D2 rows2 (S k0) x).
    rewrite E. split; [exact Hp|]. split; [now rewrite Hch, Hcat|]. split; [exact Hnm|].
    split; [now rewrite Hfc, Hccat|]. split; [reflexivity|].
    split.
    { unfold complex_comp, sub_groups. cbn [c_children]. rewrite Sz, indexed_repeat_app, map_app, concat_app.
      cbn [map concat fst snd]. unfold sub_group at 2. rewrite Hx. rewrite app_nil_r.
      assert (Z0 : concat (map (fun kp : nat * str => sub_group t D2 rows2 (fst kp) (snd kp)) (indexed (repeat [] k0))) = []).
      { apply concat_nil_Forall. rewrite Forall_map, Forall_forall. intros [k' p'] Hkp.
        apply in_indexed_repeat in Hkp. subst p'. reflexivity. }
      exact (f_equal (fun l => l ++ [named_sub t D2 rows2 (S k0) x]) Z0). }
    split; [reflexivity|]. split; [reflexivity|exact He].
Qed.


(* --- a base-typed component of a struct-typed field --- *)
Theorem component_position sn srows i row inf D rows j crow ci b x :
  length sn = 3 -> upper sn = sn -> streqb sn (unbs "MSH") = false -> valid_z_segment_name sn = false ->
  slookup sn (t_segments t) = Some (SSeqIn false srows None) ->
  rows_contiguous sn FIE 1 srows = true ->
  (forall row, In row srows -> field_row_ok row) ->
  1 <= i -> nth_error srows (pred i) = Some row ->
  row_ref t row = Some (SSeqDt inf) -> i_dt inf = Some D -> slookup D (t_structs t) = Some rows ->
  1 <= j -> nth_error rows (pred j) = Some crow ->
  row_ref t crow = Some (SLeaf ci) -> i_dt ci = Some b ->
  is_blank x = false -> delim_free e x -> leaf (Some b) x = Ok x ->
  let text := sn ++ repeat (fsep e) i ++ repeat (csep e) (pred j) ++ x in
  exists s f c sb,
    parse_segment t TOLERANT e leaf text None = Ok s /\
    s_children s = [f] /\ f_name f = Some (name_idx sn i) /\ f_children f = [c] /\
    c_name c = Some (name_idx D j) /\ c_children c = [sb] /\ sc_value sb = x /\
    enc_segment t e s false = Ok text.
Proof.
  intros H3 Hup Hmsh Hz Hl Hc Hrows Hi Hn Hr Hdt HlD Hj Hnc Hrc Hdc Hx Hd Hlf text.
  destruct i as [|i0]; [lia|]. destruct j as [|j0]; [lia|]. cbn [pred] in *.
  destruct (seps_distinct e Hec) as [Nfc [Nfr [Nfs [Ncr [Ncs Nrs]]]]].
  pose proof Hd as [Xf [Xc [Xr [Xs Xcr]]]].
  set (y := repeat (csep e) j0 ++ x).
  destruct (Hrows row (nth_error_In _ _ Hn)) as [fr [Hr' HK]]. rewrite Hr in Hr'. injection Hr' as <-.
  destruct HK as [D' [rows' [Hdt' [HlD' Hg]]]]. rewrite Hdt in Hdt'. injection Hdt' as <-.
  rewrite HlD in HlD'. injection HlD' as <-.
  destruct Hg as [HD [HcD HrowsD]].
  destruct (HrowsD crow (nth_error_In _ _ Hnc)) as [[ci' [b' [E' [Eb' Hb]]]]|[ci' [D2' [rows2' [E' _]]]]];
    rewrite Hrc in E'; [|discriminate]. injection E' as <-. rewrite Hdc in Eb'. injection Eb' as <-.
  assert (Yb : is_blank y = false) by (apply not_blank_app_r, Hx).
  assert (Yfree : forall d, d <> csep e -> bmem d x = false -> bmem d y = false).
  { intros d Hd2 Hd3. unfold y. now rewrite bmem_app', (bmem_repeat d (csep e) j0 Hd2), Hd3. }
  assert (Ycr : bmem CR y = false) by (apply Yfree; auto; apply (sep_not_cr e Hec); cbn; tauto).
  assert (Sy : bsplit (rsep e) y = [y]) by (apply bsplit_nosep, nosep_of_bmem, Yfree; auto).
  assert (Cy : bsplit (csep e) y = repeat [] j0 ++ [x]) by (apply bsplit_position; auto).
  assert (Sx : bsplit (ssep e) x = [x]) by (apply bsplit_nosep, nosep_of_bmem, Xs).
  assert (Hsub : subs_fix e leaf b x).
  { unfold subs_fix. rewrite Sx. constructor; [now right|constructor]. }
  assert (Hcomps : tcomps_ok rows y).
  { right. cbv zeta. rewrite Cy. split; [apply no_trail_last, not_blank_ne, Hx|].
    split. { rewrite app_length, repeat_length. cbn [length].
             assert (j0 < length rows) by (apply nth_error_Some; congruence). lia. }
    intros j' s' Hjs. rewrite indexed_repeat_app in Hjs. apply in_app_or in Hjs. destruct Hjs as [Hjs|[Hjs|[]]].
    - apply in_indexed_repeat in Hjs. now left.
    - injection Hjs as <- <-. right. split; [exact Hx|]. exists crow. split; [exact Hnc|].
      unfold comp_text_ok. now rewrite Hrc, Hdc. }
  assert (E : text = bjoin (fsep e) (sn :: repeat [] i0 ++ [y])).
  { subst text. rewrite bjoin_position. unfold y. reflexivity. }
  assert (Hlen : length (repeat (@nil byte) i0 ++ [y]) <= length srows).
  { rewrite app_length, repeat_length. cbn [length].
    assert (i0 < length srows) by (apply nth_error_Some; congruence). lia. }
  destruct (seg_table_roundtrip sn srows (repeat [] i0 ++ [y]) H3 Hup Hmsh Hz Hl Hc Hrows)
    as [s [gs [Hp [Hch [Hgs He]]]]]; auto.
  - apply no_trail_last, not_blank_ne, Yb.
  - intros j' f' Hjf. rewrite indexed_repeat_app in Hjf. apply in_app_or in Hjf. destruct Hjf as [Hjf|[Hjf|[]]].
    + apply in_indexed_repeat in Hjf. subst f'. repeat split; auto.
    + injection Hjf as <- <-. split; [apply Yfree; auto|]. split; [exact Ycr|]. right. split; [exact Yb|].
      exists row, (SSeqDt inf). split; [exact Hn|]. split; [exact Hr|]. rewrite Sy. constructor; [|constructor].
      cbn [rep_text_ok]. now rewrite Hdt, HlD.
  - destruct (Forall2_position (fun p g => fields_of srows sn (fst p) (snd p) g) i0 y gs) as [g [Hgx Hcat]]; auto.
    { intros j' g' [[_ ->]|[Hbl _]]; [reflexivity|discriminate]. }
    cbn [fst snd] in Hgx. destruct Hgx as [[Ey _]|[_ [row' [fr [fv [Hn' [Hr' HF]]]]]]].
    { rewrite Ey in Yb. discriminate. }
    cbn [pred] in Hn'. rewrite Hn in Hn'. injection Hn' as <-. rewrite Hr in Hr'. injection Hr' as <-.
    rewrite Sy in HF.
    destruct g as [|f [|f2 g']]; [inversion HF| |inversion HF as [|? ? ? ? _ HF']; inversion HF'].
    inversion HF as [|? ? ? ? [Hpf [Hnm Hef]] _]. clear HF.
    assert (Hun : upper (name_idx sn (S i0)) = name_idx sn (S i0)) by now rewrite name_idx_upper, Hup.
    destruct (parse_structure_dt t inf D rows Hdt HlD HcD (good_struct_resolved D rows (conj HD (conj HcD HrowsD))))
      as [st [Hps [Hinfo Hs]]].
    pose proof (field_ctor_ref (name_idx sn (S i0)) (SSeqDt inf) st fv Hun Hps) as Hct.
    cbn [st_dt] in Hct. rewrite Hinfo, Hdt in Hct.
    destruct (parse_field_complex t e leaf y _ _ fv _ D rows st Hct (sn_is_msh12 sn H3 Hup Hmsh (S i0))
                (sn_not_msh12 sn H3 Hup Hmsh (S i0)) HD Hs (good_struct_resolved D rows (conj HD (conj HcD HrowsD))))
      as [f' [Hpf' [_ [_ Hkids]]]].
    { exact (comps_ok_of_text D rows st y (conj HD (conj HcD HrowsD)) Hs Hcomps). }
    rewrite Hpf in Hpf'. injection Hpf' as <-.
    destruct Hkids as [cgs [Hfc HR]]. { apply not_blank_ne, Yb. }
    rewrite Cy in HR.
    destruct (Forall2_position (comp_group_rel t e leaf D st) j0 x cgs) as [cg [Hcg Hccat]]; auto.
    { intros j' g' [[_ ->]|[Hbl _]]; [reflexivity|discriminate]. }
    unfold comp_group_rel in Hcg. cbn [fst snd] in Hcg. destruct Hcg as [[Ez _]|[_ [c [-> [Hpc [Hcn _]]]]]].
    { rewrite Ez in Hx. discriminate. }
    destruct (rows_structure_ref_in t D CMP rows st j0 crow _ Hs Hnc Hrc) as [_ Href]. rewrite Href in Hpc.
    rewrite (parse_component_leaf t e leaf Hvar D (S j0) ci b x HD Hdc Hb Hsub) in Hpc.
    injection Hpc as <-.
    eexists s, f, _, (st_sub b x).
    rewrite E. split; [exact Hp|]. split; [now rewrite Hch, Hcat|]. split; [exact Hnm|].
    split; [now rewrite Hfc, Hccat|]. split; [reflexivity|].
    split. { unfold leaf_comp. cbv zeta. cbn [c_children]. now rewrite Sx. }
    split; [reflexivity|exact He].
Qed.

(* ------------------------------------------------------------------ *)
(* parse_field / parse_component on their own                           *)

(* giving the table's reference explicitly or letting Field('<SEG>_i') look it up is the same *)
Lemma parse_field_by_name text n fr fv : slookup (upper n) (t_fields t) = Some fr ->
  parse_field t TOLERANT e leaf text (Some n) None fv = parse_field t TOLERANT e leaf text (Some n) (Some fr) fv.
Proof.
  intros H. rewrite !parse_field_unfold.
  assert (E : field_ctor t (Some n) None fv = field_ctor t (Some n) (Some fr) fv).
  { unfold field_ctor, mk_field. cbn [is_strict andb]. rewrite is_varies_none. cbn [andb].
    unfold structure_for, load_reference. cbn [table_of]. rewrite H. reflexivity. }
  now rewrite E.
Qed.

Theorem field_roundtrip sn srows i row fr fv r :
  length sn = 3 -> upper sn = sn -> streqb sn (unbs "MSH") = false ->
  rows_contiguous sn FIE 1 srows = true ->
  (forall row, In row srows -> field_row_ok row) ->
  1 <= i -> nth_error srows (pred i) = Some row -> row_ref t row = Some fr ->
  rep_text_ok fr r ->
  exists x, parse_field t TOLERANT e leaf r (Some (name_idx sn i)) (Some fr) fv = Ok x /\
            f_name x = Some (name_idx sn i) /\ enc_field t e x = Ok r.
Proof.
  intros H3 Hup Hmsh Hc Hrows Hi Hn Hr Hok.
  assert (Hres : rows_resolved t srows).
  { intros x Hx E. destruct (Hrows x Hx) as [fr' [E' _]]. congruence. }
  destruct (parse_children_structure t sn FIE srows (SSeqIn false srows None) None Hc Hres) as [st [_ [_ [_ Hs]]]].
  destruct (field_rt_of_text sn H3 Hup Hmsh srows st Hs fv i row fr r Hn Hi Hr (Hrows row (nth_error_In _ _ Hn)) Hok)
    as [x [Hp [Hnm He]]].
  destruct i as [|i0]; [lia|]. cbn [pred] in Hn.
  destruct (rows_structure_ref_in t sn FIE srows st i0 row fr Hs Hn Hr) as [Hm Href].
  rewrite Hm, Href in Hp. exists x. auto.
Qed.

Theorem component_roundtrip D rows j crow s :
  good_struct D rows -> 1 <= j -> nth_error rows (pred j) = Some crow -> comp_text_ok crow s ->
  exists cref c, row_ref t crow = Some cref /\
    parse_component t TOLERANT e leaf s (Some (name_idx D j)) None (Some cref) = Ok c /\
    c_name c = Some (name_idx D j) /\ enc_comp t e c = s.
Proof.
  intros Hg Hj Hn Hok.
  destruct (parse_children_structure t D CMP rows (SSeqIn false rows None) None (proj1 (proj2 Hg))
              (good_struct_resolved D rows Hg)) as [st [_ [_ [_ Hs]]]].
  destruct (comp_rt_of_row D rows st j crow s Hg Hs Hn Hj Hok) as [c [Hp [Hnm He]]].
  destruct j as [|j0]; [lia|]. cbn [pred] in Hn.
  destruct (row_ref t crow) as [cref|] eqn:Er; [|exfalso; exact (good_struct_resolved D rows Hg crow (nth_error_In _ _ Hn) Er)].
  destruct (rows_structure_ref_in t D CMP rows st j0 crow cref Hs Hn Er) as [_ Href].
  rewrite Href in Hp. exists cref, c. auto.
Qed.

(* ------------------------------------------------------------------ *)
(* canonical VALUE TREES within the table's counts                      *)

Definition leaf_at (dt : option str) (s : str) : Prop := s = [] \/ leaf dt s = Ok s.

(* a component value (its subcomponent texts) against the struct row describing it *)
Definition wt_comp (crow : srow) (c : vcomp) : Prop :=
  match row_ref t crow with
  | Some (SLeaf i) => match i_dt i with Some b => Forall (leaf_at (Some b)) c | None => False end
  | Some (SSeqDt i) =>
      match i_dt i with
      | Some D2 => match slookup D2 (t_structs t) with
                   | Some rows2 => length c <= length rows2 /\
                                   forall k p, In (k, p) (indexed c) -> leaf_at (sub_dt t rows2 k) p
                   | None => False
                   end
      | None => False
      end
  | _ => False
  end.

(* one repetition (its components) against the field's table reference *)
Definition wt_rep (fr : sref) (vr : vrep) : Prop :=
  match fr with
  | SLeaf i =>
      match i_dt i with
      | Some b => (base (Some b) = true /\ Forall (Forall (leaf_at (Some b))) vr) \/
                  (b = unbs "varies" /\ Forall (Forall (leaf_at (Some (unbs "ST")))) vr)
      | None => Forall (Forall (leaf_at (Some (unbs "ST")))) vr
      end
  | SSeqDt i =>
      match i_dt i with
      | Some D => match slookup D (t_structs t) with
                  | Some rows => length vr <= length rows /\
                                 forall j c, In (j, c) (indexed vr) ->
                                   c = [] \/ exists crow, nth_error rows (pred j) = Some crow /\ wt_comp crow c
                  | None => False
                  end
      | None => False
      end
  | _ => False
  end.

Definition wt_field (srows : list srow) (i : nat) (vf : vfield) : Prop :=
  vf = [] \/ exists row fr, nth_error srows (pred i) = Some row /\ row_ref t row = Some fr /\ Forall (wt_rep fr) vf.

Notation PT := (fun _ : str => True).

Lemma indexed_map {A B} (g : A -> B) (l : list A) :
  indexed (map g l) = map (fun p => (fst p, g (snd p))) (indexed l).
Proof.
  unfold indexed. rewrite map_length. generalize 1. induction l as [|x l IH]; intros n; [reflexivity|].
  cbn [length seq combine map fst snd]. now rewrite IH.
Qed.

Lemma in_indexed_map {A B} (g : A -> B) (l : list A) i y :
  In (i, y) (indexed (map g l)) -> exists x, y = g x /\ In (i, x) (indexed l).
Proof.
  rewrite indexed_map. intros H. apply in_map_iff in H. destruct H as [[i' x] [E H]].
  cbn [fst snd] in E. injection E as -> <-. eauto.
Qed.

Lemma subs_fix_of_leaves b c : canon_comp e PT c -> Forall (leaf_at (Some b)) c -> subs_fix e leaf b (render_comp e c).
Proof.
  intros Hc Hl. unfold subs_fix. rewrite (split_comp e PT c Hc). apply Forall_or_one; [now left|exact Hl].
Qed.

Lemma comps_fix_of_leaves b vr : canon_rep e PT vr -> Forall (Forall (leaf_at (Some b))) vr ->
  comps_fix e leaf b (render_rep e vr).
Proof.
  intros Hr Hl. unfold comps_fix. rewrite (split_rep e Hec PT vr Hr).
  apply Forall_or_one.
  - unfold subs_fix. cbn. constructor; [now left|constructor].
  - rewrite Forall_map. destruct Hr as [_ Hcs]. rewrite Forall_forall in *. intros c Hc.
    apply subs_fix_of_leaves; auto.
Qed.

Lemma in_indexed_in {A} (l : list A) i x : In (i, x) (indexed l) -> In x l.
Proof. intros H. apply (in_map snd) in H. now rewrite indexed_snd in H. Qed.

Lemma comp_text_of_value crow c : canon_comp e PT c -> c <> [] -> wt_comp crow c ->
  comp_text_ok crow (render_comp e c).
Proof.
  intros Hc Hne Hw. unfold wt_comp in Hw. unfold comp_text_ok.
  destruct (row_ref t crow) as [[i|i|? ? ?|]|]; try contradiction.
  - destruct (i_dt i) as [b|]; [|contradiction]. now apply subs_fix_of_leaves.
  - destruct (i_dt i) as [D2|]; [|contradiction]. destruct (slookup D2 (t_structs t)) as [rows2|]; [|contradiction].
    destruct Hw as [Hlen Hl]. unfold subs_ok. cbv zeta. rewrite (split_comp e PT c Hc).
    destruct c as [|p0 c0]; [congruence|]. cbn [or_one].
    split; [exact (proj1 Hc)|]. split; [exact Hlen|].
    intros k p Hkp. destruct (Hl k p Hkp) as [->|Hlf]; [now left|].
    destruct Hc as [_ Hv]. rewrite Forall_forall in Hv. destruct (Hv p (in_indexed_in _ _ _ Hkp)) as [_ [->|[Hb _]]]; [now left|].
    right. split; assumption.
Qed.

Lemma rep_text_of_value fr vr : canon_rep e PT vr -> wt_rep fr vr -> rep_text_ok fr (render_rep e vr).
Proof.
  intros Hr Hw. unfold wt_rep in Hw. unfold rep_text_ok.
  destruct fr as [i|i|? ? ?|]; try contradiction.
  - destruct (i_dt i) as [b|]; [|exact (comps_fix_of_leaves (unbs "ST") vr Hr Hw)]. destruct Hw as [[Hb Hl]|[-> Hl]].
    + left. split; [exact Hb|now apply comps_fix_of_leaves].
    + right. split; [reflexivity|]. now apply comps_fix_of_leaves.
  - destruct (i_dt i) as [D|]; [|contradiction]. destruct (slookup D (t_structs t)) as [rows|]; [|contradiction].
    destruct Hw as [Hlen Hl]. unfold tcomps_ok. destruct vr as [|c0 vr0]; [now left|right]. cbv zeta.
    rewrite (split_rep e Hec PT _ Hr). cbn [map or_one].
    split; [exact (comps_no_trail e PT _ Hr)|]. split; [cbn [length] in *; now rewrite map_length|].
    intros j s0 Hjs. change (render_comp e c0 :: map (render_comp e) vr0) with (map (render_comp e) (c0 :: vr0)) in Hjs.
    apply in_indexed_map in Hjs. destruct Hjs as [c [-> Hjc]].
    assert (Hcc : canon_comp e PT c).
    { destruct Hr as [_ Hcs]. rewrite Forall_forall in Hcs. apply Hcs. exact (in_indexed_in _ _ _ Hjc). }
    destruct (Hl j c Hjc) as [->|[crow [Hn Hwc]]]; [now left|].
    destruct c as [|p0 c1]; [now left|right].
    split; [apply (comp_nonblank e PT); [exact Hcc|discriminate]|].
    exists crow. split; [exact Hn|]. apply comp_text_of_value; auto. discriminate.
Qed.

Lemma tfield_of_value srows i vf : canon_field e PT vf -> wt_field srows i vf ->
  tfield_text srows i (render_field e vf).
Proof.
  intros Hf Hw. split; [exact (field_no_fsep e Hec PT vf Hf)|]. split; [exact (field_no_cr e Hec PT vf Hf)|].
  destruct vf as [|r0 vf0]; [now left|right].
  split; [apply (field_nonblank e PT); [exact Hf|discriminate]|].
  destruct Hw as [E|[row [fr [Hn [Hr Hall]]]]]; [discriminate|].
  exists row, fr. split; [exact Hn|]. split; [exact Hr|].
  rewrite (split_field e Hec PT _ Hf). cbn [map or_one].
  change (render_rep e r0 :: map (render_rep e) vf0) with (map (render_rep e) (r0 :: vf0)).
  rewrite Forall_map. destruct Hf as [_ Hrs]. rewrite Forall_forall in *. intros vr Hvr.
  apply rep_text_of_value; auto.
Qed.

Theorem seg_table_roundtrip_vt sn srows (vt : list vfield) :
  length sn = 3 -> upper sn = sn -> streqb sn (unbs "MSH") = false -> valid_z_segment_name sn = false ->
  slookup sn (t_segments t) = Some (SSeqIn false srows None) ->
  rows_contiguous sn FIE 1 srows = true ->
  (forall row, In row srows -> field_row_ok row) ->
  canon_fields e PT vt -> length vt <= length srows ->
  (forall i vf, In (i, vf) (indexed vt) -> wt_field srows i vf) ->
  exists s,
    parse_segment t TOLERANT e leaf (render_seg e sn vt) None = Ok s /\
    enc_segment t e s false = Ok (render_seg e sn vt).
Proof.
  intros H3 Hup Hmsh Hz Hl Hc Hrows Hcan Hlen Hw.
  destruct (seg_table_roundtrip sn srows (map (render_field e) vt) H3 Hup Hmsh Hz Hl Hc Hrows)
    as [s [gs [Hp [_ [_ He]]]]].
  - exact (fields_no_trail e PT vt Hcan).
  - now rewrite map_length.
  - intros i f Hif. apply in_indexed_map in Hif. destruct Hif as [vf [-> Hi]].
    apply tfield_of_value; [|now apply Hw].
    destruct Hcan as [_ Hfs]. rewrite Forall_forall in Hfs. apply Hfs. exact (in_indexed_in _ _ _ Hi).
  - exists s. split; assumption.
Qed.

(* ------------------------------------------------------------------ *)
(* boolean versions of the typed text conditions (to exhibit canonical lines by computation) *)

Definition leaf_okb (dt : option str) (s : str) : bool :=
  match leaf dt s with Ok r => streqb r s | Err _ => false end.
Lemma leaf_okb_sound dt s : leaf_okb dt s = true -> leaf dt s = Ok s.
Proof. unfold leaf_okb. destruct (leaf dt s) as [r|]; [|discriminate]. intros H. now rewrite (streqb_eq _ _ H). Qed.

Definition subs_fixb (b : str) (text : str) : bool :=
  forallb (fun s => nilb s || leaf_okb (Some b) s) (bsplit (ssep e) text).
Lemma subs_fixb_sound b text : subs_fixb b text = true -> subs_fix e leaf b text.
Proof.
  unfold subs_fixb, subs_fix. apply forallb_Forall. intros s H. apply orb_prop in H.
  destruct H as [H|H]; [left; now destruct s|right; now apply leaf_okb_sound].
Qed.

Definition comps_fixb (b : str) (r : str) : bool := forallb (subs_fixb b) (bsplit (csep e) r).
Lemma comps_fixb_sound b r : comps_fixb b r = true -> comps_fix e leaf b r.
Proof. unfold comps_fixb, comps_fix. apply forallb_Forall, subs_fixb_sound. Qed.

Definition subs_okb (rows : list srow) (text : str) : bool :=
  let ps := bsplit (ssep e) text in
  no_trailb ps && Nat.leb (length ps) (length rows) &&
  forallb (fun kp => nilb (snd kp) || (negb (is_blank (snd kp)) && leaf_okb (sub_dt t rows (fst kp)) (snd kp))) (indexed ps).
Lemma subs_okb_sound rows text : subs_okb rows text = true -> subs_ok t e leaf rows text.
Proof.
  unfold subs_okb, subs_ok. cbv zeta. intros H.
  apply andb_prop in H. destruct H as [H H2]. apply andb_prop in H. destruct H as [H0 H1].
  split; [now apply no_trailb_sound|]. split; [now apply Nat.leb_le|].
  intros k p Hkp. rewrite forallb_forall in H2. specialize (H2 _ Hkp). cbn [fst snd] in H2.
  apply orb_prop in H2. destruct H2 as [H2|H2]; [left; now destruct p|right].
  apply andb_prop in H2. destruct H2 as [Hb Hl]. split; [now apply negb_true_iff|now apply leaf_okb_sound].
Qed.

Definition comp_text_okb (row : srow) (s : str) : bool :=
  match row_ref t row with
  | Some (SLeaf i) => match i_dt i with Some b => subs_fixb b s | None => false end
  | Some (SSeqDt i) =>
      match i_dt i with
      | Some D2 => match slookup D2 (t_structs t) with Some rows2 => subs_okb rows2 s | None => false end
      | None => false
      end
  | _ => false
  end.
Lemma comp_text_okb_sound row s : comp_text_okb row s = true -> comp_text_ok row s.
Proof.
  unfold comp_text_okb, comp_text_ok. destruct (row_ref t row) as [[i|i|c cs oi|]|]; try discriminate.
  - destruct (i_dt i); [apply subs_fixb_sound|discriminate].
  - destruct (i_dt i) as [D2|]; [|discriminate]. destruct (slookup D2 (t_structs t)); [apply subs_okb_sound|discriminate].
Qed.

Definition tcomps_okb (rows : list srow) (r : str) : bool :=
  nilb r ||
  (let cs := bsplit (csep e) r in
   no_trailb cs && Nat.leb (length cs) (length rows) &&
   forallb (fun js => nilb (snd js) ||
                      (negb (is_blank (snd js)) &&
                       match nth_error rows (pred (fst js)) with Some row => comp_text_okb row (snd js) | None => false end))
           (indexed cs)).
Lemma tcomps_okb_sound rows r : tcomps_okb rows r = true -> tcomps_ok rows r.
Proof.
  unfold tcomps_okb, tcomps_ok. cbv zeta. intros H. apply orb_prop in H.
  destruct H as [H|H]; [left; now destruct r|right].
  apply andb_prop in H. destruct H as [H H2]. apply andb_prop in H. destruct H as [H0 H1].
  split; [now apply no_trailb_sound|]. split; [now apply Nat.leb_le|].
  intros j s0 Hjs. rewrite forallb_forall in H2. specialize (H2 _ Hjs). cbn [fst snd] in H2.
  apply orb_prop in H2. destruct H2 as [H2|H2]; [left; now destruct s0|right].
  apply andb_prop in H2. destruct H2 as [Hb Hl]. split; [now apply negb_true_iff|].
  destruct (nth_error rows (pred j)) as [row|]; [|discriminate]. exists row. split; [reflexivity|].
  now apply comp_text_okb_sound.
Qed.

Definition rep_text_okb (fr : sref) (r : str) : bool :=
  match fr with
  | SLeaf i =>
      match i_dt i with
      | Some b => (base (Some b) && comps_fixb b r) || (streqb b (unbs "varies") && comps_fixb (unbs "ST") r)
      | None => comps_fixb (unbs "ST") r
      end
  | SSeqDt i =>
      match i_dt i with
      | Some D => match slookup D (t_structs t) with Some rows => tcomps_okb rows r | None => false end
      | None => false
      end
  | _ => false
  end.
Lemma rep_text_okb_sound fr r : rep_text_okb fr r = true -> rep_text_ok fr r.
Proof.
  unfold rep_text_okb, rep_text_ok. destruct fr as [i|i|c cs oi|]; try discriminate.
  - destruct (i_dt i) as [b|]; [|intros H; apply comps_fixb_sound in H; exact H]. intros H. apply orb_prop in H.
    destruct H as [H|H]; apply andb_prop in H; destruct H as [H1 H2].
    + left. split; [exact H1|now apply comps_fixb_sound].
    + right. split; [now apply streqb_eq|]. apply comps_fixb_sound in H2. exact H2.
  - destruct (i_dt i) as [D|]; [|discriminate]. destruct (slookup D (t_structs t)); [apply tcomps_okb_sound|discriminate].
Qed.

Definition tfield_textb (srows : list srow) (i : nat) (f : str) : bool :=
  negb (bmem (fsep e) f) && negb (bmem CR f) &&
  (nilb f ||
   (negb (is_blank f) &&
    match nth_error srows (pred i) with
    | Some row => match row_ref t row with
                  | Some fr => forallb (rep_text_okb fr) (bsplit (rsep e) f)
                  | None => false
                  end
    | None => false
    end)).
Lemma tfield_textb_sound srows i f : tfield_textb srows i f = true -> tfield_text srows i f.
Proof.
  unfold tfield_textb, tfield_text. intros H.
  apply andb_prop in H. destruct H as [H H2]. apply andb_prop in H. destruct H as [H0 H1].
  split; [now apply negb_true_iff|]. split; [now apply negb_true_iff|].
  apply orb_prop in H2. destruct H2 as [H2|H2]; [left; now destruct f|right].
  apply andb_prop in H2. destruct H2 as [Hb Hl]. split; [now apply negb_true_iff|].
  destruct (nth_error srows (pred i)) as [row|]; [|discriminate].
  destruct (row_ref t row) as [fr|] eqn:Er; [|discriminate].
  exists row, fr. split; [reflexivity|]. split; [exact Er|].
  revert Hl. apply forallb_Forall, rep_text_okb_sound.
Qed.

(* a whole line's field texts *)
Definition line_okb (srows : list srow) (fs : list str) : bool :=
  no_trailb fs && Nat.leb (length fs) (length srows) &&
  forallb (fun p => tfield_textb srows (fst p) (snd p)) (indexed fs).
Lemma line_okb_sound srows fs : line_okb srows fs = true ->
  no_trail fs /\ length fs <= length srows /\ forall i f, In (i, f) (indexed fs) -> tfield_text srows i f.
Proof.
  unfold line_okb. intros H. apply andb_prop in H. destruct H as [H H2]. apply andb_prop in H. destruct H as [H0 H1].
  split; [now apply no_trailb_sound|]. split; [now apply Nat.leb_le|].
  intros i f Hif. rewrite forallb_forall in H2. apply (tfield_textb_sound srows i f). exact (H2 _ Hif).
Qed.

(* boolean form of the typed value-tree conditions *)
Definition leaf_atb (dt : option str) (s : str) : bool := nilb s || leaf_okb dt s.
Lemma leaf_atb_sound dt s : leaf_atb dt s = true -> leaf_at dt s.
Proof.
  unfold leaf_atb, leaf_at. intros H. apply orb_prop in H.
  destruct H as [H|H]; [left; now destruct s|right; now apply leaf_okb_sound].
Qed.

Definition wt_compb (crow : srow) (c : vcomp) : bool :=
  match row_ref t crow with
  | Some (SLeaf i) => match i_dt i with Some b => forallb (leaf_atb (Some b)) c | None => false end
  | Some (SSeqDt i) =>
      match i_dt i with
      | Some D2 => match slookup D2 (t_structs t) with
                   | Some rows2 => Nat.leb (length c) (length rows2) &&
                                   forallb (fun kp => leaf_atb (sub_dt t rows2 (fst kp)) (snd kp)) (indexed c)
                   | None => false
                   end
      | None => false
      end
  | _ => false
  end.
Lemma wt_compb_sound crow c : wt_compb crow c = true -> wt_comp crow c.
Proof.
  unfold wt_compb, wt_comp. destruct (row_ref t crow) as [[i|i|? ? ?|]|]; try discriminate.
  - destruct (i_dt i); [|discriminate]. apply forallb_Forall. intros s0. apply leaf_atb_sound.
  - destruct (i_dt i) as [D2|]; [|discriminate]. destruct (slookup D2 (t_structs t)) as [rows2|]; [|discriminate].
    intros H. apply andb_prop in H. destruct H as [H1 H2]. split; [now apply Nat.leb_le|].
    intros k p0 Hkp. rewrite forallb_forall in H2. apply leaf_atb_sound. exact (H2 _ Hkp).
Qed.

Definition wt_repb (fr : sref) (vr : vrep) : bool :=
  match fr with
  | SLeaf i =>
      match i_dt i with
      | Some b => (base (Some b) && forallb (forallb (leaf_atb (Some b))) vr) ||
                  (streqb b (unbs "varies") && forallb (forallb (leaf_atb (Some (unbs "ST")))) vr)
      | None => forallb (forallb (leaf_atb (Some (unbs "ST")))) vr
      end
  | SSeqDt i =>
      match i_dt i with
      | Some D => match slookup D (t_structs t) with
                  | Some rows => Nat.leb (length vr) (length rows) &&
                                 forallb (fun jc => nilb (snd jc) ||
                                                    match nth_error rows (pred (fst jc)) with
                                                    | Some crow => wt_compb crow (snd jc)
                                                    | None => false end) (indexed vr)
                  | None => false
                  end
      | None => false
      end
  | _ => false
  end.
Lemma wt_repb_sound fr vr : wt_repb fr vr = true -> wt_rep fr vr.
Proof.
  unfold wt_repb, wt_rep. destruct fr as [i|i|? ? ?|]; try discriminate.
  - destruct (i_dt i) as [b|].
    2:{ apply forallb_Forall. intros c. apply forallb_Forall. intros s0. apply leaf_atb_sound. }
    intros H. apply orb_prop in H.
    destruct H as [H|H]; apply andb_prop in H; destruct H as [H1 H2].
    + left. split; [exact H1|]. revert H2. apply forallb_Forall. intros c. apply forallb_Forall. intros s0. apply leaf_atb_sound.
    + right. split; [now apply streqb_eq|]. revert H2. apply forallb_Forall. intros c. apply forallb_Forall. intros s0. apply leaf_atb_sound.
  - destruct (i_dt i) as [D|]; [|discriminate]. destruct (slookup D (t_structs t)) as [rows|]; [|discriminate].
    intros H. apply andb_prop in H. destruct H as [H1 H2]. split; [now apply Nat.leb_le|].
    intros j c Hjc. rewrite forallb_forall in H2. specialize (H2 _ Hjc). cbn [fst snd] in H2.
    apply orb_prop in H2. destruct H2 as [H2|H2]; [left; now destruct c|right].
    destruct (nth_error rows (pred j)) as [crow|]; [|discriminate]. exists crow. split; [reflexivity|now apply wt_compb_sound].
Qed.

Definition wt_fieldb (srows : list srow) (i : nat) (vf : vfield) : bool :=
  nilb vf ||
  match nth_error srows (pred i) with
  | Some row => match row_ref t row with Some fr => forallb (wt_repb fr) vf | None => false end
  | None => false
  end.
Lemma wt_fieldb_sound srows i vf : wt_fieldb srows i vf = true -> wt_field srows i vf.
Proof.
  unfold wt_fieldb, wt_field. intros H. apply orb_prop in H. destruct H as [H|H]; [left; now destruct vf|right].
  destruct (nth_error srows (pred i)) as [row|]; [|discriminate].
  destruct (row_ref t row) as [fr|] eqn:Er; [|discriminate].
  exists row, fr. split; [reflexivity|]. split; [exact Er|]. revert H. apply forallb_Forall, wt_repb_sound.
Qed.

Definition vt_okb (srows : list srow) (vt : list vfield) : bool :=
  canon_fieldsb e (fun _ => true) vt && Nat.leb (length vt) (length srows) &&
  forallb (fun p => wt_fieldb srows (fst p) (snd p)) (indexed vt).
Lemma vt_okb_sound srows vt : vt_okb srows vt = true ->
  canon_fields e PT vt /\ length vt <= length srows /\ forall i vf, In (i, vf) (indexed vt) -> wt_field srows i vf.
Proof.
  unfold vt_okb. intros H. apply andb_prop in H. destruct H as [H H2]. apply andb_prop in H. destruct H as [H0 H1].
  split; [apply (canon_fieldsb_sound e PT (fun _ => true)); auto|]. split; [now apply Nat.leb_le|].
  intros i vf Hi. rewrite forallb_forall in H2. apply wt_fieldb_sound. exact (H2 _ Hi).
Qed.

End TableSeg.
