(* Rejected operations (C12): what a raising add / deletion / assignment has done to the store, and
   that the encoding only depends on the visible part of the nodes. *)
From Coq Require Import List Bool Arith Lia ZArith NArith Init.Byte.
From HL7 Require Import Lib.Str Model.Ec Model.Result Model.Ref Model.Tree Model.Parser Model.Encode Model.Heap.
From HL7 Require Import Proofs.HeapFacts.
Import ListNotations.

(* the visible part of a node: everything except the back-pointers and the traversal index *)
Definition vis (n : node) :=
  (n_cls n, n_name n, n_lvl n, n_ver n, n_list n, n_idx n, (n_st n, n_dt n, n_value n, n_enc n, (n_inf n, n_last_allowed n, n_last n))).
Definition vis_eq (s s' : store) : Prop := forall q, vis (getn s' q) = vis (getn s q).

Lemma vis_eq_refl s : vis_eq s s.
Proof. intros q. reflexivity. Qed.
Lemma vis_eq_trans s1 s2 s3 : vis_eq s1 s2 -> vis_eq s2 s3 -> vis_eq s1 s3.
Proof. intros A B q. now rewrite B, A. Qed.

Lemma vis_fields n m : vis n = vis m ->
  n_cls n = n_cls m /\ n_name n = n_name m /\ n_list n = n_list m /\ n_idx n = n_idx m /\ n_st n = n_st m /\
  n_dt n = n_dt m /\ n_enc n = n_enc m /\ n_inf n = n_inf m /\ n_last_allowed n = n_last_allowed m /\ n_last n = n_last m.
Proof. unfold vis. intros H. inversion H. repeat split; auto. Qed.

Section Atomic.
Variable t : tables.
Variable e : ec.

(* ---------- the encoding reads only the visible part ---------- *)

Lemma enc_sub_vis s s' : vis_eq s s' -> forall i, enc_sub_h s' i = enc_sub_h s i.
Proof. intros V i. unfold enc_sub_h. now destruct (vis_fields _ _ (V i)) as (_&_&_&_&_&_&->&_). Qed.

Lemma filter_names_vis s s' (f : option str -> bool) l : vis_eq s s' ->
  filter (fun c => f (n_name (getn s' c))) l = filter (fun c => f (n_name (getn s c))) l.
Proof. intros V. apply filter_ext. intros c. now destruct (vis_fields _ _ (V c)) as (_&->&_). Qed.

Lemma generic_slots_vis s s' X X' : vis_eq s s' -> vis X' = vis X -> generic_slots_h s' X' = generic_slots_h s X.
Proof.
  intros V E. unfold generic_slots_h. destruct (vis_fields _ _ E) as (_&_&->&->&->&_).
  now rewrite (filter_names_vis s s' name_none_or_st).
Qed.

Lemma enc_slots_ext {A} (f g : A -> str) sep sl : (forall x, f x = g x) -> enc_slots f sep sl = enc_slots g sep sl.
Proof.
  intros H. unfold enc_slots. f_equal. apply flat_map_ext. intros [[|x r]|]; auto. cbn. f_equal; auto.
  apply map_ext. auto.
Qed.

Lemma enc_comp_vis s s' : vis_eq s s' -> forall i, enc_comp_h t e s' i = enc_comp_h t e s i.
Proof.
  intros V i. unfold enc_comp_h. pose proof (V i) as E. destruct (vis_fields _ _ E) as (_&_&El&_&_&Ed&_).
  rewrite Ed, El. rewrite (generic_slots_vis s s' _ _ V E).
  destruct (_ || _); apply enc_slots_ext; now apply enc_sub_vis.
Qed.

Lemma unknown_vis n m : vis n = vis m -> unknown n = unknown m.
Proof. intros E. unfold unknown. now destruct (vis_fields _ _ E) as (->&->&_&_&_&->&_). Qed.

Lemma varies_slots_vis s s' X X' : vis_eq s s' -> vis X' = vis X -> varies_slots_h s' X' = varies_slots_h s X.
Proof.
  intros V E. unfold varies_slots_h. destruct (vis_fields _ _ E) as (_&_&->&->&_). f_equal. f_equal.
  apply filter_ext. intros c. now apply unknown_vis.
Qed.

Lemma enc_field_vis s s' : vis_eq s s' -> forall i, enc_field_h t e s' i = enc_field_h t e s i.
Proof.
  intros V i. unfold enc_field_h. pose proof (V i) as E. destruct (vis_fields _ _ E) as (_&_&El&_&_&Ed&_).
  rewrite Ed, El. rewrite (generic_slots_vis s s' _ _ V E), (varies_slots_vis s s' _ _ V E).
  destruct (is_varies _); [|destruct (_ || _)]; apply enc_slots_ext; now apply enc_comp_vis.
Qed.

Lemma seg_slots_vis s s' X X' b : vis_eq s s' -> vis X' = vis X -> seg_slots_h s' X' b = seg_slots_h s X b.
Proof.
  intros V E. unfold seg_slots_h. destruct (vis_fields _ _ E) as (_&->&->&->&->&_&_&->&->&->).
  now rewrite (filter_names_vis s s' name_none_or_st).
Qed.

Theorem to_er7_vis s s' : vis_eq s s' -> forall x b, to_er7 t e s' x b = to_er7 t e s x b.
Proof.
  intros V x b. unfold to_er7. pose proof (V x) as E. destruct (vis_fields _ _ E) as (->&En&_).
  destruct (n_cls (getn s x)).
  - unfold enc_seg_h. rewrite (seg_slots_vis s s' _ _ b V E), En. f_equal. f_equal.
    apply map_ext. intros [reps|]; auto. f_equal. apply map_ext. now apply enc_field_vis.
  - now apply enc_field_vis.
  - now apply enc_comp_vis.
  - now apply enc_sub_vis.
Qed.

(* pointer updates are invisible *)
Lemma vis_eq_pointers s c N : vis N = vis (getn s c) -> vis_eq s (setn s c N).
Proof. intros E q. rewrite getn_setn. destruct (Nat.eqb_spec q c) as [->|]; auto. Qed.

(* ---------- a rejected add ---------- *)

Lemma append_attached_err p c s s' x : append_attached p c s = (s', Err x) -> s' = s.
Proof.
  unfold append_attached. cbn [mbind node_of lift].
  destruct (acceptance_checks _ _) as [[]|y]; [|now intros [= <- _]].
  destruct (oid_eqb _ _); [discriminate|]. destruct (oid_eqb _ _); discriminate.
Qed.
Lemma seg_counter_err p c s s' x : seg_counter p c s = (s', Err x) -> x = PyValueError /\ s' = s.
Proof.
  unfold seg_counter. cbn [mbind node_of].
  destruct (n_cls (getn s p)); try discriminate. destruct (n_name (getn s c)); try discriminate.
  destruct (_ && _ && _); try discriminate. destruct (py_int_ok _); [|now intros [= <- <-]].
  destruct (N.ltb _ _); discriminate.
Qed.

Lemma add_inner_err p c s s' x : add_inner t p c s = (s', Err x) -> x <> PyValueError -> s' = s.
Proof.
  unfold add_inner. cbn [mbind node_of lift].
  destruct (class_checks t _ _) as [[]|y]; [|now intros [= <- _]].
  destruct (is_valid_child t _ _) as [[]|y]; cbn [negb mbind node_of lift]; try now intros [= <- _].
  rewrite mbind_run. destruct (append_attached p c s) as [s1 [[]|y]] eqn:E1.
  - intros H N. apply seg_counter_err in H. tauto.
  - intros [= <- _] _. eapply append_attached_err; eauto.
Qed.

Definition pointed (s : store) (c p : nat) : store :=
  setn s c (with_tparent (with_parent (getn s c) (Some p)) None).

Lemma append_err p c s s' x : append t p c s = (s', Err x) -> x <> PyValueError -> s' = s \/ s' = pointed s c p.
Proof.
  unfold append. cbn [mbind node_of lift].
  destruct (is_valid_child t _ _) as [[]|y]; cbn [negb mbind node_of lift]; try (intros [= <- _]; now left).
  destruct (pointing _ _); cbn [negb].
  - intros H _. left. eapply append_attached_err; eauto.
  - rewrite mbind_run. unfold point_to at 1, modify at 1. intros H N. right. eapply add_inner_err; eauto.
Qed.

(* C12 for add: a rejected add has changed nothing but (possibly) the back-pointers of the refused
   child; int(name[4:]) failing AFTER the child was listed (ValueError) is the one exception *)
Theorem add_rejected p c s s' x :
  add t p c s = (s', Err x) -> x <> PyValueError -> s' = s \/ s' = pointed s c p.
Proof.
  unfold add. cbn [mbind node_of lift].
  destruct (class_checks t _ _) as [[]|y]; [|intros [= <- _]; now left].
  rewrite mbind_run. destruct (append t p c s) as [s1 [[]|y]] eqn:E1.
  - intros H N. apply seg_counter_err in H. tauto.
  - intros [= <- <-] N. eapply append_err; eauto.
Qed.

Corollary add_rejected_vis p c s s' x : add t p c s = (s', Err x) -> x <> PyValueError -> vis_eq s s'.
Proof.
  intros H N. destruct (add_rejected _ _ _ _ _ H N) as [->| ->]; [apply vis_eq_refl|].
  apply vis_eq_pointers. reflexivity.
Qed.

(* ---------- a rejected deletion ---------- *)

Lemma remove_child_err p c s s' x : remove_child p c s = (s', Err x) -> x = PyValueError.
Proof.
  unfold remove_child. cbn [mbind node_of]. destruct (oid_eqb _ _); [discriminate|].
  rewrite mbind_run. unfold do_rm_idx at 1, modify at 1. cbn [mbind node_of].
  destruct (memb _ _); [discriminate|]. now intros [= _ <-].
Qed.

Theorem del_child_rejected x name s s' ex :
  del_child t x name s = (s', Err ex) -> ex <> PyValueError -> s' = s.
Proof.
  unfold del_child, child_at_index. rewrite !mbind_run. cbn [node_of lift]. rewrite !mbind_run. cbn [lift].
  destruct (fcr t _ _) as [[cn cr]|y]; [|now intros [= <- _]].
  destruct (streqb cn name); cbn [ret].
  - destruct (finder _ _ _) as [c|]; [|now intros [= <- _]]. intros H N. apply remove_child_err in H. contradiction.
  - destruct (finder _ _ _) as [c|]; [|now intros [= <- _]]. intros H N. apply remove_child_err in H. contradiction.
Qed.

(* ---------- a rejected assignment: the early causes ---------- *)
Variable le : level -> option str -> str -> result str.

(* allocation never raises *)
Lemma alloc_kids_ok {A} (f : option nat -> A -> M nat) root (l : list A) :
  (forall par x s, exists s' i, f par x s = (s', Ok i)) -> forall s, exists s', alloc_kids f root l s = (s', Ok tt).
Proof.
  intros Hf. induction l as [|x l IH]; intros s; cbn [alloc_kids]; [eexists; reflexivity|].
  rewrite mbind_run. destruct (Hf (Some root) x s) as (s1 & i & ->). rewrite mbind_run.
  unfold do_append at 1, modify at 1. apply IH.
Qed.
Lemma alloc_sub_ok lvl par x s : exists s' i, alloc_sub t lvl par x s = (s', Ok i).
Proof. unfold alloc_sub, alloc. eexists. eexists. reflexivity. Qed.
Lemma alloc_tree_ok {A} (f : option nat -> A -> M nat) n (l : list A) s :
  (forall par x s, exists s' i, f par x s = (s', Ok i)) ->
  exists s' i, (let! i := alloc n in alloc_kids f i l ;; ret i)%heap s = (s', Ok i).
Proof.
  intros Hf. rewrite mbind_run. unfold alloc at 1.
  set (s0 := mk_store (upd (s_heap s) (s_next s) n) (S (s_next s))). rewrite mbind_run.
  destruct (alloc_kids_ok f (s_next s) l Hf s0) as [s1 ->]. eexists. eexists. reflexivity.
Qed.
Lemma alloc_comp_ok lvl par x s : exists s' i, alloc_comp t lvl par x s = (s', Ok i).
Proof. unfold alloc_comp. apply alloc_tree_ok. apply alloc_sub_ok. Qed.
Lemma alloc_field_ok lvl par x s : exists s' i, alloc_field t lvl par x s = (s', Ok i).
Proof. unfold alloc_field. apply alloc_tree_ok. apply alloc_comp_ok. Qed.

(* a value the child parser refuses (too long, too many components under STRICT, ...) is refused
   before anything is allocated or attached *)
Lemma parse_child_err p cn cr txt s s' x : parse_child t e le p cn cr txt s = (s', Err x) -> s' = s.
Proof.
  unfold parse_child. cbn [mbind node_of]. destruct (n_cls (getn s p)).
  - cbn [mbind lift]. destruct (parse_field _ _ _ _ _ _ _ _) as [y|y]; [|now intros [= <- _]].
    cbn [mbind]. destruct (alloc_field_ok (n_lvl (getn s p)) None y s) as (s1 & i & ->). discriminate.
  - cbn [mbind lift]. destruct (ref_dt cr) as [d|y]; [|now intros [= <- _]]. cbn [mbind lift].
    destruct (parse_component _ _ _ _ _ _ _ _) as [y|y]; [|now intros [= <- _]].
    cbn [mbind]. destruct (alloc_comp_ok (n_lvl (getn s p)) None y s) as (s1 & i & ->). discriminate.
  - cbn [mbind lift]. destruct (ref_dt cr) as [d|y]; [|now intros [= <- _]]. cbn [mbind lift].
    destruct (mk_subcomponent _ _ _ _ _ _ _) as [y|y]; [|now intros [= <- _]].
    cbn [mbind]. destruct (alloc_sub_ok (n_lvl (getn s p)) None y s) as (s1 & i & ->). discriminate.
  - now intros [= <- _].
Qed.

(* C12 for assignment, early causes: an unknown / foreign child name and a value the parser refuses
   leave the store exactly as it was (whatever the index, replacement included) *)
Theorem set_child_rejected_name x p name txt i s ex :
  fcr t (getn s p) (upper name) = Err ex ->
  set_child t e le x p name (VText txt) i s = (s, Err ex).
Proof. intros H. unfold set_child. rewrite mbind_run. cbn [ret mbind node_of lift]. now rewrite H. Qed.

Theorem set_child_rejected_value x p name txt i s cn cr s1 ex :
  fcr t (getn s p) (upper name) = Ok (cn, cr) ->
  parse_child t e le p cn cr txt s = (s1, Err ex) ->
  set_child t e le x p name (VText txt) i s = (s, Err ex).
Proof.
  intros H Hp. pose proof (parse_child_err _ _ _ _ _ _ _ Hp) as ->.
  unfold set_child. rewrite mbind_run. cbn [ret mbind node_of lift]. rewrite H. cbn [mbind]. rewrite mbind_run, Hp.
  reflexivity.
Qed.

(* an element of another name handed to an assignment (seg.pid_3 = Field('PID_5')) is refused with
   the store untouched *)
Theorem set_child_rejected_element x p name c i s cn cr :
  fcr t (getn s p) (upper name) = Ok (cn, cr) ->
  opt_eqb (n_name (getn s c)) (Some cn) = false ->
  set_child t e le x p name (VElem c) i s = (s, Err (HL7 EChildNotValid)).
Proof.
  intros H Hn. unfold set_child. rewrite mbind_run. cbn [ret mbind node_of lift]. rewrite H. cbn [mbind].
  rewrite mbind_run. cbn [ret mbind node_of]. now rewrite Hn.
Qed.

(* ---------- a rejected assignment: refusal at acceptance time (append path) ---------- *)

(* nodes below n0 are untouched, nothing is deallocated *)
Definition same_under (n0 : nat) (s s' : store) : Prop :=
  s_next s <= s_next s' /\ forall q, q < n0 -> getn s' q = getn s q.
Lemma same_under_refl n0 s : same_under n0 s s.
Proof. split; auto. Qed.
Lemma same_under_trans n0 s1 s2 s3 : same_under n0 s1 s2 -> same_under n0 s2 s3 -> same_under n0 s1 s3.
Proof. intros [A B] [C D]. split; [lia|]. intros q Hq. now rewrite D, B. Qed.

(* an allocator only writes at and above the allocation pointer it started from *)
Definition above {A} (f : option nat -> A -> M nat) : Prop :=
  forall n0 par x s, n0 <= s_next s ->
    exists s' i, f par x s = (s', Ok i) /\ same_under n0 s s' /\ s_next s <= i < s_next s'.

Lemma above_alloc_sub lvl : above (alloc_sub t lvl).
Proof.
  intros n0 par x s Hn. unfold alloc_sub, alloc. eexists. eexists. split; [reflexivity|]. split; [|cbn; lia].
  split; [cbn; lia|]. intros q Hq. unfold getn. cbn. unfold upd. destruct (Nat.eqb_spec q (s_next s)); [lia|reflexivity].
Qed.

Lemma alloc_kids_above {A} (f : option nat -> A -> M nat) root (l : list A) :
  above f -> forall n0 s, n0 <= root -> n0 <= s_next s ->
  exists s', alloc_kids f root l s = (s', Ok tt) /\ same_under n0 s s'.
Proof.
  intros Hf. induction l as [|x l IH]; intros n0 s Hr Hn; cbn [alloc_kids].
  - eexists. split; [reflexivity|apply same_under_refl].
  - rewrite mbind_run. destruct (Hf n0 (Some root) x s Hn) as (s1 & i & -> & S1 & Hi). rewrite mbind_run.
    unfold do_append at 1, modify at 1.
    set (s2 := setn s1 root _).
    assert (S2 : same_under n0 s1 s2).
    { split; [reflexivity|]. intros q Hq. unfold s2. rewrite getn_setn. destruct (Nat.eqb_spec q root); [lia|reflexivity]. }
    destruct (IH n0 s2 Hr) as (s3 & -> & S3); [destruct S1; unfold s2; rewrite next_setn; lia|].
    eexists. split; [reflexivity|]. eapply same_under_trans; [exact S1|]. eapply same_under_trans; eauto.
Qed.

Lemma alloc_tree_above {A} (f : option nat -> A -> M nat) n (l : list A) n0 s :
  above f -> n0 <= s_next s ->
  exists s' i, (let! i := alloc n in alloc_kids f i l ;; ret i)%heap s = (s', Ok i) /\ same_under n0 s s' /\ s_next s <= i < s_next s'.
Proof.
  intros Hf Hn. rewrite mbind_run. unfold alloc at 1.
  set (s0 := mk_store (upd (s_heap s) (s_next s) n) (S (s_next s))). rewrite mbind_run.
  assert (S0 : same_under n0 s s0).
  { split; [cbn; lia|]. intros q Hq. unfold getn. cbn. unfold upd. destruct (Nat.eqb_spec q (s_next s)); [lia|reflexivity]. }
  destruct (alloc_kids_above f (s_next s) l Hf n0 s0 Hn) as (s1 & -> & S1); [cbn; lia|].
  eexists. eexists. split; [reflexivity|]. split; [eapply same_under_trans; eauto|].
  destruct S1 as [N1 _]. cbn in N1. lia.
Qed.
Lemma above_alloc_comp lvl : above (alloc_comp t lvl).
Proof. intros n0 par x s Hn. unfold alloc_comp. apply alloc_tree_above; auto. apply above_alloc_sub. Qed.
Lemma above_alloc_field lvl : above (alloc_field t lvl).
Proof. intros n0 par x s Hn. unfold alloc_field. apply alloc_tree_above; auto. apply above_alloc_comp. Qed.

Lemma parse_child_ok p cn cr txt s s' c :
  parse_child t e le p cn cr txt s = (s', Ok c) -> same_under (s_next s) s s' /\ s_next s <= c < s_next s'.
Proof.
  unfold parse_child. cbn [mbind node_of]. destruct (n_cls (getn s p)).
  - cbn [mbind lift]. destruct (parse_field _ _ _ _ _ _ _ _) as [y|y]; [|discriminate]. cbn [mbind].
    destruct (above_alloc_field (n_lvl (getn s p)) (s_next s) None y s (le_n _)) as (s1 & i & -> & A & B).
    now intros [= <- <-].
  - cbn [mbind lift]. destruct (ref_dt cr) as [d|y]; [|discriminate]. cbn [mbind lift].
    destruct (parse_component _ _ _ _ _ _ _ _) as [y|y]; [|discriminate]. cbn [mbind].
    destruct (above_alloc_comp (n_lvl (getn s p)) (s_next s) None y s (le_n _)) as (s1 & i & -> & A & B).
    now intros [= <- <-].
  - cbn [mbind lift]. destruct (ref_dt cr) as [d|y]; [|discriminate]. cbn [mbind lift].
    destruct (mk_subcomponent _ _ _ _ _ _ _) as [y|y]; [|discriminate]. cbn [mbind].
    destruct (above_alloc_sub (n_lvl (getn s p)) (s_next s) None y s (le_n _)) as (s1 & i & -> & A & B).
    now intros [= <- <-].
  - discriminate.
Qed.

(* a successful append does not touch the traversal parent of the element it appends to *)
Lemma append_attached_tp p c s s' : append_attached p c s = (s', Ok tt) -> n_tparent (getn s' p) = n_tparent (getn s p).
Proof.
  unfold append_attached. cbn [mbind node_of lift].
  destruct (acceptance_checks _ _) as [[]|y]; [|discriminate].
  destruct (oid_eqb _ _).
  - unfold do_append, modify. intros [= <-]. now rewrite getn_setn_same.
  - destruct (oid_eqb _ _).
    + unfold do_tappend, modify. intros [= <-]. now rewrite getn_setn_same.
    + now intros [= <-].
Qed.
Lemma seg_counter_tp p c s s' : seg_counter p c s = (s', Ok tt) -> n_tparent (getn s' p) = n_tparent (getn s p).
Proof.
  unfold seg_counter. cbn [mbind node_of].
  destruct (n_cls (getn s p)); try now intros [= <-].
  destruct (n_name (getn s c)); try now intros [= <-].
  destruct (_ && _ && _); try now intros [= <-].
  destruct (py_int_ok _); [|discriminate].
  destruct (N.ltb _ _); [|now intros [= <-]].
  unfold set_last, modify. intros [= <-]. now rewrite getn_setn_same.
Qed.
Lemma add_inner_tp p c s s' : add_inner t p c s = (s', Ok tt) -> n_tparent (getn s' p) = n_tparent (getn s p).
Proof.
  unfold add_inner. cbn [mbind node_of lift].
  destruct (class_checks t _ _) as [[]|y]; [|discriminate].
  destruct (is_valid_child t _ _) as [[]|y]; cbn [negb mbind node_of lift]; try discriminate.
  rewrite mbind_run. destruct (append_attached p c s) as [s1 [[]|y]] eqn:E1; [|discriminate].
  intros H. apply seg_counter_tp in H. apply append_attached_tp in E1. congruence.
Qed.
Lemma append_tp p c s s' : append t p c s = (s', Ok tt) -> c <> p -> n_tparent (getn s' p) = n_tparent (getn s p).
Proof.
  unfold append. cbn [mbind node_of lift]. intros H Hc. revert H.
  destruct (is_valid_child t _ _) as [[]|y]; cbn [negb mbind node_of lift]; try discriminate.
  destruct (pointing _ _); cbn [negb].
  - apply append_attached_tp.
  - rewrite mbind_run. unfold point_to at 1, modify at 1. intros H. apply add_inner_tp in H.
    rewrite H. now rewrite getn_setn_other by auto.
Qed.

(* C12 for an assignment that would APPEND (no child is addressed) to an element that is not itself
   waiting under a traversal parent: whatever refuses it afterwards - wrong class, cardinality under
   STRICT, level, version - every element allocated before the call is exactly as it was *)
Theorem set_child_rejected_append x p name txt i s s' ex cn cr :
  set_child t e le x p name (VText txt) i s = (s', Err ex) ->
  ex <> PyValueError ->
  p < s_next s ->
  n_tparent (getn s p) = None ->
  fcr t (getn s p) (upper name) = Ok (cn, cr) ->
  (forall cn' cr', fcr t (getn s p) (upper cn) = Ok (cn', cr') -> finder (getn s p) (Some cn') i = None) ->
  same_under (s_next s) s s' \/
  exists c, s_next s <= c /\ exists s1, same_under (s_next s) s s1 /\ s' = pointed s1 c p.
Proof.
  intros H Nx Hp Ht Hf Hfind. revert H. unfold set_child. rewrite mbind_run. cbn [ret mbind node_of lift].
  rewrite Hf. cbn [mbind]. rewrite mbind_run.
  destruct (parse_child t e le p cn cr txt s) as [s1 [c|y]] eqn:Ep.
  2:{ intros [= <- _]. left. rewrite (parse_child_err _ _ _ _ _ _ _ Ep). apply same_under_refl. }
  destruct (parse_child_ok _ _ _ _ _ _ _ Ep) as [S1 Hc]. cbn [mbind node_of].
  assert (Hp1 : getn s1 p = getn s p) by (apply S1; exact Hp).
  destruct (opt_eqb (n_name (getn s1 c)) (Some cn)); cbn [negb]; [|intros [= <- _]; now left].
  rewrite mbind_run. unfold child_at_index. cbn [mbind node_of lift]. rewrite Hp1.
  destruct (fcr t (getn s p) (upper cn)) as [[cn' cr']|y] eqn:Ef2; [|intros [= <- _]; now left].
  cbn [mbind]. specialize (Hfind cn' cr' eq_refl).
  assert (Hold : exists r, (if streqb cn' cn then ret (finder (getn s p) (Some cn) i)
                            else if negb x then raise OutOfFuel else ret (finder (getn s p) (Some cn') i)) s1 = (s1, r)
                           /\ (r = Ok None \/ exists y, r = Err y)).
  { destruct (streqb_spec cn' cn) as [->|].
    - eexists. split; [reflexivity|]. left. now rewrite Hfind.
    - destruct (negb x); eexists; (split; [reflexivity|]); [right; eauto|left; now rewrite Hfind]. }
  destruct Hold as (r & -> & [->|[y ->]]); [|intros [= <- _]; now left].
  rewrite mbind_run.
  destruct (append t p c s1) as [s2 [[]|y]] eqn:Ea.
  - (* attached: set_parent_to_traversal of an element without traversal parent cannot raise *)
    assert (Ht2 : n_tparent (getn s2 p) = None).
    { rewrite (append_tp _ _ _ _ Ea); [now rewrite Hp1|lia]. }
    unfold FUEL. cbn [to_traversal mbind node_of]. rewrite Ht2. discriminate.
  - intros [= <- <-]. destruct (append_err _ _ _ _ _ Ea Nx) as [->| ->]; [now left|].
    right. exists c. split; [lia|]. exists s1. auto.
Qed.

End Atomic.
