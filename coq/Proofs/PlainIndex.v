(* Positions in child names (core.py:93 _valid_child_name after the fix "positions start at 1 and are
   written plainly"): `plain_index x` holds exactly of the numerals str(k), k = 1, 2, ...; hence the
   names accepted by `valid_child_name` are exactly <parent>_<k> with k >= 1 (name_idx p k), and
   <parent>_0, <parent>_-1, <parent>_07, <parent>_+1, "<parent>_ 1" name no child. *)
From Coq Require Import List Bool Arith NArith Lia Init.Byte.
From HL7 Require Import Lib.Str Model.Result Model.Ref Model.Tree Model.Parser.
From HL7 Require Import Proofs.RoundTripStr.
Import ListNotations.
Open Scope bs_scope.

(* ------------------------------------------------------------------ *)
(* rsplit('_', 1)                                                       *)

Lemma rsplit_us_app p idx : bmem "_" idx = false -> rsplit_us (p ++ "_" ++ idx) = Some (p, idx).
Proof.
  intros H. unfold rsplit_us.
  assert (R : rev (p ++ "_" ++ idx) = rev idx ++ "_"%byte :: rev p).
  { rewrite !rev_app_distr. cbn [unbs rev app]. rewrite <- app_assoc. reflexivity. }
  rewrite R, rsplit_us_aux_scan by now rewrite bmem_rev.
  now rewrite !rev_involutive, app_nil_r.
Qed.

Lemma rsplit_us_aux_inv : forall s acc a b, rsplit_us_aux s acc = Some (a, b) ->
  exists x r, s = x ++ "_"%byte :: r /\ bmem "_" x = false /\ a = rev r /\ b = rev x ++ acc.
Proof.
  induction s as [|c s IH]; intros acc a b H; [discriminate|].
  cbn [rsplit_us_aux] in H. destruct (beqb_spec c "_") as [->|Hc].
  - injection H as <- <-. exists [], s. repeat split; reflexivity.
  - destruct (IH _ _ _ H) as (x & r & -> & Hx & -> & ->).
    exists (c :: x), r. repeat split.
    + unfold bmem, mem in *. cbn [existsb]. rewrite Hx, orb_false_r.
      destruct (beqb_spec c "_"); [congruence|reflexivity].
    + cbn [rev]. now rewrite <- app_assoc.
Qed.

Lemma rsplit_us_inv c p idx : rsplit_us c = Some (p, idx) -> c = p ++ "_" ++ idx /\ bmem "_" idx = false.
Proof.
  unfold rsplit_us. intros H. destruct (rsplit_us_aux_inv _ _ _ _ H) as (x & r & E & Hx & -> & ->).
  rewrite app_nil_r. apply (f_equal (@rev _)) in E. rewrite rev_involutive in E. subst c.
  rewrite rev_app_distr. cbn [rev]. rewrite <- app_assoc. cbn [app unbs]. split; [reflexivity|].
  now rewrite bmem_rev.
Qed.

(* ------------------------------------------------------------------ *)
(* plain numerals                                                       *)

(* digit strings without a leading zero; the empty string is included for the induction *)
Definition canon (s : str) : Prop :=
  forallb is_digit s = true /\ match s with c :: _ => beqb c "0" = false | [] => True end.

Lemma plain_index_canon s : plain_index s = true <-> s <> [] /\ canon s.
Proof.
  unfold plain_index, canon. destruct s as [|c r].
  - split; [discriminate|intros [H _]; congruence].
  - split.
    + intros H. apply andb_prop in H. destruct H as [H0 H]. apply negb_true_iff in H0.
      split; [discriminate|]. split; assumption.
    + intros [_ [H H0]]. now rewrite H0, H.
Qed.

Lemma canon_prefix x d : canon (x ++ [d]) -> canon x /\ is_digit d = true.
Proof.
  unfold canon. rewrite forallb_app. cbn [forallb]. intros [H H0].
  apply andb_prop in H. destruct H as [Hx Hd]. rewrite andb_true_r in Hd.
  split; [|exact Hd]. split; [exact Hx|]. destruct x; [exact I|exact H0].
Qed.

Lemma fold_digits_ge : forall r acc,
  (acc <= fold_left (fun a b => a * 10 + digit_val b) r acc)%N.
Proof.
  induction r as [|c r IH]; intros acc; cbn [fold_left]; [lia|].
  specialize (IH (acc * 10 + digit_val c)%N). lia.
Qed.

Lemma digit_val_pos c : is_digit c = true -> beqb c "0" = false -> (0 < digit_val c)%N.
Proof.
  unfold is_digit, between, digit_val. intros H H0. apply andb_prop in H. destruct H as [H1 H2].
  apply N.leb_le in H1. apply N.leb_le in H2.
  destruct (N.eq_dec (code c) 48) as [E|E]; [|lia].
  exfalso. assert (c = "0"%byte).
  { unfold code in E. apply (f_equal Byte.of_N) in E. rewrite Byte.of_to_N in E. cbn in E. congruence. }
  subst c. discriminate.
Qed.

Lemma digit_val_lt c : is_digit c = true -> (digit_val c < 10)%N.
Proof.
  unfold is_digit, between, digit_val. intros H. apply andb_prop in H. destruct H as [H1 H2].
  apply N.leb_le in H1. apply N.leb_le in H2. lia.
Qed.

Lemma digit_val_inj c d : is_digit c = true -> is_digit d = true -> digit_val c = digit_val d -> c = d.
Proof.
  unfold is_digit, between, digit_val. intros Hc Hd E.
  apply andb_prop in Hc. destruct Hc as [C1 C2]. apply andb_prop in Hd. destruct Hd as [D1 D2].
  apply N.leb_le in C1, C2, D1, D2.
  assert (E' : code c = code d) by lia. unfold code in E'.
  apply (f_equal Byte.of_N) in E'. rewrite !Byte.of_to_N in E'. congruence.
Qed.

Lemma canon_val_pos s : canon s -> s <> [] -> (0 < digits_val s)%N.
Proof.
  unfold canon. destruct s as [|c r]; [congruence|]. intros [H H0] _.
  cbn [forallb] in H. apply andb_prop in H. destruct H as [Hc _].
  unfold digits_val. cbn [fold_left].
  pose proof (fold_digits_ge r (0 * 10 + digit_val c)%N). pose proof (digit_val_pos c Hc H0). lia.
Qed.

(* a number has one plain numeral *)
Lemma canon_val_inj : forall s1 s2, canon s1 -> canon s2 -> digits_val s1 = digits_val s2 -> s1 = s2.
Proof.
  induction s1 as [|d1 x1 IH] using rev_ind; intros s2 C1 C2 E.
  - destruct s2 as [|c r]; [reflexivity|].
    pose proof (canon_val_pos (c :: r) C2 ltac:(discriminate)). change (digits_val []) with 0%N in E. lia.
  - destruct s2 as [|d2 x2 _] using rev_ind.
    + pose proof (canon_val_pos (x1 ++ [d1]) C1 ltac:(now destruct x1)). change (digits_val []) with 0%N in E. lia.
    + destruct (canon_prefix _ _ C1) as [P1 D1]. destruct (canon_prefix _ _ C2) as [P2 D2].
      rewrite !digits_val_snoc in E.
      pose proof (digit_val_lt d1 D1). pose proof (digit_val_lt d2 D2).
      assert (digit_val d1 = digit_val d2 /\ digits_val x1 = digits_val x2) as [Ed Ex] by lia.
      rewrite (digit_val_inj d1 d2 D1 D2 Ed), (IH x2 P1 P2 Ex). reflexivity.
Qed.

Lemma nat_to_str_canon k : k <> 0 -> canon (nat_to_str k).
Proof.
  intros Hk. pose proof (nat_to_str_plain k Hk) as H. now apply plain_index_canon in H.
Qed.

(* plain_index holds exactly of str(k), k >= 1 *)
Lemma plain_index_numeral s : plain_index s = true <-> exists k, k <> 0 /\ s = nat_to_str k.
Proof.
  split.
  - intros H. apply plain_index_canon in H. destruct H as [Hne C].
    pose proof (canon_val_pos s C Hne) as P.
    exists (N.to_nat (digits_val s)). split; [lia|].
    apply canon_val_inj; [exact C|apply nat_to_str_canon; lia|].
    rewrite nat_to_str_val. lia.
  - intros [k [Hk ->]]. now apply nat_to_str_plain.
Qed.

(* ------------------------------------------------------------------ *)
(* _valid_child_name                                                    *)

Lemma valid_child_name_split p idx q : bmem "_" idx = false ->
  valid_child_name (Some (p ++ "_" ++ idx)) (Some q) = plain_index idx && streqb (upper p) (upper q).
Proof. intros H. unfold valid_child_name. now rewrite rsplit_us_app. Qed.

(* the child names of `q` are exactly <p>_<k>, k >= 1, p = q up to letter case *)
Lemma valid_child_name_iff c q :
  valid_child_name (Some c) (Some q) = true <->
  exists p k, k <> 0 /\ c = name_idx p k /\ upper p = upper q.
Proof.
  split.
  - unfold valid_child_name. destruct (rsplit_us c) as [[p idx]|] eqn:R; [|discriminate].
    intros H. apply andb_prop in H. destruct H as [Hp Hq].
    destruct (rsplit_us_inv _ _ _ R) as [-> _].
    apply plain_index_numeral in Hp. destruct Hp as [k [Hk ->]].
    exists p, k. split; [exact Hk|]. split; [reflexivity|]. now apply streqb_eq.
  - intros (p & k & Hk & -> & E). rewrite valid_child_name_idx by exact Hk. rewrite E. apply streqb_refl.
Qed.

(* an index that is not a plain numeral names no child, whatever the parent *)
Lemma valid_child_name_unplain c q p idx :
  rsplit_us c = Some (p, idx) -> plain_index idx = false -> valid_child_name (Some c) q = false.
Proof. intros R H. unfold valid_child_name. now rewrite R, H. Qed.

(* spellings that int() accepts and that are no positions *)
Definition unplain_suffixes : list str :=
  [unbs "0"; unbs "-1"; unbs "07"; unbs "+1"; unbs " 1"; unbs "1 "; unbs "00"; unbs "-0"; unbs ""].

Lemma unplain_suffixes_refused p q :
  forallb (fun idx => negb (valid_child_name (Some (p ++ "_" ++ idx)) q)) unplain_suffixes = true.
Proof.
  unfold unplain_suffixes. cbn [forallb].
  rewrite !(fun idx H H' => valid_child_name_unplain (p ++ "_" ++ idx) q p idx (rsplit_us_app p idx H) H')
    by reflexivity.
  reflexivity.
Qed.
