(* C17, message level (Model/ConfigMsg.v): parse_message reads the process-wide default version only
   when the header of the text carries no MSH-12; the message it returns encodes with the delimiters
   spelled out by MSH-1/MSH-2 of the text (TRUNCATION kept from v2.7 on), whatever the defaults. *)
From Coq Require Import List Bool Arith ZArith NArith Lia Init.Byte.
From HL7 Require Import Lib.Str Model.Ec Model.Result Model.Header Model.Ref Model.Tree Model.Parser Model.Encode
     Model.Leaf Model.LeafFull Model.MsgTree Model.Groups Model.Message Model.MsgEc Model.Validate Model.Wf
     Model.Config Model.ConfigMsg.
From HL7 Require Import Gen.Params Gen.Tables.
From HL7 Require Import Proofs.HeaderFacts Proofs.MsgEcFacts Proofs.RoundTripStr Proofs.RoundTripSeg Proofs.RoundTripTables
     Proofs.NoCrash Proofs.NoCrashTables Proofs.NoCrashMsg Proofs.GroupsFacts Proofs.GroupsMirror
     Proofs.NoCrashGroupedCore Proofs.NoCrashGrouped.
From HL7 Require Proofs.SplitJoin Proofs.RoundTripMsg Proofs.RoundTripMsgTables Proofs.RoundTripSegTables.
From HL7 Require Model.Datatypes.
Import ListNotations.
Open Scope bs_scope.
Open Scope res_scope.

(* ------------------------------------------------------------------ *)
(* (a) the default version is not read when the header states one *)

Lemma parse_message_dflt_irrelevant lib d1 d2 lvl fg text e st v :
  get_message_info (lstrip text) = Ok (e, st, Some v) ->
  parse_message lib d1 lvl fg text = parse_message lib d2 lvl fg text.
Proof. intros H. unfold parse_message. rewrite H. cbn [bind]. reflexivity. Qed.

Lemma header_version_info text v : header_version text = Some v ->
  exists e st, get_message_info (lstrip text) = Ok (e, st, Some v).
Proof.
  unfold header_version, header_info. destruct (get_message_info (lstrip text)) as [[[e st] ver]|]; [|discriminate].
  intros ->. eauto.
Qed.

Lemma api_parse_message_independent c1 c2 text l fg v : header_version text = Some v ->
  api_parse_message c1 text (Some l) fg = api_parse_message c2 text (Some l) fg.
Proof.
  intros H. destruct (header_version_info text v H) as (e & st & Hi). unfold api_parse_message. cbn [get_level].
  exact (parse_message_dflt_irrelevant tables_of _ _ l fg text e st v Hi).
Qed.

(* the header's own version is what is used: as if it had been the default *)
Lemma api_parse_message_header_version c text l fg v : header_version text = Some v ->
  api_parse_message c text (Some l) fg = parse_message tables_of v l fg text.
Proof.
  intros H. destruct (header_version_info text v H) as (e & st & Hi). unfold api_parse_message. cbn [get_level].
  exact (parse_message_dflt_irrelevant tables_of _ _ l fg text e st v Hi).
Qed.

(* an unsupported stated version is refused, whatever the default *)
Lemma api_parse_message_unsupported c text l fg v : header_version text = Some v -> tables_of v = None ->
  api_parse_message c text l fg = Err (HL7 EUnsupportedVersion).
Proof.
  intros H Ht. destruct (header_version_info text v H) as (e & st & Hi). unfold api_parse_message, parse_message.
  rewrite Hi. cbn [bind]. rewrite Ht. reflexivity.
Qed.

(* the tables of a version carry that version *)
Lemma all_versions_named : forallb (fun p : str * tables => streqb (t_version (snd p)) (fst p)) all_tables = true.
Proof. vm_compute. reflexivity. Qed.
Lemma tables_of_version v t : tables_of v = Some t -> t_version t = v.
Proof.
  intros H. pose proof (lookup_forallb (fun k x => streqb (t_version x) k) all_tables v t all_versions_named H) as E.
  cbv beta in E. now apply streqb_eq.
Qed.

(* ------------------------------------------------------------------ *)
(* (c) the delimiters of the parsed message are those of the text *)

(* the text of MSH-2 that spells a delimiter set out *)
Definition msh2_text (e : ec) : str :=
  csep e :: rsep e :: esc e :: ssep e :: match tsep e with Some t => [t] | None => [] end.

(* Proofs/NoCrashGrouped.split_msh_shape, keeping the link between MSH-2 and the returned set *)
Lemma split_msh_shape_ec text fields e : split_msh text = Ok (fields, e) ->
  exists rest more,
    text = unbs "MSH" ++ fsep e :: rest /\ is_space (fsep e) = false /\
    bsplit (fsep e) (first_line rest) = msh2_text e :: more /\
    existsb is_space (msh2_text e) = false.
Proof.
  unfold split_msh. intros H. destruct (msh_field_sep text) as [fs|] eqn:F; [|discriminate].
  apply msh_field_sep_some in F. destruct F as [rest [-> Hs]].
  pose proof (not_space_not_cr fs Hs) as Hcr.
  assert (Efl : first_line (unbs "MSH" ++ fs :: rest) = unbs "MSH" ++ fs :: first_line rest).
  { cbn. now rewrite Hcr. }
  rewrite Efl in H.
  assert (Hmsh : nosep beqb fs (unbs "MSH") = true).
  { destruct (beqb "M" fs) eqn:E1.
    { exfalso. apply beqb_eq in E1. subst fs. cbn in H. discriminate. }
    destruct (beqb "S" fs) eqn:E2.
    { exfalso. apply beqb_eq in E2. subst fs. cbn in H. discriminate. }
    destruct (beqb "H" fs) eqn:E3.
    { exfalso. apply beqb_eq in E3. subst fs. cbn in H. discriminate. }
    unfold nosep. cbn [unbs forallb]. now rewrite E1, E2, E3. }
  assert (Esp : bsplit fs (unbs "MSH" ++ fs :: first_line rest) = unbs "MSH" :: bsplit fs (first_line rest)).
  { unfold bsplit, split. rewrite (split_aux_app fs [] (unbs "MSH") _ Hmsh). cbn [split_aux]. now rewrite beqb_refl. }
  rewrite Esp in H. destruct (bsplit fs (first_line rest)) as [|seps more] eqn:Eb; [now apply Proofs.SplitJoin.bsplit_ne in Eb|].
  cbn [nth_str nth_error bind] in H.
  destruct (negb (nodupb beqb seps)); [discriminate|].
  destruct (existsb is_space seps) eqn:Esps; [discriminate|].
  exists rest, more.
  destruct seps as [|c [|r [|e0 [|s [|tr [|u seps]]]]]]; try discriminate.
  - injection H as _ <-. cbn [fsep]. repeat split; assumption.
  - match type of H with match ?o with Some _ => _ | None => _ end = _ => destruct o as [v|]; [|discriminate] end.
    destruct (ge_27 v); [|discriminate].
    injection H as _ <-. cbn [fsep]. repeat split; assumption.
Qed.

Lemma msh2_text_length e : 4 <= length (msh2_text e).
Proof. unfold msh2_text. cbn [length]. lia. Qed.

(* Proofs/NoCrashGrouped.first_piece_msh with MSH-2 = msh2_text e *)
Lemma first_piece_msh_ec text e structure version :
  get_message_info text = Ok (e, structure, version) ->
  exists ps tail,
    pieces text = strip (first_line text) :: ps /\
    strip (first_line text) = unbs "MSH" ++ fsep e :: msh2_text e ++ tail /\
    (tail = [] \/ exists r, tail = fsep e :: r) /\
    nosep beqb (fsep e) (msh2_text e) = true /\ is_space (fsep e) = false /\
    existsb is_space (msh2_text e) = false /\ take 3 (strip (first_line text)) = unbs "MSH".
Proof.
  unfold get_message_info. intros H. destruct (split_msh text) as [[fields e']|] eqn:Es; [|discriminate].
  cbn [bind] in H. injection H as <- _ _.
  destruct (split_msh_shape_ec _ _ _ Es) as (rest & more & -> & Hs & Eb & Hsp).
  set (seps := msh2_text e') in *.
  set (fs := fsep e') in *.
  pose proof (not_space_not_cr fs Hs) as Hcr.
  assert (Efl : first_line (unbs "MSH" ++ fs :: rest) = unbs "MSH" ++ fs :: first_line rest).
  { cbn. now rewrite Hcr. }
  assert (Hns : nosep beqb fs seps = true).
  { pose proof (split_aux_nosep fs (first_line rest) [] eq_refl) as F. unfold bsplit, split in Eb. rewrite Eb in F.
    now inversion F. }
  assert (Ej : exists tail0, first_line rest = seps ++ tail0 /\ (tail0 = [] \/ exists r, tail0 = fs :: r)).
  { rewrite <- (Proofs.SplitJoin.bjoin_bsplit fs (first_line rest)), Eb. destruct more as [|m1 more].
    - exists []. split; [cbn; now rewrite app_nil_r|now left].
    - exists (fs :: bjoin fs (m1 :: more)). split; [reflexivity|right; eauto]. }
  destruct Ej as (tail0 & Ej & Ht0).
  destruct (strip_by_shape is_space (unbs "MSH" ++ fs :: seps) tail0 fs) as (tail & Est & Ht); [discriminate| |exact Hs|exact Ht0|].
  { rewrite forallb_app. cbn [forallb]. rewrite Hs. cbn [negb andb]. rewrite (nospace_forallb seps Hsp). reflexivity. }
  assert (Estrip : strip (first_line (unbs "MSH" ++ fs :: rest)) = unbs "MSH" ++ fs :: seps ++ tail).
  { rewrite Efl, Ej. unfold strip.
    replace (unbs "MSH" ++ fs :: seps ++ tail0) with ((unbs "MSH" ++ fs :: seps) ++ tail0)
      by (rewrite <- app_assoc; reflexivity).
    rewrite Est. rewrite <- app_assoc. reflexivity. }
  destruct (pieces_first (unbs "MSH" ++ fs :: rest)) as [ps Ep]; [rewrite Estrip; discriminate|].
  exists ps, tail. split; [exact Ep|]. split; [exact Estrip|].
  repeat split; try assumption. now rewrite Estrip.
Qed.

(* the first top-level child is the MSH segment holding exactly these texts *)
Definition msh_head_ec (e : ec) (kids : list node) : Prop :=
  exists a rest, kids = NSeg a :: rest /\ s_name a = unbs "MSH" /\
    field_value a (unbs "MSH_1") = Some [fsep e] /\ field_value a (unbs "MSH_2") = Some (msh2_text e).

Lemma message_ec_exact v e m : msh_head_ec e (m_children m) -> message_ec v m = Ok (norm_ec v e).
Proof.
  intros (a & rest & Ek & Hn & V1 & V2). unfold message_ec. rewrite Ek. cbn [first_msh].
  rewrite Hn. change (streqb (unbs "MSH") (unbs "MSH")) with true. cbv iota. rewrite V1, V2.
  unfold msh2_text, norm_ec. destruct e as [f c r x s [tr|]]; cbn [csep rsep esc ssep tsep fsep length Nat.eqb].
  - rewrite andb_true_r. destruct (ge_27 v); reflexivity.
  - rewrite andb_false_r. destruct (ge_27 v); reflexivity.
Qed.

Lemma msg_header_exact v e m : msh_head_ec e (m_children m) ->
  exists hm, msg_header_of v m = Some hm /\ m_version hm = v /\
             msg_encoding_chars hm = Ok (ecd_of_ec (norm_ec v e)).
Proof.
  intros (a & rest & Ek & Hn & V1 & V2). unfold msg_header_of. rewrite Ek. cbn [first_msh].
  rewrite Hn. change (streqb (unbs "MSH") (unbs "MSH")) with true. cbv iota. rewrite V1, V2.
  eexists. split; [reflexivity|]. split; [reflexivity|].
  unfold msg_encoding_chars. cbn [m_version m_msh1 m_msh2].
  unfold msh2_text, norm_ec, MsgEc.get_encoding_chars, ecd_of_ec.
  destruct e as [f c r x s [tr|]]; cbn [csep rsep esc ssep tsep fsep length Nat.eqb sindex nth_error bind].
  - rewrite andb_true_r. destruct (ge_27 v); reflexivity.
  - rewrite andb_false_r. destruct (ge_27 v); reflexivity.
Qed.

Section MshKidsEc.
Variable t : tables.
Variable lvl : level.
Variable e : ec.
Variable leaf : option str -> str -> result str.
Hypothesis Hsegs : forall n r, length n <= 3 -> slookup n (t_segments t) = Some r -> seg_good t n r.
Variable srows : list srow.
Variables row1 row2 : srow.
Variables inf1 inf2 : info.
Hypothesis Hl : slookup (unbs "MSH") (t_segments t) = Some (SSeqIn false srows None).
Hypothesis Hn1 : nth_error srows 0 = Some row1.
Hypothesis Hn2 : nth_error srows 1 = Some row2.
Hypothesis Hr1 : row_ref t row1 = Some (SLeaf inf1).
Hypothesis Hr2 : row_ref t row2 = Some (SLeaf inf2).
Variable text : str.
Variables (ps : list str) (tail : str).
Hypothesis Ep : pieces text = strip (first_line text) :: ps.
Hypothesis Estrip : strip (first_line text) = unbs "MSH" ++ fsep e :: msh2_text e ++ tail.
Hypothesis Htail : tail = [] \/ exists r, tail = fsep e :: r.
Hypothesis Hns : nosep beqb (fsep e) (msh2_text e) = true.
Hypothesis Hfs : is_space (fsep e) = false.
Hypothesis Hsp : existsb is_space (msh2_text e) = false.
Hypothesis Htake : take 3 (strip (first_line text)) = unbs "MSH".

Lemma flat_msh_head_ec kids : parse_segments_flat t lvl e leaf text = Ok kids -> msh_head_ec e kids.
Proof.
  unfold parse_segments_flat. rewrite Ep. cbn [parse_flat]. intros H.
  apply bind_ok in H. destruct H as (a & Ha & H). apply bind_ok in H. destruct H as (xs & _ & H). injection H as <-.
  destruct (seg_of_piece_msh t lvl e leaf Hsegs srows row1 row2 inf1 inf2 Hl Hn1 Hn2 Hr1 Hr2 text (msh2_text e) tail
              Estrip Htail Hns Hfs Hsp (msh2_text_length e) None a) as (N & V1 & V2); [discriminate|exact Ha|].
  exists a, xs. auto.
Qed.

Lemma grouped_msh_head_ec root kids : gref t root -> msh_top_ok t root = true ->
  parse_segments_grouped t lvl e leaf root text = Ok kids -> msh_head_ec e kids.
Proof.
  intros Hg Htop H. unfold parse_segments_grouped, parse_segments_grouped_trees, find_groups in H.
  apply bind_ok in H. destruct H as (f & Hf & H). injection H as <-.
  apply bind_ok in Hf. destruct Hf as (s & Hrun & Hf). injection Hf as <-.
  rewrite Ep in Hrun. cbn [Groups.run] in Hrun. apply bind_ok in Hrun. destruct Hrun as (s1 & Hs1 & Hrun).
  destruct (first_step_leaf' t str seg (take 3) (seg_of_piece t lvl e leaf) s_name (group_acceptance t lvl) root
              (strip (first_line text)) s1) as (a & r & Ef & Em & Hr); [|exact Hs1|].
  { rewrite Htake. unfold msh_top_ok in Htop. destruct (search t search_fuel (unbs "MSH") root) as [[[sr [|? ?]]|]|]; (exact I || discriminate). }
  assert (Hh : Proofs.RoundTripMsg.hd_leaf seg a r (g_forest s1)) by (exists []; exact Ef).
  pose proof (Proofs.RoundTripMsg.run_hd t str seg (take 3) (seg_of_piece t lvl e leaf) s_name (group_acceptance t lvl)
                root a r ps s1 s Hh Hrun) as [rest Erest].
  destruct (seg_of_piece_msh t lvl e leaf Hsegs srows row1 row2 inf1 inf2 Hl Hn1 Hn2 Hr1 Hr2 text (msh2_text e) tail
              Estrip Htail Hns Hfs Hsp (msh2_text_length e) r a) as (N & V1 & V2); [|exact Em|].
  { intros sr Esr. specialize (Hr sr Esr). rewrite Htake in Hr.
    destruct (search_sound _ _ _ _ _ _ Hr) as [_ Hd]. cbn in Hd.
    exact (gref_seg t root _ sr Hg Hd (search_not_bad _ _ _ _ _ _ Hr)). }
  rewrite Erest. cbn [map node_of]. exists a, (map node_of rest). auto.
Qed.
End MshKidsEc.

(* what parse_message returns, taken apart *)
Lemma parse_message_parts dflt lvl fg text t m :
  parse_message tables_of dflt lvl fg text = Ok (t, m) ->
  exists e structure version v m0 kids,
    get_message_info (lstrip text) = Ok (e, structure, version) /\
    v = match version with Some v => v | None => dflt end /\ tables_of v = Some t /\
    (Message.new_message lvl t e structure = Ok m0 \/ Message.new_message lvl t e None = Ok m0) /\
    m = mk_message (m_name m0) (m_st m0) kids /\ m_children m0 = [] /\
    (parse_segments_flat t lvl e (leaf_enc v lvl e) (lstrip text) = Ok kids \/
     exists st, m_st m0 = Some st /\ fg = true /\
       parse_segments_grouped t lvl e (leaf_enc v lvl e) (st_reference st) (lstrip text) = Ok kids).
Proof.
  unfold parse_message. intros H.
  apply bind_ok in H. destruct H as ([[e structure] version] & Hinfo & H).
  set (v := match version with Some v => v | None => dflt end) in *.
  destruct (tables_of v) as [t0|] eqn:Ht; [|discriminate]. cbn [bind] in H.
  apply bind_ok in H. destruct H as (m0 & Em & H).
  apply bind_ok in H. destruct H as (kids & Ek & H).
  apply bind_ok in H. destruct H as (m' & Ea & H). injection H as <- <-.
  exists e, structure, version, v, m0, kids.
  split; [exact Hinfo|]. split; [reflexivity|]. split; [exact Ht|].
  assert (Em' : Message.new_message lvl t0 e structure = Ok m0 \/ Message.new_message lvl t0 e None = Ok m0)
    by exact (fallback_ok (fun _ => Message.new_message lvl t0 e structure) _ _ Em).
  split; [exact Em'|].
  assert (Em0 : m_children m0 = []).
  { destruct Em' as [E0|E0]; exact (Proofs.RoundTripMsg.new_message_children lvl t0 e _ m0 E0). }
  apply Proofs.RoundTripMsg.add_all_full in Ea. rewrite Em0 in Ea. cbn [app] in Ea.
  split; [exact Ea|]. split; [exact Em0|].
  destruct (m_st m0) as [st|] eqn:Est; [|now left]. destruct fg; [|now left].
  destruct (parse_segments_grouped t0 lvl e (leaf_enc v lvl e) (st_reference st) (lstrip text))
    as [ks|[c| |[]|]] eqn:Eg; try discriminate Ek; try (now left).
  injection Ek as <-. right. exists st. auto.
Qed.

Lemma parse_message_msh_head dflt lvl fg text t m e structure version :
  parse_message tables_of dflt lvl fg text = Ok (t, m) ->
  get_message_info (lstrip text) = Ok (e, structure, version) ->
  msh_head_ec e (m_children m).
Proof.
  intros H Hinfo.
  destruct (parse_message_parts _ _ _ _ _ _ H) as (e' & st' & ver' & v & m0 & kids & Hinfo' & Ev & Ht & Em & -> & Em0 & Hk).
  rewrite Hinfo in Hinfo'. injection Hinfo' as <- <- <-. cbn [m_children].
  destruct (shipped_premises v t Ht) as [H1 [H2 [H3 H4]]].
  pose proof (lookup_forallb (fun _ x => grp_tables_ok x) all_tables v t all_grp_tables_ok Ht) as H6.
  cbv beta in H6.
  pose proof (lookup_forallb (fun _ x => forallb (fun q : str * sref => msh_top_ok x (snd q)) (t_messages x))
                all_tables v t all_msh_top_ok Ht) as H8. cbv beta in H8.
  destruct (Proofs.RoundTripSegTables.shipped_msh_ok v t Ht)
    as (srows & row1 & row2 & inf1 & inf2 & Hl & _ & _ & Hn1 & Hn2 & Hr1 & Hr2 & _).
  destruct (first_piece_msh_ec _ _ _ _ Hinfo) as (ps & tail & Ep & Estrip & Htail & Hns & Hfs & Hsp & Htake).
  destruct Hk as [Hk|(st & Est & _ & Hk)].
  - exact (flat_msh_head_ec t lvl e (leaf_enc v lvl e) H4 srows row1 row2 inf1 inf2 Hl Hn1 Hn2 Hr1 Hr2 (lstrip text)
             ps tail Ep Estrip Htail Hns Hfs Hsp kids Hk).
  - assert (Hroot : st_reference st = empty_seq \/ exists k, In (k, st_reference st) (t_messages t)).
    { destruct Em as [E0|E0]; exact (Proofs.RoundTripMsgTables.new_message_root t lvl e _ m0 st E0 Est). }
    destruct (root_gref t _ H6 Hroot) as [Hg Hd].
    exact (grouped_msh_head_ec t lvl e (leaf_enc v lvl e) H4 srows row1 row2 inf1 inf2 Hl Hn1 Hn2 Hr1 Hr2 (lstrip text)
             ps tail Ep Estrip Htail Hns Hfs Hsp Htake _ kids Hg (root_msh_top t _ H8 Hroot) Hk).
Qed.

(* Message._get_encoding_chars of the parsed message = the set of the text (TRUNCATION from v2.7 on) *)
Theorem parse_message_ec dflt lvl fg text t m e structure version :
  parse_message tables_of dflt lvl fg text = Ok (t, m) ->
  get_message_info (lstrip text) = Ok (e, structure, version) ->
  message_ec (t_version t) m = Ok (norm_ec (t_version t) e).
Proof. intros H Hi. apply message_ec_exact. exact (parse_message_msh_head _ _ _ _ _ _ _ _ _ H Hi). Qed.

Theorem parse_message_enc_own dflt lvl fg text t m e structure version :
  parse_message tables_of dflt lvl fg text = Ok (t, m) ->
  get_message_info (lstrip text) = Ok (e, structure, version) ->
  enc_message t lvl m = enc_children t lvl (norm_ec (t_version t) e) (m_st m) (m_children m).
Proof. intros H Hi. unfold enc_message. now rewrite (parse_message_ec _ _ _ _ _ _ _ _ _ H Hi). Qed.

(* the version of the tables is the header's, or the default when the header has none *)
Lemma parse_message_version dflt lvl fg text t m :
  parse_message tables_of dflt lvl fg text = Ok (t, m) ->
  t_version t = match header_version text with Some v => v | None => dflt end.
Proof.
  intros H. destruct (parse_message_parts _ _ _ _ _ _ H) as (e & st & ver & v & m0 & kids & Hinfo & Ev & Ht & _).
  unfold header_version, header_info. rewrite Hinfo. rewrite <- Ev. exact (tables_of_version v t Ht).
Qed.

(* ------------------------------------------------------------------ *)
(* (d) datatype_factory *)
Lemma api_datatype_factory_explicit c1 c2 dt e s v l :
  api_datatype_factory c1 dt e s (Some v) (Some l) = api_datatype_factory c2 dt e s (Some v) (Some l).
Proof. reflexivity. Qed.
Lemma api_datatype_factory_default_level c dt e s v :
  api_datatype_factory c dt e s v None = api_datatype_factory c dt e s v (Some (d_level c)).
Proof. reflexivity. Qed.
Lemma api_datatype_factory_default_version c dt e s l :
  api_datatype_factory c dt e s None l = api_datatype_factory c dt e s (Some (d_version c)) l.
Proof. reflexivity. Qed.
