(* The vertical slice that needs no segment-table facts: Z-segments.
   A segment named Z?? has the empty structure and accepts any number of fields.  Its fields are
   called Z??_i; when both ?? are letters or 1-9 they are ST fields (Field.__init__ accepts the
   name through the z-field regex), otherwise parse_field falls back to a `varies` field whose
   components are VARIES_1 .. VARIES_m.  In both cases every component and subcomponent is
   materialised, so parse then encode is the identity on every canonical line. *)
From Coq Require Import List Bool Arith ZArith NArith Lia Init.Byte.
From HL7 Require Import Lib.Str Model.Ec Model.Result Model.Ref Model.Tree Model.Parser Model.Encode.
From HL7 Require Import Proofs.SplitJoin Proofs.LevelCodec Proofs.RoundTripStr Proofs.RoundTripCore Proofs.RoundTripVT.
Import ListNotations.
Open Scope bs_scope.
Open Scope res_scope.

Definition ST : str := unbs "ST".

(* the structures the parser builds on the way *)
Definition zst : structure := mk_structure empty_seq (Some []) [] [] [] None.
Definition st_leaf (d : str) : structure :=
  let i := mk_info (Some d) None None (-1) in mk_structure (SLeaf i) None [] [] [] (Some i).
Definition st_var : structure :=
  mk_structure varies_leaf None [] [] [] (Some (mk_info (Some (unbs "varies")) None None (-1))).

Lemma digits_then_end_digits r : forallb is_digit r = true -> digits_then_end r = true.
Proof.
  induction r as [|c r IH]; [reflexivity|]. cbn [forallb]. intros H.
  apply andb_prop in H. destruct H as [Hc Hr]. cbn [digits_then_end].
  destruct r; [now rewrite Hc|]. now rewrite Hc, IH.
Qed.

Lemma Forall2_map_r {A B} (R : A -> B -> Prop) (f : A -> B) l :
  (forall x, In x l -> R x (f x)) -> Forall2 R l (map f l).
Proof.
  induction l as [|x l IH]; intros H; [constructor|]. cbn [map]. constructor.
  - apply H. now left.
  - apply IH. intros y Hy. apply H. now right.
Qed.

Lemma combine_seq_app {A} (l : list A) x : forall a,
  combine (seq a (length (l ++ [x]))) (l ++ [x]) = combine (seq a (length l)) l ++ [(a + length l, x)].
Proof.
  induction l as [|y l IH]; intros a.
  - cbn. now rewrite Nat.add_0_r.
  - cbn [app length seq combine]. rewrite IH. cbn [app]. replace (S a + length l) with (a + S (length l)) by lia. reflexivity.
Qed.

Lemma indexed_app {A} (l : list A) x : indexed (l ++ [x]) = indexed l ++ [(S (length l), x)].
Proof. unfold indexed. now rewrite combine_seq_app. Qed.

Section Z.
Variable t : tables.
Variable e : ec.
Variable leaf : option str -> str -> result str.

Hypothesis Hst : base t (Some ST) = true.
Hypothesis Hvar : base t (Some (unbs "varies")) = false.

(* the segment name: Z + two more characters, upper case *)
Variables a b : byte.
Definition zname : str := ["Z"%byte; a; b].
Hypothesis Hup : upper zname = zname.
(* no field of the version's table is called Z??_i *)
Hypothesis Hnf : forall i, slookup (name_idx zname i) (t_fields t) = None.

Definition zfn (i : nat) : str := name_idx zname i.

Lemma zfn_upper i : upper (zfn i) = zfn i.
Proof. unfold zfn. now rewrite name_idx_upper, Hup. Qed.

Lemma zname_valid : valid_z_segment_name zname = true.
Proof. unfold valid_z_segment_name. rewrite Hup. reflexivity. Qed.

Lemma zname_not_msh : streqb zname (unbs "MSH") = false.
Proof. reflexivity. Qed.

Lemma z_no_msh : no_msh zname.
Proof. apply no_msh_of. fold zname. rewrite Hup. discriminate. Qed.

Lemma zfn_not_msh12 i : not_msh12 (zfn i).
Proof. reflexivity. Qed.

Lemma zfn_is_msh12 i : is_msh12 (Some (zfn i)) = false.
Proof. unfold is_msh12. cbn [option_map]. rewrite zfn_upper. reflexivity. Qed.

(* --- Segment('Z??') --- *)
Definition zseg0 : seg := mk_seg zname zst true 0 0 [].

Lemma mk_segment_z : mk_segment t zname None = Ok zseg0.
Proof. unfold mk_segment. rewrite zname_valid, Hup. reflexivity. Qed.

(* --- Field('Z??_i') : which of the two paths --- *)
Definition st_path : bool := az19 a && az19 b.

Lemma valid_z_field_name_zfn i : valid_z_field_name (zfn i) = st_path.
Proof.
  unfold zfn, name_idx, zname. pose proof (nat_to_str_ne i) as Hne. pose proof (nat_to_str_digits i) as Hd.
  destruct (nat_to_str i) as [|d r]; [congruence|].
  cbn [forallb] in Hd. apply andb_prop in Hd. destruct Hd as [Hd Hr].
  cbn [unbs app valid_z_field_name]. rewrite Hd, (digits_then_end_digits r Hr).
  unfold st_path. cbn. now rewrite !andb_true_r.
Qed.

Lemma structure_for_zfn i : structure_for t FIE (zfn i) None = Err (HL7 EInvalidName).
Proof. unfold structure_for, load_reference. cbn [table_of]. unfold zfn. now rewrite Hnf. Qed.

Lemma field_ctor_z_st i : st_path = true ->
  field_ctor t (Some (zfn i)) None true = Ok (mk_field_rec (Some (zfn i)) (Some ST) (Some (st_leaf ST)) []).
Proof.
  intros Hp. unfold field_ctor, mk_field. cbn [is_strict andb]. rewrite is_varies_none. cbn [andb].
  rewrite zfn_upper, structure_for_zfn, valid_z_field_name_zfn, Hp.
  change (Some (unbs "ST")) with (Some ST). rewrite Hst.
  cbn [parse_structure view_of bind st_dt st_info i_dt]. cbn [andb negb].
  unfold set_datatype_ctor. cbn [is_strict andb]. rewrite Hst. cbn [negb andb]. reflexivity.
Qed.

Lemma field_ctor_z_var i : st_path = false ->
  field_ctor t (Some (zfn i)) None true =
  Ok (mk_field_rec (Some (zfn i)) (Some (unbs "varies")) (Some st_var) []).
Proof.
  intros Hp. unfold field_ctor. unfold mk_field at 1. cbn [is_strict andb]. rewrite is_varies_none. cbn [andb].
  rewrite zfn_upper, structure_for_zfn, valid_z_field_name_zfn, Hp. cbn [bind].
  unfold mk_field. cbn [is_strict andb]. rewrite is_varies_none. cbn [andb].
  rewrite zfn_upper. reflexivity.
Qed.

(* the field object parsed from one repetition text *)
Definition zf (n : str) (r : str) : field :=
  if st_path then base_field e n ST (Some (st_leaf ST)) r else var_field e n (Some st_var) r.

Definition rep_fix (r : str) : Prop := comps_fix e leaf ST r.

Lemma st_not_varies : is_varies (Some ST) = false.
Proof. reflexivity. Qed.

Lemma parse_field_z i r : rep_fix r ->
  parse_field t TOLERANT e leaf r (Some (zfn i)) None true = Ok (zf (zfn i) r).
Proof.
  intros Hr. unfold zf. destruct st_path eqn:Hp.
  - apply parse_field_base; auto using field_ctor_z_st, zfn_is_msh12, st_not_varies.
  - apply parse_field_varies; auto using field_ctor_z_var, zfn_is_msh12.
Qed.

Lemma zf_name n r : f_name (zf n r) = Some n.
Proof. unfold zf. now destruct st_path. Qed.

Lemma enc_field_z i r : enc_field t e (zf (zfn i) r) = Ok r.
Proof.
  unfold zf. destruct st_path.
  - apply enc_field_base; auto using zfn_not_msh12, st_not_varies.
  - apply enc_field_varies, zfn_not_msh12.
Qed.

(* ------------------------------------------------------------------ *)
(* the whole segment, on field texts                                    *)

Hypothesis Hec : ec_ok e.

Definition field_fix (f : str) : Prop := Forall rep_fix (bsplit (rsep e) f).

(* a canonical field text: empty or not blank, no field separator, no CR, leaves fixed by the
   leaf encoder *)
Definition zfield_ok (f : str) : Prop :=
  (f = [] \/ is_blank f = false) /\ bmem (fsep e) f = false /\ bmem CR f = false /\ field_fix f.

Definition zgroup (i : nat) (f : str) : list field :=
  if is_blank f then [] else map (zf (zfn i)) (bsplit (rsep e) f).
Definition zgroups_from (a : nat) (fs : list str) : list (list field) :=
  map (fun p => zgroup (fst p) (snd p)) (combine (seq a (length fs)) fs).
Definition zgroups (fs : list str) : list (list field) := zgroups_from 1 fs.
Definition zseg (fs : list str) : seg :=
  mk_seg zname zst true 0 (last_idx true 1 (zgroups fs) 0) (concat (zgroups fs)).

Lemma Forall2_map_l {A B} (R : B -> A -> Prop) (f : A -> B) l :
  (forall x, In x l -> R (f x) x) -> Forall2 R (map f l) l.
Proof.
  induction l as [|x l IH]; intros H; [constructor|]. cbn [map]. constructor.
  - apply H. now left.
  - apply IH. intros y Hy. apply H. now right.
Qed.

Lemma zgroup_field_group i f : zfield_ok f ->
  field_group t e leaf zname (Some zst) true i f (zgroup i f).
Proof.
  intros [_ [_ [_ Hf]]]. unfold field_group, zgroup. destruct (is_blank f); [now left|right].
  split; [reflexivity|]. change (if has_map (Some zst) then ref_in (Some zst) (name_idx zname i) else None)
    with (@None sref).
  apply parse_reps_all. apply Forall2_map_r. intros r Hr. apply parse_field_z.
  unfold field_fix in Hf. rewrite Forall_forall in Hf. now apply Hf.
Qed.

Lemma zgroup_enc i f : zfield_ok f -> group_enc t e f (zgroup i f).
Proof.
  intros [Hb _]. unfold group_enc, zgroup. destruct (is_blank f) eqn:B.
  - left. destruct Hb as [->|Hb]; [auto|congruence].
  - right. split.
    + intros H. apply map_eq_nil in H. exact (bsplit_ne _ _ H).
    + exists (bsplit (rsep e) f). split; [|apply bjoin_bsplit].
      apply enc_reps_all. apply Forall2_map_l. intros r _. apply enc_field_z.
Qed.

Lemma zgroups_named : forall fs a, groups_named zname a (zgroups_from a fs).
Proof.
  induction fs as [|f fs IH]; intros a0; [exact I|].
  unfold zgroups_from. cbn [length seq combine map fst snd groups_named]. split; [|apply IH].
  intros x Hx. unfold zgroup in Hx. destruct (is_blank f); [destruct Hx|].
  apply in_map_iff in Hx. destruct Hx as [r [<- _]]. apply zf_name.
Qed.

Lemma zgroups_field_groups fs : Forall zfield_ok fs ->
  Forall2 (fun p g => field_group t e leaf zname (Some zst) true (fst p) (snd p) g) (indexed fs) (zgroups fs).
Proof.
  intros H. unfold zgroups, zgroups_from. fold (indexed fs). apply Forall2_map_r.
  intros [i f] Hp. cbn [fst snd]. apply zgroup_field_group.
  rewrite Forall_forall in H. apply H.
  apply (in_map snd) in Hp. now rewrite indexed_snd in Hp.
Qed.

Lemma zgroups_enc : forall fs a, Forall zfield_ok fs -> Forall2 (group_enc t e) fs (zgroups_from a fs).
Proof.
  induction fs as [|f fs IH]; intros a0 H; [constructor|].
  inversion H as [|? ? Hf Hfs]; subst.
  unfold zgroups_from. cbn [length seq combine map fst snd]. constructor; [now apply zgroup_enc|].
  now apply IH.
Qed.

Lemma zgroups_length fs : length (zgroups fs) = length fs.
Proof. unfold zgroups, zgroups_from. rewrite map_length, combine_length, seq_length. lia. Qed.

(* the text of the line *)
Lemma bjoin_name fs : bjoin (fsep e) (zname :: fs) =
  zname ++ match fs with [] => [] | _ => fsep e :: bjoin (fsep e) fs end.
Proof. destruct fs; [cbn [bjoin join]; now rewrite app_nil_r|reflexivity]. Qed.

Lemma ec_ok_not_cr c : In c [fsep e; csep e; rsep e; ssep e; esc e] -> CR <> c.
Proof. intros H E. destruct Hec as [_ Hs]. specialize (Hs c H). subst c. discriminate. Qed.

Lemma z_rest_no_cr fs : Forall zfield_ok fs -> bmem CR (bjoin (fsep e) fs) = false.
Proof.
  intros H. apply bmem_bjoin.
  - apply ec_ok_not_cr. now left.
  - eapply Forall_impl; [|exact H]. intros f [_ [_ [Hc _]]]. exact Hc.
Qed.

Lemma z_split_fields fs : Forall zfield_ok fs ->
  bsplit (fsep e) (bjoin (fsep e) fs) = match fs with [] => [[]] | _ => fs end.
Proof.
  intros H. apply bsplit_bjoin'. rewrite forallb_forall. intros f Hf.
  rewrite Forall_forall in H. destruct (H f Hf) as [_ [Hs _]]. now apply nosep_of_bmem.
Qed.

Lemma z_seg_name fs : seg_name_of (bjoin (fsep e) (zname :: fs)) = zname.
Proof. rewrite bjoin_name. unfold seg_name_of. change 3 with (length zname). apply take_app. Qed.

Lemma z_seg_rest fs : seg_rest_of (bjoin (fsep e) (zname :: fs)) = bjoin (fsep e) fs.
Proof.
  unfold seg_rest_of. fold (seg_name_of (bjoin (fsep e) (zname :: fs))). rewrite z_seg_name, Hup, zname_not_msh.
  rewrite bjoin_name. destruct fs; reflexivity.
Qed.

Theorem parse_segment_z fs : no_trail fs -> Forall zfield_ok fs ->
  parse_segment t TOLERANT e leaf (bjoin (fsep e) (zname :: fs)) None = Ok (zseg fs).
Proof.
  intros Ht Hf. unfold parse_segment. rewrite z_seg_name, mk_segment_z. cbn [bind].
  unfold parse_segment_in. rewrite z_seg_name, z_seg_rest. cbn [zseg0 s_st s_inf].
  unfold parse_fields. rewrite (strip_cr_none _ (z_rest_no_cr fs Hf)), (z_split_fields fs Hf).
  destruct fs as [|f fs].
  - cbn. reflexivity.
  - erewrite parse_fields_aux_groups; [|exact z_no_msh|exact (zgroups_field_groups _ Hf)].
    cbn [bind]. unfold zseg0.
    rewrite (add_fields_groups t zname zst true 0 (zgroups (f :: fs)) 1 0 []); auto.
    apply zgroups_named.
Qed.

Theorem enc_segment_z fs : no_trail fs -> Forall zfield_ok fs ->
  enc_segment t e (zseg fs) false = Ok (bjoin (fsep e) (zname :: fs)).
Proof.
  intros Ht Hf. unfold zseg.
  apply (enc_segment_groups t e zname zst true 0 _ (zgroups fs) fs); auto.
  - lia.
  - (* the last index reaches the number of fields, because the last field is not empty *)
    destruct (no_trail_cases fs Ht) as [->|[fs' [x [-> Hx]]]]; [cbn; lia|].
    unfold zgroups, zgroups_from. rewrite combine_seq_app, map_app. cbn [map fst snd].
    rewrite app_length. cbn [length].
    assert (G : zgroup (1 + length fs') x <> []).
    { apply Forall_app in Hf. destruct Hf as [_ Hx']. inversion Hx' as [|? ? [Hb _] _]; subst.
      unfold zgroup. destruct Hb as [->|Hb]; [congruence|]. rewrite Hb.
      intros H. apply map_eq_nil in H. exact (bsplit_ne _ _ H). }
    pose proof (last_idx_reaches (map (fun p => zgroup (fst p) (snd p)) (combine (seq 1 (length fs')) fs'))
                  1 0%N _ G) as L.
    rewrite map_length, combine_length, seq_length, Nat.min_id in L.
    rewrite map_length, combine_length, seq_length, Nat.min_id. unfold str in *. lia.
  - apply zgroups_named.
  - now apply zgroups_enc.
Qed.

(* ------------------------------------------------------------------ *)
(* position: one leaf at field index i = S k                            *)

Lemma bjoin_position (c : byte) k : forall n x,
  bjoin c (n :: repeat [] k ++ [x]) = n ++ repeat c (S k) ++ x.
Proof.
  induction k as [|k IH]; intros n x; [reflexivity|].
  change (n :: repeat [] (S k) ++ [x]) with (n :: [] :: repeat [] k ++ [x]).
  change (bjoin c (n :: [] :: repeat [] k ++ [x])) with (n ++ c :: bjoin c ([] :: repeat [] k ++ [x])).
  rewrite IH. reflexivity.
Qed.

Lemma zfield_ok_nil : zfield_ok [].
Proof.
  repeat split; auto. unfold field_fix. cbn. constructor; [|constructor].
  unfold rep_fix, comps_fix. cbn. constructor; [|constructor].
  unfold subs_fix. cbn. constructor; [now left|constructor].
Qed.

Lemma leaf_splits x : delim_free e x ->
  bsplit (rsep e) x = [x] /\ bsplit (csep e) x = [x] /\ bsplit (ssep e) x = [x].
Proof. intros [_ [Hc [Hr [Hs _]]]]. repeat split; apply bsplit_nosep; now apply nosep_of_bmem. Qed.

Lemma zfield_ok_leaf x : is_blank x = false -> delim_free e x -> leaf_fix leaf ST x -> zfield_ok x.
Proof.
  intros Hb Hd Hl. destruct (leaf_splits x Hd) as [Sr [Sc Ss]]. destruct Hd as [Hf [_ [_ [_ Hcr]]]].
  repeat split; auto. unfold field_fix. rewrite Sr. constructor; [|constructor].
  unfold rep_fix, comps_fix. rewrite Sc. constructor; [|constructor].
  unfold subs_fix. rewrite Ss. constructor; [exact Hl|constructor].
Qed.

Lemma zgroups_from_empty k : forall a0, zgroups_from a0 (repeat [] k) = repeat [] k.
Proof.
  induction k as [|k IH]; intros a0; [reflexivity|].
  unfold zgroups_from in *. cbn [repeat length seq combine map fst snd]. rewrite IH. reflexivity.
Qed.

Lemma zgroups_position k x : is_blank x = false -> delim_free e x ->
  zgroups (repeat [] k ++ [x]) = repeat [] k ++ [[zf (zfn (S k)) x]].
Proof.
  intros Hb Hd. unfold zgroups, zgroups_from. rewrite combine_seq_app, map_app.
  fold (zgroups_from 1 (repeat [] k)). rewrite zgroups_from_empty. f_equal.
  cbn [map fst snd]. rewrite repeat_length. unfold zgroup. rewrite Hb.
  destruct (leaf_splits x Hd) as [-> _]. reflexivity.
Qed.

Lemma concat_repeat_nil {A} k (l : list (list A)) : concat (repeat [] k ++ l) = concat l.
Proof. induction k as [|k IH]; [reflexivity|]. cbn [repeat app concat]. exact IH. Qed.

Lemma zf_leaf n x : delim_free e x ->
  exists c, f_children (zf n x) = [c] /\ c_children c = [st_sub ST x].
Proof.
  intros Hd. destruct (leaf_splits x Hd) as [_ [Sc Ss]]. unfold zf. destruct st_path.
  - unfold base_field. cbv zeta. rewrite Sc. cbn [map f_children].
    exists (unnamed_comp e ST x). split; [reflexivity|]. unfold unnamed_comp. cbv zeta. now rewrite Ss.
  - unfold var_field. rewrite Sc. cbn [indexed length seq combine vkids map fst snd f_children].
    exists (varies_comp e 1 x). split; [reflexivity|]. unfold varies_comp. now rewrite Ss.
Qed.

Theorem z_position k x : is_blank x = false -> delim_free e x -> leaf_fix leaf ST x ->
  let text := zname ++ repeat (fsep e) (S k) ++ x in
  exists s f c sb,
    parse_segment t TOLERANT e leaf text None = Ok s /\
    s_children s = [f] /\ f_name f = Some (zfn (S k)) /\ f_children f = [c] /\
    c_children c = [sb] /\ sc_value sb = x /\
    enc_segment t e s false = Ok text.
Proof.
  intros Hb Hd Hl text.
  assert (Ht : no_trail (repeat [] k ++ [x])) by (apply no_trail_last, not_blank_ne, Hb).
  assert (Hf : Forall zfield_ok (repeat [] k ++ [x])).
  { apply Forall_app. split.
    - rewrite Forall_forall. intros y Hy. apply repeat_spec in Hy. subst. apply zfield_ok_nil.
    - constructor; [now apply zfield_ok_leaf|constructor]. }
  assert (E : text = bjoin (fsep e) (zname :: repeat [] k ++ [x])) by (subst text; now rewrite bjoin_position).
  destruct (zf_leaf (zfn (S k)) x Hd) as [c [Hc Hs]].
  exists (zseg (repeat [] k ++ [x])), (zf (zfn (S k)) x), c, (st_sub ST x).
  rewrite E. split; [now apply parse_segment_z|].
  split. { unfold zseg. cbn [s_children]. rewrite zgroups_position by auto. now rewrite concat_repeat_nil. }
  split; [apply zf_name|]. split; [exact Hc|]. split; [exact Hs|]. split; [reflexivity|].
  now apply enc_segment_z.
Qed.

(* ------------------------------------------------------------------ *)
(* the whole segment, on canonical value trees                          *)

Notation PZ := (leaf_fix leaf ST).

Lemma subs_fix_nil : subs_fix e leaf ST [].
Proof. unfold subs_fix. cbn. constructor; [now left|constructor]. Qed.
Lemma rep_fix_nil : rep_fix [].
Proof. unfold rep_fix, comps_fix. cbn. constructor; [apply subs_fix_nil|constructor]. Qed.

Lemma subs_fix_render c : canon_comp e PZ c -> subs_fix e leaf ST (render_comp e c).
Proof.
  intros Hc. unfold subs_fix. rewrite (split_comp e PZ c Hc).
  apply Forall_or_one; [now left|]. destruct Hc as [_ Hl].
  eapply Forall_impl; [|exact Hl]. intros s [_ [->|[_ H]]]; [now left|exact H].
Qed.

Lemma rep_fix_render r : canon_rep e PZ r -> rep_fix (render_rep e r).
Proof.
  intros Hr. unfold rep_fix, comps_fix. rewrite (split_rep e Hec PZ r Hr).
  apply Forall_or_one; [apply subs_fix_nil|]. destruct Hr as [_ Hl].
  rewrite Forall_map. eapply Forall_impl; [|exact Hl]. intros c Hc. now apply subs_fix_render.
Qed.

Lemma zfield_ok_render f : canon_field e PZ f -> zfield_ok (render_field e f).
Proof.
  intros Hf. split; [|split; [|split]].
  - destruct f as [|r f]; [now left|right]. apply (field_nonblank e PZ); [exact Hf|discriminate].
  - now apply (field_no_fsep e Hec PZ).
  - now apply (field_no_cr e Hec PZ).
  - unfold field_fix. rewrite (split_field e Hec PZ f Hf).
    apply Forall_or_one; [apply rep_fix_nil|]. destruct Hf as [_ Hl].
    rewrite Forall_map. eapply Forall_impl; [|exact Hl]. intros r Hr. now apply rep_fix_render.
Qed.

Theorem z_roundtrip_vt (vt : list vfield) : canon_fields e PZ vt ->
  parse_segment t TOLERANT e leaf (render_seg e zname vt) None = Ok (zseg (map (render_field e) vt)) /\
  enc_segment t e (zseg (map (render_field e) vt)) false = Ok (render_seg e zname vt).
Proof.
  intros Hc.
  assert (Ht : no_trail (map (render_field e) vt)) by now apply (fields_no_trail e PZ).
  assert (Hf : Forall zfield_ok (map (render_field e) vt)).
  { destruct Hc as [_ Hl]. rewrite Forall_map. eapply Forall_impl; [|exact Hl].
    intros f. apply zfield_ok_render. }
  unfold render_seg. split; [now apply parse_segment_z|now apply enc_segment_z].
Qed.

End Z.
