(* The table premises of Proofs/StrictEnforces.v hold for every shipped version, hence C05's
   "STRICT-accepted => only missing-required errors" at segment level for the shipped tables; and the
   two side conditions cannot be dropped (computed witnesses, both tested on hl7apy). *)
From Coq Require Import List Bool Arith ZArith NArith Lia Init.Byte.
From HL7 Require Import Lib.Str Model.Ec Model.Result Model.Ref Model.Tree Model.Parser Model.Encode
     Model.Leaf Model.MsgTree Model.Validate Model.Wf.
From HL7 Require Import Gen.Params Gen.Tables.
From HL7 Require Import Proofs.RoundTripStr Proofs.RoundTripCore Proofs.RoundTripSeg Proofs.RoundTripTables
     Proofs.RoundTripSegTables Proofs.NoCrash Proofs.ValidateTotal Proofs.ValidateTotalTables Proofs.StrictEnforces.
Import ListNotations.
Open Scope bs_scope.

Section Checks.
Variable t : tables.

Definition inline_okb (bad : list str) (r : srow) : bool :=
  match r with SIn _ _ x _ mx => dt_not_bad bad x && Z.eqb mx 0 | _ => true end.
Definition se_tables_ok : bool :=
  let bad := bad_comp_structs t in
  forallb (fun q : str * list srow => negb (bstarts (unbs "VARIES") (fst q))) (t_structs t) &&
  forallb (fun q : str * sref => negb (opt_eqb (ref_dt (snd q)) (Some (fst q))) && dt_not_bad bad (snd q)) (t_fields t) &&
  forallb (fun q : str * sref => match snd q with
                                 | SSeqIn false rows None => forallb (inline_okb bad) rows
                                 | _ => true end) (t_segments t).

Hypothesis Hok : se_tables_ok = true.
Hypothesis Hnd : NoDup (map fst (t_structs t)).

Lemma se_parts :
  (forall q, In q (t_structs t) -> bstarts (unbs "VARIES") (fst q) = false) /\
  (forall q, In q (t_fields t) -> ref_dt (snd q) <> Some (fst q) /\ dt_not_bad (bad_comp_structs t) (snd q) = true) /\
  (forall q rows, In q (t_segments t) -> snd q = SSeqIn false rows None ->
     forall r, In r rows -> inline_okb (bad_comp_structs t) r = true).
Proof.
  pose proof Hok as K. unfold se_tables_ok in K. cbv zeta in K.
  apply andb_prop in K. destruct K as [K K3]. apply andb_prop in K. destruct K as [K1 K2].
  split; [|split].
  - intros q Hq. apply negb_true_iff. exact (proj1 (forallb_forall _ _) K1 q Hq).
  - intros q Hq. pose proof (proj1 (forallb_forall _ _) K2 q Hq) as H. apply andb_prop in H. destruct H as [H1 H2].
    split; [|exact H2]. apply negb_true_iff in H1. intros E. rewrite E, ValidateFacts.opt_eqb_refl in H1. discriminate.
  - intros q rows Hq Es r Hr. pose proof (proj1 (forallb_forall _ _) K3 q Hq) as H. cbv beta in H. rewrite Es in H.
    exact (proj1 (forallb_forall _ _) H r Hr).
Qed.

Lemma not_bad_nx r : dt_not_bad (bad_comp_structs t) r = true -> nx_ref t r.
Proof.
  intros H i d rows -> Hd Hl j Hj. cbn [dt_not_bad] in H. rewrite Hd in H. apply negb_true_iff in H.
  apply (struct_no_extra_sound t d rows j); [|exact Hj].
  destruct (struct_no_extra_comps t (d, rows)) eqn:Es; [reflexivity|exfalso].
  assert (Hb : smem d (bad_comp_structs t) = true); [|rewrite Hb in H; discriminate].
  unfold smem. apply existsb_exists. exists d. split; [|apply streqb_refl].
  unfold bad_comp_structs. apply (in_map fst _ (d, rows)). apply filter_In. split; [now apply slookup_in|now rewrite Es].
Qed.

Lemma se_nv d rows : slookup d (t_structs t) = Some rows -> bstarts (unbs "VARIES") d = false.
Proof. intros H. exact (proj1 se_parts (d, rows) (slookup_in _ _ _ H)). Qed.
Lemma se_nxF n r : slookup n (t_fields t) = Some r -> nx_ref t r.
Proof. intros H. apply not_bad_nx. exact (proj2 (proj1 (proj2 se_parts) (n, r) (slookup_in _ _ _ H))). Qed.
Lemma se_fu n r : slookup n (t_fields t) = Some r -> ref_dt r <> Some n.
Proof. intros H. exact (proj1 (proj1 (proj2 se_parts) (n, r) (slookup_in _ _ _ H))). Qed.
Lemma se_inline n rows : slookup n (t_segments t) = Some (SSeqIn false rows None) ->
  forall row k m r mn mx, In row rows -> row = SIn k m r mn mx -> nx_ref t r /\ mx = 0%Z.
Proof.
  intros H row k m r mn mx Hin ->.
  pose proof (proj2 (proj2 se_parts) (n, SSeqIn false rows None) rows (slookup_in _ _ _ H) eq_refl _ Hin) as K.
  cbn [inline_okb] in K. apply andb_prop in K. destruct K as [K1 K2]. split; [now apply not_bad_nx|now apply Z.eqb_eq].
Qed.
End Checks.

Lemma all_se_tables_ok : forallb (fun p => se_tables_ok (snd p)) all_tables = true.
Proof. vm_compute. reflexivity. Qed.

(* C05 at segment level, every shipped version *)
Theorem shipped_strict_enforces v t e leaf text s e' errs : tables_of v = Some t ->
  parse_segment t STRICT e leaf text None = Ok s -> strict_side s ->
  validate_errors t e' s = Ok errs -> Forall is_missing_required errs.
Proof.
  intros Ht. destruct (shipped_vt_premises v t Ht) as [H1 [H2 [H3 [H4 H5]]]].
  destruct (shipped_table_facts v t Ht) as [_ [_ [Hnz _]]].
  pose proof (lookup_forallb (fun _ x => seg_tables_ok x) all_tables v t all_seg_tables_ok Ht) as F.
  unfold seg_tables_ok in F. cbv beta in F. repeat (apply andb_prop in F; destruct F as [F _]).
  apply nodupb_streqb_NoDup in F.
  pose proof (lookup_forallb (fun _ x => se_tables_ok x) all_tables v t all_se_tables_ok Ht) as Hok. cbv beta in Hok.
  apply (strict_enforces t H4 H1 H3 H5 (se_nv t Hok) (se_nxF t Hok)).
  - intros n rows Hl row k m r mn mx Hin E. exact (proj1 (se_inline t Hok n rows Hl row k m r mn mx Hin E)).
  - intros r. now apply no_z_fields_lookup.
  - exact (se_fu t Hok).
  - intros n rows Hl row k m r mn mx Hin E. exact (proj2 (se_inline t Hok n rows Hl row k m r mn mx Hin E)).
Qed.
Print Assumptions shipped_strict_enforces.

(* the side condition is exact *)
Theorem shipped_strict_side_exact v t e leaf text s e' errs : tables_of v = Some t ->
  parse_segment t STRICT e leaf text None = Ok s -> validate_errors t e' s = Ok errs ->
  (Forall is_missing_required errs <-> strict_sideb s = true).
Proof.
  intros Ht. destruct (shipped_vt_premises v t Ht) as [H1 [H2 [H3 [H4 H5]]]].
  destruct (shipped_table_facts v t Ht) as [_ [_ [Hnz _]]].
  pose proof (lookup_forallb (fun _ x => seg_tables_ok x) all_tables v t all_seg_tables_ok Ht) as F.
  unfold seg_tables_ok in F. cbv beta in F. repeat (apply andb_prop in F; destruct F as [F _]).
  apply nodupb_streqb_NoDup in F.
  pose proof (lookup_forallb (fun _ x => se_tables_ok x) all_tables v t all_se_tables_ok Ht) as Hok. cbv beta in Hok.
  apply (strict_side_exact t H4 H1 H3 H5 (se_nv t Hok) (se_nxF t Hok)).
  - intros n rows Hl row k m r mn mx Hin E. exact (proj1 (se_inline t Hok n rows Hl row k m r mn mx Hin E)).
  - intros r. now apply no_z_fields_lookup.
  - exact (se_fu t Hok).
  - intros n rows Hl row k m r mn mx Hin E. exact (proj2 (se_inline t Hok n rows Hl row k m r mn mx Hin E)).
Qed.
Print Assumptions shipped_strict_side_exact.

(* ---------- the side conditions cannot be dropped ---------- *)
Definition only_missingb (errs : list verr) : bool :=
  forallb (fun x => match x with MissingRequired _ _ => true | _ => false end) errs.
Lemma only_missingb_spec errs : Forall is_missing_required errs -> only_missingb errs = true.
Proof.
  induction 1 as [|x l Hx _ IH]; [reflexivity|]. unfold only_missingb in *. cbn [forallb]. rewrite IH.
  destruct x; try contradiction. reflexivity.
Qed.

(* the outcome of the experiment "parse under STRICT, then validate": Some true = only missing-required
   errors, Some false = another error, None = not parsed / validator raised *)
Definition strict_then_validate (t : tables) (v : str) (text : str) : option (bool * bool) :=
  match parse_segment t STRICT default_ec (leaf_enc v STRICT default_ec) text None with
  | Ok s => match validate_errors t default_ec s with
            | Ok errs => Some (only_missingb errs, strict_sideb s)
            | Err _ => None
            end
  | Err _ => None
  end.

(* F14: the open-ended QPD of v2.5 accepts QPD_5 under STRICT, the validator calls it an invalid child;
   the Z-segment Z0X accepts the field Z0X_1, which is not a Z-field name: "Invalid element found" *)
Lemma strict_witnesses :
  strict_then_validate Gen.Tables_v2_5.tables "2.5" "QPD|a||q||beyond" = Some (false, false) /\
  strict_then_validate Gen.Tables_v2_5.tables "2.5" "Z0X|a" = Some (false, false) /\
  strict_then_validate Gen.Tables_v2_5.tables "2.5" "QPD|a||q" = Some (true, true) /\
  strict_then_validate Gen.Tables_v2_5.tables "2.5" "ZXX|a|b" = Some (true, true) /\
  strict_then_validate Gen.Tables_v2_5.tables "2.5" "PID|1||a^^^b&c~d|x|n^m" = Some (true, true) /\
  strict_then_validate Gen.Tables_v2_5.tables "2.5" "pid|1||a" = Some (true, true) /\
  strict_then_validate Gen.Tables_v2_5.tables "2.5" "MSH|^~\&|a|b" = Some (true, true) /\
  strict_then_validate Gen.Tables_v2_5.tables "2.5" "OBX|1|CE|id|s|a^b&c~d" = Some (true, true).
Proof. vm_compute. repeat split; reflexivity. Qed.

Lemma strict_refutation (text : str) :
  strict_then_validate Gen.Tables_v2_5.tables "2.5" text = Some (false, false) ->
  ~ (forall v t e leaf (text : str) s e' errs, tables_of v = Some t ->
       parse_segment t STRICT e leaf text None = Ok s -> validate_errors t e' s = Ok errs ->
       Forall is_missing_required errs).
Proof.
  intros W H. unfold strict_then_validate in W.
  destruct (parse_segment Gen.Tables_v2_5.tables STRICT default_ec (leaf_enc "2.5" STRICT default_ec) text None) as [s|x] eqn:P; [|discriminate].
  destruct (validate_errors Gen.Tables_v2_5.tables default_ec s) as [errs|x] eqn:V; [|discriminate].
  assert (Ht : tables_of "2.5" = Some Gen.Tables_v2_5.tables) by reflexivity.
  pose proof (only_missingb_spec _ (H "2.5" _ _ _ _ _ _ _ Ht P V)) as K. rewrite K in W. discriminate.
Qed.
