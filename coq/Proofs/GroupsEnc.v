(* Link between the abstract insertion-order encoding of Proofs/GroupsFacts.v (enc_gforest) and
   Group/Message.to_er7 as modelled in Model/Message.v (enc_children, TOLERANT). *)
From Coq Require Import List Bool Arith ZArith NArith Lia Init.Byte.
From HL7 Require Import Lib.Str Model.Ec Model.Result Model.Ref Model.Tree Model.Parser Model.Encode
                        Model.MsgTree Model.Groups Model.Message Proofs.GroupsFacts.
Import ListNotations.
Open Scope bs_scope.
Open Scope res_scope.

(* ---------- Message.enc_children under TOLERANT is the insertion-order encoding ---------- *)
Section EncLink.
Variable t : tables.
Variable e : ec.
Variable g : seg -> str.

Lemma sequence_map_ok {B} (h : B -> result str) (k : B -> str) (l : list B) :
  Forall (fun x => h x = Ok (k x)) l -> sequence (map h l) = Ok (map k l).
Proof.
  induction 1 as [|x l Hx _ IH]; [reflexivity|]. cbn [map sequence]. rewrite Hx, IH. reflexivity.
Qed.

Lemma enc_node_of (x : gtree seg) :
  Forall (fun s => enc_segment t e s false = Ok (g s)) (gflatten_tree x) ->
  enc_node t TOLERANT e (node_of x) = Ok (enc_gtree seg g x).
Proof.
  induction x as [a r | n r st cs IH] using gtree_ind'; intros H.
  - cbn in *. now inversion H.
  - rewrite gflatten_tree_GG in H. rewrite enc_gtree_GG. cbn [node_of enc_node].
    assert (E : forall l : list node,
              (fix go (l : list node) : list (option str * result str) :=
                 match l with [] => [] | x :: r => (node_name x, enc_node t TOLERANT e x) :: go r end) l
              = map (fun x => (node_name x, enc_node t TOLERANT e x)) l).
    { induction l as [|y l IHl]; [reflexivity|]. cbn [map]. now rewrite <- IHl. }
    rewrite E. unfold join_selected, select. cbn [is_strict]. rewrite !map_map. cbn [snd].
    rewrite (sequence_map_ok (fun x => enc_node t TOLERANT e (node_of x)) (enc_gtree seg g) cs).
    + reflexivity.
    + unfold gflatten in H. clear E. induction IH as [|y cs Hy _ IHcs]; [constructor|].
      cbn [flat_map] in H. apply Forall_app in H. destruct H as [H1 H2].
      constructor; [now apply Hy | now apply IHcs].
Qed.

Lemma enc_children_tolerant st (f : list (gtree seg)) :
  Forall (fun s => enc_segment t e s false = Ok (g s)) (gflatten f) ->
  enc_children t TOLERANT e st (map node_of f) = Ok (enc_gforest seg g f).
Proof.
  intros H. unfold enc_children, join_selected, select. cbn [is_strict]. rewrite !map_map. cbn [snd].
  rewrite (sequence_map_ok (fun x => enc_node t TOLERANT e (node_of x)) (enc_gtree seg g) f); [reflexivity|].
  unfold gflatten in H. induction f as [|y f IH]; [constructor|].
  cbn [flat_map] in H. apply Forall_app in H. destruct H as [H1 H2].
  constructor; [now apply enc_node_of | now apply IH].
Qed.

Lemma enc_children_flat st (l : list seg) :
  Forall (fun s => enc_segment t e s false = Ok (g s)) l ->
  enc_children t TOLERANT e st (map NSeg l) = Ok (bjoin CR (map g l)).
Proof.
  intros H. unfold enc_children, join_selected, select. cbn [is_strict]. rewrite !map_map. cbn [snd enc_node].
  now rewrite (sequence_map_ok (fun s => enc_segment t e s false) g l H).
Qed.
End EncLink.
