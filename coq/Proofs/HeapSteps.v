(* Preservation of K U B (= Inv + frame) by the assignment, traversal, value and deletion operations
   of Model/Heap.v, successful or raising, with the exotic paths switched off (exotic = false). *)
From Coq Require Import List Bool Arith Lia ZArith NArith Init.Byte.
From HL7 Require Import Lib.Str Model.Ec Model.Result Model.Ref Model.Tree Model.Parser Model.Encode Model.Heap.
From HL7 Require Import Proofs.HeapFacts Proofs.HeapInv Proofs.HeapOps Proofs.HeapAlloc.
Import ListNotations.

Lemma K_track U (B : nat -> Prop) s p : K U B s -> p < s_next s -> K U (fun d => B d \/ d = p) s.
Proof. intros (I & C & D) H. split; [|split]; auto. intros d [Hd| ->]; auto. Qed.
Lemma K_untrack U (B : nat -> Prop) s p : K U (fun d => B d \/ d = p) s -> K U B s /\ p < s_next s.
Proof.
  intros H. split; [eapply K_weaken; [| |exact H]; [auto|intros d Hd; now left]|]. destruct H as (_ & _ & D). apply D. now right.
Qed.
Lemma K_B U (B : nat -> Prop) s p : K U B s -> B p -> p < s_next s.
Proof. intros (_ & _ & D). apply D. Qed.
Lemma K_addU (U B : nat -> Prop) s c : K U B s -> cand s c -> K (fun d => U d \/ d = c) B s.
Proof. intros (I & C & D) H. split; [|split]; auto. intros d [Hd| ->]; auto. Qed.
Lemma K_dropU (U B : nat -> Prop) s c : K (fun d => U d \/ d = c) B s -> K U B s.
Proof. apply K_weaken; [intros d Hd; now left|auto]. Qed.

Section Steps.
Variable t : tables.
Variable e : ec.
Variable le : level -> option str -> str -> result str.

(* ---------- creation ---------- *)

Lemma ctor_node_blank P cn cr nd : ctor_node t le P cn cr = Ok nd -> blank nd /\ n_parent nd = None.
Proof.
  unfold ctor_node. destruct (n_cls P).
  - destruct (mk_field _ _ _ _ _); intros [= <-]; repeat split.
  - destruct (mk_component _ _ _ _ _); intros [= <-]; repeat split.
  - destruct (mk_subcomponent _ _ _ _ _ _ _); intros [= <-]; repeat split.
  - discriminate.
Qed.

Lemma set_tparent_some_spec U B c p :
  spec (set_tparent_raw c (Some p)) (fun s => K U B s /\ B p /\ ~ U c /\ cand s c)
       (fun _ s => K U B s /\ addable U s c p) (K U B).
Proof.
  apply spec_modify. intros s (HK & Bp & NU & (Hu & Hb & Ht & Hx)). pose proof HK as (I & C & D).
  set (N := with_tparent (getn s c) (Some p)).
  assert (HK1 : K U B (setn s c N)).
  { split; [|split].
    - apply Inv_setn_core; auto; [repeat split|]. split; [|apply (I_trav s I)].
      intros q [= <-]. auto.
    - intros d Hd. destruct (C d Hd) as (_ & _ & _ & X). apply cand_setn; auto; [|apply X].
      intros ->. contradiction.
    - now apply B_setn. }
  split; [exact HK1|]. split; [exact NU|]. split; [|split].
  - intros q. rewrite list_setn_same by reflexivity. apply Hu.
  - now rewrite next_setn.
  - right. rewrite getn_setn. destruct (Nat.eqb_spec p c) as [->|]; apply Hx.
Qed.

Lemma create_element_spec U B p name trav ref :
  spec (create_element t le false p name trav ref) (fun s => K U B s /\ B p)
       (fun c s => K U B s /\ c < s_next s) (K U B).
Proof.
  intros s (HK & Bp). unfold create_element. cbn [mbind node_of].
  assert (Hhead : forall r : result (str * sref),
            match r with
            | Ok (cname, cref) =>
                match ctor_node t le (getn s p) cname cref with
                | Ok nd => True | Err _ => True end
            | Err _ => True end) by (intros [[? ?]|]; auto; destruct (ctor_node _ _ _ _ _); auto).
  clear Hhead.
  set (r0 := match ref with Some r => ret r | None => lift (fcr t (getn s p) name) end).
  assert (Hr0 : exists r, r0 s = (s, r)).
  { unfold r0. destruct ref; [eexists; reflexivity|]. unfold lift. eexists; reflexivity. }
  destruct Hr0 as [r Hr0]. rewrite mbind_run, Hr0. destruct r as [[cname cref]|x]; [|exact HK].
  cbn [mbind lift]. destruct (ctor_node t le (getn s p) cname cref) as [nd|x] eqn:Ec; [|exact HK].
  destruct (ctor_node_blank _ _ _ _ Ec) as [(Bl & Bi & Bt & Btp) Bpar].
  set (early := if valid_child_name (Some cname) (Some (unbs "VARIES")) && negb (cls_eqb (n_cls (getn s p)) CSeg)
                then None else n_name nd).
  rewrite mbind_run.
  assert (Bn : blank (with_name nd early)) by (repeat split; auto).
  pose proof (alloc_spec U B Fnone (with_name nd early) s (conj HK (conj (frame_none s) Bn))) as H.
  step_with H; [|exact H]. destruct H as (H1 & _ & NU & _ & Hc & Hg).
  (* keep track of the new element's allocation *)
  pose proof (K_track U B s0 r H1 (proj1 (proj2 Hc))) as H1'.
  set (B' := fun d => B d \/ d = r) in *.
  assert (Bp' : B' p) by now left.
  rewrite mbind_run.
  assert (Hattach : match (if trav then set_tparent_raw r (Some p);; add t p r else point_to r p;; add t p r)%heap s0 with
                    | (s', Ok _) => K U B' s' | (s', Err _) => K U B s' end).
  { destruct trav; rewrite mbind_run.
    - pose proof (set_tparent_some_spec U B' r p s0 (conj H1' (conj Bp' (conj NU Hc)))) as H. step_with H.
      2:{ now apply K_untrack in H. }
      pose proof (add_spec t U B' p r s1 H) as H'. step_with H'; [exact H'|]. now apply K_untrack in H'.
    - destruct Hc as (Hu & Hb & _).
      pose proof (point_to_spec U B' r p s0 (conj H1' (conj Hu Hb))) as H. step_with H.
      2:{ now apply K_untrack in H. }
      destruct H as (HK2 & (Hu2 & Hb2 & Hp2) & _).
      assert (HA : addable U s1 r p) by (repeat split; auto; now left).
      pose proof (add_spec t U B' p r s1 (conj HK2 HA)) as H'. step_with H'; [exact H'|]. now apply K_untrack in H'. }
  destruct ((if trav then set_tparent_raw r (Some p);; add t p r else point_to r p;; add t p r)%heap s0) as [s1 [[]|x]];
    [|exact Hattach].
  apply K_untrack in Hattach. rewrite mbind_run.
  destruct (negb (opt_eqb early (n_name nd))); cbn [raise ret]; [apply Hattach|exact Hattach].
Qed.

Lemma parse_child_spec U B p cn cr text :
  spec (parse_child t e le p cn cr text) (K U B) (fresh_post U B) (K U B).
Proof.
  intros s HK. unfold parse_child. cbn [mbind node_of].
  destruct (n_cls (getn s p)).
  - cbn [mbind lift]. destruct (parse_field _ _ _ _ _ _ _ _); [|exact HK]. now apply (alloc_field_spec t U B).
  - cbn [mbind lift]. destruct (ref_dt cr); [|exact HK]. cbn [mbind lift].
    destruct (parse_component _ _ _ _ _ _ _ _); [|exact HK]. now apply (alloc_comp_spec t U B).
  - cbn [mbind lift]. destruct (ref_dt cr); [|exact HK]. cbn [mbind lift].
    destruct (mk_subcomponent _ _ _ _ _ _ _); [|exact HK]. now apply (alloc_sub_spec t U B).
  - exact HK.
Qed.

(* ---------- lookup ---------- *)

Lemma finder_listed_name s p k i o :
  Inv s -> finder (getn s p) (Some k) i = Some o -> In o (n_list (getn s p)) -> n_name (getn s o) = Some k.
Proof.
  intros I. unfold finder. destruct (py_nth (iget (Some k) (n_idx (getn s p))) i) as [c|] eqn:E1.
  - intros [= <-] _. apply py_nth_In in E1. rewrite (I_index s I) in E1. apply filter_In in E1.
    destruct E1 as [_ E1]. unfold name_is in E1. destruct (opt_eqb_spec (Some k) (n_name (getn s c))); congruence.
  - intros E2 Hin. apply py_nth_In in E2.
    assert (Hb : In (Some k, iget (Some k) (n_tidx (getn s p))) (n_tidx (getn s p))).
    { apply iget_In_binding. intros E. rewrite E in E2. destruct E2. }
    destruct (I_trav s I p) as (_ & T & _). destruct (T _ _ _ Hb E2) as (_ & X & _). tauto.
Qed.

Lemma finder_allocated s p k i o : Inv s -> finder (getn s p) k i = Some o -> o < s_next s.
Proof.
  intros I. unfold finder. destruct (py_nth (iget k (n_idx (getn s p))) i) as [c|] eqn:E1.
  - intros [= <-]. apply py_nth_In in E1. rewrite (I_index s I) in E1. apply filter_In in E1.
    apply (I_bound s I p). tauto.
  - intros E2. apply py_nth_In in E2.
    assert (Hb : In (k, iget k (n_tidx (getn s p))) (n_tidx (getn s p))).
    { apply iget_In_binding. intros E. rewrite E in E2. destruct E2. }
    destruct (I_trav s I p) as (_ & T & _). destruct (T _ _ _ Hb E2) as (_ & _ & X). exact X.
Qed.

(* the guarded lookup of ElementList.set: the child found (if listed) carries the name asked for *)
Lemma child_at_index_spec (P : store -> Prop) p name i :
  (forall s, P s -> Inv s) ->
  spec (child_at_index t true p name i) P
       (fun r s => P s /\ forall o, r = Some o ->
                    o < s_next s /\ (In o (n_list (getn s p)) -> n_name (getn s o) = Some name)) P.
Proof.
  intros HI s HP. unfold child_at_index. cbn [mbind node_of lift].
  destruct (fcr t (getn s p) (upper name)) as [[cn cr]|x]; [|exact HP]. cbn [mbind].
  destruct (streqb cn name); [|exact HP]. cbn [ret]. split; auto. intros o Ho. symmetry in Ho. split.
  - eapply finder_allocated; eauto.
  - eapply finder_listed_name; eauto.
Qed.

(* ---------- element.value = <BaseDataType instance> ---------- *)

Lemma set_value_dt_spec fuel : forall (U B : nat -> Prop) x dt text,
  spec (set_value_dt t le fuel x dt text) (fun s => K U B s /\ x < s_next s) (fun _ s => K U B s) (K U B).
Proof.
  induction fuel as [|f IH]; intros U B x dt text s (HK & Hx); cbn [set_value_dt]; [exact HK|].
  cbn [mbind node_of].
  pose proof (K_track U B s x HK Hx) as HK'. set (B' := fun d => B d \/ d = x) in *.
  assert (W : forall s', K U B' s' -> K U B s') by (intros s' H; now apply K_untrack in H).
  (* the Field / Component case, given the node of the new child *)
  assert (Complex : forall nd : result node,
            (forall n, nd = Ok n -> blank n) ->
            match (let! c := (let! nd0 := lift nd in alloc nd0) in
                   set_value_dt t le f c dt text;;
                   let! X := node_of x in
                   match n_list X with [] => add t x c | old :: _ => replace_child t x old c end)%heap s
            with (s', Ok _) => K U B s' | (s', Err _) => K U B s' end).
  { intros nd Hb. rewrite mbind_run. rewrite mbind_run. unfold lift. destruct nd as [n|y]; [|exact HK].
    pose proof (alloc_spec U B' Fnone n s (conj HK' (conj (frame_none s) (Hb n eq_refl)))) as H.
    step_with H; [|now apply W]. destruct H as (H1 & _ & NU & _ & Hc & _).
    rewrite mbind_run.
    (* IH instantiated at U + {r}: the new child stays a candidate while its own value is set *)
    pose proof (IH (fun d => U d \/ d = r) B' r dt text s0 (conj (K_addU U B' s0 r H1 Hc) (proj1 (proj2 Hc)))) as H.
    step_with H; [|apply W; now apply K_dropU in H].
    pose proof (cand_unfold _ _ _ r H (or_intror eq_refl)) as Hc1. apply K_dropU in H.
    cbn [mbind node_of]. destruct (n_list (getn s1 x)) as [|old rest] eqn:El.
    - pose proof (add_spec t U B' x r s1 (conj H (cand_addable U s1 r x NU Hc1))) as H'. step_with H'; now apply W.
    - pose proof (replace_child_head_spec t U B' x old r rest s1 (conj H (conj NU (conj Hc1 El)))) as H'.
      step_with H'; now apply W. }
  destruct (n_cls (getn s x)).
  - exact HK.
  - destruct (base t (n_dt (getn s x))); cbn [negb]; [|exact HK].
    apply (Complex (match mk_component t (n_lvl (getn s x)) None (Some dt) None with
                    | Ok y => Ok (fresh t CComp (c_name y) (n_lvl (getn s x)) (c_st y) (c_dt y))
                    | Err y => Err y end)).
    intros n. destruct (mk_component _ _ _ _ _); intros [= <-]. repeat split.
  - destruct (base t (n_dt (getn s x))); cbn [negb]; [|exact HK].
    apply (Complex (match mk_subcomponent t (n_lvl (getn s x)) (le (n_lvl (getn s x))) None (Some dt) [] None with
                    | Ok y => Ok (fresh t CSub (sc_name y) (n_lvl (getn s x)) None (sc_dt y))
                    | Err y => Err y end)).
    intros n. destruct (mk_subcomponent _ _ _ _ _ _ _); intros [= <-]. repeat split.
  - cbn [mbind lift]. destruct (le _ _ _) as [enc|y]; [|exact HK]. cbn [mbind]. rewrite mbind_run.
    pose proof (set_val_spec U B' x text enc s HK') as H. step_with H; [|now apply W].
    pose proof (to_traversal_spec t U B' FUEL x s0 (conj H (K_B _ _ _ _ H (or_intror eq_refl)))) as H'.
    step_with H'; now apply W.
Qed.

(* ---------- ElementList.set ---------- *)

Definition vok (U : nat -> Prop) (s : store) (v : value) : Prop :=
  match v with
  | VText _ => True
  | VElem c => ~ U c /\ cand s c
  | VProxy _ _ => True
  | VDt _ _ => True
  end.

Lemma set_child_spec U B p name v index :
  spec (set_child t e le false p name v index) (fun s => K U B s /\ B p /\ vok U s v) (fun _ s => K U B s) (K U B).
Proof.
  intros s (HK & Bp & Hv). unfold set_child. rewrite mbind_run.
  (* the proxy conversion reads only *)
  assert (Hconv : exists r, (match v with
                             | VProxy o pn =>
                                 (let! O := node_of o in
                                  match iget (Some pn) (n_idx O) with
                                  | [] => raise (Crash IndexError)
                                  | c :: _ => fun s0 => (s0, Ok (VText (to_er7 t e s0 c false)))
                                  end)%heap
                             | _ => ret v
                             end) s = (s, r) /\ match r with Ok v' => vok U s v' | Err _ => True end).
  { destruct v; try (eexists; split; [reflexivity|exact Hv]).
    cbn [mbind node_of]. destruct (iget (Some name0) (n_idx (getn s owner))); eexists; split; try reflexivity; exact I. }
  destruct Hconv as (r & -> & Hv'). destruct r as [v'|x]; [|exact HK]. clear v Hv.
  cbn [mbind node_of lift]. destruct (fcr t (getn s p) (upper name)) as [[cname cref]|x]; [|exact HK].
  cbn [mbind].
  (* the child to attach: freshly parsed, the element handed in, or built detached from a datatype object *)
  match goal with |- context [mbind ?m _ s] => set (mchild := m) end. rewrite mbind_run.
  assert (Hchild : match mchild s with
                   | (s', Ok c) => K U B s' /\ ~ U c /\ cand s' c
                   | (s', Err _) => K U B s'
                   end).
  { unfold mchild. destruct v' as [txt|c| |dt txt]; try exact HK.
    - apply (parse_child_spec U B p cname cref txt s HK).
    - cbn [ret]. destruct Hv'. auto.
    - rewrite mbind_run. unfold lift.
      destruct (ctor_node t le (getn s p) cname cref) as [nd|y] eqn:Ec; [|exact HK].
      destruct (ctor_node_blank _ _ _ _ Ec) as [Bn _]. rewrite mbind_run.
      pose proof (alloc_spec U B Fnone nd s (conj HK (conj (frame_none s) Bn))) as H.
      step_with H; [|exact H]. destruct H as (H1 & _ & NU & _ & Hc & _). rewrite mbind_run.
      pose proof (set_value_dt_spec 3 (fun d => U d \/ d = r) B r dt txt s0
                    (conj (K_addU U B s0 r H1 Hc) (proj1 (proj2 Hc)))) as H.
      step_with H; [|now apply K_dropU in H].
      cbn [ret]. pose proof (cand_unfold _ _ _ r H (or_intror eq_refl)) as Hc1. apply K_dropU in H. auto. }
  destruct (mchild s) as [s1 [child|x]]; [|exact Hchild]. clear mchild.
  destruct Hchild as (HK1 & NU & Hc). cbn [mbind node_of].
  destruct (opt_eqb_spec (n_name (getn s1 child)) (Some cname)) as [En|]; cbn [negb]; [|exact HK1].
  rewrite mbind_run. cbn [negb].
  pose proof (child_at_index_spec (fun s' => K U B s' /\ cand s' child /\ n_name (getn s' child) = Some cname) p cname index
                (fun s' H => K_Inv _ _ _ (proj1 H)) s1 (conj HK1 (conj Hc En))) as H.
  step_with H; [|apply H]. destruct H as ((HK2 & Hc2 & En2) & Hold). rewrite mbind_run.
  assert (Hatt : match (match r with None => append t p child | Some o => replace_child t p o child end) s0 with
                 | (s', Ok _) => K U B s' | (s', Err _) => K U B s' end).
  { destruct r as [o|].
    - pose proof (replace_child_spec t U B p o child s0) as H. cbv beta in H.
      assert (Hn : In o (n_list (getn s0 p)) -> n_name (getn s0 o) = n_name (getn s0 child)).
      { intros Hin. destruct (Hold o eq_refl) as [_ X]. now rewrite (X Hin). }
      specialize (H (conj HK2 (conj NU (conj Hc2 Hn)))).
      destruct (replace_child t p o child s0) as [s' [[]|x]]; exact H.
    - pose proof (append_spec t U B p child s0 (conj HK2 (cand_addable U s0 child p NU Hc2))) as H.
      destruct (append t p child s0) as [s' [[]|x]]; exact H. }
  destruct ((match r with None => append t p child | Some o => replace_child t p o child end) s0) as [s2 [[]|x]];
    [|exact Hatt].
  apply (to_traversal_spec t U B FUEL p s2). split; auto. eapply K_B; eauto.
Qed.

(* the same with "p is allocated" as a plain precondition *)
Lemma set_child_spec' U B p name v index :
  spec (set_child t e le false p name v index) (fun s => K U B s /\ p < s_next s /\ vok U s v)
       (fun _ s => K U B s /\ p < s_next s) (K U B).
Proof.
  intros s (HK & Hp & Hv).
  pose proof (set_child_spec U (fun d => B d \/ d = p) p name v index s
                (conj (K_track U B s p HK Hp) (conj (or_intror eq_refl) Hv))) as H.
  step_with H; [now apply K_untrack|now apply K_untrack in H].
Qed.
Lemma create_element_spec' U B p name trav ref :
  spec (create_element t le false p name trav ref) (fun s => K U B s /\ p < s_next s)
       (fun c s => K U B s /\ p < s_next s /\ c < s_next s) (K U B).
Proof.
  intros s (HK & Hp).
  pose proof (create_element_spec U (fun d => B d \/ d = p) p name trav ref s
                (conj (K_track U B s p HK Hp) (or_intror eq_refl))) as H.
  step_with H; [|now apply K_untrack in H]. destruct H as [H H']. apply K_untrack in H. tauto.
Qed.

(* ---------- lazy traversal ---------- *)

Lemma proxy_element_spec U B p pn :
  spec (proxy_element t le false p pn) (fun s => K U B s /\ p < s_next s)
       (fun c s => K U B s /\ p < s_next s /\ c < s_next s) (K U B).
Proof.
  intros s (HK & Hp). unfold proxy_element. cbn [mbind node_of]. pose proof (K_Inv _ _ _ HK) as I.
  destruct (iget (Some pn) (n_idx (getn s p))) as [|c l] eqn:E1.
  - destruct (iget (Some pn) (n_tidx (getn s p))) as [|c l] eqn:E2.
    + now apply (create_element_spec' U B p pn true None s).
    + cbn [ret]. refine (conj HK (conj Hp _)).
      assert (Hb : In (Some pn, c :: l) (n_tidx (getn s p))) by (rewrite <- E2; apply iget_In_binding; congruence).
      destruct (I_trav s I p) as (_ & T & _). destruct (T _ _ c Hb (or_introl eq_refl)) as (_ & _ & X). exact X.
  - cbn [ret]. refine (conj HK (conj Hp _)).
    assert (Hin : In c (iget (Some pn) (n_idx (getn s p)))) by (rewrite E1; now left).
    rewrite (I_index s I) in Hin. apply filter_In in Hin. apply (I_bound s I p). tauto.
Qed.

Lemma get_proxy_spec U B x name :
  spec (get_proxy t le false x name) (fun s => K U B s /\ x < s_next s)
       (fun r s => K U B s /\ x < s_next s /\ fst r < s_next s) (K U B).
Proof.
  intros s (HK & Hx). unfold get_proxy. cbn [mbind node_of].
  destruct (n_cls (getn s x)).
  - cbn [mbind lift]. destruct (proxy_name_plain t (getn s x) name); cbn [ret]; auto.
  - unfold mcatch. cbn [mbind lift].
    destruct (proxy_name_plain t (getn s x) name) as [pn|ex]; cbn [ret]; auto.
    destruct (is_cnf ex); [|exact HK]. cbn [mbind lift node_of].
    destruct (positional t (getn s x) name) as [[cn sub]|ex2]; [|exact HK]. cbn [mbind node_of lift].
    destruct (proxy_name_plain t (getn s x) cn) as [pn|ex3]; [|exact HK]. cbn [mbind].
    destruct sub as [k|]; [|cbn [ret]; auto].
    rewrite mbind_run. cbn [lift].
    match goal with |- context [match ?r with Ok a => _ | Err x0 => (s, Err x0) end] => destruct r as [cdt|ex4] end;
      [|exact HK].
    rewrite mbind_run.
    pose proof (proxy_element_spec U B x pn s (conj HK Hx)) as H. step_with H; [|exact H].
    destruct H as (H1 & H2 & H3). cbn [mbind node_of lift].
    destruct (proxy_name_plain t (getn s0 r) _) as [pn2|ex5]; cbn [ret]; auto.
    destruct (is_cnf ex5); cbn [raise]; exact H1.
  - cbn [mbind lift]. destruct (proxy_name_plain t (getn s x) name); cbn [ret]; auto.
  - cbn [mbind lift]. destruct (proxy_name_plain t (getn s x) name); cbn [ret]; auto.
Qed.

Lemma walk_spec U B names : forall pr,
  spec (walk t le false pr names) (fun s => K U B s /\ fst pr < s_next s)
       (fun r s => K U B s /\ fst r < s_next s) (K U B).
Proof.
  induction names as [|n names IH]; intros pr s (HK & Hp); cbn [walk].
  - cbn [ret]. auto.
  - rewrite mbind_run. unfold step_proxy. rewrite mbind_run.
    pose proof (proxy_element_spec U B (fst pr) (snd pr) s (conj HK Hp)) as H. step_with H; [|exact H].
    destruct H as (H1 & _ & H3).
    pose proof (get_proxy_spec U B r n s0 (conj H1 H3)) as H. step_with H; [|exact H].
    destruct H as (H4 & _ & H5). now apply IH.
Qed.

Lemma read_chain_spec U B x names :
  spec (read_chain t le false x names) (fun s => K U B s /\ x < s_next s)
       (fun r s => K U B s /\ x < s_next s /\ fst r < s_next s) (K U B).
Proof.
  intros s (HK & Hx). destruct names as [|n names]; cbn [read_chain]; [exact HK|].
  rewrite mbind_run.
  pose proof (get_proxy_spec U (fun d => B d \/ d = x) x n s (conj (K_track U B s x HK Hx) Hx)) as H.
  step_with H; [|now apply K_untrack in H]. destruct H as (H1 & _ & H3).
  pose proof (walk_spec U (fun d => B d \/ d = x) names r s0 (conj H1 H3)) as H. step_with H; [|now apply K_untrack in H].
  destruct H as (H4 & H5). apply K_untrack in H4. tauto.
Qed.

Lemma read_value_spec U B x names :
  spec (read_value t e le false x names) (fun s => K U B s /\ x < s_next s)
       (fun _ s => K U B s /\ x < s_next s) (K U B).
Proof.
  intros s (HK & Hx). unfold read_value. rewrite mbind_run.
  pose proof (read_chain_spec U B x names s (conj HK Hx)) as H. step_with H; [|exact H].
  destruct H as (H1 & H2 & H3). rewrite mbind_run.
  pose proof (proxy_element_spec U (fun d => B d \/ d = x) (fst r) (snd r) s0 (conj (K_track U B s0 x H1 H2) H3)) as H.
  step_with H; [|now apply K_untrack in H]. destruct H as (H4 & _). now apply K_untrack in H4.
Qed.

(* ---------- attribute assignment ---------- *)

Definition pos_shaped (name : str) : bool :=
  match split_us (upper name) with _ :: _ :: _ :: _ => true | _ => false end.
Lemma positional_unshaped P name : pos_shaped name = false -> positional t P name = Err (HL7 EChildNotFound).
Proof.
  unfold pos_shaped, positional. destruct (split_us (upper name)) as [|a [|b [|c r]]]; try reflexivity. discriminate.
Qed.
Definition velem_plain (v : value) (name : str) : Prop :=
  match v with VElem _ => pos_shaped name = false | _ => True end.
Lemma vok_stateless U s s' v : (match v with VElem _ => False | _ => True end) -> vok U s v -> vok U s' v.
Proof. destruct v; cbn; tauto. Qed.

Lemma set_attr_spec U B x name v :
  spec (set_attr t e le false x name v) (fun s => K U B s /\ x < s_next s /\ vok U s v /\ velem_plain v name)
       (fun _ s => K U B s /\ x < s_next s) (K U B).
Proof.
  intros s (HK & Hx & Hv & Hpl). unfold set_attr. cbn [mbind node_of].
  destruct (n_cls (getn s x)); try now apply (set_child_spec' U B x name v 0 s).
  unfold mcatch.
  pose proof (set_child_spec' U (fun d => B d \/ d = x) x name v 0 s
                (conj (K_track U B s x HK Hx) (conj Hx Hv))) as H.
  step_with H; [destruct H as [H H']; apply K_untrack in H; tauto|].
  destruct (is_cnf x0); [|now apply K_untrack in H].
  apply K_untrack in H. destruct H as [H1 Hx1]. cbn [mbind node_of lift].
  destruct v as [txt|c|o pn|dt txt].
  - destruct (positional t (getn s0 x) name) as [[cn sub]|ex]; [|exact H1]. cbn [mbind].
    destruct sub as [k|].
    + rewrite mbind_run.
      pose proof (get_proxy_spec U B x name s0 (conj H1 Hx1)) as H. step_with H; [|exact H].
      destruct H as (H2 & H3 & H4). destruct r as [c pn]. cbn [fst] in H4.
      pose proof (set_child_spec' U (fun d => B d \/ d = x) c pn (VText txt) 0 s1
                    (conj (K_track U B s1 x H2 H3) (conj H4 I))) as H.
      step_with H.
      * destruct H as [H H']. apply K_untrack in H. exact H.
      * destruct (is_cnf x1); cbn [raise]; now apply K_untrack in H.
    + now apply (set_child_spec' U B x cn (VText txt) 0 s0).
  - cbn in Hpl. rewrite (positional_unshaped _ _ Hpl). exact H1.
  - destruct (positional t (getn s0 x) name) as [[cn sub]|ex]; [|exact H1]. cbn [mbind].
    destruct sub as [k|].
    + rewrite mbind_run.
      pose proof (get_proxy_spec U B x name s0 (conj H1 Hx1)) as H. step_with H; [|exact H].
      destruct H as (H2 & H3 & H4). destruct r as [c pn']. cbn [fst] in H4.
      pose proof (set_child_spec' U (fun d => B d \/ d = x) c pn' (VProxy o pn) 0 s1
                    (conj (K_track U B s1 x H2 H3) (conj H4 I))) as H.
      step_with H.
      * destruct H as [H H']. apply K_untrack in H. exact H.
      * destruct (is_cnf x1); cbn [raise]; now apply K_untrack in H.
    + now apply (set_child_spec' U B x cn (VProxy o pn) 0 s0).
  - destruct (positional t (getn s0 x) name) as [[cn sub]|ex]; [|exact H1]. cbn [mbind].
    destruct sub as [k|].
    + rewrite mbind_run.
      pose proof (get_proxy_spec U B x name s0 (conj H1 Hx1)) as H. step_with H; [|exact H].
      destruct H as (H2 & H3 & H4). destruct r as [c pn]. cbn [fst] in H4.
      pose proof (set_child_spec' U (fun d => B d \/ d = x) c pn (VDt dt txt) 0 s1
                    (conj (K_track U B s1 x H2 H3) (conj H4 I))) as H.
      step_with H.
      * destruct H as [H H']. apply K_untrack in H. exact H.
      * destruct (is_cnf x1); cbn [raise]; now apply K_untrack in H.
    + now apply (set_child_spec' U B x cn (VDt dt txt) 0 s0).
Qed.

Lemma write_chain_spec U B x names v :
  spec (write_chain t e le false x names v)
       (fun s => K U B s /\ x < s_next s /\ vok U s v /\ velem_plain v (last names []))
       (fun _ s => K U B s /\ x < s_next s) (K U B).
Proof.
  intros s (HK & Hx & Hv & Hpl0). unfold write_chain.
  destruct (rev names) as [|lastn front] eqn:Er; [exact HK|].
  assert (Hpl : velem_plain v lastn).
  { assert (E : names = rev front ++ [lastn]) by (rewrite <- (rev_involutive names), Er; reflexivity).
    rewrite E in Hpl0. now rewrite last_last in Hpl0. }
  clear Hpl0.
  destruct front as [|f front'].
  - apply (set_attr_spec U B x lastn v s). auto.
  - rewrite mbind_run.
    (* the element handed in must stay a candidate while the chain is walked *)
    destruct v as [txt|c|o pn|dt txt].
    + pose proof (read_chain_spec U B x (rev (f :: front')) s (conj HK Hx)) as H. step_with H; [|exact H].
      destruct H as (H1 & H2 & H3). rewrite mbind_run.
      pose proof (proxy_element_spec U (fun d => B d \/ d = x) (fst r) (snd r) s0 (conj (K_track U B s0 x H1 H2) H3)) as H.
      step_with H; [|now apply K_untrack in H]. destruct H as (H4 & _ & H6).
      pose proof (set_attr_spec U (fun d => B d \/ d = x) r0 lastn (VText txt) s1 (conj H4 (conj H6 (conj I I)))) as H.
      step_with H; [|now apply K_untrack in H]. destruct H as [H _]. now apply K_untrack in H.
    + destruct Hv as [NU Hc].
      set (U' := fun d => U d \/ d = c).
      pose proof (read_chain_spec U' B x (rev (f :: front')) s (conj (K_addU U B s c HK Hc) Hx)) as H.
      step_with H; [|now apply K_dropU in H].
      destruct H as (H1 & H2 & H3). rewrite mbind_run.
      pose proof (proxy_element_spec U' (fun d => B d \/ d = x) (fst r) (snd r) s0 (conj (K_track U' B s0 x H1 H2) H3)) as H.
      step_with H; [|apply K_untrack in H; destruct H as [H _]; now apply K_dropU in H]. destruct H as (H4 & _ & H6).
      pose proof (cand_unfold U' _ s1 c H4 (or_intror eq_refl)) as Hc1.
      apply K_dropU in H4.
      pose proof (set_attr_spec U (fun d => B d \/ d = x) r0 lastn (VElem c) s1
                    (conj H4 (conj H6 (conj (conj NU Hc1) Hpl)))) as H.
      step_with H; [|now apply K_untrack in H]. destruct H as [H _]. now apply K_untrack in H.
    + pose proof (read_chain_spec U B x (rev (f :: front')) s (conj HK Hx)) as H. step_with H; [|exact H].
      destruct H as (H1 & H2 & H3). rewrite mbind_run.
      pose proof (proxy_element_spec U (fun d => B d \/ d = x) (fst r) (snd r) s0 (conj (K_track U B s0 x H1 H2) H3)) as H.
      step_with H; [|now apply K_untrack in H]. destruct H as (H4 & _ & H6).
      pose proof (set_attr_spec U (fun d => B d \/ d = x) r0 lastn (VProxy o pn) s1 (conj H4 (conj H6 (conj I I)))) as H.
      step_with H; [|now apply K_untrack in H]. destruct H as [H _]. now apply K_untrack in H.
    + pose proof (read_chain_spec U B x (rev (f :: front')) s (conj HK Hx)) as H. step_with H; [|exact H].
      destruct H as (H1 & H2 & H3). rewrite mbind_run.
      pose proof (proxy_element_spec U (fun d => B d \/ d = x) (fst r) (snd r) s0 (conj (K_track U B s0 x H1 H2) H3)) as H.
      step_with H; [|now apply K_untrack in H]. destruct H as (H4 & _ & H6).
      pose proof (set_attr_spec U (fun d => B d \/ d = x) r0 lastn (VDt dt txt) s1 (conj H4 (conj H6 (conj I I)))) as H.
      step_with H; [|now apply K_untrack in H]. destruct H as [H _]. now apply K_untrack in H.
Qed.

(* ---------- datatype and value ---------- *)

Lemma restructure_spec U B X x dt : spec (restructure t X x dt) (K U B) (fun _ s => K U B s) (K U B).
Proof.
  intros s HK. unfold restructure. destruct (_ && _ && _ && _ && _); [|exact HK].
  destruct dt as [d|]; [|exact HK]. destruct (has_struct t d); cbn [negb]; [|exact HK].
  destruct (n_st X) as [st|]; [|exact HK]. cbn [mbind lift].
  match goal with |- context [match ?r with Ok a => _ | Err x0 => (s, Err x0) end] => destruct r as [st'|ex] end;
    [|exact HK].
  now apply (set_st_spec U B x _ s).
Qed.

Lemma set_datatype_spec U B fuel : forall x dt,
  spec (set_datatype t fuel x dt) (K U B) (fun _ s => K U B s) (K U B).
Proof.
  induction fuel as [|f IH]; intros x dt s HK; cbn [set_datatype]; [exact HK|].
  cbn [mbind node_of].
  assert (Complex : forall s0, K U B s0 ->
            match (let! X := node_of x in
                   match n_list X with
                   | [] => set_dt x dt
                   | c0 :: _ => if base t (n_dt X) then set_dt x dt;; (if base t dt then set_datatype t f c0 dt else ret tt)
                                else raise (HL7 EOperationNotAllowed)
                   end)%heap s0 with (s', Ok _) => K U B s' | (s', Err _) => K U B s' end).
  { intros s0 H0. cbn [mbind node_of]. destruct (n_list (getn s0 x)) as [|c0 l]; [now apply (set_dt_spec U B x dt s0)|].
    destruct (base t (n_dt (getn s0 x))); [|exact H0]. rewrite mbind_run.
    pose proof (set_dt_spec U B x dt s0 H0) as H. step_with H; [|exact H].
    destruct (base t dt); [now apply IH|exact H]. }
  destruct (n_cls (getn s x)).
  - exact HK.
  - destruct (_ && _ && _); [exact HK|]. rewrite mbind_run.
    pose proof (restructure_spec U B (getn s x) x dt s HK) as H. step_with H; [|exact H]. now apply Complex.
  - destruct (_ && _ && _); [exact HK|]. rewrite mbind_run.
    pose proof (restructure_spec U B (getn s x) x dt s HK) as H. step_with H; [|exact H]. now apply Complex.
  - (* SubComponent *)
    destruct (_ && _); [exact HK|]. destruct (_ && _ && _); [exact HK|].
    destruct (negb _); [exact HK|]. rewrite mbind_run.
    assert (Hp : match (match n_parent (getn s x) with
                        | Some q => (let! Q := node_of q in
                                     if base t (n_dt Q) && negb (opt_eqb (n_dt Q) dt) then set_datatype t f q dt else ret tt)%heap
                        | None => ret tt end) s with (s', Ok _) => K U B s' | (s', Err _) => K U B s' end).
    { destruct (n_parent (getn s x)) as [q|]; [|exact HK]. cbn [mbind node_of].
      destruct (_ && _); [now apply IH|exact HK]. }
    match type of Hp with match ?m with _ => _ end => destruct m as [s1 [[]|ex]] end; [|exact Hp].
    now apply (set_dt_spec U B x dt s1).
Qed.

Definition Uplus (U : nat -> Prop) (l : list nat) : nat -> Prop := fun d => U d \/ In d l.

Lemma alloc_all_spec {A} (f : A -> M nat) (l : list A) :
  (forall U B x, spec (f x) (K U B) (fresh_post U B) (K U B)) ->
  forall U B,
  spec (alloc_all f l) (K U B)
       (fun ids s => K (Uplus U ids) B s /\ NoDup ids /\ forall i, In i ids -> ~ U i) (K U B).
Proof.
  intros Hf. induction l as [|x l IH]; intros U B s HK; cbn [alloc_all].
  - cbn [ret]. split; [|split; [constructor|intros i []]].
    eapply K_weaken; [| |exact HK]; auto. intros d [Hd|[]]. exact Hd.
  - rewrite mbind_run. pose proof (Hf U B x s HK) as H. step_with H; [|exact H].
    destruct H as (H1 & NU & Hc). rewrite mbind_run.
    pose proof (IH (fun d => U d \/ d = r) B s0 (K_addU U B s0 r H1 Hc)) as H. step_with H; [|now apply K_dropU in H].
    destruct H as (H2 & ND & Hn). cbn [ret]. split; [|split].
    + eapply K_weaken; [| |exact H2]; auto. unfold Uplus. intros d [Hd|[<-|Hd]]; auto.
    + constructor; auto. intros Hin. apply (Hn _ Hin). now right.
    + intros i [<-|Hi]; auto. intros Hu. apply (Hn _ Hi). now left.
Qed.

Lemma add_all_spec U B x ids :
  spec (add_all t x ids) (fun s => K (Uplus U ids) B s /\ NoDup ids /\ forall i, In i ids -> ~ U i)
       (fun _ s => K U B s) (K U B).
Proof.
  revert U. induction ids as [|c ids IH]; intros U s (HK & ND & Hn); cbn [add_all].
  - cbn [ret]. eapply K_weaken; [| |exact HK]; auto. intros d Hd. now left.
  - rewrite mbind_run. inversion ND; subst.
    assert (Hc : cand s c) by (destruct HK as (_ & C & _); apply C; right; now left).
    assert (NUc : ~ Uplus U ids c) by (intros [Hu|Hi]; [apply (Hn c); auto; now left|contradiction]).
    assert (HK' : K (Uplus U ids) B s).
    { eapply K_weaken; [| |exact HK]; auto. intros d [Hd|Hd]; [now left|right; now right]. }
    pose proof (add_spec t (Uplus U ids) B x c s (conj HK' (cand_addable _ s c x NUc Hc))) as H.
    step_with H.
    + apply IH. split; [exact H|split; auto]. intros i Hi. apply Hn. now right.
    + eapply K_weaken; [| |exact H]; auto. intros d Hd. now left.
Qed.

Lemma do_reset_children_spec U B x : spec (do_reset_children x) (K U B) (fun _ s => K U B s) (K U B).
Proof.
  apply spec_modify. intros s HK.
  apply K_set_children; [exact HK|constructor|intros c []|intros k; reflexivity| |intros d Hd; split; intros []].
  split; [constructor|split]; [intros k l c []|intros k l []].
Qed.

Lemma set_value_spec U B x text :
  spec (set_value t e le x text) (fun s => K U B s /\ x < s_next s) (fun _ s => K U B s /\ x < s_next s) (K U B).
Proof.
  intros s (HK & Hx). unfold set_value. cbn [mbind node_of].
  pose proof (K_track U B s x HK Hx) as HK'. set (B' := fun d => B d \/ d = x) in *.
  assert (W : forall s', K U B' s' -> K U B s' /\ x < s_next s') by (intros s'; apply K_untrack).
  destruct (n_cls (getn s x)).
  - exact HK.
  - (* Field *)
    cbn [mbind lift]. destruct (parse_components _ _ _ _ _ _ _) as [kids|ex]; [|exact HK]. cbn [mbind].
    rewrite mbind_run.
    match goal with |- context [(if ?b then ?m1 else ?m2) s] =>
      assert (Hd : match (if b then m1 else m2) s with (s', Ok _) => K U B' s' | (s', Err _) => K U B s' end) end.
    { destruct (_ && _ && _); [|exact HK'].
      pose proof (set_datatype_spec U B' 3 x None s HK') as H. step_with H; [exact H|now apply W in H]. }
    match goal with |- context [(if ?b then ?m1 else ?m2) s] => destruct ((if b then m1 else m2) s) as [s1 [[]|ex]] end;
      [|exact Hd].
    rewrite mbind_run.
    pose proof (alloc_all_spec (alloc_comp t (n_lvl (getn s x)) None) kids
                  (fun U0 B0 x0 => alloc_comp_spec t U0 B0 (n_lvl (getn s x)) x0) U B' s1 Hd) as H.
    step_with H; [|now apply W in H]. destruct H as (H1 & ND & Hn). rewrite mbind_run.
    pose proof (do_reset_children_spec (Uplus U r) B' x s0 H1) as H. step_with H.
    2:{ apply W. eapply K_weaken; [| |exact H]; auto. intros d Hd'. now left. }
    pose proof (add_all_spec U B' x r s2 (conj H (conj ND Hn))) as H'. step_with H'; now apply W in H'.
  - (* Component *)
    cbn [mbind lift]. destruct (parse_subcomponents _ _ _ _ _ _ _) as [kids|ex]; [|exact HK]. cbn [mbind].
    rewrite mbind_run.
    match goal with |- context [(if ?b then ?m1 else ?m2) s] =>
      assert (Hd : match (if b then m1 else m2) s with (s', Ok _) => K U B' s' | (s', Err _) => K U B s' end) end.
    { destruct (_ && _ && _); [|exact HK'].
      pose proof (set_datatype_spec U B' 3 x None s HK') as H. step_with H; [exact H|now apply W in H]. }
    match goal with |- context [(if ?b then ?m1 else ?m2) s] => destruct ((if b then m1 else m2) s) as [s1 [[]|ex]] end;
      [|exact Hd].
    rewrite mbind_run.
    pose proof (alloc_all_spec (alloc_sub t (n_lvl (getn s x)) None) kids
                  (fun U0 B0 x0 => alloc_sub_spec t U0 B0 (n_lvl (getn s x)) x0) U B' s1 Hd) as H.
    step_with H; [|now apply W in H]. destruct H as (H1 & ND & Hn). rewrite mbind_run.
    pose proof (do_reset_children_spec (Uplus U r) B' x s0 H1) as H. step_with H.
    2:{ apply W. eapply K_weaken; [| |exact H]; auto. intros d Hd'. now left. }
    pose proof (add_all_spec U B' x r s2 (conj H (conj ND Hn))) as H'. step_with H'; now apply W in H'.
  - (* SubComponent *)
    destruct text as [|b text].
    + rewrite mbind_run. pose proof (set_val_spec U B' x [] [] s HK') as H. step_with H; [|now apply W in H].
      pose proof (to_traversal_spec t U B' FUEL x s0 (conj H (K_B _ _ _ _ H (or_intror eq_refl)))) as H'.
      step_with H'; now apply W in H'.
    + cbn [mbind lift]. destruct (le _ _ _) as [enc|ex]; [|exact HK]. cbn [mbind]. rewrite mbind_run.
      pose proof (set_val_spec U B' x (b :: text) enc s HK') as H. step_with H; [|now apply W in H].
      pose proof (to_traversal_spec t U B' FUEL x s0 (conj H (K_B _ _ _ _ H (or_intror eq_refl)))) as H'.
      step_with H'; now apply W in H'.
Qed.

Lemma write_value_spec U B x names text :
  spec (write_value t e le false x names text) (fun s => K U B s /\ x < s_next s)
       (fun _ s => K U B s /\ x < s_next s) (K U B).
Proof.
  intros s (HK & Hx). unfold write_value. rewrite mbind_run.
  pose proof (read_chain_spec U B x names s (conj HK Hx)) as H. step_with H; [|exact H].
  destruct H as (H1 & H2 & H3). rewrite mbind_run.
  pose proof (proxy_element_spec U (fun d => B d \/ d = x) (fst r) (snd r) s0 (conj (K_track U B s0 x H1 H2) H3)) as H.
  step_with H; [|now apply K_untrack in H]. destruct H as (H4 & _ & H6). rewrite mbind_run.
  pose proof (K_track U _ s1 r0 H4 H6) as H7.
  pose proof (to_traversal_spec t U _ FUEL r0 s1 (conj H7 H6)) as H. step_with H.
  2:{ apply K_untrack in H. destruct H as [H _]. now apply K_untrack in H. }
  pose proof (set_value_spec U _ r0 text s2 (conj H (K_B _ _ _ _ H (or_intror eq_refl)))) as H'.
  step_with H'.
  - destruct H' as [H' _]. apply K_untrack in H'. destruct H' as [H' _]. now apply K_untrack in H'.
  - apply K_untrack in H'. destruct H' as [H' _]. now apply K_untrack in H'.
Qed.

Lemma write_value_none_spec U B x names :
  spec (write_value_none t le false x names) (fun s => K U B s /\ x < s_next s) (fun _ s => K U B s) (K U B).
Proof.
  intros s (HK & Hx). unfold write_value_none. rewrite mbind_run.
  pose proof (read_chain_spec U B x names s (conj HK Hx)) as H. step_with H; [|exact H].
  destruct H as (H1 & H2 & H3). rewrite mbind_run.
  pose proof (proxy_element_spec U B (fst r) (snd r) s0 (conj H1 H3)) as H.
  step_with H; [|exact H]. destruct H as (H4 & _ & H6). rewrite mbind_run.
  pose proof (to_traversal_spec t U B FUEL r0 s1 (conj H4 H6)) as H. step_with H; [|exact H].
  cbn [mbind node_of]. destruct (n_cls (getn s2 r0)); try exact H.
  now apply (set_val_spec U B r0 [] [] s2).
Qed.

(* ---------- deletion ---------- *)

Lemma remove_child_K U B p c : spec (remove_child p c) (K U B) (fun _ s => K U B s) (K U B).
Proof.
  intros s HK.
  pose proof (remove_child_spec U B p c (n_list (getn s p)) (fun d => n_name (getn s d))
                (oid_eqb (n_tparent (getn s c)) p) s (conj HK (conj eq_refl (conj (fun d => eq_refl) eq_refl)))) as H.
  step_with H; [apply H|exact H].
Qed.

Lemma firstn_skipn_remove1 (l : list nat) i c :
  NoDup l -> nth_error l i = Some c -> firstn i l ++ skipn (S i) l = remove1 c l.
Proof.
  revert i. induction l as [|a l IH]; intros [|i] D; cbn; try discriminate.
  - intros [= ->]. now rewrite Nat.eqb_refl.
  - intros H. inversion D; subst. destruct (Nat.eqb_spec c a) as [->|N].
    + exfalso. apply H2. eapply nth_error_In; eauto.
    + f_equal. now apply IH.
Qed.

Lemma K_removed U B s p c :
  K U B s ->
  K U B (setn s p (with_children (getn s p) (remove1 c (n_list (getn s p)))
                                 (idx_removed (n_name (getn s c)) c (n_idx (getn s p))) (n_tidx (getn s p)))).
Proof.
  intros HK. pose proof HK as (I & C & D). set (P := getn s p). set (k := n_name (getn s c)).
  apply K_set_children; auto.
  - apply NoDup_remove1. apply (I_nodup s I).
  - intros d Hd. apply In_remove1 in Hd. now apply old_member_ok.
  - intros k'. rewrite filter_remove1. unfold idx_removed.
    assert (G : iget k' (if ihas k (n_idx P) then iset k (remove1 c (iget k (n_idx P))) (n_idx P) else n_idx P)
                = if opt_eqb k' k then remove1 c (iget k (n_idx P)) else iget k' (n_idx P)).
    { destruct (ihas k (n_idx P)) eqn:Eh; [apply iget_iset|].
      destruct (opt_eqb_spec k' k) as [E|]; auto. rewrite E. now rewrite (ihas_false_iget _ _ Eh). }
    rewrite G. unfold name_is at 1. fold k. fold P.
    destruct (opt_eqb_spec k' k) as [E|N]; [rewrite E|].
    + unfold P. now rewrite (I_index s I).
    + unfold P. apply (I_index s I).
  - apply tidx_ok_list with (l := n_list P); [apply (I_trav s I)|].
    intros d Hd Hin. apply In_remove1 in Hin. apply In_members in Hd. destruct Hd as (k0 & l1 & A & A').
    destruct (I_trav s I p) as (_ & T & _). destruct (T k0 l1 d A A') as (_ & X & _). tauto.
  - intros d Hd. destruct (C d Hd) as (Hu & _ & _ & X). split; [|apply X].
    intros Hin. apply In_remove1 in Hin. apply (Hu p Hin).
Qed.

Lemma del_list_index_spec U B x i : spec (del_list_index x i) (K U B) (fun _ s => K U B s) (K U B).
Proof.
  intros s HK. unfold del_list_index. cbn [mbind node_of].
  destruct (nth_error (n_list (getn s x)) i) as [c|] eqn:En; [|exact HK].
  rewrite mbind_run. unfold do_rm_idx, modify. cbv beta iota.
  eapply K_ext; [|apply (K_removed U B s x c HK)].
  split; [reflexivity|]. intros j. rewrite !getn_setn. rewrite !Nat.eqb_refl.
  destruct (Nat.eqb j x); [|reflexivity]. cbn [n_list n_idx n_tidx with_children].
  rewrite (firstn_skipn_remove1 _ i c); auto. apply (I_nodup s (K_Inv _ _ _ HK)).
Qed.

Lemma del_child_spec U B x name : spec (del_child t x name) (K U B) (fun _ s => K U B s) (K U B).
Proof.
  intros s HK. unfold del_child, child_at_index. rewrite !mbind_run. cbn [node_of lift]. rewrite !mbind_run. cbn [lift].
  destruct (fcr t (getn s x) (upper name)) as [[cn cr]|ex]; [|exact HK].
  destruct (streqb cn name); cbn [ret].
  - destruct (finder _ _ _) as [c|]; [now apply (remove_child_K U B x c s)|exact HK].
  - destruct (finder _ _ _) as [c|]; [now apply (remove_child_K U B x c s)|exact HK].
Qed.

Lemma remove_by_name_spec U B x name i : spec (remove_by_name t x name i) (K U B) (fun _ s => K U B s) (K U B).
Proof.
  intros s HK. unfold remove_by_name, child_at_index. rewrite !mbind_run. cbn [node_of lift]. rewrite !mbind_run. cbn [lift].
  destruct (fcr t (getn s x) (upper name)) as [[cn cr]|ex]; [|exact HK].
  destruct (streqb cn name); cbn [ret].
  - destruct (finder _ _ _) as [c|]; [now apply (remove_child_K U B x c s)|exact HK].
  - destruct (finder _ _ _) as [c|]; [now apply (remove_child_K U B x c s)|exact HK].
Qed.

Lemma del_attr_spec U B x name :
  spec (del_attr t le false x name) (fun s => K U B s /\ x < s_next s) (fun _ s => K U B s) (K U B).
Proof.
  intros s (HK & Hx). unfold del_attr. cbn [mbind node_of].
  destruct (n_cls (getn s x)); try now apply (del_child_spec U B x name s).
  unfold mcatch.
  pose proof (del_child_spec U (fun d => B d \/ d = x) x name s (K_track U B s x HK Hx)) as H.
  step_with H; [now apply K_untrack in H|].
  apply K_untrack in H. destruct H as [H1 Hx1].
  destruct (is_cnf x0); [|exact H1]. cbn [mbind node_of lift].
  destruct (positional t (getn s0 x) name) as [[cn sub]|ex]; [|exact H1]. cbn [mbind].
  destruct sub as [k|]; [|now apply (del_child_spec U B x cn s0)].
  rewrite mbind_run.
  pose proof (get_proxy_spec U B x name s0 (conj H1 Hx1)) as H. step_with H; [|exact H].
  destruct H as (H2 & _ & _). destruct r as [c pn].
  pose proof (del_child_spec U B c pn s1 H2) as H. step_with H; [exact H|].
  destruct (is_cnf x1); exact H.
Qed.

Lemma add_helper_spec U B x name :
  spec (add_helper t le false x name) (fun s => K U B s /\ x < s_next s)
       (fun c s => K U B s /\ c < s_next s) (K U B).
Proof.
  intros s (HK & Hx). unfold add_helper. cbn [mbind node_of].
  assert (G : match create_element t le false x name false None s with
              | (s', Ok c) => K U B s' /\ c < s_next s' | (s', Err _) => K U B s' end).
  { pose proof (create_element_spec' U B x name false None s (conj HK Hx)) as H. step_with H; tauto. }
  destruct (n_cls (getn s x)); auto. destruct (_ && _); auto.
Qed.

Lemma set_list_index_spec U B x i v :
  spec (set_list_index t e le false x i v) (fun s => K U B s /\ x < s_next s /\ vok U s v)
       (fun _ s => K U B s /\ x < s_next s) (K U B).
Proof.
  intros s (HK & Hx & Hv). unfold set_list_index. cbn [mbind node_of].
  destruct (nth_error (n_list (getn s x)) i) as [c|]; [|exact HK]. cbn [mbind node_of].
  destruct (ihas _ _); cbn [negb]; [|exact HK].
  destruct (index_of c _) as [bi|]; [|exact HK].
  destruct (n_name (getn s c)) as [nm|]; [|exact HK].
  now apply (set_child_spec' U B x nm v (Z.of_nat bi) s).
Qed.

End Steps.
