(* Preservation of K U B (= Inv + frame) by the assignment, traversal, value and deletion operations
   of Model/Heap.v, successful or raising, with the exotic paths switched off (exotic = false). *)
From Coq Require Import List Bool Arith Lia ZArith NArith Init.Byte.
From HL7 Require Import Lib.Str Model.Ec Model.Result Model.Ref Model.Tree Model.Parser Model.Encode Model.Heap.
From HL7 Require Import Proofs.HeapFacts Proofs.HeapInv Proofs.HeapOps Proofs.HeapAlloc.
Import ListNotations.

Lemma K_track U (B : nat -> Prop) s p : K U B s -> p < s_next s -> K U (fun d => B d \/ d = p) s.
Proof. intros (I & C & D) H. split; [|split]; auto. intros d [Hd| ->]; auto. Qed.
Lemma K_untrack U (B : nat -> Prop) s p : K U (fun d => B d \/ d = p) s -> K U B s /\ p < s_next s.
Proof.
  intros H. split; [eapply K_weaken; [| |exact H]; [auto|intros d Hd; now left]|]. destruct H as (_ & _ & D). apply D. now right.
Qed.
Lemma K_B U (B : nat -> Prop) s p : K U B s -> B p -> p < s_next s.
Proof. intros (_ & _ & D). apply D. Qed.
Lemma K_addU (U B : nat -> Prop) s c : K U B s -> cand s c -> K (fun d => U d \/ d = c) B s.
Proof. intros (I & C & D) H. split; [|split]; auto. intros d [Hd| ->]; auto. Qed.
Lemma K_dropU (U B : nat -> Prop) s c : K (fun d => U d \/ d = c) B s -> K U B s.
Proof. apply K_weaken; [intros d Hd; now left|auto]. Qed.

Section Steps.
Variable t : tables.
Variable e : ec.
Variable le : level -> option str -> str -> result str.

(* ---------- creation ---------- *)

Lemma ctor_node_blank P cn cr nd : ctor_node t le P cn cr = Ok nd -> blank nd /\ n_parent nd = None.
Proof.
  unfold ctor_node. destruct (n_cls P).
  - destruct (mk_field _ _ _ _ _); intros [= <-]; repeat split.
  - destruct (mk_component _ _ _ _ _); intros [= <-]; repeat split.
  - destruct (mk_subcomponent _ _ _ _ _ _ _); intros [= <-]; repeat split.
  - discriminate.
Qed.

Lemma set_tparent_some_spec U B c p :
  spec (set_tparent_raw c (Some p)) (fun s => K U B s /\ B p /\ ~ U c /\ cand s c)
       (fun _ s => K U B s /\ addable U s c p) (K U B).
Proof.
  apply spec_modify. intros s (HK & Bp & NU & (Hu & Hb & Ht & Hx)). pose proof HK as (I & C & D).
  set (N := with_tparent (getn s c) (Some p)).
  assert (HK1 : K U B (setn s c N)).
  { split; [|split].
    - apply Inv_setn_core; auto; [repeat split|]. split; [|apply (I_trav s I)].
      intros q [= <-]. auto.
    - intros d Hd. destruct (C d Hd) as (_ & _ & _ & X). apply cand_setn; auto; [|apply X].
      intros ->. contradiction.
    - now apply B_setn. }
  split; [exact HK1|]. split; [exact NU|]. split; [|split].
  - intros q. rewrite list_setn_same by reflexivity. apply Hu.
  - now rewrite next_setn.
  - right. rewrite getn_setn. destruct (Nat.eqb_spec p c) as [->|]; apply Hx.
Qed.

Lemma create_element_spec U B p name trav ref :
  spec (create_element t le false p name trav ref) (fun s => K U B s /\ B p)
       (fun c s => K U B s /\ c < s_next s) (K U B).
Proof.
  intros s (HK & Bp). unfold create_element. cbn [mbind node_of].
  assert (Hhead : forall r : result (str * sref),
            match r with
            | Ok (cname, cref) =>
                match ctor_node t le (getn s p) cname cref with
                | Ok nd => True | Err _ => True end
            | Err _ => True end) by (intros [[? ?]|]; auto; destruct (ctor_node _ _ _ _ _); auto).
  clear Hhead.
  set (r0 := match ref with Some r => ret r | None => lift (fcr t (getn s p) name) end).
  assert (Hr0 : exists r, r0 s = (s, r)).
  { unfold r0. destruct ref; [eexists; reflexivity|]. unfold lift. eexists; reflexivity. }
  destruct Hr0 as [r Hr0]. rewrite mbind_run, Hr0. destruct r as [[cname cref]|x]; [|exact HK].
  cbn [mbind lift]. destruct (ctor_node t le (getn s p) cname cref) as [nd|x] eqn:Ec; [|exact HK].
  destruct (ctor_node_blank _ _ _ _ Ec) as [(Bl & Bi & Bt & Btp) Bpar].
  set (early := if valid_child_name (Some cname) (Some (unbs "VARIES")) && negb (cls_eqb (n_cls (getn s p)) CSeg)
                then None else n_name nd).
  destruct (negb (opt_eqb early (n_name nd))) eqn:Er; cbn [andb negb]; [exact HK|].
  rewrite mbind_run.
  assert (Bn : blank (with_name nd early)) by (repeat split; auto).
  pose proof (alloc_spec U B Fnone (with_name nd early) s (conj HK (conj (frame_none s) Bn))) as H.
  step_with H; [|exact H]. destruct H as (H1 & _ & NU & _ & Hc & Hg).
  (* keep track of the new element's allocation *)
  pose proof (K_track U B s0 r H1 (proj1 (proj2 Hc))) as H1'.
  set (B' := fun d => B d \/ d = r) in *.
  assert (Bp' : B' p) by now left.
  rewrite mbind_run.
  assert (Hattach : match (if trav then set_tparent_raw r (Some p);; add t p r else point_to r p;; add t p r)%heap s0 with
                    | (s', Ok _) => K U B' s' | (s', Err _) => K U B s' end).
  { destruct trav; rewrite mbind_run.
    - pose proof (set_tparent_some_spec U B' r p s0 (conj H1' (conj Bp' (conj NU Hc)))) as H. step_with H.
      2:{ now apply K_untrack in H. }
      pose proof (add_spec t U B' p r s1 H) as H'. step_with H'; [exact H'|]. now apply K_untrack in H'.
    - destruct Hc as (Hu & Hb & _).
      pose proof (point_to_spec U B' r p s0 (conj H1' (conj Hu Hb))) as H. step_with H.
      2:{ now apply K_untrack in H. }
      destruct H as (HK2 & (Hu2 & Hb2 & Hp2) & _).
      assert (HA : addable U s1 r p) by (repeat split; auto; now left).
      pose proof (add_spec t U B' p r s1 (conj HK2 HA)) as H'. step_with H'; [exact H'|]. now apply K_untrack in H'. }
  destruct ((if trav then set_tparent_raw r (Some p);; add t p r else point_to r p;; add t p r)%heap s0) as [s1 [[]|x]];
    [|exact Hattach].
  cbn [mbind ret]. apply K_untrack in Hattach. exact Hattach.
Qed.

Lemma parse_child_spec U B p cn cr text :
  spec (parse_child t e le p cn cr text) (K U B) (fresh_post U B) (K U B).
Proof.
  intros s HK. unfold parse_child. cbn [mbind node_of].
  destruct (n_cls (getn s p)).
  - cbn [mbind lift]. destruct (parse_field _ _ _ _ _ _ _ _); [|exact HK]. now apply (alloc_field_spec t U B).
  - cbn [mbind lift]. destruct (ref_dt cr); [|exact HK]. cbn [mbind lift].
    destruct (parse_component _ _ _ _ _ _ _ _); [|exact HK]. now apply (alloc_comp_spec t U B).
  - cbn [mbind lift]. destruct (ref_dt cr); [|exact HK]. cbn [mbind lift].
    destruct (mk_subcomponent _ _ _ _ _ _ _); [|exact HK]. now apply (alloc_sub_spec t U B).
  - exact HK.
Qed.

(* ---------- lookup ---------- *)

Lemma finder_listed_name s p k i o :
  Inv s -> finder (getn s p) (Some k) i = Some o -> In o (n_list (getn s p)) -> n_name (getn s o) = Some k.
Proof.
  intros I. unfold finder. destruct (nth_error (iget (Some k) (n_idx (getn s p))) i) as [c|] eqn:E1.
  - intros [= <-] _. apply nth_error_In in E1. rewrite (I_index s I) in E1. apply filter_In in E1.
    destruct E1 as [_ E1]. unfold name_is in E1. destruct (opt_eqb_spec (Some k) (n_name (getn s c))); congruence.
  - intros E2 Hin. apply nth_error_In in E2.
    assert (Hb : In (Some k, iget (Some k) (n_tidx (getn s p))) (n_tidx (getn s p))).
    { apply iget_In_binding. intros E. rewrite E in E2. destruct E2. }
    destruct (I_trav s I p) as (_ & T & _). destruct (T _ _ _ Hb E2) as (_ & X & _). tauto.
Qed.

Lemma finder_allocated s p k i o : Inv s -> finder (getn s p) k i = Some o -> o < s_next s.
Proof.
  intros I. unfold finder. destruct (nth_error (iget k (n_idx (getn s p))) i) as [c|] eqn:E1.
  - intros [= <-]. apply nth_error_In in E1. rewrite (I_index s I) in E1. apply filter_In in E1.
    apply (I_bound s I p). tauto.
  - intros E2. apply nth_error_In in E2.
    assert (Hb : In (k, iget k (n_tidx (getn s p))) (n_tidx (getn s p))).
    { apply iget_In_binding. intros E. rewrite E in E2. destruct E2. }
    destruct (I_trav s I p) as (_ & T & _). destruct (T _ _ _ Hb E2) as (_ & _ & X). exact X.
Qed.

(* the guarded lookup of ElementList.set: the child found (if listed) carries the name asked for *)
Lemma child_at_index_spec (P : store -> Prop) p name i :
  (forall s, P s -> Inv s) ->
  spec (child_at_index t true p name i) P
       (fun r s => P s /\ forall o, r = Some o ->
                    o < s_next s /\ (In o (n_list (getn s p)) -> n_name (getn s o) = Some name)) P.
Proof.
  intros HI s HP. unfold child_at_index. cbn [mbind node_of lift].
  destruct (fcr t (getn s p) (upper name)) as [[cn cr]|x]; [|exact HP]. cbn [mbind].
  destruct (streqb cn name); [|exact HP]. cbn [ret]. split; auto. intros o Ho. symmetry in Ho. split.
  - eapply finder_allocated; eauto.
  - eapply finder_listed_name; eauto.
Qed.

(* ---------- ElementList.set ---------- *)

Definition vok (U : nat -> Prop) (s : store) (v : value) : Prop :=
  match v with
  | VText _ => True
  | VElem c => ~ U c /\ cand s c
  | VProxy _ _ => True
  | VDt _ _ => False
  end.

Lemma set_child_spec U B p name v index :
  spec (set_child t e le false p name v index) (fun s => K U B s /\ B p /\ vok U s v) (fun _ s => K U B s) (K U B).
Proof.
  intros s (HK & Bp & Hv). unfold set_child. rewrite mbind_run.
  (* the proxy conversion reads only *)
  assert (Hconv : exists r, (match v with
                             | VProxy o pn =>
                                 (let! O := node_of o in
                                  match iget (Some pn) (n_idx O) with
                                  | [] => raise (Crash IndexError)
                                  | c :: _ => fun s0 => (s0, Ok (VText (to_er7 t e s0 c false)))
                                  end)%heap
                             | _ => ret v
                             end) s = (s, r) /\ match r with Ok v' => vok U s v' | Err _ => True end).
  { destruct v; try (eexists; split; [reflexivity|exact Hv]).
    cbn [mbind node_of]. destruct (iget (Some name0) (n_idx (getn s owner))); eexists; split; try reflexivity; exact I. }
  destruct Hconv as (r & -> & Hv'). destruct r as [v'|x]; [|exact HK]. clear v Hv.
  cbn [mbind node_of lift]. destruct (fcr t (getn s p) (upper name)) as [[cname cref]|x]; [|exact HK].
  cbn [mbind]. rewrite mbind_run.
  (* the child to attach: freshly parsed, or the element handed in *)
  assert (Hchild : match (match v' with
                          | VText txt => parse_child t e le p cname cref txt
                          | VElem c => ret c
                          | VDt dt txt => (let! c := create_element t le false p (upper name) false (Some (cname, cref)) in
                                           set_value_dt t le 3 c dt txt;; ret c)%heap
                          | VProxy _ _ => raise OutOfFuel
                          end) s with
                   | (s', Ok c) => K U B s' /\ ~ U c /\ cand s' c
                   | (s', Err _) => K U B s'
                   end).
  { destruct v' as [txt|c| |]; try exact HK; try destruct Hv'.
    - apply (parse_child_spec U B p cname cref txt s HK).
    - cbn [ret]. auto. }
  destruct ((match v' with
             | VText txt => parse_child t e le p cname cref txt
             | VElem c => ret c
             | VDt dt txt => (let! c := create_element t le false p (upper name) false (Some (cname, cref)) in
                              set_value_dt t le 3 c dt txt;; ret c)%heap
             | VProxy _ _ => raise OutOfFuel
             end) s) as [s1 [child|x]]; [|exact Hchild].
  destruct Hchild as (HK1 & NU & Hc). cbn [mbind node_of].
  destruct (opt_eqb_spec (n_name (getn s1 child)) (Some cname)) as [En|]; cbn [negb]; [|exact HK1].
  rewrite mbind_run. cbn [negb].
  pose proof (child_at_index_spec (fun s' => K U B s' /\ cand s' child /\ n_name (getn s' child) = Some cname) p cname index
                (fun s' H => K_Inv _ _ _ (proj1 H)) s1 (conj HK1 (conj Hc En))) as H.
  step_with H; [|apply H]. destruct H as ((HK2 & Hc2 & En2) & Hold). rewrite mbind_run.
  assert (Hatt : match (match r with None => append t p child | Some o => replace_child t p o child end) s0 with
                 | (s', Ok _) => K U B s' | (s', Err _) => K U B s' end).
  { destruct r as [o|].
    - pose proof (replace_child_spec t U B p o child s0) as H. cbv beta in H.
      assert (Hn : In o (n_list (getn s0 p)) -> n_name (getn s0 o) = n_name (getn s0 child)).
      { intros Hin. destruct (Hold o eq_refl) as [_ X]. now rewrite (X Hin). }
      specialize (H (conj HK2 (conj NU (conj Hc2 Hn)))).
      destruct (replace_child t p o child s0) as [s' [[]|x]]; exact H.
    - pose proof (append_spec t U B p child s0 (conj HK2 (cand_addable U s0 child p NU Hc2))) as H.
      destruct (append t p child s0) as [s' [[]|x]]; exact H. }
  destruct ((match r with None => append t p child | Some o => replace_child t p o child end) s0) as [s2 [[]|x]];
    [|exact Hatt].
  apply (to_traversal_spec t U B FUEL p s2). split; auto. eapply K_B; eauto.
Qed.

(* the same with "p is allocated" as a plain precondition *)
Lemma set_child_spec' U B p name v index :
  spec (set_child t e le false p name v index) (fun s => K U B s /\ p < s_next s /\ vok U s v)
       (fun _ s => K U B s /\ p < s_next s) (K U B).
Proof.
  intros s (HK & Hp & Hv).
  pose proof (set_child_spec U (fun d => B d \/ d = p) p name v index s
                (conj (K_track U B s p HK Hp) (conj (or_intror eq_refl) Hv))) as H.
  step_with H; [now apply K_untrack|now apply K_untrack in H].
Qed.
Lemma create_element_spec' U B p name trav ref :
  spec (create_element t le false p name trav ref) (fun s => K U B s /\ p < s_next s)
       (fun c s => K U B s /\ p < s_next s /\ c < s_next s) (K U B).
Proof.
  intros s (HK & Hp).
  pose proof (create_element_spec U (fun d => B d \/ d = p) p name trav ref s
                (conj (K_track U B s p HK Hp) (or_intror eq_refl))) as H.
  step_with H; [|now apply K_untrack in H]. destruct H as [H H']. apply K_untrack in H. tauto.
Qed.

(* ---------- lazy traversal ---------- *)

Lemma proxy_element_spec U B p pn :
  spec (proxy_element t le false p pn) (fun s => K U B s /\ p < s_next s)
       (fun c s => K U B s /\ p < s_next s /\ c < s_next s) (K U B).
Proof.
  intros s (HK & Hp). unfold proxy_element. cbn [mbind node_of]. pose proof (K_Inv _ _ _ HK) as I.
  destruct (iget (Some pn) (n_idx (getn s p))) as [|c l] eqn:E1.
  - destruct (iget (Some pn) (n_tidx (getn s p))) as [|c l] eqn:E2.
    + now apply (create_element_spec' U B p pn true None s).
    + cbn [ret]. refine (conj HK (conj Hp _)).
      assert (Hb : In (Some pn, c :: l) (n_tidx (getn s p))) by (rewrite <- E2; apply iget_In_binding; congruence).
      destruct (I_trav s I p) as (_ & T & _). destruct (T _ _ c Hb (or_introl eq_refl)) as (_ & _ & X). exact X.
  - cbn [ret]. refine (conj HK (conj Hp _)).
    assert (Hin : In c (iget (Some pn) (n_idx (getn s p)))) by (rewrite E1; now left).
    rewrite (I_index s I) in Hin. apply filter_In in Hin. apply (I_bound s I p). tauto.
Qed.

Lemma get_proxy_spec U B x name :
  spec (get_proxy t le false x name) (fun s => K U B s /\ x < s_next s)
       (fun r s => K U B s /\ x < s_next s /\ fst r < s_next s) (K U B).
Proof.
  intros s (HK & Hx). unfold get_proxy. cbn [mbind node_of].
  destruct (n_cls (getn s x)).
  - cbn [mbind lift]. destruct (proxy_name_plain t (getn s x) name); cbn [ret]; auto.
  - unfold mcatch. cbn [mbind lift].
    destruct (proxy_name_plain t (getn s x) name) as [pn|ex]; cbn [ret]; auto.
    destruct (is_cnf ex); [|exact HK]. cbn [mbind lift node_of].
    destruct (positional t (getn s x) name) as [[cn sub]|ex2]; [|exact HK]. cbn [mbind node_of lift].
    destruct (proxy_name_plain t (getn s x) cn) as [pn|ex3]; [|exact HK]. cbn [mbind].
    destruct sub as [k|]; [|cbn [ret]; auto].
    rewrite mbind_run. cbn [lift].
    match goal with |- context [match ?r with Ok a => _ | Err x0 => (s, Err x0) end] => destruct r as [cdt|ex4] end;
      [|exact HK].
    rewrite mbind_run.
    pose proof (proxy_element_spec U B x pn s (conj HK Hx)) as H. step_with H; [|exact H].
    destruct H as (H1 & H2 & H3). cbn [mbind node_of lift].
    destruct (proxy_name_plain t (getn s0 r) _) as [pn2|ex5]; cbn [ret]; auto.
    destruct (is_cnf ex5); cbn [raise]; exact H1.
  - cbn [mbind lift]. destruct (proxy_name_plain t (getn s x) name); cbn [ret]; auto.
  - cbn [mbind lift]. destruct (proxy_name_plain t (getn s x) name); cbn [ret]; auto.
Qed.

Lemma walk_spec U B names : forall pr,
  spec (walk t le false pr names) (fun s => K U B s /\ fst pr < s_next s)
       (fun r s => K U B s /\ fst r < s_next s) (K U B).
Proof.
  induction names as [|n names IH]; intros pr s (HK & Hp); cbn [walk].
  - cbn [ret]. auto.
  - rewrite mbind_run. unfold step_proxy. rewrite mbind_run.
    pose proof (proxy_element_spec U B (fst pr) (snd pr) s (conj HK Hp)) as H. step_with H; [|exact H].
    destruct H as (H1 & _ & H3).
    pose proof (get_proxy_spec U B r n s0 (conj H1 H3)) as H. step_with H; [|exact H].
    destruct H as (H4 & _ & H5). now apply IH.
Qed.

Lemma read_chain_spec U B x names :
  spec (read_chain t le false x names) (fun s => K U B s /\ x < s_next s)
       (fun r s => K U B s /\ x < s_next s /\ fst r < s_next s) (K U B).
Proof.
  intros s (HK & Hx). destruct names as [|n names]; cbn [read_chain]; [exact HK|].
  rewrite mbind_run.
  pose proof (get_proxy_spec U (fun d => B d \/ d = x) x n s (conj (K_track U B s x HK Hx) Hx)) as H.
  step_with H; [|now apply K_untrack in H]. destruct H as (H1 & _ & H3).
  pose proof (walk_spec U (fun d => B d \/ d = x) names r s0 (conj H1 H3)) as H. step_with H; [|now apply K_untrack in H].
  destruct H as (H4 & H5). apply K_untrack in H4. tauto.
Qed.

Lemma read_value_spec U B x names :
  spec (read_value t e le false x names) (fun s => K U B s /\ x < s_next s)
       (fun _ s => K U B s /\ x < s_next s) (K U B).
Proof.
  intros s (HK & Hx). unfold read_value. rewrite mbind_run.
  pose proof (read_chain_spec U B x names s (conj HK Hx)) as H. step_with H; [|exact H].
  destruct H as (H1 & H2 & H3). rewrite mbind_run.
  pose proof (proxy_element_spec U (fun d => B d \/ d = x) (fst r) (snd r) s0 (conj (K_track U B s0 x H1 H2) H3)) as H.
  step_with H; [|now apply K_untrack in H]. destruct H as (H4 & _). now apply K_untrack in H4.
Qed.

End Steps.
