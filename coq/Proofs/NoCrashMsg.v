(* C15, message level, the flat path: parse_message(text, find_groups=False) never leaks a crash.
   get_message_info is total (Proofs/HeaderFacts.v); the Message constructor needs the message
   reference to resolve row by row and its MSH row to be the MSH segment definition; every line
   goes through parse_segment (Proofs/NoCrash.v); Message.add only raises the library's exceptions.
   The grouped path (find_groups=True, the group search of Model/Groups.v) is NOT covered here. *)
From Coq Require Import List Bool Arith ZArith NArith Lia Init.Byte.
From HL7 Require Import Lib.Str Model.Ec Model.Result Model.Header Model.Ref Model.Tree Model.Parser Model.Encode
     Model.Leaf Model.MsgTree Model.Groups Model.Message Model.Wf.
From HL7 Require Import Gen.Params Gen.Tables.
From HL7 Require Import Proofs.HeaderFacts Proofs.RoundTripStr Proofs.RoundTripSeg Proofs.RoundTripTables
     Proofs.NoCrash Proofs.NoCrashTables.
Import ListNotations.
Open Scope bs_scope.
Open Scope res_scope.

Notation sph := (sp hl7_only).

(* ---------- _parse_structure on rows that all resolve ---------- *)
Lemma parse_children_total cs : (forall o, In o cs -> o <> None) ->
  forall seen ord byn byl reps, exists res, parse_children cs seen ord byn byl reps = Ok res.
Proof.
  induction cs as [|[[name r mn mx k]|] rest IH]; intros H seen ord byn byl reps; cbn [parse_children].
  - eauto.
  - apply IH. intros o Ho. apply H. now right.
  - exfalso. exact (H None (or_introl eq_refl) eq_refl).
Qed.

(* every entry of the by-name map comes from a row; its key is the row's name, possibly suffixed *)
Lemma parse_children_entries cs : forall seen ord byn byl reps o b l r,
  parse_children cs seen ord byn byl reps = Ok (o, b, l, r) ->
  forall key en, In (key, en) b ->
    In (key, en) byn \/
    exists vc, In (Some vc) cs /\ se_ref en = vc_ref vc /\
               (key = vc_name vc \/ exists k, key = vc_name vc ++ "_" ++ nat_to_str k).
Proof.
  induction cs as [|[[name rf mn mx k]|] rest IH]; intros seen ord byn byl reps o b l r H key en Hin;
    cbn [parse_children] in H.
  - injection H as _ <- _ _. left. now apply in_rev.
  - destruct (IH _ _ _ _ _ _ _ _ _ H key en Hin) as [[E|Hb]|[vc [Hvc Hr]]].
    + right. exists (mk_vchild name rf mn mx k). split; [now left|]. injection E as <- <-. cbn.
      split; [reflexivity|]. destruct (slookup name byn); eauto.
    + now left.
    + right. exists vc. split; [now right|exact Hr].
  - discriminate.
Qed.

Section Msg.
Variable t : tables.
Hypothesis Hst : base t (Some (unbs "ST")) = true.
Hypothesis Hfields : forall n r, slookup n (t_fields t) = Some r -> ref_ok t r.
Hypothesis Hcomps : forall n r, slookup n (t_components t) = Some r -> ref_ok t r.
Hypothesis Hsegs : forall n r, length n <= 3 -> slookup n (t_segments t) = Some r -> seg_good t n r.

(* a message definition: every row resolves, and a row named MSH is the MSH segment definition *)
Definition msg_good (r : sref) : Prop :=
  exists c rows info, r = SSeqIn c rows info /\
    forall row, In row rows -> exists vc, row_view t row = Some vc /\
      (vc_name vc = unbs "MSH" -> slookup (unbs "MSH") (t_segments t) = Some (vc_ref vc)).
Hypothesis Hmsgs : forall n r, slookup n (t_messages t) = Some r -> msg_good r.

Variable lvl : level.

Definition msh_ref_ok (m : message) : Prop :=
  match m_st m with
  | Some st => forall r, ref_in (Some st) (unbs "MSH") = Some r -> seg_good t (unbs "MSH") r
  | None => True
  end.

Lemma msg_structure r : msg_good r ->
  exists st, parse_structure t r = Ok st /\
    forall r', ref_in (Some st) (unbs "MSH") = Some r' -> seg_good t (unbs "MSH") r'.
Proof.
  intros [c [rows [info [-> Hrows]]]]. unfold parse_structure. cbn [view_of].
  destruct (parse_children_total (map (row_view t) rows)) with (seen := @nil str) (ord := @nil str)
    (byn := @nil (str * sentry)) (byl := @nil (option str * sentry)) (reps := @nil (str * (Z * Z)))
    as [[[[o b] l] rp] E].
  { intros x Hx. apply in_map_iff in Hx. destruct Hx as [row [<- Hrow]].
    destruct (Hrows row Hrow) as [vc [-> _]]. discriminate. }
  rewrite E. eexists. split; [reflexivity|].
  intros r' H. unfold ref_in in H. cbn [st_ordered] in H.
  destruct (by_name _ (unbs "MSH")) as [en|] eqn:B; [|discriminate]. cbn [option_map] in H. injection H as <-.
  unfold by_name in B. cbn [st_by_name] in B. apply slookup_in in B. apply in_rev in B.
  destruct (parse_children_entries _ _ _ _ _ _ _ _ _ _ E _ _ B) as [[]|[vc [Hvc [Hr Hk]]]].
  apply in_map_iff in Hvc. destruct Hvc as [row [Hv Hrow]].
  destruct (Hrows row Hrow) as [vc' [Hv' Hm]]. rewrite Hv in Hv'. injection Hv' as <-.
  assert (N : vc_name vc = unbs "MSH").
  { destruct Hk as [Hk|[k Hk]]; [now symmetry|exfalso].
    assert (M : bmem "_" (unbs "MSH") = true).
    { rewrite Hk. unfold bmem, mem. rewrite existsb_app. cbn [unbs app existsb]. rewrite beqb_refl.
      cbn [orb]. apply orb_true_r. }
    discriminate M. }
  rewrite Hr. apply Hsegs; [cbn; lia|exact (Hm N)].
Qed.

Lemma new_message_safe e name : sph TT (new_message lvl t e name).
Proof.
  unfold new_message. apply (sp_bind hl7_only msh_ref_ok).
  - destruct name as [n0|]; [|exact I].
    destruct (slookup (upper n0) (t_messages t)) as [r|] eqn:E.
    + destruct (msg_structure r (Hmsgs _ _ E)) as [st [-> Hm]]. cbn [bind]. exact Hm.
    + destruct (valid_z_message_name (Some n0)); [|exact I].
      change (parse_structure t empty_seq) with (Ok (mk_structure empty_seq (Some []) [] [] [] None)).
      cbn [bind]. intros r H. discriminate.
  - intros m Hm. destruct (_ && _); [exact I|].
    apply (sp_bind hl7_only TT).
    + eapply sp_weaken; [|apply (mk_segment_safe_ref hl7_only hl7_only_hl7 t Hsegs (unbs "MSH")); [cbn; lia|]].
      * intros; exact I.
      * change (upper (unbs "MSH")) with (unbs "MSH"). unfold msh_ref_ok in Hm.
        destruct (m_st m) as [st|]; [exact Hm|discriminate].
    + intros _ _. apply (sp_bind hl7_only TT); [unfold check_ec; destruct (nodupb _ _); exact I|].
      intros; exact I.
Qed.

(* Message.add(child) only raises the library's exceptions *)
Lemma add_all_safe kids : forall m, sph TT (add_all lvl t m kids).
Proof.
  induction kids as [|k rest IH]; intros m; [exact I|]. cbn [add_all].
  apply (sp_bind hl7_only TT); [|intros; apply IH].
  destruct (node_str_name k) as [n|]; [|destruct (is_strict lvl); exact I].
  unfold child_acceptance. apply (sp_bind hl7_only TT).
  - unfold find_child_check.
    repeat match goal with |- sp _ _ (if ?b then _ else _) => destruct b end; exact I.
  - intros _ _. destruct (child_card_ok _ _ _ _); exact I.
Qed.

(* parse_segments(..., find_groups=False) *)
Lemma parse_flat_safe e leaf ps : (forall dt s, sph TT (leaf dt s)) -> sph TT (parse_flat t lvl e leaf ps).
Proof.
  intros Hl. induction ps as [|s r IH]; [exact I|]. cbn [parse_flat].
  apply (sp_bind hl7_only TT).
  - unfold seg_of_piece. eapply sp_weaken; [|apply (parse_segment_safe hl7_only hl7_only_hl7 t Hst Hfields Hcomps Hsegs lvl e leaf Hl)].
    intros; exact I.
  - intros x _. apply (sp_bind hl7_only TT); [exact IH|]. intros; exact I.
Qed.

End Msg.

(* ---------- the shipped tables ---------- *)
Definition msg_goodb (t : tables) (r : sref) : bool :=
  match r with
  | SSeqIn _ rows _ =>
      forallb (fun row => match row with
                          | SByName k name _ _ =>
                              opt_is_some (slookup name (table_of t k)) &&
                              (negb (streqb name (unbs "MSH")) || kind_eqb k SEG)
                          | _ => false
                          end) rows
  | _ => false
  end.
Definition msgs_tables_ok (t : tables) : bool := forallb (fun p : str * sref => msg_goodb t (snd p)) (t_messages t).

Lemma all_msgs_tables_ok : forallb (fun p => msgs_tables_ok (snd p)) all_tables = true.
Proof. vm_compute. reflexivity. Qed.

Lemma msg_goodb_sound t r : msg_goodb t r = true -> msg_good t r.
Proof.
  destruct r as [i|i|c rows info|]; cbn [msg_goodb]; try discriminate. intros H.
  exists c, rows, info. split; [reflexivity|]. intros row Hrow. rewrite forallb_forall in H. specialize (H row Hrow).
  destruct row as [k name mn mx| |]; try discriminate. apply andb_prop in H. destruct H as [H1 H2].
  cbn [row_view]. destruct (slookup name (table_of t k)) as [r|] eqn:E; [|discriminate].
  eexists. split; [reflexivity|]. cbn [vc_name vc_ref]. intros ->. rewrite streqb_refl in H2. cbn in H2.
  apply kind_eqb_eq in H2. subst k. exact E.
Qed.

Lemma shipped_msgs_good v t : tables_of v = Some t ->
  forall n r, slookup n (t_messages t) = Some r -> msg_good t r.
Proof.
  intros Ht n r H. apply msg_goodb_sound.
  pose proof (lookup_forallb (fun _ x => msgs_tables_ok x) all_tables v t all_msgs_tables_ok Ht) as F.
  cbv beta in F. unfold msgs_tables_ok in F. rewrite forallb_forall in F.
  exact (F (n, r) (slookup_in _ _ _ H)).
Qed.

(* parse_message(text, validation_level=lvl, find_groups=False) with the shipped libraries: a
   Message or one of the library's exceptions, for every text *)
Theorem parse_message_flat_safe dflt lvl text : sph TT (parse_message tables_of dflt lvl false text).
Proof.
  unfold parse_message.
  apply (sp_bind hl7_only TT).
  { destruct (get_message_info_total (lstrip text)) as [[x ->]|[->| ->]]; exact I. }
  intros [[e structure] version] _.
  set (v := match version with Some v => v | None => dflt end).
  destruct (tables_of v) as [t|] eqn:Ht; [|exact I]. cbn [bind].
  destruct (shipped_premises v t Ht) as [H1 [H2 [H3 H4]]].
  pose proof (shipped_msgs_good v t Ht) as H5.
  apply (sp_bind hl7_only TT).
  { apply (sp_fallback hl7_only TT (fun _ => new_message lvl t e structure)); now apply new_message_safe. }
  intros m _.
  assert (F : sph TT (parse_segments_flat t lvl e (leaf_enc v lvl e) (lstrip text))).
  { unfold parse_segments_flat. apply parse_flat_safe; auto. apply leaf_enc_safe. }
  apply (sp_bind hl7_only TT).
  { destruct (m_st m); exact F. }
  intros kids _. apply (sp_bind hl7_only TT); [apply add_all_safe|]. intros; exact I.
Qed.
