(* C15, "validate(return_errors=True) returns a report instead of raising", MESSAGE level.
   Model/Validate.v v_message / v_node make every partial operation of validation.py explicit; this
   file shows that none of them is reachable when the validator runs on a Message that
   Model/Message.parse_message built from text (both find_groups modes, both levels):
       parse_message ... text = Ok (t, m)  ->  exists log, v_message t lvl e' m = Ok log.
   Ingredients:
   - segment level: Proofs/ValidateTotal.v (`seg_post`, v_seg_total), plus `own_ref`: the structure of a
     parsed non-Z segment is the one of the segment table's entry of its name, which is also the
     reference every row of a message / group reference holds against it;
   - a tree invariant `nok`: every group node carries the structure of the group table's entry of its
     name, is a declared GRP child of its parent's reference, and its reference is `mref`: rows
     written by name, resolving, upper case, group names longer than 3 characters and different from
     the segment names of the same reference, no long names (so that find_child_reference resolves a
     declared name to itself);
   - the group search only opens groups that lie on the path to a segment row the search FOUND
     (`grp_all`, a new invariant of the loop of Model/Groups.v): this is what keeps the `None`
     references of the v2.1 ORU_R03 groups (SIn SEG _ SBad rows, which the model's validator would
     raise TypeError on) out of every parsed tree: those groups are never opened;
   - the table premise `msg_tables_ok` (one boolean check: every message reference is clean, every entry
     of the group table is clean or dead; decided for every shipped version in
     Proofs/ValidateTotalMsgTables.v). *)
From Coq Require Import List Bool Arith ZArith NArith Lia Init.Byte.
From HL7 Require Import Lib.Str Model.Ec Model.Result Model.Ref Model.Tree Model.Parser Model.Encode
     Model.MsgTree Model.Groups Model.Message Model.Validate Model.Wf.
From HL7 Require Import Proofs.RoundTripStr Proofs.RoundTripCore Proofs.RoundTripSeg Proofs.NoDrop Proofs.NoCrash
     Proofs.ValidateTotal Proofs.GroupsFacts Proofs.GroupsMirror Proofs.NoCrashGroupedCore Proofs.NoCrashGrouped.
From HL7 Require Proofs.RoundTripMsg Proofs.RoundTripMsgTables.
Import ListNotations.
Open Scope bs_scope.
Open Scope res_scope.

(* ------------------------------------------------------------------ *)
(* _parse_structure: every entry is filed under its own name; no long names when no row has one *)

Lemma parse_children_keys cs : forall seen ord byn byl reps o b l r,
  parse_children cs seen ord byn byl reps = Ok (o, b, l, r) ->
  (forall k x, In (k, x) byn -> se_name x = k) ->
  forall k x, In (k, x) b -> se_name x = k.
Proof.
  induction cs as [|[[name rf mn mx kd]|] rest IH]; intros seen ord byn byl reps o b l r H Hb; cbn [parse_children] in H.
  - injection H as _ <- _ _. intros k x Hin. apply in_rev in Hin. now apply Hb.
  - apply (IH _ _ _ _ _ _ _ _ _ H). intros k x [E|Hin]; [|now apply Hb]. injection E as <- <-. reflexivity.
  - discriminate.
Qed.

Lemma parse_children_nolong cs : forall seen ord byn byl reps o b l r,
  parse_children cs seen ord byn byl reps = Ok (o, b, l, r) ->
  (forall vc, In (Some vc) cs -> ref_info (vc_ref vc) = None) -> l = rev byl.
Proof.
  induction cs as [|[[name rf mn mx kd]|] rest IH]; intros seen ord byn byl reps o b l r H Hn; cbn [parse_children] in H.
  - now injection H as _ _ <- _.
  - pose proof (Hn _ (or_introl eq_refl)) as E. cbn [vc_ref] in E. unfold ref_long in H. rewrite E in H.
    apply (IH _ _ _ _ _ _ _ _ _ H). intros vc Hvc. apply Hn. now right.
  - discriminate.
Qed.

Lemma by_name_se_name t r st k x : parse_structure t r = Ok st -> by_name st k = Some x -> se_name x = k.
Proof.
  unfold parse_structure. destruct (view_of t r) as [i|c cs i|]; [| |discriminate].
  - intros H. injection H as <-. discriminate.
  - destruct (parse_children cs [] [] [] [] []) as [[[[o b] l] rp]|] eqn:E; [|discriminate].
    intros H. injection H as <-. unfold by_name. cbn [st_by_name]. intros Hl. apply slookup_in in Hl.
    apply in_rev in Hl. apply (parse_children_keys _ _ _ _ _ _ _ _ _ _ E); [intros k' x' []|exact Hl].
Qed.

Section VTM.
Variable t : tables.
Hypothesis Hst : base t (Some (unbs "ST")) = true.
Hypothesis Hvar : base t (Some (unbs "varies")) = false.
Hypothesis Hgf : forall n r, slookup n (t_fields t) = Some r -> ValidateTotal.gref t r.
Hypothesis Hgc : forall n r, slookup n (t_components t) = Some r -> ValidateTotal.gref t r.
Hypothesis Hgs : forall n r, length n <= 3 -> slookup n (t_segments t) = Some r -> gseg t n r.

(* ------------------------------------------------------------------ *)
(* segments *)

(* the structure of a non-Z segment is the one of the segment table's entry of its name *)
Definition own_ref (s : seg) : Prop :=
  seg_is_z s = false -> slookup (s_name s) (t_segments t) = Some (st_reference (s_st s)).
Definition sgood (s : seg) : Prop := seg_post t s /\ own_ref s.

Lemma mk_segment_own_ref name s0 : mk_segment t name None = Ok s0 ->
  s_name s0 = upper name /\
  (valid_z_segment_name name = false -> slookup (upper name) (t_segments t) = Some (st_reference (s_st s0))).
Proof.
  unfold mk_segment. destruct (valid_z_segment_name name).
  - intros H. apply bind_ok in H. destruct H as (st & _ & H). injection H as <-. split; [reflexivity|discriminate].
  - unfold structure_for, load_reference. cbn [table_of].
    destruct (slookup (upper name) (t_segments t)) as [r|] eqn:E; [|discriminate].
    destruct (parse_structure t r) as [st|] eqn:P; [|discriminate]. cbn [bind].
    destruct (parse_structure_info t r st P) as [_ Er].
    assert (Q : forall inf la l, s0 = mk_seg (upper name) st inf la l [] ->
                s_name s0 = upper name /\ (false = false -> Some r = Some (st_reference (s_st s0)))).
    { intros inf la l ->. cbn. split; [reflexivity|]. intros _. now rewrite Er. }
    destruct (st_ordered st) as [ord|]; [|intros H; injection H as <-; eapply Q; reflexivity].
    destruct (last_opt ord) as [lastk|]; [|intros H; injection H as <-; eapply Q; reflexivity].
    destruct (by_name st lastk) as [en|]; [|discriminate].
    destruct (py_int_ok _); [|discriminate]. intros H; injection H as <-; eapply Q; reflexivity.
Qed.

Lemma parse_segment_sgood lvl e leaf text : pc sgood (parse_segment t lvl e leaf text None).
Proof.
  apply pc_and; [exact (parse_segment_post t Hst Hvar Hgf Hgc Hgs lvl e leaf text)|].
  eapply sp_post; [apply pc_eq|]. intros s Es _.
  unfold parse_segment in Es. apply bind_ok in Es. destruct Es as (s0 & H0 & Es).
  unfold parse_segment_in in Es. apply bind_ok in Es. destruct Es as (kids & _ & Es).
  pose proof (add_fields_st t _ _ _ _ Es) as Est. apply add_fields_appends in Es. destruct Es as [_ En].
  destruct (mk_segment_own_ref _ _ H0) as [N0 O0].
  unfold own_ref, seg_is_z. rewrite En, Est, N0, valid_z_upper'. exact O0.
Qed.

(* the validator on a good segment, for every reference that can be held against it *)
Lemma v_seg_any e ro s : sgood s ->
  seg_is_z s = true \/ ref_or_load (t_segments t) (Some (s_name s)) ro = Some (st_reference (s_st s)) ->
  exists l, v_seg t e ro s = Ok l.
Proof.
  intros [Hp _] Hh. destruct (v_seg_total t Hst Hvar Hgf Hgc e s Hp) as [l El]. exists l. rewrite <- El.
  unfold v_seg. destruct (seg_is_z s); [reflexivity|]. destruct Hh as [Hh|Hh]; [discriminate|].
  rewrite Hh. reflexivity.
Qed.

(* ------------------------------------------------------------------ *)
(* message / group references *)

Definition grp_names (rows : list srow) : list str :=
  flat_map (fun x => match x with SByName GRP g _ _ => [g] | SIn GRP g _ _ _ => [g] | _ => [] end) rows.

Definition mrow (rows : list srow) (x : srow) : Prop :=
  (exists g mn mx gr, x = SByName GRP g mn mx /\ upper g = g /\ 3 < length g /\
      slookup g (t_groups t) = Some gr /\ ref_info gr = None) \/
  (exists n mn mx sr, x = SByName SEG n mn mx /\ upper n = n /\ ~ In n (grp_names rows) /\
      slookup n (t_segments t) = Some sr /\ ref_info sr = None).
Definition mrows (rows : list srow) : Prop := forall x, In x rows -> mrow rows x.
Definition mref (r : sref) : Prop := exists c rows i, r = SSeqIn c rows i /\ mrows rows.

Lemma mrow_view rows x : mrow rows x -> exists vc, row_view t x = Some vc /\ ref_info (vc_ref vc) = None.
Proof.
  intros [(g & mn & mx & gr & -> & _ & _ & Hl & Hi)|(n & mn & mx & sr & -> & _ & _ & Hl & Hi)];
    cbn [row_view table_of]; rewrite Hl; eauto.
Qed.

Lemma declared_grp c rows i g gr : mrows rows -> declared t (SSeqIn c rows i) GRP g gr ->
  In g (grp_names rows) /\ slookup g (t_groups t) = Some gr /\ upper g = g /\ 3 < length g.
Proof.
  intros Hm (rows' & x & Hr & Hin & Hk & Href). cbn [rows_of] in Hr. injection Hr as <-.
  destruct (Hm x Hin) as [(g' & mn & mx & gr' & -> & Hu & Hlen & Hl & _)|(n & mn & mx & sr & -> & _)];
    cbn [row_name_kind] in Hk; [|discriminate].
  injection Hk as <-. unfold Groups.row_ref in Href. cbn [row_view table_of] in Href. rewrite Hl in Href.
  cbn [vc_ref] in Href. injection Href as <-. repeat split; try assumption.
  unfold grp_names. apply in_flat_map. exists (SByName GRP g' mn mx). split; [exact Hin|now left].
Qed.

Lemma mref_structure c rows i st : mrows rows -> parse_structure t (SSeqIn c rows i) = Ok st ->
  has_map (Some st) = true /\ (forall k, by_long st k = None) /\ st_reference st = SSeqIn c rows i.
Proof.
  intros Hm Hp. pose proof Hp as Hp0. unfold parse_structure in Hp. cbn [view_of] in Hp.
  destruct (parse_children (map (row_view t) rows) [] [] [] [] []) as [[[[o b] l] rp]|] eqn:E; [|discriminate].
  injection Hp as <-. split; [reflexivity|]. split; [|reflexivity].
  assert (El : l = rev []).
  { apply (parse_children_nolong _ _ _ _ _ _ _ _ _ _ E). intros vc Hvc. apply in_map_iff in Hvc.
    destruct Hvc as (x & Hv & Hx). destruct (mrow_view rows x (Hm x Hx)) as (vc' & Hv' & Hi). congruence. }
  intros k. unfold by_long. cbn [st_by_long]. rewrite El. reflexivity.
Qed.

(* Group/Message.find_child_reference gives a declared name back *)
Lemma resolve_group_canon lvl zmsg r st kids cname n :
  parse_structure t r = Ok st -> (forall k, by_long st k = None) -> upper cname = cname ->
  resolve_group t lvl zmsg (Some st) kids cname = Some n -> n = cname.
Proof.
  intros Hp Hl Hu. unfold resolve_group. destruct (has_named node_name kids cname); [intros H; injection H as <-; exact Hu|].
  rewrite Hu. unfold struct_hit. destruct (has_map (Some st)).
  - destruct (by_name st cname) as [x|] eqn:B.
    + rewrite (by_name_se_name t r st cname x Hp B). intros H. injection H as <-. exact Hu.
    + rewrite Hl. destruct (valid_z_segment_name cname); [intros H; injection H as <-; exact Hu|].
      destruct (known_seg_or_group t cname); [|discriminate].
      destruct (is_strict lvl && negb zmsg); [discriminate|]. intros H; injection H as <-; exact Hu.
  - destruct (valid_z_segment_name cname); [intros H; injection H as <-; exact Hu|].
    destruct (known_seg_or_group t cname); [|discriminate].
    destruct (is_strict lvl && negb zmsg); [discriminate|]. intros H; injection H as <-; exact Hu.
Qed.

(* ------------------------------------------------------------------ *)
(* the invariant of a parsed tree *)

Inductive nok : sref -> node -> Prop :=
  | nok_seg pr s : sgood s -> nok pr (NSeg s)
  | nok_grp pr g r st kids : declared t pr GRP g r -> parse_structure t r = Ok st -> mref r ->
      Forall (nok r) kids -> nok pr (NGrp (Some g) (Some st) kids).

(* the references that can be held against a node: none, or the one its name has in the tables *)
Definition held (ro : option sref) (n : node) : Prop :=
  match n with
  | NSeg s => seg_is_z s = true \/ ref_or_load (t_segments t) (Some (s_name s)) ro = Some (st_reference (s_st s))
  | NGrp (Some g) (Some st) _ => ref_or_load (t_groups t) (Some g) ro = Some (st_reference st)
  | _ => True
  end.

Lemma held_none c rows i k : mrows rows -> nok (SSeqIn c rows i) k -> held None k.
Proof.
  intros Hm Hk. inversion Hk as [pr s Hs|pr g r st kids Hd Hp _ _]; subst; cbn [held ref_or_load].
  - destruct (seg_is_z s) eqn:Z; [now left|right]. exact (proj2 Hs Z).
  - destruct (declared_grp c rows i g r Hm Hd) as (_ & Hl & _). rewrite Hl.
    now rewrite (proj2 (parse_structure_info t r st Hp)).
Qed.

Section Val.
Variable lvl : level.
Variable e : ec.

Definition vtotal (k : node) : Prop :=
  forall pr pn ro, nok pr k -> held ro k -> exists l, v_node t lvl e pn ro k = Ok l.

Lemma kids_seq_total pname zmsg c rows i st kids :
  mrows rows -> parse_structure t (SSeqIn c rows i) = Ok st ->
  Forall (nok (SSeqIn c rows i)) kids -> Forall vtotal kids ->
  exists l, check_seq node_name node_is_z (resolve_group t lvl zmsg (Some st) kids) (v_node t lvl e pname) pname kids
                      (map (row_view t) rows) = Ok l.
Proof.
  intros Hm Hp Hk IH. rewrite Forall_forall in Hk, IH.
  destruct (mref_structure c rows i st Hm Hp) as (_ & Hl & _).
  apply check_seq_total.
  - intros o Ho. apply in_map_iff in Ho. destruct Ho as (x & <- & Hx).
    destruct (mrow_view rows x (Hm x Hx)) as (vc & -> & _). discriminate.
  - intros vc n k Hvc Hres Hin Hnamed. apply in_map_iff in Hvc. destruct Hvc as (x & Hv & Hx).
    pose proof (Hk k Hin) as Hnok. apply (IH k Hin _ pname (Some (vc_ref vc)) Hnok).
    unfold is_named in Hnamed.
    destruct (Hm x Hx) as [(g & mn & mx & gr & -> & Hu & Hlen & Hlk & _)|(nm & mn & mx & sr & -> & Hu & Hnin & Hlk & _)];
      cbn [row_view table_of] in Hv; rewrite Hlk in Hv; injection Hv as <-; cbn [vc_name vc_ref] in *.
    + (* a GRP row *)
      pose proof (resolve_group_canon lvl zmsg _ st kids g n Hp Hl Hu Hres) as ->.
      inversion Hnok as [pr s Hs|pr g' r' st' kids' Hd Hp' _ _]; subst; cbn [node_name] in Hnamed; cbn [held].
      * exfalso. cbn [opt_eqb] in Hnamed. apply streqb_eq in Hnamed.
        destruct Hs as [(_ & _ & H3 & _) _]. rewrite Hnamed in H3. lia.
      * cbn [opt_eqb] in Hnamed. apply streqb_eq in Hnamed. subst g'.
        destruct (declared_grp c rows i g r' Hm Hd) as (_ & Hl' & _).
        cbn [ref_or_load]. rewrite (proj2 (parse_structure_info t r' st' Hp')). congruence.
    + (* a SEG row *)
      pose proof (resolve_group_canon lvl zmsg _ st kids nm n Hp Hl Hu Hres) as ->.
      inversion Hnok as [pr s Hs|pr g' r' st' kids' Hd Hp' _ _]; subst; cbn [node_name] in Hnamed; cbn [held].
      * cbn [opt_eqb] in Hnamed. apply streqb_eq in Hnamed.
        destruct (seg_is_z s) eqn:Z; [now left|right]. cbn [ref_or_load].
        rewrite <- (proj2 Hs Z), Hnamed. now symmetry.
      * exfalso. cbn [opt_eqb] in Hnamed. apply streqb_eq in Hnamed. subst g'.
        destruct (declared_grp c rows i nm r' Hm Hd) as (Hin' & _). exact (Hnin Hin').
  - intros k Hin Zk. apply (IH k Hin _ pname None (Hk k Hin)). exact (held_none c rows i k Hm (Hk k Hin)).
Qed.

Theorem v_node_total k : vtotal k.
Proof.
  induction k as [s|a b cs IH] using node_ind'; intros pr pn ro Hnok Hh.
  - inversion Hnok; subst. cbn [v_node]. now apply v_seg_any.
  - inversion Hnok as [|pr' g r st kids Hd Hp Hm Hk]; subst. cbn [held] in Hh. cbn [v_node]. rewrite Hh.
    destruct (parse_structure_info t r st Hp) as [_ Er]. rewrite Er.
    destruct Hm as (c & rows & i & -> & Hm). cbn [view_of].
    exact (kids_seq_total (Some g) false c rows i st cs Hm Hp Hk IH).
Qed.

(* Message.validate(): the invariant of the message *)
Definition mok (m : message) : Prop :=
  m_name m = None \/
  exists st, m_st m = Some st /\ parse_structure t (st_reference st) = Ok st /\ mref (st_reference st) /\
             Forall (nok (st_reference st)) (m_children m).

Theorem v_message_total m : mok m -> exists l, v_message t lvl e m = Ok l.
Proof.
  intros Hm. unfold v_message. destruct (m_name m) as [mn|] eqn:N; [|eauto].
  destruct Hm as [Hm|(st & Est & Hp & (c & rows & i & Er & Hrows) & Hk)]; [congruence|].
  assert (IH : Forall vtotal (m_children m)) by (apply Forall_forall; intros k _; apply v_node_total).
  rewrite Er in Hp, Hk.
  destruct (Validate.valid_z_message_name mn).
  - apply seq_res_total. intros r Hr. apply in_map_iff in Hr. destruct Hr as (k & <- & Hin).
    rewrite Forall_forall in Hk. apply (v_node_total k _ (Some mn) None (Hk k Hin)).
    exact (held_none c rows i k Hrows (Hk k Hin)).
  - rewrite Est. cbn [option_map ref_or_load]. rewrite Er. cbn [view_of].
    exact (kids_seq_total (Some mn) false c rows i st (m_children m) Hrows Hp Hk IH).
Qed.
End Val.
End VTM.

(* ------------------------------------------------------------------ *)
(* a new invariant of the group search: every group node of the forest has a reference in C, where C
   holds of every group on a path from the message reference to a segment row the search can find *)
Section GrpAll.
Variable t : tables.
Variable X A : Type.
Variable raw : X -> str.
Variable mkseg : X -> option sref -> result A.
Variable nm : A -> str.
Variable acceptance : str * sref * structure -> list str -> str -> result unit.
Variable root : sref.
Variable C : sref -> Prop.
Hypothesis Htab : groups_by_name t root.
Hypothesis HC : forall ex n sr, chain t root ex -> declared t (last_ref root ex) SEG n sr -> sr <> SBad ->
  Forall (fun p : str * sref => C (snd p)) ex.

Notation gstate := (gstate A).
Notation cur_group := (@cur_group A).
Notation add_child := (add_child A nm acceptance).
Notation open_group := (open_group t A nm acceptance).
Notation open_groups := (open_groups t A nm acceptance).
Notation reopen_group := (reopen_group t A nm acceptance).
Notation place := (place X A mkseg nm acceptance).
Notation after_found := (after_found t X A raw mkseg nm acceptance root).
Notation attempts := (attempts t X A raw mkseg nm acceptance root).
Notation step := (step t X A raw mkseg nm acceptance root).
Notation run := (run t X A raw mkseg nm acceptance root).

Fixpoint grp_all (x : gtree A) : Prop :=
  match x with
  | GS _ _ => True
  | GG _ r _ cs => C r /\ (fix all (l : list (gtree A)) : Prop :=
                             match l with [] => True | y :: rest => grp_all y /\ all rest end) cs
  end.
Lemma grp_all_GG n r st cs : grp_all (GG n r st cs) <-> C r /\ Forall grp_all cs.
Proof.
  cbn [grp_all].
  assert (E : forall l : list (gtree A),
             (fix all (l : list (gtree A)) : Prop := match l with [] => True | y :: rest => grp_all y /\ all rest end) l
             <-> Forall grp_all l).
  { induction l as [|y l IH]; split; intros H.
    - constructor.
    - exact I.
    - destruct H as [H1 H2]. constructor; [exact H1 | now apply IH].
    - inversion H; subst. split; [assumption | now apply IH]. }
  rewrite E. reflexivity.
Qed.

Lemma append_grp_all p : forall f x, Forall grp_all f -> grp_all x -> Forall grp_all (append_at p x f).
Proof.
  induction p as [|i p IH]; intros f x Hf Hx.
  - cbn [append_at]. apply Forall_app. split; [exact Hf | now constructor].
  - cbn [append_at]. apply Forall_update_nth; [exact Hf|]. intros y _ Hy.
    destruct y as [a r | n r st cs]; [exact Hy|]. apply grp_all_GG. apply grp_all_GG in Hy.
    destruct Hy as [Hc Hy]. split; [exact Hc|now apply IH].
Qed.

Lemma add_child_grp_all s x s' : Forall grp_all (g_forest s) -> grp_all x -> add_child s x = Ok s' ->
  Forall grp_all (g_forest s').
Proof.
  intros Hf Hx H. destruct (add_child_eq _ _ _ _ _ _ H) as (_ & _ & ->). now apply append_grp_all.
Qed.

Lemma open_group_grp_all s n r s' : Forall grp_all (g_forest s) -> C r -> open_group s n r = Ok s' ->
  Forall grp_all (g_forest s').
Proof.
  intros Hf Hc H. unfold Groups.open_group in H. inv_bind H. inv_bind H. inv_bind H. injection H as <-.
  cbn [g_forest]. apply (add_child_grp_all s _ _ Hf) in Ha1; [exact Ha1|]. apply grp_all_GG. split; [exact Hc|constructor].
Qed.

Lemma open_groups_grp_all ps : forall s s', Forall grp_all (g_forest s) ->
  Forall (fun p : entry => C (snd p)) ps -> open_groups s ps = Ok s' -> Forall grp_all (g_forest s').
Proof.
  induction ps as [|[[n|] r] ps IH]; intros s s' Hf Hps H; cbn [Groups.open_groups] in H.
  - now injection H as <-.
  - inv_bind H. inversion Hps; subst. apply (IH a s'); [|assumption|exact H]. now apply (open_group_grp_all s n r).
  - discriminate.
Qed.

Lemma group_at_grp_all p : forall f n r st cs, Forall grp_all f -> group_at p f = Some (n, r, st, cs) -> C r.
Proof.
  induction p as [|i p IH]; intros f n r st cs Hf H; [discriminate|].
  destruct p as [|j p].
  - cbn [group_at] in H. destruct (nth_error f i) as [[a sr|n' r' st' cs']|] eqn:E; try discriminate.
    injection H as <- <- <- <-. rewrite Forall_forall in Hf. pose proof (Hf _ (nth_error_In _ _ E)) as Hg.
    apply grp_all_GG in Hg. exact (proj1 Hg).
  - change (group_at (i :: j :: p) f) with
      (match nth_error f i with Some (GG _ _ _ cs0) => group_at (j :: p) cs0 | _ => None end) in H.
    destruct (nth_error f i) as [[a sr|n' r' st' cs']|] eqn:E; try discriminate.
    rewrite Forall_forall in Hf. pose proof (Hf _ (nth_error_In _ _ E)) as Hg. apply grp_all_GG in Hg.
    exact (IH cs' n r st cs (proj2 Hg) H).
Qed.

Lemma cur_group_some (s : gstate) n r st cs : cur_group s = Ok (Some (n, r, st, cs)) ->
  exists p, group_at p (g_forest s) = Some (n, r, st, cs).
Proof.
  unfold Groups.cur_group. destruct (g_path s) as [|i p]; [discriminate|].
  destruct (group_at (i :: p) (g_forest s)) as [g|] eqn:E; [|discriminate]. intros H. injection H as ->. eauto.
Qed.

Lemma Forall_skipn {B} (P : B -> Prop) i : forall l, Forall P l -> Forall P (skipn i l).
Proof. induction i as [|i IH]; intros l H; [exact H|]. destruct l; [constructor|]. inversion H; subst. now apply IH. Qed.

Lemma after_found_grp_all x sr s s' : Forall grp_all (g_forest s) ->
  Forall (fun p : entry => C (snd p)) (skipn 1 (g_stack s)) ->
  after_found x sr s = Ok s' -> Forall grp_all (g_forest s').
Proof.
  intros Hf Hstk H. unfold Groups.after_found in H. inv_bind H. rename a into c. inv_bind H. rename a into top.
  inv_bind H. rename a into s2.
  assert (Hsk : forall i, Forall (fun p : entry => C (snd p)) (skipn (S i) (g_stack s))).
  { intros i. change (skipn (S i) (g_stack s)) with (skipn (S i) (g_stack s)).
    destruct (g_stack s) as [|b l]; [constructor|]. cbn [skipn] in *. now apply Forall_skipn. }
  assert (H2 : Forall grp_all (g_forest s2)).
  { destruct c as [[[[n r] st] cs]|].
    - destruct (negb (opt_eqb (fst top) (Some n))).
      + destruct (index_of (Some n, r) (g_stack s) 0); [|discriminate].
        exact (open_groups_grp_all _ s s2 Hf (Hsk _) Ha1).
      + destruct (smem (raw x) (map (child_name nm) cs)).
        * destruct (repetitions_of st (raw x)) as [[mn mx]|]; [|discriminate]. destruct (mx =? 1)%Z.
          -- unfold Groups.reopen_group in Ha1. inv_bind Ha1. destruct a as [[[[n' r'] st'] cs']|]; [|discriminate].
             destruct (cur_group_some s n' r' st' cs' Ha2) as [p Hp].
             pose proof (group_at_grp_all p _ _ _ _ _ Hf Hp) as Hc.
             now apply (open_group_grp_all _ n' r' s2) in Ha1.
          -- now injection Ha1 as <-.
        * now injection Ha1 as <-.
    - destruct (opt_is_some (fst top)).
      + destruct (index_of (None, root) (g_stack s) 0); [|discriminate].
        exact (open_groups_grp_all _ s s2 Hf (Hsk _) Ha1).
      + now injection Ha1 as <-. }
  unfold Groups.place in H. inv_bind H. apply (add_child_grp_all s2 _ s' H2) in H; [exact H|exact I].
Qed.

Lemma attempts_grp_all n x : forall s s', st_closed A s -> stack_ok t root (g_stack s) ->
  Forall grp_all (g_forest s) -> attempts n x s = Ok (Some s') -> Forall grp_all (g_forest s').
Proof.
  induction n as [|n IH]; intros s s' Hc Hk Hf H; cbn [Groups.attempts] in H; [discriminate|].
  inv_bind H. rename a into top. destruct Hk as [Hk|(ex & Hk & Hch)]; [rewrite Hk in Ha; discriminate|].
  inv_bind H. destruct a as [[sr extra]|].
  - inv_bind H. rename a into s1. injection H as <-.
    rewrite Hk in Ha. destruct (last_entry_stack _ _ _ Ha) as (Etop & _). rewrite Etop in Ha0.
    destruct (search_sound _ _ _ _ _ _ Ha0) as (Hce & Hd).
    pose proof (search_not_bad _ _ _ _ _ _ Ha0) as Hnb.
    assert (Est : g_stack s ++ map (fun p : str * sref => (Some (fst p), snd p)) extra = stack_of root (ex ++ extra)).
    { rewrite Hk. unfold stack_of. rewrite map_app. reflexivity. }
    rewrite Est in Ha1.
    apply (after_found_grp_all x sr (mk_gstate (stack_of root (ex ++ extra)) (g_path s) (g_forest s)) s1); [exact Hf| |exact Ha1].
    cbn [g_stack]. unfold stack_of. cbn [skipn].
    assert (Hall : Forall (fun p : str * sref => C (snd p)) (ex ++ extra)).
    { apply (HC (ex ++ extra) (raw x) sr); [now apply chain_app|now rewrite last_ref_app|exact Hnb]. }
    rewrite Forall_forall in *. intros p Hp. apply in_map_iff in Hp. destruct Hp as (q & <- & Hq). exact (Hall q Hq).
  - destruct (g_path s) eqn:Ep.
    + apply (IH s s'); try assumption. right. eauto.
    + apply IH in H; [exact H | | | exact Hf].
      * unfold st_closed. cbn [g_path g_forest]. rewrite <- Ep. now apply closed_removelast.
      * cbn [g_stack]. rewrite Hk. unfold stack_of.
        destruct (list_snoc_cases ex) as [->|(ex' & p & ->)]; [now left|]. right. exists ex'.
        rewrite map_app. cbn [map].
        change ((None, root) :: map (@some_e) ex' ++ [some_e p]) with (((None, root) :: map (@some_e) ex') ++ [some_e p]).
        rewrite removelast_last. split; [reflexivity|].
        apply chain_removelast in Hch. now rewrite removelast_last in Hch.
Qed.

Lemma step_grp_all s x s' : st_closed A s -> stack_ok t root (g_stack s) ->
  Forall grp_all (g_forest s) -> step s x = Ok s' -> Forall grp_all (g_forest s').
Proof.
  unfold Groups.step. intros Hc Hk Hf H. inv_bind H. destruct a as [s1|].
  - injection H as <-. now apply (attempts_grp_all _ _ _ _ Hc Hk Hf Ha).
  - unfold Groups.place in H. inv_bind H. apply (add_child_grp_all s _ s' Hf) in H; [exact H|exact I].
Qed.

Lemma run_grp_all xs : forall s s', st_closed A s -> stack_ok t root (g_stack s) ->
  Forall (sound_tree t X A raw mkseg root) (g_forest s) -> Forall grp_all (g_forest s) ->
  run xs s = Ok s' -> Forall grp_all (g_forest s').
Proof.
  induction xs as [|x xs IH]; intros s s' Hc Hk Hs Hf H; cbn [Groups.run] in H.
  - now injection H as <-.
  - inv_bind H. destruct (step_sound t X A raw mkseg nm acceptance root Htab _ _ _ Hc Hk Hs Ha) as (H1 & H2).
    destruct (step_closed _ _ _ _ _ _ _ _ _ _ _ Hc Ha) as (H3 & _).
    apply (IH a s'); try assumption. exact (step_grp_all _ _ _ Hc Hk Hf Ha).
Qed.

Theorem find_groups_grp_all xs f :
  find_groups t X A raw mkseg nm acceptance root xs = Ok f -> Forall grp_all f.
Proof.
  unfold find_groups. intros H. inv_bind H. injection H as <-.
  apply (run_grp_all xs (init_state A root) a); try assumption.
  - split; constructor.
  - right. exists []. split; [reflexivity | exact I].
  - constructor.
  - constructor.
Qed.
End GrpAll.

(* ------------------------------------------------------------------ *)
(* the table premise, as a boolean check *)
Section TabCheck.
Variable t : tables.

Definition no_info (r : sref) : bool := match ref_info r with None => true | Some _ => false end.
(* a row of a message / group reference the validator can work with *)
Definition mrow_okb (gnames : list str) (x : srow) : bool :=
  match x with
  | SByName GRP g _ _ =>
      streqb (upper g) g && Nat.ltb 3 (length g) &&
      match slookup g (t_groups t) with Some gr => no_info gr | None => false end
  | SByName SEG n _ _ =>
      streqb (upper n) n && negb (smem n gnames) &&
      match slookup n (t_segments t) with Some sr => no_info sr | None => false end
  | _ => false
  end.
Definition cleanb (r : sref) : bool :=
  match r with SSeqIn _ rows _ => let gnames := grp_names rows in forallb (mrow_okb gnames) rows | _ => false end.
(* a group the search never enters: its SEG rows carry no reference (c[1] is None: v2.1 ORU_R03) and
   its GRP rows lead to groups of the same kind *)
Fixpoint deadb (fuel : nat) (r : sref) : bool :=
  match fuel with
  | O => false
  | S f =>
      match r with
      | SSeqIn _ rows _ =>
          forallb (fun x => match x with
                            | SIn SEG _ SBad _ _ => true
                            | SByName GRP g _ _ =>
                                match slookup g (t_groups t) with Some gr => deadb f gr | None => false end
                            | _ => false
                            end) rows
      | _ => false
      end
  end.
(* every entry of the group table is clean or dead *)
Definition groups_okb : bool :=
  forallb (fun p : str * sref => if cleanb (snd p) then true else deadb 12 (snd p)) (t_groups t).
(* no key of the segment table of at most 3 characters is a Z-segment name *)
Definition no_z_keys : bool :=
  forallb (fun p : str * sref => Nat.ltb 3 (length (fst p)) || negb (valid_z_segment_name (fst p))) (t_segments t).
Definition msg_tables_ok : bool :=
  forallb (fun p : str * sref => cleanb (snd p)) (t_messages t) && groups_okb && no_z_keys.

Lemma mrow_okb_sound rows x : mrow_okb (grp_names rows) x = true -> mrow t rows x.
Proof.
  destruct x as [[] n mn mx|k n r mn mx|]; cbn [mrow_okb]; try discriminate; intros H;
    apply andb_prop in H; destruct H as [H H3]; apply andb_prop in H; destruct H as [H1 H2].
  - right. destruct (slookup n (t_segments t)) as [sr|] eqn:E; [|discriminate].
    exists n, mn, mx, sr. split; [reflexivity|]. split; [now apply streqb_eq|].
    split; [apply smem_false; now apply negb_true_iff|]. split; [exact E|].
    unfold no_info in H3. now destruct (ref_info sr).
  - left. destruct (slookup n (t_groups t)) as [gr|] eqn:E; [|discriminate].
    exists n, mn, mx, gr. split; [reflexivity|]. split; [now apply streqb_eq|].
    split; [now apply Nat.ltb_lt|]. split; [exact E|].
    unfold no_info in H3. now destruct (ref_info gr).
Qed.

Lemma cleanb_mref r : cleanb r = true -> mref t r.
Proof.
  destruct r as [i|i|c rows i|]; cbn [cleanb]; try discriminate. cbv zeta. intros H. exists c, rows, i. split; [reflexivity|].
  intros x Hx. apply mrow_okb_sound. rewrite forallb_forall in H. now apply H.
Qed.

Lemma dead_no_find f : forall r ex n sr, deadb f r = true -> chain t r ex ->
  declared t (last_ref r ex) SEG n sr -> sr <> SBad -> False.
Proof.
  induction f as [|f IH]; intros r ex n sr H Hc Hd Hnb; [discriminate|]. cbn [deadb] in H.
  destruct r as [i|i|c rows i|]; try discriminate. rewrite forallb_forall in H.
  destruct ex as [|[g gr] ex].
  - change (last_ref (SSeqIn c rows i) []) with (SSeqIn c rows i) in Hd.
    destruct Hd as (rows' & x & Hr & Hin & Hk & Href). cbn [rows_of] in Hr. injection Hr as <-.
    specialize (H x Hin). destruct x as [k n' mn mx|k n' r' mn mx|]; cbn [row_name_kind] in Hk; [| |discriminate].
    + injection Hk as -> ->. discriminate.
    + injection Hk as -> ->. destruct r'; try discriminate.
      unfold Groups.row_ref in Href. cbn [row_view vc_ref] in Href. injection Href as <-. now apply Hnb.
  - destruct Hc as [Hdg Hc]. rewrite last_ref_cons in Hd.
    destruct Hdg as (rows' & x & Hr & Hin & Hk & Href). cbn [rows_of] in Hr. injection Hr as <-.
    specialize (H x Hin). destruct x as [k n' mn mx|k n' r' mn mx|]; cbn [row_name_kind] in Hk; [| |discriminate].
    + injection Hk as -> ->. unfold Groups.row_ref in Href. cbn [row_view table_of] in Href.
      destruct (slookup g (t_groups t)) as [gr'|]; [|discriminate]. cbn [vc_ref] in Href. injection Href as <-.
      exact (IH gr' ex n sr H Hc Hd Hnb).
    + injection Hk as -> ->. discriminate.
Qed.

(* every group on a path from a clean reference to a segment row the search finds is clean *)
Lemma clean_found : groups_okb = true -> forall ex r n sr, cleanb r = true -> chain t r ex ->
  declared t (last_ref r ex) SEG n sr -> sr <> SBad -> Forall (fun p : str * sref => mref t (snd p)) ex.
Proof.
  intros Hok. unfold groups_okb in Hok. rewrite forallb_forall in Hok.
  induction ex as [|[g gr] ex IH]; intros r n sr Hr Hc Hd Hnb; [constructor|].
  destruct Hc as [Hdg Hc]. rewrite last_ref_cons in Hd.
  destruct (cleanb_mref r Hr) as (c & rows & i & -> & Hm).
  destruct (declared_grp t c rows i g gr Hm Hdg) as (_ & Hl & _).
  pose proof (Hok _ (slookup_in _ _ _ Hl)) as H. cbn [snd] in H.
  destruct (cleanb gr) eqn:Hcl; [|exfalso; exact (dead_no_find 12 gr ex n sr H Hc Hd Hnb)].
  constructor; [now apply cleanb_mref|]. exact (IH gr n sr Hcl Hc Hd Hnb).
Qed.
End TabCheck.

(* ------------------------------------------------------------------ *)
(* parse_segments establishes the invariant *)
Section Assemble.
Variable t : tables.
Hypothesis Hst : base t (Some (unbs "ST")) = true.
Hypothesis Hvar : base t (Some (unbs "varies")) = false.
Hypothesis Hgf : forall n r, slookup n (t_fields t) = Some r -> ValidateTotal.gref t r.
Hypothesis Hgc : forall n r, slookup n (t_components t) = Some r -> ValidateTotal.gref t r.
Hypothesis Hgs : forall n r, length n <= 3 -> slookup n (t_segments t) = Some r -> gseg t n r.
Hypothesis Hkeys : seg_keys_ok t = true.
Hypothesis Hnoz : no_z_keys t = true.
Variable lvl : level.
Variable e : ec.
Variable leaf : option str -> str -> result str.

Lemma seg_of_piece_sgood s : pc (sgood t) (seg_of_piece t lvl e leaf s None).
Proof. unfold seg_of_piece. apply (parse_segment_sgood t Hst Hvar Hgf Hgc Hgs). Qed.

Lemma seg_of_piece_sgood_ref r s sr : NoCrashGroupedCore.gref t r -> declared t r SEG (take 3 s) sr -> sr <> SBad ->
  pc (sgood t) (seg_of_piece t lvl e leaf s (Some sr)).
Proof.
  intros Hr Hd Hnb. pose proof (gref_seg t r _ sr Hr Hd Hnb) as Hl.
  assert (Hlen : length (take 3 s) <= 3) by (unfold take; apply firstn_le_length).
  destruct (Hgs _ _ Hlen Hl) as (rows & _ & H3 & _).
  destruct (seg_keys_sound t _ sr Hkeys Hl Hlen) as [Hup Hns].
  assert (Hz : valid_z_segment_name (take 3 s) = false).
  { unfold no_z_keys in Hnoz. rewrite forallb_forall in Hnoz. specialize (Hnoz _ (slookup_in _ _ _ Hl)). cbn [fst] in Hnoz.
    apply orb_prop in Hnoz. destruct Hnoz as [Hn|Hn]; [apply Nat.ltb_lt in Hn; lia|now apply negb_true_iff]. }
  unfold seg_of_piece, parse_segment.
  rewrite (Proofs.RoundTripMsg.mk_segment_own t (seg_name_of (strip s)) sr).
  - exact (parse_segment_sgood t Hst Hvar Hgf Hgc Hgs lvl e leaf (strip s)).
  - right. unfold seg_name_of. rewrite (Proofs.RoundTripMsg.take3_strip s (take 3 s) eq_refl H3 Hns), Hup. auto.
Qed.

Lemma flat_nok pr ps : pc (Forall (nok t pr)) (parse_flat t lvl e leaf ps).
Proof.
  induction ps as [|s r IH]; [constructor|]. cbn [parse_flat].
  apply (sp_bind anyx (sgood t)); [apply seg_of_piece_sgood|]. intros x Hx.
  apply (sp_bind anyx (Forall (nok t pr))); [exact IH|]. intros xs Hxs. cbn. constructor; [now constructor|assumption].
Qed.

Lemma gtree_nok (x : gtree seg) : forall pr,
  sound_tree t str seg (take 3) (seg_of_piece t lvl e leaf) pr x ->
  seg_all seg (fun a _ => sgood t a) x -> grp_all seg (mref t) x -> nok t pr (node_of x).
Proof.
  induction x as [a r | n r st cs IH] using gtree_ind'; intros pr Hs Hq Hg; cbn [node_of].
  - constructor. exact Hq.
  - apply sound_tree_GG in Hs. destruct Hs as ((Hd & _) & Hp & Hcs).
    apply seg_all_GG in Hq. apply grp_all_GG in Hg. destruct Hg as [Hm Hg].
    apply (nok_grp t pr n r st (map node_of cs)); try assumption. rewrite Forall_forall in *. intros y Hy. apply in_map_iff in Hy.
    destruct Hy as (z & <- & Hz). exact (IH z Hz r (Hcs z Hz) (Hq z Hz) (Hg z Hz)).
Qed.

Theorem grouped_nok root text kids : NoCrashGroupedCore.gref t root ->
  (forall ex, chain t root ex -> NoDup (map fst ex)) -> groups_okb t = true -> cleanb t root = true ->
  parse_segments_grouped t lvl e leaf root text = Ok kids -> Forall (nok t root) kids.
Proof.
  intros Hroot Hdist Hgok Hclean H. unfold parse_segments_grouped in H. apply bind_ok in H. destruct H as (f & Hf & H).
  injection H as <-. unfold parse_segments_grouped_trees in Hf.
  pose proof (NoCrashGroupedCore.Htab t root (NoCrashGroupedCore.gref t) Hroot (gref_grp t)) as Htab.
  pose proof (find_groups_sound t str seg (take 3) (seg_of_piece t lvl e leaf) s_name (group_acceptance t lvl) root
                Htab _ _ Hf) as Hsound.
  assert (Hsafe : pc (fun f => Forall (seg_all seg (fun a _ => sgood t a)) f /\ Forall (ne_tree seg) f)
                     (find_groups t str seg (take 3) (seg_of_piece t lvl e leaf) s_name (group_acceptance t lvl) root
                                  (pieces text))).
  { apply (find_groups_safe anyx t str seg (take 3) (seg_of_piece t lvl e leaf) s_name (group_acceptance t lvl)
             root (fun a _ => sgood t a) (NoCrashGroupedCore.gref t)).
    - exact Hroot.
    - intros r g gr. apply gref_grp.
    - apply NoCrashGroupedCore.gref_parse.
    - intros name r. apply gref_search.
    - exact Hdist.
    - intros p have c. destruct (group_acceptance t lvl p have c); exact I.
    - intros r x sr. apply seg_of_piece_sgood_ref.
    - apply seg_of_piece_sgood. }
  destruct (sp_inv anyx _ _ f Hsafe Hf) as [Hq _].
  pose proof (find_groups_grp_all t str seg (take 3) (seg_of_piece t lvl e leaf) s_name (group_acceptance t lvl) root
                (mref t) Htab (fun ex n sr => clean_found t Hgok ex root n sr Hclean) _ _ Hf) as Hg.
  rewrite Forall_forall in *. intros y Hy. apply in_map_iff in Hy. destruct Hy as (z & <- & Hz).
  exact (gtree_nok z root (Hsound z Hz) (Hq z Hz) (Hg z Hz)).
Qed.
End Assemble.
